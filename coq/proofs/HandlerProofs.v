(* HandlerProofs.v — C08 (F): the automatic replies of ControlHandler.Handle
   to ping, pong and close frames are valid frames with the right content, for
   every payload of at most 125 bytes, both sides, every copy chunking. *)
Require Import Bytes Stream Utf8Spec Check Frame Cipher Extracted Writer Handler
  BytesProofs StreamProofs FrameProofs CipherProofs CheckProofs WriterProofs WriterInv WriterFrameProofs
  WriterHistProofs ControlWriterProofs.
From Coq Require Import ZifyBool ZifyN ZifyNat.
Open Scope N_scope.

(* ------------------------------------------------------------------ reading the payload *)
Lemma read_source_full n avail unmask key : 0 < n -> len avail = n ->
  read_source n avail TEOF unmask key = ((if unmask then cipher avail key 0 else avail), None).
Proof.
  intros Hn Hl. unfold read_source, read_full, whole.
  destruct avail as [|a r] eqn:Ea; [rewrite len_nil in Hl; lia|]. rewrite <- Ea in *.
  cbn [chunks tl read_full_aux]. replace (n =? 0) with false by lia. replace (n <=? len avail) with true by lia.
  rewrite take_all by lia. reflexivity.
Qed.

Lemma mask_spec_len p key off : len (mask_spec p key off) = len p.
Proof. unfold len. rewrite mask_spec_length. reflexivity. Qed.

(* the payload as the handler sees it *)
Lemma read_source_payload n payload unmask key : 0 < n -> len payload = n -> wf_bytes payload ->
  (unmask = true -> wf_key key) ->
  read_source n (if unmask then mask_spec payload key 0 else payload) TEOF unmask key = (payload, None).
Proof.
  intros Hn Hl Hp Hk. rewrite read_source_full; [|assumption|destruct unmask; [rewrite mask_spec_len|]; assumption].
  destruct unmask; [|reflexivity]. specialize (Hk eq_refl).
  rewrite cipher_is_spec; [|apply mask_spec_wf; [assumption|apply Hk]|assumption].
  rewrite mask_spec_involutive. reflexivity.
Qed.

(* ------------------------------------------------------------------ reply frames *)
Section Reply.
Variable state : N.
Hypothesis Hstate : state = 1 \/ state = 2.

Lemma reply_frame_ok_of f : wf_pframe f -> h_fin (pf_header f) = true -> h_rsv (pf_header f) = 0 ->
  (h_op (pf_header f) = 8 \/ h_op (pf_header f) = 10) -> h_masked (pf_header f) = client_side state ->
  len (pf_payload f) <= 125 -> reply_frame_ok state f = true.
Proof.
  intros (_ & Hl & _ & _) Hfin Hrsv Hop Hm Hlen. unfold reply_frame_ok.
  rewrite Hfin, Hrsv, Hm. replace (len (pf_payload f) <=? 125) with true by lia.
  rewrite Bool.eqb_reflx. cbn [N.eqb andb]. rewrite !andb_true_r.
  unfold check_header, max_control_payload. rewrite Hfin, Hrsv, Hm, Hl.
  replace (125 <? Z.of_N (len (pf_payload f)))%Z with false by lia.
  destruct Hstate as [-> | ->]; destruct Hop as [-> | ->]; reflexivity.
Qed.

(* a frame written directly: header (and payload) by the handler itself *)
Definition direct_frame (op : N) (key body : list byte) : pframe :=
  let client := client_side state in
  mkPF (mkHeader true 0 op client (if client then key else zero_mask) (Z.of_N (len body)))
       (if client then mask_spec body key 0 else body).

Lemma direct_frame_ok op key body : (op = 8 \/ op = 10) -> wf_key key -> wf_bytes body -> len body <= 125 ->
  let f := direct_frame op key body in
  wf_pframe f /\ reply_frame_ok state f = true /\ pf_unmasked f = body /\ h_op (pf_header f) = op.
Proof.
  intros Hop [Hk1 Hk2] Hb Hl f.
  assert (Hwf: wf_pframe f).
  { subst f. unfold direct_frame, wf_pframe. cbn [pf_header pf_payload h_len h_masked h_mask].
    split; [|split; [|split]].
    - unfold wf_header. cbn [h_rsv h_op h_len h_mask].
      split; [lia|]. split; [destruct Hop as [-> | ->]; lia|]. split; [lia|].
      destruct (client_side state); [split; assumption|split; [reflexivity|repeat constructor]].
    - destruct (client_side state); [rewrite mask_spec_len|]; reflexivity.
    - destruct (client_side state); [apply mask_spec_wf|]; assumption.
    - intros ->. reflexivity. }
  split; [assumption|]. split; [|split].
  - apply reply_frame_ok_of; try assumption; try reflexivity.
    subst f. unfold direct_frame. cbn [pf_payload]. destruct (client_side state); [rewrite mask_spec_len|]; assumption.
  - subst f. unfold pf_unmasked, direct_frame. cbn [pf_header pf_payload h_masked h_mask].
    destruct (client_side state); [apply mask_spec_involutive|reflexivity].
  - reflexivity.
Qed.

Lemma frames_of_one f : wf_pframe f -> frames_of (frame_bytes f) = Some [f].
Proof.
  intros H. rewrite <- (app_nil_r (frame_bytes f)). change (frame_bytes f ++ []) with (wire [f]).
  apply frames_of_wire. constructor; [assumption|constructor].
Qed.

(* WriteHeader of an empty control frame *)
Lemma write_empty_control_frame op : (op = 8 \/ op = 10) ->
  let f := direct_frame op zero_mask [] in
  write_empty_control op state (mkDest [] None) = (true, mkDest [frame_bytes f] None).
Proof.
  intros Hop f. destruct (direct_frame_ok op zero_mask [] Hop zero_mask_wf ltac:(constructor) ltac:(rewrite len_nil; lia)) as (Hwf & _).
  unfold write_empty_control.
  assert (Eh: mkHeader true 0 op (client_side state) zero_mask 0 = pf_header f).
  { subst f. unfold direct_frame. cbn [pf_header len length N.of_nat Z.of_N]. destruct (client_side state); reflexivity. }
  assert (Ep: pf_payload f = []) by (subst f; unfold direct_frame; cbn [pf_payload mask_spec]; destruct (client_side state); reflexivity).
  rewrite Eh, write_header_rfc by apply Hwf. unfold dest_write. cbn [d_fail_at d_calls].
  unfold frame_bytes. rewrite Ep, app_nil_r. reflexivity.
Qed.

(* closeWithProtocolError *)
Lemma close_with_protocol_error_frame text masks : wf_bytes text -> len text <= 123 -> Forall wf_key masks ->
  let key := match masks with m :: _ => m | [] => zero_mask end in
  let f := direct_frame 8 key (new_close_body 1002 text) in
  exists d', close_with_protocol_error state text masks (mkDest [] None) = (true, d') /\
    concat (dest_log d') = frame_bytes f.
Proof.
  intros Ht Hl Hm key f.
  assert (Hk: wf_key key) by (subst key; destruct masks; [apply zero_mask_wf|inversion Hm; assumption]).
  assert (Hbw: wf_bytes (new_close_body 1002 text)) by (apply close_body_wf; assumption).
  assert (Hbl: len (new_close_body 1002 text) <= 125) by (rewrite close_body_len; lia).
  destruct (direct_frame_ok 8 key _ (or_introl eq_refl) Hk Hbw Hbl) as (Hwf & _). fold f in Hwf.
  unfold close_with_protocol_error. fold key.
  change (mkHeader true 0 8 (client_side state) (if client_side state then key else zero_mask)
            (Z.of_N (len (new_close_body 1002 text)))) with (pf_header f).
  rewrite write_header_rfc by apply Hwf.
  unfold dest_write. cbn [d_fail_at d_calls].
  eexists. split; [reflexivity|]. unfold dest_log. cbn [d_calls rev_append concat]. rewrite app_nil_r.
  unfold frame_bytes. f_equal. subst f. unfold direct_frame. cbn [pf_payload].
  destruct (client_side state); [|reflexivity]. apply cipher_is_spec; assumption.
Qed.
End Reply.

(* ------------------------------------------------------------------ the control writer inside the handler *)
Definition copy_step (acc : option cwriter * bool) (p : list byte) : option cwriter * bool :=
  match acc with
  | (Some c, true) =>
    let '(r, c1) := control_write p c in
    match r with
    | inr (_, None) => (Some c1, true)
    | _ => (Some c1, false)
    end
  | _ => acc
  end.

Section HCtl.
Variables (state : N) (op : N).
Hypothesis Hop16 : op < 16.
Notation client := (client_side state).

Lemma handler_ctl n masks : 0 < n -> n <= 125 -> Forall wf_key masks ->
  exists c0, new_control_writer_buffer (mkDest [] None) state op (n + w_header_size state n) masks = inr c0 /\
    Ctl client op c0 [] /\ c_limit c0 = n.
Proof.
  intros Hn0 Hn Hm. unfold new_control_writer_buffer.
  assert (Hhs: w_header_size state n = 2 + mask_len state /\ w_header_size state 125 = 2 + mask_len state).
  { unfold w_header_size. replace (n <? 126) with true by lia. split; reflexivity. }
  destruct Hhs as [Hh1 Hh2]. rewrite Hh1, Hh2.
  replace (N.min (n + (2 + mask_len state)) (125 + (2 + mask_len state))) with (n + (2 + mask_len state)) by lia.
  set (rawlen := n + (2 + mask_len state)).
  assert (Hres: reserve state rawlen = mask_len state + 2).
  { unfold reserve. replace (rawlen <=? 125 + mask_len state + 2) with true by (subst rawlen; lia). reflexivity. }
  destruct (new_writer_buffer (mkDest [] None) state op rawlen masks) as [pn|w] eqn:Ew.
  { exfalso. unfold new_writer_buffer in Ew. rewrite Hres in Ew.
    replace (rawlen <=? mask_len state + 2) with false in Ew by (subst rawlen; lia). discriminate. }
  exists (mkCtl w (w_buflen w) 0). split; [reflexivity|]. split.
  - apply (new_writer_buffer_Ctl state op rawlen masks w (w_buflen w) Ew); [rewrite Hh2; subst rawlen; lia|left; reflexivity|assumption|assumption].
  - cbn [c_limit]. unfold new_writer_buffer in Ew. rewrite Hres in Ew.
    replace (rawlen <=? mask_len state + 2) with false in Ew by (subst rawlen; lia). injection Ew as <-.
    cbn [w_buflen]. subst rawlen. lia.
Qed.

Lemma control_write_limit p c : c_limit (snd (control_write p c)) = c_limit c.
Proof. unfold control_write. destruct (_ <? _); [reflexivity|]. destruct (write p (c_w c)). reflexivity. Qed.

(* io.Copy: every piece is accepted when the whole fits the limit *)
Lemma copy_ok : forall pieces c acc, Ctl client op c acc -> Forall wf_bytes pieces ->
  len acc + len (concat pieces) <= c_limit c ->
  exists c', fold_left copy_step pieces (Some c, true) = (Some c', true) /\
    Ctl client op c' (acc ++ concat pieces) /\ c_limit c' = c_limit c.
Proof.
  induction pieces as [|p r IH]; intros c acc Hk Hps Hfit.
  - exists c. cbn. rewrite app_nil_r. auto.
  - inversion Hps as [|? ? Hp Hr]; subst. cbn [concat] in Hfit. rewrite len_app in Hfit.
    cbn [fold_left copy_step].
    pose proof (control_write_ok client op p c acc Hk Hp) as H.
    pose proof (control_write_limit p c) as Hlim.
    destruct (control_write p c) as [res c1]. cbn [snd] in Hlim.
    destruct H as [(Hov & _)|(_ & -> & Hk1)]; [rewrite (k_n _ _ _ _ Hk) in Hov; lia|].
    destruct (IH c1 (acc ++ p) Hk1 Hr) as (c' & Hf & Hk' & Hl'); [rewrite len_app, Hlim; lia|].
    exists c'. split; [exact Hf|]. cbn [concat]. rewrite app_assoc. split; [assumption|congruence].
Qed.

(* Flush of a control writer that accepted something: exactly one final frame *)
Lemma control_flush_frame c acc : Ctl client op c acc -> acc <> [] ->
  exists f c2, control_flush c = (inr None, c2) /\ dest_log (w_dest (c_w c2)) = [frame_bytes f] /\
    wf_pframe f /\ h_fin (pf_header f) = true /\ h_rsv (pf_header f) = 0 /\ h_op (pf_header f) = op /\
    h_masked (pf_header f) = client /\ pf_unmasked f = acc /\ len (pf_payload f) = len acc.
Proof.
  intros [K1 K2 K3 K4 K5 K6 K7 K8 K9 K10] Hne. unfold control_flush.
  assert (Hd: w_dirty (c_w c) = true) by (destruct (w_dirty (c_w c)); [reflexivity|exfalso; apply Hne, K9; reflexivity]).
  rewrite (flush_C client op false (c_w c) K1 (or_introl Hd)).
  destruct (flush_fragment_raw_C client op false true (c_w c) K1) as [_ Hg].
  set (f := out_frame (c_w c) true (w_rsv (c_w c)) (w_buf (c_w c))) in *.
  destruct Hg as (Hwf & Hfin & Hopf & Hm & Hrsv). rewrite K6 in Hopf. cbn [N.eqb] in Hopf.
  exists f. eexists. split; [reflexivity|]. cbn [c_w]. unfold sent1, with_dest. wsimpl.
  split; [unfold push, dest_log; cbn [d_calls]; rewrite K8; reflexivity|].
  split; [assumption|]. split; [assumption|]. split; [rewrite Hrsv, andb_false_r; reflexivity|].
  split; [assumption|]. split; [assumption|].
  split; [subst f; rewrite out_frame_unmasked; assumption|].
  subst f. unfold out_frame. cbn [pf_payload]. rewrite K2. destruct (client_side (w_state (c_w c))); [apply mask_spec_len|reflexivity].
Qed.
End HCtl.

(* ------------------------------------------------------------------ the monitor on a single reply frame *)
Lemma monitor_ping state payload log f : concat log = frame_bytes f -> wf_pframe f ->
  reply_frame_ok state f = true -> h_op (pf_header f) = 10 -> pf_unmasked f = payload ->
  c08_reply_monitor state 9 payload log HNil = true.
Proof.
  intros Hl Hwf Hok Hop Hp. unfold c08_reply_monitor. rewrite Hl, frames_of_one by assumption.
  cbn [forallb]. rewrite Hok, Hop, Hp. cbn [andb N.eqb Pos.eqb].
  apply bytes_eqb_eq. reflexivity.
Qed.

Lemma monitor_pong state payload : c08_reply_monitor state 10 payload [] HNil = true.
Proof. reflexivity. Qed.

Lemma monitor_close_empty state log f : concat log = frame_bytes f -> wf_pframe f ->
  reply_frame_ok state f = true -> h_op (pf_header f) = 8 -> pf_unmasked f = [] ->
  c08_reply_monitor state 8 [] log (HClosed 1005 []) = true.
Proof.
  intros Hl Hwf Hok Hop Hp. unfold c08_reply_monitor. rewrite Hl, frames_of_one by assumption.
  cbn [forallb]. rewrite Hok, Hop, Hp. reflexivity.
Qed.

Lemma check_close_gen_true c b : check_close_gen c b = None -> check_close_gen c true = None.
Proof.
  unfold check_close_gen. destruct (sc_not_used c); [discriminate|]. destruct (sc_protocol_reserved c); [discriminate|].
  destruct (c =? 1004); [discriminate|]. destruct (_ && _); [discriminate|]. reflexivity.
Qed.

Lemma monitor_close_valid state a b r log f : concat log = frame_bytes f -> wf_pframe f ->
  reply_frame_ok state f = true -> h_op (pf_header f) = 8 -> pf_unmasked f = [a; b] ->
  check_close (be_val [a; b]) r = None ->
  c08_reply_monitor state 8 (a :: b :: r) log (HClosed (be_val [a; b]) r) = true.
Proof.
  intros Hl Hwf Hok Hop Hp Hck. unfold c08_reply_monitor. rewrite Hl, frames_of_one by assumption.
  cbn [forallb]. rewrite Hok, Hop, Hp. cbn [andb N.eqb Pos.eqb parse_close].
  rewrite Hck. rewrite !len_cons. replace (2 <=? 1 + (1 + len r)) with true by lia. cbn [andb].
  assert (Hc0: check_close (be_val [a; b]) [] = None) by (unfold check_close in *; cbn [valid_utf8]; eapply check_close_gen_true; eassumption).
  rewrite Hc0. rewrite len_nil. cbn [andb N.leb N.compare Pos.compare Pos.compare_cont N.add Pos.add].
  rewrite N.eqb_refl. cbn [andb]. apply bytes_eqb_eq. reflexivity.
Qed.

Lemma err_text_ok ce : wf_bytes (close_err_text ce) /\ len (close_err_text ce) <= 123 /\
  check_close 1002 (firstn 123 (close_err_text ce)) = None.
Proof.
  split; [apply wf_bytesb_ok; destruct ce; reflexivity|].
  split; [destruct ce; vm_compute; discriminate|destruct ce; vm_compute; reflexivity].
Qed.

Lemma monitor_close_invalid state payload ce log f : concat log = frame_bytes f -> wf_pframe f ->
  reply_frame_ok state f = true -> h_op (pf_header f) = 8 ->
  pf_unmasked f = new_close_body 1002 (close_err_text ce) -> payload <> [] ->
  check_close (fst (parse_close payload)) (snd (parse_close payload)) = Some ce ->
  c08_reply_monitor state 8 payload log (HProto ce) = true.
Proof.
  intros Hl Hwf Hok Hop Hp Hne Hck. unfold c08_reply_monitor. rewrite Hl, frames_of_one by assumption.
  cbn [forallb]. rewrite Hok, Hop, Hp. cbn [andb N.eqb Pos.eqb].
  destruct payload as [|p0 pr]; [congruence|].
  destruct (parse_close (p0 :: pr)) as [code reason]. cbn [fst snd] in Hck. rewrite Hck.
  rewrite andb_false_r.
  rewrite close_body_parse by lia. destruct (err_text_ok ce) as (_ & Hlen & Hcc). rewrite Hcc.
  rewrite close_body_len. replace (2 <=? N.min (2 + len (close_err_text ce)) 125) with true by lia.
  reflexivity.
Qed.

(* ------------------------------------------------------------------ C08 (F): the replies *)
Lemma handle_copy_step state unmask h avail t copy_sizes masks d :
  h_op h = 9 -> Z.to_N (h_len h) <> 0 ->
  handle state unmask h avail t copy_sizes masks d =
    match new_control_writer_buffer d state 10 (Z.to_N (h_len h) + w_header_size state (Z.to_N (h_len h))) masks with
    | inl _ => (HPanic, d)
    | inr c0 =>
      let '(data, e) := read_source (Z.to_N (h_len h)) avail t unmask (h_mask h) in
      match fold_left copy_step (chunk_by copy_sizes data) (Some c0, true) with
      | (Some c1, true) =>
        match e with
        | Some e => (HIoErr e, w_dest (c_w c1))
        | None =>
          let '(r, c2) := control_flush c1 in
          match r with
          | inr None => (HNil, w_dest (c_w c2))
          | _ => (HWriteErr, w_dest (c_w c2))
          end
        end
      | (Some c1, false) => (HWriteErr, w_dest (c_w c1))
      | _ => (HPanic, d)
      end
    end.
Proof.
  intros Hop Hn. unfold handle. rewrite Hop. cbn [N.eqb Pos.eqb].
  replace (Z.to_N (h_len h) =? 0) with false by lia. reflexivity.
Qed.

Theorem handle_reply_ok state op payload h unmask copy_sizes masks :
  (state = 1 \/ state = 2) -> (op = 8 \/ op = 9 \/ op = 10) -> wf_bytes payload -> len payload <= 125 ->
  h_op h = op -> h_len h = Z.of_N (len payload) -> (unmask = true -> wf_key (h_mask h)) -> Forall wf_key masks ->
  let avail := if unmask then mask_spec payload (h_mask h) 0 else payload in
  let '(res, d') := handle state unmask h avail TEOF copy_sizes masks (mkDest [] None) in
  c08_reply_monitor state op payload (dest_log d') res = true.
Proof.
  intros Hst Hop Hp Hl Hho Hhl Hk Hm avail.
  assert (Hn: Z.to_N (h_len h) = len payload) by (rewrite Hhl; apply N2Z.id).
  destruct (N.eq_dec (len payload) 0) as [Hz|Hnz].
  - (* empty payload *)
    assert (Hpe: payload = []) by (destruct payload; [reflexivity|rewrite len_cons in Hz; lia]). subst payload.
    destruct Hop as [-> |[-> | ->]]; unfold handle; rewrite Hho, Hn, Hz; cbn [N.eqb Pos.eqb].
    + rewrite (write_empty_control_frame state Hst 8 (or_introl eq_refl)).
      destruct (direct_frame_ok state Hst 8 zero_mask [] (or_introl eq_refl) zero_mask_wf ltac:(constructor) ltac:(rewrite len_nil; lia))
        as (Hwf & Hok & Hun & Ho).
      eapply monitor_close_empty; try eassumption. unfold dest_log. cbn [d_calls rev_append concat]. apply app_nil_r.
    + rewrite (write_empty_control_frame state Hst 10 (or_intror eq_refl)).
      destruct (direct_frame_ok state Hst 10 zero_mask [] (or_intror eq_refl) zero_mask_wf ltac:(constructor) ltac:(rewrite len_nil; lia))
        as (Hwf & Hok & Hun & Ho).
      eapply monitor_ping; try eassumption. unfold dest_log. cbn [d_calls rev_append concat]. apply app_nil_r.
    + reflexivity.
  - (* payload of 1..125 bytes *)
    assert (Hn0: 0 < len payload) by lia.
    pose proof (read_source_payload (len payload) payload unmask (h_mask h) Hn0 eq_refl Hp Hk) as Hrs. fold avail in Hrs.
    destruct Hop as [-> |[-> | ->]].
    + (* close *)
      unfold handle. rewrite Hho, Hn. cbn [N.eqb Pos.eqb]. replace (len payload =? 0) with false by lia.
      rewrite Hrs. destruct (parse_close payload) as [code reason] eqn:Epc.
      assert (Hne: payload <> []) by (clear -Hn0; destruct payload; [cbn in Hn0; lia|discriminate]).
      destruct (check_close code reason) as [ce|] eqn:Eck.
      * destruct (err_text_ok ce) as (Htw & Htl & _).
        destruct (close_with_protocol_error_frame state Hst (close_err_text ce) masks Htw Htl Hm) as (d' & Hcw & Hlog).
        rewrite Hcw.
        set (key := match masks with m :: _ => m | [] => zero_mask end) in *.
        assert (Hkey: wf_key key) by (subst key; destruct masks; [apply zero_mask_wf|inversion Hm; assumption]).
        destruct (direct_frame_ok state Hst 8 key (new_close_body 1002 (close_err_text ce)) (or_introl eq_refl) Hkey
                    (close_body_wf _ _ Htw) ltac:(rewrite close_body_len; lia)) as (Hwf & Hok & Hun & Ho).
        eapply monitor_close_invalid; try eassumption. rewrite Epc. exact Eck.
      * (* acceptable close frame: echo the status code *)
        destruct payload as [|a [|b r]]; [congruence| |].
        { cbn [parse_close] in Epc. injection Epc as <- <-. vm_compute in Eck. discriminate. }
        cbn [parse_close] in Epc. injection Epc as <- <-.
        destruct (handler_ctl state 8 ltac:(lia) (len (a :: b :: r)) masks Hn0 Hl Hm) as (c0 & Hc0 & Hk0 & Hlim).
        rewrite Hc0.
        pose proof (control_write_ok (client_side state) 8 (take 2 (a :: b :: r)) c0 [] Hk0 ltac:(apply wf_bytes_take; assumption)) as Hcw.
        destruct (control_write (take 2 (a :: b :: r)) c0) as [res c1].
        assert (Ht2: take 2 (a :: b :: r) = [a; b]) by reflexivity. rewrite Ht2 in *.
        destruct Hcw as [(Hov & _)|(_ & -> & Hk1)].
        { rewrite (k_n _ _ _ _ Hk0), Hlim in Hov. rewrite !len_cons, len_nil in Hov. lia. }
        cbn [app] in Hk1.
        destruct (control_flush_frame state 8 c1 [a; b] Hk1 ltac:(discriminate)) as (f & c2 & Hfl & Hlog & Hwf & Hfin & Hrsv & Hopf & Hmk & Hun & Hlen).
        rewrite Hfl. 
        eapply monitor_close_valid; try eassumption.
        -- rewrite Hlog. cbn [concat]. apply app_nil_r.
        -- apply (reply_frame_ok_of state Hst f Hwf Hfin Hrsv (or_introl Hopf) Hmk). rewrite Hlen. cbn. lia.
    + (* ping: echo the payload in a pong *)
      rewrite handle_copy_step by (try assumption; lia). rewrite Hn.
      destruct (handler_ctl state 10 ltac:(lia) (len payload) masks Hn0 Hl Hm) as (c0 & Hc0 & Hk0 & Hlim).
      rewrite Hc0, Hrs.
      destruct (copy_ok state 10 ltac:(lia) (chunk_by copy_sizes payload) c0 [] Hk0) as (c1 & Hf & Hk1 & _).
      { pose proof (chunk_by_flat copy_sizes payload) as Hfl.
        assert (G: forall cs, wf_bytes (concat cs) -> Forall wf_bytes cs).
        { induction cs as [|x xs IH]; intros Hc; [constructor|]. cbn [concat] in Hc. apply wf_bytes_app in Hc.
          destruct Hc. constructor; auto. }
        apply G. rewrite Hfl. assumption. }
      { rewrite chunk_by_flat, len_nil, Hlim. lia. }
      rewrite Hf. rewrite chunk_by_flat in Hk1. cbn [app] in Hk1.
      assert (Hne: payload <> []) by (clear -Hn0; destruct payload; [cbn in Hn0; lia|discriminate]).
      destruct (control_flush_frame state 10 c1 payload Hk1 Hne) as (f & c2 & Hfl & Hlog & Hwf & Hfin & Hrsv & Hopf & Hmk & Hun & Hlen).
      rewrite Hfl.
      eapply monitor_ping; try eassumption.
      * rewrite Hlog. cbn [concat]. apply app_nil_r.
      * apply (reply_frame_ok_of state Hst f Hwf Hfin Hrsv (or_intror Hopf) Hmk). rewrite Hlen. assumption.
    + (* pong: nothing to send *)
      unfold handle. rewrite Hho, Hn. cbn [N.eqb Pos.eqb]. replace (len payload =? 0) with false by lia.
      assert (Hrs': read_source (len payload) avail TEOF false (h_mask h) = (avail, None)).
      { apply read_source_full; [assumption|]. subst avail. destruct unmask; [apply mask_spec_len|reflexivity]. }
      rewrite Hrs'. reflexivity.
Qed.
