(* Tie C3, continued: WriteHeader (write.go) translated from the source, against model/Frame.v write_header.
   The local buffer bts is a NEW 14-byte array of the heap; io.Writer.Write is an oracle that records the
   bytes it is handed (GoMem.m_io_write). *)
From Coq Require Import NArith ZArith List Bool Lia ZifyBool ZifyN ZifyNat.
Require Import Bytes GoSlices GoMem GoMemProofs Translated3 Translated3Ok.
Require Import Stream Check Frame BytesProofs.
Import ListNotations.
Open Scope Z_scope.

(* ------------------------------------------------------------------ steps on the canonical form *)
Section Steps.
  Variables (w0 : world) (s : slice) (cur : list Z).
  Hypothesis Hv : sl_valid w0 s.
  Hypothesis Hlen : go_len cur = sl_len s.

  Lemma put_valid : sl_valid (sl_put w0 s cur) s.
  Proof. apply sl_valid_put; assumption. Qed.
  Lemma put_bytes : sl_bytes (sl_put w0 s cur) s = cur.
  Proof. apply sl_bytes_put; assumption. Qed.

  Lemma put_index i : 0 <= i < sl_len s ->
    m_index s i (sl_put w0 s cur) = Ok (nth (Z.to_nat i) cur 0, sl_put w0 s cur).
  Proof. intros Hi. rewrite (m_index_ok _ _ _ put_valid Hi). now rewrite put_bytes. Qed.

  Lemma put_blit_sub c j k src : sl_arr c = sl_arr s -> sl_off c = sl_off s + j -> 0 <= j -> 0 <= k ->
    j + k + go_len src <= sl_len s ->
    sl_blit (sl_put w0 s cur) c k src = sl_put w0 s (list_blit cur (Z.to_nat (j + k)) src).
  Proof.
    intros Ea Eo Hj Hk Hs. rewrite (sl_blit_sub _ s c j k src Ea Eo).
    rewrite (sl_blit_put _ s (j + k) src put_valid) by lia. rewrite put_bytes.
    apply sl_put_put; [assumption|assumption|].
    unfold go_len in *. rewrite list_blit_length; lia.
  Qed.

  Lemma put_store i v : 0 <= i < sl_len s ->
    m_store s i v (sl_put w0 s cur) = Ok (tt, sl_put w0 s (list_blit cur (Z.to_nat i) [v])).
  Proof.
    intros Hi. rewrite m_store_ok by exact Hi. f_equal. f_equal.
    rewrite (put_blit_sub s 0 i [v]); try reflexivity; try lia. unfold go_len. cbn [length]. lia.
  Qed.

  Lemma put_put_uint big k c j v : sl_arr c = sl_arr s -> sl_off c = sl_off s + j -> 0 <= j ->
    Z.of_nat k <= sl_len c -> j + Z.of_nat k <= sl_len s ->
    m_put_uint big k c v (sl_put w0 s cur) =
    Ok (tt, sl_put w0 s (list_blit cur (Z.to_nat j) (if big then be_bytes_z k v else le_bytes_z k v))).
  Proof.
    intros Ea Eo Hj Hk Hs. rewrite m_put_uint_ok by exact Hk. f_equal. f_equal.
    rewrite (put_blit_sub c j 0); try assumption; try lia.
    - now replace (j + 0) with j by lia.
    - unfold go_len. destruct big; rewrite ?be_bytes_z_length, ?le_bytes_z_length; lia.
  Qed.

  Lemma put_copy_list c j src : sl_arr c = sl_arr s -> sl_off c = sl_off s + j -> 0 <= j -> 0 <= sl_len c ->
    j + sl_len c <= sl_len s ->
    m_copy_list c src (sl_put w0 s cur) =
    Ok (Z.min (sl_len c) (go_len src),
        sl_put w0 s (list_blit cur (Z.to_nat j) (firstn (Z.to_nat (Z.min (sl_len c) (go_len src))) src))).
  Proof.
    intros Ea Eo Hj Hc Hs. unfold m_copy_list. f_equal. f_equal.
    rewrite (put_blit_sub c j 0); try assumption; try lia.
    - now replace (j + 0) with j by lia.
    - unfold go_len. rewrite firstn_length. lia.
  Qed.

  Lemma put_io_write {E} (wr : g_writer E) c j : sl_arr c = sl_arr s -> sl_off c = sl_off s + j -> 0 <= j ->
    0 <= sl_len c -> j + sl_len c <= sl_len s ->
    m_io_write wr c (sl_put w0 s cur) =
    Ok (wr (w_out w0) (firstn (Z.to_nat (sl_len c)) (skipn (Z.to_nat j) cur)),
        mk_world (w_heap (sl_put w0 s cur)) (w_out w0 ++ [firstn (Z.to_nat (sl_len c)) (skipn (Z.to_nat j) cur)])).
  Proof.
    intros Ea Eo Hj Hc Hs. unfold m_io_write.
    rewrite (sl_bytes_sub _ s c j put_valid Ea Eo Hj Hc Hs). rewrite put_bytes. reflexivity.
  Qed.
End Steps.

(* ------------------------------------------------------------------ big-endian bytes *)
Lemma be_bytes_snoc k : forall v, be_bytes (S k) v = be_bytes k (v / 256)%N ++ [(v mod 256)%N].
Proof.
  induction k as [|k IH]; intros v.
  - cbn [be_bytes app]. change (256 ^ N.of_nat 0)%N with 1%N. now rewrite N.div_1_r.
  - change (be_bytes (S (S k)) v) with (((v / 256 ^ N.of_nat (S k)) mod 256)%N :: be_bytes (S k) v).
    rewrite IH. change (be_bytes (S k) (v / 256)%N) with ((((v / 256) / 256 ^ N.of_nat k) mod 256)%N :: be_bytes k (v / 256)%N).
    cbn [app]. f_equal. f_equal. rewrite N.div_div by (try apply N.pow_nonzero; lia). f_equal.
    rewrite Nat2N.inj_succ, N.pow_succ_r'. reflexivity.
Qed.
Lemma be_bytes_z_zb k : forall v, be_bytes_z k (Z.of_N v) = zb (be_bytes k v).
Proof.
  induction k as [|k IH]; intros v; [reflexivity|].
  rewrite be_bytes_snoc, zb_app. unfold be_bytes_z in *. cbn [le_bytes_z rev].
  change 256 with (Z.of_N 256%N). rewrite <- N2Z.inj_div, <- N2Z.inj_mod. rewrite IH. reflexivity.
Qed.

(* ------------------------------------------------------------------ WriteHeader *)
Definition hdr_z (h : header) : g3_Header :=
  g3_mk_Header (h_fin h) (Z.of_N (h_rsv h)) (Z.of_N (h_op h)) (h_masked h) (zb (h_mask h)) (h_len h).
(* a value of the Go type ws.Header *)
Definition hdr_go (h : header) : Prop :=
  (h_rsv h < 256)%N /\ (h_op h < 256)%N /\ length (h_mask h) = 4%nat /\ wf_bytes (h_mask h)
  /\ -9223372036854775808 <= h_len h <= 9223372036854775807.

Ltac idx := unfold list_blit; cbn [firstn skipn app length Z.to_nat Pos.to_nat Pos.iter_op Init.Nat.add nth].
Ltac side := first [ assumption | reflexivity | (cbn [sl_len sl_cap sl_off sl_arr]; unfold go_len; cbn [length Z.of_nat Pos.of_succ_nat Pos.succ]; lia) ].

Lemma Hm1 m0 m1 m2 m3 : Z.min (14 - 2) (go_len (zb [m0; m1; m2; m3])) = 4. Proof. reflexivity. Qed.
Lemma Hm2 m0 m1 m2 m3 : Z.min (14 - 4) (go_len (zb [m0; m1; m2; m3])) = 4. Proof. reflexivity. Qed.
Lemma Hm3 m0 m1 m2 m3 : Z.min (14 - 10) (go_len (zb [m0; m1; m2; m3])) = 4. Proof. reflexivity. Qed.
Lemma Hm1' (a b c d : Z) : Z.min (14 - 2) (go_len [a; b; c; d]) = 4. Proof. reflexivity. Qed.
Lemma Hm2' (a b c d : Z) : Z.min (14 - 4) (go_len [a; b; c; d]) = 4. Proof. reflexivity. Qed.
Lemma Hm3' (a b c d : Z) : Z.min (14 - 10) (go_len [a; b; c; d]) = 4. Proof. reflexivity. Qed.
Ltac tonat :=
  repeat match goal with
  | |- context [Z.to_nat ?e] => let v := eval vm_compute in (Z.to_nat e) in change (Z.to_nat e) with v
  | |- context [Pos.to_nat ?e] => let v := eval vm_compute in (Pos.to_nat e) in change (Pos.to_nat e) with v
  end.
Ltac hstep :=
  tonat; idx;
  first
  [ erewrite mbind_ok by (eapply put_index; side)
  | erewrite mbind_ok by (eapply put_store; side)
  | erewrite mbind_ok by (apply m_slice_ok; side)
  | erewrite mbind_ok by (eapply put_put_uint; side); rewrite be_bytes_z_zb; cbn [be_bytes zb map]
  | erewrite mbind_ok by (eapply put_copy_list; side); cbn [sl_len]; rewrite ?Hm1, ?Hm2, ?Hm3, ?Hm1', ?Hm2', ?Hm3'; tonat; rewrite ?wrap_s64_id by lia
  | erewrite mbind_ok by (eapply put_io_write; side); cbn [sl_len]; tonat
  | rewrite mbind_lift_ok ].

Lemma wrap_u8_byte L : wrap_u 8 L = Z.of_N (byte_of_z L).
Proof. unfold wrap_u, byte_of_z. change (2 ^ 8) with 256. pose proof (Z.mod_pos_bound L 256 ltac:(lia)). lia. Qed.
Lemma hb1 L : wrap_u 8 L = Z.of_N (byte_of_z L).
Proof. apply wrap_u8_byte. Qed.
Lemma hb1m L : Z.lor (wrap_u 8 L) 128 = Z.of_N (N.lor (byte_of_z L) 128).
Proof. rewrite wrap_u8_byte. change 128 with (Z.of_N 128%N) at 1. apply Z_lor_of_N. Qed.
Lemma rsv_shift rsv : wrap_u 8 (Z.shiftl (Z.of_N rsv) 4) = Z.of_N (N.shiftl rsv 4 mod 256).
Proof.
  change 4 with (Z.of_N 4%N). rewrite Z_shiftl_of_N. unfold wrap_u. change (2 ^ 8) with (Z.of_N 256%N).
  now rewrite <- N2Z.inj_mod.
Qed.
Lemma hb0_true rsv op : Z.lor (Z.lor (Z.lor 0 128) (wrap_u 8 (Z.shiftl (Z.of_N rsv) 4))) (Z.of_N op)
  = Z.of_N (N.lor (N.lor 128 (N.shiftl rsv 4 mod 256)) op).
Proof. rewrite rsv_shift. change (Z.lor 0 128) with (Z.of_N 128%N). now rewrite !Z_lor_of_N. Qed.
Lemma hb0_false rsv op : Z.lor (Z.lor 0 (wrap_u 8 (Z.shiftl (Z.of_N rsv) 4))) (Z.of_N op)
  = Z.of_N (N.lor (N.lor 0 (N.shiftl rsv 4 mod 256)) op).
Proof. rewrite rsv_shift. change 0 with (Z.of_N 0%N) at 1. now rewrite !Z_lor_of_N. Qed.
Lemma wrap_u16_N L : wrap_u 16 L = Z.of_N (Z.to_N (L mod 65536)).
Proof. unfold wrap_u. change (2 ^ 16) with 65536. pose proof (Z.mod_pos_bound L 65536 ltac:(lia)). lia. Qed.
Lemma wrap_u64_N L : wrap_u 64 L = Z.of_N (Z.to_N (L mod 18446744073709551616)).
Proof. unfold wrap_u. change (2 ^ 64) with 18446744073709551616. pose proof (Z.mod_pos_bound L 18446744073709551616 ltac:(lia)). lia. Qed.

Theorem g3_WriteHeader_ok wr h w : hdr_go h ->
  exists bs arr, write_header h = inr bs /\
    g3_WriteHeader wr (hdr_z h) w =
    Ok (snd (wr (w_out w) (zb bs)), mk_world (w_heap w ++ [arr]) (w_out w ++ [zb bs]))
    /\ length arr = 14%nat /\ firstn (length bs) arr = zb bs.
Proof.
  intros (Hrsv & Hop & Hml & Hmw & Hlen). destruct h as [fin rsv op masked mask L]. cbn [h_fin h_rsv h_op h_masked h_mask h_len] in *.
  unfold g3_WriteHeader, hdr_z. cbn [g3_Header_Fin g3_Header_Rsv g3_Header_OpCode g3_Header_Masked g3_Header_Mask g3_Header_Length h_fin h_rsv h_op h_masked h_mask h_len].
  rewrite !wrap_u16_N, !wrap_u64_N.
  unfold m_make at 1. unfold mbind at 1. cbn [Z.leb Z.compare andb]. cbv zeta.
  set (s := mk_slice (length (w_heap w)) 0 14 14).
  set (w1 := mk_world (w_heap w ++ [repeat 0 (Z.to_nat 14)]) (w_out w)).
  assert (Hv1 : sl_valid w1 s).
  { subst w1 s. unfold sl_valid, arr_of. cbn [w_heap sl_arr sl_off sl_len sl_cap]. rewrite app_length. cbn [length].
    rewrite nth_app_exact, repeat_length. lia. }
  assert (Hb1 : sl_bytes w1 s = [0;0;0;0;0;0;0;0;0;0;0;0;0;0]).
  { subst w1 s. unfold sl_bytes, arr_of. cbn [w_heap sl_arr sl_off sl_len]. rewrite nth_app_exact. reflexivity. }
  rewrite <- (sl_put_same w1 s Hv1). rewrite Hb1.
  destruct mask as [|m0 [|m1 [|m2 [|m3 [|? ?]]]]]; try discriminate. clear Hml.
  change (14 <=? 9223372036854775807) with true. cbv iota beta. subst s.
  assert (Hgs : go_slice (zb [m0; m1; m2; m3]) 0 (go_len (zb [m0; m1; m2; m3])) = Ok (zb [m0; m1; m2; m3])) by reflexivity.
  rewrite !Hgs. clear Hgs.
  destruct (L <=? 125) eqn:E1;
    [|destruct (L <=? 65535) eqn:E2; [|replace (L <=? 9223372036854775807) with true by lia]];
    destruct fin, masked.
  all: repeat hstep.
  all: change (zb [m0; m1; m2; m3]) with [Z.of_N m0; Z.of_N m1; Z.of_N m2; Z.of_N m3]; tonat; idx.
  all: unfold write_header; cbn [h_fin h_rsv h_op h_masked h_mask h_len]; rewrite ?E1, ?E2.
  all: try replace (L <=? 9223372036854775807) with true by lia.
  all: eexists _, _; split; [reflexivity|].
  all: subst w1; rewrite sl_put_fresh by reflexivity; cbn [w_heap w_out].
  all: rewrite ?(hb0_true rsv op), ?(hb0_false rsv op), ?(hb1m L), ?(hb1 L).
  all: cbn [zb map app be_bytes length firstn].
  all: try change (N.lor 126 128) with 254%N; try change (N.lor 127 128) with 255%N;
       try change (Z.lor 126 128) with 254; try change (Z.lor 127 128) with 255; cbn [Z.of_N].
  all: match goal with |- context [snd ?e] => destruct e as [nw ew] end; cbv [ret]; cbn [snd].
  all: split; [reflexivity|split; reflexivity].
Qed.
