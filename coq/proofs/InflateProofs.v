(* InflateProofs.v — what is proved about lib/Inflate.v: the decoder inverts the
   stored-block encoder, for every message, every way of writing it in pieces, with the
   RFC 7692 tail, the reader's 9-byte suffix and arbitrary trailing bytes. *)
Require Import Bytes FlateAux Inflate.
From Coq Require Import ZifyBool ZifyN ZifyNat.
Open Scope N_scope.

Lemma firstn_app_exact' {A} (a b : list A) : firstn (length a) (a ++ b) = a.
Proof. induction a as [|x a IH]; cbn; [destruct b; reflexivity|]. rewrite IH. reflexivity. Qed.
Lemma skipn_app_exact' {A} (a b : list A) : skipn (length a) (a ++ b) = b.
Proof. induction a as [|x a IH]; cbn; [reflexivity|exact IH]. Qed.

Lemma rev_append_app {A} (a b o : list A) : rev_append (a ++ b) o = rev_append b (rev_append a o).
Proof. revert o. induction a as [|x a IH]; intros o; cbn; [reflexivity|apply IH]. Qed.

(* header bits of a stored block: first byte 0 (not final) or 1 (final) *)
Lemma stored_header_bits (b : byte) (r : list byte) : b = 0 \/ b = 1 ->
  get_bits 1 (mkBS (b :: r) 0) = Some (b, mkBS (b :: r) 1) /\
  get_bits 2 (mkBS (b :: r) 1) = Some (0, mkBS (b :: r) 3).
Proof. intros [-> | ->]; split; reflexivity. Qed.

(* one stored block *)
Lemma stored_block_step final c rest out : len c <= 65535 ->
  stored_block (mkBS (stored_header final (len c) ++ c ++ rest) 3) out =
  Some (mkBS rest 0, rev_append c out).
Proof.
  intros Hc. unfold stored_block, stored_header, align. cbn [bs_pos bs_bytes app tl].
  change (3 =? 0) with false. cbn iota.
  set (n := len c) in *.
  assert (E1 : n mod 256 + 256 * (n / 256) = n).
  { pose proof (N.div_mod n 256 ltac:(lia)). lia. }
  assert (E2 : (65535 - n) mod 256 + 256 * ((65535 - n) / 256) = 65535 - n).
  { pose proof (N.div_mod (65535 - n) 256 ltac:(lia)). lia. }
  rewrite E1, E2.
  replace (n + (65535 - n) =? 65535) with true by (symmetry; apply N.eqb_eq; lia).
  cbn [negb]. unfold n, len. rewrite Nat2N.id.
  replace (length (c ++ rest) <? length c)%nat with false
    by (symmetry; apply Nat.ltb_ge; rewrite app_length; lia).
  rewrite firstn_app_exact', skipn_app_exact'. reflexivity.
Qed.

Lemma inflate_stored_nonfinal f c rest out : len c <= 65535 ->
  inflate_blocks (S f) (mkBS (stored_header false (len c) ++ c ++ rest) 0) out =
  inflate_blocks f (mkBS rest 0) (rev_append c out).
Proof.
  intros Hc. pose proof (stored_block_step false c rest out Hc) as SB.
  unfold stored_header in *. cbn [app] in *.
  cbn [inflate_blocks bs_bytes].
  erewrite (proj1 (stored_header_bits 0 _ (or_introl eq_refl))).
  erewrite (proj2 (stored_header_bits 0 _ (or_introl eq_refl))). change (0 =? 0) with true. cbn iota.
  rewrite SB. change (0 =? 1) with false. reflexivity.
Qed.

Lemma inflate_stored_final f junk out :
  inflate_blocks (S f) (mkBS (1 :: sync_tail ++ junk) 0) out = Ok (rev_append out [], true).
Proof.
  pose proof (stored_block_step true [] junk out ltac:(cbn; lia)) as SB.
  unfold stored_header in SB. cbn [app len length N.of_nat] in SB.
  change (0 mod 256) with 0 in SB. change (0 / 256) with 0 in SB.
  change ((65535 - 0) mod 256) with 255 in SB. change ((65535 - 0) / 256) with 255 in SB.
  unfold sync_tail. cbn [app]. cbn [inflate_blocks bs_bytes].
  erewrite (proj1 (stored_header_bits 1 _ (or_intror eq_refl))).
  erewrite (proj2 (stored_header_bits 1 _ (or_intror eq_refl))). change (0 =? 0) with true. cbn iota.
  rewrite SB. change (1 =? 1) with true. reflexivity.
Qed.

Lemma chunk_max_pos : (1 <= chunk_max)%nat.
Proof. unfold chunk_max. lia. Qed.

(* the blocks of one write *)
Lemma inflate_stored_chunks f : forall m rest out, (length m <= f)%nat ->
  exists k, (k <= length m)%nat /\ forall F,
    inflate_blocks (k + F) (mkBS (stored_chunks f m ++ rest) 0) out =
    inflate_blocks F (mkBS rest 0) (rev_append m out).
Proof.
  induction f as [|f IH]; intros m rest out Hm.
  - destruct m; [|cbn in Hm; lia]. exists O. split; [lia|]. reflexivity.
  - destruct m as [|x m']; [exists O; split; [cbn; lia|reflexivity]|].
    cbn [stored_chunks]. set (m := x :: m') in *.
    set (c := firstn chunk_max m). set (m2 := skipn chunk_max m).
    assert (Hc : len c <= 65535).
    { unfold len, c. rewrite firstn_length. unfold chunk_max. lia. }
    assert (Hm2 : (length m2 <= f)%nat).
    { unfold m2. rewrite skipn_length. pose proof chunk_max_pos. unfold m in *. cbn [length] in *. lia. }
    destruct (IH m2 rest (rev_append c out) Hm2) as [k [Hk Hrun]].
    exists (S k). split.
    + unfold m2 in Hk. rewrite skipn_length in Hk. pose proof chunk_max_pos. unfold m in *. cbn [length] in *. lia.
    + intros F. cbn [Nat.add]. rewrite <- app_assoc, <- app_assoc.
      rewrite (inflate_stored_nonfinal (k + F) c (stored_chunks f m2 ++ rest) out Hc).
      rewrite Hrun. rewrite <- rev_append_app. unfold c, m2. rewrite firstn_skipn. reflexivity.
Qed.

(* all the writes of a message *)
Definition stored_stream (ws : list (list byte)) : list byte :=
  concat (map (fun p => stored_chunks (S (length p)) p) ws).

Lemma inflate_stored_stream ws : forall rest out,
  exists k, (k <= length (concat ws))%nat /\ forall F,
    inflate_blocks (k + F) (mkBS (stored_stream ws ++ rest) 0) out =
    inflate_blocks F (mkBS rest 0) (rev_append (concat ws) out).
Proof.
  induction ws as [|p r IH]; intros rest out.
  - exists O. split; [cbn; lia|]. reflexivity.
  - unfold stored_stream. cbn [map concat]. fold (stored_stream r).
    destruct (inflate_stored_chunks (S (length p)) p (stored_stream r ++ rest) out ltac:(lia)) as [k1 [Hk1 H1]].
    destruct (IH rest (rev_append p out)) as [k2 [Hk2 H2]].
    exists (k1 + k2)%nat. split; [rewrite app_length; lia|].
    intros F. rewrite <- app_assoc, <- Nat.add_assoc, H1, H2, rev_append_app. reflexivity.
Qed.

Lemma stored_chunks_length f : forall m, (length m <= f)%nat -> (length m <= length (stored_chunks f m))%nat.
Proof.
  induction f as [|f IH]; intros m Hm; [destruct m; cbn in *; lia|].
  destruct m as [|x m']; [cbn; lia|]. cbn [stored_chunks]. set (m := x :: m') in *.
  rewrite !app_length.
  assert (H2 : (length (skipn chunk_max m) <= f)%nat).
  { rewrite skipn_length. pose proof chunk_max_pos. unfold m in *. cbn [length] in *. lia. }
  specialize (IH _ H2). rewrite <- (firstn_skipn chunk_max m) at 1. rewrite app_length. lia.
Qed.
Lemma stored_stream_length ws : (length (concat ws) <= length (stored_stream ws))%nat.
Proof.
  induction ws as [|p r IH]; [cbn; lia|]. unfold stored_stream in *. cbn [map concat].
  rewrite !app_length. pose proof (stored_chunks_length (S (length p)) p ltac:(lia)). lia.
Qed.

Lemma rev_append_nil {A} (l : list A) : rev_append (rev_append l []) [] = l.
Proof. rewrite !rev_append_rev, !app_nil_r. apply rev_involutive. Qed.

(* (4) the sync-flushed stored encoding of a message written in any pieces, as the
   receiver completes it with 00 00 ff ff: the message, no final block seen *)
Lemma inflate_stored_sync ws :
  inflate_stream (stored_stream ws ++ 0 :: sync_tail) = Ok (concat ws, false).
Proof.
  unfold inflate_stream, inflate_fuel.
  destruct (inflate_stored_stream ws (0 :: sync_tail) []) as [k [Hk H]].
  pose proof (stored_stream_length ws) as Hl.
  set (n := length (stored_stream ws ++ 0 :: sync_tail)).
  assert (Hn : (k + 2 <= S (8 * n))%nat).
  { unfold n. rewrite app_length. cbn [length sync_tail]. lia. }
  replace (S (8 * n)) with (k + S (S (S (8 * n) - k - 2)))%nat by lia.
  rewrite H.
  change (0 :: sync_tail) with (stored_header false (len (@nil byte)) ++ [] ++ []).
  rewrite inflate_stored_nonfinal by (cbn; lia).
  cbn [inflate_blocks bs_bytes rev_append]. rewrite rev_append_nil. reflexivity.
Qed.

(* ... and as the decompression reader feeds it to a decompressor: followed by
   00 00 ff ff 01 00 00 ff ff and whatever comes after *)
Lemma inflate_stored_read_tail ws junk :
  inflate_stream (stored_stream ws ++ 0 :: sync_tail ++ 1 :: sync_tail ++ junk) = Ok (concat ws, true).
Proof.
  unfold inflate_stream, inflate_fuel.
  destruct (inflate_stored_stream ws (0 :: sync_tail ++ 1 :: sync_tail ++ junk) []) as [k [Hk H]].
  pose proof (stored_stream_length ws) as Hl.
  set (n := length (stored_stream ws ++ 0 :: sync_tail ++ 1 :: sync_tail ++ junk)).
  assert (Hn : (k + 2 <= S (8 * n))%nat).
  { unfold n. rewrite app_length. cbn [length sync_tail app]. lia. }
  replace (S (8 * n)) with (k + S (S (S (8 * n) - k - 2)))%nat by lia.
  rewrite H.
  change (0 :: sync_tail ++ 1 :: sync_tail ++ junk)
    with (stored_header false (len (@nil byte)) ++ [] ++ (1 :: sync_tail ++ junk)).
  rewrite inflate_stored_nonfinal by (cbn; lia).
  rewrite inflate_stored_final. cbn [rev_append]. rewrite rev_append_nil. reflexivity.
Qed.

Lemma stored_stream_single m : stored_stream [m] = stored_chunks (S (length m)) m.
Proof. unfold stored_stream. cbn. apply app_nil_r. Qed.

Lemma inflate_stored_message m : inflate (stored_sync m) = Some m.
Proof.
  unfold inflate, stored_sync. rewrite <- stored_stream_single.
  rewrite (inflate_stored_sync [m]). cbn [concat]. rewrite app_nil_r. reflexivity.
Qed.

Lemma inflate_stored_message_read m junk :
  inflate (stored_message m ++ read_tail ++ junk) = Some m.
Proof.
  unfold inflate, stored_message, read_tail. rewrite <- stored_stream_single, <- app_assoc.
  change ([0] ++ [0; 0; 255; 255; 1; 0; 0; 255; 255] ++ junk) with (0 :: sync_tail ++ 1 :: sync_tail ++ junk).
  rewrite (inflate_stored_read_tail [m] junk). cbn [concat]. rewrite app_nil_r. reflexivity.
Qed.
