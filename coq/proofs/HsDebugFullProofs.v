(* HsDebugFullProofs.v — proofs about the full model of wsutil.DebugDialer / wsutil.DebugUpgrader
   (model/HsDebugFull.v): transparency, the callbacks' arguments, no post-handshake byte lost. *)
Require Import Bytes HsBase64 HsSha1 HsBufio HsBufioProofs HsHttpHead HsHttp HsUpgrader HsUpgraderProofs
        HsDialer HsDialerProofs HsAgreementProofs HsDebugFull.
From Coq Require Import ZifyBool ZifyN ZifyNat.
Local Open Scope list_scope.
Open Scope N_scope.

(* ================= 1. the standard-library plumbing *)
Lemma conn_read_flat : forall m cs got cs',
  conn_read m cs = (got, cs') -> concat cs = got ++ concat cs'.
Proof.
  intros m [|c cs] got cs' H; cbn [conn_read] in H.
  - inversion H. reflexivity.
  - destruct (len c <=? m); inversion H; subst; cbn [concat].
    + reflexivity.
    + unfold take, drop. rewrite app_assoc, firstn_skipn. reflexivity.
Qed.

Lemma tee_fetch_flat : forall sizes buf cs cap cs',
  tee_fetch sizes buf cs = (cap, cs') -> cap ++ concat cs' = buf ++ concat cs.
Proof.
  induction sizes as [|m ms IH]; intros buf cs cap cs' H; cbn [tee_fetch] in H.
  - inversion H. reflexivity.
  - destruct (conn_read m cs) as [got cs1] eqn:E. apply IH in H.
    rewrite H, (conn_read_flat _ _ _ _ E), app_assoc. reflexivity.
Qed.

Lemma multi_reader_flat : forall f s, concat (multi_reader f s) = f ++ concat s.
Proof. intros [|b f] s; reflexivity. Qed.

Lemma multi_writer_spec : forall ws out buf,
  multi_writer ws out buf = (out ++ ws, buf ++ concat ws).
Proof.
  induction ws as [|w ws IH]; intros out buf; cbn [multi_writer concat].
  - rewrite !app_nil_r. reflexivity.
  - rewrite IH, <- !app_assoc. reflexivity.
Qed.

(* ================= 2. headLen *)
Lemma raw_lines_app : forall n p x ls rem, (length p <= n)%nat ->
  raw_lines p = (ls, rem) ->
  raw_lines (p ++ x) = (ls ++ fst (raw_lines (rem ++ x)), snd (raw_lines (rem ++ x))).
Proof.
  induction n as [|n IH]; intros p x ls rem Hn H.
  - destruct p; [|cbn in Hn; lia]. cbn in H. inversion H; subst. cbn [app].
    destruct (raw_lines x); reflexivity.
  - destruct ls as [|l ls].
    + apply raw_lines_nil_inv in H. destruct H as [_ H]. subst rem. cbn [app].
      destruct (raw_lines (p ++ x)); reflexivity.
    + apply raw_lines_cons_inv in H. destruct H as [y [H1 H2]].
      pose proof (split_nl_concat _ _ _ H1) as E.
      pose proof (split_nl_nonempty _ _ _ H1) as Hl.
      assert (Hs : split_nl (p ++ x) = Some (l, y ++ x)) by (rewrite split_nl_app, H1; reflexivity).
      rewrite (raw_lines_some _ _ _ Hs).
      assert (Hy : (length y <= n)%nat) by (subst p; rewrite app_length in Hn; lia).
      rewrite (IH y x ls rem Hy H2). reflexivity.
Qed.

Lemma head_end_lines_app : forall ls ls' i n,
  head_end_lines ls i = Some n -> head_end_lines (ls ++ ls') i = Some n.
Proof.
  induction ls as [|l ls IH]; intros ls' i n H; cbn [head_end_lines app] in *; [discriminate|].
  destruct (cut_eol l); [exact H|]. apply IH. exact H.
Qed.

Lemma head_end_lines_bound : forall ls i n,
  head_end_lines ls i = Some n -> (i <= n <= i + length (concat ls))%nat.
Proof.
  induction ls as [|l ls IH]; intros i n H; cbn [head_end_lines] in H; [discriminate|].
  cbn [concat]. rewrite app_length. destruct (cut_eol l).
  - inversion H. lia.
  - apply IH in H. lia.
Qed.

(* once found, the end of the head does not move when more bytes arrive *)
Lemma head_end_app : forall p x n, head_end p = Some n -> head_end (p ++ x) = Some n.
Proof.
  intros p x n H. unfold head_end in *. destruct (raw_lines p) as [ls rem] eqn:E.
  rewrite (raw_lines_app (length p) p x ls rem (le_n _) E). cbn [fst] in *.
  apply head_end_lines_app. exact H.
Qed.

Lemma head_end_le : forall p n, head_end p = Some n -> (n <= length p)%nat.
Proof.
  intros p n H. unfold head_end in H. destruct (raw_lines p) as [ls rem] eqn:E. cbn [fst] in H.
  apply head_end_lines_bound in H.
  rewrite (raw_lines_concat (length p) p ls rem (le_n _) E), app_length. lia.
Qed.

Lemma head_len_of_end : forall p n, head_end p = Some n -> head_len p = n.
Proof. intros p n H. unfold head_len. rewrite H. reflexivity. Qed.

Lemma parse_response_line_nil : http_parse_response_line ascii_to_int [] = None.
Proof. reflexivity. Qed.

Lemma take_resp_headers_head : forall ls hh rest,
  take_resp_headers ls = Some (hh, rest) ->
  exists used, concat ls = used ++ concat rest
               /\ forall i, head_end_lines ls i = Some (i + length used)%nat.
Proof.
  induction ls as [|x ls IH]; intros hh rest H; cbn [take_resp_headers] in H; [discriminate|].
  destruct (cut_eol x) as [|c line] eqn:Hc.
  - inversion H; subst. exists x. split; [reflexivity|]. intros i. cbn [head_end_lines]. rewrite Hc. reflexivity.
  - destruct (http_parse_header_line (c :: line)); [|discriminate].
    destruct (take_resp_headers ls) as [[h2 r2]|] eqn:E2; [|discriminate]. inversion H; subst.
    destruct (IH h2 rest eq_refl) as [used [Hu Hh]]. exists (x ++ used). split.
    + cbn [concat]. rewrite Hu, app_assoc. reflexivity.
    + intros i. cbn [head_end_lines]. rewrite Hc, Hh, app_length. f_equal. lia.
Qed.

(* a successful Dialer.Upgrade consumes the stream exactly up to the end of the first empty line
   (what headLen looks for), whatever the line ends *)
Theorem dialer_success_head : forall cfg url_host uri nonce B r, 1 <= B ->
  d_err (dialer_upgrade cfg url_host uri nonce B r) = None ->
  exists h, head_end (flat r) = Some h
            /\ flat (d_reader (dialer_upgrade cfg url_host uri nonce B r)) = skipn h (flat r).
Proof.
  intros cfg url_host uri nonce B r HB He.
  pose proof (dialer_flat cfg url_host uri nonce B r HB) as F. cbn zeta in F.
  destruct (dialer_upgrade_lines cfg nonce (fst (raw_lines (flat r))) (snd (raw_lines (flat r))) (r_tail r))
    as [[hs e] unread] eqn:Hl.
  destruct F as [_ [Fe [_ Fu]]]. rewrite He in Fe. subst e.
  unfold head_end. destruct (raw_lines (flat r)) as [ls rem] eqn:Hr. cbn [fst snd] in *.
  destruct (proj1 (dialer_lines_success cfg nonce ls rem (r_tail r) hs unread) Hl)
    as [l [ls' [sl [hh [rest [es [Els [Hsl [Hth [_ [_ [_ Hu]]]]]]]]]]]].
  subst unread ls. destruct Fu as [Fu _].
  destruct (take_resp_headers_head ls' hh rest Hth) as [used [Hused Hh]].
  exists (length l + length used)%nat. split.
  - cbn [head_end_lines]. destruct (cut_eol l) eqn:Hc.
    + rewrite parse_response_line_nil in Hsl. discriminate.
    + rewrite Hh. reflexivity.
  - rewrite Fu. pose proof (raw_lines_concat (length (flat r)) (flat r) _ rem (le_n _) Hr) as Hc.
    cbn [concat] in Hc. rewrite Hc, Hused, <- !app_assoc.
    rewrite app_assoc, <- app_length, skipn_app, skipn_all, Nat.sub_diag. reflexivity.
Qed.

(* ================= 3. a bufio.Reader fills only when it must: the tail of the transport is not touched
   while complete lines are found in what is in front of it *)
Definition front_inv (cs : list (list byte)) (X pending : list byte) (chs : list (list byte)) : Prop :=
  (chs = cs /\ pending = X) \/ (exists c', c' <> [] /\ chs = c' :: cs /\ pending ++ c' = X).

Lemma front_inv_flat : forall cs X pending chs,
  front_inv cs X pending chs -> pending ++ concat chs = X ++ concat cs.
Proof.
  intros cs X pending chs [[E1 E2]|[c' [_ [E1 E2]]]]; subst; [reflexivity|].
  cbn [concat]. rewrite app_assoc. reflexivity.
Qed.

Lemma front_inv_len : forall cs X pending chs,
  front_inv cs X pending chs -> (src_len cs <= src_len chs)%nat.
Proof.
  intros cs X pending chs [[E1 E2]|[c' [_ [E1 E2]]]]; subst; unfold src_len; [lia|].
  cbn [concat]. rewrite app_length. lia.
Qed.

Lemma front_inv_init : forall cap src, front_inv src cap [] (multi_reader cap src).
Proof.
  intros [|b cap] src; [left; split; reflexivity|].
  right. exists (b :: cap). split; [discriminate|]. split; reflexivity.
Qed.

Lemma rl_front : forall fuel B line pending chs t cs X l X',
  1 <= B -> front_inv cs X pending chs -> split_nl X = Some (l, X') ->
  (rl_mu B pending chs < fuel)%nat ->
  front_inv cs X' (r_pending (snd (read_line_fuel fuel B line pending chs t)))
                  (r_chunks (snd (read_line_fuel fuel B line pending chs t))).
Proof.
  induction fuel as [|fuel IH]; intros B line pending chs t cs X l X' HB Hinv HX Hf; [lia|].
  cbn [read_line_fuel].
  destruct (split_nl pending) as [[l0 rest0]|] eqn:Hp.
  - cbn [snd r_pending r_chunks]. destruct Hinv as [[E1 E2]|[c' [Hc [E1 E2]]]].
    + subst. rewrite Hp in HX. inversion HX; subst. left. split; reflexivity.
    + subst. rewrite split_nl_app, Hp in HX. inversion HX; subst.
      right. exists c'. split; [exact Hc|]. split; reflexivity.
  - destruct Hinv as [[E1 E2]|[c' [Hc [E1 E2]]]].
    { subst. rewrite Hp in HX. discriminate. }
    subst chs X. rewrite split_nl_app, Hp in HX.
    destruct (split_nl c') as [[x y]|] eqn:Hc'; [|discriminate]. inversion HX; subst l X'. clear HX.
    destruct (B <=? len pending) eqn:Hfull.
    + apply (IH B (line ++ pending) [] (c' :: cs) t cs c' x y HB).
      * right. exists c'. split; [exact Hc|]. split; reflexivity.
      * exact Hc'.
      * unfold rl_mu in *. rewrite Hfull in Hf. unfold len in *. cbn [length] in *.
        destruct (B <=? N.of_nat 0) eqn:E; lia.
    + unfold rl_mu in Hf. rewrite Hfull in Hf. cbn [concat length] in Hf. rewrite app_length in Hf.
      destruct (len c' <=? B - len pending) eqn:Hfit.
      * apply (IH B line (pending ++ c') cs t cs (pending ++ c') (pending ++ x) y HB).
        -- left. split; reflexivity.
        -- rewrite split_nl_app, Hp, Hc'. reflexivity.
        -- unfold rl_mu. unfold len in *. rewrite app_length.
           destruct (B <=? N.of_nat (length pending + length c')) eqn:E; [|lia].
           destruct c'; [congruence|]. cbn [length] in *. lia.
      * apply (IH B line (pending ++ take (B - len pending) c') (drop (B - len pending) c' :: cs) t cs
                  (pending ++ c') (pending ++ x) y HB).
        -- right. exists (drop (B - len pending) c'). split; [|split; [reflexivity|]].
           ++ unfold drop, len in *. intros Hnil.
              assert (Hl : length (skipn (N.to_nat (B - N.of_nat (length pending))) c') = 0%nat) by (rewrite Hnil; reflexivity).
              rewrite skipn_length in Hl. lia.
           ++ unfold take, drop. rewrite <- app_assoc, firstn_skipn. reflexivity.
        -- rewrite split_nl_app, Hp, Hc'. reflexivity.
        -- unfold rl_mu, take, drop, len in *. cbn [concat length].
           rewrite !app_length, firstn_length, skipn_length.
           match goal with |- context[if ?b then _ else _] => destruct b end; lia.
Qed.

Lemma rl_err_reader : forall fuel B line pending chs t t' p,
  fst (read_line_fuel fuel B line pending chs t) = LErr t' p ->
  snd (read_line_fuel fuel B line pending chs t) = mkReader [] [] t.
Proof.
  induction fuel as [|fuel IH]; intros B line pending chs t t' p H; cbn [read_line_fuel] in *; [discriminate|].
  destruct (split_nl pending) as [[l0 rest0]|]; [discriminate|].
  destruct (B <=? len pending); [eapply IH; exact H|].
  destruct chs as [|c cs]; [reflexivity|].
  destruct (len c <=? B - len pending); eapply IH; exact H.
Qed.

(* the two ways one readLine ends *)
Lemma read_line_cases : forall B r, 1 <= B ->
  (exists l rest r', split_nl (flat r) = Some (l, rest) /\ read_line B r = (LOk (cut_eol l), r')
                     /\ flat r' = rest /\ r_tail r' = r_tail r)
  \/ (split_nl (flat r) = None /\ read_line B r = (LErr (r_tail r) (flat r), mkReader [] [] (r_tail r))).
Proof.
  intros B r HB. destruct (split_nl (flat r)) as [[l rest]|] eqn:E.
  - left. destruct (read_line_flat_ok B r l rest HB E) as [r' [H1 [H2 H3]]]. exists l, rest, r'. auto.
  - right. split; [reflexivity|]. pose proof (read_line_flat_err B r HB E) as H.
    unfold read_line in *. pose proof (rl_err_reader _ _ _ _ _ _ _ _ H) as H'.
    destruct (read_line_fuel _ B [] (r_pending r) (r_chunks r) (r_tail r)) as [a b]. cbn [fst snd] in *.
    subst. reflexivity.
Qed.

Lemma read_line_front : forall B r cs X l X', 1 <= B ->
  front_inv cs X (r_pending r) (r_chunks r) -> split_nl X = Some (l, X') ->
  front_inv cs X' (r_pending (snd (read_line B r))) (r_chunks (snd (read_line B r))).
Proof.
  intros B r cs X l X' HB Hinv HX. unfold read_line.
  apply (rl_front _ B [] (r_pending r) (r_chunks r) (r_tail r) cs X l X' HB Hinv HX).
  unfold rl_mu, read_line_measure. destruct (B <=? _); lia.
Qed.

(* after one readLine: the tail is still untouched, or the reader has gone into it, or there is
   nothing in the tail *)
Definition after_line (cs : list (list byte)) (r : reader) : Prop :=
  (exists X, front_inv cs X (r_pending r) (r_chunks r))
  \/ (length (flat r) < src_len cs)%nat \/ src_len cs = 0%nat.
Definition lazy_post (cs : list (list byte)) (r : reader) : Prop :=
  (src_len cs <= src_len (r_chunks r))%nat \/ (length (flat r) < src_len cs)%nat.

Lemma read_line_after : forall B r cs X, 1 <= B ->
  front_inv cs X (r_pending r) (r_chunks r) -> after_line cs (snd (read_line B r)).
Proof.
  intros B r cs X HB Hinv.
  pose proof (front_inv_flat _ _ _ _ Hinv) as Hflat. fold (flat r) in Hflat.
  destruct (read_line_cases B r HB) as [[l [rest [r' [Hs [Hr [Hf _]]]]]]|[Hs Hr]].
  - destruct (split_nl X) as [[lx X']|] eqn:HX.
    + left. exists X'. exact (read_line_front B r cs X lx X' HB Hinv HX).
    + right. left. rewrite Hr. cbn [snd]. rewrite Hflat, split_nl_app, HX in Hs.
      destruct (split_nl (concat cs)) as [[x y]|] eqn:Hc; [|discriminate].
      assert (Hy : rest = y) by (inversion Hs; reflexivity).
      rewrite Hf, Hy. unfold src_len. rewrite (split_nl_concat _ _ _ Hc), app_length.
      pose proof (split_nl_nonempty _ _ _ Hc). lia.
  - rewrite Hr. cbn [snd]. destruct (src_len cs) eqn:E; [right; right; exact E|].
    right. left. rewrite E. cbn. lia.
Qed.

Section LazyMachine.
  Variables (S R : Type).
  Variable step : S -> list byte -> S + R.
  Variable on_blank : S -> R.
  Variable on_ioerr : S -> tail_kind -> list byte -> R.
  Variable on_fuel : R.
  Local Notation run := (run_stream S R step on_blank on_ioerr on_fuel).

  (* the reader that remains holds a suffix of the stream *)
  Lemma run_stream_suffix : forall fuel B s r, 1 <= B ->
    exists u, flat r = u ++ flat (snd (run fuel B s r)).
  Proof.
    induction fuel as [|fuel IH]; intros B s r HB; cbn [run_stream].
    - exists []. reflexivity.
    - destruct (read_line_cases B r HB) as [[l [rest [r' [Hs [Hr [Hf _]]]]]]|[Hs Hr]]; rewrite Hr.
      + pose proof (split_nl_concat _ _ _ Hs) as E. rewrite <- Hf in E.
        destruct (cut_eol l) as [|c line]; [exists l; exact E|].
        destruct (step s (c :: line)) as [s'|res]; [|exists l; exact E].
        destruct (IH B s' r' HB) as [u Hu]. exists (l ++ u). rewrite E, Hu at 1. rewrite app_assoc. reflexivity.
      + exists (flat r). cbn [snd flat r_pending r_chunks concat app]. rewrite app_nil_r. reflexivity.
  Qed.

  Lemma run_stream_shrinks : forall fuel B s r, 1 <= B ->
    (length (flat (snd (run fuel B s r))) <= length (flat r))%nat.
  Proof.
    intros fuel B s r HB. destruct (run_stream_suffix fuel B s r HB) as [u Hu].
    apply (f_equal (@length byte)) in Hu. rewrite app_length in Hu. lia.
  Qed.

  Lemma run_stream_lazy : forall fuel B s r cs X, 1 <= B ->
    front_inv cs X (r_pending r) (r_chunks r) -> lazy_post cs (snd (run fuel B s r)).
  Proof.
    induction fuel as [|fuel IH]; intros B s r cs X HB Hinv; cbn [run_stream].
    - left. cbn [snd]. exact (front_inv_len _ _ _ _ Hinv).
    - pose proof (read_line_after B r cs X HB Hinv) as Ha.
      destruct (read_line_cases B r HB) as [[l [rest [r' [Hs [Hr [Hf _]]]]]]|[Hs Hr]]; rewrite Hr in *; cbn [snd] in Ha.
      + assert (Hstay : lazy_post cs r').
        { destruct Ha as [[X' Hi]|[Hlt|Hz]]; [left; exact (front_inv_len _ _ _ _ Hi)|right; exact Hlt|left; lia]. }
        destruct (cut_eol l) as [|c line]; [exact Hstay|].
        destruct (step s (c :: line)) as [s'|res]; [|exact Hstay].
        destruct Ha as [[X' Hi]|[Hlt|Hz]].
        * exact (IH B s' r' cs X' HB Hi).
        * right. pose proof (run_stream_shrinks fuel B s' r' HB). lia.
        * left. lia.
      + cbn [snd]. destruct Ha as [[X' Hi]|[Hlt|Hz]].
        * left. exact (front_inv_len _ _ _ _ Hi).
        * right. exact Hlt.
        * left. lia.
  Qed.

  Lemma run_stream_after : forall fuel B s r cs, 1 <= B ->
    after_line cs r -> lazy_post cs (snd (run fuel B s r)).
  Proof.
    intros fuel B s r cs HB [[X Hi]|[Hlt|Hz]].
    - exact (run_stream_lazy fuel B s r cs X HB Hi).
    - right. pose proof (run_stream_shrinks fuel B s r HB). lia.
    - left. lia.
  Qed.
End LazyMachine.

Lemma after_line_post : forall cs r, after_line cs r -> lazy_post cs r.
Proof.
  intros cs r [[X Hi]|[Hlt|Hz]]; [left; exact (front_inv_len _ _ _ _ Hi)|right; exact Hlt|left; lia].
Qed.

(* Dialer.Upgrade does not read past the chunk in which its head ends *)
Lemma dialer_lazy : forall cfg url_host uri nonce B r cs X, 1 <= B ->
  front_inv cs X (r_pending r) (r_chunks r) ->
  lazy_post cs (d_reader (dialer_upgrade cfg url_host uri nonce B r)).
Proof.
  intros cfg url_host uri nonce B r cs X HB Hinv. unfold dialer_upgrade.
  pose proof (read_line_after B r cs X HB Hinv) as Ha.
  destruct (read_line B r) as [[l|tk p|] r1]; cbn [snd] in Ha; cbn [d_reader];
    try exact (after_line_post _ _ Ha).
  destruct (http_parse_response_line ascii_to_int l) as [sl|]; [|exact (after_line_post _ _ Ha)].
  destruct (status_line_check sl); [exact (after_line_post _ _ Ha)|].
  pose proof (run_stream_after dst dres (dline_step cfg nonce) d_on_blank d_on_ioerr (init_dst, Some DFuel)
                (S (length (flat r1))) B init_dst r1 cs HB Ha) as Hp.
  destruct (run_stream dst dres _ _ _ _ _ B init_dst r1) as [lr r2]. cbn [snd] in Hp.
  destruct (d_after_loop lr) as [s e]. exact Hp.
Qed.

Lemma upgrader_lazy : forall cfg B r cs X, 1 <= B ->
  front_inv cs X (r_pending r) (r_chunks r) -> lazy_post cs (upgrader_reader cfg B r).
Proof.
  intros cfg B r cs X HB Hinv. unfold upgrader_reader.
  pose proof (read_line_after B r cs X HB Hinv) as Ha.
  destruct (read_line B r) as [[l|tk p|] r1]; cbn [snd] in Ha; try exact (after_line_post _ _ Ha).
  destruct (http_parse_request_line ascii_to_int l) as [rl|]; [|exact (after_line_post _ _ Ha)].
  destruct (request_line_check cfg rl); [exact (after_line_post _ _ Ha)|].
  exact (run_stream_after ust lres (line_step cfg) on_blank on_ioerr (on_fuel init_ust)
           (S (length (flat r1))) B init_ust r1 cs HB Ha).
Qed.

(* the reader Upgrader.Upgrade leaves holds a suffix of the stream *)
Lemma upgrader_reader_suffix : forall cfg B r, 1 <= B ->
  exists u, flat r = u ++ flat (upgrader_reader cfg B r).
Proof.
  intros cfg B r HB. unfold upgrader_reader.
  destruct (read_line_cases B r HB) as [[l [rest [r' [Hs [Hr [Hf _]]]]]]|[Hs Hr]]; rewrite Hr.
  - pose proof (split_nl_concat _ _ _ Hs) as E. rewrite <- Hf in E.
    destruct (http_parse_request_line ascii_to_int (cut_eol l)) as [rl|]; [|exists l; exact E].
    destruct (request_line_check cfg rl); [exists l; exact E|].
    destruct (run_stream_suffix ust lres (line_step cfg) on_blank on_ioerr (on_fuel init_ust)
                (S (length (flat r'))) B init_ust r' HB) as [u Hu].
    exists (l ++ u). rewrite E, Hu at 1. rewrite app_assoc. reflexivity.
  - exists (flat r). cbn [flat r_pending r_chunks concat app]. rewrite app_nil_r. reflexivity.
Qed.

(* ================= 4. list facts *)
Lemma app_suffix_le : forall (a s u c : list byte),
  a ++ s = u ++ c -> (length c <= length s)%nat -> exists mid, s = mid ++ c.
Proof.
  intros a s u c H Hl.
  assert (Hlen : (length a + length s = length u + length c)%nat).
  { apply (f_equal (@length byte)) in H. rewrite !app_length in H. exact H. }
  exists (firstn (length s - length c) s).
  assert (Hc : c = skipn (length s - length c) s).
  { assert (E : skipn (length u) (u ++ c) = c) by (rewrite skipn_app, skipn_all, Nat.sub_diag; reflexivity).
    rewrite <- H in E. rewrite skipn_app in E.
    replace (length u) with (length a + (length s - length c))%nat in E by lia.
    rewrite skipn_all2 in E by lia. cbn [app] in E.
    replace (length a + (length s - length c) - length a)%nat with (length s - length c)%nat in E by lia.
    symmetry. exact E. }
  rewrite Hc at 2. rewrite firstn_skipn. reflexivity.
Qed.

Lemma app_suffix_eq : forall (a s u c : list byte),
  a ++ s = u ++ c -> length c = length s -> c = s.
Proof.
  intros a s u c H Hl. destruct (app_suffix_le a s u c H ltac:(lia)) as [mid Hm].
  assert (mid = []).
  { apply (f_equal (@length byte)) in Hm. rewrite app_length in Hm. destruct mid; [reflexivity|cbn in Hm; lia]. }
  subst mid. symmetry. exact Hm.
Qed.

Lemma firstn_min_len : forall (l : list byte) n, firstn (Nat.min n (length l)) l = firstn n l.
Proof.
  intros l n. destruct (Nat.le_ge_cases n (length l)) as [H|H].
  - rewrite Nat.min_l by exact H. reflexivity.
  - rewrite Nat.min_r by exact H. rewrite firstn_all, firstn_all2 by exact H. reflexivity.
Qed.

(* ================= 5. headLen looks at the head only *)
Lemma head_end_lines_shift : forall ls i,
  head_end_lines ls i = option_map (fun n => (i + n)%nat) (head_end_lines ls 0).
Proof.
  induction ls as [|l ls IH]; intros i; cbn [head_end_lines]; [reflexivity|].
  destruct (cut_eol l).
  - cbn. f_equal.
  - rewrite (IH (i + length l)%nat), (IH (0 + length l)%nat).
    destruct (head_end_lines ls 0); cbn; [f_equal; lia|reflexivity].
Qed.

Lemma head_end_unfold : forall q,
  head_end q = match split_nl q with
               | None => None
               | Some (l, rest) =>
                   match cut_eol l with
                   | [] => Some (length l)
                   | _ => option_map (fun n => (length l + n)%nat) (head_end rest)
                   end
               end.
Proof.
  intros q. unfold head_end. destruct (split_nl q) as [[l rest]|] eqn:E.
  - rewrite (raw_lines_some _ _ _ E). cbn [fst head_end_lines]. destruct (cut_eol l); [reflexivity|].
    apply head_end_lines_shift.
  - rewrite (raw_lines_none _ E). reflexivity.
Qed.

Lemma split_nl_self : forall q l rest, split_nl q = Some (l, rest) -> split_nl l = Some (l, []).
Proof.
  induction q as [|c q IH]; intros l rest H; cbn [split_nl] in H; [discriminate|].
  destruct (c =? 10) eqn:E.
  - inversion H; subst. cbn [split_nl]. rewrite E. reflexivity.
  - destruct (split_nl q) as [[x y]|] eqn:E2; [|discriminate]. inversion H; subst.
    cbn [split_nl]. rewrite E, (IH _ _ eq_refl). reflexivity.
Qed.

Lemma head_end_firstn : forall n q h, (length q <= n)%nat ->
  head_end q = Some h -> head_end (firstn h q) = Some h.
Proof.
  induction n as [|n IH]; intros q h Hn H.
  - destruct q; [|cbn in Hn; lia]. cbn in H. discriminate.
  - rewrite head_end_unfold in H. destruct (split_nl q) as [[l rest]|] eqn:E; [|discriminate].
    pose proof (split_nl_concat _ _ _ E) as Eq. pose proof (split_nl_nonempty _ _ _ E) as Hl.
    pose proof (split_nl_self _ _ _ E) as Es. subst q.
    destruct (cut_eol l) as [|c line] eqn:Hc.
    + inversion H; subst h. rewrite firstn_app, firstn_all, Nat.sub_diag. cbn [firstn]. rewrite app_nil_r.
      rewrite head_end_unfold, Es, Hc. reflexivity.
    + destruct (head_end rest) as [h'|] eqn:Hr; [|discriminate]. cbn in H. inversion H; subst h.
      rewrite firstn_app. rewrite firstn_all2 by lia.
      replace (length l + h' - length l)%nat with h' by lia.
      rewrite head_end_unfold, split_nl_app, Es. cbn [app]. rewrite Hc.
      rewrite (IH rest h'); [reflexivity| |exact Hr]. rewrite app_length in Hn. lia.
Qed.

(* a prefix that reaches the end of the head has the same end of head *)
Lemma head_end_of_prefix : forall q x h,
  head_end (q ++ x) = Some h -> (h <= length q)%nat -> head_end q = Some h.
Proof.
  intros q x h H Hl. pose proof (head_end_firstn _ _ _ (le_n _) H) as Hf.
  rewrite firstn_app in Hf. replace (h - length q)%nat with 0%nat in Hf by lia.
  cbn [firstn] in Hf. rewrite app_nil_r in Hf.
  rewrite <- (firstn_skipn h q). apply head_end_app. exact Hf.
Qed.

(* OnResponse gets p[:n], the returned buffer p[n:]: with the head complete in p they are the head
   and what follows it *)
Lemma splice_at_head : forall p tailc h n,
  head_end (p ++ tailc) = Some h -> (h <= length p)%nat ->
  n = Nat.min h (length p) ->
  firstn n p = firstn h (p ++ tailc) /\ skipn n p ++ tailc = skipn h (p ++ tailc).
Proof.
  intros p tailc h n H Hl Hn. rewrite Nat.min_l in Hn by exact Hl. subst n.
  rewrite firstn_app, skipn_app. replace (h - length p)%nat with 0%nat by lia.
  cbn [firstn skipn]. rewrite app_nil_r. split; reflexivity.
Qed.

(* the loop never reads past the first empty line *)
Section StopsAtBlank.
  Variables (S R : Type).
  Variable step : S -> list byte -> S + R.
  Variable on_blank : S -> R.
  Variable on_ioerr : S -> tail_kind -> list byte -> R.
  Variable on_fuel : R.

  Lemma run_stream_stops_at_blank : forall fuel B s r h, 1 <= B ->
    head_end (flat r) = Some h ->
    exists u, flat r = u ++ flat (snd (run_stream S R step on_blank on_ioerr on_fuel fuel B s r))
              /\ (length u <= h)%nat.
  Proof.
    induction fuel as [|fuel IH]; intros B s r h HB Hh; cbn [run_stream].
    - exists []. split; [reflexivity|cbn; lia].
    - rewrite head_end_unfold in Hh.
      destruct (read_line_cases B r HB) as [[l [rest [r' [Hs [Hr [Hf _]]]]]]|[Hs Hr]]; rewrite Hs in Hh; [|discriminate].
      rewrite Hr. pose proof (split_nl_concat _ _ _ Hs) as E. rewrite <- Hf in E.
      destruct (cut_eol l) as [|c line].
      + inversion Hh; subst h. exists l. split; [exact E|lia].
      + destruct (head_end rest) as [h'|] eqn:Hr'; [|discriminate]. cbn in Hh. inversion Hh; subst h.
        destruct (step s (c :: line)) as [s'|res]; [|exists l; split; [exact E|lia]].
        rewrite <- Hf in Hr'. destruct (IH B s' r' h' HB Hr') as [u [Hu Hlu]].
        exists (l ++ u). split; [rewrite E, Hu at 1; rewrite app_assoc; reflexivity|rewrite app_length; lia].
  Qed.
End StopsAtBlank.

Lemma upgrader_reader_stops_at_blank : forall cfg B r h, 1 <= B ->
  head_end (flat r) = Some h ->
  exists u, flat r = u ++ flat (upgrader_reader cfg B r) /\ (length u <= h)%nat.
Proof.
  intros cfg B r h HB Hh. unfold upgrader_reader. rewrite head_end_unfold in Hh.
  destruct (read_line_cases B r HB) as [[l [rest [r' [Hs [Hr [Hf _]]]]]]|[Hs Hr]]; rewrite Hs in Hh; [|discriminate].
  rewrite Hr. pose proof (split_nl_concat _ _ _ Hs) as E. rewrite <- Hf in E.
  assert (Hlh : (length l <= h)%nat).
  { destruct (cut_eol l); [inversion Hh; lia|]. destruct (head_end rest); [|discriminate]. cbn in Hh. inversion Hh. lia. }
  destruct (http_parse_request_line ascii_to_int (cut_eol l)) as [rl|] eqn:Hp; [|exists l; split; [exact E|exact Hlh]].
  destruct (request_line_check cfg rl); [exists l; split; [exact E|exact Hlh]|].
  destruct (cut_eol l) as [|c line] eqn:Hc; [discriminate|].
  destruct (head_end rest) as [h'|] eqn:Hr'; [|discriminate]. cbn in Hh. inversion Hh; subst h.
  rewrite <- Hf in Hr'.
  destruct (run_stream_stops_at_blank ust lres (line_step cfg) on_blank on_ioerr (on_fuel init_ust)
              (Datatypes.S (length (flat r'))) B init_ust r' h' HB Hr') as [u [Hu Hlu]].
  exists (l ++ u). split; [rewrite E, Hu at 1; rewrite app_assoc; reflexivity|rewrite app_length; lia].
Qed.

(* ================= 6. DebugDialer *)
Section DialerTheorems.
  Variable parse_head : list byte -> option nat.
  Variable wcut : list byte -> list (list byte).
  Hypothesis wcut_ok : forall x, concat (wcut x) = x.
  Variables (cfg : dcfg) (url_host uri nonce : list byte) (B : N).
  Hypothesis HB : 1 <= B.
  Variables (hreads : list N) (chunks : list (list byte)) (t : tail_kind).

  (* the wrapped conn delivers the same byte stream as the conn *)
  Lemma wrapped_flat : forall cap src1, tee_fetch hreads [] chunks = (cap, src1) ->
    flat (mkReader [] (multi_reader cap src1) t) = flat (mkReader [] chunks t)
    /\ concat chunks = cap ++ concat src1.
  Proof.
    intros cap src1 E. pose proof (tee_fetch_flat _ _ _ _ _ E) as Hfl. cbn [app] in Hfl.
    unfold flat. cbn [r_pending r_chunks app]. rewrite multi_reader_flat. split; [exact Hfl|symmetry; exact Hfl].
  Qed.

  Theorem debug_dialer_full_transparent : forall set_req set_resp,
    let w := debug_dialer_full parse_head wcut set_req set_resp cfg url_host uri nonce B hreads chunks t in
    let d := dialer_upgrade cfg url_host uri nonce B (mkReader [] chunks t) in
    fd_err w = d_err d /\ fd_hs w = d_hs d
    /\ concat (fd_conn_out w) = d_request d
    /\ fd_on_request w = (if set_req then Some (d_request d) else None)
    /\ (fd_on_response w = None <-> set_resp = false).
  Proof.
    intros set_req set_resp. cbn zeta. unfold debug_dialer_full.
    destruct set_resp.
    - destruct (tee_fetch hreads [] chunks) as [cap src1] eqn:E.
      destruct (wrapped_flat cap src1 E) as [Hf _].
      destruct (dialer_chunking_independent cfg url_host uri nonce B B _ (mkReader [] chunks t) HB HB Hf eq_refl)
        as [A1 [A2 [A3 _]]]. cbn zeta in A1, A2, A3.
      destruct set_req; [rewrite multi_writer_spec|]; cbn [negb app fd_err fd_hs fd_conn_out fd_on_request fd_on_response];
        rewrite ?wcut_ok, A1, A2, A3; repeat split; try discriminate; auto.
    - destruct set_req; [rewrite multi_writer_spec|]; cbn [negb app fd_err fd_hs fd_conn_out fd_on_request fd_on_response];
        rewrite ?wcut_ok; repeat split; auto.
  Qed.

  (* without OnResponse the Dialer reads the conn itself: what it returns is returned *)
  Theorem debug_dialer_full_no_response_callback : forall set_req,
    let w := debug_dialer_full parse_head wcut set_req false cfg url_host uri nonce B hreads chunks t in
    let d := dialer_upgrade cfg url_host uri nonce B (mkReader [] chunks t) in
    fd_br w = (if d_returns_br d then Some (r_pending (d_reader d)) else None)
    /\ fd_conn w = r_chunks (d_reader d)
    /\ (d_err d = None -> fd_leftover w = flat (d_reader d)).
  Proof.
    intros set_req. cbn zeta. unfold debug_dialer_full, fd_leftover.
    destruct set_req; [rewrite multi_writer_spec|]; cbn [negb fd_br fd_conn]; (split; [reflexivity|split; [reflexivity|]]);
      intros He; unfold d_returns_br, flat; rewrite He;
      destruct (r_pending (d_reader _)); reflexivity.
  Qed.

  Let plain := dialer_upgrade cfg url_host uri nonce B (mkReader [] chunks t).
  Let captured := fst (tee_fetch hreads [] chunks).

  (* the one thing assumed about net/http: when it parses a response that the Dialer accepts (a 101,
     which has no body), what it has consumed ends with the first empty line of what it has read *)
  Hypothesis parse_head_stops_at_head :
    d_err plain = None -> forall n, parse_head captured = Some n -> head_end captured = Some n.

  Theorem debug_dialer_full_response_and_leftover : forall set_req,
    let w := debug_dialer_full parse_head wcut set_req true cfg url_host uri nonce B hreads chunks t in
    (d_err plain = None ->
       exists h, head_end (concat chunks) = Some h
         /\ fd_on_response w = Some (firstn h (concat chunks))
         /\ fd_leftover w = skipn h (concat chunks)
         /\ fd_leftover w = flat (d_reader plain))
    /\ (exists resp rest, fd_on_response w = Some resp /\ concat chunks = resp ++ rest)
    /\ (forall n, parse_head captured = Some n -> fd_on_response w = Some (firstn n captured))
    /\ fd_captured w = captured.
  Proof.
    intros set_req. cbn zeta. unfold debug_dialer_full. subst captured.
    destruct (tee_fetch hreads [] chunks) as [cap src1] eqn:E. cbn [fst] in *.
    destruct (wrapped_flat cap src1 E) as [Hf Hall].
    set (r_in := mkReader [] (multi_reader cap src1) t) in *.
    destruct (dialer_chunking_independent cfg url_host uri nonce B B r_in (mkReader [] chunks t) HB HB Hf eq_refl)
      as [A1 [_ [_ A4]]]. cbn zeta in A1, A4. fold plain in A1, A4.
    set (d := dialer_upgrade cfg url_host uri nonce B r_in) in *.
    set (pend := r_pending (d_reader d)). set (chs := r_chunks (d_reader d)).
    set (p := match parse_head cap with Some _ => cap | None => cap ++ conn_taken src1 chs end).
    set (n := Nat.min (match parse_head cap with Some n => n | None => head_len p end) (length p)).
    assert (Hpre : exists restp, concat chunks = p ++ restp).
    { subst p. destruct (parse_head cap).
      - exists (concat src1). exact Hall.
      - unfold conn_taken. exists (skipn (src_len src1 - src_len chs) (concat src1)).
        rewrite <- app_assoc, firstn_skipn. exact Hall. }
    assert (Hfields :
      forall out req_buf,
      (let '(out, req_buf) := (out : list (list byte), req_buf : list byte) in
       if negb true then mkFd (if set_req then Some req_buf else None) None (d_hs d) (d_err d)
                              (if d_returns_br d then Some pend else None) chs t out []
       else mkFd (if set_req then Some req_buf else None) (Some (firstn n p)) (d_hs d) (d_err d)
              (match d_err d with
               | Some _ => if d_returns_br d then Some pend else None
               | None => match skipn n p with
                         | [] => match (if d_returns_br d then Some pend else None) with Some _ => Some [] | None => None end
                         | rest => Some rest
                         end
               end) (conn_left src1 chs) t out cap)
      = mkFd (if set_req then Some req_buf else None) (Some (firstn n p)) (d_hs d) (d_err d)
              (match d_err d with
               | Some _ => if d_returns_br d then Some pend else None
               | None => match skipn n p with
                         | [] => match (if d_returns_br d then Some pend else None) with Some _ => Some [] | None => None end
                         | rest => Some rest
                         end
               end) (conn_left src1 chs) t out cap) by (intros; reflexivity).
    match goal with |- context[let '(o, b) := ?X in _] => destruct X as [out req_buf] end.
    rewrite (Hfields out req_buf). clear Hfields. cbn [fd_on_response fd_captured fd_br fd_conn]. unfold fd_leftover. cbn [fd_br fd_conn].
    split; [|split; [|split; [|reflexivity]]].
    - (* success *)
      intros He. rewrite <- A1 in He. specialize (A4 He).
      destruct (dialer_success_head cfg url_host uri nonce B r_in HB He) as [h [Hh Hsk]]. fold d in Hsk.
      assert (Hfl : flat r_in = concat chunks) by (rewrite Hf; reflexivity).
      rewrite Hfl in Hh, Hsk.
      pose proof (head_end_le _ _ Hh) as Hhl.
      assert (Hend : flat (d_reader d) = pend ++ concat chs) by reflexivity.
      exists h. split; [exact Hh|]. rewrite He.
      (* the bytes of the returned buffer are p[n:] *)
      assert (Hbr : (match (match skipn n p with
                            | [] => match (if d_returns_br d then Some pend else None) with Some _ => Some [] | None => None end
                            | rest => Some rest
                            end) with Some b => b | None => [] end) = skipn n p).
      { destruct (skipn n p); [destruct (if d_returns_br d then Some pend else None)|]; reflexivity. }
      rewrite Hbr. clear Hbr.
      (* enough: p ++ (what the conn still delivers) is the whole stream, and the head lies within p *)
      assert (Hkey : p ++ concat (conn_left src1 chs) = concat chunks /\ (h <= length p)%nat
                     /\ n = Nat.min h (length p)).
      { subst n p. destruct (parse_head cap) as [m|] eqn:Hm.
        - (* net/http parsed the response: m = h by hypothesis, the Dialer stayed within the captured bytes *)
          assert (Hm' : head_end cap = Some m) by (apply parse_head_stops_at_head; [rewrite <- A1; exact He|reflexivity]).
          pose proof (head_end_app cap (concat src1) m Hm') as Hm2. rewrite <- Hall, Hh in Hm2.
          inversion Hm2; subst m. pose proof (head_end_le _ _ Hm') as Hlc.
          split; [|split; [exact Hlc|reflexivity]].
          destruct (dialer_lazy cfg url_host uri nonce B r_in src1 cap HB (front_inv_init cap src1)) as [Hlz|Hlz];
            fold d in Hlz; fold chs in Hlz.
          + unfold conn_left. destruct (src_len chs <=? src_len src1)%nat eqn:Hcmp; [|symmetry; exact Hall].
            assert (Heq : concat chs = concat src1).
            { apply (app_suffix_eq cap (concat src1) (firstn h (concat chunks) ++ pend) (concat chs)).
              - rewrite <- Hall, <- app_assoc, <- Hend, Hsk, firstn_skipn. reflexivity.
              - unfold src_len in *. lia. }
            rewrite Heq. symmetry. exact Hall.
          + exfalso. rewrite Hsk, skipn_length, Hall, app_length in Hlz. unfold src_len in Hlz. lia.
        - (* net/http refused: resBuf holds all the Dialer's bufio.Reader has read *)
          unfold conn_left, conn_taken.
          destruct (src_len chs <=? src_len src1)%nat eqn:Hcmp.
          + (* the Dialer emptied the captured bytes (and maybe read on) *)
            assert (Hp : cap ++ firstn (src_len src1 - src_len chs) (concat src1) = firstn h (concat chunks) ++ pend).
            { assert (Hdec : concat chunks = (firstn h (concat chunks) ++ pend) ++ concat chs)
                by (rewrite <- app_assoc, <- Hend, Hsk, firstn_skipn; reflexivity).
              assert (Hlen : (length (firstn h (concat chunks) ++ pend) = length cap + (src_len src1 - src_len chs))%nat).
              { apply (f_equal (@length byte)) in Hdec. rewrite Hall in Hdec at 1. rewrite !app_length in Hdec.
                unfold src_len in *. rewrite app_length. lia. }
              assert (Hfn : firstn (length cap + (src_len src1 - src_len chs)) (concat chunks)
                            = firstn h (concat chunks) ++ pend).
              { rewrite <- Hlen. set (a := firstn h (concat chunks) ++ pend) in *. rewrite Hdec.
                rewrite firstn_app, firstn_all, Nat.sub_diag. cbn [firstn]. apply app_nil_r. }
              rewrite <- Hfn. rewrite Hall at 1. rewrite firstn_app.
              rewrite (@firstn_all2 _ (length cap + (src_len src1 - src_len chs)) cap) by lia. f_equal. f_equal. lia. }
            rewrite Hp. split; [rewrite <- app_assoc, <- Hend, Hsk, firstn_skipn; reflexivity|].
            assert (Hlp : (h <= length (firstn h (concat chunks) ++ pend))%nat)
              by (rewrite app_length, firstn_length; lia).
            split; [exact Hlp|].
            assert (Hhe : head_end (firstn h (concat chunks) ++ pend) = Some h).
            { apply (head_end_of_prefix _ (concat chs)); [|exact Hlp].
              rewrite <- app_assoc, <- Hend, Hsk, firstn_skipn. exact Hh. }
            rewrite (head_len_of_end _ _ Hhe). reflexivity.
          + (* part of the captured bytes is still unread: the conn was not touched *)
            replace (src_len src1 - src_len chs)%nat with 0%nat by lia. cbn [firstn]. rewrite app_nil_r.
            split; [symmetry; exact Hall|].
            assert (Hlt : (h < length cap)%nat).
            { assert (Hl : length (flat (d_reader d)) = (length (concat chunks) - h)%nat) by (rewrite Hsk, skipn_length; reflexivity).
              rewrite Hend, app_length, Hall, app_length in Hl. unfold src_len in *. lia. }
            split; [lia|].
            assert (Hhe : head_end cap = Some h).
            { apply (head_end_of_prefix _ (concat src1)); [rewrite <- Hall; exact Hh|lia]. }
            rewrite (head_len_of_end _ _ Hhe). reflexivity. }
      destruct Hkey as [K1 [K2 K3]]. rewrite <- K1 in Hh.
      destruct (splice_at_head p (concat (conn_left src1 chs)) h n Hh K2 K3) as [S1 S2].
      rewrite K1 in S1, S2. rewrite S1, S2. split; [reflexivity|]. split; [reflexivity|].
      rewrite <- A4, Hsk. reflexivity.
    - (* a prefix of what the server sent *)
      destruct Hpre as [restp Hp]. exists (firstn n p), (skipn n p ++ restp). split; [reflexivity|].
      rewrite app_assoc, firstn_skipn. exact Hp.
    - intros m Hm. subst n p. rewrite Hm. rewrite firstn_min_len. reflexivity.
  Qed.
End DialerTheorems.

(* ================= 7. DebugUpgrader *)
(* what a reader over MultiReader(front, conn) took from conn and what it left of it *)
Lemma conn_split : forall (cap : list byte) src1 chs u,
  cap ++ concat src1 = u ++ concat chs ->
  conn_taken src1 chs ++ concat (conn_left src1 chs) = concat src1
  /\ (length (concat (conn_left src1 chs)) <= src_len chs)%nat.
Proof.
  intros cap src1 chs u H. unfold conn_taken, conn_left.
  destruct (src_len chs <=? src_len src1)%nat eqn:Hcmp.
  - destruct (app_suffix_le cap (concat src1) u (concat chs) H ltac:(unfold src_len in *; lia)) as [mid Hm].
    split; [|unfold src_len; lia].
    assert (Hl : (src_len src1 - src_len chs = length mid)%nat).
    { unfold src_len. rewrite Hm, app_length. lia. }
    rewrite Hl. rewrite Hm at 1. rewrite firstn_app, firstn_all, Nat.sub_diag. cbn [firstn].
    rewrite app_nil_r. symmetry. exact Hm.
  - replace (src_len src1 - src_len chs)%nat with 0%nat by lia. cbn [firstn app].
    split; [reflexivity|unfold src_len in *; lia].
Qed.

Lemma skipn_add : forall (a b : nat) (l : list byte), skipn a (skipn b l) = skipn (b + a) l.
Proof.
  intros a b. induction b as [|b IH]; intros l; [reflexivity|].
  destruct l; [rewrite !skipn_nil; reflexivity|]. cbn [skipn plus]. apply IH.
Qed.

(* the loop ends at the empty line, or with a result that is not the blank-line result *)
Section EndsAtBlank.
  Variables (S R : Type).
  Variable step : S -> list byte -> S + R.
  Variable on_blank : S -> R.
  Variable on_ioerr : S -> tail_kind -> list byte -> R.
  Variable on_fuel : R.
  Variable P : R -> Prop.
  Hypothesis P_step : forall s line res, step s line = inr res -> P res.
  Hypothesis P_io : forall s t p, P (on_ioerr s t p).
  Hypothesis P_fuel : P on_fuel.

  Lemma run_stream_blank_or : forall fuel B s r, 1 <= B ->
    P (fst (run_stream S R step on_blank on_ioerr on_fuel fuel B s r))
    \/ exists h, head_end (flat r) = Some h
                 /\ flat (snd (run_stream S R step on_blank on_ioerr on_fuel fuel B s r)) = skipn h (flat r).
  Proof.
    induction fuel as [|fuel IH]; intros B s r HB; cbn [run_stream]; [left; exact P_fuel|].
    destruct (read_line_cases B r HB) as [[l [rest [r' [Hs [Hr [Hf _]]]]]]|[Hs Hr]]; rewrite Hr.
    - pose proof (split_nl_concat _ _ _ Hs) as E. rewrite head_end_unfold, Hs.
      assert (Hsk : skipn (length l) (flat r) = flat r').
      { rewrite E, Hf, skipn_app, skipn_all, Nat.sub_diag. reflexivity. }
      destruct (cut_eol l) as [|c line].
      + right. exists (length l). split; [reflexivity|]. cbn [snd]. symmetry. exact Hsk.
      + destruct (step s (c :: line)) as [s'|res] eqn:Hst; [|left; exact (P_step _ _ _ Hst)].
        destruct (IH B s' r' HB) as [Hp|[h [Hh Hfl]]]; [left; exact Hp|].
        right. exists (length l + h)%nat. rewrite <- Hf, Hh. split; [reflexivity|].
        rewrite Hfl, <- Hsk, skipn_add. reflexivity.
    - left. apply P_io.
  Qed.
End EndsAtBlank.

Lemma parse_request_line_nil : http_parse_request_line ascii_to_int [] = None.
Proof. reflexivity. Qed.

Lemma upgrader_tail_ok : forall stext cfg lr, u_err (upgrader_tail stext cfg lr) = None -> snd lr = None.
Proof.
  intros stext cfg [s [e|]] H; [|reflexivity]. exfalso. cbn [upgrader_tail] in H.
  destruct e; try discriminate; try (rewrite reject_err in H; discriminate).
Qed.

(* a successful Upgrader.Upgrade consumes the stream exactly up to the end of the first empty line *)
Theorem upgrader_success_head : forall stext cfg B r, 1 <= B ->
  u_err (upgrader stext cfg B r) = None ->
  exists h, head_end (flat r) = Some h /\ flat (upgrader_reader cfg B r) = skipn h (flat r).
Proof.
  intros stext cfg B r HB He. unfold upgrader in He. unfold upgrader_reader.
  destruct (read_line_cases B r HB) as [[l [rest [r' [Hs [Hr [Hf _]]]]]]|[Hs Hr]]; rewrite Hr in *; [|discriminate].
  destruct (http_parse_request_line ascii_to_int (cut_eol l)) as [rl|] eqn:Hp; [|discriminate].
  destruct (request_line_check cfg rl); [rewrite reject_err in He; discriminate|].
  apply upgrader_tail_ok in He.
  destruct (run_stream_blank_or ust lres (line_step cfg) on_blank on_ioerr (on_fuel init_ust)
              (fun lr => snd lr <> None)
              ltac:(intros s line res Hst; unfold line_step in Hst;
                    destruct (http_parse_header_line line) as [[k v]|]; [destruct (hdr_step cfg s k v)|];
                    inversion Hst; discriminate)
              ltac:(intros; discriminate) ltac:(discriminate)
              (Datatypes.S (length (flat r'))) B init_ust r' HB) as [Hbad|[h [Hh Hfl]]]; [congruence|].
  pose proof (split_nl_concat _ _ _ Hs) as E.
  exists (length l + h)%nat. split.
  - rewrite head_end_unfold, Hs. destruct (cut_eol l); [rewrite parse_request_line_nil in Hp; discriminate|].
    rewrite <- Hf, Hh. reflexivity.
  - rewrite Hfl, <- (skipn_add h (length l)). f_equal.
    rewrite E, Hf, skipn_app, skipn_all, Nat.sub_diag. reflexivity.
Qed.

Section UpgraderTheorems.
  Variable parse_head : list byte -> option nat.
  Variable wcut : list byte -> list (list byte).
  Hypothesis wcut_ok : forall x, concat (wcut x) = x.
  Variables (stext : N -> list byte) (cfg : ucfg) (B : N).
  Hypothesis HB : 1 <= B.
  Variables (hreads : list N) (chunks : list (list byte)) (t : tail_kind).

  Theorem debug_upgrader_full_transparent : forall set_req set_resp,
    let w := debug_upgrader_full parse_head wcut set_req set_resp stext cfg B hreads chunks t in
    let u := upgrader stext cfg B (mkReader [] chunks t) in
    let captured := fst (tee_fetch hreads [] chunks) in
    fu_res w = u
    /\ concat (fu_conn_out w) = u_out u
    /\ fu_on_response w = (if set_resp then Some (u_out u) else None)
    /\ (fu_on_request w = None <-> set_req = false)
    /\ (set_req = false -> exists mid, concat chunks = mid ++ concat (fu_conn w))
    /\ (set_req = true ->
         (parse_head captured <> None ->
            fu_on_request w = Some captured
            /\ (exists mid, concat chunks = captured ++ mid ++ concat (fu_conn w))
            /\ (head_end captured <> None -> concat chunks = captured ++ concat (fu_conn w)))
         /\ (parse_head captured = None ->
              exists taken, fu_on_request w = Some (captured ++ taken)
                            /\ concat chunks = (captured ++ taken) ++ concat (fu_conn w))
         /\ (u_err u = None ->
              exists h, head_end (concat chunks) = Some h
                /\ (parse_head captured = None \/ head_end captured <> None ->
                    exists req, fu_on_request w = Some req /\ (h <= length req)%nat
                                /\ firstn h req = firstn h (concat chunks)))).
  Proof.
    intros set_req set_resp. cbn zeta. unfold debug_upgrader_full.
    destruct set_req.
    - destruct (tee_fetch hreads [] chunks) as [cap src1] eqn:E. cbn [fst].
      pose proof (tee_fetch_flat _ _ _ _ _ E) as Hfl. cbn [app] in Hfl.
      set (r_in := mkReader [] (multi_reader cap src1) t).
      assert (Hf : flat r_in = flat (mkReader [] chunks t)).
      { unfold flat, r_in. cbn [r_pending r_chunks app]. rewrite multi_reader_flat. exact Hfl. }
      assert (Hfl' : flat r_in = cap ++ concat src1).
      { unfold flat, r_in. cbn [r_pending r_chunks app]. apply multi_reader_flat. }
      assert (Hall : flat r_in = concat chunks) by (rewrite Hf; reflexivity).
      rewrite (upgrader_chunking_independent stext cfg B B r_in (mkReader [] chunks t) HB HB Hf eq_refl).
      set (chs := r_chunks (upgrader_reader cfg B r_in)).
      set (pend := r_pending (upgrader_reader cfg B r_in)).
      destruct (upgrader_reader_suffix cfg B r_in HB) as [u0 Hu0].
      assert (Hsuf : cap ++ concat src1 = (u0 ++ pend) ++ concat chs).
      { rewrite <- Hfl', Hu0 at 1. unfold flat. rewrite app_assoc. reflexivity. }
      destruct (conn_split cap src1 chs _ Hsuf) as [Hsplit Hleft].
      assert (Hout : forall x : list byte,
                (if set_resp then multi_writer (wcut x) [] [] else (wcut x, []))
                = (wcut x, if set_resp then x else [])).
      { intros x. destruct set_resp; [rewrite multi_writer_spec, wcut_ok|]; reflexivity. }
      rewrite Hout. clear Hout.
      cbn [fu_res fu_conn_out fu_on_request fu_on_response fu_conn]. rewrite wcut_ok.
      split; [reflexivity|]. split; [reflexivity|].
      split; [destruct set_resp; reflexivity|]. split; [split; discriminate|]. split; [discriminate|].
      intros _. split; [|split].
      + intros Hp. destruct (parse_head cap) as [n|]; [|congruence]. split; [reflexivity|]. split.
        * exists (conn_taken src1 chs). rewrite Hsplit. symmetry. exact Hfl.
        * intros Hne. destruct (head_end cap) as [h|] eqn:Hh; [|congruence].
          pose proof (head_end_le _ _ Hh) as Hlh.
          pose proof (head_end_app cap (concat src1) h Hh) as Hh2. rewrite <- Hfl' in Hh2.
          destruct (upgrader_reader_stops_at_blank cfg B r_in h HB Hh2) as [u1 [Hu1 Hlu1]].
          assert (Hge : (src_len src1 <= length (flat (upgrader_reader cfg B r_in)))%nat)
            by (apply (f_equal (@length byte)) in Hu1; rewrite Hfl', !app_length in Hu1; unfold src_len; lia).
          destruct (upgrader_lazy cfg B r_in src1 cap HB (front_inv_init cap src1)) as [Hlz|Hlz]; [|lia].
          fold chs in Hlz. unfold conn_left.
          destruct (src_len chs <=? src_len src1)%nat eqn:Hcmp; [|symmetry; exact Hfl].
          rewrite (app_suffix_eq cap (concat src1) _ (concat chs) Hsuf ltac:(unfold src_len in *; lia)).
          symmetry. exact Hfl.
      + intros Hp. rewrite Hp. exists (conn_taken src1 chs). split; [reflexivity|].
        rewrite <- app_assoc, Hsplit. symmetry. exact Hfl.
      + intros He.
        rewrite <- (upgrader_chunking_independent stext cfg B B r_in (mkReader [] chunks t) HB HB Hf eq_refl) in He.
        destruct (upgrader_success_head stext cfg B r_in HB He) as [h [Hh Hsk]].
        rewrite Hall in Hh, Hsk. exists h. split; [exact Hh|].
        pose proof (head_end_le _ _ Hh) as Hhl.
        intros [Hp|Hne].
        * rewrite Hp. exists (cap ++ conn_taken src1 chs). split; [reflexivity|].
          assert (Hdec : concat chunks = (cap ++ conn_taken src1 chs) ++ concat (conn_left src1 chs)).
          { rewrite <- app_assoc, Hsplit. symmetry. exact Hfl. }
          assert (Hlen : (h <= length (cap ++ conn_taken src1 chs))%nat).
          { assert (Hl1 : length (flat (upgrader_reader cfg B r_in)) = (length (concat chunks) - h)%nat)
              by (rewrite Hsk, skipn_length; reflexivity).
            unfold flat in Hl1. fold pend in Hl1. fold chs in Hl1. rewrite app_length in Hl1.
            apply (f_equal (@length byte)) in Hdec. rewrite app_length in Hdec. unfold src_len in *. lia. }
          split; [exact Hlen|]. rewrite Hdec, (firstn_app h (cap ++ conn_taken src1 chs) (concat (conn_left src1 chs))).
          replace (h - length (cap ++ conn_taken src1 chs))%nat with 0%nat by lia.
          cbn [firstn]. rewrite app_nil_r. reflexivity.
        * destruct (head_end cap) as [h'|] eqn:Hh'; [|congruence].
          pose proof (head_end_app cap (concat src1) h' Hh') as Hh2. rewrite Hfl, Hh in Hh2.
          inversion Hh2; subst h'. pose proof (head_end_le _ _ Hh') as Hlc.
          assert (Hpre : exists x, concat chunks = cap ++ x) by (exists (concat src1); symmetry; exact Hfl).
          destruct Hpre as [x Hx].
          assert (Hfn : firstn h cap = firstn h (concat chunks)).
          { rewrite Hx, firstn_app. replace (h - length cap)%nat with 0%nat by lia.
            cbn [firstn]. rewrite app_nil_r. reflexivity. }
          destruct (parse_head cap).
          -- exists cap. split; [reflexivity|]. split; [exact Hlc|exact Hfn].
          -- exists (cap ++ conn_taken src1 chs). split; [reflexivity|]. split; [rewrite app_length; lia|].
             rewrite <- Hfn, (firstn_app h cap). replace (h - length cap)%nat with 0%nat by lia.
             cbn [firstn]. rewrite app_nil_r. reflexivity.
    - set (r_in := mkReader [] chunks t).
      destruct (upgrader_reader_suffix cfg B r_in HB) as [u0 Hu0].
      assert (Hout : forall x : list byte,
                (if set_resp then multi_writer (wcut x) [] [] else (wcut x, []))
                = (wcut x, if set_resp then x else [])).
      { intros x. destruct set_resp; [rewrite multi_writer_spec, wcut_ok|]; reflexivity. }
      rewrite Hout. cbn [fu_res fu_conn_out fu_on_request fu_on_response fu_conn]. rewrite wcut_ok.
      split; [reflexivity|]. split; [reflexivity|].
      split; [destruct set_resp; reflexivity|]. split; [split; reflexivity|]. split; [|discriminate].
      intros _. exists (u0 ++ r_pending (upgrader_reader cfg B r_in)). rewrite <- app_assoc.
      change (concat chunks) with (flat r_in). exact Hu0.
  Qed.

  (* after fix F24: a successful upgrade reports the whole request head, whatever net/http made of it *)
  Theorem debug_upgrader_full_reports_request : forall set_resp,
    let w := debug_upgrader_full parse_head wcut true set_resp stext cfg B hreads chunks t in
    let captured := fst (tee_fetch hreads [] chunks) in
    u_err (upgrader stext cfg B (mkReader [] chunks t)) = None ->
    parse_head captured = None \/ head_end captured <> None ->
    exists h req, head_end (concat chunks) = Some h
      /\ fu_on_request w = Some req
      /\ (h <= length req)%nat /\ firstn h req = firstn h (concat chunks)
      /\ concat chunks = req ++ concat (fu_conn w).
  Proof.
    intros set_resp. cbn zeta. intros He Hc.
    destruct (debug_upgrader_full_transparent true set_resp) as [_ [_ [_ [_ [_ H]]]]]. cbn zeta in H.
    destruct (H eq_refl) as [H1 [H2 H3]]. clear H.
    destruct (H3 He) as [h [Hh Hreq]]. destruct (Hreq Hc) as [req [Er [Hl Hf]]].
    exists h, req. split; [exact Hh|]. split; [exact Er|]. split; [exact Hl|]. split; [exact Hf|].
    destruct (parse_head (fst (tee_fetch hreads [] chunks))) as [n|] eqn:Hp.
    - destruct Hc as [Hc|Hc]; [discriminate|].
      destruct (H1 ltac:(discriminate)) as [E1 [_ E3]]. rewrite Er in E1. inversion E1; subst req. exact (E3 Hc).
    - destruct (H2 eq_refl) as [taken [E1 E2]]. rewrite Er in E1. inversion E1; subst req. exact E2.
  Qed.
End UpgraderTheorems.
