(* ReadDataProofs.v — C04/C08: one call of the ReadData family (helper.go:readData) on the
   wire bytes of a valid complete frame stream, under every transport chunking, answers
   every control frame before the first wanted data message exactly as the frame-sequence
   spec's events ask (walk [rx_walk]), skips unwanted messages and returns the first wanted
   message, the peer's close, the protocol error of an invalid close, or an error when the
   stream ends first.
   Reader side: the simulation lemmas of ReaderInv.v / ReaderMoreProofs.v ([next_frame_spec],
   [read_to_eof_specS], [discard_spec]); handler side: ReadDataHandler.v. *)
Require Import Bytes Stream Utf8Spec Check Frame Cipher Utf8Dfa Extracted ExtractedOk Writer Handler Reader ReadData
  BytesProofs StreamProofs CheckProofs FrameProofs CipherProofs Utf8Proofs ReaderLocalProofs
  ReaderAux ReaderInv ReaderProofs ReaderMoreProofs ReadDataHandler.
Require WriterFrameProofs WriterResetOpProofs.
From Coq Require Import ZifyBool ZifyN ZifyNat.
Open Scope N_scope.

Notation nf := WriterResetOpProofs.nf.
Notation wf_pframe := WriterFrameProofs.wf_pframe.

(* ------------------------------------------------------------------ the spec's events on a clean run *)
(* a control frame the spec accepts: a known opcode, at most 125 payload bytes, final *)
Lemma frame_ok_ctl c frag f : frame_ok c frag f = true -> spec_control (sf_op f) = true ->
  (sf_op f = 8 \/ sf_op f = 9 \/ sf_op f = 10) /\ len (sf_payload f) <= 125 /\ sf_fin f = true.
Proof.
  unfold frame_ok. intros H Hc.
  destruct (broken (sf_header f) (set_fragmented (c_state c) frag)) eqn:Hb; [|discriminate].
  pose proof (broken_none _ _ ReservedOp Hb) as H1.
  pose proof (broken_none _ _ ControlTooLong Hb) as H2.
  pose proof (broken_none _ _ ControlNotFinal Hb) as H3.
  cbn [rule_broken sf_header h_op h_len h_fin] in H1, H2, H3. rewrite Hc in H2, H3. cbn [andb] in H2, H3.
  unfold spec_reserved in H1. unfold spec_control in Hc.
  split; [clear -H1 Hc; lia|]. split; [clear -H2; lia|]. destruct (sf_fin f); [reflexivity|discriminate].
Qed.

Definition inter_ctl (e : event) : Prop := ev_inter e = true -> ctl_ev e.

(* every intermediate event of a run that ends clean is an acceptable control frame *)
Lemma clean_inter_ctl c : forall fs k openm evs, Forall wf_sframe fs ->
  sr_out (spec_run c k openm evs fs) = OClean -> Forall inter_ctl evs ->
  Forall inter_ctl (sr_events (spec_run c k openm evs fs)).
Proof.
  induction fs as [|f rest IH]; intros k openm evs Hwf Hclean Hevs.
  - rewrite spec_run_nil. exact Hevs.
  - inversion Hwf as [|? ? Hf Hrest]; subst. rewrite spec_run_cons in Hclean |- *.
    destruct (frame_ok c (is_some openm) f) eqn:Hok; cbn [negb] in *; [|discriminate Hclean].
    destruct ((0 <? c_max c)%Z && (c_max c <? Z.of_N (len (sf_payload f)))%Z); [discriminate Hclean|].
    destruct (c_ext c && rsv1 f && negb (first_data f)); [discriminate Hclean|].
    destruct (spec_control (sf_op f)) eqn:Hctl.
    + apply IH; [exact Hrest|exact Hclean|]. apply Forall_app. split; [exact Hevs|]. constructor; [|constructor].
      intros _. destruct (frame_ok_ctl c _ f Hok Hctl) as (Hop & Hl & _).
      unfold ctl_ev. cbn [ev_op ev_payload]. split; [exact Hop|]. split; [apply Hf|exact Hl].
    + unfold spec_data in *. destruct (msg_of c openm f) as [[o a] cm].
      destruct (wrap_of c o && _); [discriminate Hclean|].
      destruct (sf_fin f).
      * apply IH; [exact Hrest|exact Hclean|]. apply Forall_app. split; [exact Hevs|]. constructor; [|constructor].
        intros H. discriminate H.
      * apply IH; assumption.
Qed.

(* the first event of a run that is not an intermediate one *)
Definition first_msg (evs : list event) : option event := find (fun e => negb (ev_inter e)) evs.
Definition opens_with (o : N) (sr : spec_result) : Prop :=
  match first_msg (sr_events sr) with Some e => ev_op e = o | None => True end.

Lemma first_msg_mid mid ev tl : all_inter mid -> ev_inter ev = false -> first_msg (mid ++ ev :: tl) = Some ev.
Proof.
  induction 1 as [|e mid He _ IH]; intros Hev; unfold first_msg in *; cbn [app find].
  - rewrite Hev. reflexivity.
  - rewrite He. cbn [negb]. apply IH, Hev.
Qed.

Lemma opens_data_aux c rest : (forall k m, opens_with (m_op m) (spec_run c k (Some m) [] rest)) ->
  forall k m f, opens_with (m_op m) (spec_data c k m [] f rest).
Proof.
  intros IH k [[o a] cm] f. unfold spec_data. cbn [m_op fst].
  destruct (wrap_of c o && _); [exact I|].
  destruct (sf_fin f).
  - rewrite spec_run_evs_pre. unfold opens_with, first_msg. cbn [pre_evs sr_events app find ev_inter negb ev_op]. reflexivity.
  - apply (IH (S k) (o, a ++ sf_payload f, cm)).
Qed.

(* while a message is open, the next completed message is that one *)
Lemma opens_open c : forall rest k m, opens_with (m_op m) (spec_run c k (Some m) [] rest).
Proof.
  induction rest as [|f rest IH]; intros k m.
  - rewrite spec_run_nil. exact I.
  - rewrite spec_run_cons. cbn [is_some].
    destruct (negb (frame_ok c true f)); [exact I|].
    destruct ((0 <? c_max c)%Z && (c_max c <? Z.of_N (len (sf_payload f)))%Z); [exact I|].
    destruct (c_ext c && rsv1 f && negb (first_data f)); [exact I|].
    destruct (spec_control (sf_op f)).
    + rewrite spec_run_evs_pre. unfold opens_with, first_msg. cbn [pre_evs sr_events app find ev_inter negb].
      apply IH.
    + cbn [msg_of]. apply opens_data_aux, IH.
Qed.

Lemma opens_data c k m f rest : opens_with (m_op m) (spec_data c k m [] f rest).
Proof. apply opens_data_aux. intros. apply opens_open. Qed.

(* a run that continues at a frame boundary: its events and its outcome *)
Lemma split_run c k' pre rest' sr : sr = spec_run c k' None pre rest' ->
  sr_events sr = pre ++ sr_events (spec_run c k' None [] rest') /\
  sr_out sr = sr_out (spec_run c k' None [] rest').
Proof. intros ->. rewrite (spec_run_evs_pre c rest' k' None pre). split; reflexivity. Qed.

(* ------------------------------------------------------------------ what one call owes for a list of events *)
Definition rd_ok (state want : N) (E : list event) (d : dest) (X : rd_result * dest * reader) : Prop :=
  let '(res, d', _) := X in
  exists rf, Forall wf_pframe rf /\ concat (dest_log d') = concat (dest_log d) ++ pwire rf /\
    xreplies_ok state (fst (rxw want E)) rf = true /\ rx_result_matches (snd (rxw want E)) res = true.

Lemma rd_ok_stop state want E1 E2 d d1 rf1 x res r :
  snd (rxw want E1) = Some x -> Forall wf_pframe rf1 ->
  concat (dest_log d1) = concat (dest_log d) ++ pwire rf1 ->
  xreplies_ok state (fst (rxw want E1)) rf1 = true -> rx_result_matches (Some x) res = true ->
  rd_ok state want (E1 ++ E2) d (res, d1, r).
Proof.
  intros Hx Hwf Hlog Hxs Hres. unfold rd_ok. rewrite rxw_app, Hx. exists rf1.
  rewrite Hx. repeat split; assumption.
Qed.

Lemma rd_ok_cont state want E1 E2 d d1 rf1 X :
  snd (rxw want E1) = None -> Forall wf_pframe rf1 ->
  concat (dest_log d1) = concat (dest_log d) ++ pwire rf1 ->
  xreplies_ok state (fst (rxw want E1)) rf1 = true ->
  rd_ok state want E2 d1 X -> rd_ok state want (E1 ++ E2) d X.
Proof.
  intros Hx Hwf Hlog Hxs H. unfold rd_ok in *. destruct X as [[res d'] r'].
  destruct H as (rf2 & Hwf2 & Hlog2 & Hxs2 & Hres2). rewrite rxw_app, Hx. cbn [fst snd].
  exists (rf1 ++ rf2). split; [apply Forall_app; split; assumption|]. split.
  { rewrite Hlog2, Hlog, pwire_app, app_assoc. reflexivity. }
  split; [apply xreplies_ok_app; assumption|exact Hres2].
Qed.

(* ------------------------------------------------------------------ the loop of readData *)
Lemma new_events_mid lg mid r r2 : r_log r = lg -> r_log r2 = lg ++ mid ->
  new_events (length (r_log r)) r2 = mid.
Proof.
  intros H1 H2. unfold new_events. rewrite H1, H2.
  rewrite skipn_app, skipn_all, Nat.sub_diag. reflexivity.
Qed.

Lemma data_op_small op : op < 16 -> op_is_control op = false ->
  (op =? 9) = false /\ (op =? 10) = false /\ (op =? 8) = false.
Proof. intros H. rewrite (control_spec _ H). unfold spec_control. lia. Qed.

Lemma read_data_spec state want c : (state = 1 \/ state = 2) -> wf_cfg c ->
  forall fuel fs k lg r d masks,
  Bnd c None lg fs r -> sr_out (spec_run c k None [] fs) = OClean -> nf d -> Forall wf_key masks ->
  (length (wire fs) + 2 <= fuel)%nat ->
  rd_ok state want (sr_events (spec_run c k None [] fs)) d (read_data fuel want state r d masks).
Proof.
  intros Hst Hc. induction fuel as [|fu IH]; intros fs k lg r d masks HB Hclean Hd Hm Hfuel; [lia|].
  cbn [read_data]. destruct fs as [|f rest].
  - (* the stream ends before a wanted message *)
    destruct (next_frame_eof c None lg r HB) as (h & r' & Hnf & Hlg). rewrite Hnf. cbn [is_some].
    rewrite spec_run_nil. cbn [sr_events]. unfold rd_ok. cbn [rxw fst snd rx_result_matches].
    exists []. rewrite pwire_nil, app_nil_r. repeat split. constructor.
  - pose proof (b_src _ _ _ _ _ HB) as (_ & _ & Hfl).
    pose proof (b_log _ _ _ _ _ HB) as Hlogr.
    pose proof (Forall_inv (b_wf _ _ _ _ _ HB)) as Hwff.
    assert (Hop16: sf_op f < 16) by apply Hwff.
    destruct (next_frame_spec c None lg f rest r Hc HB) as (h & e & r1 & Hnf & H). rewrite Hnf.
    destruct e as [err|].
    { exfalso. destruct H as (_ & Hsp). destruct (Hsp k []) as (out & Heq & _ & _ & Hnc).
      rewrite Heq in Hclean. apply Hnc, Hclean. }
    destruct H as (Hlen & [(m0 & Hm0 & _)|(Hop & HM & Hsp)]); [discriminate|].
    rewrite Hfl in Hlen. cbn [msg_of] in *.
    set (m := (sf_op f, @nil byte, c_ext c && rsv1 f)) in *.
    pose proof (m_frame _ _ _ _ _ _ _ _ HM) as Hfr1.
    assert (Hflen: (length (flat (r_src r1)) + 3 <= fu)%nat) by (clear -Hlen Hfuel; lia).
    assert (Hmu: (mu r1 < S fu)%nat) by (unfold mu; rewrite Hfr1; clear -Hflen; lia).
    assert (Hclean1: sr_out (spec_data c k m [] f rest) = OClean) by (rewrite <- Hsp; exact Hclean).
    assert (Hinter: Forall inter_ctl (sr_events (spec_run c k None [] (f :: rest)))).
    { apply clean_inter_ctl; [exact (b_wf _ _ _ _ _ HB)|exact Hclean|constructor]. }
    rewrite Hop. destruct (op_is_control (sf_op f)) eqn:Ectl.
    + (* a control frame outside a message: read it, answer it *)
      destruct (read_to_eof_specS c Hc (S fu) (MMid m f [] (sf_payload f)) lg rest r1
                  [4096] [4096] [] HM eq_refl Hmu) as (p & e2 & r2 & Hrte & Hres).
      rewrite Hrte. cbn [mspec mmsg] in Hres.
      destruct Hres as [(-> & mid & rest' & HB' & Hcp & Hle & Hmid & Hsp2)|(Hne & Hsp2)];
        [|exfalso; apply (Hsp2 k []); exact Hclean1].
      destruct (Hsp2 k []) as (k' & Heq). cbn [app] in Heq.
      destruct (split_run c k' _ rest' _ Heq) as [Hev Hout].
      (* the spec's own view of this frame *)
      pose proof Hclean as Hcl2. rewrite spec_run_cons in Hcl2. cbn [is_some] in Hcl2.
      pose proof (spec_run_cons c k None [] f rest) as Hcons. cbn [is_some] in Hcons.
      destruct (frame_ok c false f) eqn:Hok; cbn [negb] in *; [|discriminate Hcl2].
      destruct ((0 <? c_max c)%Z && (c_max c <? Z.of_N (len (sf_payload f)))%Z); [discriminate Hcl2|].
      destruct (c_ext c && rsv1 f && negb (first_data f)); [discriminate Hcl2|].
      rewrite (control_spec _ Hop16) in Ectl. rewrite Ectl in Hcons, Hcl2.
      destruct (frame_ok_ctl c false f Hok Ectl) as (Hop3 & Hl125 & _).
      destruct (split_run c (S k) _ rest _ Hcons) as [Hev0 _]. cbn [app] in Hev0.
      rewrite Hsp, Hev in Hev0.
      assert (Hmid0: mid = [] /\ p = sf_payload f).
      { destruct mid as [|e0 mid'].
        - apply (f_equal (fun l => match l with e :: _ => ev_payload e | [] => [] end)) in Hev0.
          cbn [app ev_payload] in Hev0. split; [reflexivity|exact Hev0].
        - exfalso. inversion Hmid as [|? ? He0 _]; subst.
          apply (f_equal (fun l => match l with e :: _ => ev_inter e | [] => false end)) in Hev0.
          cbn [app ev_inter] in Hev0. rewrite Hev0 in He0. discriminate He0. }
      destruct Hmid0 as [-> ->]. cbn [app] in Hev. rewrite app_nil_r in HB'.
      rewrite Hsp, Hev.
      set (ev := mkEv (m_op m) (sf_payload f) false (m_comp m)) in *.
      assert (Hcev: ctl_ev ev) by (unfold ctl_ev, ev; cbn [ev_op ev_payload m m_op fst]; split; [exact Hop3|split; [apply Hwff|exact Hl125]]).
      destruct (handle_payload_spec state want ev masks d Hst Hcev Hm Hd)
        as (res & d1 & masks1 & bytes & Hh & Hd1 & Hm1 & Hlog1 & (rf1 & Hwf1 & -> & Hx1 & Hres1)).
      change (ev_op ev) with (sf_op f) in Hh. change (ev_payload ev) with (sf_payload f) in Hh.
      rewrite Hh.
      change (ev :: sr_events (spec_run c k' None [] rest')) with ([ev] ++ sr_events (spec_run c k' None [] rest')).
      destruct (snd (rxw want [ev])) as [x|] eqn:Ex.
      * destruct Hres1 as [Hne Hmt].
        assert (G: rd_ok state want ([ev] ++ sr_events (spec_run c k' None [] rest')) d (RDHandler res, d1, r2))
          by (eapply rd_ok_stop; eassumption).
        destruct res; try exact G. exfalso. apply Hne. reflexivity.
      * subst res. eapply rd_ok_cont; try eassumption.
        apply IH with (lg := lg); try assumption.
        -- rewrite <- Hout. exact Hclean1.
        -- pose proof (b_src _ _ _ _ _ HB') as (_ & _ & Hfl'). rewrite <- Hfl'. clear -Hle Hflen. lia.
    + destruct (data_op_small _ Hop16 Ectl) as (Hn9 & Hn10 & Hn8).
      destruct (N.land (sf_op f) want =? 0) eqn:Ewant.
      * (* a data message the caller does not want: discard it, answer what was interleaved *)
        pose proof (discard_spec c Hc (S (length (flat (r_src r1)))) (MMid m f [] (sf_payload f)) lg rest r1
                      (r_frame r1) (r_u8state r1) k [] HM ltac:(intros; discriminate) ltac:(clear; lia) Hclean1) as D.
        rewrite with_fix_id in D. destruct D as (k' & mid & ev & rest' & r2 & Hdd & HB' & Hmid & Hevi & Heq & Hle).
        rewrite Hdd. cbn [mspec app] in Heq.
        destruct (split_run c k' _ rest' _ Heq) as [Hev Hout].
        rewrite (new_events_mid lg mid r r2 Hlogr (b_log _ _ _ _ _ HB')).
        rewrite Hsp, Hev in Hinter |- *. rewrite <- app_assoc in Hinter |- *.
        assert (Hcmid: Forall ctl_ev mid).
        { apply Forall_app in Hinter. destruct Hinter as [Hi _]. clear -Hi Hmid.
          induction Hmid as [|e0 mid He0 _ IHm]; [constructor|]. inversion Hi; subst. constructor; auto. }
        assert (Hevop: ev_op ev = sf_op f).
        { pose proof (opens_data c k m f rest) as Ho. unfold opens_with in Ho.
          rewrite Hev, <- app_assoc in Ho. cbn [app] in Ho. rewrite (first_msg_mid mid ev _ Hmid Hevi) in Ho. exact Ho. }
        destruct (answer_events_spec state want Hst mid masks d Hcmid Hm Hd)
          as (hr & d1 & masks1 & rf1 & Ha & Hd1 & Hm1 & Hwf1 & Hlog1 & Hx1 & Hres1).
        rewrite Ha.
        destruct (snd (rxw want mid)) as [x|] eqn:Ex; destruct hr as [res|]; try contradiction.
        -- eapply rd_ok_stop; eassumption.
        -- eapply rd_ok_cont; try eassumption.
           assert (Eskip: rxw want ([ev] ++ sr_events (spec_run c k' None [] rest')) =
                          rxw want (sr_events (spec_run c k' None [] rest'))).
           { cbn [app rxw]. rewrite Hevop, Hn9, Hn10, Hn8, Ewant. reflexivity. }
           unfold rd_ok. rewrite Eskip.
           apply IH with (lg := lg ++ mid); try assumption.
           ++ rewrite <- Hout. exact Hclean1.
           ++ pose proof (b_src _ _ _ _ _ HB') as (_ & _ & Hfl'). rewrite <- Hfl'. clear -Hle Hflen. lia.
      * (* the wanted message: read it, answer what was interleaved *)
        destruct (read_to_eof_specS c Hc (S fu) (MMid m f [] (sf_payload f)) lg rest r1
                    [512] [512] [] HM eq_refl Hmu) as (p & e2 & r2 & Hrte & Hres).
        rewrite Hrte. cbn [mspec mmsg] in Hres.
        destruct Hres as [(-> & mid & rest' & HB' & Hcp & Hle & Hmid & Hsp2)|(Hne & Hsp2)];
          [|exfalso; apply (Hsp2 k []); exact Hclean1].
        destruct (Hsp2 k []) as (k' & Heq). cbn [app] in Heq.
        destruct (split_run c k' _ rest' _ Heq) as [Hev Hout].
        rewrite (new_events_mid lg mid r r2 Hlogr (b_log _ _ _ _ _ HB')).
        rewrite Hsp, Hev in Hinter |- *. rewrite <- app_assoc in Hinter |- *.
        assert (Hcmid: Forall ctl_ev mid).
        { apply Forall_app in Hinter. destruct Hinter as [Hi _]. clear -Hi Hmid.
          induction Hmid as [|e0 mid He0 _ IHm]; [constructor|]. inversion Hi; subst. constructor; auto. }
        destruct (answer_events_spec state want Hst mid masks d Hcmid Hm Hd)
          as (hr & d1 & masks1 & rf1 & Ha & Hd1 & Hm1 & Hwf1 & Hlog1 & Hx1 & Hres1).
        rewrite Ha.
        destruct (snd (rxw want mid)) as [x|] eqn:Ex; destruct hr as [res|]; try contradiction.
        -- eapply rd_ok_stop; eassumption.
        -- eapply rd_ok_cont; try eassumption.
           unfold rd_ok. cbn [app rxw ev_op ev_payload m m_op fst]. rewrite Hn9, Hn10, Hn8, Ewant.
           cbn [negb fst snd rx_result_matches]. exists []. rewrite pwire_nil, app_nil_r.
           split; [constructor|]. split; [reflexivity|]. split; [reflexivity|].
           rewrite N.eqb_refl. apply bytes_eqb_refl.
Qed.

(* ------------------------------------------------------------------ C04/C08: one ReadData-family call *)
Theorem read_data_meets_spec : forall state want fs s masks fuel,
  (state = 1 \/ state = 2) -> (want = 1 \/ want = 2 \/ want = 3) ->
  Forall wf_sframe fs -> Forall wf_key masks ->
  sr_out (spec_run (mkCfg state true 0 false) 0 None [] fs) = OClean ->
  wf_src s -> tl s = TEOF -> flat s = wire fs ->
  (length (wire fs) + 2 <= fuel)%nat ->
  let '(res, log) := read_data_call fuel want state s masks in
  rx_monitor state want fs res log = true.
Proof.
  intros state want fs s masks fuel Hst _ Hfs Hm Hclean Hw Ht Hfl Hfuel.
  set (c := mkCfg state true 0 false) in *.
  assert (Hc: wf_cfg c) by (unfold wf_cfg, c; cbn [c_state]; destruct Hst as [-> | ->]; lia).
  pose proof (new_reader_bnd c fs s Hc Hfs Hw Ht Hfl) as HB.
  change (new_reader s (c_state c) false (c_check_utf8 c) (c_max c) (c_ext c) CbReadAll)
    with (new_reader s state false true 0 false CbReadAll) in HB.
  pose proof (read_data_spec state want c Hst Hc fuel fs 0%nat [] _ (mkDest [] None) masks HB Hclean eq_refl Hm Hfuel) as H.
  unfold read_data_call.
  destruct (read_data fuel want state (new_reader s state false true 0 false CbReadAll) (mkDest [] None) masks)
    as [[res d'] r'].
  unfold rd_ok in H. destruct H as (rf & Hwf & Hlog & Hxs & Hres).
  unfold rx_monitor. fold c. rewrite rx_walk_nil.
  destruct (rxw want (sr_events (spec_run c 0 None [] fs))) as [xs xr]. cbn [fst snd] in *.
  rewrite Hlog. cbn [dest_log d_calls rev_append concat app].
  rewrite frames_of_pwire by exact Hwf. rewrite Hxs, Hres. reflexivity.
Qed.
