(* ReaderMoreProofs.v — the stream-level Reader theorems for the other entry
   points: repeated helper.go:ReadMessage (C04), streams cut at an arbitrary byte
   with an EOF or a failing tail (C16, read side), and the NextFrame loop whose
   caller reads, discards or half-reads each message (C04). Built on the
   invariants and per-step lemmas of ReaderInv.v / ReaderProofs.v. *)
Require Import Bytes Stream Utf8Spec Check Frame Cipher Utf8Dfa Extracted ExtractedOk Reader
  BytesProofs StreamProofs CheckProofs FrameProofs CipherProofs Utf8Proofs ReaderLocalProofs
  ReaderCutProofs ReaderAux ReaderInv ReaderProofs ReaderXInv ReaderXProofs.
From Coq Require Import ZifyBool ZifyN ZifyNat.
Open Scope N_scope.

(* ------------------------------------------------------------------ the spec's event accumulator *)
(* events already emitted are never looked at again *)
Definition pre_evs (a : list event) (sr : spec_result) : spec_result :=
  mkSR (a ++ sr_events sr) (sr_partial sr) (sr_out sr).

Lemma spec_run_evs_app c a : forall fs k openm evs,
  spec_run c k openm (a ++ evs) fs = pre_evs a (spec_run c k openm evs fs).
Proof.
  induction fs as [|f rest IH]; intros k openm evs.
  - rewrite !spec_run_nil. reflexivity.
  - rewrite !spec_run_cons.
    destruct (negb (frame_ok c (is_some openm) f)); [reflexivity|].
    destruct ((0 <? c_max c)%Z && (c_max c <? Z.of_N (len (sf_payload f)))%Z); [reflexivity|].
    destruct (c_ext c && rsv1 f && negb (first_data f)); [reflexivity|].
    destruct (spec_control (sf_op f)).
    + rewrite <- app_assoc. apply IH.
    + unfold spec_data. destruct (msg_of c openm f) as [[o p] cm].
      destruct (wrap_of c o && negb (if sf_fin f then valid_utf8 (p ++ sf_payload f) else utf8_viable (p ++ sf_payload f)));
        [reflexivity|].
      destruct (sf_fin f); [rewrite <- app_assoc|]; apply IH.
Qed.

Lemma spec_run_evs_pre c fs k openm evs :
  spec_run c k openm evs fs = pre_evs evs (spec_run c k openm [] fs).
Proof. rewrite <- (app_nil_r evs) at 1. apply spec_run_evs_app. Qed.

Lemma evs_match_app2 a : forall b x y, evs_match a b = true -> evs_match x y = true ->
  evs_match (a ++ x) (b ++ y) = true.
Proof.
  induction a as [|u a IH]; intros [|v b] x y H1 H2; cbn [evs_match app] in *; try discriminate.
  - exact H2.
  - apply andb_true_iff in H1. destruct H1 as [H1 H3]. rewrite H1. cbn [andb]. apply IH; assumption.
Qed.

(* a fresh Reader at a frame boundary outside a message *)
Lemma new_reader_bnd c fs s : wf_cfg c -> Forall wf_sframe fs -> wf_src s -> tl s = TEOF -> flat s = wire fs ->
  Bnd c None [] fs (new_reader s (c_state c) false (c_check_utf8 c) (c_max c) (c_ext c) CbReadAll).
Proof.
  intros Hc Hfs Hw Ht Hfl. unfold new_reader. constructor; rsimpl; cbn [is_some].
  - unfold cfg_ok; rsimpl. repeat split; reflexivity.
  - unfold src_ok; rsimpl. repeat split; assumption.
  - exact Hfs.
  - reflexivity.
  - symmetry. apply set_frag_init, Hc.
  - reflexivity.
  - reflexivity.
Qed.

(* ================================================================== 1. helper.go:ReadMessage, repeated *)
(* every call builds a fresh Reader (CheckUTF8, no limit, no extension, the
   read-all OnIntermediate) on what the previous call left in the source *)
Definition rm_cfg (state : N) : rcfg := mkCfg state true 0 false.

Lemma read_messages_spec state bufs : wf_cfg (rm_cfg state) -> forall fuel fs k evs acc s,
  Forall wf_sframe fs -> wf_src s -> tl s = TEOF -> flat s = wire fs ->
  evs_match evs acc = true -> (length (wire fs) + 2 <= fuel)%nat ->
  let sr := spec_run (rm_cfg state) k None evs fs in
  evs_match (sr_events sr) (fst (read_messages fuel bufs s state acc)) = true /\
  err_matches (sr_out sr) (snd (read_messages fuel bufs s state acc)) = true.
Proof.
  intros Hc. set (c := rm_cfg state) in *.
  induction fuel as [|fuel IH]; intros fs k evs acc s Hfs Hw Ht Hfl Hev Hfuel; [lia|].
  cbv zeta. cbn [read_messages]. unfold read_message.
  pose proof (new_reader_bnd c fs s Hc Hfs Hw Ht Hfl) as HB.
  change (new_reader s (c_state c) false (c_check_utf8 c) (c_max c) (c_ext c) CbReadAll)
    with (new_reader s state false true 0 false CbReadAll) in HB.
  set (r := new_reader s state false true 0 false CbReadAll) in *.
  destruct fs as [|f rest].
  - destruct (next_frame_eof c None [] r HB) as (h & r' & Hnf & Hlg). rewrite Hnf. cbn [is_some fst snd].
    rewrite Hlg, app_nil_r, spec_run_nil. cbn [sr_events sr_out is_some err_matches]. split; [exact Hev|reflexivity].
  - destruct (next_frame_spec c None [] f rest r Hc HB) as (h & e & r1 & Hnf & H). rewrite Hnf.
    destruct e as [err|].
    + destruct H as (Hlg & Hsp). cbn [fst snd]. rewrite Hlg, app_nil_r.
      destruct (Hsp k evs) as (out & -> & Hem & _). cbn [sr_events sr_out]. split; [exact Hev|exact Hem].
    + destruct H as (Hlen & [(m0 & Hm0 & _)|(Hop & HM & Hsp)]); [discriminate|].
      assert (Hfl0: flat (r_src r) = wire (f :: rest)) by exact Hfl.
      rewrite Hfl0 in Hlen.
      assert (Hmu: (mu r1 < S fuel)%nat).
      { unfold mu. rewrite (m_frame _ _ _ _ _ _ _ _ HM). clear -Hlen Hfuel. lia. }
      destruct (read_to_eof_spec c Hc (S fuel) (MMid (msg_of c None f) f [] (sf_payload f)) [] rest r1
                  bufs bufs [] HM eq_refl Hmu) as (p & e2 & r2 & Hrte & Hres).
      rewrite Hrte. cbn [mspec mmsg msg_of m_op m_comp fst snd] in Hres. cbn [msg_of] in Hsp.
      rewrite (spec_run_evs_pre c (f :: rest) k None evs), Hsp.
      destruct Hres as [(-> & lg' & rest' & HB' & Hcp & Hle & Hsp2)|(Hne & Hsp2)].
      * destruct (Hsp2 k [] eq_refl) as (k' & evs' & Hev' & Heq). rewrite Heq.
        rewrite <- spec_run_evs_app.
        pose proof (b_src _ _ _ _ _ HB') as (Hw' & Ht' & Hfl').
        cbn [fst snd].
        apply IH.
        -- exact (b_wf _ _ _ _ _ HB').
        -- exact Hw'.
        -- exact Ht'.
        -- exact Hfl'.
        -- apply evs_match_app2; [exact Hev|]. rewrite (b_log _ _ _ _ _ HB').
           apply evs_match_app; [exact Hev'|]. rewrite Hop. apply ev_matches_same. left; reflexivity.
        -- rewrite <- Hfl'. clear -Hle Hlen Hfuel. lia.
      * specialize (Hsp2 k [] eq_refl). destruct Hsp2 as (Hm1 & Hm2 & _).
        set (sr := spec_data c k (sf_op f, [], c_ext c && rsv1 f) [] f rest) in *.
        assert (Hgoal: evs_match (sr_events (pre_evs evs sr)) (acc ++ r_log r2) = true /\
                       err_matches (sr_out (pre_evs evs sr)) e2 = true).
        { cbn [pre_evs sr_events sr_out]. split; [apply evs_match_app2; assumption|exact Hm2]. }
        destruct e2 as [[| |]| | | | | | | |]; cbn [fst snd]; try exact Hgoal. exfalso; apply Hne; reflexivity.
Qed.

Theorem read_message_meets_spec : forall fs state s bufs fuel,
  wf_cfg (mkCfg state true 0 false) -> Forall wf_sframe fs -> wf_src s -> tl s = TEOF -> flat s = wire fs ->
  (length (wire fs) + 2 <= fuel)%nat ->
  let '(evs, e) := read_messages fuel bufs s state [] in
  reader_monitor (mkCfg state true 0 false) true fs evs None e = true.
Proof.
  intros fs state s bufs fuel Hc Hfs Hw Ht Hfl Hfuel.
  pose proof (read_messages_spec state bufs Hc fuel fs 0%nat [] [] s Hfs Hw Ht Hfl eq_refl Hfuel) as H.
  cbv zeta in H. destruct (read_messages fuel bufs s state []) as [evs e]. cbn [fst snd] in H.
  destruct H as [H1 H2]. unfold reader_monitor, expected_events. fold (rm_cfg state).
  rewrite H1, H2. cbn [andb]. destruct (sr_out _); reflexivity.
Qed.

(* ================================================================== 2. streams cut at an arbitrary byte *)
(* a strict prefix of a header is not a header *)
Lemma rfc_parse_prefix_incomplete bs h rest n : rfc_parse bs = PComplete h rest ->
  n + len rest < len bs -> rfc_parse (take n bs) = PIncomplete.
Proof.
  destruct bs as [|b0 [|b1 r]]; try discriminate. cbn [rfc_parse]. unfold rfc_parse_tail.
  set (need := extn_of (b1 mod 128) + (if 128 <=? b1 then 4 else 0)).
  destruct (len r <? need) eqn:E; [discriminate|].
  destruct (_ && _); [discriminate|]. intros H. injection H as _ Hr. subst rest.
  rewrite len_drop, !len_cons. intros Hn.
  unfold take. destruct (N.to_nat n) as [|[|k]] eqn:En; cbn [firstn]; try reflexivity.
  cbn [rfc_parse]. unfold rfc_parse_tail. fold need.
  assert (Hl: len (firstn k r) <= N.of_nat k) by (unfold len; rewrite firstn_length; lia).
  replace (len (firstn k r) <? need) with true by lia. reflexivity.
Qed.

Lemma header_prefix_incomplete h n : wf_header h -> n < len (rfc_header h) ->
  rfc_parse (take n (rfc_header h)) = PIncomplete.
Proof.
  intros Hh Hn. pose proof (rfc_parse_header h [] Hh) as P. rewrite app_nil_r in P.
  apply (rfc_parse_prefix_incomplete _ _ _ n P). rewrite len_nil. lia.
Qed.

Lemma cb_read_all_err h m k r e : fst (cb_read_all h m k r) = Some e -> e = RIo EFail \/ e = RIo EUnexpected.
Proof.
  unfold cb_read_all. destruct (read_full (r_rawN r) (r_src r)) as [[b e0] s'].
  destruct e0 as [[| |]|]; cbn [fst]; intros H; inversion H; auto.
Qed.

Lemma wire_nil : wire [] = [].
Proof. reflexivity. Qed.

Lemma wire_app a b : wire (a ++ b) = wire a ++ wire b.
Proof. unfold wire. rewrite map_app, concat_app. reflexivity. Qed.

(* the source ends inside a header *)
Lemma end_header_cut t x c openm lg r : wf_bytes x -> rfc_parse x = PIncomplete ->
  BndX t x c openm lg [] r ->
  exists h err r', next_frame r = ((h, Some err), r') /\ r_log r' = lg /\
    (err = RIo EEOF -> openm = None /\ t = TEOF).
Proof.
  intros Hxw Hp [Hcfg (Hw & Ht & Hfl) _ Hlog Hst _ _]. rewrite wire_nil in Hfl. cbn [app] in Hfl.
  unfold next_frame. rewrite reader_read_header_same.
  pose proof (read_header_spec (r_src r) Hw ltac:(rewrite Hfl; exact Hxw)) as H. unfold dec_agrees in H.
  destruct (read_header (r_src r)) as [res s1]. rewrite Hfl, Hp in H.
  destruct H as (e & -> & He1 & He2). rewrite Hst, st_frag_set.
  do 3 eexists. split; [reflexivity|]. rsimpl. split; [exact Hlog|].
  rewrite Ht in He1. destruct e.
  - destruct openm; cbn [is_some]; [discriminate|]. intros _. split; [reflexivity|].
    destruct t; [reflexivity|discriminate].
  - discriminate.
  - discriminate.
Qed.

(* the source ends inside frame [f]: after [n] of its bytes *)
Lemma cut_end t f n c openm lg r : wf_sframe f -> n < len (sf_wire f) ->
  BndX t (take n (sf_wire f)) c openm lg [] r ->
  exists h e r', next_frame r = ((h, e), r') /\
    match e with
    | Some err => r_log r' = lg /\
        (err = RIo EEOF -> openm = None /\
           match t with TEOF => n <? len (rfc_header (sf_header f)) | TFail => false end = true)
    | None => Short lg r'
    end.
Proof.
  intros Hf Hn HB. rewrite sf_wire_eq in *. set (hdr := rfc_header (sf_header f)) in *.
  rewrite len_app, len_wpay in Hn.
  assert (Hwp: wf_bytes (wpay f 0 (sf_payload f))) by (apply wpay_wf; [exact Hf|apply Hf]).
  destruct (n <? len hdr) eqn:En.
  - rewrite take_app_le in HB by (clear -En; lia).
    destruct (end_header_cut t _ c openm lg r
                ltac:(apply wf_bytes_take, rfc_header_wf, sf_header_wf, Hf)
                (header_prefix_incomplete _ n (sf_header_wf f Hf) ltac:(fold hdr; clear -En; lia)) HB)
      as (h & err & r' & Hnf & Hlg & He).
    exists h, (Some err), r'. split; [exact Hnf|]. split; [exact Hlg|].
    intros E. destruct (He E) as [-> ->]. split; reflexivity.
  - rewrite take_app_ge in HB by (clear -En; lia).
    set (pp := take (n - len hdr) (wpay f 0 (sf_payload f))) in *.
    assert (Hlpp: len pp < len (sf_payload f)).
    { unfold pp. rewrite len_take, len_wpay. clear -En Hn. lia. }
    assert (Hwpp: wf_bytes pp) by (apply wf_bytes_take, Hwp).
    destruct HB as [Hcfg (Hw & Ht & Hfl) _ Hlog Hst _ _]. rewrite wire_nil in Hfl. cbn [app] in Hfl.
    destruct (next_frame_reads_header r (sf_header f) pp (sf_header_wf f Hf) Hwpp Hw Hfl)
      as (s1 & Hrd & Hf1 & Hw1 & Ht1).
    rewrite sf_header_norm in Hrd.
    assert (HlenN: Z.to_N (h_len (sf_header f)) = len (sf_payload f)) by (cbn [sf_header h_len]; apply N2Z.id).
    destruct Hcfg as (Hskip & Hchk & Hmax & Hext & Hcb).
    unfold next_frame. rewrite Hrd, Hskip, HlenN.
    destruct (check_header (sf_header f) (r_state r)) as [rl|].
    { do 3 eexists. split; [reflexivity|]. rsimpl. split; [exact Hlog|discriminate]. }
    destruct ((0 <? r_max r)%Z && (r_max r <? h_len (sf_header f))%Z).
    { do 3 eexists. split; [reflexivity|]. rsimpl. split; [exact Hlog|discriminate]. }
    destruct (if r_ext r then unset_bits (sf_header f) (r_compressed r) else Some (sf_header f, r_compressed r))
      as [[hdr' comp']|].
    2: { do 3 eexists. split; [reflexivity|]. rsimpl. split; [exact Hlog|discriminate]. }
    destruct (st_fragmented (r_state r) && op_is_control (h_op hdr')).
    + rewrite Hcb.
      match goal with |- context [cb_read_all ?a ?b ?k ?d] =>
        pose proof (cb_read_all_cut a b k d) as Hcut; pose proof (cb_read_all_err a b k d) as Herr;
        destruct (cb_read_all a b k d) as [e r4] end.
      cbn [fst snd] in Hcut, Herr. rsimpl.
      destruct (Hcut Hw1 ltac:(rewrite Hf1; exact Hlpp)) as [Hne Hlg4].
      destruct e as [e|]; [|contradiction].
      do 3 eexists. split; [reflexivity|]. split; [rewrite Hlg4; exact Hlog|].
      intros ->. destruct (Herr _ eq_refl) as [E|E]; discriminate E.
    + do 3 eexists. split; [reflexivity|]. unfold Short; rsimpl.
      repeat split; [exact Hw1| |exact Hlog]. rewrite Hf1. exact Hlpp.
Qed.

(* [frames_before]: the whole frames before the cut, and how far into the next one it falls *)
Lemma frames_before_spec : forall fs cut done rest', frames_before cut fs = (done, rest') ->
  exists tailfs, fs = done ++ tailfs /\ cut = len (wire done) + rest' /\
    match tailfs with [] => True | f :: _ => rest' < len (sf_wire f) end.
Proof.
  induction fs as [|f fs IH]; intros cut done rest' H; cbn [frames_before] in H.
  - injection H as <- <-. exists []. rewrite wire_nil, len_nil. repeat split. 
  - destruct (len (sf_wire f) <=? cut) eqn:E.
    + destruct (frames_before (cut - len (sf_wire f)) fs) as [d c'] eqn:Efb. injection H as <- <-.
      destruct (IH _ _ _ Efb) as (tl' & -> & Hc & Ht). exists tl'. split; [reflexivity|].
      split; [|exact Ht]. change (f :: d) with ([f] ++ d). rewrite wire_app, len_app.
      unfold wire at 1. cbn [map concat]. rewrite app_nil_r. clear -E Hc. lia.
    + injection H as <- <-. exists (f :: fs). rewrite wire_nil, len_nil. repeat split. clear -E. lia.
Qed.

Lemma new_reader_bndX t x c fs s : wf_cfg c -> Forall wf_sframe fs -> wf_src s -> tl s = t ->
  flat s = wire fs ++ x ->
  BndX t x c None [] fs (new_reader s (c_state c) false (c_check_utf8 c) (c_max c) (c_ext c) CbReadAll).
Proof.
  intros Hc Hfs Hw Ht Hfl. unfold new_reader. constructor; rsimpl; cbn [is_some].
  - unfold cfg_ok; rsimpl. repeat split; reflexivity.
  - unfold src_okx; rsimpl. repeat split; assumption.
  - exact Hfs.
  - reflexivity.
  - symmetry. apply set_frag_init, Hc.
  - reflexivity.
  - reflexivity.
Qed.

Lemma negb_clean e : e <> RIo EEOF -> negb (match e with RIo EEOF => true | _ => false end) = true.
Proof. destruct e as [[| |]| | | | | | | |]; try reflexivity. intros H; exfalso; apply H; reflexivity. Qed.

Definition tail_fails (t : tail) : bool := match t with TFail => true | TEOF => false end.

(* C16, read side, stream level — for EVERY frame sequence (valid or not) *)
Theorem cut_stream_any : forall c fs cut t s bufs fuel,
  wf_cfg c -> Forall wf_sframe fs -> (cut <= length (wire fs))%nat ->
  wf_src s -> tl s = t -> flat s = firstn cut (wire fs) -> (cut + 2 <= fuel)%nat ->
  let d := drive fuel bufs (new_reader s (c_state c) false (c_check_utf8 c) (c_max c) (c_ext c) CbReadAll) in
  cut_monitor c true fs (N.of_nat cut) (tail_fails t) (dr_events d) (dr_err d) = true.
Proof.
  intros c fs cut t s bufs fuel Hc Hfs Hcut Hw Ht Hfl Hfuel. cbv zeta.
  set (r := new_reader s (c_state c) false (c_check_utf8 c) (c_max c) (c_ext c) CbReadAll).
  unfold cut_monitor, reader_monitor, expected_events.
  destruct (frames_before (N.of_nat cut) fs) as [done rest'] eqn:Efb.
  destruct (frames_before_spec _ _ _ _ Efb) as (tailfs & Hsplit & Hcn & Htail).
  assert (Hdone: Forall wf_sframe done /\ Forall wf_sframe tailfs) by (rewrite Hsplit in Hfs; apply Forall_app, Hfs).
  destruct Hdone as [Hdone Htl].
  set (x := take rest' (wire tailfs)).
  assert (Hflx: flat s = wire done ++ x).
  { rewrite Hfl. change (firstn cut (wire fs)) with (firstn cut (wire fs)).
    replace (firstn cut (wire fs)) with (take (N.of_nat cut) (wire fs)) by (unfold take; rewrite Nat2N.id; reflexivity).
    rewrite Hsplit, wire_app, Hcn. rewrite take_app_ge by lia.
    replace (len (wire done) + rest' - len (wire done)) with rest' by lia. reflexivity. }
  assert (Hlenx: (length (wire done ++ x) = cut)%nat).
  { rewrite <- Hflx, Hfl. apply firstn_length_le, Hcut. }
  assert (Hxwf: wf_bytes x) by (apply wf_bytes_take, wire_wf, Htl).
  assert (Hrest0: tailfs = [] -> rest' = 0).
  { intros ->. rewrite app_nil_r in Hsplit. subst done.
    assert (N.of_nat cut <= len (wire fs)) by (unfold len; lia). lia. }
  destruct (match t with TEOF => rest' =? 0 | TFail => false end) eqn:Ecase.
  - (* EOF exactly at a frame boundary: the complete stream [done] *)
    destruct t; [|discriminate]. assert (rest' = 0) by lia. subst rest'.
    assert (Hx0: x = []) by reflexivity. rewrite Hx0, app_nil_r in Hflx.
    pose proof (drive_spec c bufs Hc fuel done 0%nat [] [] r
                  (new_reader_bnd c done s Hc Hdone Hw Ht Hflx) eq_refl) as H.
    specialize (H ltac:(rewrite Hx0, app_nil_r in Hlenx; lia)). destruct H as (H1 & H2 & _).
    cbn [tail_fails N.eqb]. rewrite H1. cbn [andb].
    destruct (sr_out (spec_run c 0 None [] done)); cbn [err_matches] in H2 |- *; try (rewrite H2; reflexivity);
      destruct (dr_err (drive fuel bufs r)) as [[| |]| | | | | | | |]; try discriminate H2; reflexivity.
  - (* inside a frame, or a failing tail *)
    set (hl := match nth_error fs (length done) with
               | Some f => len (rfc_header (sf_header f)) | None => 0 end).
    set (eof_ok := match t with TEOF => rest' <? hl | TFail => false end).
    assert (Hend: forall c openm lg r, wf_cfg c -> BndX t x c openm lg [] r ->
      exists h e r', next_frame r = ((h, e), r') /\
        match e with
        | Some err => r_log r' = lg /\ (err = RIo EEOF -> openm = None /\ eof_ok = true)
        | None => Short lg r'
        end).
    { intros c0 openm lg r0 _ HB0. destruct tailfs as [|f more].
      - specialize (Hrest0 eq_refl). subst rest'.
        destruct (end_header_cut t x c0 openm lg r0 Hxwf eq_refl HB0) as (h & err & r' & Hnf & Hlg & He).
        exists h, (Some err), r'. split; [exact Hnf|]. split; [exact Hlg|].
        intros E. destruct (He E) as [_ ->]. discriminate Ecase.
      - assert (Hxf: x = take rest' (sf_wire f)).
        { unfold x. change (f :: more) with ([f] ++ more). rewrite wire_app.
          unfold wire at 1. cbn [map concat]. rewrite app_nil_r. apply take_app_le. lia. }
        rewrite Hxf in HB0.
        assert (Hhl: hl = len (rfc_header (sf_header f))).
        { unfold hl. rewrite Hsplit, nth_error_app2 by lia. rewrite Nat.sub_diag. reflexivity. }
        unfold eof_ok. rewrite Hhl.
        exact (cut_end t f rest' c0 openm lg r0 (Forall_inv Htl) Htail HB0). }
    pose proof (drive_specX t x Hxwf eof_ok Hend c bufs Hc fuel done 0%nat [] [] r
                  (new_reader_bndX t x c done s Hc Hdone Hw Ht Hflx) eq_refl ltac:(lia)) as [H1 H2].
    rewrite H1. cbn [andb]. fold hl.
    destruct (sr_out (spec_run c 0 None [] done)); cbn [acc_err] in H2; try (rewrite H2; reflexivity).
    + (* outside a message *)
      destruct t; cbn [tail_fails].
      * rewrite Ecase. unfold eof_ok in H2. destruct (rest' <? hl); [reflexivity|].
        apply negb_clean. destruct H2 as [H2|H2]; [exact H2|discriminate H2].
      * apply negb_clean. destruct H2 as [H2|H2]; [exact H2|discriminate H2].
    + (* inside a message *)
      destruct (tail_fails t); [apply negb_clean, H2|].
      destruct (rest' =? 0); apply negb_clean, H2.
Qed.

Theorem cut_stream : forall c fs cut t s bufs fuel,
  wf_cfg c -> Forall wf_sframe fs -> sr_out (spec_run c 0 None [] fs) = OClean ->
  (cut <= length (wire fs))%nat ->
  wf_src s -> tl s = t -> flat s = firstn cut (wire fs) -> (cut + 2 <= fuel)%nat ->
  let d := drive fuel bufs (new_reader s (c_state c) false (c_check_utf8 c) (c_max c) (c_ext c) CbReadAll) in
  cut_monitor c true fs (N.of_nat cut) (match t with TFail => true | TEOF => false end) (dr_events d) (dr_err d) = true.
Proof. intros c fs cut t s bufs fuel Hc Hfs _. apply cut_stream_any; assumption. Qed.
