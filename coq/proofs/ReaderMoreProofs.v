(* ReaderMoreProofs.v — the stream-level Reader theorems for the other entry
   points: repeated helper.go:ReadMessage (C04), streams cut at an arbitrary byte
   with an EOF or a failing tail (C16, read side), and the NextFrame loop whose
   caller reads, discards or half-reads each message (C04). Built on the
   invariants and per-step lemmas of ReaderInv.v / ReaderProofs.v. *)
Require Import Bytes Stream Utf8Spec Check Frame Cipher Utf8Dfa Extracted ExtractedOk Reader
  BytesProofs StreamProofs CheckProofs FrameProofs CipherProofs Utf8Proofs ReaderLocalProofs
  ReaderCutProofs ReaderAux ReaderInv ReaderProofs ReaderXInv ReaderXProofs ReaderTotalProofs.
From Coq Require Import ZifyBool ZifyN ZifyNat.
Open Scope N_scope.

(* ------------------------------------------------------------------ the spec's event accumulator *)
(* events already emitted are never looked at again *)
Definition pre_evs (a : list event) (sr : spec_result) : spec_result :=
  mkSR (a ++ sr_events sr) (sr_partial sr) (sr_out sr).

Lemma spec_run_evs_app c a : forall fs k openm evs,
  spec_run c k openm (a ++ evs) fs = pre_evs a (spec_run c k openm evs fs).
Proof.
  induction fs as [|f rest IH]; intros k openm evs.
  - rewrite !spec_run_nil. reflexivity.
  - rewrite !spec_run_cons.
    destruct (negb (frame_ok c (is_some openm) f)); [reflexivity|].
    destruct ((0 <? c_max c)%Z && (c_max c <? Z.of_N (len (sf_payload f)))%Z); [reflexivity|].
    destruct (c_ext c && rsv1 f && negb (first_data f)); [reflexivity|].
    destruct (spec_control (sf_op f)).
    + rewrite <- app_assoc. apply IH.
    + unfold spec_data. destruct (msg_of c openm f) as [[o p] cm].
      destruct (wrap_of c o && negb (if sf_fin f then valid_utf8 (p ++ sf_payload f) else utf8_viable (p ++ sf_payload f)));
        [reflexivity|].
      destruct (sf_fin f); [rewrite <- app_assoc|]; apply IH.
Qed.

Lemma spec_run_evs_pre c fs k openm evs :
  spec_run c k openm evs fs = pre_evs evs (spec_run c k openm [] fs).
Proof. rewrite <- (app_nil_r evs) at 1. apply spec_run_evs_app. Qed.

Lemma evs_match_app2 a : forall b x y, evs_match a b = true -> evs_match x y = true ->
  evs_match (a ++ x) (b ++ y) = true.
Proof.
  induction a as [|u a IH]; intros [|v b] x y H1 H2; cbn [evs_match app] in *; try discriminate.
  - exact H2.
  - apply andb_true_iff in H1. destruct H1 as [H1 H3]. rewrite H1. cbn [andb]. apply IH; assumption.
Qed.

(* a fresh Reader at a frame boundary outside a message *)
Lemma new_reader_bnd c fs s : wf_cfg c -> Forall wf_sframe fs -> wf_src s -> tl s = TEOF -> flat s = wire fs ->
  Bnd c None [] fs (new_reader s (c_state c) false (c_check_utf8 c) (c_max c) (c_ext c) CbReadAll).
Proof.
  intros Hc Hfs Hw Ht Hfl. unfold new_reader. constructor; rsimpl; cbn [is_some].
  - unfold cfg_ok; rsimpl. repeat split; reflexivity.
  - unfold src_ok; rsimpl. repeat split; assumption.
  - exact Hfs.
  - reflexivity.
  - symmetry. apply set_frag_init, Hc.
  - reflexivity.
  - reflexivity.
Qed.

(* ================================================================== 1. helper.go:ReadMessage, repeated *)
(* every call builds a fresh Reader (CheckUTF8, no limit, no extension, the
   read-all OnIntermediate) on what the previous call left in the source *)
Definition rm_cfg (state : N) : rcfg := mkCfg state true 0 false.

Lemma read_messages_spec state bufs : wf_cfg (rm_cfg state) -> forall fuel fs k evs acc s,
  Forall wf_sframe fs -> wf_src s -> tl s = TEOF -> flat s = wire fs ->
  evs_match evs acc = true -> (length (wire fs) + 2 <= fuel)%nat ->
  let sr := spec_run (rm_cfg state) k None evs fs in
  evs_match (sr_events sr) (fst (read_messages fuel bufs s state acc)) = true /\
  err_matches (sr_out sr) (snd (read_messages fuel bufs s state acc)) = true.
Proof.
  intros Hc. set (c := rm_cfg state) in *.
  induction fuel as [|fuel IH]; intros fs k evs acc s Hfs Hw Ht Hfl Hev Hfuel; [lia|].
  cbv zeta. cbn [read_messages]. unfold read_message.
  pose proof (new_reader_bnd c fs s Hc Hfs Hw Ht Hfl) as HB.
  change (new_reader s (c_state c) false (c_check_utf8 c) (c_max c) (c_ext c) CbReadAll)
    with (new_reader s state false true 0 false CbReadAll) in HB.
  set (r := new_reader s state false true 0 false CbReadAll) in *.
  destruct fs as [|f rest].
  - destruct (next_frame_eof c None [] r HB) as (h & r' & Hnf & Hlg). rewrite Hnf. cbn [is_some fst snd].
    rewrite Hlg, app_nil_r, spec_run_nil. cbn [sr_events sr_out is_some err_matches]. split; [exact Hev|reflexivity].
  - destruct (next_frame_spec c None [] f rest r Hc HB) as (h & e & r1 & Hnf & H). rewrite Hnf.
    destruct e as [err|].
    + destruct H as (Hlg & Hsp). cbn [fst snd]. rewrite Hlg, app_nil_r.
      destruct (Hsp k evs) as (out & -> & Hem & _). cbn [sr_events sr_out]. split; [exact Hev|exact Hem].
    + destruct H as (Hlen & [(m0 & Hm0 & _)|(Hop & HM & Hsp)]); [discriminate|].
      assert (Hfl0: flat (r_src r) = wire (f :: rest)) by exact Hfl.
      rewrite Hfl0 in Hlen.
      assert (Hmu: (mu r1 < S fuel)%nat).
      { unfold mu. rewrite (m_frame _ _ _ _ _ _ _ _ HM). clear -Hlen Hfuel. lia. }
      destruct (read_to_eof_spec c Hc (S fuel) (MMid (msg_of c None f) f [] (sf_payload f)) [] rest r1
                  bufs bufs [] HM eq_refl Hmu) as (p & e2 & r2 & Hrte & Hres).
      rewrite Hrte. cbn [mspec mmsg msg_of m_op m_comp fst snd] in Hres. cbn [msg_of] in Hsp.
      rewrite (spec_run_evs_pre c (f :: rest) k None evs), Hsp.
      destruct Hres as [(-> & lg' & rest' & HB' & Hcp & Hle & Hsp2)|(Hne & Hsp2)].
      * destruct (Hsp2 k [] eq_refl) as (k' & evs' & Hev' & Heq). rewrite Heq.
        rewrite <- spec_run_evs_app.
        pose proof (b_src _ _ _ _ _ HB') as (Hw' & Ht' & Hfl').
        cbn [fst snd].
        apply IH.
        -- exact (b_wf _ _ _ _ _ HB').
        -- exact Hw'.
        -- exact Ht'.
        -- exact Hfl'.
        -- apply evs_match_app2; [exact Hev|]. rewrite (b_log _ _ _ _ _ HB').
           apply evs_match_app; [exact Hev'|]. rewrite Hop. apply ev_matches_same. left; reflexivity.
        -- rewrite <- Hfl'. clear -Hle Hlen Hfuel. lia.
      * specialize (Hsp2 k [] eq_refl). destruct Hsp2 as (Hm1 & Hm2 & _).
        set (sr := spec_data c k (sf_op f, [], c_ext c && rsv1 f) [] f rest) in *.
        assert (Hgoal: evs_match (sr_events (pre_evs evs sr)) (acc ++ r_log r2) = true /\
                       err_matches (sr_out (pre_evs evs sr)) e2 = true).
        { cbn [pre_evs sr_events sr_out]. split; [apply evs_match_app2; assumption|exact Hm2]. }
        destruct e2 as [[| |]| | | | | | | |]; cbn [fst snd]; try exact Hgoal. exfalso; apply Hne; reflexivity.
Qed.

Theorem read_message_meets_spec : forall fs state s bufs fuel,
  wf_cfg (mkCfg state true 0 false) -> Forall wf_sframe fs -> wf_src s -> tl s = TEOF -> flat s = wire fs ->
  (length (wire fs) + 2 <= fuel)%nat ->
  let '(evs, e) := read_messages fuel bufs s state [] in
  reader_monitor (mkCfg state true 0 false) true fs evs None e = true.
Proof.
  intros fs state s bufs fuel Hc Hfs Hw Ht Hfl Hfuel.
  pose proof (read_messages_spec state bufs Hc fuel fs 0%nat [] [] s Hfs Hw Ht Hfl eq_refl Hfuel) as H.
  cbv zeta in H. destruct (read_messages fuel bufs s state []) as [evs e]. cbn [fst snd] in H.
  destruct H as [H1 H2]. unfold reader_monitor, expected_events. fold (rm_cfg state).
  rewrite H1, H2. cbn [andb]. destruct (sr_out _); reflexivity.
Qed.

(* ================================================================== 2. streams cut at an arbitrary byte *)
(* a strict prefix of a header is not a header *)
Lemma rfc_parse_prefix_incomplete bs h rest n : rfc_parse bs = PComplete h rest ->
  n + len rest < len bs -> rfc_parse (take n bs) = PIncomplete.
Proof.
  destruct bs as [|b0 [|b1 r]]; try discriminate. cbn [rfc_parse]. unfold rfc_parse_tail.
  set (need := extn_of (b1 mod 128) + (if 128 <=? b1 then 4 else 0)).
  destruct (len r <? need) eqn:E; [discriminate|].
  destruct (_ && _); [discriminate|]. intros H. injection H as _ Hr. subst rest.
  rewrite len_drop, !len_cons. intros Hn.
  unfold take. destruct (N.to_nat n) as [|[|k]] eqn:En; cbn [firstn]; try reflexivity.
  cbn [rfc_parse]. unfold rfc_parse_tail. fold need.
  assert (Hl: len (firstn k r) <= N.of_nat k) by (unfold len; rewrite firstn_length; lia).
  replace (len (firstn k r) <? need) with true by lia. reflexivity.
Qed.

Lemma header_prefix_incomplete h n : wf_header h -> n < len (rfc_header h) ->
  rfc_parse (take n (rfc_header h)) = PIncomplete.
Proof.
  intros Hh Hn. pose proof (rfc_parse_header h [] Hh) as P. rewrite app_nil_r in P.
  apply (rfc_parse_prefix_incomplete _ _ _ n P). rewrite len_nil. lia.
Qed.

Lemma cb_read_all_err h m k r e : fst (cb_read_all h m k r) = Some e -> e = RIo EFail \/ e = RIo EUnexpected.
Proof.
  unfold cb_read_all. destruct (read_full (r_rawN r) (r_src r)) as [[b e0] s'].
  destruct e0 as [[| |]|]; cbn [fst]; intros H; inversion H; auto.
Qed.

Lemma wire_nil : wire [] = [].
Proof. reflexivity. Qed.

Lemma wire_app a b : wire (a ++ b) = wire a ++ wire b.
Proof. unfold wire. rewrite map_app, concat_app. reflexivity. Qed.

(* the source ends inside a header *)
Lemma end_header_cut t x c openm lg r : wf_bytes x -> rfc_parse x = PIncomplete ->
  BndX t x c openm lg [] r ->
  exists h err r', next_frame r = ((h, Some err), r') /\ r_log r' = lg /\
    (err = RIo EEOF -> openm = None /\ t = TEOF).
Proof.
  intros Hxw Hp [Hcfg (Hw & Ht & Hfl) _ Hlog Hst _ _]. rewrite wire_nil in Hfl. cbn [app] in Hfl.
  unfold next_frame. rewrite reader_read_header_same.
  pose proof (read_header_spec (r_src r) Hw ltac:(rewrite Hfl; exact Hxw)) as H. unfold dec_agrees in H.
  destruct (read_header (r_src r)) as [res s1]. rewrite Hfl, Hp in H.
  destruct H as (e & -> & He1 & He2). rewrite Hst, st_frag_set.
  do 3 eexists. split; [reflexivity|]. rsimpl. split; [exact Hlog|].
  rewrite Ht in He1. destruct e.
  - destruct openm; cbn [is_some]; [discriminate|]. intros _. split; [reflexivity|].
    destruct t; [reflexivity|discriminate].
  - discriminate.
  - discriminate.
Qed.

(* the source ends inside frame [f]: after [n] of its bytes *)
Lemma cut_end t f n c openm lg r : wf_sframe f -> n < len (sf_wire f) ->
  BndX t (take n (sf_wire f)) c openm lg [] r ->
  exists h e r', next_frame r = ((h, e), r') /\
    match e with
    | Some err => r_log r' = lg /\
        (err = RIo EEOF -> openm = None /\
           match t with TEOF => n <? len (rfc_header (sf_header f)) | TFail => false end = true)
    | None => Short lg r'
    end.
Proof.
  intros Hf Hn HB. rewrite sf_wire_eq in *. set (hdr := rfc_header (sf_header f)) in *.
  rewrite len_app, len_wpay in Hn.
  assert (Hwp: wf_bytes (wpay f 0 (sf_payload f))) by (apply wpay_wf; [exact Hf|apply Hf]).
  destruct (n <? len hdr) eqn:En.
  - rewrite take_app_le in HB by (clear -En; lia).
    destruct (end_header_cut t _ c openm lg r
                ltac:(apply wf_bytes_take, rfc_header_wf, sf_header_wf, Hf)
                (header_prefix_incomplete _ n (sf_header_wf f Hf) ltac:(fold hdr; clear -En; lia)) HB)
      as (h & err & r' & Hnf & Hlg & He).
    exists h, (Some err), r'. split; [exact Hnf|]. split; [exact Hlg|].
    intros E. destruct (He E) as [-> ->]. split; reflexivity.
  - rewrite take_app_ge in HB by (clear -En; lia).
    set (pp := take (n - len hdr) (wpay f 0 (sf_payload f))) in *.
    assert (Hlpp: len pp < len (sf_payload f)).
    { unfold pp. rewrite len_take, len_wpay. clear -En Hn. lia. }
    assert (Hwpp: wf_bytes pp) by (apply wf_bytes_take, Hwp).
    destruct HB as [Hcfg (Hw & Ht & Hfl) _ Hlog Hst _ _]. rewrite wire_nil in Hfl. cbn [app] in Hfl.
    destruct (next_frame_reads_header r (sf_header f) pp (sf_header_wf f Hf) Hwpp Hw Hfl)
      as (s1 & Hrd & Hf1 & Hw1 & Ht1).
    rewrite sf_header_norm in Hrd.
    assert (HlenN: Z.to_N (h_len (sf_header f)) = len (sf_payload f)) by (cbn [sf_header h_len]; apply N2Z.id).
    destruct Hcfg as (Hskip & Hchk & Hmax & Hext & Hcb).
    unfold next_frame. rewrite Hrd, Hskip, HlenN.
    destruct (check_header (sf_header f) (r_state r)) as [rl|].
    { do 3 eexists. split; [reflexivity|]. rsimpl. split; [exact Hlog|discriminate]. }
    destruct ((0 <? r_max r)%Z && (r_max r <? h_len (sf_header f))%Z).
    { do 3 eexists. split; [reflexivity|]. rsimpl. split; [exact Hlog|discriminate]. }
    destruct (if r_ext r then unset_bits (sf_header f) (r_compressed r) else Some (sf_header f, r_compressed r))
      as [[hdr' comp']|].
    2: { do 3 eexists. split; [reflexivity|]. rsimpl. split; [exact Hlog|discriminate]. }
    destruct (st_fragmented (r_state r) && op_is_control (h_op hdr')).
    + rewrite Hcb.
      match goal with |- context [cb_read_all ?a ?b ?k ?d] =>
        pose proof (cb_read_all_cut a b k d) as Hcut; pose proof (cb_read_all_err a b k d) as Herr;
        destruct (cb_read_all a b k d) as [e r4] end.
      cbn [fst snd] in Hcut, Herr. rsimpl.
      destruct (Hcut Hw1 ltac:(rewrite Hf1; exact Hlpp)) as [Hne Hlg4].
      destruct e as [e|]; [|contradiction].
      do 3 eexists. split; [reflexivity|]. split; [rewrite Hlg4; exact Hlog|].
      intros ->. destruct (Herr _ eq_refl) as [E|E]; discriminate E.
    + do 3 eexists. split; [reflexivity|]. unfold Short; rsimpl.
      repeat split; [exact Hw1| |exact Hlog]. rewrite Hf1. exact Hlpp.
Qed.

(* [frames_before]: the whole frames before the cut, and how far into the next one it falls *)
Lemma frames_before_spec : forall fs cut done rest', frames_before cut fs = (done, rest') ->
  exists tailfs, fs = done ++ tailfs /\ cut = len (wire done) + rest' /\
    match tailfs with [] => True | f :: _ => rest' < len (sf_wire f) end.
Proof.
  induction fs as [|f fs IH]; intros cut done rest' H; cbn [frames_before] in H.
  - injection H as <- <-. exists []. rewrite wire_nil, len_nil. repeat split. 
  - destruct (len (sf_wire f) <=? cut) eqn:E.
    + destruct (frames_before (cut - len (sf_wire f)) fs) as [d c'] eqn:Efb. injection H as <- <-.
      destruct (IH _ _ _ Efb) as (tl' & -> & Hc & Ht). exists tl'. split; [reflexivity|].
      split; [|exact Ht]. change (f :: d) with ([f] ++ d). rewrite wire_app, len_app.
      unfold wire at 1. cbn [map concat]. rewrite app_nil_r. clear -E Hc. lia.
    + injection H as <- <-. exists (f :: fs). rewrite wire_nil, len_nil. repeat split. clear -E. lia.
Qed.

Lemma new_reader_bndX t x c fs s : wf_cfg c -> Forall wf_sframe fs -> wf_src s -> tl s = t ->
  flat s = wire fs ++ x ->
  BndX t x c None [] fs (new_reader s (c_state c) false (c_check_utf8 c) (c_max c) (c_ext c) CbReadAll).
Proof.
  intros Hc Hfs Hw Ht Hfl. unfold new_reader. constructor; rsimpl; cbn [is_some].
  - unfold cfg_ok; rsimpl. repeat split; reflexivity.
  - unfold src_okx; rsimpl. repeat split; assumption.
  - exact Hfs.
  - reflexivity.
  - symmetry. apply set_frag_init, Hc.
  - reflexivity.
  - reflexivity.
Qed.

Lemma negb_clean e : e <> RIo EEOF -> negb (match e with RIo EEOF => true | _ => false end) = true.
Proof. destruct e as [[| |]| | | | | | | |]; try reflexivity. intros H; exfalso; apply H; reflexivity. Qed.

Definition tail_fails (t : tail) : bool := match t with TFail => true | TEOF => false end.

(* C16, read side, stream level — for EVERY frame sequence (valid or not) *)
Theorem cut_stream_any : forall c fs cut t s bufs fuel,
  wf_cfg c -> Forall wf_sframe fs -> (cut <= length (wire fs))%nat ->
  wf_src s -> tl s = t -> flat s = firstn cut (wire fs) -> (cut + 2 <= fuel)%nat ->
  let d := drive fuel bufs (new_reader s (c_state c) false (c_check_utf8 c) (c_max c) (c_ext c) CbReadAll) in
  cut_monitor c true fs (N.of_nat cut) (tail_fails t) (dr_events d) (dr_err d) = true.
Proof.
  intros c fs cut t s bufs fuel Hc Hfs Hcut Hw Ht Hfl Hfuel. cbv zeta.
  set (r := new_reader s (c_state c) false (c_check_utf8 c) (c_max c) (c_ext c) CbReadAll).
  unfold cut_monitor, reader_monitor, expected_events.
  destruct (frames_before (N.of_nat cut) fs) as [done rest'] eqn:Efb.
  destruct (frames_before_spec _ _ _ _ Efb) as (tailfs & Hsplit & Hcn & Htail).
  assert (Hdone: Forall wf_sframe done /\ Forall wf_sframe tailfs) by (rewrite Hsplit in Hfs; apply Forall_app, Hfs).
  destruct Hdone as [Hdone Htl].
  set (x := take rest' (wire tailfs)).
  assert (Hflx: flat s = wire done ++ x).
  { rewrite Hfl. change (firstn cut (wire fs)) with (firstn cut (wire fs)).
    replace (firstn cut (wire fs)) with (take (N.of_nat cut) (wire fs)) by (unfold take; rewrite Nat2N.id; reflexivity).
    rewrite Hsplit, wire_app, Hcn. rewrite take_app_ge by lia.
    replace (len (wire done) + rest' - len (wire done)) with rest' by lia. reflexivity. }
  assert (Hlenx: (length (wire done ++ x) = cut)%nat).
  { rewrite <- Hflx, Hfl. apply firstn_length_le, Hcut. }
  assert (Hxwf: wf_bytes x) by (apply wf_bytes_take, wire_wf, Htl).
  assert (Hrest0: tailfs = [] -> rest' = 0).
  { intros ->. rewrite app_nil_r in Hsplit. subst done.
    assert (N.of_nat cut <= len (wire fs)) by (unfold len; lia). lia. }
  destruct (match t with TEOF => rest' =? 0 | TFail => false end) eqn:Ecase.
  - (* EOF exactly at a frame boundary: the complete stream [done] *)
    destruct t; [|discriminate]. assert (rest' = 0) by lia. subst rest'.
    assert (Hx0: x = []) by reflexivity. rewrite Hx0, app_nil_r in Hflx.
    pose proof (drive_spec c bufs Hc fuel done 0%nat [] [] r
                  (new_reader_bnd c done s Hc Hdone Hw Ht Hflx) eq_refl) as H.
    specialize (H ltac:(rewrite Hx0, app_nil_r in Hlenx; lia)). destruct H as (H1 & H2 & _).
    cbn [tail_fails N.eqb]. rewrite H1. cbn [andb].
    destruct (sr_out (spec_run c 0 None [] done)); cbn [err_matches] in H2 |- *; try (rewrite H2; reflexivity);
      destruct (dr_err (drive fuel bufs r)) as [[| |]| | | | | | | |]; try discriminate H2; reflexivity.
  - (* inside a frame, or a failing tail *)
    set (hl := match nth_error fs (length done) with
               | Some f => len (rfc_header (sf_header f)) | None => 0 end).
    set (eof_ok := match t with TEOF => rest' <? hl | TFail => false end).
    assert (Hend: forall c openm lg r, wf_cfg c -> BndX t x c openm lg [] r ->
      exists h e r', next_frame r = ((h, e), r') /\
        match e with
        | Some err => r_log r' = lg /\ (err = RIo EEOF -> openm = None /\ eof_ok = true)
        | None => Short lg r'
        end).
    { intros c0 openm lg r0 _ HB0. destruct tailfs as [|f more].
      - specialize (Hrest0 eq_refl). subst rest'.
        destruct (end_header_cut t x c0 openm lg r0 Hxwf eq_refl HB0) as (h & err & r' & Hnf & Hlg & He).
        exists h, (Some err), r'. split; [exact Hnf|]. split; [exact Hlg|].
        intros E. destruct (He E) as [_ ->]. discriminate Ecase.
      - assert (Hxf: x = take rest' (sf_wire f)).
        { unfold x. change (f :: more) with ([f] ++ more). rewrite wire_app.
          unfold wire at 1. cbn [map concat]. rewrite app_nil_r. apply take_app_le. lia. }
        rewrite Hxf in HB0.
        assert (Hhl: hl = len (rfc_header (sf_header f))).
        { unfold hl. rewrite Hsplit, nth_error_app2 by lia. rewrite Nat.sub_diag. reflexivity. }
        unfold eof_ok. rewrite Hhl.
        exact (cut_end t f rest' c0 openm lg r0 (Forall_inv Htl) Htail HB0). }
    pose proof (drive_specX t x Hxwf eof_ok Hend c bufs Hc fuel done 0%nat [] [] r
                  (new_reader_bndX t x c done s Hc Hdone Hw Ht Hflx) eq_refl ltac:(lia)) as [H1 H2].
    rewrite H1. cbn [andb]. fold hl.
    destruct (sr_out (spec_run c 0 None [] done)); cbn [acc_err] in H2; try (rewrite H2; reflexivity).
    + (* outside a message *)
      destruct t; cbn [tail_fails].
      * rewrite Ecase. unfold eof_ok in H2. destruct (rest' <? hl); [reflexivity|].
        apply negb_clean. destruct H2 as [H2|H2]; [exact H2|discriminate H2].
      * apply negb_clean. destruct H2 as [H2|H2]; [exact H2|discriminate H2].
    + (* inside a message *)
      destruct (tail_fails t); [apply negb_clean, H2|].
      destruct (rest' =? 0); apply negb_clean, H2.
Qed.

Theorem cut_stream : forall c fs cut t s bufs fuel,
  wf_cfg c -> Forall wf_sframe fs -> sr_out (spec_run c 0 None [] fs) = OClean ->
  (cut <= length (wire fs))%nat ->
  wf_src s -> tl s = t -> flat s = firstn cut (wire fs) -> (cut + 2 <= fuel)%nat ->
  let d := drive fuel bufs (new_reader s (c_state c) false (c_check_utf8 c) (c_max c) (c_ext c) CbReadAll) in
  cut_monitor c true fs (N.of_nat cut) (match t with TFail => true | TEOF => false end) (dr_events d) (dr_err d) = true.
Proof. intros c fs cut t s bufs fuel Hc Hfs _. apply cut_stream_any; assumption. Qed.

(* ================================================================== 3. reading, discarding or half-reading each message *)
(* ------------------------------------------------------------------ Discard does not look at the frame flag or the UTF-8 state *)
Definition with_fix (r : reader) (fr : bool) (st : N) : reader :=
  mkR (r_src r) (r_state r) (r_skip r) (r_check_utf8 r) (r_max r) (r_ext r) (r_compressed r) (r_cb r)
      (r_opcode r) fr (r_rawN r) (r_masked r) (r_key r) (r_cpos r) (r_u8wrap r) st (r_u8acc r) (r_log r).

Ltac fsimpl := cbn [with_fix r_src r_state r_skip r_check_utf8 r_max r_ext r_compressed r_cb r_opcode r_frame
  r_rawN r_masked r_key r_cpos r_u8wrap r_u8state r_u8acc r_log set_src reset reset_fragment fst snd] in *.

Lemma with_fix_id r : with_fix r (r_frame r) (r_u8state r) = r.
Proof. destruct r; reflexivity. Qed.
Lemma with_fix_twice r a b a' b' : with_fix (with_fix r a b) a' b' = with_fix r a' b'.
Proof. reflexivity. Qed.
Lemma reset_fix r fr st : reset (with_fix r fr st) = reset r.
Proof. reflexivity. Qed.

Lemma raw_drain_fix r fr st :
  raw_drain (with_fix r fr st) = (fst (raw_drain r), with_fix (snd (raw_drain r)) fr st).
Proof.
  unfold raw_drain. fsimpl. destruct (read_full (r_rawN r) (r_src r)) as [[b e] s'].
  destruct e as [[| |]|]; reflexivity.
Qed.

Lemma next_frame_fix r fr st : exists fr',
  next_frame (with_fix r fr st) = (fst (next_frame r), with_fix (snd (next_frame r)) fr' st).
Proof.
  unfold next_frame, cb_read_all, raw_drain. fsimpl.
  destruct (reader_read_header (r_src r)) as [[e|hdr] s1].
  { exists fr. reflexivity. }
  destruct (if r_skip r then None else check_header hdr (r_state r)); [exists fr; reflexivity|].
  destruct ((0 <? r_max r)%Z && (r_max r <? h_len hdr)%Z); [exists fr; reflexivity|].
  destruct (if r_ext r then unset_bits hdr (r_compressed r) else Some (hdr, r_compressed r)) as [[hdr' comp']|];
    [|exists fr; reflexivity].
  destruct (st_fragmented (r_state r) && op_is_control (h_op hdr')); [|exists true; reflexivity].
  destruct (r_cb r); fsimpl.
  - destruct (read_full (Z.to_N (h_len hdr)) s1) as [[b e] s2]. destruct e as [[| |]|]; exists fr; reflexivity.
  - destruct (read_full (Z.to_N (h_len hdr)) s1) as [[b e] s2]. destruct e as [[| |]|]; try (exists fr; reflexivity).
    fsimpl. destruct (read_full (Z.to_N (h_len hdr) - len b) s2) as [[b2 e2] s3].
    destruct e2 as [[| |]|]; exists fr; reflexivity.
Qed.

Lemma discard_fix : forall fuel r fr st,
  fst (discard fuel (with_fix r fr st)) = fst (discard fuel r) /\
  (fst (discard fuel r) <> Some ROutOfFuel ->
   snd (discard fuel (with_fix r fr st)) = snd (discard fuel r)).
Proof.
  induction fuel as [|fuel IH]; intros r fr st.
  - cbn [discard fst snd]. split; [reflexivity|]. intros H. exfalso. apply H. reflexivity.
  - cbn [discard]. rewrite raw_drain_fix. destruct (raw_drain r) as [e r1]. cbn [fst snd].
    destruct e as [e|].
    { cbn [fst snd]. rewrite reset_fix. split; reflexivity. }
    change (r_state (with_fix r1 fr st)) with (r_state r1).
    destruct (negb (st_fragmented (r_state r1))).
    { cbn [fst snd]. rewrite reset_fix. split; reflexivity. }
    destruct (next_frame_fix r1 fr st) as [fr' E]. rewrite E.
    destruct (next_frame r1) as [[h e2] r2]. cbn [fst snd].
    destruct e2 as [e2|].
    { cbn [fst snd]. rewrite reset_fix. split; reflexivity. }
    apply IH.
Qed.

(* ------------------------------------------------------------------ one Read, with the log made explicit *)
(* [read_step] of ReaderProofs.v, saying which events the step appended to the
   log: intermediate control events only, the same on the spec's side *)
Definition all_inter (l : list event) : Prop := Forall (fun e => ev_inter e = true) l.

Lemma read_stepS c st lg rest r kk : wf_cfg c -> minv c st lg rest r -> 0 < kk ->
  (exists d r' st' mid rest', reader_read kk r = ((d, None), r') /\ minv c st' (lg ++ mid) rest' r' /\
      mdeliv st' = mdeliv st ++ d /\ m_op (mmsg st') = m_op (mmsg st) /\ m_comp (mmsg st') = m_comp (mmsg st) /\
      (mu r' < mu r)%nat /\ all_inter mid /\
      forall k evs, exists k', mspec c k st evs rest = mspec c k' st' (evs ++ mid) rest') \/
  (exists d r' rest', reader_read kk r = ((d, Some (RIo EEOF)), r') /\ Bnd c None lg rest' r' /\
      (r_compressed r' = m_comp (mmsg st) \/ spec_control (m_op (mmsg st)) = true) /\
      (length (flat (r_src r')) <= length (flat (r_src r)))%nat /\
      forall k evs, exists k', mspec c k st evs rest =
        spec_run c k' None (evs ++ [mkEv (m_op (mmsg st)) (mdeliv st ++ d) false (m_comp (mmsg st))]) rest') \/
  (exists d err r', reader_read kk r = ((d, Some err), r') /\ err <> RIo EEOF /\
      forall k evs, sr_out (mspec c k st evs rest) <> OClean).
Proof.
  intros Hc Hinv Hk. destruct st as [m f pre post|m]; cbn [minv mspec mdeliv mmsg] in *.
  - (* inside a frame *)
    rewrite reader_read_eq, (m_frame _ _ _ _ _ _ _ _ Hinv).
    pose proof (m_pay _ _ _ _ _ _ _ _ Hinv) as Hpay.
    destruct (rgo_step c m f pre post lg rest r kk Hc Hinv Hk)
      as [(d & post' & r' & Hr & Hdp & HM & Hmu)|[(r' & Hr & HB & Hmu & Hsp)|[(r' & Hr & HB & Hcp & Hle & Hsp)|(d & r' & Hr & Hlg & Hsp)]]].
    + left. exists d, r', (MMid m f (pre ++ d) post'), [], rest. cbn [minv mspec mdeliv mmsg]. rewrite app_nil_r.
      split; [exact Hr|]. split; [exact HM|]. split; [apply app_assoc|]. split; [reflexivity|]. split; [reflexivity|].
      split; [exact Hmu|]. split; [constructor|]. intros k evs. exists k. rewrite app_nil_r. reflexivity.
    + left. exists post, r', (MBet (msg_after m f)), [], rest. cbn [minv mspec mdeliv mmsg]. rewrite app_nil_r.
      split; [exact Hr|]. split; [exact HB|]. split.
      { unfold msg_after. cbn [m_acc fst snd]. rewrite Hpay. apply app_assoc. }
      split; [reflexivity|]. split; [reflexivity|]. split; [exact Hmu|]. split; [constructor|].
      intros k evs. exists (S k). rewrite app_nil_r. apply Hsp.
    + right; left. exists post, r', rest. split; [exact Hr|]. split; [exact HB|]. split; [exact Hcp|].
      split; [exact Hle|]. intros k evs. exists (S k). rewrite Hsp, Hpay, app_assoc. reflexivity.
    + right; right. exists d, RInvalidUtf8, r'. split; [exact Hr|]. split; [discriminate|].
      intros k evs. rewrite Hsp. discriminate.
  - (* between two fragments: the next header first *)
    pose proof (b_msg _ _ _ _ _ Hinv) as (Hfr & _). cbn [is_some] in *.
    rewrite reader_read_eq, Hfr, (b_state _ _ _ _ _ Hinv), st_frag_set. cbn [negb is_some].
    destruct rest as [|f rest].
    + destruct (next_frame_eof c (Some m) lg r Hinv) as (h & r' & Hnf & Hlg). rewrite Hnf. cbn [is_some].
      right; right. exists [], (RIo EUnexpected), r'. split; [reflexivity|]. split; [discriminate|].
      intros k evs. rewrite spec_run_nil. discriminate.
    + destruct (next_frame_spec c (Some m) lg f rest r Hc Hinv) as (h & e & r1 & Hnf & H). rewrite Hnf.
      destruct e as [err|].
      * destruct H as (Hlg & Hsp). right; right. exists [], err, r1. split; [reflexivity|].
        split.
        { intros ->. destruct (Hsp 0%nat []) as (out & _ & Hem & _ & Hnc).
          destruct out; cbn [err_matches] in Hem; try discriminate. apply Hnc; reflexivity. }
        intros k evs. destruct (Hsp k evs) as (out & -> & _ & _ & Hnc). exact Hnc.
      * destruct H as (Hlen & [(m0 & Hm0 & Hfr1 & HB & Hsp)|(Hop & HM & Hsp)]).
        -- (* control frame in between *)
           rewrite Hfr1. injection Hm0 as <-. left.
           exists [], r1, (MBet m), [mkEv (sf_op f) (sf_payload f) true (m_comp m)], rest.
           cbn [minv mspec mdeliv mmsg]. split; [reflexivity|]. split; [exact HB|].
           split; [symmetry; apply app_nil_r|]. split; [reflexivity|]. split; [reflexivity|]. split.
           { unfold mu. rewrite Hfr, Hfr1. clear -Hlen. lia. }
           split; [repeat constructor|].
           intros k evs. exists (S k). apply Hsp.
        -- (* next fragment: its first Read happens in the same call *)
           cbn [msg_of] in *. rewrite (m_frame _ _ _ _ _ _ _ _ HM).
           pose proof (m_pay _ _ _ _ _ _ _ _ HM) as Hpay. cbn [app] in Hpay.
           assert (Hmu1: (mu r1 < mu r)%nat).
           { unfold mu. rewrite Hfr, (m_frame _ _ _ _ _ _ _ _ HM). clear -Hlen. lia. }
           destruct (rgo_step c m f [] (sf_payload f) lg rest r1 kk Hc HM Hk)
             as [(d & post' & r' & Hr & Hdp & HM' & Hmu)|[(r' & Hr & HB & Hmu & Hsp')|[(r' & Hr & HB & Hcp & Hle & Hsp')|(d & r' & Hr & Hlg & Hsp')]]].
           ++ left. exists d, r', (MMid m f ([] ++ d) post'), [], rest. cbn [minv mspec mdeliv mmsg]. rewrite app_nil_r.
              split; [exact Hr|]. split; [exact HM'|]. split; [reflexivity|]. split; [reflexivity|].
              split; [reflexivity|]. split; [clear -Hmu Hmu1; lia|]. split; [constructor|].
              intros k evs. exists k. rewrite app_nil_r. apply Hsp.
           ++ left. exists (sf_payload f), r', (MBet (msg_after m f)), [], rest. cbn [minv mspec mdeliv mmsg].
              rewrite app_nil_r.
              split; [exact Hr|]. split; [exact HB|]. split; [reflexivity|]. split; [reflexivity|].
              split; [reflexivity|]. split; [clear -Hmu Hmu1; lia|]. split; [constructor|].
              intros k evs. exists (S k). rewrite app_nil_r, Hsp. apply Hsp'.
           ++ right; left. exists (sf_payload f), r', rest. split; [exact Hr|]. split; [exact HB|].
              split; [exact Hcp|]. split.
              { unfold mu in Hmu1. rewrite Hfr, (m_frame _ _ _ _ _ _ _ _ HM) in Hmu1. clear -Hle Hmu1. lia. }
              intros k evs. exists (S k). rewrite Hsp, Hsp'. reflexivity.
           ++ right; right. exists d, RInvalidUtf8, r'. split; [exact Hr|]. split; [discriminate|].
              intros k evs. rewrite Hsp, Hsp'. discriminate.
Qed.

(* reading one message to io.EOF *)
Lemma read_to_eof_specS c : wf_cfg c -> forall fuel st lg rest r bufs all racc,
  minv c st lg rest r -> concat (rev_append racc []) = mdeliv st -> (mu r < fuel)%nat ->
  exists p e r2, read_to_eof fuel bufs all r racc = ((p, e), r2) /\
   ((e = RIo EEOF /\ exists mid rest', Bnd c None (lg ++ mid) rest' r2 /\
        (r_compressed r2 = m_comp (mmsg st) \/ spec_control (m_op (mmsg st)) = true) /\
        (length (flat (r_src r2)) <= length (flat (r_src r)))%nat /\ all_inter mid /\
        forall k evs, exists k', mspec c k st evs rest =
           spec_run c k' None (evs ++ mid ++ [mkEv (m_op (mmsg st)) p false (m_comp (mmsg st))]) rest')
    \/ (e <> RIo EEOF /\ forall k evs, sr_out (mspec c k st evs rest) <> OClean)).
Proof.
  intros Hc. induction fuel as [|fuel IH]; intros st lg rest r bufs all racc Hinv Hacc Hmu; [lia|].
  cbn [read_to_eof]. pose proof (next_buf_pos bufs all) as Hkk.
  destruct (next_buf bufs all) as [kk bufs']. cbn [fst] in Hkk.
  destruct (read_stepS c st lg rest r kk Hc Hinv Hkk)
    as [(d & r' & st' & mid & rest' & Hr & Hinv' & Hdel & Hopq & Hcmq & Hmu' & Hmid & Hsp)
       |[(d & r' & rest' & Hr & HB & Hcp & Hle & Hsp)|(d & err & r' & Hr & Hne & Hsp)]]; rewrite Hr.
  - assert (Hacc': concat (rev_append (d :: racc) []) = mdeliv st') by (rewrite concat_rev_cons, Hacc, Hdel; reflexivity).
    destruct (IH st' (lg ++ mid) rest' r' bufs' all (d :: racc) Hinv' Hacc' ltac:(lia)) as (p & e & r2 & Hrte & Hres).
    exists p, e, r2. split; [exact Hrte|]. rewrite Hopq, Hcmq in Hres.
    pose proof (mu_le _ _ Hmu') as Hle'.
    destruct Hres as [(He & mid2 & rest2 & HB & Hcp & Hle & Hmid2 & Hsp2)|(Hne & Hsp2)].
    + left. split; [exact He|]. exists (mid ++ mid2), rest2. rewrite app_assoc. split; [exact HB|]. split; [exact Hcp|].
      split; [clear -Hle Hle'; lia|]. split; [apply Forall_app; split; assumption|]. intros k evs.
      destruct (Hsp k evs) as (k1 & Heq1). destruct (Hsp2 k1 (evs ++ mid)) as (k2 & Heq2).
      exists k2. rewrite Heq1, Heq2, <- !app_assoc. reflexivity.
    + right. split; [exact Hne|]. intros k evs.
      destruct (Hsp k evs) as (k1 & Heq1). rewrite Heq1. apply Hsp2.
  - do 3 eexists. split; [reflexivity|]. left. split; [reflexivity|]. exists [], rest'. rewrite app_nil_r.
    split; [exact HB|]. split; [exact Hcp|]. split; [exact Hle|]. split; [constructor|].
    intros k evs. destruct (Hsp k evs) as (k1 & Heq1). exists k1.
    rewrite concat_rev_cons, Hacc. exact Heq1.
  - do 3 eexists. split; [reflexivity|]. right. split; [exact Hne|]. exact Hsp.
Qed.

(* ------------------------------------------------------------------ Discard *)
(* after NextFrame handled an intermediate control frame, nothing of it is left to drain *)
Lemma next_frame_ctl_rawN r h r' : next_frame r = ((h, None), r') -> r_frame r' = false -> r_rawN r' = 0.
Proof.
  unfold next_frame, cb_read_all, raw_drain.
  destruct (reader_read_header (r_src r)) as [[e|hdr] s1]; [discriminate|].
  destruct (if r_skip r then None else check_header hdr (r_state r)); [discriminate|].
  destruct ((0 <? r_max r)%Z && (r_max r <? h_len hdr)%Z); [discriminate|].
  destruct (if r_ext r then unset_bits hdr (r_compressed r) else Some (hdr, r_compressed r)) as [[hdr' comp']|];
    [|discriminate].
  destruct (st_fragmented (r_state r) && op_is_control (h_op hdr')).
  2: { intros H. injection H as _ <-. rsimpl. discriminate. }
  destruct (r_cb r); rsimpl.
  - pose proof (read_full_gen (Z.to_N (h_len hdr)) s1) as G.
    destruct (read_full (Z.to_N (h_len hdr)) s1) as [[b e] s2]. destruct G as (_ & G & _).
    destruct e as [[| |]|]; try discriminate. intros H. injection H as _ <-. rsimpl. intros _.
    rewrite (G eq_refl). apply N.sub_diag.
  - destruct (read_full (Z.to_N (h_len hdr)) s1) as [[b e] s2]. destruct e as [[| |]|]; try discriminate. rsimpl.
    pose proof (read_full_gen (Z.to_N (h_len hdr) - len b) s2) as G.
    destruct (read_full (Z.to_N (h_len hdr) - len b) s2) as [[b2 e2] s3]. destruct G as (_ & G & _).
    destruct e2 as [[| |]|]; try discriminate. intros H. injection H as _ <-. rsimpl. intros _.
    rewrite (G eq_refl). apply N.sub_diag.
Qed.

(* the fields Discard's drain leaves alone *)
Definition same_ctl (r r1 : reader) : Prop :=
  r_state r1 = r_state r /\ r_skip r1 = r_skip r /\ r_check_utf8 r1 = r_check_utf8 r /\ r_max r1 = r_max r /\
  r_ext r1 = r_ext r /\ r_compressed r1 = r_compressed r /\ r_cb r1 = r_cb r /\ r_opcode r1 = r_opcode r /\
  r_frame r1 = r_frame r /\ r_u8state r1 = r_u8state r /\ r_log r1 = r_log r.

Lemma drain_ok r a b : wf_src (r_src r) -> flat (r_src r) = a ++ b -> r_rawN r = len a ->
  exists r1, raw_drain r = (None, r1) /\ wf_src (r_src r1) /\ tl (r_src r1) = tl (r_src r) /\
    flat (r_src r1) = b /\ r_rawN r1 = 0 /\ same_ctl r r1.
Proof.
  intros Hw Hfl Hn. unfold raw_drain.
  pose proof (read_full_ok (r_rawN r) (r_src r) Hw ltac:(rewrite Hfl, len_app; lia)) as R.
  destruct (read_full (r_rawN r) (r_src r)) as [[x e] s']. destruct R as (-> & -> & Hf' & Hw' & Ht').
  eexists. split; [reflexivity|]. unfold same_ctl. rsimpl.
  split; [exact Hw'|]. split; [exact Ht'|]. split.
  { rewrite Hf', Hfl, Hn. rewrite drop_app_ge by lia. rewrite N.sub_diag. apply drop_0. }
  split; [rewrite len_take, Hfl, len_app; lia|]. repeat split; reflexivity.
Qed.

(* what a successful Discard leaves: the Reader at the frame boundary after the
   message, only intermediate control events logged, and the spec has emitted
   exactly those and then the message [ev] that nobody read *)
Definition dres (c : rcfg) (X : option rerror * reader) (sr : spec_result) (lg evs : list event) (n : nat) : Prop :=
  exists k' mid ev rest' r', X = (None, r') /\ Bnd c None (lg ++ mid) rest' r' /\
    all_inter mid /\ ev_inter ev = false /\ sr = spec_run c k' None (evs ++ mid ++ [ev]) rest' /\
    (length (flat (r_src r')) <= n)%nat.

Lemma discard_spec c : wf_cfg c -> forall fuel st lg rest rn fr s0 k evs,
  minv c st lg rest rn -> (forall m, st = MBet m -> r_rawN rn = 0) ->
  (length (flat (r_src rn)) < fuel)%nat ->
  sr_out (mspec c k st evs rest) = OClean ->
  dres c (discard fuel (with_fix rn fr s0)) (mspec c k st evs rest) lg evs (length (flat (r_src rn))).
Proof.
  intros Hc. induction fuel as [|fuel IH]; intros st lg rest rn fr s0 k evs Hinv Hraw Hfuel Hclean; [lia|].
  (* after the drain, between two fragments *)
  assert (C: forall m lg rest r1n fr st k evs, Bnd c (Some m) lg rest r1n ->
     (length (flat (r_src r1n)) < S fuel)%nat -> sr_out (spec_run c k (Some m) evs rest) = OClean ->
     dres c (let '((_, e2), r2) := next_frame (with_fix r1n fr st) in
             match e2 with Some e2 => (Some e2, reset r2) | None => discard fuel r2 end)
          (spec_run c k (Some m) evs rest) lg evs (length (flat (r_src r1n)))).
  { clear - Hc IH. intros m lg rest r1n fr st k evs HB Hf Hclean.
    destruct (next_frame_fix r1n fr st) as [fr' E]. rewrite E. clear E.
    destruct rest as [|f rest].
    - exfalso. rewrite spec_run_nil in Hclean. discriminate Hclean.
    - destruct (next_frame_spec c (Some m) lg f rest r1n Hc HB) as (h & e & r2 & Hnf & H). rewrite Hnf. cbn [fst snd].
      destruct e as [err|].
      + exfalso. destruct H as (_ & Hsp). destruct (Hsp k evs) as (out & Heq & _ & _ & Hnc).
        rewrite Heq in Hclean. apply Hnc, Hclean.
      + destruct H as (Hlen & [(m0 & Hm0 & Hfr1 & HB2 & Hsp)|(Hop & HM & Hsp)]).
        * injection Hm0 as <-. rewrite Hsp in Hclean |- *.
          pose proof (next_frame_ctl_rawN _ _ _ Hnf Hfr1) as Hr0.
          destruct (IH (MBet m) _ rest r2 fr' st (S k) _ HB2 ltac:(intros; exact Hr0) ltac:(lia) Hclean)
            as (k' & mid & ev & rest' & r' & Hd & HB' & Hmid & Hev & Heq & Hle).
          exists k', ([mkEv (sf_op f) (sf_payload f) true (m_comp m)] ++ mid), ev, rest', r'.
          split; [exact Hd|]. rewrite app_assoc. split; [exact HB'|].
          split; [constructor; [reflexivity|exact Hmid]|]. split; [exact Hev|].
          split; [cbn [mspec] in Heq; rewrite Heq, <- !app_assoc; reflexivity|lia].
        * cbn [msg_of] in *. rewrite Hsp in Hclean |- *.
          destruct (IH (MMid m f [] (sf_payload f)) lg rest r2 fr' st k evs HM ltac:(intros; discriminate) ltac:(lia) Hclean)
            as (k' & mid & ev & rest' & r' & Hd & HB' & Hmid & Hev & Heq & Hle).
          exists k', mid, ev, rest', r'. split; [exact Hd|]. split; [exact HB'|]. split; [exact Hmid|].
          split; [exact Hev|]. split; [exact Heq|lia]. }
  cbn [discard]. rewrite raw_drain_fix.
  destruct st as [m f pre post|m]; cbn [minv mspec] in *.
  - (* inside a frame: drain it *)
    pose proof Hinv as [Hcfg (Hw & Ht & Hfl) Hwf Hf Hpay Hwacc Hlog Hst Hfr Hopc Hcompr Hnoext Hctlfin HrawN Hmk Hkey Hwrap Hu8].
    destruct (drain_ok rn (wpay f (len pre) post) (wire rest) Hw Hfl ltac:(rewrite HrawN, len_wpay; reflexivity))
      as (r1 & Hdr & Hw1 & Ht1 & Hf1 & Hr1 & Hsame).
    rewrite Hdr. cbn [fst snd].
    destruct Hsame as (S1 & S2 & S3 & S4 & S5 & S6 & S7 & S8 & S9 & S10 & S11).
    assert (Hlen1: (length (flat (r_src r1)) <= length (flat (r_src rn)))%nat).
    { rewrite Hf1, Hfl, app_length. clear. lia. }
    assert (Hcfg1: cfg_ok c r1).
    { unfold cfg_ok in *. rewrite S2, S3, S4, S5, S7. exact Hcfg. }
    change (r_state (with_fix r1 fr s0)) with (r_state r1). rewrite S1, Hst, st_frag_set, negb_involutive.
    destruct m as [[o a] cm]. cbn [m_op m_acc m_comp fst snd] in *.
    unfold spec_data in Hclean |- *.
    destruct (wrap_of c o && negb (if sf_fin f then valid_utf8 (a ++ sf_payload f) else utf8_viable (a ++ sf_payload f))) eqn:Hu;
      [discriminate Hclean|].
    destruct (sf_fin f) eqn:Hfin.
    + (* last fragment *)
      exists (S k), [], (mkEv o (a ++ sf_payload f) false cm), rest, (reset r1).
      split; [reflexivity|]. rewrite app_nil_r. split.
      { constructor; rsimpl; cbn [is_some].
        - exact Hcfg1.
        - unfold src_ok; rsimpl. repeat split; [exact Hw1|congruence|exact Hf1].
        - exact Hwf.
        - congruence.
        - rewrite S1, Hst. reflexivity.
        - rewrite S6. exact Hnoext.
        - reflexivity. }
      split; [constructor|]. split; [reflexivity|]. split; [reflexivity|exact Hlen1].
    + (* more fragments follow *)
      set (m' := (o, a ++ sf_payload f, cm)).
      set (stg := if wrap_of c o then u8_run 0 (a ++ sf_payload f) else 0).
      assert (Hwfacc': wf_bytes (a ++ sf_payload f)) by (apply wf_bytes_app; split; [exact Hwacc|apply Hf]).
      assert (Hnctl: spec_control o = false).
      { destruct (spec_control o); [|reflexivity]. specialize (Hctlfin eq_refl). discriminate. }
      assert (HB1: Bnd c (Some m') lg rest (with_fix r1 false stg)).
      { constructor; fsimpl; cbn [is_some m_op m_acc m_comp fst snd].
        - exact Hcfg1.
        - unfold src_ok; fsimpl. repeat split; [exact Hw1|congruence|exact Hf1].
        - exact Hwf.
        - congruence.
        - rewrite S1, Hst. reflexivity.
        - rewrite S6. exact Hnoext.
        - unfold m'. cbn [m_op m_acc m_comp fst snd]. split; [reflexivity|]. split; [congruence|]. split.
          { rewrite S6. destruct Hcompr as [Hx|Hx]; [exact Hx|congruence]. }
          split; [|split; assumption].
          unfold u8_ok; fsimpl. split; [reflexivity|]. unfold stg. destruct (wrap_of c o) eqn:Hwr.
          + cbn [andb] in Hu. rewrite utf8_viable_dfa in Hu by exact Hwfacc'. split.
            * intros E. rewrite E in Hu. discriminate Hu.
            * apply run_states; [exact Hwfacc'|simpl; tauto].
          + split; [discriminate|simpl; tauto]. }
      change (with_fix r1 fr s0) with (with_fix (with_fix r1 false stg) fr s0).
      assert (Hfu1: (length (flat (r_src (with_fix r1 false stg))) < S fuel)%nat) by (fsimpl; clear -Hlen1 Hfuel; lia).
      destruct (C m' lg rest (with_fix r1 false stg) fr s0 (S k) evs HB1 Hfu1 Hclean)
        as (k' & mid & ev & rest' & r' & Hd & HB' & Hmid & Hev & Heq & Hle).
      exists k', mid, ev, rest', r'. split; [exact Hd|]. split; [exact HB'|]. split; [exact Hmid|].
      split; [exact Hev|]. split; [exact Heq|]. fsimpl. clear -Hle Hlen1. lia.
  - (* between two fragments: nothing to drain *)
    specialize (Hraw m eq_refl).
    pose proof Hinv as [Hcfg (Hw & Ht & Hfl) Hwf Hlog Hst Hcz Hmsg].
    destruct (drain_ok rn [] (wire rest) Hw Hfl Hraw) as (r1 & Hdr & Hw1 & Ht1 & Hf1 & Hr1 & Hsame).
    rewrite Hdr. cbn [fst snd].
    destruct Hsame as (S1 & S2 & S3 & S4 & S5 & S6 & S7 & S8 & S9 & S10 & S11).
    assert (HB1: Bnd c (Some m) lg rest r1).
    { constructor.
      - unfold cfg_ok in *. rewrite S2, S3, S4, S5, S7. exact Hcfg.
      - unfold src_ok. repeat split; [exact Hw1|congruence|exact Hf1].
      - exact Hwf.
      - congruence.
      - congruence.
      - rewrite S6. exact Hcz.
      - unfold u8_ok in *. rewrite S9, S8, S6, S10. exact Hmsg. }
    change (r_state (with_fix r1 fr s0)) with (r_state r1). rewrite S1, Hst, st_frag_set. cbn [is_some negb].
    assert (Hfu1: (length (flat (r_src r1)) < S fuel)%nat) by (rewrite Hf1; rewrite Hfl in Hfuel; exact Hfuel).
    destruct (C m lg rest r1 fr s0 k evs HB1 Hfu1 Hclean)
      as (k' & mid & ev & rest' & r' & Hd & HB' & Hmid & Hev & Heq & Hle).
    exists k', mid, ev, rest', r'. split; [exact Hd|]. split; [exact HB'|]. split; [exact Hmid|].
    split; [exact Hev|]. split; [exact Heq|]. rewrite Hf1 in Hle. rewrite Hfl. exact Hle.
Qed.

(* a Read that leaves the Reader between two fragments has used up the frame *)
Lemma rat_eof_none data r2 d r' : rat_eof data r2 = ((d, None), r') -> r_rawN r' = 0.
Proof.
  unfold rat_eof. destruct (negb (r_rawN r2 =? 0)); [discriminate|].
  destruct (st_fragmented (r_state r2)); [intros H; injection H as _ <-; reflexivity|].
  destruct (_ && _); discriminate.
Qed.

Lemma rgo_rawN k r d r' : wf_src (r_src r) -> 0 < k -> r_frame r = true ->
  rgo k r = ((d, None), r') -> r_frame r' = false -> r_rawN r' = 0.
Proof.
  intros Hw Hk Hfr. unfold rgo. pose proof (frame_read_gen k r Hw Hk) as G.
  destruct (frame_read k r) as [[data e] r2]. destruct G as (_ & Hfr2 & _).
  destruct e as [e|].
  - destruct e as [[| |]| | | | | | | |]; try discriminate. intros H _. exact (rat_eof_none _ _ _ _ H).
  - destruct (negb (r_rawN r2 =? 0)).
    + intros H Hf. injection H as _ <-. rewrite Hfr2, Hfr in Hf. discriminate Hf.
    + intros H _. exact (rat_eof_none _ _ _ _ H).
Qed.

(* ------------------------------------------------------------------ the monitor of the pattern loop *)
(* [spec] = the spec's events, [obs] = what the loop logged. Every intermediate
   control event must be there; of the messages (the events that are not
   intermediate) the next action of the pattern decides: read = there,
   discarded = not there, half-read = there exactly when the single Read
   finished it (either is accepted). Nothing else may be there. *)
Fixpoint pat_match (pat all : list ract) (spec obs : list event) : bool :=
  match spec with
  | [] => match obs with [] => true | _ => false end
  | e :: spec' =>
    if ev_inter e then
      match obs with o :: obs' => ev_matches e o && pat_match pat all spec' obs' | [] => false end
    else
      match fst (next_act pat all) with
      | ARead =>
        match obs with o :: obs' => ev_matches e o && pat_match (snd (next_act pat all)) all spec' obs' | [] => false end
      | ADiscard => pat_match (snd (next_act pat all)) all spec' obs
      | APartial =>
        match obs with o :: obs' => ev_matches e o && pat_match (snd (next_act pat all)) all spec' obs' | [] => false end
        || pat_match (snd (next_act pat all)) all spec' obs
      end
  end.

Definition pat_monitor (c : rcfg) (pat : list ract) (fs : list sframe) (evs : list event) (e : rerror) : bool :=
  match e with RIo EEOF => true | _ => false end &&
  pat_match pat pat (sr_events (spec_run c 0 None [] fs)) evs.

(* the loop so far: whatever follows, matching the rest from pattern position
   [pat] makes the whole match from the initial pattern [pat0] *)
Definition PM (all pat0 : list ract) (evs lg : list event) (pat : list ract) : Prop :=
  forall spec' obs', pat_match pat all spec' obs' = true -> pat_match pat0 all (evs ++ spec') (lg ++ obs') = true.

Lemma ev_matches_refl e : ev_matches e e = true.
Proof. unfold ev_matches. rewrite N.eqb_refl, bytes_eqb_refl, !eqb_reflx. reflexivity. Qed.

Lemma PM_inter all pat0 pat mid : all_inter mid -> forall evs lg,
  PM all pat0 evs lg pat -> PM all pat0 (evs ++ mid) (lg ++ mid) pat.
Proof.
  induction 1 as [|e mid He _ IH]; intros evs lg H.
  - rewrite !app_nil_r. exact H.
  - replace (evs ++ e :: mid) with ((evs ++ [e]) ++ mid) by (rewrite <- app_assoc; reflexivity).
    replace (lg ++ e :: mid) with ((lg ++ [e]) ++ mid) by (rewrite <- app_assoc; reflexivity).
    apply IH. intros spec' obs' Hp. rewrite <- !app_assoc. cbn [app]. apply H.
    cbn [pat_match]. rewrite He, ev_matches_refl, Hp. reflexivity.
Qed.

Lemma PM_read all pat0 pat evs lg e o : fst (next_act pat all) = ARead -> ev_inter e = false ->
  ev_matches e o = true -> PM all pat0 evs lg pat ->
  PM all pat0 (evs ++ [e]) (lg ++ [o]) (snd (next_act pat all)).
Proof.
  intros Ha He Hm H spec' obs' Hp. rewrite <- !app_assoc. cbn [app]. apply H.
  cbn [pat_match]. rewrite He, Ha, Hm, Hp. reflexivity.
Qed.

Lemma PM_discard all pat0 pat evs lg e : fst (next_act pat all) = ADiscard -> ev_inter e = false ->
  PM all pat0 evs lg pat -> PM all pat0 (evs ++ [e]) lg (snd (next_act pat all)).
Proof.
  intros Ha He H spec' obs' Hp. rewrite <- !app_assoc. cbn [app]. apply H.
  cbn [pat_match]. rewrite He, Ha. exact Hp.
Qed.

Lemma PM_partial_fin all pat0 pat evs lg e o : fst (next_act pat all) = APartial -> ev_inter e = false ->
  ev_matches e o = true -> PM all pat0 evs lg pat ->
  PM all pat0 (evs ++ [e]) (lg ++ [o]) (snd (next_act pat all)).
Proof.
  intros Ha He Hm H spec' obs' Hp. rewrite <- !app_assoc. cbn [app]. apply H.
  cbn [pat_match]. rewrite He, Ha, Hm, Hp. reflexivity.
Qed.

Lemma PM_partial_skip all pat0 pat evs lg e : fst (next_act pat all) = APartial -> ev_inter e = false ->
  PM all pat0 evs lg pat -> PM all pat0 (evs ++ [e]) lg (snd (next_act pat all)).
Proof.
  intros Ha He H spec' obs' Hp. rewrite <- !app_assoc. cbn [app]. apply H.
  cbn [pat_match]. rewrite He, Ha, Hp. apply orb_true_r.
Qed.

(* ------------------------------------------------------------------ the loop *)
Lemma drive_pat_spec c bufs all pat0 : wf_cfg c -> forall fuel fs pat k evs lg r,
  Bnd c None lg fs r -> sr_out (spec_run c k None evs fs) = OClean ->
  (length (wire fs) + 2 <= fuel)%nat -> PM all pat0 evs lg pat ->
  dr_err (drive_pat fuel bufs pat all r) = RIo EEOF /\
  pat_match pat0 all (sr_events (spec_run c k None evs fs)) (dr_events (drive_pat fuel bufs pat all r)) = true.
Proof.
  intros Hc. induction fuel as [|fuel IH]; intros fs pat k evs lg r HB Hclean Hfuel HPM; [lia|].
  cbn [drive_pat]. destruct fs as [|f rest].
  - destruct (next_frame_eof c None lg r HB) as (h & r' & Hnf & Hlg). rewrite Hnf. cbn [is_some dr_err dr_events].
    rewrite spec_run_nil, Hlg. cbn [sr_events]. split; [reflexivity|].
    specialize (HPM [] [] eq_refl). rewrite !app_nil_r in HPM. exact HPM.
  - pose proof (b_src _ _ _ _ _ HB) as (_ & _ & Hfl).
    destruct (next_frame_spec c None lg f rest r Hc HB) as (h & e & r1 & Hnf & H). rewrite Hnf.
    destruct e as [err|].
    { exfalso. destruct H as (_ & Hsp). destruct (Hsp k evs) as (out & Heq & _ & _ & Hnc).
      rewrite Heq in Hclean. apply Hnc, Hclean. }
    destruct H as (Hlen & [(m0 & Hm0 & _)|(Hop & HM & Hsp)]); [discriminate|].
    rewrite Hfl in Hlen. cbn [msg_of] in *. rewrite Hsp in Hclean |- *.
    set (m := (sf_op f, @nil byte, c_ext c && rsv1 f)) in *.
    pose proof (m_frame _ _ _ _ _ _ _ _ HM) as Hfr1.
    pose proof (m_src _ _ _ _ _ _ _ _ HM) as (Hw1 & _ & _).
    assert (Hflen: (length (flat (r_src r1)) + 3 <= fuel)%nat) by (clear -Hlen Hfuel; lia).
    destruct (next_act pat all) as [a pat'] eqn:Ena.
    assert (Hfst: fst (next_act pat all) = a) by (rewrite Ena; reflexivity).
    assert (Hsnd: snd (next_act pat all) = pat') by (rewrite Ena; reflexivity).
    destruct a.
    + (* the caller reads the message *)
      assert (Hmu: (mu r1 < S fuel)%nat) by (unfold mu; rewrite Hfr1; clear -Hflen; lia).
      destruct (read_to_eof_specS c Hc (S fuel) (MMid m f [] (sf_payload f)) lg rest r1
                  bufs bufs [] HM eq_refl Hmu) as (p & e2 & r2 & Hrte & Hres).
      rewrite Hrte. cbn [mspec mmsg] in Hres.
      destruct Hres as [(-> & mid & rest' & HB' & Hcp & Hle & Hmid & Hsp2)|(Hne & Hsp2)];
        [|exfalso; apply (Hsp2 k evs); exact Hclean].
      destruct (Hsp2 k evs) as (k' & Heq). rewrite Heq in Hclean |- *.
      pose proof (b_src _ _ _ _ _ HB') as (_ & _ & Hfl').
      apply IH with (lg := (lg ++ mid) ++ [mkEv (h_op h) p false (r_compressed r2)]).
      * rewrite <- (b_log _ _ _ _ _ HB'). exact (Bnd_set_log c (lg ++ mid) _ rest' r2 HB').
      * exact Hclean.
      * rewrite <- Hfl'. clear -Hle Hflen. lia.
      * rewrite app_assoc, <- Hsnd. apply PM_read; [exact Hfst|reflexivity| |apply PM_inter; assumption].
        rewrite Hop. unfold m. cbn [m_op m_comp fst snd]. apply ev_matches_same.
        destruct Hcp as [Hcp|Hcp]; [left; symmetry; exact Hcp|right; split; [exact Hcp|reflexivity]].
    + (* the caller discards it at once *)
      pose proof (discard_spec c Hc (S (length (flat (r_src r1)))) (MMid m f [] (sf_payload f)) lg rest r1
                    (r_frame r1) (r_u8state r1) k evs HM ltac:(intros; discriminate) ltac:(clear; lia) Hclean) as D.
      rewrite with_fix_id in D. destruct D as (k' & mid & ev & rest' & r2 & Hd & HB' & Hmid & Hev & Heq & Hle).
      rewrite Hd. cbn [mspec] in Heq. rewrite Heq in Hclean |- *.
      pose proof (b_src _ _ _ _ _ HB') as (_ & _ & Hfl').
      apply IH with (lg := lg ++ mid).
      * exact HB'.
      * exact Hclean.
      * rewrite <- Hfl'. clear -Hle Hflen. lia.
      * rewrite app_assoc, <- Hsnd. apply PM_discard; [exact Hfst|exact Hev|apply PM_inter; assumption].
    + (* the caller reads one buffer, then discards the rest *)
      pose proof (next_buf_pos bufs bufs) as Hkk.
      destruct (next_buf bufs bufs) as [kk bufs']. cbn [fst] in Hkk.
      destruct (read_stepS c (MMid m f [] (sf_payload f)) lg rest r1 kk Hc HM Hkk)
        as [(d & r' & st' & mid & rest1 & Hr & Hinv' & _ & _ & _ & Hmu' & Hmid & Hsp1)
           |[(d & r' & rest1 & Hr & HB' & Hcp & Hle & Hsp1)|(d & err & r' & Hr & Hne & Hsp1)]]; rewrite Hr.
      * destruct (Hsp1 k evs) as (k1 & Heq1). cbn [mspec] in Heq1. rewrite Heq1 in Hclean |- *.
        assert (Hraw: forall m0, st' = MBet m0 -> r_rawN r' = 0).
        { intros m0 ->. cbn [minv] in Hinv'. pose proof (b_msg _ _ _ _ _ Hinv') as (Hfr' & _).
          rewrite reader_read_eq, Hfr1 in Hr. exact (rgo_rawN kk r1 d r' Hw1 Hkk Hfr1 Hr Hfr'). }
        pose proof (discard_spec c Hc (S (length (flat (r_src r')))) st' (lg ++ mid) rest1 r'
                      (r_frame r') (r_u8state r') k1 (evs ++ mid) Hinv' Hraw ltac:(clear; lia) Hclean) as D.
        rewrite with_fix_id in D. destruct D as (k' & mid2 & ev & rest' & r2 & Hd & HB' & Hmid2 & Hev & Heq & Hle).
        rewrite Hd. rewrite Heq in Hclean |- *.
        pose proof (b_src _ _ _ _ _ HB') as (_ & _ & Hfl').
        pose proof (mu_le _ _ Hmu') as Hle'.
        apply IH with (lg := (lg ++ mid) ++ mid2).
        -- exact HB'.
        -- exact Hclean.
        -- rewrite <- Hfl'. clear -Hle Hle' Hflen. lia.
        -- rewrite (app_assoc (evs ++ mid)), <- Hsnd.
           apply PM_partial_skip; [exact Hfst|exact Hev|]. apply PM_inter; [assumption|]. apply PM_inter; assumption.
      * destruct (Hsp1 k evs) as (k' & Heq). cbn [mspec mmsg mdeliv] in Heq. rewrite Heq in Hclean |- *.
        pose proof (b_src _ _ _ _ _ HB') as (_ & _ & Hfl').
        apply IH with (lg := lg ++ [mkEv (h_op h) d false (r_compressed r')]).
        -- rewrite <- (b_log _ _ _ _ _ HB'). exact (Bnd_set_log c lg _ rest1 r' HB').
        -- exact Hclean.
        -- rewrite <- Hfl'. clear -Hle Hflen. lia.
        -- rewrite <- Hsnd. apply PM_partial_fin; [exact Hfst|reflexivity| |exact HPM].
           rewrite Hop. unfold m. cbn [m_op m_acc m_comp fst snd app]. apply ev_matches_same.
           destruct Hcp as [Hcp|Hcp]; [left; symmetry; exact Hcp|right; split; [exact Hcp|reflexivity]].
      * exfalso. apply (Hsp1 k evs). exact Hclean.
Qed.

(* C04 for callers that skip messages: on a valid complete stream the loop ends
   with a clean io.EOF whatever the caller does with each message, every
   intermediate control frame is handed to the callback, and the messages
   delivered are exactly the ones the caller read, with exactly their bytes:
   nothing of a discarded or half-read message leaks into a later one *)
Theorem discard_patterns : forall c fs s bufs pat fuel,
  wf_cfg c -> Forall wf_sframe fs -> sr_out (spec_run c 0 None [] fs) = OClean ->
  wf_src s -> tl s = TEOF -> flat s = wire fs -> (length (wire fs) + 2 <= fuel)%nat ->
  let d := drive_pat fuel bufs pat pat
             (new_reader s (c_state c) false (c_check_utf8 c) (c_max c) (c_ext c) CbReadAll) in
  pat_monitor c pat fs (dr_events d) (dr_err d) = true.
Proof.
  intros c fs s bufs pat fuel Hc Hfs Hclean Hw Ht Hfl Hfuel. cbv zeta.
  destruct (drive_pat_spec c bufs pat pat Hc fuel fs pat 0%nat [] [] _
              (new_reader_bnd c fs s Hc Hfs Hw Ht Hfl) Hclean Hfuel ltac:(intros spec' obs' H; exact H)) as [H1 H2].
  unfold pat_monitor. rewrite H1, H2. reflexivity.
Qed.
