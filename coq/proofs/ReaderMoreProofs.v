(* ReaderMoreProofs.v — the stream-level Reader theorems for the other entry
   points: repeated helper.go:ReadMessage (C04), streams cut at an arbitrary byte
   with an EOF or a failing tail (C16, read side), and the NextFrame loop whose
   caller reads, discards or half-reads each message (C04). Built on the
   invariants and per-step lemmas of ReaderInv.v / ReaderProofs.v. *)
Require Import Bytes Stream Utf8Spec Check Frame Cipher Utf8Dfa Extracted ExtractedOk Reader
  BytesProofs StreamProofs CheckProofs FrameProofs CipherProofs Utf8Proofs ReaderLocalProofs
  ReaderAux ReaderInv ReaderProofs.
From Coq Require Import ZifyBool ZifyN ZifyNat.
Open Scope N_scope.

(* ------------------------------------------------------------------ the spec's event accumulator *)
(* events already emitted are never looked at again *)
Definition pre_evs (a : list event) (sr : spec_result) : spec_result :=
  mkSR (a ++ sr_events sr) (sr_partial sr) (sr_out sr).

Lemma spec_run_evs_app c a : forall fs k openm evs,
  spec_run c k openm (a ++ evs) fs = pre_evs a (spec_run c k openm evs fs).
Proof.
  induction fs as [|f rest IH]; intros k openm evs.
  - rewrite !spec_run_nil. reflexivity.
  - rewrite !spec_run_cons.
    destruct (negb (frame_ok c (is_some openm) f)); [reflexivity|].
    destruct ((0 <? c_max c)%Z && (c_max c <? Z.of_N (len (sf_payload f)))%Z); [reflexivity|].
    destruct (c_ext c && rsv1 f && negb (first_data f)); [reflexivity|].
    destruct (spec_control (sf_op f)).
    + rewrite <- app_assoc. apply IH.
    + unfold spec_data. destruct (msg_of c openm f) as [[o p] cm].
      destruct (wrap_of c o && negb (if sf_fin f then valid_utf8 (p ++ sf_payload f) else utf8_viable (p ++ sf_payload f)));
        [reflexivity|].
      destruct (sf_fin f); [rewrite <- app_assoc|]; apply IH.
Qed.

Lemma spec_run_evs_pre c fs k openm evs :
  spec_run c k openm evs fs = pre_evs evs (spec_run c k openm [] fs).
Proof. rewrite <- (app_nil_r evs) at 1. apply spec_run_evs_app. Qed.

Lemma evs_match_app2 a : forall b x y, evs_match a b = true -> evs_match x y = true ->
  evs_match (a ++ x) (b ++ y) = true.
Proof.
  induction a as [|u a IH]; intros [|v b] x y H1 H2; cbn [evs_match app] in *; try discriminate.
  - exact H2.
  - apply andb_true_iff in H1. destruct H1 as [H1 H3]. rewrite H1. cbn [andb]. apply IH; assumption.
Qed.

(* a fresh Reader at a frame boundary outside a message *)
Lemma new_reader_bnd c fs s : wf_cfg c -> Forall wf_sframe fs -> wf_src s -> tl s = TEOF -> flat s = wire fs ->
  Bnd c None [] fs (new_reader s (c_state c) false (c_check_utf8 c) (c_max c) (c_ext c) CbReadAll).
Proof.
  intros Hc Hfs Hw Ht Hfl. unfold new_reader. constructor; rsimpl; cbn [is_some].
  - unfold cfg_ok; rsimpl. repeat split; reflexivity.
  - unfold src_ok; rsimpl. repeat split; assumption.
  - exact Hfs.
  - reflexivity.
  - symmetry. apply set_frag_init, Hc.
  - reflexivity.
  - reflexivity.
Qed.

(* ================================================================== 1. helper.go:ReadMessage, repeated *)
(* every call builds a fresh Reader (CheckUTF8, no limit, no extension, the
   read-all OnIntermediate) on what the previous call left in the source *)
Definition rm_cfg (state : N) : rcfg := mkCfg state true 0 false.

Lemma read_messages_spec state bufs : wf_cfg (rm_cfg state) -> forall fuel fs k evs acc s,
  Forall wf_sframe fs -> wf_src s -> tl s = TEOF -> flat s = wire fs ->
  evs_match evs acc = true -> (length (wire fs) + 2 <= fuel)%nat ->
  let sr := spec_run (rm_cfg state) k None evs fs in
  evs_match (sr_events sr) (fst (read_messages fuel bufs s state acc)) = true /\
  err_matches (sr_out sr) (snd (read_messages fuel bufs s state acc)) = true.
Proof.
  intros Hc. set (c := rm_cfg state) in *.
  induction fuel as [|fuel IH]; intros fs k evs acc s Hfs Hw Ht Hfl Hev Hfuel; [lia|].
  cbv zeta. cbn [read_messages]. unfold read_message.
  pose proof (new_reader_bnd c fs s Hc Hfs Hw Ht Hfl) as HB.
  change (new_reader s (c_state c) false (c_check_utf8 c) (c_max c) (c_ext c) CbReadAll)
    with (new_reader s state false true 0 false CbReadAll) in HB.
  set (r := new_reader s state false true 0 false CbReadAll) in *.
  destruct fs as [|f rest].
  - destruct (next_frame_eof c None [] r HB) as (h & r' & Hnf & Hlg). rewrite Hnf. cbn [is_some fst snd].
    rewrite Hlg, app_nil_r, spec_run_nil. cbn [sr_events sr_out is_some err_matches]. split; [exact Hev|reflexivity].
  - destruct (next_frame_spec c None [] f rest r Hc HB) as (h & e & r1 & Hnf & H). rewrite Hnf.
    destruct e as [err|].
    + destruct H as (Hlg & Hsp). cbn [fst snd]. rewrite Hlg, app_nil_r.
      destruct (Hsp k evs) as (out & -> & Hem & _). cbn [sr_events sr_out]. split; [exact Hev|exact Hem].
    + destruct H as (Hlen & [(m0 & Hm0 & _)|(Hop & HM & Hsp)]); [discriminate|].
      assert (Hfl0: flat (r_src r) = wire (f :: rest)) by exact Hfl.
      rewrite Hfl0 in Hlen.
      assert (Hmu: (mu r1 < S fuel)%nat).
      { unfold mu. rewrite (m_frame _ _ _ _ _ _ _ _ HM). clear -Hlen Hfuel. lia. }
      destruct (read_to_eof_spec c Hc (S fuel) (MMid (msg_of c None f) f [] (sf_payload f)) [] rest r1
                  bufs bufs [] HM eq_refl Hmu) as (p & e2 & r2 & Hrte & Hres).
      rewrite Hrte. cbn [mspec mmsg msg_of m_op m_comp fst snd] in Hres. cbn [msg_of] in Hsp.
      rewrite (spec_run_evs_pre c (f :: rest) k None evs), Hsp.
      destruct Hres as [(-> & lg' & rest' & HB' & Hcp & Hle & Hsp2)|(Hne & Hsp2)].
      * destruct (Hsp2 k [] eq_refl) as (k' & evs' & Hev' & Heq). rewrite Heq.
        rewrite <- spec_run_evs_app.
        pose proof (b_src _ _ _ _ _ HB') as (Hw' & Ht' & Hfl').
        cbn [fst snd].
        apply IH.
        -- exact (b_wf _ _ _ _ _ HB').
        -- exact Hw'.
        -- exact Ht'.
        -- exact Hfl'.
        -- apply evs_match_app2; [exact Hev|]. rewrite (b_log _ _ _ _ _ HB').
           apply evs_match_app; [exact Hev'|]. rewrite Hop. apply ev_matches_same. left; reflexivity.
        -- rewrite <- Hfl'. clear -Hle Hlen Hfuel. lia.
      * specialize (Hsp2 k [] eq_refl). destruct Hsp2 as (Hm1 & Hm2 & _).
        set (sr := spec_data c k (sf_op f, [], c_ext c && rsv1 f) [] f rest) in *.
        assert (Hgoal: evs_match (sr_events (pre_evs evs sr)) (acc ++ r_log r2) = true /\
                       err_matches (sr_out (pre_evs evs sr)) e2 = true).
        { cbn [pre_evs sr_events sr_out]. split; [apply evs_match_app2; assumption|exact Hm2]. }
        destruct e2 as [[| |]| | | | | | | |]; cbn [fst snd]; try exact Hgoal. exfalso; apply Hne; reflexivity.
Qed.

Theorem read_message_meets_spec : forall fs state s bufs fuel,
  wf_cfg (mkCfg state true 0 false) -> Forall wf_sframe fs -> wf_src s -> tl s = TEOF -> flat s = wire fs ->
  (length (wire fs) + 2 <= fuel)%nat ->
  let '(evs, e) := read_messages fuel bufs s state [] in
  reader_monitor (mkCfg state true 0 false) true fs evs None e = true.
Proof.
  intros fs state s bufs fuel Hc Hfs Hw Ht Hfl Hfuel.
  pose proof (read_messages_spec state bufs Hc fuel fs 0%nat [] [] s Hfs Hw Ht Hfl eq_refl Hfuel) as H.
  cbv zeta in H. destruct (read_messages fuel bufs s state []) as [evs e]. cbn [fst snd] in H.
  destruct H as [H1 H2]. unfold reader_monitor, expected_events. fold (rm_cfg state).
  rewrite H1, H2. cbn [andb]. destruct (sr_out _); reflexivity.
Qed.
