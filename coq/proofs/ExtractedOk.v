(* Tie A obligations: the constants read from /repo on this run have the values
   the hand-written models assume.  A changed constant breaks a named lemma. *)
From Coq Require Import NArith ZArith List.
Require Import Extracted.
Import ListNotations.
Open Scope N_scope.

Lemma ok_opcodes : (op_continuation, op_text, op_binary, op_close, op_ping, op_pong) = (0, 1, 2, 8, 9, 10).
Proof. reflexivity. Qed.
Lemma ok_state_bits : (state_server_side, state_client_side, state_extended, state_fragmented) = (1, 2, 4, 8).
Proof. reflexivity. Qed.
Lemma ok_control_limit : max_control_frame_payload_size = 125.
Proof. reflexivity. Qed.
Lemma ok_status_ranges : status_ranges = [0; 999; 1000; 2999; 3000; 3999; 4000; 4999].
Proof. reflexivity. Qed.
Lemma ok_status_codes : (status_protocol_error, status_no_status_rcvd) = (1002, 1005).
Proof. reflexivity. Qed.
Lemma ok_len_thresholds :
  (ws_len7, ws_len16, ws_len64, wsutil_len7, wsutil_len16, wsutil_len64)
  = (125, 65535, 9223372036854775807, 125, 65535, 9223372036854775807)%Z.
Proof. reflexivity. Qed.
Lemma ok_header_sizes : (max_header_size, min_header_size) = (14, 2).
Proof. reflexivity. Qed.
Lemma ok_remain : remain = [0; 3; 2; 1].
Proof. reflexivity. Qed.
Lemma ok_utf8_states : (utf8_accept, utf8_reject) = (0, 12).
Proof. reflexivity. Qed.
Lemma ok_compression_tails :
  compression_tail = [0; 0; 255; 255] /\ compression_read_tail = [0; 0; 255; 255; 1; 0; 0; 255; 255].
Proof. split; reflexivity. Qed.
Lemma ok_nonce_sizes : (nonce_key_size, nonce_size, accept_size) = (16, 24, 28).
Proof. reflexivity. Qed.
Lemma ok_utf8_reject : utf8_reject = 12. Proof. reflexivity. Qed.
Lemma ok_utf8_accept : utf8_accept = 0. Proof. reflexivity. Qed.
