Require Import Bytes.
From Coq Require Import ZifyBool ZifyN ZifyNat.
Open Scope N_scope.
Ltac Zify.zify_post_hook ::= Z.div_mod_to_equations.

Definition all_bytes : list N := map N.of_nat (seq 0 256).
Lemma in_all_bytes b : b < 256 -> In b all_bytes.
Proof. intros H. unfold all_bytes. apply in_map_iff. exists (N.to_nat b). split; [lia|]. apply in_seq. lia. Qed.

(* finite sweep over bytes, lifted *)
Lemma byte_forall (f : N -> bool) : forallb f all_bytes = true -> forall b, b < 256 -> f b = true.
Proof. intros H b Hb. rewrite forallb_forall in H. apply H, in_all_bytes, Hb. Qed.

Definition all_lt (n : nat) : list N := map N.of_nat (seq 0 n).
Lemma lt_forall (n : nat) (f : N -> bool) : forallb f (all_lt n) = true -> forall b, b < N.of_nat n -> f b = true.
Proof.
  intros H b Hb. rewrite forallb_forall in H. apply H. unfold all_lt. apply in_map_iff.
  exists (N.to_nat b). split; [lia|]. apply in_seq. lia.
Qed.

Lemma len_be_bytes w v : length (be_bytes w v) = w.
Proof. induction w as [|w IH]; cbn [be_bytes length]; [reflexivity| f_equal; exact IH]. Qed.

Lemma wf_be_bytes w v : wf_bytes (be_bytes w v).
Proof.
  induction w as [|w IH]; cbn [be_bytes]; constructor; [|exact IH].
  unfold wf_byte. apply N.mod_lt. lia.
Qed.

Lemma be_val_be_bytes w v : be_val (be_bytes w v) = v mod 256 ^ N.of_nat w.
Proof.
  induction w as [|w IH]; cbn [be_bytes be_val].
  - change (256 ^ N.of_nat 0) with 1. rewrite N.mod_1_r. reflexivity.
  - unfold len. rewrite len_be_bytes, IH.
    replace (N.of_nat (S w)) with (N.of_nat w + 1) by lia.
    rewrite N.pow_add_r. change (256 ^ 1) with 256.
    assert (P: 256 ^ N.of_nat w <> 0) by (apply N.pow_nonzero; lia).
    rewrite (N.mod_mul_r v (256 ^ N.of_nat w) 256) by lia. lia.
Qed.

Lemma be_val_be_bytes_small w v : v < 256 ^ N.of_nat w -> be_val (be_bytes w v) = v.
Proof. intros H. rewrite be_val_be_bytes. apply N.mod_small, H. Qed.

Lemma be_val_app a b : be_val (a ++ b) = be_val a * 256 ^ len b + be_val b.
Proof.
  induction a as [|x a IH]; cbn [app be_val]; [lia|].
  rewrite IH. unfold len. rewrite app_length.
  replace (N.of_nat (length a + length b)) with (N.of_nat (length a) + N.of_nat (length b)) by lia.
  rewrite N.pow_add_r. lia.
Qed.

Lemma be_val_bound l : wf_bytes l -> be_val l < 256 ^ len l.
Proof.
  induction 1 as [|b l Hb Hl IH]; cbn [be_val]; [unfold len; simpl; lia|].
  unfold len in *. cbn [length]. replace (N.of_nat (S (length l))) with (N.of_nat (length l) + 1) by lia.
  rewrite N.pow_add_r. change (256^1) with 256. unfold wf_byte in Hb. nia.
Qed.

Lemma wf_bytesb_ok l : wf_bytesb l = true <-> wf_bytes l.
Proof.
  unfold wf_bytesb, wf_bytes. rewrite forallb_forall, Forall_forall. unfold wf_byteb, wf_byte.
  split; intros H x Hx; specialize (H x Hx); lia.
Qed.

Lemma bytes_eqb_eq a b : bytes_eqb a b = true <-> a = b.
Proof.
  revert b; induction a as [|x a IH]; intros [|y b]; cbn [bytes_eqb]; try (split; [discriminate|discriminate]); try tauto.
  rewrite andb_true_iff, IH. split; [intros [H1 H2]; f_equal; [lia|assumption]| intros H; inversion H; subst; split; [lia|reflexivity]].
Qed.

Lemma wf_bytes_app a b : wf_bytes (a ++ b) <-> wf_bytes a /\ wf_bytes b.
Proof. unfold wf_bytes. apply Forall_app. Qed.
Lemma wf_bytes_take n l : wf_bytes l -> wf_bytes (take n l).
Proof. intros H. rewrite <- (firstn_skipn (N.to_nat n) l) in H. apply wf_bytes_app in H. apply H. Qed.
Lemma wf_bytes_drop n l : wf_bytes l -> wf_bytes (drop n l).
Proof. intros H. rewrite <- (firstn_skipn (N.to_nat n) l) in H. apply wf_bytes_app in H. apply H. Qed.

Lemma In_firstn {A} (x : A) n l : In x (firstn n l) -> In x l.
Proof. revert l; induction n as [|n IH]; intros [|y l]; simpl; try tauto. intros [H|H]; auto. Qed.

Lemma skipn_skipn_add {A} a b (l : list A) : skipn a (skipn b l) = skipn (b + a) l.
Proof.
  revert l. induction b as [|b IH]; intros l; [reflexivity|].
  destruct l as [|x l]; [rewrite !skipn_nil; reflexivity|]. cbn [skipn plus]. apply IH.
Qed.
