(* HsUpgraderProofs.v — proofs for C09 (and the flat-stream lemma reused by C11). *)
Require Import Bytes HsBase64 HsSha1 HsBufio HsBufioProofs HsHttpHead HsHttp HsUpgrader.
From Coq Require Import ZifyBool ZifyN ZifyNat Btauto.
From Coq Require String.
Import String.StringSyntax.
Local Open Scope string_scope.
Local Open Scope list_scope.
Open Scope N_scope.

(* ================= 1. the upgrader over any chunking = the upgrader over the flat stream *)
Theorem upgrader_flat : forall stext cfg B r, 1 <= B ->
  upgrader stext cfg B r
  = upgrader_lines stext cfg (fst (raw_lines (flat r))) (snd (raw_lines (flat r))) (r_tail r).
Proof.
  intros stext cfg B r HB. unfold upgrader.
  destruct (raw_lines (flat r)) as [ls rem] eqn:Hr. cbn [fst snd].
  destruct ls as [|l ls].
  - apply raw_lines_nil_inv in Hr. destruct Hr as [Hn _].
    pose proof (read_line_flat_err B r HB Hn) as E.
    destruct (read_line B r) as [res r']. cbn [fst] in E. subst res. reflexivity.
  - apply raw_lines_cons_inv in Hr. destruct Hr as [y [Hs Hy]].
    destruct (read_line_flat_ok B r l y HB Hs) as [r1 [E1 [E2 E3]]].
    rewrite E1. cbn [upgrader_lines].
    destruct (http_parse_request_line ascii_to_int (cut_eol l)) as [rl|]; [|reflexivity].
    destruct (request_line_check cfg rl); [reflexivity|].
    assert (Hy' : raw_lines (flat r1) = (ls, rem)) by (rewrite E2; exact Hy).
    assert (Hc : (length ls < S (length (flat r1)))%nat).
    { pose proof (raw_lines_count (length (flat r1)) (flat r1) ls rem (le_n _) Hy'). lia. }
    destruct (run_stream_flat ust lres (line_step cfg) on_blank on_ioerr (on_fuel init_ust)
                ls (S (length (flat r1))) B init_ust r1 rem HB Hc Hy') as [r' [G _]].
    rewrite G. cbn [fst]. rewrite E3. reflexivity.
Qed.

(* ================= 2. the header loop as a fold over parsed header lines *)
Fixpoint fold_hdrs (cfg : ucfg) (s : ust) (hs : list (list byte * list byte)) : ust + rej :=
  match hs with
  | [] => inl s
  | (k, v) :: r => match hdr_step cfg s k v with
                   | inl s' => fold_hdrs cfg s' r
                   | inr e => inr e
                   end
  end.

Lemma run_lines_ok : forall cfg ls s rem t s',
  fst (run_lines ust lres (line_step cfg) on_blank on_ioerr s ls rem t) = (s', None) <->
  exists hs rest, take_headers ls = Some (hs, rest) /\ fold_hdrs cfg s hs = inl s'.
Proof.
  intros cfg. induction ls as [|l ls IH]; intros s rem t s'; cbn [run_lines take_headers].
  - cbn. split; [discriminate|]. intros [hs [rest [H _]]]. discriminate.
  - destruct (cut_eol l) as [|c line] eqn:Hc.
    + cbn [fst on_blank]. split.
      * intros H. inversion H; subst. exists [], ls. split; reflexivity.
      * intros [hs [rest [H1 H2]]]. inversion H1; subst. cbn in H2. inversion H2. reflexivity.
    + unfold line_step at 1.
      destruct (http_parse_header_line (c :: line)) as [[k v]|] eqn:Hp.
      * destruct (hdr_step cfg s k v) as [s1|e] eqn:Hst.
        -- rewrite IH. split.
           ++ intros [hs [rest [H1 H2]]]. rewrite H1. exists ((k, v) :: hs), rest.
              split; [reflexivity|]. cbn [fold_hdrs]. rewrite Hst. exact H2.
           ++ intros [hs [rest [H1 H2]]].
              destruct (take_headers ls) as [[hs' rest']|]; [|discriminate].
              inversion H1; subst. cbn [fold_hdrs] in H2. rewrite Hst in H2.
              exists hs', rest. split; [reflexivity|exact H2].
        -- cbn [fst]. split; [discriminate|].
           intros [hs [rest [H1 H2]]].
           destruct (take_headers ls) as [[hs' rest']|]; [|discriminate].
           inversion H1; subst. cbn [fold_hdrs] in H2. rewrite Hst in H2. discriminate.
      * cbn [fst]. split; [discriminate|]. intros [hs [rest [H1 _]]]. discriminate.
Qed.

(* when the loop fails, the error is an I/O error or a rejection, never fuel/request-line *)
Lemma run_lines_err : forall cfg ls s rem t s' e,
  fst (run_lines ust lres (line_step cfg) on_blank on_ioerr s ls rem t) = (s', Some e) ->
  (e = EIO t) \/ (exists r, e = ERej r).
Proof.
  intros cfg. induction ls as [|l ls IH]; intros s rem t s' e; cbn [run_lines].
  - cbn. intros H. inversion H. left. reflexivity.
  - destruct (cut_eol l) as [|c line].
    + cbn. discriminate.
    + unfold line_step at 1.
      destruct (http_parse_header_line (c :: line)) as [[k v]|].
      * destruct (hdr_step cfg s k v) as [s1|r].
        -- apply IH.
        -- cbn. intros H. inversion H. right. eexists. reflexivity.
      * cbn. intros H. inversion H. right. eexists. reflexivity.
Qed.

(* ================= 3. what a successful fold means, component by component *)
Definition bit_of (k : hkind) : N :=
  match k with
  | KHost => 1 | KUpgrade => 2 | KConnection => 4 | KSecVersion => 8 | KSecKey => 16 | _ => 0
  end.
Definition seen_of (hs : list (list byte * list byte)) (s0 : N) : N :=
  fold_left (fun acc kv => N.lor acc (bit_of (classify (fst kv)))) hs s0.
Fixpoint nonce_of (hs : list (list byte * list byte)) (n0 : list byte) : list byte :=
  match hs with
  | [] => n0
  | (k, v) :: r => nonce_of r (match classify k with KSecKey => v | _ => n0 end)
  end.

(* per-line conditions that do not depend on the state *)
Definition static_ok (cfg : ucfg) (kv : list byte * list byte) : bool :=
  let (k, v) := kv in
  match classify k with
  | KHost => match uc_on_host cfg v with Some _ => false | None => true end
  | KUpgrade => equal_fold_word v word_websocket
  | KConnection => connection_ok v
  | KSecVersion => bytes_eqb v (bs "13")
  | KSecKey => len v =? 24
  | KSecProtocol | KSecExtensions => true
  | KSecAccept | KOther => match uc_on_header cfg k v with Some _ => false | None => true end
  end.

(* the subprotocol component, line by line *)
Fixpoint proto_run (cfg : ucfg) (p0 : list byte) (hs : list (list byte * list byte)) : option (list byte) :=
  match hs with
  | [] => Some p0
  | (k, v) :: r =>
      match classify k with
      | KSecProtocol =>
          match p0, uc_protocol cfg with
          | [], Some check => let (p, ok) := select_protocol v check in
                              if ok then proto_run cfg p r else None
          | _, _ => proto_run cfg p0 r
          end
      | _ => proto_run cfg p0 r
      end
  end.
(* the extensions component *)
Fixpoint exts_run (cfg : ucfg) (e0 : list hopt) (hs : list (list byte * list byte)) : list hopt + rej :=
  match hs with
  | [] => inl e0
  | (k, v) :: r =>
      match classify k with
      | KSecExtensions =>
          match uc_negotiate cfg with
          | Some f => let (es, e) := negotiate_extensions f v e0 in
                      match e with Some x => inr x | None => exts_run cfg es r end
          | None =>
              match uc_extension cfg with
              | Some check => let (es, ok) := select_options check v e0 in
                              if ok then exts_run cfg es r else inr malformed_request
              | None => exts_run cfg e0 r
              end
          end
      | _ => exts_run cfg e0 r
      end
  end.

Lemma fold_hdrs_ok : forall cfg hs s s',
  fold_hdrs cfg s hs = inl s' <->
  (forallb (static_ok cfg) hs = true
   /\ exists p es, proto_run cfg (hs_protocol (us_hs s)) hs = Some p
      /\ exts_run cfg (hs_exts (us_hs s)) hs = inl es
      /\ s' = mkUst (seen_of hs (us_seen s)) (nonce_of hs (us_nonce s)) (mkHs p es)).
Proof.
  intros cfg. induction hs as [|[k v] hs IH]; intros s s'.
  - cbn. split.
    + intros H. inversion H; subst. split; [reflexivity|].
      exists (hs_protocol (us_hs s')), (hs_exts (us_hs s')). repeat split.
      destruct s' as [a b [c d]]. reflexivity.
    + intros [_ [p [es [H1 [H2 H3]]]]]. inversion H1; inversion H2; subst.
      destruct s as [a b [c d]]. reflexivity.
  - cbn [fold_hdrs forallb proto_run exts_run nonce_of]. unfold seen_of. cbn [fold_left fst].
    fold (seen_of hs (N.lor (us_seen s) (bit_of (classify k)))).
    unfold hdr_step, static_ok.
    destruct (classify k) eqn:Hk; cbn [bit_of].
    + (* Host *)
      destruct (uc_on_host cfg v); cbn [opt_rej andb].
      * split; [discriminate|]. intros [H _]; discriminate.
      * rewrite IH. cbn. reflexivity.
    + destruct (equal_fold_word v word_websocket); cbn [andb].
      * rewrite IH. cbn. reflexivity.
      * split; [discriminate|]. intros [H _]; discriminate.
    + unfold connection_ok.
      destruct (bytes_eqb v (bs "Upgrade") || bts_has_token v word_upgrade); cbn [andb].
      * rewrite IH. cbn. reflexivity.
      * split; [discriminate|]. intros [H _]; discriminate.
    + destruct (bytes_eqb v (bs "13")); cbn [andb].
      * rewrite IH. cbn. reflexivity.
      * split; [discriminate|]. intros [H _]; discriminate.
    + unfold nonce_size. destruct (len v =? 24); cbn [andb].
      * rewrite IH. cbn. reflexivity.
      * split; [discriminate|]. intros [H _]; discriminate.
    + (* Sec-WebSocket-Protocol *)
      cbn [andb]. rewrite N.lor_0_r.
      destruct (hs_protocol (us_hs s)) as [|c0 p0] eqn:Hp0.
      * destruct (uc_protocol cfg) as [check|].
        -- destruct (select_protocol v check) as [p ok]. destruct ok.
           ++ rewrite IH. cbn. reflexivity.
           ++ split; [discriminate|]. intros [_ [p' [es [H _]]]]. discriminate.
        -- rewrite IH. rewrite Hp0. reflexivity.
      * rewrite IH. rewrite Hp0. reflexivity.
    + (* Sec-WebSocket-Extensions *)
      cbn [andb]. rewrite N.lor_0_r.
      destruct (uc_negotiate cfg) as [f|].
      * destruct (negotiate_extensions f v (hs_exts (us_hs s))) as [es e]. destruct e.
        -- split; [discriminate|]. intros [_ [p' [es' [_ [H _]]]]]. discriminate.
        -- rewrite IH. cbn. reflexivity.
      * destruct (uc_extension cfg) as [check|].
        -- destruct (select_options check v (hs_exts (us_hs s))) as [es ok]. destruct ok.
           ++ rewrite IH. cbn. reflexivity.
           ++ split; [discriminate|]. intros [_ [p' [es' [_ [H _]]]]]. discriminate.
        -- rewrite IH. reflexivity.
    + destruct (uc_on_header cfg k v); cbn [opt_rej andb].
      * split; [discriminate|]. intros [H _]; discriminate.
      * rewrite N.lor_0_r. rewrite IH. reflexivity.
    + destruct (uc_on_header cfg k v); cbn [opt_rej andb].
      * split; [discriminate|]. intros [H _]; discriminate.
      * rewrite N.lor_0_r. rewrite IH. reflexivity.
Qed.

(* ================= 4. headerSeen = headerSeenAll <-> each mandatory header occurs *)
Definition has_kind (K : hkind) (hs : list (list byte * list byte)) : bool :=
  existsb (fun kv => is_kind K (classify (fst kv))) hs.
Definition bits_of (hs : list (list byte * list byte)) : N :=
  N.lor (if has_kind KHost hs then 1 else 0)
    (N.lor (if has_kind KUpgrade hs then 2 else 0)
      (N.lor (if has_kind KConnection hs then 4 else 0)
        (N.lor (if has_kind KSecVersion hs then 8 else 0) (if has_kind KSecKey hs then 16 else 0)))).

Lemma bits_of_cons : forall kv hs, bits_of (kv :: hs) = N.lor (bit_of (classify (fst kv))) (bits_of hs).
Proof.
  intros kv hs. unfold bits_of, has_kind. cbn [existsb].
  set (a := existsb (fun kv0 => is_kind KHost (classify (fst kv0))) hs).
  set (b := existsb (fun kv0 => is_kind KUpgrade (classify (fst kv0))) hs).
  set (c := existsb (fun kv0 => is_kind KConnection (classify (fst kv0))) hs).
  set (d := existsb (fun kv0 => is_kind KSecVersion (classify (fst kv0))) hs).
  set (e := existsb (fun kv0 => is_kind KSecKey (classify (fst kv0))) hs).
  destruct (classify (fst kv)); cbn [is_kind orb bit_of]; destruct a, b, c, d, e; reflexivity.
Qed.

Lemma seen_of_bits : forall hs s0, seen_of hs s0 = N.lor s0 (bits_of hs).
Proof.
  induction hs as [|kv hs IH]; intros s0.
  - cbn. rewrite N.lor_0_r. reflexivity.
  - unfold seen_of. cbn [fold_left]. fold (seen_of hs (N.lor s0 (bit_of (classify (fst kv))))).
    rewrite IH, bits_of_cons, N.lor_assoc. reflexivity.
Qed.

Lemma seen_all_iff : forall hs,
  (seen_of hs 0 =? seen_all) =
  has_kind KHost hs && has_kind KUpgrade hs && has_kind KConnection hs
  && has_kind KSecVersion hs && has_kind KSecKey hs.
Proof.
  intros hs. rewrite seen_of_bits. unfold bits_of.
  destruct (has_kind KHost hs), (has_kind KUpgrade hs), (has_kind KConnection hs),
           (has_kind KSecVersion hs), (has_kind KSecKey hs); reflexivity.
Qed.

(* which header is reported missing: the first absent one, in the order of the switch *)
Lemma missing_header_spec : forall hs,
  missing_header (seen_of hs 0) =
  if negb (has_kind KHost hs) then err_bad_host
  else if negb (has_kind KUpgrade hs) then err_bad_upgrade
  else if negb (has_kind KConnection hs) then err_bad_connection
  else if negb (has_kind KSecVersion hs) then err_bad_sec_version
  else err_bad_sec_key.
Proof.
  intros hs. rewrite seen_of_bits. unfold bits_of, missing_header.
  destruct (has_kind KHost hs), (has_kind KUpgrade hs), (has_kind KConnection hs),
           (has_kind KSecVersion hs), (has_kind KSecKey hs); reflexivity.
Qed.

(* ================= 5. the per-line conditions, grouped by header *)
Lemma values_nonempty : forall K hs,
  negb (match values_of (is_kind K) hs with [] => true | _ => false end) = has_kind K hs.
Proof.
  intros K. induction hs as [|kv hs IH]; [reflexivity|].
  unfold values_of, has_kind in *. cbn [filter existsb map].
  destruct (is_kind K (classify (fst kv))); [reflexivity|]. cbn [orb]. exact IH.
Qed.

Lemma all_and_some_split : forall (p : list byte -> bool) K hs,
  all_and_some p (values_of (is_kind K) hs) = has_kind K hs && forallb p (values_of (is_kind K) hs).
Proof.
  intros p K hs. rewrite <- values_nonempty. unfold all_and_some.
  destruct (values_of (is_kind K) hs); reflexivity.
Qed.

Definition header_callbacks_accept (cfg : ucfg) (hs : list (list byte * list byte)) : bool :=
  forallb (fun v => match uc_on_host cfg v with Some _ => false | None => true end)
          (values_of (is_kind KHost) hs)
  && forallb (fun kv => negb (other_kind (classify (fst kv)))
                        || match uc_on_header cfg (fst kv) (snd kv) with Some _ => false | None => true end) hs.
Definition header_values_ok (hs : list (list byte * list byte)) : bool :=
  forallb (fun v => equal_fold_word v word_websocket) (values_of (is_kind KUpgrade) hs)
  && forallb connection_ok (values_of (is_kind KConnection) hs)
  && forallb (fun v => bytes_eqb v (bs "13")) (values_of (is_kind KSecVersion) hs)
  && forallb (fun v => len v =? 24) (values_of (is_kind KSecKey) hs).

Lemma static_ok_split : forall cfg hs,
  forallb (static_ok cfg) hs = header_values_ok hs && header_callbacks_accept cfg hs.
Proof.
  intros cfg. induction hs as [|[k v] hs IH]; [reflexivity|].
  cbn [forallb]. rewrite IH. unfold header_values_ok, header_callbacks_accept, values_of, static_ok.
  cbn [filter map forallb fst snd].
  destruct (classify k) eqn:Hk; cbn [is_kind other_kind negb orb map forallb filter fst snd];
    try (destruct (uc_on_host cfg v)); try (destruct (uc_on_header cfg k v)); btauto.
Qed.

(* ================= 6. subprotocol / extensions / key components against the SPEC functions *)
Lemma proto_run_selected : forall cfg hs c p, proto_run cfg (c :: p) hs = Some (c :: p).
Proof.
  intros cfg. induction hs as [|[k v] hs IH]; intros c p; [reflexivity|].
  cbn [proto_run]. destruct (classify k); apply IH.
Qed.

Lemma proto_run_spec : forall cfg hs,
  proto_run cfg [] hs =
  match uc_protocol cfg with
  | None => Some []
  | Some check => select_protocol_spec check (values_of (is_kind KSecProtocol) hs)
  end.
Proof.
  intros cfg. induction hs as [|[k v] hs IH].
  - cbn. destruct (uc_protocol cfg); reflexivity.
  - cbn [proto_run]. unfold values_of in *. cbn [filter fst].
    destruct (classify k) eqn:Hk; cbn [is_kind map]; try exact IH.
    destruct (uc_protocol cfg) as [check|]; [|exact IH].
    cbn [select_protocol_spec snd]. destruct (select_protocol v check) as [p ok].
    destruct ok; cbn [negb]; [|reflexivity].
    destruct p as [|c p]; [exact IH|]. apply proto_run_selected.
Qed.

Lemma exts_run_spec : forall cfg hs e0,
  exts_run cfg e0 hs =
  let vs := values_of (is_kind KSecExtensions) hs in
  match uc_negotiate cfg with
  | Some f => negotiate_spec f vs e0
  | None => match uc_extension cfg with
            | Some check => select_ext_spec check vs e0
            | None => inl e0
            end
  end.
Proof.
  intros cfg. induction hs as [|[k v] hs IH]; intros e0.
  - cbn. destruct (uc_negotiate cfg); [reflexivity|]. destruct (uc_extension cfg); reflexivity.
  - cbn [exts_run]. unfold values_of in *. cbn [filter fst].
    destruct (classify k) eqn:Hk; cbn [is_kind map]; try apply IH.
    cbn zeta in *. destruct (uc_negotiate cfg) as [f|].
    + cbn [negotiate_spec snd]. destruct (negotiate_extensions f v e0) as [es e].
      destruct e; [reflexivity|]. apply IH.
    + destruct (uc_extension cfg) as [check|]; [|apply IH].
      cbn [select_ext_spec snd]. destruct (select_options check v e0) as [es ok].
      destruct ok; [apply IH|reflexivity].
Qed.

Lemma last_cons_default : forall (A : Type) (l : list A) (a d : A), last (a :: l) d = last l a.
Proof.
  intros A. induction l as [|b l IH]; intros a d; [reflexivity|].
  change (last (a :: b :: l) d) with (last (b :: l) d). rewrite !IH. reflexivity.
Qed.

Lemma nonce_of_spec : forall hs n0, nonce_of hs n0 = last (values_of (is_kind KSecKey) hs) n0.
Proof.
  induction hs as [|[k v] hs IH]; intros n0; [reflexivity|].
  cbn [nonce_of]. unfold values_of in *. cbn [filter fst].
  destruct (classify k) eqn:Hk; cbn [is_kind map]; try apply IH.
  rewrite IH. cbn [snd]. rewrite last_cons_default. reflexivity.
Qed.

(* ================= 7. the outcome of Upgrade on the flat view *)
Definition before_ok (cfg : ucfg) : bool :=
  match uc_on_before_upgrade cfg with Some (inr _) => false | _ => true end.

Lemma reject_err : forall stext cfg hs r, u_err (reject stext cfg hs r) = Some (ERej r).
Proof. reflexivity. Qed.

Lemma conditions_eq : forall cfg rl hs,
  compliant (mkPreq rl hs) && callbacks_accept cfg (mkPreq rl hs)
  = (match request_line_check cfg rl with None => true | Some _ => false end)
    && forallb (static_ok cfg) hs && (seen_of hs 0 =? seen_all) && before_ok cfg.
Proof.
  intros cfg rl hs. unfold compliant, callbacks_accept, request_line_check, before_ok.
  cbn [pq_line pq_headers].
  rewrite static_ok_split, seen_all_iff, !all_and_some_split, values_nonempty.
  unfold header_values_ok, header_callbacks_accept.
  rewrite (Z.leb_antisym (rl_minor rl) 1).
  destruct (rl_major rl =? 1)%Z; destruct (rl_minor rl <? 1)%Z;
    destruct (bytes_eqb (rl_method rl) (bs "GET")); cbn [negb orb andb];
    destruct (uc_on_request cfg (rl_uri rl));
    destruct (uc_on_before_upgrade cfg) as [[hb|rb]|]; try btauto.
Qed.

Theorem upgrader_lines_success : forall stext cfg ls rem t,
  u_err (upgrader_lines stext cfg ls rem t) = None <->
  exists l ls' rl hs rest p es,
    ls = l :: ls'
    /\ http_parse_request_line ascii_to_int (cut_eol l) = Some rl
    /\ take_headers ls' = Some (hs, rest)
    /\ compliant (mkPreq rl hs) && callbacks_accept cfg (mkPreq rl hs) = true
    /\ proto_run cfg [] hs = Some p
    /\ exts_run cfg [] hs = inl es
    /\ upgrader_lines stext cfg ls rem t
       = mkUres (mkHs p es) None
           (write_response_upgrade (nonce_of hs (repeat 0 24)) (mkHs p es) (extra_header cfg)).
Proof.
  intros stext cfg ls rem t. split.
  - destruct ls as [|l ls']; [cbn; discriminate|]. cbn [upgrader_lines].
    destruct (http_parse_request_line ascii_to_int (cut_eol l)) as [rl|] eqn:Hrl; [|cbn; discriminate].
    destruct (request_line_check cfg rl) eqn:Hchk; [cbn; discriminate|].
    destruct (fst (run_lines ust lres (line_step cfg) on_blank on_ioerr init_ust ls' rem t)) as [s e] eqn:Hrun.
    destruct e as [e|].
    + unfold upgrader_tail. destruct e; cbn; discriminate.
    + apply run_lines_ok in Hrun. destruct Hrun as [hs [rest [Hth Hfold]]].
      apply fold_hdrs_ok in Hfold. destruct Hfold as [Hst [p [es [Hp [He Hs]]]]].
      cbn [init_ust us_hs hs_protocol hs_exts us_seen us_nonce] in *.
      unfold upgrader_tail. rewrite Hs. cbn [us_seen us_hs us_nonce].
      destruct (seen_of hs 0 =? seen_all) eqn:Hseen; cbn [negb]; [|cbn; discriminate].
      intros Hres.
      assert (Hb : before_ok cfg = true).
      { unfold before_ok. destruct (uc_on_before_upgrade cfg) as [[h|r]|]; try reflexivity.
        cbn in Hres. discriminate. }
      exists l, ls', rl, hs, rest, p, es. repeat split; try assumption.
      * rewrite conditions_eq, Hchk, Hst, Hseen, Hb. reflexivity.
      * unfold extra_header. unfold before_ok in Hb.
        destruct (uc_on_before_upgrade cfg) as [[h|r]|]; try discriminate; try reflexivity.
        rewrite app_nil_r. reflexivity.
  - intros [l [ls' [rl [hs [rest [p [es [E [Hrl [Hth [Hc [Hp [He Hres]]]]]]]]]]]]].
    rewrite Hres. reflexivity.
Qed.

(* the converse direction needs the conditions to produce the success: *)
Theorem upgrader_lines_complete : forall stext cfg l ls' rem t rl hs rest p es,
  http_parse_request_line ascii_to_int (cut_eol l) = Some rl ->
  take_headers ls' = Some (hs, rest) ->
  compliant (mkPreq rl hs) && callbacks_accept cfg (mkPreq rl hs) = true ->
  proto_run cfg [] hs = Some p ->
  exts_run cfg [] hs = inl es ->
  upgrader_lines stext cfg (l :: ls') rem t
  = mkUres (mkHs p es) None
      (write_response_upgrade (nonce_of hs (repeat 0 24)) (mkHs p es) (extra_header cfg)).
Proof.
  intros stext cfg l ls' rem t rl hs rest p es Hrl Hth Hc Hp He.
  rewrite conditions_eq in Hc.
  destruct (request_line_check cfg rl) eqn:Hchk; [discriminate|].
  cbn [andb] in Hc. apply andb_prop in Hc. destruct Hc as [Hc Hb].
  apply andb_prop in Hc. destruct Hc as [Hst Hseen].
  cbn [upgrader_lines]. rewrite Hrl, Hchk.
  assert (Hrun : fst (run_lines ust lres (line_step cfg) on_blank on_ioerr init_ust ls' rem t)
                 = (mkUst (seen_of hs 0) (nonce_of hs (repeat 0 24)) (mkHs p es), None)).
  { apply run_lines_ok. exists hs, rest. split; [exact Hth|].
    apply fold_hdrs_ok. split; [exact Hst|]. exists p, es. repeat split; assumption. }
  rewrite Hrun. unfold upgrader_tail. cbn [us_seen us_hs us_nonce]. rewrite Hseen. cbn [negb].
  unfold extra_header. unfold before_ok in Hb.
  destruct (uc_on_before_upgrade cfg) as [[h|r]|]; try discriminate; try reflexivity.
  rewrite app_nil_r. reflexivity.
Qed.

(* ================= 8. decimal printing; an error response is never a 101 *)
Lemma bytes_eqb_eq : forall a b, bytes_eqb a b = true <-> a = b.
Proof.
  induction a as [|x a IH]; intros [|y b]; cbn [bytes_eqb]; split; intros H;
    try reflexivity; try discriminate.
  - apply andb_prop in H. destruct H as [H1 H2]. apply N.eqb_eq in H1. apply IH in H2. subst. reflexivity.
  - inversion H; subst. rewrite N.eqb_refl. cbn. apply IH. reflexivity.
Qed.

Definition dec_value (l : list byte) : N := fold_left (fun a c => 10 * a + (c - 48)) l 0.
Definition is_digit (c : byte) : Prop := 48 <= c <= 57.

Lemma dec_value_snoc : forall ds c, dec_value (ds ++ [c]) = 10 * dec_value ds + (c - 48).
Proof. intros ds c. unfold dec_value. rewrite fold_left_app. reflexivity. Qed.

Lemma itoa_fuel_spec : forall f n acc, (N.to_nat n < f)%nat ->
  exists ds, itoa_fuel f n acc = ds ++ acc /\ Forall is_digit ds /\ ds <> [] /\ dec_value ds = n.
Proof.
  induction f as [|f IH]; intros n acc Hf; [lia|].
  cbn [itoa_fuel]. destruct (n <? 10) eqn:Hn.
  - exists [48 + n mod 10]. split; [reflexivity|]. split.
    + constructor; [|constructor]. unfold is_digit. rewrite N.mod_small by lia. lia.
    + split; [discriminate|]. unfold dec_value. cbn [fold_left]. rewrite N.mod_small by lia. lia.
  - assert (Hd : n / 10 < n) by (apply N.div_lt; lia).
    destruct (IH (n / 10) ((48 + n mod 10) :: acc) ltac:(lia)) as [ds [E [Hdig [Hne Hv]]]].
    exists (ds ++ [48 + n mod 10]). split; [rewrite E, <- app_assoc; reflexivity|]. split.
    + apply Forall_app. split; [exact Hdig|]. constructor; [|constructor]. unfold is_digit.
      pose proof (N.mod_upper_bound n 10 ltac:(lia)). lia.
    + split; [destruct ds; discriminate|].
      rewrite dec_value_snoc, Hv.
      pose proof (N.div_mod n 10 ltac:(lia)). lia.
Qed.

Lemma itoa_spec : forall n, Forall is_digit (itoa n) /\ itoa n <> [] /\ dec_value (itoa n) = n.
Proof.
  intros n. unfold itoa.
  destruct (itoa_fuel_spec (S (N.to_nat n)) n [] ltac:(lia)) as [ds [E [H1 [H2 H3]]]].
  rewrite E, app_nil_r. auto.
Qed.

Lemma itoa_101 : forall n l, firstn 4 (itoa n ++ 32 :: l) = [49; 48; 49; 32] -> n = 101.
Proof.
  intros n l H. destruct (itoa_spec n) as [Hd [Hne Hv]].
  destruct (itoa n) as [|a [|b [|c [|d ds]]]]; [exfalso; apply Hne; reflexivity| | | |]; cbn in H.
  - inversion H.
  - inversion H.
  - inversion H; subst. reflexivity.
  - inversion H; subst. inversion Hd as [|? ? _ Hd1]; inversion Hd1 as [|? ? _ Hd2];
      inversion Hd2 as [|? ? _ Hd3]; inversion Hd3 as [|? ? Hx _]. unfold is_digit in Hx. lia.
Qed.

Theorem error_response_not_101 : forall stext code hdr body,
  code <> 101 -> is_101 (error_response stext code hdr body) = false.
Proof.
  intros stext code hdr body Hc. unfold is_101.
  destruct (bytes_eqb (firstn 13 (error_response stext code hdr body)) (bs "HTTP/1.1 101 ")) eqn:E; [|reflexivity].
  apply bytes_eqb_eq in E. exfalso. apply Hc.
  unfold error_response in E. cbn [bs Ascii.N_of_ascii app firstn] in E.
  cbn in E. inversion E as [E']. 
  apply (itoa_101 code (stext code ++ crlf ++ bs "Content-Type: text/plain; charset=utf-8" ++ crlf ++ hdr
     ++ bs "Content-Length: " ++ itoa (len body) ++ crlf ++ crlf ++ body)).
  cbn [app]. exact E'.
Qed.

(* ================= 9. the theorems of C09 for Upgrader.Upgrade *)
Lemma expected_response_eq : forall cfg rl hs p es,
  write_response_upgrade (nonce_of hs (repeat 0 24)) (mkHs p es) (extra_header cfg)
  = expected_response cfg (mkPreq rl hs) p es.
Proof.
  intros cfg rl hs p es. unfold write_response_upgrade, expected_response, text_head_upgrade,
    accept_of_key, key_of. cbn [hs_protocol hs_exts pq_headers].
  rewrite nonce_of_spec. rewrite <- !app_assoc.
  destruct p; destruct es; reflexivity.
Qed.

Theorem upgrader_success_iff : forall stext cfg B r, 1 <= B ->
  (u_err (upgrader stext cfg B r) = None <->
   exists q rest p es,
     parse_request (flat r) = Some (q, rest)
     /\ compliant q = true /\ callbacks_accept cfg q = true
     /\ protocol_of cfg q = Some p /\ extensions_of cfg q = inl es).
Proof.
  intros stext cfg B r HB. rewrite (upgrader_flat stext cfg B r HB).
  unfold parse_request. destruct (raw_lines (flat r)) as [ls rem]. cbn [fst snd].
  rewrite upgrader_lines_success. split.
  - intros [l [ls' [rl [hs [rest [p [es [E [Hrl [Hth [Hc [Hp [He _]]]]]]]]]]]]].
    subst ls. rewrite Hrl, Hth.
    apply andb_prop in Hc. destruct Hc as [Hc1 Hc2].
    exists (mkPreq rl hs), (concat rest ++ rem), p, es.
    unfold protocol_of, extensions_of. cbn [pq_headers].
    rewrite proto_run_spec in Hp. rewrite exts_run_spec in He. cbn zeta in He.
    repeat split; assumption.
  - intros [q [rest [p [es [Hpr [Hc1 [Hc2 [Hp He]]]]]]]].
    destruct ls as [|l ls']; [discriminate|].
    destruct (http_parse_request_line ascii_to_int (cut_eol l)) as [rl|] eqn:Hrl; [|discriminate].
    destruct (take_headers ls') as [[hs rest']|] eqn:Hth; [|discriminate].
    inversion Hpr; subst q rest.
    assert (Hp' : proto_run cfg [] hs = Some p) by (rewrite proto_run_spec; exact Hp).
    assert (He' : exts_run cfg [] hs = inl es) by (rewrite exts_run_spec; exact He).
    exists l, ls', rl, hs, rest', p, es. repeat split; try assumption.
    + rewrite Hc1, Hc2. reflexivity.
    + apply (upgrader_lines_complete stext cfg l ls' rem (r_tail r) rl hs rest' p es); try assumption.
      rewrite Hc1, Hc2. reflexivity.
Qed.

Theorem upgrader_success_response : forall stext cfg B r q rest p es, 1 <= B ->
  parse_request (flat r) = Some (q, rest) ->
  compliant q = true -> callbacks_accept cfg q = true ->
  protocol_of cfg q = Some p -> extensions_of cfg q = inl es ->
  upgrader stext cfg B r = mkUres (mkHs p es) None (expected_response cfg q p es).
Proof.
  intros stext cfg B r q rest p es HB Hpr Hc1 Hc2 Hp He.
  rewrite (upgrader_flat stext cfg B r HB).
  unfold parse_request in Hpr. destruct (raw_lines (flat r)) as [ls rem]. cbn [fst snd].
  destruct ls as [|l ls']; [discriminate|].
  destruct (http_parse_request_line ascii_to_int (cut_eol l)) as [rl|] eqn:Hrl; [|discriminate].
  destruct (take_headers ls') as [[hs rest']|] eqn:Hth; [|discriminate].
  inversion Hpr; subst q rest.
  rewrite <- expected_response_eq.
  apply (upgrader_lines_complete stext cfg l ls' rem (r_tail r) rl hs rest' p es); try assumption.
  - rewrite Hc1, Hc2. reflexivity.
  - rewrite proto_run_spec. exact Hp.
  - rewrite exts_run_spec. exact He.
Qed.

(* ---- failure ---- *)
Definition builtin_rejections : list rej :=
  [err_bad_protocol; err_bad_method; err_bad_host; err_bad_upgrade; err_bad_connection;
   err_bad_sec_key; err_bad_sec_version; err_upgrade_required; malformed_request].

(* a rejection produced by a user callback *)
Definition from_callback (cfg : ucfg) (rj : rej) : Prop :=
  (exists u, uc_on_request cfg u = Some rj)
  \/ (exists h, uc_on_host cfg h = Some rj)
  \/ (exists k v, uc_on_header cfg k v = Some rj)
  \/ uc_on_before_upgrade cfg = Some (inr rj)
  \/ (exists f o, uc_negotiate cfg = Some f /\ f o = NegErr rj).

Lemma negotiate_extensions_err : forall f v d es e,
  negotiate_extensions f v d = (es, Some e) -> e = malformed_request \/ exists o, f o = NegErr e.
Proof.
  intros f v d es e. unfold negotiate_extensions.
  destruct (scan_options neg_acc (neg_it f) v (mkNeg None opt_zero d None)) as [a ok].
  destruct (negb ok).
  - intros H. inversion H. left. reflexivity.
  - unfold negotiate_maybe. destruct (opt_size (ng_cur a) =? 0); [discriminate|].
    destruct (f (ng_cur a)) as [o|e'] eqn:Hf.
    + destruct (0 <? opt_size o); discriminate.
    + intros H. inversion H; subst. right. exists (ng_cur a). exact Hf.
Qed.

Lemma hdr_step_rej : forall cfg s k v rj,
  hdr_step cfg s k v = inr rj -> In rj builtin_rejections \/ from_callback cfg rj.
Proof.
  intros cfg s k v rj. unfold hdr_step, builtin_rejections, from_callback.
  destruct (classify k).
  - destruct (uc_on_host cfg v) eqn:E; cbn; [|discriminate]. intros H; inversion H; subst.
    right. right. left. exists v. exact E.
  - destruct (equal_fold_word v word_websocket); [discriminate|]. intros H; inversion H. left. cbn. tauto.
  - destruct (bytes_eqb v (bs "Upgrade") || bts_has_token v word_upgrade); [discriminate|].
    intros H; inversion H. left. cbn. tauto.
  - destruct (bytes_eqb v (bs "13")); [discriminate|]. intros H; inversion H. left. cbn. tauto.
  - destruct (len v =? nonce_size); [discriminate|]. intros H; inversion H. left. cbn. tauto.
  - destruct (hs_protocol (us_hs s)); [|discriminate].
    destruct (uc_protocol cfg); [|discriminate].
    destruct (select_protocol v b) as [p ok]. destruct ok; [discriminate|].
    intros H; inversion H. left. cbn. tauto.
  - destruct (uc_negotiate cfg) as [f|] eqn:Ef.
    + destruct (negotiate_extensions f v (hs_exts (us_hs s))) as [es e] eqn:En.
      destruct e as [e|]; [|discriminate]. intros H; inversion H; subst.
      destruct (negotiate_extensions_err _ _ _ _ _ En) as [Hm|[o Ho]].
      * left. subst. cbn. tauto.
      * right. right. right. right. right. exists f, o. split; [reflexivity|exact Ho].
    + destruct (uc_extension cfg); [|discriminate].
      destruct (select_options b v (hs_exts (us_hs s))) as [es ok]. destruct ok; [discriminate|].
      intros H; inversion H. left. cbn. tauto.
  - destruct (uc_on_header cfg k v) eqn:E; cbn; [|discriminate]. intros H; inversion H; subst.
    right. right. right. left. exists k, v. exact E.
  - destruct (uc_on_header cfg k v) eqn:E; cbn; [|discriminate]. intros H; inversion H; subst.
    right. right. right. left. exists k, v. exact E.
Qed.

Lemma run_lines_rej : forall cfg ls s rem t s' rj,
  fst (run_lines ust lres (line_step cfg) on_blank on_ioerr s ls rem t) = (s', Some (ERej rj)) ->
  In rj builtin_rejections \/ from_callback cfg rj.
Proof.
  intros cfg. induction ls as [|l ls IH]; intros s rem t s' rj; cbn [run_lines].
  - cbn. discriminate.
  - destruct (cut_eol l) as [|c line].
    + cbn. discriminate.
    + unfold line_step at 1.
      destruct (http_parse_header_line (c :: line)) as [[k v]|].
      * destruct (hdr_step cfg s k v) as [s1|r] eqn:Hst.
        -- apply IH.
        -- cbn. intros H. inversion H; subst. eapply hdr_step_rej. exact Hst.
      * cbn. intros H. inversion H. left. cbn. tauto.
Qed.

(* an I/O error means the head never completed *)
Lemma run_lines_io : forall cfg ls s rem t s' t',
  fst (run_lines ust lres (line_step cfg) on_blank on_ioerr s ls rem t) = (s', Some (EIO t')) ->
  take_headers ls = None.
Proof.
  intros cfg. induction ls as [|l ls IH]; intros s rem t s' t'; cbn [run_lines take_headers].
  - reflexivity.
  - destruct (cut_eol l) as [|c line].
    + cbn. discriminate.
    + unfold line_step at 1.
      destruct (http_parse_header_line (c :: line)) as [[k v]|]; [|reflexivity].
      destruct (hdr_step cfg s k v) as [s1|r].
      * intros H. rewrite (IH _ _ _ _ _ H). reflexivity.
      * cbn. discriminate.
Qed.

Definition status_of (rj : rej) : N := if rj_code rj =? 0 then 500 else rj_code rj.

Theorem upgrader_failure : forall stext cfg B r e, 1 <= B ->
  u_err (upgrader stext cfg B r) = Some e ->
  match e with
  | EIO _ => u_out (upgrader stext cfg B r) = [] /\ parse_request (flat r) = None
  | EReqLine => u_out (upgrader stext cfg B r) = [] /\ parse_request (flat r) = None
  | EFuel => False
  | ERej rj =>
      u_out (upgrader stext cfg B r)
      = error_response stext (status_of rj) (uc_header cfg ++ rj_header rj) (rj_reason rj)
      /\ (In rj builtin_rejections \/ from_callback cfg rj)
  end.
Proof.
  intros stext cfg B r e HB. rewrite (upgrader_flat stext cfg B r HB).
  unfold parse_request. destruct (raw_lines (flat r)) as [ls rem]. cbn [fst snd].
  destruct ls as [|l ls']; cbn [upgrader_lines].
  - cbn. intros H. inversion H. split; reflexivity.
  - destruct (http_parse_request_line ascii_to_int (cut_eol l)) as [rl|] eqn:Hrl.
    2:{ cbn. intros H. inversion H. split; reflexivity. }
    destruct (request_line_check cfg rl) as [rj|] eqn:Hchk.
    + cbn. intros H. inversion H; subst. split; [reflexivity|].
      unfold request_line_check in Hchk.
      destruct (negb (rl_major rl =? 1)%Z || (rl_minor rl <? 1)%Z).
      * inversion Hchk. left. cbn. tauto.
      * destruct (negb (bytes_eqb (rl_method rl) (bs "GET"))).
        -- inversion Hchk. left. cbn. tauto.
        -- right. left. exists (rl_uri rl). exact Hchk.
    + destruct (fst (run_lines ust lres (line_step cfg) on_blank on_ioerr init_ust ls' rem (r_tail r)))
        as [s oe] eqn:Hrun.
      unfold upgrader_tail. destruct oe as [e'|].
      * destruct (run_lines_err _ _ _ _ _ _ _ Hrun) as [He|[rj He]]; subst e'.
        -- cbn. intros H. inversion H; subst. split; [reflexivity|].
           rewrite (run_lines_io _ _ _ _ _ _ _ Hrun). reflexivity.
        -- cbn. intros H. inversion H; subst. split; [reflexivity|].
           eapply run_lines_rej. exact Hrun.
      * destruct (negb (us_seen s =? seen_all)).
        -- cbn. intros H. inversion H; subst. split; [reflexivity|]. left.
           unfold missing_header.
           repeat match goal with |- context[if ?b then _ else _] => destruct b end; cbn; tauto.
        -- destruct (uc_on_before_upgrade cfg) as [[h|rj]|] eqn:Hb; cbn; try discriminate.
           intros H. inversion H; subst. split; [reflexivity|]. right. right. right. right. left. exact Hb.
Qed.

(* the built-in rejections: 400, 405, 505, 426 (the last with Sec-WebSocket-Version: 13) *)
Theorem builtin_rejection_status : forall rj, In rj builtin_rejections ->
  (status_of rj = 400 \/ status_of rj = 405 \/ status_of rj = 505
   \/ (status_of rj = 426 /\ rj_header rj = bs "Sec-WebSocket-Version: 13" ++ crlf))
  /\ (status_of rj <> 426 -> rj_header rj = []).
Proof.
  intros rj H. cbn in H.
  repeat (destruct H as [H|H]; [subst rj; vm_compute; split; [tauto|intros; congruence || reflexivity]|]).
  contradiction.
Qed.

Theorem upgrader_never_101_on_failure : forall stext cfg B r e, 1 <= B ->
  (forall rj, from_callback cfg rj -> status_of rj <> 101) ->
  u_err (upgrader stext cfg B r) = Some e ->
  is_101 (u_out (upgrader stext cfg B r)) = false.
Proof.
  intros stext cfg B r e HB Hcb He.
  pose proof (upgrader_failure stext cfg B r e HB He) as F.
  destruct e as [t| | |rj].
  - destruct F as [F _]. rewrite F. reflexivity.
  - destruct F as [F _]. rewrite F. reflexivity.
  - contradiction.
  - destruct F as [F [Hin|Hc]]; rewrite F; apply error_response_not_101.
    + destruct (builtin_rejection_status rj Hin) as [[H|[H|[H|[H _]]]] _]; rewrite H; discriminate.
    + apply Hcb. exact Hc.
Qed.

(* ================= 10. HTTPUpgrader.Upgrade on the structured request *)
Lemma http_check_compliant : forall q,
  (match http_request_check q with None => true | Some _ => false end) = http_compliant q.
Proof.
  intros q. unfold http_request_check, http_compliant.
  rewrite (Z.leb_antisym (hq_minor q) 1). unfold nonce_size.
  destruct (bytes_eqb (hq_method q) (bs "GET")); cbn [negb andb]; [|reflexivity].
  destruct (hq_major q =? 1)%Z; cbn [negb andb orb]; [|reflexivity].
  destruct (hq_minor q <? 1)%Z; cbn [negb andb orb]; [reflexivity|].
  destruct (hq_host q); cbn [negb andb]; [reflexivity|].
  destruct (equal_fold_word (http_get_header (hq_header q) h_upgrade) word_websocket); cbn [negb andb]; [|reflexivity].
  destruct (connection_ok (http_get_header (hq_header q) h_connection)); cbn [negb andb]; [|reflexivity].
  destruct (len (http_get_header (hq_header q) h_sec_key_c) =? 24); cbn [negb andb]; [|reflexivity].
  destruct (bytes_eqb (http_get_header (hq_header q) h_sec_version_c) (bs "13")); cbn [negb andb]; [reflexivity|].
  destruct (http_get_header (hq_header q) h_sec_version_c); reflexivity.
Qed.

Lemma http_protocol_loop_spec : forall check ps,
  match select_protocol_spec check ps with
  | Some p => http_protocol_loop check ps = (p, None)
  | None => snd (http_protocol_loop check ps) = Some malformed_request
  end.
Proof.
  intros check. induction ps as [|v ps IH]; [reflexivity|].
  cbn [select_protocol_spec http_protocol_loop].
  destruct (select_protocol v check) as [p ok]. destruct ok; cbn [negb]; [|reflexivity].
  destruct p; [exact IH|reflexivity].
Qed.

Lemma http_negotiate_loop_spec : forall f vs acc,
  match negotiate_spec f vs acc with
  | inl es => http_negotiate_loop f vs acc = (es, None)
  | inr x => snd (http_negotiate_loop f vs acc) = Some x
  end.
Proof.
  intros f. induction vs as [|v vs IH]; intros acc; [reflexivity|].
  cbn [negotiate_spec http_negotiate_loop].
  destruct (negotiate_extensions f v acc) as [es e]. destruct e; [reflexivity|apply IH].
Qed.

Lemma http_extension_loop_spec : forall check vs acc,
  match select_ext_spec check vs acc with
  | inl es => http_extension_loop check vs acc = (es, None)
  | inr x => snd (http_extension_loop check vs acc) = Some x
  end.
Proof.
  intros check. induction vs as [|v vs IH]; intros acc; [reflexivity|].
  cbn [select_ext_spec http_extension_loop].
  destruct (select_options check v acc) as [es ok]. destruct ok; [apply IH|reflexivity].
Qed.

Definition http_failure_response (stext : N -> list byte) (cfg : hcfg) (rj : rej) : list byte :=
  error_response stext (status_of rj) (hc_header cfg ++ rj_header rj) (rj_reason rj).

(* complete description of the outcome *)
Theorem http_upgrader_outcome : forall stext cfg q,
  match http_request_check q with
  | Some rj => u_err (http_upgrader stext cfg q) = Some (ERej rj)
               /\ u_out (http_upgrader stext cfg q) = http_failure_response stext cfg rj
  | None =>
      match http_protocol_of cfg q with
      | None => u_err (http_upgrader stext cfg q) = Some (ERej malformed_request)
                /\ u_out (http_upgrader stext cfg q) = http_failure_response stext cfg malformed_request
      | Some p =>
          match http_extensions_of cfg q with
          | inr x => u_err (http_upgrader stext cfg q) = Some (ERej x)
                     /\ u_out (http_upgrader stext cfg q) = http_failure_response stext cfg x
          | inl es => http_upgrader stext cfg q
                      = mkUres (mkHs p es) None (http_expected_response cfg q p es)
          end
      end
  end.
Proof.
  intros stext cfg q. unfold http_upgrader, http_protocol_of, http_extensions_of.
  destruct (http_request_check q) as [rj|].
  - cbn. split; reflexivity.
  - cbn zeta.
    destruct (hc_protocol cfg) as [check|].
    + pose proof (http_protocol_loop_spec check (header_values (hq_header q) h_sec_protocol_c)) as P.
      destruct (select_protocol_spec check (header_values (hq_header q) h_sec_protocol_c)) as [p|].
      * rewrite P.
        destruct (hc_negotiate cfg) as [f|].
        -- pose proof (http_negotiate_loop_spec f (header_values (hq_header q) h_sec_extensions_c) []) as Q.
           destruct (negotiate_spec f (header_values (hq_header q) h_sec_extensions_c) []) as [es|x].
           ++ rewrite Q. destruct (hc_extension cfg); unfold http_expected_response, write_response_upgrade,
                text_head_upgrade, accept_of_key; cbn [hs_protocol hs_exts]; rewrite <- !app_assoc;
                destruct p; destruct es; reflexivity.
           ++ destruct (http_negotiate_loop f (header_values (hq_header q) h_sec_extensions_c) []) as [es e].
              cbn [snd] in Q. subst e. destruct (hc_extension cfg); cbn; split; reflexivity.
        -- destruct (hc_extension cfg) as [chk|].
           ++ pose proof (http_extension_loop_spec chk (header_values (hq_header q) h_sec_extensions_c) []) as Q.
              destruct (select_ext_spec chk (header_values (hq_header q) h_sec_extensions_c) []) as [es|x].
              ** rewrite Q. unfold http_expected_response, write_response_upgrade,
                   text_head_upgrade, accept_of_key; cbn [hs_protocol hs_exts]; rewrite <- !app_assoc;
                   destruct p; destruct es; reflexivity.
              ** destruct (http_extension_loop chk (header_values (hq_header q) h_sec_extensions_c) []) as [es e].
                 cbn [snd] in Q. subst e. cbn. split; reflexivity.
           ++ unfold http_expected_response, write_response_upgrade,
                text_head_upgrade, accept_of_key; cbn [hs_protocol hs_exts]; rewrite <- !app_assoc;
                destruct p; reflexivity.
      * destruct (http_protocol_loop check (header_values (hq_header q) h_sec_protocol_c)) as [p e].
        cbn [snd] in P. subst e. destruct (hc_negotiate cfg); destruct (hc_extension cfg); cbn; split; reflexivity.
    + destruct (hc_negotiate cfg) as [f|].
      * pose proof (http_negotiate_loop_spec f (header_values (hq_header q) h_sec_extensions_c) []) as Q.
        destruct (negotiate_spec f (header_values (hq_header q) h_sec_extensions_c) []) as [es|x].
        -- rewrite Q. destruct (hc_extension cfg); unfold http_expected_response, write_response_upgrade,
             text_head_upgrade, accept_of_key; cbn [hs_protocol hs_exts]; rewrite <- !app_assoc;
             destruct es; reflexivity.
        -- destruct (http_negotiate_loop f (header_values (hq_header q) h_sec_extensions_c) []) as [es e].
           cbn [snd] in Q. subst e. destruct (hc_extension cfg); cbn; split; reflexivity.
      * destruct (hc_extension cfg) as [chk|].
        -- pose proof (http_extension_loop_spec chk (header_values (hq_header q) h_sec_extensions_c) []) as Q.
           destruct (select_ext_spec chk (header_values (hq_header q) h_sec_extensions_c) []) as [es|x].
           ++ rewrite Q. unfold http_expected_response, write_response_upgrade,
                text_head_upgrade, accept_of_key; cbn [hs_protocol hs_exts]; rewrite <- !app_assoc;
                destruct es; reflexivity.
           ++ destruct (http_extension_loop chk (header_values (hq_header q) h_sec_extensions_c) []) as [es e].
              cbn [snd] in Q. subst e. cbn. split; reflexivity.
        -- unfold http_expected_response, write_response_upgrade,
             text_head_upgrade, accept_of_key; cbn [hs_protocol hs_exts]; rewrite <- !app_assoc; reflexivity.
Qed.

Theorem http_upgrader_success_iff : forall stext cfg q,
  u_err (http_upgrader stext cfg q) = None <->
  (http_compliant q = true /\ exists p es, http_protocol_of cfg q = Some p /\ http_extensions_of cfg q = inl es).
Proof.
  intros stext cfg q. pose proof (http_upgrader_outcome stext cfg q) as O.
  rewrite <- http_check_compliant.
  destruct (http_request_check q) as [rj|].
  - destruct O as [O _]. rewrite O. split; [discriminate|]. intros [H _]. discriminate.
  - destruct (http_protocol_of cfg q) as [p|].
    + destruct (http_extensions_of cfg q) as [es|x].
      * rewrite O. cbn. split; [|reflexivity]. intros _. split; [reflexivity|]. exists p, es. auto.
      * destruct O as [O _]. rewrite O. split; [discriminate|]. intros [_ [p' [es' [_ H]]]]. discriminate.
    + destruct O as [O _]. rewrite O. split; [discriminate|]. intros [_ [p' [es' [H _]]]]. discriminate.
Qed.

Theorem http_upgrader_success_response : forall stext cfg q p es,
  http_compliant q = true -> http_protocol_of cfg q = Some p -> http_extensions_of cfg q = inl es ->
  http_upgrader stext cfg q = mkUres (mkHs p es) None (http_expected_response cfg q p es).
Proof.
  intros stext cfg q p es Hc Hp He. pose proof (http_upgrader_outcome stext cfg q) as O.
  rewrite <- http_check_compliant in Hc.
  destruct (http_request_check q); [discriminate|]. rewrite Hp, He in O. exact O.
Qed.

Theorem http_upgrader_failure : forall stext cfg q e,
  u_err (http_upgrader stext cfg q) = Some e ->
  exists rj, e = ERej rj
    /\ u_out (http_upgrader stext cfg q) = http_failure_response stext cfg rj
    /\ (In rj builtin_rejections \/ exists f o, hc_negotiate cfg = Some f /\ f o = NegErr rj).
Proof.
  intros stext cfg q e He. pose proof (http_upgrader_outcome stext cfg q) as O.
  destruct (http_request_check q) as [rj|] eqn:Hchk.
  - destruct O as [O1 O2]. rewrite O1 in He. inversion He; subst. exists rj. repeat split; [exact O2|].
    left. unfold http_request_check in Hchk.
    repeat match type of Hchk with
           | (if ?b then _ else _) = _ => destruct b
           | (match ?x with _ => _ end) = _ => destruct x
           end; inversion Hchk; cbn; tauto.
  - destruct (http_protocol_of cfg q) as [p|].
    + destruct (http_extensions_of cfg q) as [es|x] eqn:Hx.
      * rewrite O in He. discriminate.
      * destruct O as [O1 O2]. rewrite O1 in He. inversion He; subst. exists x. repeat split; [exact O2|].
        unfold http_extensions_of in Hx. cbn zeta in Hx.
        destruct (hc_negotiate cfg) as [f|].
        -- assert (G : forall vs acc, negotiate_spec f vs acc = inr x ->
                        x = malformed_request \/ exists o, f o = NegErr x).
           { induction vs as [|v vs IH]; intros acc; cbn [negotiate_spec]; [discriminate|].
             destruct (negotiate_extensions f v acc) as [es e] eqn:En. destruct e as [e|].
             - intros H. inversion H; subst. eapply negotiate_extensions_err. exact En.
             - apply IH. }
           destruct (G _ _ Hx) as [Hm|[o Ho]].
           ++ left. subst. cbn. tauto.
           ++ right. exists f, o. auto.
        -- destruct (hc_extension cfg) as [chk|]; [|discriminate].
           assert (G : forall vs acc, select_ext_spec chk vs acc = inr x -> x = malformed_request).
           { induction vs as [|v vs IH]; intros acc; cbn [select_ext_spec]; [discriminate|].
             destruct (select_options chk v acc) as [es ok]. destruct ok; [apply IH|].
             intros H. inversion H. reflexivity. }
           left. rewrite (G _ _ Hx). cbn. tauto.
    + destruct O as [O1 O2]. rewrite O1 in He. inversion He; subst. exists malformed_request.
      repeat split; [exact O2|]. left. cbn. tauto.
Qed.

(* ================= 11. the subprotocol is the first token, in header order, that the selector accepts *)
Definition first_accepted (check : list byte -> bool) (ts : list (list byte)) : list byte :=
  match filter check ts with t :: _ => t | [] => [] end.
Definition collect_it (acc : list (list byte)) (t : list byte) := (acc ++ [t], true).
Definition sel_it_p (check : list byte -> bool) (a : option (list byte)) (v : list byte) :=
  if check v then (Some v, false) else (a, true).
Definition tokens_nonempty (items : list item) : Prop :=
  Forall (fun x => match x with IToken t => t <> [] | _ => True end) items.

Lemma sel_vs_collect : forall check items acc ok toks,
  tokens_nonempty items ->
  scan_tokens_loop _ collect_it items acc ok = (toks, true) ->
  exists ts, toks = acc ++ ts /\ Forall (fun t => t <> []) ts /\
    scan_tokens_loop _ (sel_it_p check) items None ok
    = (match filter check ts with t :: _ => Some t | [] => None end, true).
Proof.
  intros check. induction items as [|x items IH]; intros acc ok toks Hne H; cbn [scan_tokens_loop] in *.
  - inversion H; subst. exists []. rewrite app_nil_r. repeat split. constructor.
  - inversion Hne as [|? ? Hx Hne']; subst.
    destruct x as [t|c|s| |]; try (inversion H; fail).
    + unfold collect_it in H at 1. cbn in H.
      destruct (IH (acc ++ [t]) true toks Hne' H) as [ts [E [Hts Hs]]].
      exists (t :: ts). rewrite E, <- app_assoc. split; [reflexivity|]. split; [constructor; assumption|].
      unfold sel_it_p at 1. cbn [filter]. destruct (check t); [reflexivity|exact Hs].
    + destruct (c =? 44); [|inversion H]. apply IH; assumption.
Qed.

Lemma span_token_nonempty : forall c r t rest,
  oct_token c = true -> span oct_token (c :: r) = (t, rest) -> t <> [].
Proof.
  intros c r t rest Hc H. cbn [span] in H. rewrite Hc in H.
  destruct (span oct_token r). inversion H. discriminate.
Qed.

Lemma lex_fuel_nonempty : forall f data, tokens_nonempty (lex_fuel f data).
Proof.
  induction f as [|f IH]; intros data; cbn [lex_fuel]; [constructor|].
  destruct (next_item data) as [[x rest]|] eqn:Hn; [|constructor].
  assert (Hx : match x with IToken t => t <> [] | _ => True end).
  { unfold next_item in Hn. destruct (skip_space data) as [|c r]; [discriminate|].
    destruct (c =? 34).
    - destruct (scan_until_quote false r) as [[s rest']|]; inversion Hn; exact I.
    - destruct (c =? 40); [inversion Hn; exact I|].
      destruct ((c =? 92) || (c =? 41)); [inversion Hn; exact I|].
      destruct (oct_sep c); [inversion Hn; exact I|].
      destruct (oct_token c) eqn:Hc; [|inversion Hn; exact I].
      destruct (span oct_token (c :: r)) as [t rest'] eqn:Hs. inversion Hn; subst.
      eapply span_token_nonempty; eassumption. }
  destruct x; try (constructor; [exact Hx|apply IH]); constructor; try exact I; constructor.
Qed.

Lemma select_protocol_wf : forall check v,
  snd (token_list v) = true ->
  select_protocol v check = (first_accepted check (fst (token_list v)), true)
  /\ Forall (fun t => t <> []) (fst (token_list v)).
Proof.
  intros check v H. unfold token_list, scan_tokens in *.
  destruct (scan_tokens_loop _ (fun acc t => (acc ++ [t], true)) (lex v) [] false) as [toks okc] eqn:E.
  cbn [snd fst] in *. subst okc.
  destruct (sel_vs_collect check (lex v) [] false toks (lex_fuel_nonempty _ _) E) as [ts [Et [Hts Hs]]].
  cbn [app] in Et. subst ts. split; [|exact Hts].
  unfold select_protocol, scan_tokens. unfold sel_it_p in Hs. rewrite Hs.
  unfold first_accepted. destruct (filter check toks); reflexivity.
Qed.

Theorem protocol_first_accepted : forall check vs,
  Forall (fun v => snd (token_list v) = true) vs ->
  select_protocol_spec check vs
  = Some (first_accepted check (concat (map (fun v => fst (token_list v)) vs))).
Proof.
  intros check. induction vs as [|v vs IH]; intros H; [reflexivity|].
  inversion H as [|? ? Hv Hvs]; subst. cbn [select_protocol_spec map concat].
  destruct (select_protocol_wf check v Hv) as [E Hne]. rewrite E. cbn [negb].
  unfold first_accepted in *. rewrite filter_app.
  destruct (filter check (fst (token_list v))) as [|t ts] eqn:Ef.
  - cbn [app]. apply IH. exact Hvs.
  - cbn [app]. assert (Ht : t <> []).
    { assert (Hin : In t (filter check (fst (token_list v)))) by (rewrite Ef; left; reflexivity).
      apply filter_In in Hin. destruct Hin as [Hin _]. rewrite Forall_forall in Hne. apply Hne. exact Hin. }
    destruct t; [contradiction|reflexivity].
Qed.

(* ================= 12. deprecated Extension path: what is returned = the offered options the
   filter accepts, in the client's order (so every returned extension occurs in the offer) *)
Definition sel_rel (check : hopt -> bool) (acc0 : list hopt) (a : sel_acc) (b : po_acc) : Prop :=
  sel_index a = po_index b /\
  (if sel_has a
   then exists done, po_opts b = done ++ [sel_cur a] /\ sel_opts a = acc0 ++ filter check done
   else po_opts b = [] /\ sel_opts a = acc0 /\ sel_index a = None).

Lemma po_set_last : forall (l : list hopt) o k val,
  match rev (l ++ [o]) with o' :: r => rev r ++ [opt_set o' k val] | [] => [] end = l ++ [opt_set o k val].
Proof. intros. rewrite rev_app_distr. cbn [rev app]. rewrite rev_involutive. reflexivity. Qed.

Lemma filter_snoc : forall (check : hopt -> bool) l o,
  filter check (l ++ [o]) = if check o then filter check l ++ [o] else filter check l.
Proof. intros. rewrite filter_app. cbn [filter]. destruct (check o); [reflexivity|apply app_nil_r]. Qed.

Lemma sel_rel_step : forall check acc0 a b i n attr val,
  sel_rel check acc0 a b ->
  sel_rel check acc0 (fst (sel_it check a i n attr val)) (fst (po_it b i n attr val))
  /\ snd (sel_it check a i n attr val) = CContinue /\ snd (po_it b i n attr val) = CContinue.
Proof.
  intros check acc0 a b i n attr val [Hi Hh]. split; [|split; reflexivity].
  unfold sel_it, po_it. cbn [fst]. rewrite <- Hi.
  destruct (sel_index a) as [j|] eqn:Hj.
  - destruct (sel_has a) eqn:Hhas; [|destruct Hh as [_ [_ Hn]]; discriminate].
    destruct Hh as [done [Hp Hs]].
    destruct (j =? i) eqn:Hji.
    + destruct attr as [k|]; unfold sel_rel; cbn [sel_index sel_has sel_cur sel_opts po_index po_opts].
      * rewrite Hj, Hhas. split; [congruence|]. rewrite Hp, po_set_last.
        exists done. split; [reflexivity|exact Hs].
      * rewrite Hhas. split; [congruence|]. exists done. split; assumption.
    + destruct attr as [k|]; unfold sel_rel; cbn [sel_index sel_has sel_cur sel_opts po_index po_opts andb].
      * split; [congruence|]. rewrite po_set_last. exists (po_opts b). split; [reflexivity|].
        rewrite Hp, filter_snoc, Hs. destruct (check (sel_cur a)); rewrite <- ?app_assoc; reflexivity.
      * split; [congruence|]. exists (po_opts b). split; [reflexivity|].
        rewrite Hp, filter_snoc, Hs. destruct (check (sel_cur a)); rewrite <- ?app_assoc; reflexivity.
  - destruct (sel_has a) eqn:Hhas.
    + destruct Hh as [done [Hp Hs]].
      destruct attr as [k|]; unfold sel_rel; cbn [sel_index sel_has sel_cur sel_opts po_index po_opts andb].
      * split; [congruence|]. rewrite po_set_last. exists (po_opts b). split; [reflexivity|].
        rewrite Hp, filter_snoc, Hs. destruct (check (sel_cur a)); rewrite <- ?app_assoc; reflexivity.
      * split; [congruence|]. exists (po_opts b). split; [reflexivity|].
        rewrite Hp, filter_snoc, Hs. destruct (check (sel_cur a)); rewrite <- ?app_assoc; reflexivity.
    + destruct Hh as [Hp [Hs _]].
      destruct attr as [k|]; unfold sel_rel; cbn [sel_index sel_has sel_cur sel_opts po_index po_opts andb].
      * split; [congruence|]. rewrite po_set_last. exists (po_opts b). split; [reflexivity|].
        rewrite Hp. cbn [filter]. rewrite app_nil_r. exact Hs.
      * split; [congruence|]. exists (po_opts b). split; [reflexivity|].
        rewrite Hp. cbn [filter]. rewrite app_nil_r. exact Hs.
Qed.

Lemma sel_rel_loop : forall check acc0 items v ok a b,
  sel_rel check acc0 a b ->
  sel_rel check acc0 (fst (scan_options_loop _ (sel_it check) items v ok a))
                     (fst (scan_options_loop _ po_it items v ok b))
  /\ snd (scan_options_loop _ (sel_it check) items v ok a) = snd (scan_options_loop _ po_it items v ok b).
Proof.
  intros check acc0. induction items as [|x items IH]; intros v ok a b R.
  - cbn [scan_options_loop]. unfold so_finish. destruct (so_must v); cbn [fst snd].
    + split; [|reflexivity]. apply (sel_rel_step check acc0 a b _ _ _ _ R).
    + split; [exact R|reflexivity].
  - cbn [scan_options_loop].
    assert (Hfin : forall lexerr,
      sel_rel check acc0 (fst (so_finish _ (sel_it check) v ok lexerr a)) (fst (so_finish _ po_it v ok lexerr b))
      /\ snd (so_finish _ (sel_it check) v ok lexerr a) = snd (so_finish _ po_it v ok lexerr b)).
    { intros lexerr. unfold so_finish. destruct (so_must v); cbn [fst snd].
      - split; [|reflexivity]. apply (sel_rel_step check acc0 a b _ _ _ _ R).
      - split; [exact R|reflexivity]. }
    destruct x as [t|c|s| |]; try (apply Hfin); try (split; [exact R|reflexivity]).
    all: destruct (so_trans _ v) as [[[v' call] grow]|]; [|split; [exact R|reflexivity]];
      destruct call; [|apply IH; exact R];
      destruct (sel_rel_step check acc0 a b (so_index v') (so_key v') (so_param v') (so_value v') R)
        as [R' [C1 C2]];
      destruct (sel_it check a (so_index v') (so_key v') (so_param v') (so_value v')) as [a' ca];
      destruct (po_it b (so_index v') (so_key v') (so_param v') (so_value v')) as [b' cb];
      cbn [fst snd] in *; subst ca cb; apply IH; exact R'.
Qed.

Theorem select_options_from_offer : forall check v acc,
  fst (select_options check v acc) = acc ++ filter check (fst (parse_options v))
  /\ snd (select_options check v acc) = snd (parse_options v).
Proof.
  intros check v acc. unfold select_options, parse_options, scan_options.
  assert (R0 : sel_rel check acc (mkSel opt_zero false None acc) (mkPo None [])).
  { unfold sel_rel. cbn. auto. }
  destruct (sel_rel_loop check acc (lex v) (mkSo StKey 0 [] None [] false) false _ _ R0) as [[Hi Hh] Hok].
  destruct (scan_options_loop sel_acc (sel_it check) (lex v) (mkSo StKey 0 [] None [] false) false
              (mkSel opt_zero false None acc)) as [a oka].
  destruct (scan_options_loop po_acc po_it (lex v) (mkSo StKey 0 [] None [] false) false (mkPo None []))
    as [b okb].
  cbn [fst snd] in *. split; [|exact Hok].
  destruct (sel_has a).
  - destruct Hh as [done [Hp Hs]]. rewrite Hp, filter_app, Hs. cbn [filter andb].
    destruct (check (sel_cur a)); rewrite <- ?app_assoc, ?app_nil_r; reflexivity.
  - destruct Hh as [Hp [Hs _]]. rewrite Hp, Hs. cbn. rewrite app_nil_r. reflexivity.
Qed.

(* ================= 13. the model's primitives against plain readings *)
(* EqualFold with a lower-case ASCII word is ASCII case-insensitive equality on ASCII values *)
Lemma equal_fold_word_ascii : forall w v,
  forallb (fun c => (97 <=? c) && (c <=? 122)) w = true ->
  forallb (fun c => c <? 128) v = true ->
  equal_fold_word v w = equal_fold_ascii v w.
Proof.
  induction w as [|c w IH]; intros v Hw Hv.
  - destruct v; reflexivity.
  - destruct v as [|x v]; [reflexivity|].
    cbn [forallb] in Hw, Hv. apply andb_prop in Hw. destruct Hw as [Hc Hw].
    apply andb_prop in Hv. destruct Hv as [Hx Hv].
    cbn [equal_fold_word equal_fold_ascii].
    assert (E : (x =? c) || (x + 32 =? c) = (x =? c) || ((65 <=? x) && (x <=? 90) && (x + 32 =? c))).
    { destruct (x + 32 =? c) eqn:E1; [|rewrite !andb_false_r; reflexivity].
      assert ((65 <=? x) && (x <=? 90) = true) by lia. rewrite H. reflexivity. }
    rewrite <- E. destruct ((x =? c) || (x + 32 =? c)); [apply IH; assumption|].
    assert (H1 : (x =? 226) = false) by lia. assert (H2 : (x =? 197) = false) by lia.
    rewrite H1, H2, !andb_false_r. reflexivity.
Qed.

(* asciiToInt (after F4a): exactly the decimal numerals that fit a 64-bit int, with their value *)
Definition dec_z (l : list byte) (x : Z) : Z := fold_left (fun a c => (a * 10 + Z.of_N (c - 48))%Z) l x.
Definition all_digits (l : list byte) : bool := forallb (fun c => (48 <=? c) && (c <=? 57)) l.

Lemma dec_z_ge : forall l x, all_digits l = true -> (0 <= x)%Z -> (x <= dec_z l x)%Z.
Proof.
  induction l as [|c l IH]; intros x Hd Hx; cbn [dec_z fold_left]; [lia|].
  cbn [all_digits forallb] in Hd. apply andb_prop in Hd. destruct Hd as [Hc Hd].
  fold (dec_z l (x * 10 + Z.of_N (c - 48))%Z).
  specialize (IH (x * 10 + Z.of_N (c - 48))%Z Hd). lia.
Qed.

Lemma ascii_to_int_loop_spec : forall l ret, (0 <= ret <= max_int)%Z ->
  ascii_to_int_loop l ret =
  if all_digits l && (dec_z l ret <=? max_int)%Z then Some (dec_z l ret) else None.
Proof.
  induction l as [|c l IH]; intros ret Hr; cbn [ascii_to_int_loop all_digits forallb dec_z fold_left].
  - cbn [andb]. assert (E : (ret <=? max_int)%Z = true) by lia. rewrite E. reflexivity.
  - fold (all_digits l). fold (dec_z l (ret * 10 + Z.of_N (c - 48))%Z).
    destruct ((48 <=? c) && (c <=? 57)) eqn:Hc; cbn [andb]; [|reflexivity].
    pose proof (Z.div_mod (max_int - Z.of_N (c - 48)) 10 ltac:(lia)) as Hdm.
    pose proof (Z.mod_pos_bound (max_int - Z.of_N (c - 48)) 10 ltac:(lia)) as Hmb.
    destruct ((max_int - Z.of_N (c - 48)) / 10 <? ret)%Z eqn:Hov.
    + (* overflow *)
      destruct (all_digits l) eqn:Hd; cbn [andb]; [|reflexivity].
      pose proof (dec_z_ge l (ret * 10 + Z.of_N (c - 48))%Z Hd ltac:(lia)) as Hge.
      assert (E : (dec_z l (ret * 10 + Z.of_N (c - 48)) <=? max_int)%Z = false) by lia.
      rewrite E. reflexivity.
    + apply IH. lia.
Qed.

Theorem ascii_to_int_spec : forall l,
  ascii_to_int l =
  match l with
  | [] => None
  | _ => if all_digits l && (dec_z l 0 <=? max_int)%Z then Some (dec_z l 0) else None
  end.
Proof.
  intros l. unfold ascii_to_int. destruct l as [|c l]; [reflexivity|].
  apply ascii_to_int_loop_spec. unfold max_int. lia.
Qed.

(* the parser as it was (F4a): a witness that it took non-digits and wrapped around *)
Lemma ascii_to_int_wrap_refuted :
  ascii_to_int_wrap [48; 58; 49] = Some 101%Z                                     (* "0:1" *)
  /\ ascii_to_int_wrap [57; 59] = Some 101%Z                                      (* "9;" *)
  /\ ascii_to_int_wrap (bs "18446744073709551717") = Some 101%Z.                  (* 2^64 + 101 *)
Proof. vm_compute. repeat split; reflexivity. Qed.

Theorem http_upgrader_never_101_on_failure : forall stext cfg q e,
  (forall f o rj, hc_negotiate cfg = Some f -> f o = NegErr rj -> status_of rj <> 101) ->
  u_err (http_upgrader stext cfg q) = Some e ->
  is_101 (u_out (http_upgrader stext cfg q)) = false.
Proof.
  intros stext cfg q e Hcb He.
  destruct (http_upgrader_failure stext cfg q e He) as [rj [_ [Ho Hsrc]]].
  rewrite Ho. unfold http_failure_response. apply error_response_not_101.
  destruct Hsrc as [Hin|[f [o [Hf Ho']]]].
  - destruct (builtin_rejection_status rj Hin) as [[H|[H|[H|[H _]]]] _]; rewrite H; discriminate.
  - eapply Hcb; eassumption.
Qed.

(* non-vacuity material: the RFC 6455 section 1.3 sample handshake, read 1 byte at a time
   through a 16-byte buffer *)
Definition sample_request : list byte :=
  bs "GET /chat HTTP/1.1" ++ crlf ++ bs "Host: server.example.com" ++ crlf
  ++ bs "Upgrade: websocket" ++ crlf ++ bs "Connection: keep-alive, Upgrade" ++ crlf
  ++ bs "Sec-WebSocket-Key: dGhlIHNhbXBsZSBub25jZQ==" ++ crlf
  ++ bs "Sec-WebSocket-Protocol: chat, superchat" ++ crlf
  ++ bs "Sec-WebSocket-Version: 13" ++ crlf ++ crlf.
Definition sample_cfg : ucfg :=
  mkUcfg [] (Some (fun p => bytes_eqb p (bs "superchat"))) None None
         (fun _ => None) (fun _ => None) (fun _ _ => None) None.
Definition sample_response : list byte :=
  bs "HTTP/1.1 101 Switching Protocols" ++ crlf ++ bs "Upgrade: websocket" ++ crlf
  ++ bs "Connection: Upgrade" ++ crlf ++ bs "Sec-WebSocket-Accept: s3pPLMBiTxaQ9kYGzzhZRbK+xOo=" ++ crlf
  ++ bs "Sec-WebSocket-Protocol: superchat" ++ crlf ++ crlf.
