(* GoMemProofs.v — reasoning toolkit for lib/GoMem.v (the memory model of the source translator v3):
   what the checked accesses do on a VALID slice, expressed on the bytes the slice denotes
   (sl_bytes) and on the canonical form  sl_put w s bs  = "world w with the bytes of s replaced by bs". *)
From Coq Require Import NArith ZArith List Bool Lia ZifyBool ZifyN ZifyNat.
Require Import GoSlices GoMem.
Import ListNotations.
Open Scope Z_scope.

Definition sl_put (w : world) (s : slice) (bs : list Z) : world := sl_blit w s 0 bs.

(* ------------------------------------------------------------------ monad *)
Lemma mbind_ok {A B} (m : M A) (f : A -> M B) w a w' : m w = Ok (a, w') -> mbind m f w = f a w'.
Proof. intros H. unfold mbind. now rewrite H. Qed.
Lemma mbind_ret {A B} (a : A) (f : A -> M B) w : mbind (ret a) f w = f a w.
Proof. reflexivity. Qed.
Lemma mbind_lift_ok {A B} (a : A) (f : A -> M B) w : mbind (lift (Ok a)) f w = f a w.
Proof. reflexivity. Qed.

(* total correctness rule for m_loop: invariant over (state, world), decreasing measure *)
Lemma m_loop_rule {S R : Type} (I : S -> world -> Prop) (m : S -> nat) (Q : S + R -> world -> Prop)
      (body : S -> M (step S R)) :
  (forall s w, I s w -> match body s w with
                        | Ok (Continue s', w') => I s' w' /\ (m s' < m s)%nat
                        | Ok (Break s', w') => Q (inl s') w'
                        | Ok (Return r, w') => Q (inr r) w'
                        | Panic | OutOfFuel => False
                        end) ->
  forall fuel s w, I s w -> (m s < fuel)%nat -> exists o w', m_loop fuel body s w = Ok (o, w') /\ Q o w'.
Proof.
  intros Hb fuel. induction fuel as [|fuel IH]; intros s w Hs Hm; [lia|].
  cbn [m_loop]. specialize (Hb s w Hs). destruct (body s w) as [[[s'|s'|r] w']| |]; try contradiction.
  - destruct Hb as [Hs' Hm']. apply IH; [exact Hs'|lia].
  - eexists _, _; split; [reflexivity|exact Hb].
  - eexists _, _; split; [reflexivity|exact Hb].
Qed.

(* ------------------------------------------------------------------ lists *)
Lemma firstn_app_exact {A} (x r : list A) : firstn (length x) (x ++ r) = x.
Proof. rewrite firstn_app, Nat.sub_diag, firstn_all. cbn [firstn]. apply app_nil_r. Qed.
Lemma skipn_app_exact {A} (x r : list A) : skipn (length x) (x ++ r) = r.
Proof. rewrite skipn_app, Nat.sub_diag, skipn_all. reflexivity. Qed.
Lemma firstn_app_n {A} n (x r : list A) : n = length x -> firstn n (x ++ r) = x.
Proof. intros ->. apply firstn_app_exact. Qed.
Lemma skipn_app_n {A} n (x r : list A) : n = length x -> skipn n (x ++ r) = r.
Proof. intros ->. apply skipn_app_exact. Qed.
Lemma skipn_app_plus {A} n (x r : list A) : skipn (length x + n) (x ++ r) = skipn n r.
Proof.
  rewrite skipn_app. rewrite skipn_all2 by lia. replace (length x + n - length x)%nat with n by lia. reflexivity.
Qed.
Lemma nth_app_exact {A} (d : A) (x : list A) c r : nth (length x) (x ++ c :: r) d = c.
Proof. rewrite app_nth2 by lia. now rewrite Nat.sub_diag. Qed.

Lemma skipn_cons_nth {A} n (l : list A) (d : A) : (n < length l)%nat ->
  skipn n l = nth n l d :: skipn (S n) l.
Proof.
  revert l. induction n as [|n IH]; intros [|x l] H; cbn [length] in H; try lia; [reflexivity|].
  cbn [skipn nth]. apply IH. lia.
Qed.

(* blit in the middle part of X ++ B ++ Y *)
Lemma list_blit_mid X B Y i src : (i + length src <= length B)%nat ->
  list_blit (X ++ B ++ Y) (length X + i) src = X ++ list_blit B i src ++ Y.
Proof.
  intros H. unfold list_blit. rewrite firstn_app_2. rewrite <- app_assoc. f_equal.
  rewrite firstn_app. replace (i - length B)%nat with 0%nat by lia. cbn [firstn]. rewrite app_nil_r.
  rewrite <- !app_assoc. f_equal. f_equal.
  replace (length X + i + length src)%nat with (length X + (i + length src))%nat by lia.
  rewrite skipn_app_plus. rewrite skipn_app. f_equal.
  replace (i + length src - length B)%nat with 0%nat by lia. reflexivity.
Qed.
Lemma list_blit_all B B' : length B' = length B -> list_blit B 0 B' = B'.
Proof.
  intros H. unfold list_blit. cbn [firstn app Nat.add]. rewrite H, skipn_all. apply app_nil_r.
Qed.
Lemma list_blit_length l i src : (i + length src <= length l)%nat -> length (list_blit l i src) = length l.
Proof.
  intros H. unfold list_blit. rewrite !app_length, firstn_length, skipn_length. lia.
Qed.
(* blit over the part M of P ++ M ++ R *)
Lemma list_blit_app P Mi R src : length src = length Mi ->
  list_blit (P ++ Mi ++ R) (length P) src = P ++ src ++ R.
Proof.
  intros H. replace (length P) with (length P + 0)%nat by lia.
  rewrite list_blit_mid by lia. now rewrite list_blit_all.
Qed.

(* ------------------------------------------------------------------ heap *)
Lemma heap_set_length h a c : (a < length h)%nat -> length (heap_set h a c) = length h.
Proof. intros H. unfold heap_set. rewrite app_length. cbn [length]. rewrite firstn_length, skipn_length. lia. Qed.
Lemma heap_set_nth_same h a c : (a < length h)%nat -> nth a (heap_set h a c) [] = c.
Proof.
  intros H. unfold heap_set. rewrite app_nth2; rewrite firstn_length; [|lia].
  replace (a - Nat.min a (length h))%nat with 0%nat by lia. reflexivity.
Qed.
Lemma heap_set_set h a c d : (a < length h)%nat -> heap_set (heap_set h a c) a d = heap_set h a d.
Proof.
  intros H. unfold heap_set. rewrite firstn_app. rewrite firstn_firstn, Nat.min_id.
  rewrite firstn_length. replace (a - Nat.min a (length h))%nat with 0%nat by lia. cbn [firstn]. rewrite app_nil_r.
  f_equal. f_equal.
  replace (S a) with (length (firstn a h) + 1)%nat by (rewrite firstn_length; lia).
  rewrite skipn_app_plus. reflexivity.
Qed.
Lemma heap_set_same h a : (a < length h)%nat -> heap_set h a (nth a h []) = h.
Proof.
  intros H. unfold heap_set. rewrite <- (firstn_skipn a h) at 4. f_equal.
  rewrite (skipn_cons_nth a h []) by exact H. reflexivity.
Qed.

(* ------------------------------------------------------------------ valid slices *)
(* the array of a valid slice is  X ++ bytes ++ Y  with |X| = offset *)
Lemma sl_valid_split w s : sl_valid w s ->
  exists X Y, arr_of w (sl_arr s) = X ++ sl_bytes w s ++ Y /\ length X = Z.to_nat (sl_off s)
              /\ length (sl_bytes w s) = Z.to_nat (sl_len s).
Proof.
  intros (Ha & Ho & Hl & Hc). unfold sl_bytes. set (arr := arr_of w (sl_arr s)) in *.
  exists (firstn (Z.to_nat (sl_off s)) arr), (skipn (Z.to_nat (sl_len s)) (skipn (Z.to_nat (sl_off s)) arr)).
  rewrite firstn_skipn, firstn_skipn. split; [reflexivity|]. rewrite !firstn_length, skipn_length. lia.
Qed.

Lemma sl_bytes_length w s : sl_valid w s -> length (sl_bytes w s) = Z.to_nat (sl_len s).
Proof. intros H. destruct (sl_valid_split w s H) as (X & Y & _ & _ & E). exact E. Qed.

Lemma arr_of_blit w s i src : (sl_arr s < length (w_heap w))%nat ->
  arr_of (sl_blit w s i src) (sl_arr s) = list_blit (arr_of w (sl_arr s)) (Z.to_nat (sl_off s + i)) src.
Proof. intros H. unfold sl_blit, arr_of. cbn [w_heap]. now rewrite heap_set_nth_same. Qed.

(* a blit inside a valid slice, in canonical form *)
Lemma sl_blit_put w s i src : sl_valid w s -> 0 <= i -> i + go_len src <= sl_len s ->
  sl_blit w s i src = sl_put w s (list_blit (sl_bytes w s) (Z.to_nat i) src).
Proof.
  intros Hv Hi Hs. destruct (sl_valid_split w s Hv) as (X & Y & E & EX & EB).
  destruct Hv as (Ha & Ho & Hl & Hc). unfold go_len in Hs.
  unfold sl_put, sl_blit. f_equal. f_equal. rewrite E.
  replace (Z.to_nat (sl_off s + i)) with (length X + Z.to_nat i)%nat by lia.
  rewrite list_blit_mid by lia.
  replace (Z.to_nat (sl_off s + 0)) with (length X) by lia.
  rewrite list_blit_app; [reflexivity|]. rewrite list_blit_length; lia.
Qed.

Lemma sl_bytes_put w s bs : sl_valid w s -> go_len bs = sl_len s -> sl_bytes (sl_put w s bs) s = bs.
Proof.
  intros Hv Hb. destruct (sl_valid_split w s Hv) as (X & Y & E & EX & EB).
  destruct Hv as (Ha & Ho & Hl & Hc). unfold go_len in Hb.
  unfold sl_bytes at 1. unfold sl_put. rewrite arr_of_blit by exact Ha. rewrite E.
  replace (Z.to_nat (sl_off s + 0)) with (length X) by lia.
  rewrite list_blit_app by lia. rewrite skipn_app_n by lia. apply firstn_app_n. lia.
Qed.

Lemma sl_put_put w s a b : sl_valid w s -> go_len a = sl_len s -> go_len b = sl_len s ->
  sl_put (sl_put w s a) s b = sl_put w s b.
Proof.
  intros Hv Ea Eb. destruct (sl_valid_split w s Hv) as (X & Y & E & EX & EB).
  destruct Hv as (Ha & Ho & Hl & Hc). unfold go_len in *.
  unfold sl_put. unfold sl_blit at 1. rewrite arr_of_blit by exact Ha.
  unfold sl_blit. cbn [w_heap w_out]. rewrite heap_set_set by exact Ha. f_equal. f_equal.
  rewrite E. replace (Z.to_nat (sl_off s + 0)) with (length X) by lia.
  rewrite list_blit_app by lia. rewrite !list_blit_app by lia. reflexivity.
Qed.

Lemma sl_put_same w s : sl_valid w s -> sl_put w s (sl_bytes w s) = w.
Proof.
  intros Hv. destruct (sl_valid_split w s Hv) as (X & Y & E & EX & EB).
  destruct Hv as (Ha & Ho & Hl & Hc). unfold sl_put, sl_blit.
  replace (list_blit (arr_of w (sl_arr s)) (Z.to_nat (sl_off s + 0)) (sl_bytes w s)) with (arr_of w (sl_arr s)).
  - unfold arr_of. rewrite heap_set_same by exact Ha. destruct w; reflexivity.
  - rewrite E at 2. replace (Z.to_nat (sl_off s + 0)) with (length X) by lia.
    rewrite list_blit_app by reflexivity. exact E.
Qed.

(* a put keeps every slice valid (arrays keep their lengths) *)
Lemma sl_valid_put w s bs s' : sl_valid w s -> go_len bs = sl_len s -> sl_valid w s' -> sl_valid (sl_put w s bs) s'.
Proof.
  intros Hv Eb Hv'. destruct (sl_valid_split w s Hv) as (X & Y & E & EX & EB).
  destruct Hv as (Ha & Ho & Hl & Hc). destruct Hv' as (Ha' & Ho' & Hl' & Hc'). unfold go_len in *.
  unfold sl_valid. unfold sl_put, sl_blit. cbn [w_heap]. rewrite heap_set_length by exact Ha.
  repeat split; try lia.
  destruct (Nat.eq_dec (sl_arr s') (sl_arr s)) as [Eq|Ne].
  - rewrite Eq in *. unfold arr_of at 1. cbn [w_heap]. rewrite heap_set_nth_same by exact Ha.
    rewrite list_blit_length; [exact Hc'|]. rewrite E, !app_length. lia.
  - unfold arr_of at 1. cbn [w_heap]. unfold heap_set.
    assert (Hn : nth (sl_arr s') (firstn (sl_arr s) (w_heap w) ++ list_blit (arr_of w (sl_arr s)) (Z.to_nat (sl_off s + 0)) bs
                                     :: skipn (S (sl_arr s)) (w_heap w)) [] = nth (sl_arr s') (w_heap w) []).
    { rewrite <- (firstn_skipn (sl_arr s) (w_heap w)) at 3.
      destruct (Nat.lt_ge_cases (sl_arr s') (sl_arr s)) as [Hlt|Hge].
      - rewrite !app_nth1 by (rewrite firstn_length; lia). reflexivity.
      - rewrite !app_nth2 by (rewrite firstn_length; lia). rewrite firstn_length.
        replace (Nat.min (sl_arr s) (length (w_heap w))) with (sl_arr s) by lia.
        rewrite (skipn_cons_nth (sl_arr s) (w_heap w) []) by exact Ha.
        destruct (sl_arr s' - sl_arr s)%nat as [|k] eqn:Ek; [lia|]. reflexivity. }
    rewrite Hn. exact Hc'.
Qed.

(* the explicit shape of a put *)
Lemma sl_put_heap w s bs : sl_valid w s -> go_len bs = sl_len s ->
  sl_put w s bs =
  mk_world (heap_set (w_heap w) (sl_arr s)
              (firstn (Z.to_nat (sl_off s)) (arr_of w (sl_arr s)) ++ bs
               ++ skipn (Z.to_nat (sl_off s + sl_len s)) (arr_of w (sl_arr s))))
           (w_out w).
Proof.
  intros Hv Eb. destruct Hv as (Ha & Ho & Hl & Hc). unfold go_len in *.
  unfold sl_put, sl_blit, list_blit. repeat f_equal; lia.
Qed.

(* sub-slices: same array, offset shifted by j *)
Lemma sl_blit_sub w s c j k src : sl_arr c = sl_arr s -> sl_off c = sl_off s + j ->
  sl_blit w c k src = sl_blit w s (j + k) src.
Proof.
  intros Ea Eo. unfold sl_blit. rewrite Ea, Eo.
  replace (sl_off s + j + k) with (sl_off s + (j + k)) by lia. reflexivity.
Qed.

Lemma sl_bytes_sub w s c j : sl_valid w s -> sl_arr c = sl_arr s -> sl_off c = sl_off s + j ->
  0 <= j -> 0 <= sl_len c -> j + sl_len c <= sl_len s ->
  sl_bytes w c = firstn (Z.to_nat (sl_len c)) (skipn (Z.to_nat j) (sl_bytes w s)).
Proof.
  intros Hv Ea Eo Hj Hl Hs. destruct (sl_valid_split w s Hv) as (X & Y & E & EX & EB).
  destruct Hv as (Ha & Ho & Hl' & Hc).
  unfold sl_bytes at 1. rewrite Ea, Eo, E.
  replace (Z.to_nat (sl_off s + j)) with (length X + Z.to_nat j)%nat by lia.
  rewrite skipn_app_plus. rewrite skipn_app. rewrite firstn_app.
  replace (Z.to_nat (sl_len c) - length (skipn (Z.to_nat j) (sl_bytes w s)))%nat with 0%nat
    by (rewrite skipn_length; lia).
  cbn [firstn]. apply app_nil_r.
Qed.

(* ------------------------------------------------------------------ the checked accesses *)
Lemma m_index_ok w s i : sl_valid w s -> 0 <= i < sl_len s ->
  m_index s i w = Ok (nth (Z.to_nat i) (sl_bytes w s) 0, w).
Proof.
  intros Hv Hi. destruct (sl_valid_split w s Hv) as (X & Y & E & EX & EB).
  destruct Hv as (Ha & Ho & Hl & Hc). unfold m_index.
  replace ((0 <=? i) && (i <? sl_len s)) with true by lia. f_equal. f_equal.
  rewrite E. replace (Z.to_nat (sl_off s + i)) with (length X + Z.to_nat i)%nat by lia.
  rewrite app_nth2_plus. apply app_nth1. lia.
Qed.

Lemma m_store_ok w s i v : 0 <= i < sl_len s -> m_store s i v w = Ok (tt, sl_blit w s i [v]).
Proof. intros Hi. unfold m_store. now replace ((0 <=? i) && (i <? sl_len s)) with true by lia. Qed.

Lemma m_slice_ok w s i j : 0 <= i <= j -> j <= sl_cap s ->
  m_slice s i j w = Ok (mk_slice (sl_arr s) (sl_off s + i) (j - i) (sl_cap s - i), w).
Proof. intros H1 H2. unfold m_slice. now replace ((0 <=? i) && (i <=? j) && (j <=? sl_cap s)) with true by lia. Qed.

Lemma m_get_uint_ok big k w s : Z.of_nat k <= sl_len s ->
  m_get_uint big k s w = Ok ((if big then be_val_z (firstn k (sl_bytes w s)) else le_val_z (firstn k (sl_bytes w s))), w).
Proof. intros H. unfold m_get_uint. now replace (Z.of_nat k <=? sl_len s) with true by lia. Qed.

Lemma m_put_uint_ok big k w s v : Z.of_nat k <= sl_len s ->
  m_put_uint big k s v w = Ok (tt, sl_blit w s 0 (if big then be_bytes_z k v else le_bytes_z k v)).
Proof. intros H. unfold m_put_uint. now replace (Z.of_nat k <=? sl_len s) with true by lia. Qed.

Lemma le_bytes_z_length k : forall v, length (le_bytes_z k v) = k.
Proof. induction k as [|k IH]; intros v; cbn [le_bytes_z length]; [reflexivity|]. now rewrite IH. Qed.
Lemma be_bytes_z_length k v : length (be_bytes_z k v) = k.
Proof. unfold be_bytes_z. rewrite rev_length. apply le_bytes_z_length. Qed.

(* a freshly made slice is valid, and older slices stay valid *)
Lemma sl_valid_grow w s c out : sl_valid w s -> sl_valid (mk_world (w_heap w ++ [c]) out) s.
Proof.
  intros (Ha & Ho & Hl & Hc). unfold sl_valid, arr_of. cbn [w_heap]. rewrite app_length. cbn [length].
  repeat split; try lia. rewrite app_nth1 by exact Ha. exact Hc.
Qed.
