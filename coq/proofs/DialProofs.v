(* DialProofs.v — proofs about model/DialLTS.v.

   Method.  The product (LTS state x monitor state) has finitely many reachable
   states (the number of handshake I/O operations is unbounded in the runs, the
   counter in the state saturates).  [T] is a table of product states; the kernel
   checks by computation that it contains every initial state and is closed under
   every label ([T_closed]); LTS.reach_in_table then shows by induction over the
   run — of ANY length, any interleaving — that every reachable state is in T.
   Each safety fact is a boolean predicate checked on every state of T and then
   read back as a Prop.  Nothing here is a bounded exploration: closure + induction
   covers all runs. *)
From Coq Require Import List Bool Arith Lia PArith NArith FMapPositive.
Require Import LTS DialLTS DialTable.
Import ListNotations.

(* ---------- safety at return ---------- *)
Definition success_clean_b (p : pstate) : bool :=
  let s := p_s p in
  match returned s with
  | Some ENil => s_conn s && negb (s_closed s) && dlk_eqb (s_dl s) DNone && negb (s_wctx s)
  | _ => true
  end.

Lemma success_clean : forall c tr s, run step (init c) tr s -> returned s = Some ENil ->
  s_conn s = true /\ s_closed s = false /\ s_dl s = DNone /\ s_wctx s = false.
Proof.
  intros c tr s Hr Hret. table_check success_clean_b.
  specialize (H _ (reach_T_state _ _ _ Hr)). unfold success_clean_b in H. simpl in H.
  rewrite Hret in H.
  destruct (s_conn s), (s_closed s), (s_dl s), (s_wctx s); simpl in H; try discriminate; auto.
Qed.

(* once returned: stays returned with the same error, and no enabled step touches the conn *)
Definition quiescent_b (p : pstate) : bool :=
  let s := p_s p in
  match returned s with
  | Some e =>
      forallb (fun l => match step s l with
                        | Some s' => negb (touches_conn l) &&
                                     match returned s' with Some e' => derr_eqb e e' | None => false end
                        | None => true
                        end) all_labels
  | None => true
  end.

Lemma derr_eqb_eq : forall a b, derr_eqb a b = true -> a = b.
Proof. intros a b; destruct a, b; simpl; intros; try discriminate; reflexivity. Qed.

Lemma quiescent_step : forall p e l s', inT p -> returned (p_s p) = Some e -> step (p_s p) l = Some s' ->
  touches_conn l = false /\ returned s' = Some e.
Proof.
  intros p e l s' Hin Hret Hs. table_check quiescent_b.
  specialize (H _ Hin). unfold quiescent_b in H. rewrite Hret in H. rewrite forallb_forall in H.
  specialize (H l (all_labels_complete l)). rewrite Hs in H.
  apply andb_true_iff in H. destruct H as [H1 H2].
  split; [destruct (touches_conn l); [discriminate|reflexivity]|].
  destruct (returned s') as [e'|]; [|discriminate]. apply derr_eqb_eq in H2. subst; reflexivity.
Qed.

Lemma never_touched_again_gen : forall p tr p', run pstep p tr p' -> inT p ->
  forall e, returned (p_s p) = Some e ->
  Forall (fun l => touches_conn l = false) tr /\ returned (p_s p') = Some e.
Proof.
  intros p tr p' H; induction H as [|p l p1 tr p2 Hs Hr IH]; intros Hin e Hret.
  - split; [constructor|assumption].
  - assert (Hin1 : inT p1) by (eapply T_step; eauto).
    unfold pstep in Hs. destruct (step (p_s p) l) as [s1|] eqn:Hst; [|discriminate].
    inversion Hs; subst p1; clear Hs.
    destruct (quiescent_step _ _ _ _ Hin Hret Hst) as [Ht Hr1].
    destruct (IH Hin1 e Hr1) as [Ha Hb]. split; [constructor; assumption|assumption].
Qed.

Lemma never_touched_again : forall c tr1 s1 e tr2 s2,
  run step (init c) tr1 s1 -> returned s1 = Some e -> run step s1 tr2 s2 ->
  Forall (fun l => touches_conn l = false) tr2 /\ returned s2 = Some e.
Proof.
  intros c tr1 s1 e tr2 s2 H1 Hret H2.
  pose proof (reach_T_state _ _ _ H1) as Hin.
  pose proof (lift_run_gen _ _ _ H2 (mon_run c (filter visible tr1))) as H2'.
  exact (never_touched_again_gen _ _ _ H2' Hin e Hret).
Qed.

Definition error_closed_b (p : pstate) : bool :=
  let s := p_s p in
  match returned s with
  | Some ENil | None => true
  | Some _ => if s_conn s then s_closed s else true
  end.

Lemma error_closed : forall c tr s e, run step (init c) tr s -> returned s = Some e -> e <> ENil ->
  s_conn s = true -> s_closed s = true.
Proof.
  intros c tr s e Hr Hret Hne Hc. table_check error_closed_b.
  specialize (H _ (reach_T_state _ _ _ Hr)). unfold error_closed_b in H. simpl in H.
  rewrite Hret, Hc in H. destruct e; auto; congruence.
Qed.

(* a failure without a conn is a dial-phase failure: Upgrade never ran *)
Definition noconn_b (p : pstate) : bool :=
  let s := p_s p in
  match returned s with
  | Some _ => if s_conn s then true else match s_hs s with HNone => negb (derr_eqb (s_err s) ENil) | _ => false end
  | None => true
  end.
Lemma noconn_is_dial_failure : forall c tr s e, run step (init c) tr s -> returned s = Some e ->
  s_conn s = false -> s_hs s = HNone /\ e <> ENil.
Proof.
  intros c tr s e Hr Hret Hc. table_check noconn_b.
  specialize (H _ (reach_T_state _ _ _ Hr)). unfold noconn_b in H. simpl in H.
  rewrite Hret, Hc in H. unfold returned in Hret. destruct (s_pc s); try discriminate.
  inversion Hret; subst e. destruct (s_hs s); [|discriminate]. split; auto.
  destruct (s_err s); simpl in H; congruence.
Qed.

(* ---------- the error mapping ---------- *)
Definition cstate_eqb (a b : cstate) : bool :=
  match a, b with CLive, CLive | CCanceled, CCanceled | CExpired, CExpired => true | _, _ => false end.

Definition ctx_error_b (p : pstate) : bool :=
  let s := p_s p in
  match returned s with
  | Some e =>
      if is_bg (s_cfg s) then
        (* fast path: no mapping; the watcher does not exist *)
        match s_hs s with HRes h => derr_eqb e h | HNone => true end
      else
      match s_hs s with
      | HRes EIoTimeout =>
          ended (s_dctx_at_hs s) && derr_eqb e (cerr (s_dctx s)) && negb (derr_eqb e ENil) && s_wctx s
      | HRes ENil =>
          (derr_eqb e ENil && negb (s_wctx s)) ||
          (derr_eqb e (cerr (s_dctx s)) && negb (derr_eqb e ENil) && s_wctx s)
      | HRes h => derr_eqb e h
      | HNone => true
      end
  | None => true
  end.

Lemma ctx_error : forall c tr s e, run step (init c) tr s -> returned s = Some e -> is_bg c = false ->
  (s_hs s = HRes EIoTimeout ->
     ended (s_dctx_at_hs s) = true /\ e = cerr (s_dctx s) /\ e <> ENil /\ s_wctx s = true) /\
  (s_hs s = HRes ENil ->
     (e = ENil /\ s_wctx s = false) \/ (e = cerr (s_dctx s) /\ e <> ENil /\ s_wctx s = true)) /\
  (s_hs s = HRes EOther -> e = EOther).
Proof.
  intros c tr s e Hr Hret Hbg. table_check ctx_error_b.
  specialize (H _ (reach_T_state _ _ _ Hr)). unfold ctx_error_b in H. simpl in H.
  rewrite Hret in H. rewrite (run_cfg _ _ _ Hr) in H. simpl in H. rewrite Hbg in H.
  split; [|split].
  - intros Hh. rewrite Hh in H.
    apply andb_true_iff in H; destruct H as [H Hw].
    apply andb_true_iff in H; destruct H as [H Hn].
    apply andb_true_iff in H; destruct H as [He Hq].
    apply derr_eqb_eq in Hq. repeat split; auto.
    intros E; rewrite E in Hn; discriminate.
  - intros Hh. rewrite Hh in H. apply orb_true_iff in H. destruct H as [H|H].
    + left. apply andb_true_iff in H. destruct H as [H1 H2]. split; [apply derr_eqb_eq; assumption|].
      destruct (s_wctx s); [discriminate|reflexivity].
    + right.
      apply andb_true_iff in H; destruct H as [H Hw].
      apply andb_true_iff in H; destruct H as [Hq Hn].
      apply derr_eqb_eq in Hq. repeat split; auto.
      intros E; rewrite E in Hn; discriminate.
  - intros Hh. rewrite Hh in H. apply derr_eqb_eq; assumption.
Qed.

(* a conn that the watcher poisoned is never handed out: the error is dialctx's *)
Definition poisoned_b (p : pstate) : bool :=
  let s := p_s p in
  match returned s with
  | Some e =>
      if s_wctx s then
        match s_hs s with
        | HRes EOther => derr_eqb e EOther
        | _ => derr_eqb e (cerr (s_dctx s)) && negb (derr_eqb e ENil)
        end && s_closed s
      else true
  | None => true
  end.

Lemma poisoned_never_returned : forall c tr s e, run step (init c) tr s -> returned s = Some e ->
  s_wctx s = true -> e <> ENil /\ s_closed s = true /\ (s_hs s <> HRes EOther -> e = cerr (s_dctx s)).
Proof.
  intros c tr s e Hr Hret Hw. table_check poisoned_b.
  specialize (H _ (reach_T_state _ _ _ Hr)). unfold poisoned_b in H. simpl in H.
  rewrite Hret, Hw in H. apply andb_true_iff in H. destruct H as [H Hc].
  destruct (s_hs s) as [|h]; [|destruct h];
    try (apply andb_true_iff in H; destruct H as [H1 H2]; apply derr_eqb_eq in H1;
         repeat split; auto; intros He; rewrite He in H2; discriminate).
  apply derr_eqb_eq in H. subst e. repeat split; auto; congruence.
Qed.

(* dialctx vs ctx: dialctx is ctx unless a timer exists; it ends no later than ctx; its
   error is ctx's unless the timer fired first *)
Definition dctx_b (p : pstate) : bool :=
  let s := p_s p in
  (if has_timer (s_cfg s) then true else cstate_eqb (s_dctx s) (s_ctx s)) &&
  (if ended (s_ctx s) then ended (s_dctx s) else true) &&
  (match s_dctx s with CCanceled => cstate_eqb (s_ctx s) CCanceled | _ => true end) &&
  (if ended (s_ctx s) then match s_timer s with TFired => true | _ => cstate_eqb (s_dctx s) (s_ctx s) end else true) &&
  (if ended (s_dctx s) then ended (s_ctx s) || match s_timer s with TFired => true | _ => false end else true) &&
  (match s_timer s with TFired => ended (s_dctx s) | _ => true end).

Lemma cstate_eqb_eq : forall a b, cstate_eqb a b = true -> a = b.
Proof. intros a b; destruct a, b; simpl; intros; try discriminate; reflexivity. Qed.

Lemma dctx_relation : forall c tr s, run step (init c) tr s ->
  (has_timer c = false -> s_dctx s = s_ctx s) /\
  (ended (s_ctx s) = true -> ended (s_dctx s) = true) /\
  (s_dctx s = CCanceled -> s_ctx s = CCanceled) /\
  (ended (s_ctx s) = true -> s_timer s <> TFired -> s_dctx s = s_ctx s) /\
  (ended (s_dctx s) = true -> ended (s_ctx s) = true \/ s_timer s = TFired) /\
  (s_timer s = TFired -> ended (s_dctx s) = true).
Proof.
  intros c tr s Hr. table_check dctx_b.
  specialize (H _ (reach_T_state _ _ _ Hr)). unfold dctx_b in H. simpl in H.
  rewrite (run_cfg _ _ _ Hr) in H. simpl in H.
  repeat (apply andb_true_iff in H; destruct H as [H ?]).
  repeat split.
  - intros Ht. rewrite Ht in H. apply cstate_eqb_eq; assumption.
  - intros He. rewrite He in H4. assumption.
  - intros Hd. rewrite Hd in H3. apply cstate_eqb_eq; assumption.
  - intros He Ht. rewrite He in H2. destruct (s_timer s); try congruence; apply cstate_eqb_eq; assumption.
  - intros He. rewrite He in H1. apply orb_true_iff in H1. destruct H1 as [H1|H1]; [left; assumption|].
    right. destruct (s_timer s); try discriminate; reflexivity.
  - intros Ht. rewrite Ht in H0. assumption.
Qed.

(* ---------- the watcher has finished ---------- *)
Definition watcher_done_b (p : pstate) : bool :=
  let s := p_s p in
  match returned s with
  | Some _ =>
      match s_intr s with IEmpty => true | _ => false end &&
      (if is_bg (s_cfg s) || negb (s_conn s) then w_is WNone s else w_is WDone s)
  | None => true
  end.

Lemma watcher_finished : forall c tr s e, run step (init c) tr s -> returned s = Some e ->
  s_intr s = IEmpty /\
  (is_bg c = true \/ s_conn s = false -> s_w s = WNone) /\
  (is_bg c = false -> s_conn s = true -> s_w s = WDone).
Proof.
  intros c tr s e Hr Hret. table_check watcher_done_b.
  specialize (H _ (reach_T_state _ _ _ Hr)). unfold watcher_done_b in H. simpl in H.
  rewrite Hret in H. rewrite (run_cfg _ _ _ Hr) in H. simpl in H.
  apply andb_true_iff in H. destruct H as [H1 H2].
  split; [destruct (s_intr s); [reflexivity|discriminate]|].
  unfold w_is in H2. split.
  - intros [Hb|Hc]; [rewrite Hb in H2|rewrite Hc in H2; rewrite orb_true_r in H2];
      simpl in H2; destruct (s_w s); try discriminate; reflexivity.
  - intros Hb Hc. rewrite Hb, Hc in H2. simpl in H2. destruct (s_w s); try discriminate; reflexivity.
Qed.

(* ---------- the monitor never fires on a run of the model ---------- *)
Definition verdict_ok_b (p : pstate) : bool :=
  match m_verdict (p_m p) with VOk => true | _ => false end.

Lemma monitor_sound : forall c tr s, run step (init c) tr s -> monitor c (filter visible tr) = VOk.
Proof.
  intros c tr s Hr. table_check verdict_ok_b.
  specialize (H _ (reach_T_state _ _ _ Hr)). unfold verdict_ok_b in H. simpl in H.
  unfold monitor. destruct (m_verdict (mon_run c (filter visible tr))); try discriminate; reflexivity.
Qed.

(* ---------- progress ---------- *)
Definition progress_b (p : pstate) : bool :=
  let s := p_s p in
  if blocked_and_due s then can_return s && must_return s else true.

Lemma sched_system : forall s l, sched s = Some l -> In l system_labels.
Proof. intros s l H. unfold sched in H. apply find_some in H. tauto. Qed.

Lemma is_system_in : forall l, is_system l = true -> In l system_labels.
Proof.
  intros l H. unfold is_system in H. apply existsb_exists in H. destruct H as [x [Hx He]].
  apply internal_label_dec_bl in He. subst; assumption.
Qed.
Lemma in_is_system : forall l, In l system_labels -> is_system l = true.
Proof.
  intros l H. unfold is_system. apply existsb_exists. exists l. split; auto.
  apply internal_label_dec_lb; reflexivity.
Qed.

Lemma progress_exists : forall c tr s, run step (init c) tr s ->
  s_pc s = MBlocked -> (ended (s_ctx s) = true \/ s_timer s = TFired) ->
  exists tr' s', run step s tr' s' /\ is_returned s' = true /\ Forall (fun l => In l system_labels) tr'.
Proof.
  intros c tr s Hr Hpc Hdue. table_check progress_b.
  specialize (H _ (reach_T_state _ _ _ Hr)). unfold progress_b in H. simpl in H.
  assert (Hb : blocked_and_due s = true).
  { unfold blocked_and_due, pc_is. rewrite Hpc. destruct Hdue as [Hd|Hd]; rewrite Hd; simpl; auto using orb_true_r. }
  rewrite Hb in H. apply andb_true_iff in H. destruct H as [H _].
  unfold can_return in H.
  destruct (@LTS.can_reach_sound _ _ step is_returned sched is_system) with (n := pfuel) (s := s)
    as [tr' [s' [Hr' [Hg [Hall _]]]]].
  - intros s0 l Hs. apply in_is_system. eapply sched_system; eauto.
  - exact H.
  - exists tr', s'. repeat split; auto. eapply Forall_impl; [|exact Hall].
    intros a Ha. apply is_system_in; assumption.
Qed.

(* every maximal sequence of system steps returns within pfuel steps, and none deadlocks before *)
Lemma progress_inevitable : forall c tr s, run step (init c) tr s ->
  s_pc s = MBlocked -> (ended (s_ctx s) = true \/ s_timer s = TFired) ->
  (exists l s', In l system_labels /\ step s l = Some s') /\
  (forall tr' s', run step s tr' s' -> Forall (fun l => In l system_labels) tr' -> length tr' = pfuel ->
     exists t1 t2 sm, tr' = t1 ++ t2 /\ run step s t1 sm /\ is_returned sm = true).
Proof.
  intros c tr s Hr Hpc Hdue. table_check progress_b.
  specialize (H _ (reach_T_state _ _ _ Hr)). unfold progress_b in H. simpl in H.
  assert (Hb : blocked_and_due s = true).
  { unfold blocked_and_due, pc_is. rewrite Hpc. destruct Hdue as [Hd|Hd]; rewrite Hd; simpl; auto using orb_true_r. }
  rewrite Hb in H. apply andb_true_iff in H. destruct H as [_ H].
  unfold must_return in H. apply LTS.must_reach_sound in H. destruct H as [H1 H2]. split; [|exact H2].
  destruct H1 as [H1|H1]; [|exact H1].
  unfold is_returned in H1. rewrite Hpc in H1. discriminate.
Qed.

(* ---------- the acceptor ---------- *)
Lemma acceptor_sound : forall c tr, accepts c tr = true ->
  exists full s, run step (init c) full s /\ filter visible full = tr.
Proof.
  intros c tr H. unfold accepts in H.
  eapply LTS.accepts_sound; eauto using state_beq_eq, hidden_invisible.
Qed.

Lemma accepted_trace_safe : forall c tr, accepts c tr = true -> monitor c tr = VOk.
Proof.
  intros c tr H. destruct (acceptor_sound _ _ H) as [full [s [Hr Hf]]]. subst tr.
  eapply monitor_sound; eauto.
Qed.

(* bound on chains of hidden steps *)
Definition hm (s : state) : nat :=
  (match s_pc s with
   | MStart | MDialing | MDialed => 6 | MIo | MBlocked => 3 | MUpRet => 2 | MWaitIntr => 1 | _ => 0 end) +
  (match s_w s with WSelect => 2 | WPoison | WSendCtx | WSendNil => 1 | _ => 0 end) +
  (if expirable (s_cfg s) && negb (ended (s_ctx s)) then 1 else 0) +
  (match s_timer s with TPending => 1 | _ => 0 end).

Definition hm_b (p : pstate) : bool :=
  let s := p_s p in
  (hm s <=? hfuel) &&
  forallb (fun l => match step s l with Some s' => hm s' <? hm s | None => true end) hidden_labels.

Definition reachS (s : state) : Prop := exists m, inT (mkP s m).

Lemma reachS_step : forall s l s', reachS s -> step s l = Some s' -> reachS s'.
Proof.
  intros s l s' [m Hin] Hs.
  exists (if visible l then mon_step (s_cfg s) m l else m).
  eapply T_step; eauto. unfold pstep; simpl. rewrite Hs. reflexivity.
Qed.

Lemma hm_props : forall s, reachS s ->
  hm s <= hfuel /\ (forall l s', In l hidden_labels -> step s l = Some s' -> hm s' < hm s).
Proof.
  intros s [m Hin]. table_check hm_b. specialize (H _ Hin). unfold hm_b in H. cbn [p_s] in H.
  apply andb_true_iff in H. destruct H as [H1 H2]. split; [apply Nat.leb_le; assumption|].
  intros l s' Hl Hs. rewrite forallb_forall in H2. specialize (H2 _ Hl). rewrite Hs in H2.
  apply Nat.ltb_lt; assumption.
Qed.

Lemma acceptor_complete : forall c full s, run step (init c) full s ->
  accepts c (filter visible full) = true /\ In s (accept_states c (filter visible full)).
Proof.
  intros c full s Hr.
  assert (Hin : In s (accept_states c (filter visible full))).
  { unfold accept_states.
    eapply (@LTS.accept_complete _ _ step state_beq state_beq_eq visible hidden_labels hidden_invisible
              reachS reachS_step hm) with (n := hfuel).
    - intros s0 l s' Hp Hl Hs. destruct (hm_props _ Hp) as [_ H]. eauto.
    - exact label_split.
    - intros s0 Hp. destruct (hm_props _ Hp) as [H _]. exact H.
    - exists m_init. eapply reach_T with (c := c) (tr := []). constructor.
    - exact Hr. }
  split; [|exact Hin]. unfold accepts, accept_states in *.
  unfold LTS.accepts.
  destruct (LTS.accept_states step state_beq visible hidden_labels hfuel (init c) (filter visible full));
    [destruct Hin|reflexivity].
Qed.

(* ---------- the cancellation/completion race: a reachable success after cancellation ---------- *)
Definition race_cfg := mkCfg CtxPlain false true.
Definition race_trace : list label :=
  [LDialStart; LDialOk; HSpawn; LIoStart GMain; LIoOk GMain; LIoStart GMain; LCtxCancel;
   LIoOk GMain; HHsFinish; HCloseQuit; HWSelQuit; HWSendNil; HRecvIntr; LRet ENil].

Lemma cancel_completion_race :
  exists s, run step (init race_cfg) race_trace s /\
            returned s = Some ENil /\ s_ctx s = CCanceled /\ s_dctx_at_hs s = CCanceled /\
            s_closed s = false /\ s_dl s = DNone.
Proof.
  destruct (LTS.exec step (init race_cfg) race_trace) as [s|] eqn:He; [|vm_compute in He; discriminate].
  exists s. split; [apply LTS.exec_run; exact He|].
  vm_compute in He. inversion He; subst s. vm_compute. repeat split; reflexivity.
Qed.
