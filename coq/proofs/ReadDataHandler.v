(* ReadDataHandler.v — the control-handler side of the ReadData theorem (C04/C08):
   1. the spec walk [rx_walk] without its accumulator ([rxw]);
   2. ControlHandler.Handle over a destination that never fails does not depend on
      what the destination received before: the same result, the same bytes appended
      (destination independence, from the writer-level DI of WriterResetOpProofs.v);
   3. one Handle call on a completely read control payload produces exactly the reply
      [rxw] asks for ([handle_payload_spec]), and a list of recorded control events is
      answered in order, stopping at the first close ([answer_events_spec]). *)
Require Import Bytes Stream Utf8Spec Check Frame Cipher Utf8Dfa Extracted Reader Writer Handler ReadData
  BytesProofs StreamProofs FrameProofs CipherProofs CheckProofs WriterProofs WriterInv WriterFrameProofs
  WriterHistProofs ControlWriterProofs WriterResetOpProofs HandlerProofs.
From Coq Require Import ZifyBool ZifyN ZifyNat.
Open Scope N_scope.

(* the wire bytes of a list of parsed frames (WriterFrameProofs.wire; Reader.wire is the
   sframe one) *)
Definition pwire (fs : list pframe) : list byte := WriterFrameProofs.wire fs.

Lemma pwire_nil : pwire [] = [].
Proof. reflexivity. Qed.
Lemma pwire_app a b : pwire (a ++ b) = pwire a ++ pwire b.
Proof. apply WriterFrameProofs.wire_app. Qed.
Lemma pwire_one f : pwire [f] = frame_bytes f.
Proof. unfold pwire, WriterFrameProofs.wire. cbn [map concat]. apply app_nil_r. Qed.
Lemma frames_of_pwire fs : Forall wf_pframe fs -> frames_of (pwire fs) = Some fs.
Proof. apply frames_of_wire. Qed.

(* ------------------------------------------------------------------ 1. the spec walk, accumulator-free *)
Definition close_reply (p : list byte) : xreply * rx_result :=
  match p with
  | [] => (mkXR 8 [] false, XClosed 1005 [])
  | _ =>
    let '(code, reason) := parse_close p in
    if (2 <=? len p) && match check_close code reason with None => true | Some _ => false end
    then (mkXR 8 (take 2 p) false, XClosed code reason)
    else (mkXR 8 [] true, XProto)
  end.

Fixpoint rxw (want : N) (evs : list event) : list xreply * option rx_result :=
  match evs with
  | [] => ([], None)
  | e :: r =>
    if ev_op e =? 9 then (mkXR 10 (ev_payload e) false :: fst (rxw want r), snd (rxw want r))
    else if ev_op e =? 10 then rxw want r
    else if ev_op e =? 8 then ([fst (close_reply (ev_payload e))], Some (snd (close_reply (ev_payload e))))
    else if negb (N.land (ev_op e) want =? 0) then ([], Some (XData (ev_op e) (ev_payload e)))
    else rxw want r
  end.

Lemma rx_walk_rxw want : forall evs acc,
  rx_walk want evs acc = (rev acc ++ fst (rxw want evs), snd (rxw want evs)).
Proof.
  induction evs as [|e r IH]; intros acc.
  - cbn [rx_walk rxw fst snd]. rewrite rev_append_rev. reflexivity.
  - cbn [rx_walk rxw]. destruct (ev_op e =? 9).
    { rewrite IH. cbn [fst snd rev]. rewrite <- app_assoc. reflexivity. }
    destruct (ev_op e =? 10); [apply IH|].
    destruct (ev_op e =? 8).
    { unfold close_reply. destruct (ev_payload e) as [|p0 pr].
      - cbn [fst snd]. rewrite rev_append_rev, app_nil_r. reflexivity.
      - destruct (parse_close (p0 :: pr)) as [code reason].
        destruct ((2 <=? len (p0 :: pr)) && _); cbn [fst snd]; rewrite rev_append_rev, app_nil_r; reflexivity. }
    destruct (negb (N.land (ev_op e) want =? 0)); [|apply IH].
    cbn [fst snd]. rewrite rev_append_rev. reflexivity.
Qed.

Lemma rx_walk_nil want evs : rx_walk want evs [] = rxw want evs.
Proof. rewrite rx_walk_rxw. cbn [rev app]. destruct (rxw want evs); reflexivity. Qed.

(* the walk over a concatenation: the first part decides, or the second continues *)
Lemma rxw_app want : forall a b,
  rxw want (a ++ b) =
  match snd (rxw want a) with
  | Some x => rxw want a
  | None => (fst (rxw want a) ++ fst (rxw want b), snd (rxw want b))
  end.
Proof.
  induction a as [|e r IH]; intros b.
  - cbn [app rxw fst snd]. destruct (rxw want b); reflexivity.
  - cbn [app rxw]. destruct (ev_op e =? 9).
    { rewrite IH. cbn [fst snd]. destruct (rxw want r) as [xs [x|]]; reflexivity. }
    destruct (ev_op e =? 10); [apply IH|].
    destruct (ev_op e =? 8); [reflexivity|].
    destruct (negb (N.land (ev_op e) want =? 0)); [reflexivity|apply IH].
Qed.

Lemma xreplies_ok_app state : forall xs1 rf1 xs2 rf2,
  xreplies_ok state xs1 rf1 = true -> xreplies_ok state xs2 rf2 = true ->
  xreplies_ok state (xs1 ++ xs2) (rf1 ++ rf2) = true.
Proof.
  induction xs1 as [|x xs1 IH]; intros [|f rf1] xs2 rf2 H1 H2; cbn [xreplies_ok app] in *; try discriminate.
  - exact H2.
  - apply andb_true_iff in H1. destruct H1 as [H1 H3]. rewrite H1. cbn [andb]. apply IH; assumption.
Qed.

(* ------------------------------------------------------------------ 2. destination independence of Handle *)
Definition credest (c : cwriter) (d : dest) : cwriter := mkCtl (redest (c_w c) d) (c_limit c) (c_n c).

Lemma control_write_DI p c : exists r c' ext, forall d, nf d ->
  control_write p (credest c d) = (r, credest c' (dpush ext d)).
Proof.
  unfold control_write. cbn [credest c_limit c_n c_w].
  destruct (c_limit c <? c_n c + len p).
  - exists (inr (0, Some WOverflow)), c, []. intros d Hd. rewrite dpush_nil by assumption. reflexivity.
  - destruct (write_DI p (c_w c)) as (r & w' & ext & H).
    exists r, (mkCtl w' (c_limit c) (c_n c + match r with inr (n, _) => n | inl _ => 0 end)), ext.
    intros d Hd. rewrite (H d Hd). reflexivity.
Qed.

Lemma control_flush_DI c : exists r c' ext, forall d, nf d ->
  control_flush (credest c d) = (r, credest c' (dpush ext d)).
Proof.
  unfold control_flush. cbn [credest c_limit c_n c_w].
  destruct (flush_DI (c_w c)) as (r & w' & ext & H).
  exists r, (mkCtl w' (c_limit c) (c_n c)), ext. intros d Hd. rewrite (H d Hd). reflexivity.
Qed.

Lemma copy_false pieces : forall c, fold_left copy_step pieces (Some c, false) = (Some c, false).
Proof. induction pieces as [|p r IH]; intros c; [reflexivity|]. cbn [fold_left copy_step]. apply IH. Qed.

Lemma copy_DI : forall pieces c, exists c' b ext, forall d, nf d ->
  fold_left copy_step pieces (Some (credest c d), true) = (Some (credest c' (dpush ext d)), b).
Proof.
  induction pieces as [|p r IH]; intros c.
  - exists c, true, []. intros d Hd. rewrite dpush_nil by assumption. reflexivity.
  - destruct (control_write_DI p c) as (res & c1 & ext1 & H1).
    assert (Hstep: exists b1, forall d, nf d ->
              copy_step (Some (credest c d), true) p = (Some (credest c1 (dpush ext1 d)), b1)).
    { destruct res as [pn|[n [e|]]].
      - exists false. intros d Hd. cbn [copy_step]. rewrite (H1 d Hd). reflexivity.
      - exists false. intros d Hd. cbn [copy_step]. rewrite (H1 d Hd). reflexivity.
      - exists true. intros d Hd. cbn [copy_step]. rewrite (H1 d Hd). reflexivity. }
    destruct Hstep as (b1 & Hstep). destruct b1.
    + destruct (IH c1) as (c2 & b & ext2 & H2). exists c2, b, (ext2 ++ ext1). intros d Hd.
      cbn [fold_left]. rewrite (Hstep d Hd), (H2 _ (dpush_nf ext1 d)), dpush_dpush. reflexivity.
    + exists c1, false, ext1. intros d Hd. cbn [fold_left]. rewrite (Hstep d Hd). apply copy_false.
Qed.

Lemma ncwb_DI state op n masks :
  (exists pn, forall d, new_control_writer_buffer d state op n masks = inl pn) \/
  (exists c0, forall d, new_control_writer_buffer d state op n masks = inr (credest c0 d)).
Proof.
  unfold new_control_writer_buffer, new_writer_buffer.
  set (rl := N.min n (125 + w_header_size state 125)).
  destruct (rl <=? reserve state rl).
  - left. exists PBufTooSmall. reflexivity.
  - right. exists (mkCtl (mkW dnil state op [] false rl (rl - reserve state rl) [] false 0 None masks)
                         (rl - reserve state rl) 0).
    reflexivity.
Qed.

Lemma write_empty_control_DI op state : exists ok ext, forall d, nf d ->
  write_empty_control op state d = (ok, dpush ext d).
Proof.
  unfold write_empty_control. destruct (write_header _) as [e|hb].
  - exists false, []. intros d Hd. rewrite dpush_nil by assumption. reflexivity.
  - exists true, [hb]. intros d Hd. apply dest_write_nf, Hd.
Qed.

Lemma close_with_protocol_error_DI state text masks : exists ok ext, forall d, nf d ->
  close_with_protocol_error state text masks d = (ok, dpush ext d).
Proof.
  unfold close_with_protocol_error. destruct (write_header _) as [e|hb].
  - exists false, []. intros d Hd. rewrite dpush_nil by assumption. reflexivity.
  - eexists true, [_; hb]. intros d Hd. rewrite dest_write_nf by assumption.
    rewrite dest_write_nf by apply dpush_nf. rewrite dpush_dpush. reflexivity.
Qed.

Theorem handle_DI state unmask h avail t cs masks : exists res ext, forall d, nf d ->
  handle state unmask h avail t cs masks d = (res, dpush ext d).
Proof.
  assert (Same: forall res, exists res' ext, forall d : dest, nf d -> (res, d) = (res' : hresult, dpush ext d)).
  { intros res. exists res, []. intros d Hd. rewrite dpush_nil by assumption. reflexivity. }
  destruct (h_op h =? 9) eqn:E9.
  { destruct (Z.to_N (h_len h) =? 0) eqn:En.
    - destruct (write_empty_control_DI 10 state) as (ok & ext & H).
      exists (if ok then HNil else HWriteErr), ext. intros d Hd. unfold handle. rewrite E9, En, (H d Hd). reflexivity.
    - assert (Hop: h_op h = 9) by lia. assert (Hn: Z.to_N (h_len h) <> 0) by lia.
      destruct (ncwb_DI state 10 (Z.to_N (h_len h) + w_header_size state (Z.to_N (h_len h))) masks)
        as [(pn & Hc)|(c0 & Hc)].
      + destruct (Same HPanic) as (r & ext & H). exists r, ext. intros d Hd.
        rewrite handle_copy_step by assumption. rewrite Hc. apply H, Hd.
      + destruct (read_source (Z.to_N (h_len h)) avail t unmask (h_mask h)) as [data e] eqn:Ers.
        destruct (copy_DI (chunk_by cs data) c0) as (c1 & b & ext1 & H1).
        destruct b.
        * destruct e as [e|].
          -- exists (HIoErr e), ext1. intros d Hd. rewrite handle_copy_step by assumption.
             rewrite Hc, Ers, (H1 d Hd). reflexivity.
          -- destruct (control_flush_DI c1) as (r2 & c2 & ext2 & H2).
             exists (match r2 with inr None => HNil | _ => HWriteErr end), (ext2 ++ ext1). intros d Hd.
             rewrite handle_copy_step by assumption.
             rewrite Hc, Ers, (H1 d Hd), (H2 _ (dpush_nf ext1 d)), dpush_dpush.
             destruct r2 as [pn|[e|]]; reflexivity.
        * exists HWriteErr, ext1. intros d Hd. rewrite handle_copy_step by assumption.
          rewrite Hc, Ers, (H1 d Hd). reflexivity. }
  destruct (h_op h =? 10) eqn:E10.
  { destruct (Z.to_N (h_len h) =? 0) eqn:En.
    - destruct (Same HNil) as (r & ext & H). exists r, ext. intros d Hd. unfold handle. rewrite E9, E10, En. apply H, Hd.
    - destruct (read_source (Z.to_N (h_len h)) avail t false (h_mask h)) as [data e] eqn:Ers.
      destruct (Same (match e with Some e => HIoErr e | None => HNil end)) as (r & ext & H).
      exists r, ext. intros d Hd. unfold handle. rewrite E9, E10, En, Ers. apply H, Hd. }
  destruct (h_op h =? 8) eqn:E8.
  2:{ destruct (Same HNotControl) as (r & ext & H). exists r, ext. intros d Hd. unfold handle. rewrite E9, E10, E8. apply H, Hd. }
  destruct (Z.to_N (h_len h) =? 0) eqn:En.
  { destruct (write_empty_control_DI 8 state) as (ok & ext & H).
    exists (if ok then HClosed 1005 [] else HWriteErr), ext. intros d Hd. unfold handle. rewrite E9, E10, E8, En, (H d Hd). reflexivity. }
  destruct (read_source (Z.to_N (h_len h)) avail t unmask (h_mask h)) as [data e] eqn:Ers.
  destruct e as [e|].
  { destruct (Same (HIoErr e)) as (r & ext & H). exists r, ext. intros d Hd. unfold handle. rewrite E9, E10, E8, En, Ers. apply H, Hd. }
  destruct (parse_close data) as [code reason] eqn:Epc.
  destruct (check_close code reason) as [ce|] eqn:Eck.
  { destruct (close_with_protocol_error_DI state (close_err_text ce) masks) as (ok & ext & H).
    exists (HProto ce), ext. intros d Hd. unfold handle. rewrite E9, E10, E8, En, Ers, Epc, Eck, (H d Hd). reflexivity. }
  destruct (ncwb_DI state 8 (Z.to_N (h_len h) + w_header_size state (Z.to_N (h_len h))) masks)
    as [(pn & Hc)|(c0 & Hc)].
  { destruct (Same HPanic) as (r & ext & H). exists r, ext. intros d Hd. unfold handle.
    rewrite E9, E10, E8, En, Ers, Epc, Eck, Hc. apply H, Hd. }
  destruct (control_write_DI (take 2 data) c0) as (r1 & c1 & ext1 & H1).
  assert (Hok: (exists n, r1 = inr (n, None)) \/ (forall n, r1 <> inr (n, None))).
  { destruct r1 as [pn|[n [e|]]]; [right; discriminate|right; discriminate|left; eexists; reflexivity]. }
  destruct Hok as [(n & ->)|Hno].
  - destruct (control_flush_DI c1) as (r2 & c2 & ext2 & H2).
    exists (match r2 with inr None => HClosed code reason | _ => HWriteErr end), (ext2 ++ ext1). intros d Hd.
    unfold handle. rewrite E9, E10, E8, En, Ers, Epc, Eck, Hc, (H1 d Hd), (H2 _ (dpush_nf ext1 d)), dpush_dpush.
    destruct r2 as [pn|[e|]]; reflexivity.
  - exists HWriteErr, ext1. intros d Hd.
    unfold handle. rewrite E9, E10, E8, En, Ers, Epc, Eck, Hc, (H1 d Hd).
    destruct r1 as [pn|[n [e|]]]; try reflexivity. exfalso. apply (Hno n). reflexivity.
Qed.

(* ------------------------------------------------------------------ 3. one Handle call gives the reply the walk asks for *)
Definition ctl_ev (e : event) : Prop :=
  (ev_op e = 8 \/ ev_op e = 9 \/ ev_op e = 10) /\ wf_bytes (ev_payload e) /\ len (ev_payload e) <= 125.

(* what a call must achieve for the single event [e] *)
Definition reply_for (state want : N) (e : event) (res : hresult) (bytes : list byte) : Prop :=
  exists rf, Forall wf_pframe rf /\ bytes = pwire rf /\
    xreplies_ok state (fst (rxw want [e])) rf = true /\
    match snd (rxw want [e]) with
    | None => res = HNil
    | Some x => res <> HNil /\ rx_result_matches (Some x) (RDHandler res) = true
    end.

Lemma xreply_ok_plain state f op body : reply_frame_ok state f = true -> h_op (pf_header f) = op ->
  pf_unmasked f = body -> xreplies_ok state [mkXR op body false] [f] = true.
Proof.
  intros Hok Hop Hun. cbn [xreplies_ok]. unfold xreply_ok. cbn [x_op x_payload x_any_proto].
  rewrite Hok, Hop, Hun, N.eqb_refl. cbn [andb]. rewrite andb_true_r. apply bytes_eqb_eq. reflexivity.
Qed.

Lemma handle_dnil_spec state want op p i cm masks :
  (state = 1 \/ state = 2) -> (op = 8 \/ op = 9 \/ op = 10) -> wf_bytes p -> len p <= 125 -> Forall wf_key masks ->
  let h := mkHeader true 0 op false zero_mask (Z.of_N (len p)) in
  exists res d', handle state false h p TEOF [] masks (mkDest [] None) = (res, d') /\
    reply_for state want (mkEv op p i cm) res (concat (dest_log d')).
Proof.
  intros Hst Hop Hp Hl Hm h.
  assert (Hho: h_op h = op) by reflexivity.
  assert (Hn: Z.to_N (h_len h) = len p) by (cbn [h h_len]; apply N2Z.id).
  unfold reply_for. cbn [rxw ev_op ev_payload fst snd].
  destruct (N.eq_dec (len p) 0) as [Hz|Hnz].
  - (* empty payload *)
    assert (Hpe: p = []) by (destruct p; [reflexivity|rewrite len_cons in Hz; lia]). subst p.
    destruct Hop as [-> |[-> | ->]]; unfold handle; rewrite Hho, Hn, Hz; cbn [N.eqb Pos.eqb close_reply fst snd].
    + rewrite (write_empty_control_frame state Hst 8 (or_introl eq_refl)).
      destruct (direct_frame_ok state Hst 8 zero_mask [] (or_introl eq_refl) zero_mask_wf ltac:(constructor) ltac:(rewrite len_nil; lia))
        as (Hwf & Hok & Hun & Ho).
      do 2 eexists. split; [reflexivity|]. exists [direct_frame state 8 zero_mask []].
      split; [constructor; [exact Hwf|constructor]|]. split.
      { unfold dest_log. cbn [d_calls rev_append concat]. rewrite pwire_one. apply app_nil_r. }
      split; [apply xreply_ok_plain; assumption|]. split; [discriminate|reflexivity].
    + rewrite (write_empty_control_frame state Hst 10 (or_intror eq_refl)).
      destruct (direct_frame_ok state Hst 10 zero_mask [] (or_intror eq_refl) zero_mask_wf ltac:(constructor) ltac:(rewrite len_nil; lia))
        as (Hwf & Hok & Hun & Ho).
      do 2 eexists. split; [reflexivity|]. exists [direct_frame state 10 zero_mask []].
      split; [constructor; [exact Hwf|constructor]|]. split.
      { unfold dest_log. cbn [d_calls rev_append concat]. rewrite pwire_one. apply app_nil_r. }
      split; [apply xreply_ok_plain; assumption|reflexivity].
    + do 2 eexists. split; [reflexivity|]. exists []. split; [constructor|]. repeat split; reflexivity.
  - (* payload of 1..125 bytes *)
    assert (Hn0: 0 < len p) by lia.
    pose proof (read_source_payload (len p) p false (h_mask h) Hn0 eq_refl Hp ltac:(discriminate)) as Hrs.
    cbv iota in Hrs.
    assert (Hne: p <> []) by (clear -Hn0; destruct p; [cbn in Hn0; lia|discriminate]).
    destruct Hop as [-> |[-> | ->]]; cbn [N.eqb Pos.eqb].
    + (* close *)
      unfold handle. rewrite Hho, Hn. cbn [N.eqb Pos.eqb]. replace (len p =? 0) with false by lia.
      rewrite Hrs. unfold close_reply.
      destruct (parse_close p) as [code reason] eqn:Epc.
      destruct (check_close code reason) as [ce|] eqn:Eck.
      * destruct (err_text_ok ce) as (Htw & Htl & _).
        destruct (close_with_protocol_error_frame state Hst (close_err_text ce) masks Htw Htl Hm) as (d' & Hcw & Hlog).
        rewrite Hcw.
        set (key := match masks with m :: _ => m | [] => zero_mask end) in *.
        assert (Hkey: wf_key key) by (subst key; destruct masks; [apply zero_mask_wf|inversion Hm; assumption]).
        destruct (direct_frame_ok state Hst 8 key (new_close_body 1002 (close_err_text ce)) (or_introl eq_refl) Hkey
                    (close_body_wf _ _ Htw) ltac:(rewrite close_body_len; lia)) as (Hwf & Hok & Hun & Ho).
        do 2 eexists. split; [reflexivity|].
        exists [direct_frame state 8 key (new_close_body 1002 (close_err_text ce))].
        split; [constructor; [exact Hwf|constructor]|]. split; [rewrite pwire_one; exact Hlog|].
        destruct p as [|p0 pr]; [congruence|]. rewrite andb_false_r. cbn [fst snd].
        split; [|split; [discriminate|reflexivity]].
        cbn [xreplies_ok]. unfold xreply_ok. cbn [x_op x_payload x_any_proto].
        rewrite Hok, Ho, Hun. rewrite close_body_parse by lia. reflexivity.
      * (* acceptable close frame: echo the status code *)
        destruct p as [|a [|b r]]; [congruence| |].
        { cbn [parse_close] in Epc. injection Epc as <- <-. vm_compute in Eck. discriminate. }
        cbn [parse_close] in Epc. injection Epc as <- <-.
        destruct (handler_ctl state 8 ltac:(lia) (len (a :: b :: r)) masks Hn0 Hl Hm) as (c0 & Hc0 & Hk0 & Hlim).
        rewrite Hc0.
        pose proof (control_write_ok (client_side state) 8 (take 2 (a :: b :: r)) c0 [] Hk0 ltac:(apply wf_bytes_take; assumption)) as Hcw.
        destruct (control_write (take 2 (a :: b :: r)) c0) as [res c1].
        assert (Ht2: take 2 (a :: b :: r) = [a; b]) by reflexivity. rewrite Ht2 in *.
        destruct Hcw as [(Hov & _)|(_ & -> & Hk1)].
        { rewrite (k_n _ _ _ _ Hk0), Hlim in Hov. rewrite !len_cons, len_nil in Hov. lia. }
        cbn [app] in Hk1.
        destruct (control_flush_frame state 8 c1 [a; b] Hk1 ltac:(discriminate)) as (f & c2 & Hfl & Hlog & Hwf & Hfin & Hrsv & Hopf & Hmk & Hun & Hlen).
        rewrite Hfl.
        do 2 eexists. split; [reflexivity|]. exists [f]. split; [constructor; [exact Hwf|constructor]|].
        split; [rewrite Hlog, pwire_one; cbn [concat]; apply app_nil_r|].
        replace (2 <=? len (a :: b :: r)) with true by (rewrite !len_cons; lia). cbn [andb fst snd].
        split.
        -- apply xreply_ok_plain; try assumption.
           apply (reply_frame_ok_of state Hst f Hwf Hfin Hrsv (or_introl Hopf) Hmk). rewrite Hlen. cbn. lia.
        -- split; [discriminate|]. cbn [rx_result_matches]. rewrite N.eqb_refl. apply bytes_eqb_eq. reflexivity.
    + (* ping: echo the payload in a pong *)
      rewrite handle_copy_step by (try assumption; lia). rewrite Hn.
      destruct (handler_ctl state 10 ltac:(lia) (len p) masks Hn0 Hl Hm) as (c0 & Hc0 & Hk0 & Hlim).
      rewrite Hc0, Hrs.
      destruct (copy_ok state 10 ltac:(lia) (chunk_by [] p) c0 [] Hk0) as (c1 & Hf & Hk1 & _).
      { pose proof (chunk_by_flat [] p) as Hfl.
        assert (G: forall cs, wf_bytes (concat cs) -> Forall wf_bytes cs).
        { induction cs as [|x xs IH]; intros Hc; [constructor|]. cbn [concat] in Hc. apply wf_bytes_app in Hc.
          destruct Hc. constructor; auto. }
        apply G. rewrite Hfl. assumption. }
      { rewrite chunk_by_flat, len_nil, Hlim. lia. }
      rewrite Hf. rewrite chunk_by_flat in Hk1. cbn [app] in Hk1.
      destruct (control_flush_frame state 10 c1 p Hk1 Hne) as (f & c2 & Hfl & Hlog & Hwf & Hfin & Hrsv & Hopf & Hmk & Hun & Hlen).
      rewrite Hfl.
      do 2 eexists. split; [reflexivity|]. exists [f]. split; [constructor; [exact Hwf|constructor]|].
      split; [rewrite Hlog, pwire_one; cbn [concat]; apply app_nil_r|].
      split; [|reflexivity]. apply xreply_ok_plain; try assumption.
      apply (reply_frame_ok_of state Hst f Hwf Hfin Hrsv (or_intror Hopf) Hmk). rewrite Hlen. assumption.
    + (* pong: nothing to send *)
      unfold handle. rewrite Hho, Hn. cbn [N.eqb Pos.eqb]. replace (len p =? 0) with false by lia.
      rewrite Hrs. do 2 eexists. split; [reflexivity|]. exists []. split; [constructor|]. repeat split; reflexivity.
Qed.

(* the same on a destination that already holds earlier replies *)
Lemma handle_payload_spec state want e masks d :
  (state = 1 \/ state = 2) -> ctl_ev e -> Forall wf_key masks -> nf d ->
  exists res d' masks' bytes, handle_payload state (ev_op e) (ev_payload e) masks d = (res, d', masks') /\
    nf d' /\ Forall wf_key masks' /\ concat (dest_log d') = concat (dest_log d) ++ bytes /\
    reply_for state want e res bytes.
Proof.
  intros Hst (Hop & Hp & Hl) Hm Hd. destruct e as [op p i cm]. cbn [ev_op ev_payload] in *.
  destruct (handle_dnil_spec state want op p i cm masks Hst Hop Hp Hl Hm) as (res & d0 & H0 & Hr).
  cbv zeta in H0.
  destruct (handle_DI state false (mkHeader true 0 op false zero_mask (Z.of_N (len p))) p TEOF [] masks)
    as (res' & ext & HDI).
  pose proof (HDI (mkDest [] None) eq_refl) as E0. rewrite H0 in E0. injection E0 as -> ->.
  unfold handle_payload. rewrite (HDI d Hd).
  do 4 eexists. split; [reflexivity|]. split; [apply dpush_nf|]. split.
  { destruct (client_side state && _); [|exact Hm]. destruct masks; [constructor|]. inversion Hm; assumption. }
  split; [|exact Hr]. rewrite !dest_log_dpush, concat_app. reflexivity.
Qed.

(* the recorded control events of one read/discard step, answered in order *)
Lemma answer_events_spec state want : (state = 1 \/ state = 2) -> forall evs masks d,
  Forall ctl_ev evs -> Forall wf_key masks -> nf d ->
  exists hr d' masks' rf, answer_events state evs masks d = (hr, d', masks') /\
    nf d' /\ Forall wf_key masks' /\ Forall wf_pframe rf /\
    concat (dest_log d') = concat (dest_log d) ++ pwire rf /\
    xreplies_ok state (fst (rxw want evs)) rf = true /\
    match snd (rxw want evs), hr with
    | None, None => True
    | Some x, Some res => rx_result_matches (Some x) (RDHandler res) = true
    | _, _ => False
    end.
Proof.
  intros Hst. induction evs as [|e r IH]; intros masks d Hev Hm Hd.
  - exists None, d, masks, []. cbn [answer_events rxw fst snd]. repeat split; try assumption; try constructor.
    rewrite pwire_nil, app_nil_r. reflexivity.
  - inversion Hev as [|? ? He Hr]; subst.
    destruct (handle_payload_spec state want e masks d Hst He Hm Hd)
      as (res & d1 & masks1 & bytes & Hh & Hd1 & Hm1 & Hlog1 & (rf1 & Hwf1 & -> & Hx1 & Hres1)).
    cbn [answer_events]. rewrite Hh.
    change (e :: r) with ([e] ++ r). rewrite rxw_app.
    destruct (snd (rxw want [e])) as [x|] eqn:Ex.
    + (* a close: the answers stop here *)
      destruct Hres1 as [Hne Hmt].
      exists (Some res), d1, masks1, rf1. rewrite Ex.
      split; [destruct res; try reflexivity; exfalso; apply Hne; reflexivity|].
      repeat split; assumption.
    + subst res.
      destruct (IH masks1 d1 Hr Hm1 Hd1) as (hr & d2 & masks2 & rf2 & Ha & Hd2 & Hm2 & Hwf2 & Hlog2 & Hx2 & Hres2).
      exists hr, d2, masks2, (rf1 ++ rf2). split; [exact Ha|]. split; [exact Hd2|]. split; [exact Hm2|].
      split; [apply Forall_app; split; assumption|]. split.
      { rewrite Hlog2, Hlog1, pwire_app, app_assoc. reflexivity. }
      cbn [fst snd]. split; [apply xreplies_ok_app; assumption|exact Hres2].
Qed.
