(* ReaderXInv.v — the simulation invariants of ReaderInv.v for a source that
   holds, after the frames the invariant speaks of, further bytes [x] and ends
   with an arbitrary tail [t] (C16: streams cut inside a later frame, failing
   transports). The statements and proofs are those of ReaderInv.v; only the
   description of the source differs. *)
Require Import Bytes Stream Utf8Spec Check Frame Cipher Utf8Dfa Extracted ExtractedOk Reader
  BytesProofs StreamProofs CheckProofs FrameProofs CipherProofs Utf8Proofs ReaderLocalProofs ReaderAux ReaderInv.
From Coq Require Import ZifyBool ZifyN ZifyNat.
Open Scope N_scope.

Section Ext.
Variable t : tail.
Variable x : list byte.
Hypothesis Hxwf : wf_bytes x.

Definition src_okx (r : reader) (bs : list byte) : Prop :=
  wf_src (r_src r) /\ tl (r_src r) = t /\ flat (r_src r) = bs ++ x.

(* at a frame boundary: [openm] = the message being assembled, [rest] = frames still on the wire *)
Record BndX (c : rcfg) (openm : option msg) (lg : list event) (rest : list sframe) (r : reader) : Prop := {
  bx_cfg : cfg_ok c r;
  bx_src : src_okx r (wire rest);
  bx_wf : Forall wf_sframe rest;
  bx_log : r_log r = lg;
  bx_state : r_state r = set_fragmented (c_state c) (is_some openm);
  bx_noext : c_ext c = false -> r_compressed r = false;
  bx_msg : match openm with
          | None => r_u8state r = 0
          | Some m => r_frame r = false /\ r_opcode r = m_op m /\ r_compressed r = m_comp m
                      /\ u8_ok c (m_op m) (m_acc m) r /\ wf_bytes (m_acc m) /\ spec_control (m_op m) = false
          end }.

(* inside the payload of frame [f] = pre ++ post, [pre] already delivered; [m] = the
   message as it was before [f] *)
Record MidX (c : rcfg) (m : msg) (f : sframe) (pre post : list byte) (lg : list event)
           (rest : list sframe) (r : reader) : Prop := {
  mx_cfg : cfg_ok c r;
  mx_src : src_okx r (wpay f (len pre) post ++ wire rest);
  mx_wf : Forall wf_sframe rest;
  mx_wff : wf_sframe f;
  mx_pay : sf_payload f = pre ++ post;
  mx_wfacc : wf_bytes (m_acc m);
  mx_log : r_log r = lg;
  mx_state : r_state r = set_fragmented (c_state c) (negb (sf_fin f));
  mx_frame : r_frame r = true;
  mx_opcode : r_opcode r = m_op m;
  mx_compr : r_compressed r = m_comp m \/ spec_control (m_op m) = true;
  mx_noext : c_ext c = false -> r_compressed r = false;
  mx_ctlfin : spec_control (m_op m) = true -> sf_fin f = true;
  mx_rawN : r_rawN r = len post;
  mx_masked : r_masked r = is_some (sf_key f);
  mx_key : forall key, sf_key f = Some key -> r_key r = key /\ r_cpos r = len pre;
  mx_wrap : r_u8wrap r = wrap_of c (m_op m);
  mx_u8 : u8_ok c (m_op m) (m_acc m ++ pre) r }.
(* ------------------------------------------------------------------ NextFrame at a frame boundary *)
Lemma next_frame_specX c openm lg f rest r : wf_cfg c -> BndX c openm lg (f :: rest) r ->
  exists h e r', next_frame r = ((h, e), r') /\
  match e with
  | Some err =>
      r_log r' = lg /\
      forall k evs, exists out, spec_run c k openm evs (f :: rest) = mkSR evs (partial_of openm) out
                                /\ err_matches out err = true /\ out <> OInvalidUtf8 /\ out <> OClean
  | None =>
      (length (flat (r_src r')) + 2 <= length (flat (r_src r)))%nat /\
      ((exists m, openm = Some m /\ r_frame r' = false /\
          BndX c openm (lg ++ [mkEv (sf_op f) (sf_payload f) true (m_comp m)]) rest r' /\
          forall k evs, spec_run c k openm evs (f :: rest) =
                        spec_run c (S k) openm (evs ++ [mkEv (sf_op f) (sf_payload f) true (m_comp m)]) rest)
       \/ (h_op h = sf_op f /\ MidX c (msg_of c openm f) f [] (sf_payload f) lg rest r' /\
           forall k evs, spec_run c k openm evs (f :: rest) = spec_data c k (msg_of c openm f) evs f rest))
  end.
Proof.
  intros Hc [Hcfg (Hw & Ht & Hfl) Hwf Hlog Hst Hcz Hmsg].
  pose proof (Forall_inv Hwf) as Hf. pose proof (Forall_inv_tail Hwf) as Hrest. clear Hwf.
  rewrite wire_cons, <- !app_assoc in Hfl.
  assert (Hrw: wf_bytes (wpay f 0 (sf_payload f) ++ wire rest ++ x)).
  { apply wf_bytes_app; split; [apply wpay_wf; [exact Hf|apply Hf] |].
    apply wf_bytes_app; split; [apply wire_wf, Hrest|exact Hxwf]. }
  destruct (next_frame_reads_header r (sf_header f) _ (sf_header_wf f Hf) Hrw Hw Hfl) as (s1 & Hrd & Hf1 & Hw1 & Ht1).
  rewrite sf_header_norm in Hrd.
  assert (Hlen: (length (flat s1) + 2 <= length (flat (r_src r)))%nat).
  { rewrite Hfl, Hf1, !app_length. pose proof (rfc_header_len2 (sf_header f)). lia. }
  assert (HlenN: Z.to_N (h_len (sf_header f)) = len (sf_payload f)) by (cbn [sf_header h_len]; apply N2Z.id).
  assert (Hop: sf_op f < 16) by apply Hf.
  destruct Hcfg as (Hskip & Hchk & Hmax & Hext & Hcb).
  unfold next_frame. rewrite Hrd, Hskip, Hst, HlenN.
  pose proof (frame_ok_check c (is_some openm) f Hf) as Hck.
  destruct (check_header (sf_header f) (set_fragmented (c_state c) (is_some openm))) as [rl|].
  { do 3 eexists. split; [reflexivity|]. rsimpl. split; [exact Hlog|].
    intros k evs. exists (OProtocol k). rewrite spec_run_cons, Hck. cbn [negb].
    repeat split; discriminate || reflexivity. }
  destruct Hck as [Hok Hbr].
  rewrite Hmax. change (h_len (sf_header f)) with (Z.of_N (len (sf_payload f))).
  destruct ((0 <? c_max c)%Z && (c_max c <? Z.of_N (len (sf_payload f)))%Z) eqn:Hsz.
  { do 3 eexists. split; [reflexivity|]. rsimpl. split; [exact Hlog|].
    intros k evs. exists (OTooLarge k). rewrite spec_run_cons, Hok, Hsz. cbn [negb].
    repeat split; discriminate || reflexivity. }
  rewrite Hext.
  pose proof (ext_step c f (r_compressed r) Hf) as Hx. cbv zeta in Hx.
  destruct Hx as [[Hbad Hx]|(Hgood & hdr' & Hx & Hop' & Hfin')]; rewrite Hx.
  { do 3 eexists. split; [reflexivity|]. rsimpl. split; [exact Hlog|].
    intros k evs. exists (OBadCompression k). rewrite spec_run_cons, Hok, Hsz, Hbad. cbn [negb].
    repeat split; discriminate || reflexivity. }
  rewrite st_frag_set, Hop', Hfin', (control_spec _ Hop).
  assert (Htl: forall s', tl s' = tl (r_src r) -> tl s' = t) by (intros; congruence).
  destruct openm as [[[o p] cm]|]; cbn [is_some andb m_op m_acc m_comp fst snd] in *.
  - destruct Hmsg as (Hfr & Hopc & Hcomp & Hu8 & Hwacc & Hnctl).
    destruct (spec_control (sf_op f)) eqn:Hctl.
    + (* control frame inside a message: callback, drain *)
      assert (Hfd: first_data f = false) by (unfold first_data; rewrite Hctl; reflexivity).
      rewrite Hfd, andb_false_r in *. rewrite Hcb.
      unfold cb_read_all. rsimpl.
      destruct (read_payload s1 f (wire rest ++ x) Hf Hw1 Hf1) as (s2 & Hrp & Hf2 & Hw2 & Ht2).
      rewrite Hrp. cbv beta iota zeta. rewrite (unmask_payload' f _ Hf), Hop'.
      unfold raw_drain. rsimpl. rewrite len_wpay, N.sub_diag.
      destruct (read_zero s2 Hw2) as (s3 & Hrz & Hf3 & Hw3 & Ht3). rewrite Hrz. cbv beta iota zeta.
      cbn [option_map].
      do 3 eexists. split; [reflexivity|]. rsimpl.
      split; [rewrite Hf3, Hf2; rewrite Hf1, app_length in Hlen; clear -Hlen; lia|].
      left. exists (o, p, cm). split; [reflexivity|]. split; [exact Hfr|]. split.
      * constructor; rsimpl; cbn [is_some m_op m_acc m_comp fst snd].
        -- unfold cfg_ok; rsimpl. repeat split; assumption || reflexivity.
        -- unfold src_okx; rsimpl. repeat split; [exact Hw3| apply Htl; congruence | congruence].
        -- exact Hrest.
        -- rewrite Hlog, Hcomp. reflexivity.
        -- reflexivity.
        -- exact Hcz.
        -- unfold u8_ok in *; rsimpl. repeat split; try assumption; apply Hu8.
      * intros k evs. rewrite spec_run_cons. cbn [is_some]. rewrite Hok, Hsz, Hfd, Hgood, Hctl. reflexivity.
    + (* continuation frame *)
      pose proof (broken_none _ _ ContinuationExpected Hbr) as Hce.
      cbn [rule_broken sf_header h_op] in Hce. rewrite st_frag_set, Hctl in Hce. cbn [negb andb] in Hce.
      assert (Hfd: first_data f = false) by (unfold first_data; rewrite Hctl; exact Hce).
      rewrite Hfd, andb_false_r in *. cbn [andb].
      do 3 eexists. split; [reflexivity|]. rsimpl. split; [exact Hlen|].
      right. split; [exact Hop'|]. split.
      * constructor; rsimpl; cbn [msg_of m_op m_acc m_comp fst snd].
        -- unfold cfg_ok; rsimpl. repeat split; assumption || reflexivity.
        -- unfold src_okx; rsimpl. rewrite len_nil. repeat split; [exact Hw1| apply Htl, Ht1 | rewrite <- app_assoc; exact Hf1].
        -- exact Hrest.
        -- exact Hf.
        -- reflexivity.
        -- exact Hwacc.
        -- exact Hlog.
        -- apply set_frag_twice, Hc.
        -- reflexivity.
        -- exact Hopc.
        -- left. exact Hcomp.
        -- exact Hcz.
        -- intros; congruence.
        -- reflexivity.
        -- reflexivity.
        -- intros key Hk. cbn [sf_header h_masked h_mask]. rewrite Hk. split; reflexivity.
        -- rewrite Hchk, Hopc. unfold wrap_of. replace (sf_op f =? 1) with false by (clear -Hce; lia).
           reflexivity.
        -- rewrite app_nil_r. unfold u8_ok in *; rsimpl. exact Hu8.
      * intros k evs. rewrite spec_run_cons. cbn [is_some]. rewrite Hok, Hsz, Hfd, Hgood, Hctl. reflexivity.
  - (* first frame of a message, or a control frame outside a message *)
    rename Hmsg into Hu0.
    pose proof (broken_none _ _ ContinuationUnexpected Hbr) as Hcu.
    cbn [rule_broken sf_header h_op] in Hcu. rewrite st_frag_set in Hcu. cbn [negb andb] in Hcu.
    pose proof (broken_none _ _ ControlNotFinal Hbr) as Hcf.
    cbn [rule_broken sf_header h_op h_fin] in Hcf.
    do 3 eexists. split; [reflexivity|]. rsimpl. split; [exact Hlen|].
    right. split; [exact Hop'|]. split.
    + constructor; rsimpl; cbn [msg_of m_op m_acc m_comp fst snd].
      * unfold cfg_ok; rsimpl. repeat split; assumption || reflexivity.
      * unfold src_okx; rsimpl. rewrite len_nil. repeat split; [exact Hw1| apply Htl, Ht1 | rewrite <- app_assoc; exact Hf1].
      * exact Hrest.
      * exact Hf.
      * reflexivity.
      * constructor.
      * exact Hlog.
      * apply set_frag_twice, Hc.
      * reflexivity.
      * reflexivity.
      * destruct (spec_control (sf_op f)) eqn:Hctl; [right; reflexivity|left].
        unfold first_data. rewrite Hctl, Hcu. cbn [negb andb]. rewrite andb_true_r.
        destruct (c_ext c); [reflexivity|]. apply Hcz. reflexivity.
      * intros Hx0. rewrite Hx0. cbn [andb]. apply Hcz, Hx0.
      * intros Hctl. rewrite Hctl in Hcf. cbn [andb] in Hcf. destruct (sf_fin f); [reflexivity|discriminate].
      * reflexivity.
      * reflexivity.
      * intros key Hk. cbn [sf_header h_masked h_mask]. rewrite Hk. split; reflexivity.
      * rewrite Hchk, orb_false_r. reflexivity.
      * unfold u8_ok; rsimpl. rewrite Hu0. repeat split.
        -- destruct (wrap_of c (sf_op f)); reflexivity.
        -- discriminate.
        -- simpl; tauto.
    + intros k evs. rewrite spec_run_cons. cbn [is_some]. rewrite Hok, Hsz, Hgood. cbn [negb].
      destruct (spec_control (sf_op f)) eqn:Hctl; [|reflexivity].
      unfold spec_data, msg_of. cbn [app].
      assert (Hw0: wrap_of c (sf_op f) = false).
      { unfold wrap_of. unfold spec_control in Hctl. replace (sf_op f =? 1) with false by (clear -Hctl; lia).
        apply andb_false_r. }
      rewrite Hw0. cbn [andb]. cbn [andb] in Hcf.
      destruct (sf_fin f); [|discriminate].
      assert (Hcr: c_ext c && rsv1 f = false).
      { unfold first_data in Hgood. rewrite Hctl in Hgood. cbn [negb andb] in Hgood.
        rewrite andb_true_r in Hgood. exact Hgood. }
      rewrite Hcr. reflexivity.
Qed.
(* the end of a frame's payload *)
Lemma rat_eof_specX c m f pre lg rest r d : wf_cfg c -> MidX c m f pre [] lg rest r ->
  (exists r', rat_eof d r = ((d, None), r') /\ sf_fin f = false /\ BndX c (Some (msg_after m f)) lg rest r'
      /\ flat (r_src r') = flat (r_src r) /\
      forall k evs, spec_data c k m evs f rest = spec_run c (S k) (Some (msg_after m f)) evs rest) \/
  (exists r', rat_eof d r = ((d, Some (RIo EEOF)), r') /\ BndX c None lg rest r'
      /\ (r_compressed r' = m_comp m \/ spec_control (m_op m) = true)
      /\ flat (r_src r') = flat (r_src r) /\
      forall k evs, spec_data c k m evs f rest =
        spec_run c (S k) None (evs ++ [mkEv (m_op m) (m_acc m ++ sf_payload f) false (m_comp m)]) rest) \/
  (exists d', rat_eof d r = ((d', Some RInvalidUtf8), r) /\
      forall k evs, spec_data c k m evs f rest = mkSR evs [] OInvalidUtf8).
Proof.
  intros Hc [Hcfg (Hw & Ht & Hfl) Hwf Hf Hpay Hwacc Hlog Hst Hfr Hopc Hcompr Hnoext Hctlfin Hraw Hmk Hkey Hwrap Hu8].
  destruct Hcfg as (Hskip & Hchk & Hmax & Hext & Hcb).
  rewrite app_nil_r in Hpay. rewrite wpay_nil in Hfl. cbn [app] in Hfl.
  destruct Hu8 as (Hu1 & Hu2 & Hu3).
  assert (Hwfall: wf_bytes (m_acc m ++ pre)).
  { apply wf_bytes_app. split; [exact Hwacc|]. rewrite <- Hpay. apply Hf. }
  unfold rat_eof. rewrite Hraw, len_nil. cbn [N.eqb negb]. rewrite Hst, st_frag_set.
  destruct m as [[o a] cm]. cbn [m_op m_acc m_comp fst snd] in *. unfold msg_after. cbn [m_op m_acc m_comp fst snd].
  destruct (sf_fin f) eqn:Hfin; cbn [negb].
  - rewrite Hchk, ok_utf8_accept. right.
    destruct (c_check_utf8 c && negb (r_u8state r =? 0)) eqn:Hu.
    + right. eexists. split; [reflexivity|]. intros k evs. unfold spec_data. rewrite Hfin, Hpay.
      destruct (wrap_of c o) eqn:Hwr.
      * rewrite <- dfa_correct by exact Hwfall. rewrite <- Hu1.
        replace (r_u8state r =? 0) with false by (clear -Hu; lia). reflexivity.
      * exfalso. rewrite Hu1 in Hu. cbn [N.eqb negb] in Hu. rewrite andb_false_r in Hu. discriminate.
    + left. eexists. split; [reflexivity|]. split; [|split; [|split]].
      * constructor; rsimpl; cbn [is_some].
        -- unfold cfg_ok; rsimpl. repeat split; assumption.
        -- unfold src_okx; rsimpl. repeat split; assumption.
        -- exact Hwf.
        -- exact Hlog.
        -- exact Hst.
        -- exact Hnoext.
        -- reflexivity.
      * rsimpl. exact Hcompr.
      * reflexivity.
      * intros k evs. unfold spec_data. rewrite Hfin, Hpay.
        destruct (wrap_of c o) eqn:Hwr; [|reflexivity].
        rewrite <- dfa_correct by exact Hwfall. rewrite <- Hu1.
        unfold wrap_of in Hwr. apply andb_true_iff in Hwr. destruct Hwr as [Hwr _]. rewrite Hwr in Hu.
        cbn [andb] in Hu. replace (r_u8state r =? 0) with true by (clear -Hu; lia). reflexivity.
  - left. eexists. split; [reflexivity|]. split; [reflexivity|]. split; [|split].
    + constructor; rsimpl; cbn [is_some m_op m_acc m_comp fst snd].
      * unfold cfg_ok; rsimpl. repeat split; assumption.
      * unfold src_okx; rsimpl. repeat split; assumption.
      * exact Hwf.
      * exact Hlog.
      * exact Hst.
      * exact Hnoext.
      * assert (Hnc: spec_control o = false).
        { destruct (spec_control o); [|reflexivity]. specialize (Hctlfin eq_refl). discriminate. }
        rewrite Hpay. repeat split; try assumption; try reflexivity.
        destruct Hcompr as [Hx|Hx]; [exact Hx|congruence].
    + reflexivity.
    + intros k evs. unfold spec_data. rewrite Hfin, Hpay.
      destruct (wrap_of c o) eqn:Hwr; [|reflexivity].
      rewrite utf8_viable_dfa by exact Hwfall. rewrite <- Hu1.
      replace (r_u8state r =? 12) with false by (clear -Hu2; lia). reflexivity.
Qed.
(* frame.Read on an exhausted payload *)
Lemma frame_read_endX c m f pre lg rest r kk : MidX c m f pre [] lg rest r ->
  exists r1, frame_read kk r = (([], Some (RIo EEOF)), r1) /\ MidX c m f pre [] lg rest r1
             /\ flat (r_src r1) = flat (r_src r).
Proof.
  intros [Hcfg Hsrc Hwf Hf Hpay Hwacc Hlog Hst Hfr Hopc Hcompr Hnoext Hctlfin Hraw Hmk Hkey Hwrap Hu8].
  unfold frame_read, raw_read. rewrite Hraw, len_nil. cbn [N.eqb]. cbv beta iota zeta.
  rewrite cipher_nil. change (len (@nil byte)) with 0. rewrite N.add_0_r.
  assert (E1: (if r_masked r then @nil byte else []) = []) by (destruct (r_masked r); reflexivity).
  assert (E2: (if r_masked r then r_cpos r else r_cpos r) = r_cpos r) by (destruct (r_masked r); reflexivity).
  rewrite E1, E2. cbn [u8_scan option_map].
  destruct (r_u8wrap r) eqn:Hw; (eexists; split; [reflexivity|]; split; [|reflexivity]);
    (constructor; rsimpl; try assumption).
Qed.

(* frame.Read with payload bytes left: a non-empty piece of the unmasked payload
   is delivered, or the UTF-8 reader rejects *)
Lemma frame_read_dataX c m f pre post lg rest r kk : MidX c m f pre post lg rest r -> post <> [] -> 0 < kk ->
  exists d post', post = d ++ post' /\ d <> [] /\
    ((exists d' r1, frame_read kk r = ((d', Some RInvalidUtf8), r1) /\ r_log r1 = lg /\
        wrap_of c (m_op m) = true /\ u8_run 0 (m_acc m ++ pre ++ d) = 12) \/
     (exists r1, frame_read kk r = ((d, None), r1) /\ MidX c m f (pre ++ d) post' lg rest r1 /\
        (length (flat (r_src r1)) < length (flat (r_src r)))%nat)).
Proof.
  intros [Hcfg (Hw & Ht & Hfl) Hwf Hf Hpay Hwacc Hlog Hst Hfr Hopc Hcompr Hnoext Hctlfin Hraw Hmk Hkey Hwrap Hu8] Hne Hk.
  pose proof (len_pos post Hne) as Hlp.
  assert (Hwpost: wf_bytes post).
  { destruct Hf as (_ & _ & Hp & _). rewrite Hpay in Hp. apply wf_bytes_app in Hp. apply Hp. }
  assert (Hwpre: wf_bytes pre).
  { destruct Hf as (_ & _ & Hp & _). rewrite Hpay in Hp. apply wf_bytes_app in Hp. apply Hp. }
  unfold frame_read, raw_read. replace (r_rawN r =? 0) with false by (rewrite Hraw; clear -Hlp; lia).
  pose proof (read1_props_u (N.min kk (r_rawN r)) (r_src r) Hw ltac:(rewrite Hraw; clear -Hlp Hk; lia)) as R.
  pose proof (read1_len (N.min kk (r_rawN r)) (r_src r)) as RL.
  destruct (read1 (N.min kk (r_rawN r)) (r_src r)) as [[b e] s']. cbn [fst] in RL.
  destruct e as [e|].
  { exfalso. destruct R as (_ & R & _). rewrite Hfl in R. apply (f_equal len) in R.
    rewrite !len_app, len_wpay, len_nil in R. clear -R Hlp. lia. }
  destruct R as (Hbne & Hsplit0 & Hw' & Ht').
  pose proof Hsplit0 as Hsplit. rewrite Hfl, <- app_assoc in Hsplit.
  assert (Hlb: len b <= len post) by (rewrite Hraw in RL; clear -RL; lia).
  destruct (app_split_prefix _ _ _ _ Hsplit ltac:(rewrite len_wpay; exact Hlb)) as [Hb Hrest].
  rewrite wpay_take in Hb by exact Hlb. rewrite wpay_drop in Hrest by exact Hlb.
  set (n := len b) in *. set (d := take n post) in *. set (post' := drop n post) in *.
  assert (Hdp: post = d ++ post') by (symmetry; apply take_drop).
  assert (Hld: len d = n) by (unfold d; rewrite len_take; clear -Hlb; lia).
  assert (Hnpos: 0 < n) by (apply len_pos, Hbne).
  assert (Hdne: d <> []) by (intro E; rewrite E, len_nil in Hld; clear -Hld Hnpos; lia).
  assert (Hwd: wf_bytes d) by (apply wf_bytes_take, Hwpost).
  exists d, post'. split; [exact Hdp|]. split; [exact Hdne|].
  assert (Hb1: (if r_masked r then cipher b (r_key r) (r_cpos r) else b) = d).
  { rewrite Hmk. destruct (sf_key f) as [key|] eqn:Hkk; cbn [is_some].
    - destruct (Hkey key eq_refl) as [-> ->]. rewrite Hb. unfold wpay. rewrite Hkk.
      destruct Hf as (_ & _ & _ & _ & Hkw). rewrite Hkk in Hkw.
      rewrite cipher_is_spec; [apply mask_spec_involutive| |exact Hkw].
      apply mask_spec_wf; [exact Hwd|apply Hkw].
    - rewrite Hb. unfold wpay. rewrite Hkk. reflexivity. }
  assert (Hlenlt: (length (flat s') < length (flat (r_src r)))%nat).
  { rewrite Hsplit0, !app_length. destruct b; [contradiction|]. cbn [length]. clear. lia. }
  assert (Hsrc': src_okx (mkR s' 0 false false 0 false false CbNone 0 false 0 false [] 0 false 0 0 [])
                        (wpay f (len (pre ++ d)) post' ++ wire rest)).
  { unfold src_okx; rsimpl. rewrite len_app, Hld. repeat split; [exact Hw'|congruence|rewrite <- app_assoc; exact Hrest]. }
  assert (Hkey': forall key, sf_key f = Some key ->
            r_key r = key /\ (if r_masked r then r_cpos r + len b else r_cpos r) = len (pre ++ d)).
  { intros key Hkk. destruct (Hkey key Hkk) as [-> ->]. rewrite Hmk, Hkk. cbn [is_some].
    rewrite len_app, Hld. split; reflexivity. }
  cbn [cut_err option_map]. rsimpl. rewrite Hb1.
  destruct Hu8 as (Hu1 & Hu2 & Hu3).
  rewrite Hwrap. destruct (wrap_of c (m_op m)) eqn:Hwr.
  - pose proof (scan_spec d (r_u8state r) 0 0 Hwd Hu3 Hu2) as S.
    destruct (u8_scan (r_u8state r) 0 0 d) as [[st a] rej]. destruct S as [S1 S2].
    destruct rej.
    + left. destruct (S1 eq_refl) as [Hr12 _]. do 2 eexists. split; [reflexivity|]. rsimpl.
      split; [exact Hlog|]. split; [reflexivity|].
      rewrite app_assoc, run_app. rewrite <- Hu1. exact Hr12.
    + right. destruct (S2 eq_refl) as [Hst' Hst12]. eexists. split; [reflexivity|]. split; [|exact Hlenlt].
      constructor; rsimpl; try assumption.
      * rewrite Hpay, Hdp, app_assoc. reflexivity.
      * rewrite Hraw. unfold post'. rewrite len_drop. fold n. reflexivity.
      * symmetry; exact Hwr.
      * unfold u8_ok; rsimpl. rewrite Hwr. repeat split.
        -- rewrite app_assoc, run_app, <- Hu1. exact Hst'.
        -- exact Hst12.
        -- rewrite Hst'. apply run_states; assumption.
  - right. eexists. split; [reflexivity|]. split; [|exact Hlenlt].
    constructor; rsimpl; try assumption.
    * rewrite Hpay, Hdp, app_assoc. reflexivity.
    * rewrite Hraw. unfold post'. rewrite len_drop. fold n. reflexivity.
    * symmetry; exact Hwr.
    * unfold u8_ok; rsimpl. rewrite Hwr. repeat split; assumption.
Qed.

(* ------------------------------------------------------------------ one Read inside a frame *)
Lemma rgo_stepX c m f pre post lg rest r kk : wf_cfg c -> MidX c m f pre post lg rest r -> 0 < kk ->
  (exists d post' r', rgo kk r = ((d, None), r') /\ post = d ++ post' /\
      MidX c m f (pre ++ d) post' lg rest r' /\ (mu r' < mu r)%nat) \/
  (exists r', rgo kk r = ((post, None), r') /\ BndX c (Some (msg_after m f)) lg rest r' /\ (mu r' < mu r)%nat /\
      forall k evs, spec_data c k m evs f rest = spec_run c (S k) (Some (msg_after m f)) evs rest) \/
  (exists r', rgo kk r = ((post, Some (RIo EEOF)), r') /\ BndX c None lg rest r'
      /\ (r_compressed r' = m_comp m \/ spec_control (m_op m) = true)
      /\ (length (flat (r_src r')) <= length (flat (r_src r)))%nat /\
      forall k evs, spec_data c k m evs f rest =
        spec_run c (S k) None (evs ++ [mkEv (m_op m) (m_acc m ++ sf_payload f) false (m_comp m)]) rest) \/
  (exists d r', rgo kk r = ((d, Some RInvalidUtf8), r') /\ r_log r' = lg /\
      forall k evs, spec_data c k m evs f rest = mkSR evs [] OInvalidUtf8).
Proof.
  intros Hc HM Hk. destruct post as [|x0 post0].
  - destruct (frame_read_endX c m f pre lg rest r kk HM) as (r1 & Hfr & HM1 & Hfl1).
    unfold rgo. rewrite Hfr. cbv beta iota zeta.
    destruct (rat_eof_specX c m f pre lg rest r1 [] Hc HM1)
      as [(r' & He & Hfin & HB & Hfl' & Hsp)|[(r' & He & HB & Hcp & Hfl' & Hsp)|(d' & He & Hsp)]]; rewrite He.
    + right; left. exists r'. split; [reflexivity|]. split; [exact HB|]. split; [|exact Hsp].
      unfold mu. rewrite (mx_frame _ _ _ _ _ _ _ _ HM), Hfl', Hfl1.
      destruct (bx_msg _ _ _ _ _ HB) as (-> & _). clear. lia.
    + right; right; left. exists r'. split; [reflexivity|]. split; [exact HB|]. split; [exact Hcp|].
      split; [|exact Hsp]. rewrite Hfl', Hfl1. clear. lia.
    + right; right; right. exists d', r1. split; [reflexivity|]. split; [exact (mx_log _ _ _ _ _ _ _ _ HM1)|exact Hsp].
  - destruct (frame_read_dataX c m f pre (x0 :: post0) lg rest r kk HM ltac:(discriminate) Hk)
      as (d & post' & Hdp & Hdne & [(d' & r1 & Hfr & Hlg & Hwr & H12)|(r1 & Hfr & HM1 & Hlt)]).
    + unfold rgo. rewrite Hfr. cbv beta iota zeta.
      right; right; right. exists d', r1. split; [reflexivity|]. split; [exact Hlg|].
      intros k evs. unfold spec_data. pose proof (mx_pay _ _ _ _ _ _ _ _ HM) as Hpay.
      pose proof (mx_wfacc _ _ _ _ _ _ _ _ HM) as Hwacc.
      pose proof (mx_wff _ _ _ _ _ _ _ _ HM) as (_ & _ & Hwp & _).
      destruct m as [[o a] cm]. cbn [m_op m_acc m_comp fst snd] in *. rewrite Hwr. cbn [andb].
      rewrite Hpay, Hdp in *.
      apply wf_bytes_app in Hwp. destruct Hwp as [Hwpre Hwp]. apply wf_bytes_app in Hwp. destruct Hwp as [Hwd Hwpost'].
      replace (a ++ pre ++ d ++ post') with ((a ++ pre ++ d) ++ post') by (rewrite <- !app_assoc; reflexivity).
      assert (Hw1: wf_bytes (a ++ pre ++ d)).
      { apply wf_bytes_app; split; [exact Hwacc|]. apply wf_bytes_app; split; assumption. }
      destruct (dead_prefix_invalid _ post' Hw1 Hwpost' H12) as [-> ->].
      destruct (sf_fin f); reflexivity.
    + unfold rgo. rewrite Hfr. cbv beta iota zeta. rewrite (mx_rawN _ _ _ _ _ _ _ _ HM1).
      destruct post' as [|y post1].
      * rewrite len_nil. cbn [N.eqb negb]. rewrite app_nil_r in Hdp. subst d.
        destruct (rat_eof_specX c m f (pre ++ x0 :: post0) lg rest r1 (x0 :: post0) Hc HM1)
          as [(r' & He & Hfin & HB & Hfl' & Hsp)|[(r' & He & HB & Hcp & Hfl' & Hsp)|(d' & He & Hsp)]]; rewrite He.
        -- right; left. exists r'. split; [reflexivity|]. split; [exact HB|]. split; [|exact Hsp].
           unfold mu. rewrite (mx_frame _ _ _ _ _ _ _ _ HM), Hfl'.
           destruct (bx_msg _ _ _ _ _ HB) as (-> & _). clear -Hlt. lia.
        -- right; right; left. exists r'. split; [reflexivity|]. split; [exact HB|]. split; [exact Hcp|].
           split; [|exact Hsp]. rewrite Hfl'. clear -Hlt. lia.
        -- right; right; right. exists d', r1. split; [reflexivity|].
           split; [exact (mx_log _ _ _ _ _ _ _ _ HM1)|exact Hsp].
      * replace (len (y :: post1) =? 0) with false by (rewrite len_cons; clear; lia). cbn [negb].
        left. exists d, (y :: post1), r1. split; [reflexivity|]. split; [exact Hdp|]. split; [exact HM1|].
        unfold mu. rewrite (mx_frame _ _ _ _ _ _ _ _ HM), (mx_frame _ _ _ _ _ _ _ _ HM1). clear -Hlt. lia.
Qed.

End Ext.
