(* Tie C, second translator: the definitions TRANSLATED from the Go source on this run
   (gen/Translated2.v, by `harness translate2`; vocabulary lib/GoSlices.v) are proved, for EVERY
   byte list and every other argument in its Go type's range,
     (a) to return neither Panic (index / slice bounds) nor OutOfFuel, and
     (b) to return what the hand-written models of model/HsHttp.v, model/HsDialer.v return.
   Loops are handled by one total-correctness rule for go_loop (invariant + measure below the fuel);
   the loop bodies are executed symbolically (rewrite the bounds-checked accesses that the
   invariant justifies, split on the remaining conditions, decide by lia), so the proofs follow
   harmless rewrites of the Go text but break when a guard or a bound changes. *)
From Coq Require Import NArith ZArith List Bool Lia ZifyBool ZifyN ZifyNat.
Require Import Bytes GoSlices HsHttp HsDialer Translated2.
Import ListNotations.
Open Scope Z_scope.

(* ------------------------------------------------------------------ bytes N <-> Z *)
Definition zb (l : list N) : list Z := map Z.of_N l.
Definition nb (l : list Z) : list N := map Z.to_N l.

Lemma zb_nb l : go_bytes l -> zb (nb l) = l.
Proof.
  unfold go_bytes, zb, nb. induction 1 as [|x l Hx _ IH]; [reflexivity|].
  cbn [map]. rewrite IH. f_equal. lia.
Qed.
Lemma nb_zb l : nb (zb l) = l.
Proof. unfold zb, nb. induction l as [|x l IH]; [reflexivity|]. cbn [map]. rewrite IH. f_equal. lia. Qed.
Lemma zb_app a b : zb (a ++ b) = zb a ++ zb b.
Proof. apply map_app. Qed.
Lemma zb_length l : length (zb l) = length l.
Proof. apply map_length. Qed.
Lemma go_len_zb l : go_len (zb l) = Z.of_nat (length l).
Proof. unfold go_len. now rewrite zb_length. Qed.
Lemma zb_firstn n l : zb (firstn n l) = firstn n (zb l).
Proof. unfold zb. symmetry. apply firstn_map. Qed.
Lemma zb_skipn n l : zb (skipn n l) = skipn n (zb l).
Proof. unfold zb. symmetry. apply skipn_map. Qed.

(* ------------------------------------------------------------------ wraps *)
Lemma wrap_s64_id x : -9223372036854775808 <= x <= 9223372036854775807 -> wrap_s 64 x = x.
Proof.
  intros H. unfold wrap_s. change (2 ^ (64 - 1)) with 9223372036854775808.
  change (2 ^ 64) with 18446744073709551616. rewrite Z.mod_small by lia. lia.
Qed.
Lemma wrap_u8_id x : 0 <= x < 256 -> wrap_u 8 x = x.
Proof. intros H. unfold wrap_u. change (2 ^ 8) with 256. apply Z.mod_small, H. Qed.
Lemma wrap_s64_wrap64 x : wrap_s 64 x = wrap64 x.
Proof. reflexivity. Qed.

Ltac unwrap :=
  repeat match goal with
  | |- context [wrap_s 64 ?x] => rewrite (wrap_s64_id x) by lia
  | |- context [wrap_u 8 ?x] => rewrite (wrap_u8_id x) by lia
  end.

(* ------------------------------------------------------------------ checked accesses *)
Lemma go_index_zb l i : 0 <= i < Z.of_nat (length l) ->
  go_index (zb l) i = Ok (Z.of_N (nth (Z.to_nat i) l 0%N)).
Proof.
  intros H. unfold go_index. rewrite go_len_zb.
  replace ((0 <=? i) && (i <? Z.of_nat (length l))) with true by lia.
  f_equal. unfold zb. change 0 with (Z.of_N 0%N). apply map_nth.
Qed.

Lemma go_slice_zb l i j : 0 <= i <= j -> j <= Z.of_nat (length l) ->
  go_slice (zb l) i j = Ok (zb (firstn (Z.to_nat (j - i)) (skipn (Z.to_nat i) l))).
Proof.
  intros H1 H2. unfold go_slice. rewrite go_len_zb.
  replace ((0 <=? i) && (i <=? j) && (j <=? Z.of_nat (length l))) with true by lia.
  now rewrite zb_firstn, zb_skipn.
Qed.

Lemma go_set_index_app a x b v :
  go_set_index (a ++ x :: b) (Z.of_nat (length a)) v = Ok (a ++ v :: b).
Proof.
  unfold go_set_index, go_len. rewrite app_length. cbn [length].
  replace ((0 <=? Z.of_nat (length a)) && (Z.of_nat (length a) <? Z.of_nat (length a + S (length b)))) with true by lia.
  rewrite Nat2Z.id. f_equal.
  rewrite firstn_app, Nat.sub_diag, firstn_all. cbn [firstn]. rewrite app_nil_r. f_equal.
  replace (S (length a)) with (length a + 1)%nat by lia.
  rewrite skipn_app. rewrite skipn_all2 by lia. replace (length a + 1 - length a)%nat with 1%nat by lia.
  reflexivity.
Qed.

Lemma skipn_nth {A} (d : A) n (l : list A) : (n < length l)%nat ->
  skipn n l = nth n l d :: skipn (S n) l.
Proof.
  revert l. induction n as [|n IH]; intros [|x l] H; cbn [length] in H; try lia; [reflexivity|].
  cbn [skipn nth]. apply IH. lia.
Qed.

Lemma go_bytes_equal_zb a b : go_bytes_equal (zb a) (zb b) = bytes_eqb a b.
Proof.
  revert b. induction a as [|x a IH]; intros [|y b]; cbn; try reflexivity.
  rewrite IH. f_equal. lia.
Qed.

(* bytes.IndexByte against the model's split *)
Lemma go_index_byte_none c l : split_byte c l = None -> go_index_byte (zb l) (Z.of_N c) = -1.
Proof.
  induction l as [|x l IH]; cbn [split_byte zb map go_index_byte]; [reflexivity|].
  destruct (N.eqb_spec x c) as [->|Hne]; [discriminate|].
  destruct (split_byte c l) as [[a b]|]; [discriminate|]. intros _.
  fold (zb l). rewrite IH by reflexivity.
  replace (Z.of_N x =? Z.of_N c) with false by lia. reflexivity.
Qed.
Lemma go_index_byte_some c l a b : split_byte c l = Some (a, b) ->
  go_index_byte (zb l) (Z.of_N c) = Z.of_nat (length a) /\ l = a ++ c :: b.
Proof.
  revert a b. induction l as [|x l IH]; intros a b; cbn [split_byte zb map go_index_byte]; [discriminate|].
  destruct (N.eqb_spec x c) as [->|Hne].
  - intros [= <- <-]. rewrite Z.eqb_refl. split; reflexivity.
  - destruct (split_byte c l) as [[a' b']|]; [|discriminate]. intros [= <- <-].
    destruct (IH a' b' eq_refl) as [E ->]. fold (zb (a' ++ c :: b')). rewrite E.
    replace (Z.of_N x =? Z.of_N c) with false by lia.
    replace (Z.of_nat (length a') <? 0) with false by lia. cbn [length]. split; [lia|reflexivity].
Qed.

(* ------------------------------------------------------------------ the loop rule *)
(* total correctness: an invariant I, a measure m that every Continue decreases, and fuel above
   the measure give a normal exit that satisfies Q *)
Lemma go_loop_rule {S R : Type} (I : S -> Prop) (m : S -> nat) (Q : S + R -> Prop)
      (body : S -> res (step S R)) :
  (forall s, I s -> match body s with
                    | Ok (Continue s') => I s' /\ (m s' < m s)%nat
                    | Ok (Break s') => Q (inl s')
                    | Ok (Return r) => Q (inr r)
                    | Panic | OutOfFuel => False
                    end) ->
  forall fuel s, I s -> (m s < fuel)%nat -> exists o, go_loop fuel body s = Ok o /\ Q o.
Proof.
  intros Hb fuel. induction fuel as [|fuel IH]; intros s Hs Hm; [lia|].
  cbn [go_loop]. specialize (Hb s Hs). destruct (body s) as [[s'|s'|r]| |]; try contradiction.
  - destruct Hb as [Hs' Hm']. apply IH; [exact Hs'|lia].
  - eexists; split; [reflexivity|exact Hb].
  - eexists; split; [reflexivity|exact Hb].
Qed.

(* split on every condition of the goal *)
Ltac split_ifs :=
  repeat (match goal with
          | |- context [if ?c then _ else _] => let E := fresh "E" in destruct c eqn:E
          end; cbv beta iota).

(* ------------------------------------------------------------------ min, nonZero *)
Lemma g2_min_ok a b : g2_min a b = Ok (Z.min a b).
Proof. unfold g2_min. split_ifs; f_equal; lia. Qed.
Lemma g2_nonZero_ok a b : g2_nonZero a b = Ok (if a =? 0 then b else a).
Proof. unfold g2_nonZero. destruct (a =? 0); reflexivity. Qed.

(* ------------------------------------------------------------------ asciiToInt *)
Definition ati_res (o : option Z) : Z * option g_error :=
  match o with Some v => (v, None) | None => (0, Some E_fmt_Errorf) end.

Lemma ascii_loop_range l : forall ret v, 0 <= ret <= max_int ->
  ascii_to_int_loop l ret = Some v -> 0 <= v <= max_int.
Proof.
  unfold max_int. induction l as [|c l IH]; intros ret v Hr; cbn [ascii_to_int_loop].
  - intros [= <-]. exact Hr.
  - destruct ((48 <=? c)%N && (c <=? 57)%N) eqn:Ed; [|discriminate].
    unfold max_int. destruct ((9223372036854775807 - Z.of_N (c - 48)) / 10 <? ret) eqn:Eo; [discriminate|].
    apply IH. lia.
Qed.

Definition fits (l : list N) : Prop := Z.of_nat (length l) <= 9223372036854775807.

Lemma g2_asciiToInt_zb l : fits l -> g2_asciiToInt (zb l) = Ok (ati_res (ascii_to_int l)).
Proof.
  unfold fits. intros Hfit. unfold g2_asciiToInt. rewrite go_len_zb, zb_length.
  destruct l as [|c0 l0]; [reflexivity|]. set (l := c0 :: l0) in *.
  replace (Z.of_nat (length l) <? 1) with false by (subst l; cbn [length]; lia).
  remember (Z.of_nat (length l)) as n eqn:Hn.
  match goal with |- context [go_loop ?f ?b ?s] => set (body := b) end.
  destruct (go_loop_rule
    (fun '(ret, i) => 0 <= i <= n /\ 0 <= ret <= max_int /\
                      ascii_to_int_loop (skipn (Z.to_nat i) l) ret = ascii_to_int_loop l 0)
    (fun '(ret, i) => Z.to_nat (n - i))
    (fun o => match o with
              | inl (ret, i) => ascii_to_int_loop l 0 = Some ret
              | inr r => r = (0, Some E_fmt_Errorf) /\ ascii_to_int_loop l 0 = None
              end)
    body) with (fuel := (length l + 65)%nat) (s := (0, 0)) as (o & Eo & HQ).
  - intros [ret i] (Hi & Hr & Hm). subst body. cbv beta iota.
    destruct (i <? n) eqn:Ein.
    + rewrite !go_index_zb by lia.
      rewrite (skipn_nth 0%N) in Hm by lia. set (c := nth (Z.to_nat i) l 0%N) in *.
      cbn [ascii_to_int_loop] in Hm. unfold max_int in *.
      cbn [bind]. destruct (Z.of_N c <? 48) eqn:E1; cbn [bind].
      * replace ((48 <=? c)%N && (c <=? 57)%N) with false in Hm by lia. split; [reflexivity|now symmetry].
      * destruct (57 <? Z.of_N c) eqn:E2; cbn [bind].
        { replace ((48 <=? c)%N && (c <=? 57)%N) with false in Hm by lia. split; [reflexivity|now symmetry]. }
        replace ((48 <=? c)%N && (c <=? 57)%N) with true in Hm by lia.
        rewrite (wrap_u8_id (Z.of_N c - 48)) by lia.
        replace (Z.of_N c - 48) with (Z.of_N (c - 48)) by lia.
        set (d := Z.of_N (c - 48)) in *. assert (Hd : 0 <= d <= 9) by (subst d; lia).
        rewrite (wrap_s64_id (9223372036854775807 - d)) by lia.
        rewrite Z.quot_div_nonneg by lia.
        rewrite (wrap_s64_id ((9223372036854775807 - d) / 10)) by (split; [|apply Z.div_le_upper_bound]; try apply Z.div_pos; lia).
        destruct ((9223372036854775807 - d) / 10 <? ret) eqn:E3.
        { split; [reflexivity|now symmetry]. }
        assert (Hb : ret * 10 + d <= 9223372036854775807).
        { assert (ret <= (9223372036854775807 - d) / 10) by lia.
          pose proof (Z.mul_div_le (9223372036854775807 - d) 10 ltac:(lia)). lia. }
        rewrite (wrap_s64_id (ret * 10)) by lia. rewrite (wrap_s64_id (ret * 10 + d)) by lia.
        rewrite (wrap_s64_id (i + 1)) by lia.
        split; [|lia]. split; [lia|]. split; [lia|].
        replace (Z.to_nat (i + 1)) with (S (Z.to_nat i)) by lia. exact Hm.
    + assert (i = n) by lia. subst i. subst n. rewrite Nat2Z.id, skipn_all in Hm.
      cbn [ascii_to_int_loop] in Hm. now symmetry.
  - unfold max_int. change (Z.to_nat 0) with 0%nat. cbn [skipn]. repeat split; try lia.
  - subst n. lia.
  - fold l in Eo. rewrite Eo. cbn [bind]. unfold ascii_to_int. fold l.
    destruct o as [[ret i]|r].
    + subst l. rewrite HQ. reflexivity.
    + destruct HQ as [-> HQ]. subst l. rewrite HQ. reflexivity.
Qed.

(* ------------------------------------------------------------------ list facts *)
Lemma fits_le l l' : (length l' <= length l)%nat -> fits l -> fits l'.
Proof. unfold fits. lia. Qed.

Lemma go_slice_nat l (i j : nat) : (i <= j <= length l)%nat ->
  go_slice (zb l) (Z.of_nat i) (Z.of_nat j) = Ok (zb (firstn (j - i) (skipn i l))).
Proof.
  intros H. rewrite go_slice_zb by lia. repeat f_equal; lia.
Qed.
Lemma firstn_app_exact {A} (x r : list A) : firstn (length x) (x ++ r) = x.
Proof. rewrite firstn_app, Nat.sub_diag, firstn_all. cbn [firstn]. apply app_nil_r. Qed.
Lemma skipn_app_exact {A} (x r : list A) : skipn (length x) (x ++ r) = r.
Proof. rewrite skipn_app, Nat.sub_diag, skipn_all. reflexivity. Qed.
Lemma skipn_app_cons {A} (x : list A) c r : skipn (S (length x)) (x ++ c :: r) = r.
Proof.
  replace (S (length x)) with (length (x ++ [c])) by (rewrite app_length; cbn; lia).
  replace (x ++ c :: r) with ((x ++ [c]) ++ r) by (rewrite <- app_assoc; reflexivity).
  apply skipn_app_exact.
Qed.

(* closed byte literals of the translation, seen as images of N lists *)
Ltac lits :=
  repeat match goal with
  | |- context [go_bytes_equal (zb ?a) ?k] =>
      lazymatch k with
      | zb _ => fail
      | _ => let k' := eval vm_compute in (nb k) in change k with (zb k')
      end
  end;
  repeat match goal with
  | |- context [bs ?s] => let v := eval vm_compute in (bs s) in change (bs s) with v
  end;
  unfold byte.

(* ------------------------------------------------------------------ bsplit3 *)
Definition zb3 (t : list N * list N * list N) : list Z * list Z * list Z :=
  let '(x, y, z) := t in (zb x, zb y, zb z).

Lemma g2_bsplit3_zb l c : fits l -> g2_bsplit3 (zb l) (Z.of_N c) = Ok (zb3 (bsplit3 l c)).
Proof.
  unfold fits. intros Hfit. unfold g2_bsplit3, bsplit3. rewrite go_len_zb.
  destruct (split_byte c l) as [[x r]|] eqn:E1.
  - destruct (go_index_byte_some c l x r E1) as [Ea El]. rewrite Ea. unfold byte in *.
    assert (Hlen : length l = (length x + S (length r))%nat) by (rewrite El, app_length; reflexivity).
    rewrite (wrap_s64_id (Z.of_nat (length x) + 1)) by lia.
    replace (Z.of_nat (length x) + 1) with (Z.of_nat (S (length x))) by lia.
    rewrite go_slice_nat by lia. cbn [bind].
    assert (Er : firstn (length l - S (length x)) (skipn (S (length x)) l) = r).
    { rewrite Hlen. rewrite El. rewrite skipn_app_cons. apply firstn_all2. unfold byte in *. lia. }
    rewrite Er.
    destruct (split_byte c r) as [[y z]|] eqn:E2.
    + destruct (go_index_byte_some c r y z E2) as [Eb Erl]. rewrite Eb. unfold byte in *.
      assert (Hlr : length r = (length y + S (length z))%nat) by (rewrite Erl, app_length; reflexivity).
      replace ((Z.of_nat (length x) =? -1) || (Z.of_nat (length y) =? -1)) with false by lia.
      rewrite (wrap_s64_id (Z.of_nat (length y) + Z.of_nat (S (length x)))) by lia.
      rewrite (wrap_s64_id (Z.of_nat (length y) + Z.of_nat (S (length x)) + 1)) by lia.
      replace (Z.of_nat (length y) + Z.of_nat (S (length x)) + 1) with (Z.of_nat (S (length y + S (length x)))) by lia.
      replace (Z.of_nat (length y) + Z.of_nat (S (length x))) with (Z.of_nat (length y + S (length x))) by lia.
      change 0 with (Z.of_nat 0).
      rewrite !go_slice_nat by lia. cbn [bind zb3]. change (skipn 0 l) with l. rewrite Nat.sub_0_r.
      assert (E3 : firstn (length x) l = x) by (rewrite El; apply firstn_app_exact).
      assert (E4 : firstn (length y + S (length x) - S (length x)) (skipn (S (length x)) l) = y).
      { rewrite El. rewrite skipn_app_cons. rewrite Erl.
        replace (length y + S (length x) - S (length x))%nat with (length y) by lia. apply firstn_app_exact. }
      assert (E5 : firstn (length l - S (length y + S (length x))) (skipn (S (length y + S (length x))) l) = z).
      { rewrite Hlen, Hlr. rewrite El. rewrite Erl.
        replace (x ++ c :: y ++ c :: z) with ((x ++ c :: y) ++ c :: z) by (rewrite <- app_assoc; reflexivity).
        replace (S (length y + S (length x))) with (S (length (x ++ c :: y))) by (rewrite app_length; cbn [length]; lia).
        rewrite skipn_app_cons. apply firstn_all2. rewrite app_length. cbn [length]. lia. }
      rewrite E3, E4, E5. reflexivity.
    + rewrite (go_index_byte_none c r E2).
      replace ((Z.of_nat (length x) =? -1) || (-1 =? -1)) with true by lia. reflexivity.
  - rewrite (go_index_byte_none c l E1). change (wrap_s 64 (-1 + 1)) with (Z.of_nat 0).
    rewrite go_slice_nat by lia. cbn [bind skipn]. rewrite Nat.sub_0_r, firstn_all.
    rewrite (go_index_byte_none c l E1). reflexivity.
Qed.

(* ------------------------------------------------------------------ httpParseVersion *)
Definition ver_proj (r : Z * Z * bool) : option (Z * Z) :=
  let '(ma, mi, ok) := r in if ok then Some (ma, mi) else None.

Lemma g2_httpParseVersion_zb l : fits l ->
  exists r, g2_httpParseVersion (zb l) = Ok r /\ ver_proj r = http_parse_version ascii_to_int l.
Proof.
  intros Hfit. unfold g2_httpParseVersion, http_parse_version. rewrite !go_len_zb.
  lits. rewrite !go_bytes_equal_zb.
  match goal with |- context [bytes_eqb l ?k] => destruct (bytes_eqb l k) end.
  { eexists; split; reflexivity. }
  match goal with |- context [bytes_eqb l ?k] => destruct (bytes_eqb l k) end.
  { eexists; split; reflexivity. }
  unfold len. destruct (Z.of_nat (length l) <? 8) eqn:E8.
  { replace (N.of_nat (length l) <? 8)%N with true by lia. eexists; split; reflexivity. }
  replace (N.of_nat (length l) <? 8)%N with false by lia.
  change 0 with (Z.of_nat 0). change 5 with (Z.of_nat 5).
  rewrite !go_slice_nat by lia. cbn [bind]. change (skipn 0 l) with l. change (5 - 0)%nat with 5%nat.
  lits. rewrite go_bytes_equal_zb.
  match goal with |- context [bytes_eqb (firstn 5 l) ?k] => destruct (bytes_eqb (firstn 5 l) k) end; cbn [negb];
    [|eexists; split; reflexivity].
  rewrite firstn_all2 by (rewrite skipn_length; lia).
  set (t := skipn 5 l). assert (Ht : (length t <= length l)%nat) by (subst t; rewrite skipn_length; lia).
  clearbody t. change 46 with (Z.of_N 46%N).
  destruct (split_byte 46%N t) as [[ma mi]|] eqn:Ed.
  - destruct (go_index_byte_some 46%N t ma mi Ed) as [Ea Et]. rewrite Ea. unfold byte in *.
    assert (Hlt : length t = (length ma + S (length mi))%nat) by (rewrite Et, app_length; reflexivity).
    replace (Z.of_nat (length ma) =? -1) with false by lia.
    rewrite go_len_zb. unfold fits in Hfit.
    rewrite (wrap_s64_id (Z.of_nat (length ma) + 1)) by lia.
    replace (Z.of_nat (length ma) + 1) with (Z.of_nat (S (length ma))) by lia.
    rewrite !go_slice_nat by lia. cbn [bind]. change (skipn 0 t) with t. rewrite Nat.sub_0_r.
    replace (firstn (length ma) t) with ma by (rewrite Et; symmetry; apply firstn_app_exact).
    replace (firstn (length t - S (length ma)) (skipn (S (length ma)) t)) with mi
      by (rewrite Hlt, Et; rewrite skipn_app_cons; symmetry; apply firstn_all2; lia).
    rewrite (g2_asciiToInt_zb ma) by (unfold fits; lia). cbn [bind].
    destruct (ascii_to_int ma) as [major|]; cbn [ati_res go_is_err]; [|eexists; split; reflexivity].
    rewrite (g2_asciiToInt_zb mi) by (unfold fits; lia). cbn [bind].
    destruct (ascii_to_int mi) as [minor|]; cbn [ati_res go_is_err]; eexists; split; reflexivity.
  - rewrite (go_index_byte_none 46%N t Ed). eexists; split; reflexivity.
Qed.

(* ------------------------------------------------------------------ request / response line *)
Definition req_proj (r : g2_httpRequestLine * option g_error) : option req_line :=
  match snd r with
  | None => Some (mkReqLine (nb (g2_httpRequestLine_method (fst r))) (nb (g2_httpRequestLine_uri (fst r)))
                            (g2_httpRequestLine_major (fst r)) (g2_httpRequestLine_minor (fst r)))
  | Some _ => None
  end.

Lemma g2_httpParseRequestLine_zb l : fits l ->
  exists r, g2_httpParseRequestLine (zb l) = Ok r
            /\ req_proj r = http_parse_request_line ascii_to_int l
            /\ (snd r = None \/ snd r = Some E_ErrMalformedRequest).
Proof.
  intros Hfit. unfold g2_httpParseRequestLine, http_parse_request_line.
  change 32 with (Z.of_N 32%N). rewrite g2_bsplit3_zb by exact Hfit.
  assert (Hl : let '(x, y, z) := bsplit3 l 32%N in (length z <= length l)%nat).
  { unfold bsplit3. destruct (split_byte 32%N l) as [[x r]|] eqn:E1; [|cbn; lia].
    destruct (go_index_byte_some 32%N l x r E1) as [_ ->].
    destruct (split_byte 32%N r) as [[y z]|] eqn:E2; [|cbn; lia].
    destruct (go_index_byte_some 32%N r y z E2) as [_ ->]. rewrite !app_length. cbn [length]. rewrite app_length. cbn [length]. lia. }
  destruct (bsplit3 l 32%N) as [[m u] p]. cbn [zb3 bind].
  destruct (g2_httpParseVersion_zb p (fits_le l p Hl Hfit)) as ([[ma mi] ok] & Ev & Ep).
  rewrite Ev. cbn [bind]. rewrite <- Ep. cbn [ver_proj].
  destruct ok; cbn [negb]; eexists; (split; [reflexivity|]); unfold req_proj; cbn; rewrite ?nb_zb; auto.
Qed.

Definition resp_proj (r : g2_httpResponseLine * option g_error) : option resp_line :=
  match snd r with
  | None => Some (mkRespLine (g2_httpResponseLine_major (fst r)) (g2_httpResponseLine_minor (fst r))
                             (g2_httpResponseLine_status (fst r)) (nb (g2_httpResponseLine_reason (fst r))))
  | Some _ => None
  end.

Lemma bsplit3_lengths l c : let '(x, y, z) := bsplit3 l c in
  (length x <= length l /\ length y <= length l /\ length z <= length l)%nat.
Proof.
  unfold bsplit3. destruct (split_byte c l) as [[x r]|] eqn:E1; [|cbn; lia].
  destruct (go_index_byte_some c l x r E1) as [_ ->].
  destruct (split_byte c r) as [[y z]|] eqn:E2; [|cbn; lia].
  destruct (go_index_byte_some c r y z E2) as [_ ->]. rewrite !app_length. cbn [length]. rewrite app_length. cbn [length]. lia.
Qed.

Lemma g2_httpParseResponseLine_zb l : fits l ->
  exists r, g2_httpParseResponseLine (zb l) = Ok r
            /\ resp_proj r = http_parse_response_line ascii_to_int l
            /\ (snd r = None \/ snd r = Some E_ErrMalformedResponse).
Proof.
  intros Hfit. unfold g2_httpParseResponseLine, http_parse_response_line.
  change 32 with (Z.of_N 32%N). rewrite g2_bsplit3_zb by exact Hfit.
  pose proof (bsplit3_lengths l 32%N) as Hl.
  destruct (bsplit3 l 32%N) as [[p st] reason]. destruct Hl as (Hp & Hst & _). cbn [zb3 bind]. unfold byte in *.
  destruct (g2_httpParseVersion_zb p (fits_le l p Hp Hfit)) as ([[ma mi] ok] & Ev & Ep).
  rewrite Ev. cbn [bind]. rewrite <- Ep. cbn [ver_proj].
  (* every guard is decided first, in whatever order the Go text tests them *)
  rewrite ?go_len_zb. unfold len.
  destruct (Z.of_nat (length st) =? 3) eqn:E3;
    [replace (N.of_nat (length st) =? 3)%N with true by lia
    |replace (N.of_nat (length st) =? 3)%N with false by lia];
  destruct ok; cbn [negb];
  rewrite ?(g2_asciiToInt_zb st (fits_le l st Hst Hfit)); cbn [bind];
  destruct (ascii_to_int st) as [code|]; cbn [ati_res go_is_err];
  eexists; (split; [reflexivity|]); unfold resp_proj; cbn; rewrite ?nb_zb; auto.
Qed.

(* ------------------------------------------------------------------ btrim *)
Lemma nth_skipn' {A} (d : A) i : forall k l, nth k (skipn i l) d = nth (i + k) l d.
Proof.
  induction i as [|i IH]; intros k l; [reflexivity|].
  destruct l as [|x l]; [destruct k; reflexivity|]. cbn [skipn Nat.add nth]. apply IH.
Qed.
Lemma firstn_snoc {A} (d : A) k : forall m, (k < length m)%nat ->
  firstn (S k) m = firstn k m ++ [nth k m d].
Proof.
  induction k as [|k IH]; intros [|x m] H; cbn [length] in H; try lia; [reflexivity|].
  cbn [firstn nth app]. f_equal. apply IH. lia.
Qed.

Lemma g2_btrim_zb l : fits l -> g2_btrim (zb l) = Ok (zb (btrim l)).
Proof.
  unfold fits. intros Hfit. unfold g2_btrim. rewrite !go_len_zb, zb_length.
  remember (Z.of_nat (length l)) as n eqn:Hn.
  match goal with |- context [go_loop ?f ?b 0] => set (body1 := b) end.
  destruct (go_loop_rule (R := list Z)
    (fun i => 0 <= i <= n /\ drop_blank l = drop_blank (skipn (Z.to_nat i) l))
    (fun i => Z.to_nat (n - i))
    (fun o => match o with
              | inl i => 0 <= i <= n /\ drop_blank l = skipn (Z.to_nat i) l
              | inr _ => False
              end)
    body1) with (fuel := (length l + 65)%nat) (s := 0) as (o & Eo & HQ).
  - intros i (Hi & Hm). subst body1. cbv beta.
    destruct (i <? n) eqn:Ein.
    + rewrite !go_index_zb by lia.
      rewrite (skipn_nth 0%N) in Hm by lia. set (c := nth (Z.to_nat i) l 0%N) in *.
      cbn [drop_blank] in Hm. unfold is_blank in Hm. cbn [bind].
      destruct (Z.of_N c =? 32) eqn:E32; cbn [bind].
      * replace ((c =? 32)%N || (c =? 9)%N) with true in Hm by lia.
        rewrite (wrap_s64_id (i + 1)) by lia. split; [|lia]. split; [lia|].
        replace (Z.to_nat (i + 1)) with (S (Z.to_nat i)) by lia. exact Hm.
      * destruct (Z.of_N c =? 9) eqn:E9.
        { replace ((c =? 32)%N || (c =? 9)%N) with true in Hm by lia.
          rewrite (wrap_s64_id (i + 1)) by lia. split; [|lia]. split; [lia|].
          replace (Z.to_nat (i + 1)) with (S (Z.to_nat i)) by lia. exact Hm. }
        replace ((c =? 32)%N || (c =? 9)%N) with false in Hm by lia.
        split; [lia|]. rewrite (skipn_nth 0%N) by lia. exact Hm.
    + cbn [bind]. split; [lia|]. rewrite Hm. assert (i = n) by lia. subst i n.
      rewrite Nat2Z.id, skipn_all. reflexivity.
  - change (Z.to_nat 0) with 0%nat. cbn [skipn]. split; [lia|reflexivity].
  - lia.
  - rewrite Eo. cbn [bind]. destruct o as [i|r]; [|contradiction]. destruct HQ as (Hi & Hdrop).
    set (m := skipn (Z.to_nat i) l) in *.
    assert (Hlm : length m = (length l - Z.to_nat i)%nat) by (subst m; apply skipn_length).
    match goal with |- context [go_loop ?f ?b n] => set (body2 := b) end.
    destruct (go_loop_rule (R := list Z)
      (fun j => i <= j <= n /\ drop_blank (rev m) = drop_blank (rev (firstn (Z.to_nat (j - i)) m)))
      (fun j => Z.to_nat j)
      (fun o => match o with
                | inl j => i <= j <= n /\ rev (drop_blank (rev m)) = firstn (Z.to_nat (j - i)) m
                | inr _ => False
                end)
      body2) with (fuel := (length l + 65)%nat) (s := n) as (o2 & Eo2 & HQ2).
    + intros j (Hj & Hm). subst body2. cbv beta.
      destruct (i <? j) eqn:Eij.
      * rewrite (wrap_s64_id (j - 1)) by lia. rewrite !go_index_zb by lia.
        assert (Ec : nth (Z.to_nat (j - 1)) l 0%N = nth (Z.to_nat (j - 1 - i)) m 0%N).
        { subst m. rewrite nth_skipn'. f_equal. lia. }
        set (c := nth (Z.to_nat (j - 1)) l 0%N) in *.
        replace (Z.to_nat (j - i)) with (S (Z.to_nat (j - 1 - i))) in Hm by lia.
        rewrite (firstn_snoc 0%N) in Hm by lia. rewrite <- Ec in Hm.
        rewrite rev_unit in Hm. cbn [drop_blank] in Hm. unfold is_blank in Hm. cbn [bind].
        destruct (Z.of_N c =? 32) eqn:E32; cbn [bind].
        { replace ((c =? 32)%N || (c =? 9)%N) with true in Hm by lia.
          split; [|lia]. split; [lia|]. exact Hm. }
        destruct (Z.of_N c =? 9) eqn:E9.
        { replace ((c =? 32)%N || (c =? 9)%N) with true in Hm by lia.
          split; [|lia]. split; [lia|]. exact Hm. }
        replace ((c =? 32)%N || (c =? 9)%N) with false in Hm by lia.
        split; [lia|]. rewrite Hm.
        replace (Z.to_nat (j - i)) with (S (Z.to_nat (j - 1 - i))) by lia.
        rewrite (firstn_snoc 0%N) by lia. rewrite <- Ec. rewrite <- rev_unit. apply rev_involutive.
      * cbn [bind]. assert (j = i) by lia. subst j. split; [lia|]. rewrite Hm.
        rewrite Z.sub_diag. reflexivity.
    + split; [lia|]. rewrite firstn_all2 by lia. reflexivity.
    + lia.
    + rewrite Eo2. cbn [bind]. destruct o2 as [j|r]; [|contradiction]. destruct HQ2 as (Hj & Hres).
      rewrite go_slice_zb by lia. cbn [bind]. fold m. rewrite <- Hres. unfold btrim. rewrite Hdrop. reflexivity.
Qed.

(* ------------------------------------------------------------------ canonicalizeHeaderKey *)
Lemma byte_sweep (P : N -> bool) :
  forallb P (map N.of_nat (seq 0 256)) = true -> forall c, (c < 256)%N -> P c = true.
Proof.
  intros H c Hc. rewrite forallb_forall in H. apply H. apply in_map_iff.
  exists (N.to_nat c). split; [lia|]. apply in_seq. lia.
Qed.
Lemma land_upper c : (97 <= c <= 122)%N -> Z.land (Z.of_N c) 223 = Z.of_N (c - 32).
Proof.
  intros H. apply Z.eqb_eq.
  assert (S : forall c, (c < 256)%N ->
            (negb ((97 <=? c)%N && (c <=? 122)%N) || (Z.land (Z.of_N c) 223 =? Z.of_N (c - 32))) = true).
  { apply byte_sweep. vm_compute. reflexivity. }
  specialize (S c ltac:(lia)). replace ((97 <=? c)%N && (c <=? 122)%N) with true in S by lia. exact S.
Qed.
Lemma lor_lower c : (65 <= c <= 90)%N -> Z.lor (Z.of_N c) 32 = Z.of_N (c + 32).
Proof.
  intros H. apply Z.eqb_eq.
  assert (S : forall c, (c < 256)%N ->
            (negb ((65 <=? c)%N && (c <=? 90)%N) || (Z.lor (Z.of_N c) 32 =? Z.of_N (c + 32))) = true).
  { apply byte_sweep. vm_compute. reflexivity. }
  specialize (S c ltac:(lia)). replace ((65 <=? c)%N && (c <=? 90)%N) with true in S by lia. exact S.
Qed.

Lemma go_index_app a x b : go_index (a ++ x :: b) (Z.of_nat (length a)) = Ok x.
Proof.
  unfold go_index, go_len. rewrite app_length. cbn [length].
  replace ((0 <=? Z.of_nat (length a)) && (Z.of_nat (length a) <? Z.of_nat (length a + S (length b)))) with true by lia.
  rewrite Nat2Z.id, app_nth2, Nat.sub_diag by lia. reflexivity.
Qed.

Lemma g2_canonicalizeHeaderKey_zb l : fits l -> g2_canonicalizeHeaderKey (zb l) = Ok (zb (canonicalize l)).
Proof.
  unfold fits. intros Hfit. unfold g2_canonicalizeHeaderKey, canonicalize. rewrite go_len_zb, zb_length.
  match goal with |- context [go_loop ?f ?b ?s] => set (body := b) end.
  destruct (go_loop_rule (R := list Z)
    (fun '(i, k, upper) => exists done, i = Z.of_nat (length done) /\ (length done <= length l)%nat /\
        k = zb done ++ zb (skipn (length done) l) /\
        canon_key true l = done ++ canon_key upper (skipn (length done) l))
    (fun '(i, k, upper) => Z.to_nat (Z.of_nat (length l) - i))
    (fun o => match o with
              | inl (i, k, upper) => k = zb (canon_key true l)
              | inr _ => False
              end)
    body) with (fuel := (length l + 65)%nat) (s := (0, zb l, true)) as (o & Eo & HQ).
  - intros [[i k] upper] (done & Hi & Hd & Hk & Hc). subst body. cbv beta iota.
    destruct (i <? Z.of_nat (length l)) eqn:Ein.
    + rewrite (skipn_nth 0%N) in Hk, Hc by lia. set (c := nth (length done) l 0%N) in *.
      set (rest := skipn (S (length done)) l) in *.
      cbn [zb map] in Hk. fold (zb rest) in Hk. cbn [canon_key] in Hc.
      assert (Hld : length (zb done) = length done) by apply zb_length.
      subst i k. rewrite <- Hld. rewrite !go_index_app. cbn [bind].
      assert (Hnext : forall c' : N,
        canon_key true l = done ++ c' :: canon_key (c =? 45)%N rest ->
        exists done0 : list N,
          Z.of_nat (length done) + 1 = Z.of_nat (length done0) /\ (length done0 <= length l)%nat /\
          zb done ++ Z.of_N c' :: zb rest = zb done0 ++ zb (skipn (length done0) l) /\
          canon_key true l = done0 ++ canon_key (Z.of_N c =? 45) (skipn (length done0) l)).
      { intros c' Hc'. exists (done ++ [c']). rewrite app_length. cbn [length].
        replace (length done + 1)%nat with (S (length done)) by lia. fold rest.
        split; [lia|]. split; [lia|]. split.
        - rewrite zb_app, <- app_assoc. reflexivity.
        - rewrite <- app_assoc. replace (Z.of_N c =? 45) with (c =? 45)%N by lia. exact Hc'. }
      destruct ((upper && (97 <=? Z.of_N c)) && (Z.of_N c <=? 122)) eqn:EA.
      * rewrite go_set_index_app. cbn [bind]. rewrite Hld.
        replace (upper && (97 <=? c)%N && (c <=? 122)%N) with true in Hc by (destruct upper; lia).
        rewrite land_upper by (destruct upper; lia). split; [|lia]. apply Hnext. exact Hc.
      * replace (upper && (97 <=? c)%N && (c <=? 122)%N) with false in Hc by (destruct upper; lia).
        destruct ((negb upper && (65 <=? Z.of_N c)) && (Z.of_N c <=? 90)) eqn:EB.
        { rewrite ?go_index_app. cbn [bind]. rewrite go_set_index_app. cbn [bind]. rewrite Hld.
          replace (negb upper && (65 <=? c)%N && (c <=? 90)%N) with true in Hc by (destruct upper; lia).
          rewrite lor_lower by (destruct upper; lia). split; [|lia]. apply Hnext. exact Hc. }
        replace (negb upper && (65 <=? c)%N && (c <=? 90)%N) with false in Hc by (destruct upper; lia).
        rewrite Hld. split; [|lia]. apply Hnext. exact Hc.
    + assert (length done = length l) by lia. rewrite H, skipn_all in Hk, Hc. cbn [canon_key zb map] in Hk, Hc.
      rewrite app_nil_r in Hk, Hc. subst k. rewrite Hc. reflexivity.
  - exists []. cbn [length skipn app zb map]. repeat split; try lia.
  - lia.
  - rewrite Eo. cbn [bind]. destruct o as [[[i k] upper]|r]; [|contradiction]. rewrite HQ. reflexivity.
Qed.

(* ------------------------------------------------------------------ httpParseHeaderLine *)
Definition hdr_proj (r : list Z * list Z * bool) : option (list N * list N) :=
  let '(k, v, ok) := r in if ok then Some (nb k, nb v) else None.

Lemma btrim_length l : (length (btrim l) <= length l)%nat.
Proof.
  assert (D : forall m, (length (drop_blank m) <= length m)%nat).
  { induction m as [|c m IH]; cbn [drop_blank length]; [lia|]. destruct (is_blank c); cbn [length]; lia. }
  unfold btrim. rewrite rev_length. etransitivity; [apply D|]. rewrite rev_length. apply D.
Qed.

Lemma g2_httpParseHeaderLine_zb l : fits l ->
  exists r, g2_httpParseHeaderLine (zb l) = Ok r /\ hdr_proj r = http_parse_header_line l.
Proof.
  intros Hfit. unfold g2_httpParseHeaderLine, http_parse_header_line. rewrite go_len_zb.
  change 58 with (Z.of_N 58%N).
  destruct (split_byte 58%N l) as [[k v]|] eqn:E.
  - destruct (go_index_byte_some 58%N l k v E) as [Ea El]. rewrite Ea. unfold byte in *.
    assert (Hlen : length l = (length k + S (length v))%nat) by (rewrite El, app_length; reflexivity).
    unfold fits in Hfit.
    replace (Z.of_nat (length k) =? -1) with false by lia.
    rewrite (wrap_s64_id (Z.of_nat (length k) + 1)) by lia.
    replace (Z.of_nat (length k) + 1) with (Z.of_nat (S (length k))) by lia.
    change 0 with (Z.of_nat 0). rewrite !go_slice_nat by lia. cbn [bind]. change (skipn 0 l) with l.
    rewrite Nat.sub_0_r.
    replace (firstn (length k) l) with k by (rewrite El; symmetry; apply firstn_app_exact).
    replace (firstn (length l - S (length k)) (skipn (S (length k)) l)) with v
      by (rewrite Hlen, El; rewrite skipn_app_cons; symmetry; apply firstn_all2; lia).
    rewrite (g2_btrim_zb k) by (unfold fits; lia). cbn [bind].
    rewrite g2_canonicalizeHeaderKey_zb by (unfold fits; pose proof (btrim_length k); unfold byte in *; lia). cbn [bind].
    rewrite (g2_btrim_zb v) by (unfold fits; lia). cbn [bind].
    eexists; split; [reflexivity|]. cbn [hdr_proj]. rewrite !nb_zb. reflexivity.
  - rewrite (go_index_byte_none 58%N l E). eexists; split; reflexivity.
Qed.

(* ------------------------------------------------------------------ pow *)
Definition pow_acc (a b p : Z) : Z := match b with Zpos q => pow64_pos a p q | _ => p end.
Definition pow_meas (b : Z) : nat := match b with Zpos q => S (Z.to_nat (Z.log2 (Zpos q))) | _ => O end.

Lemma g2_pow_ok a b : b <= 9223372036854775807 -> g2_pow a b = Ok (pow64 a (Z.to_N b)).
Proof.
  intros Hb. unfold g2_pow.
  match goal with |- context [go_loop ?f ?bd ?s] => set (body := bd) end.
  destruct (go_loop_rule (R := Z)
    (fun '(a', b', p') => b' <= 9223372036854775807 /\ pow_acc a' b' p' = pow_acc a b 1)
    (fun '(a', b', p') => pow_meas b')
    (fun o => match o with
              | inl (a', b', p') => p' = pow_acc a b 1
              | inr _ => False
              end)
    body) with (fuel := 65%nat) (s := (a, b, 1)) as (o & Eo & HQ).
  - intros [[a' b'] p'] (Hb' & Hacc). subst body. cbv beta iota.
    destruct b' as [|q|q]; cbn [Z.ltb Z.compare]; [exact Hacc| |exact Hacc].
    change (wrap_s 64 (p' * a')) with (wrap64 (p' * a')). change (wrap_s 64 (a' * a')) with (wrap64 (a' * a')).
    unfold pow_acc in Hacc at 1. unfold pow_meas at 2.
    destruct q as [q|q|].
    + change (Z.land (Z.pos q~1) 1) with 1. change (Z.shiftr (Z.pos q~1) 1) with (Z.pos q). cbn [Z.eqb negb].
      cbn [pow64_pos] in Hacc. split; [split; [lia|exact Hacc]|].
      unfold pow_meas. rewrite Pos2Z.inj_xI, Z.log2_succ_double by lia.
      pose proof (Z.log2_nonneg (Z.pos q)). lia.
    + change (Z.land (Z.pos q~0) 1) with 0. change (Z.shiftr (Z.pos q~0) 1) with (Z.pos q). cbn [Z.eqb negb].
      cbn [pow64_pos] in Hacc. split; [split; [lia|exact Hacc]|].
      unfold pow_meas. rewrite Pos2Z.inj_xO, Z.log2_double by lia.
      pose proof (Z.log2_nonneg (Z.pos q)). lia.
    + change (Z.land 1 1) with 1. change (Z.shiftr 1 1) with 0. cbn [Z.eqb negb].
      cbn [pow64_pos] in Hacc. split; [split; [lia|exact Hacc]|]. cbn [pow_meas]. lia.
  - split; [exact Hb|reflexivity].
  - unfold pow_meas. destruct b as [|q|q]; try lia.
    assert (Z.log2 (Z.pos q) < 63) by (apply Z.log2_lt_pow2; lia). pose proof (Z.log2_nonneg (Z.pos q)). lia.
  - rewrite Eo. cbn [bind]. destruct o as [[[a' b'] p']|r]; [|contradiction]. rewrite HQ.
    unfold pow_acc, pow64. destruct b; reflexivity.
Qed.

(* ------------------------------------------------------------------ statements over Z lists *)
(* every element a byte, the length an int: what a Go []byte is *)
Definition go_slice_val (l : list Z) : Prop := go_bytes l /\ go_fits l.

Lemma slice_val_zb l : go_slice_val l -> zb (nb l) = l /\ fits (nb l).
Proof.
  intros [Hb Hf]. split; [apply zb_nb, Hb|]. unfold fits, nb. rewrite map_length. exact Hf.
Qed.

Ltac to_zb l H :=
  let E := fresh "E" in let F := fresh "F" in let l' := fresh "l'" in let Hl := fresh "Hl" in
  destruct (slice_val_zb l H) as [E F]; remember (nb l) as l' eqn:Hl; clear Hl H; subst l.

Theorem source_asciiToInt l : go_slice_val l ->
  g2_asciiToInt l = Ok (ati_res (ascii_to_int (nb l))).
Proof. intros H. to_zb l H. apply g2_asciiToInt_zb; assumption. Qed.

Theorem source_bsplit3 l c : go_slice_val l -> 0 <= c < 256 ->
  g2_bsplit3 l c = Ok (zb3 (bsplit3 (nb l) (Z.to_N c))).
Proof.
  intros H Hc. to_zb l H.
  replace c with (Z.of_N (Z.to_N c)) at 1 by lia. apply g2_bsplit3_zb. assumption.
Qed.

Theorem source_btrim l : go_slice_val l -> g2_btrim l = Ok (zb (btrim (nb l))).
Proof. intros H. to_zb l H. apply g2_btrim_zb; assumption. Qed.

Theorem source_canonicalizeHeaderKey l : go_slice_val l ->
  g2_canonicalizeHeaderKey l = Ok (zb (canonicalize (nb l))).
Proof. intros H. to_zb l H. apply g2_canonicalizeHeaderKey_zb; assumption. Qed.

Theorem source_httpParseVersion l : go_slice_val l ->
  exists r, g2_httpParseVersion l = Ok r /\ ver_proj r = http_parse_version ascii_to_int (nb l).
Proof. intros H. to_zb l H. apply g2_httpParseVersion_zb; assumption. Qed.

Theorem source_httpParseRequestLine l : go_slice_val l ->
  exists r, g2_httpParseRequestLine l = Ok r
            /\ req_proj r = http_parse_request_line ascii_to_int (nb l)
            /\ (snd r = None \/ snd r = Some E_ErrMalformedRequest).
Proof. intros H. to_zb l H. apply g2_httpParseRequestLine_zb; assumption. Qed.

Theorem source_httpParseResponseLine l : go_slice_val l ->
  exists r, g2_httpParseResponseLine l = Ok r
            /\ resp_proj r = http_parse_response_line ascii_to_int (nb l)
            /\ (snd r = None \/ snd r = Some E_ErrMalformedResponse).
Proof. intros H. to_zb l H. apply g2_httpParseResponseLine_zb; assumption. Qed.

Theorem source_httpParseHeaderLine l : go_slice_val l ->
  exists r, g2_httpParseHeaderLine l = Ok r /\ hdr_proj r = http_parse_header_line (nb l).
Proof. intros H. to_zb l H. apply g2_httpParseHeaderLine_zb; assumption. Qed.

(* no panic, no exhausted fuel: the four handshake line parsers and their helpers *)
Definition normal {A} (r : res A) : Prop := exists a, r = Ok a.

Theorem source_no_panic l : go_slice_val l ->
  normal (g2_httpParseRequestLine l) /\ normal (g2_httpParseResponseLine l) /\
  normal (g2_httpParseHeaderLine l) /\ normal (g2_httpParseVersion l) /\
  normal (g2_asciiToInt l) /\ normal (g2_btrim l) /\ normal (g2_canonicalizeHeaderKey l) /\
  (forall c, 0 <= c < 256 -> normal (g2_bsplit3 l c)).
Proof.
  intros H. unfold normal.
  destruct (source_httpParseRequestLine l H) as (r1 & E1 & _).
  destruct (source_httpParseResponseLine l H) as (r2 & E2 & _).
  destruct (source_httpParseHeaderLine l H) as (r3 & E3 & _).
  destruct (source_httpParseVersion l H) as (r4 & E4 & _).
  repeat split; eauto using source_asciiToInt, source_btrim, source_canonicalizeHeaderKey.
  intros c Hc. eexists. apply source_bsplit3; assumption.
Qed.

(* ------------------------------------------------------------------ the forms used in props/ *)
Lemma src_request_line l : go_bytes l -> go_fits l ->
  exists r, g2_httpParseRequestLine l = Ok r
            /\ req_proj r = http_parse_request_line ascii_to_int (nb l)
            /\ (snd r = None \/ snd r = Some E_ErrMalformedRequest).
Proof. intros Hb Hf. apply source_httpParseRequestLine. split; assumption. Qed.
Lemma src_response_line l : go_bytes l -> go_fits l ->
  exists r, g2_httpParseResponseLine l = Ok r
            /\ resp_proj r = http_parse_response_line ascii_to_int (nb l)
            /\ (snd r = None \/ snd r = Some E_ErrMalformedResponse).
Proof. intros Hb Hf. apply source_httpParseResponseLine. split; assumption. Qed.
Lemma src_header_line l : go_bytes l -> go_fits l ->
  exists r, g2_httpParseHeaderLine l = Ok r /\ hdr_proj r = http_parse_header_line (nb l).
Proof. intros Hb Hf. apply source_httpParseHeaderLine. split; assumption. Qed.
Lemma src_version l : go_bytes l -> go_fits l ->
  exists r, g2_httpParseVersion l = Ok r /\ ver_proj r = http_parse_version ascii_to_int (nb l).
Proof. intros Hb Hf. apply source_httpParseVersion. split; assumption. Qed.
Lemma src_number_parser l : go_bytes l -> go_fits l ->
  g2_asciiToInt l = Ok (match ascii_to_int (nb l) with
                        | Some v => (v, None)
                        | None => (0, Some E_fmt_Errorf)
                        end).
Proof. intros Hb Hf. apply source_asciiToInt. split; assumption. Qed.
Lemma src_line_helpers l : go_bytes l -> go_fits l ->
  g2_btrim l = Ok (zb (btrim (nb l))) /\
  g2_canonicalizeHeaderKey l = Ok (zb (canonicalize (nb l))) /\
  (forall c, 0 <= c < 256 ->
     g2_bsplit3 l c = Ok (let '(x, y, z) := bsplit3 (nb l) (Z.to_N c) in (zb x, zb y, zb z))).
Proof.
  intros Hb Hf. assert (H : go_slice_val l) by (split; assumption).
  split; [apply source_btrim, H|]. split; [apply source_canonicalizeHeaderKey, H|].
  intros c Hc. apply source_bsplit3; assumption.
Qed.
Lemma src_arith_helpers a b :
  g2_min a b = Ok (Z.min a b) /\ g2_nonZero a b = Ok (if a =? 0 then b else a) /\
  (b <= 9223372036854775807 -> g2_pow a b = Ok (pow64 a (Z.to_N b))).
Proof. split; [apply g2_min_ok|]. split; [apply g2_nonZero_ok|]. apply g2_pow_ok. Qed.

Lemma src_no_panic_parsers l : go_bytes l -> go_fits l ->
  (exists r, g2_httpParseRequestLine l = Ok r) /\ (exists r, g2_httpParseResponseLine l = Ok r) /\
  (exists r, g2_httpParseHeaderLine l = Ok r) /\ (exists r, g2_httpParseVersion l = Ok r).
Proof.
  intros Hb Hf. destruct (source_no_panic l (conj Hb Hf)) as (H1 & H2 & H3 & H4 & _). auto.
Qed.
Lemma src_no_panic_helpers l : go_bytes l -> go_fits l ->
  (exists r, g2_asciiToInt l = Ok r) /\ (exists r, g2_btrim l = Ok r) /\
  (exists r, g2_canonicalizeHeaderKey l = Ok r) /\
  (forall c, 0 <= c < 256 -> exists r, g2_bsplit3 l c = Ok r).
Proof.
  intros Hb Hf. destruct (source_no_panic l (conj Hb Hf)) as (_ & _ & _ & _ & H5 & H6 & H7 & H8). auto.
Qed.
