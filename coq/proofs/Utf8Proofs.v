Require Import Bytes Stream Utf8Spec Extracted ExtractedOk Utf8Dfa BytesProofs StreamProofs.
From Coq Require Import ZifyBool ZifyN ZifyNat.
Open Scope N_scope.

(* residual spec automaton derived from Table 3-7: state = what must follow *)
Definition guard (s b : N) : bool :=
  match s with
  | 0 => (b <=? 127) || in_rng 194 244 b
  | 24 => cont b | 36 => cont b | 84 => cont b
  | 48 => in_rng 160 191 b
  | 60 => in_rng 128 159 b
  | 72 => in_rng 144 191 b
  | 96 => in_rng 128 143 b
  | _ => false
  end.
Definition next (s b : N) : N :=
  match s with
  | 0 => if b <=? 127 then 0 else if in_rng 194 223 b then 24 else if b =? 224 then 48
         else if in_rng 225 236 b || in_rng 238 239 b then 36 else if b =? 237 then 60
         else if b =? 240 then 72 else if in_rng 241 243 b then 84 else 96
  | 24 => 0 | 36 => 24 | 84 => 36 | 48 => 24 | 60 => 24 | 72 => 36 | 96 => 36
  | _ => 12
  end.
Definition states : list N := [0; 12; 24; 36; 48; 60; 72; 84; 96].

(* finite check against the table read from the source: 9 states x 256 bytes *)
Lemma table_ok : forallb (fun s => forallb (fun b =>
   (u8_decode s b =? (if guard s b then next s b else 12)) && u8_index_ok s b) all_bytes) states = true.
Proof. vm_compute. reflexivity. Qed.

Lemma decode_spec s b : In s states -> b < 256 ->
  u8_decode s b = (if guard s b then next s b else 12) /\ u8_index_ok s b = true.
Proof.
  intros Hs Hb. pose proof table_ok as T.
  rewrite forallb_forall in T. specialize (T s Hs).
  rewrite forallb_forall in T. specialize (T b (in_all_bytes b Hb)).
  apply andb_true_iff in T. destruct T as [T1 T2]. apply N.eqb_eq in T1. split; assumption.
Qed.

Fixpoint vf (s : N) (l : list byte) : bool :=
  match l with [] => s =? 0 | b :: r => guard s b && vf (next s b) r end.

Lemma next_states s b : In s states -> In (next s b) states.
Proof.
  unfold states; simpl; intros H.
  repeat (destruct H as [<-|H]; [ cbn [next]; repeat (match goal with |- context[if ?c then _ else _] => destruct c end); simpl; tauto |]).
  contradiction.
Qed.

Lemma decode_states s b : In s states -> b < 256 -> In (u8_decode s b) states.
Proof.
  intros Hs Hb. rewrite (proj1 (decode_spec s b Hs Hb)).
  destruct (guard s b); [apply next_states, Hs| simpl; tauto].
Qed.

Lemma run_states l : wf_bytes l -> forall s, In s states -> In (u8_run s l) states.
Proof.
  induction 1 as [|b l Hb _ IH]; intros s Hs; [exact Hs|].
  unfold u8_run in *. cbn [fold_left]. apply IH, decode_states; assumption.
Qed.

Lemma run12 l : wf_bytes l -> u8_run 12 l = 12.
Proof.
  induction 1 as [|b l Hb _ IH]; [reflexivity|].
  unfold u8_run in *; cbn [fold_left]. rewrite (proj1 (decode_spec 12 b ltac:(simpl; tauto) Hb)). exact IH.
Qed.

Lemma run_app s a b : u8_run s (a ++ b) = u8_run (u8_run s a) b.
Proof. unfold u8_run. apply fold_left_app. Qed.

Lemma run_vf l : wf_bytes l -> forall s, In s states -> (u8_run s l =? 0) = vf s l.
Proof.
  induction 1 as [|b l Hb Hl IH]; intros s Hs; [reflexivity|].
  unfold u8_run in *; cbn [fold_left vf]. rewrite (proj1 (decode_spec s b Hs Hb)).
  destruct (guard s b); cbn [andb].
  - apply IH, next_states, Hs.
  - fold (u8_run 12 l). rewrite run12 by exact Hl. reflexivity.
Qed.

Ltac fin IH := rewrite ?andb_false_r; try reflexivity;
  rewrite <- ?andb_assoc; repeat f_equal; apply IH; simpl in *; lia.
Lemma vf_valid_len n : forall l, (length l <= n)%nat -> vf 0 l = valid_utf8 l.
Proof.
  induction n as [|n IH]; intros l Hl.
  - destruct l; [reflexivity| simpl in Hl; lia].
  - destruct l as [|b0 r]; [reflexivity|]. simpl in Hl.
    cbn [vf valid_utf8 guard next].
    destruct (b0 <=? 127) eqn:E0; cbn [orb andb]. { apply IH; lia. }
    destruct (in_rng 194 223 b0) eqn:E1.
    { assert (G: in_rng 194 244 b0 = true) by (unfold in_rng in *; lia); rewrite G; cbn [andb].
      destruct r as [|b1 r1]; cbn [vf guard next]; fin IH. }
    destruct (b0 =? 224) eqn:E2.
    { assert (G: in_rng 194 244 b0 = true) by (unfold in_rng in *; lia); rewrite G; cbn [andb].
      destruct r as [|b1 [|b2 r2]]; cbn [vf guard next]; fin IH. }
    destruct (in_rng 225 236 b0 || in_rng 238 239 b0) eqn:E3.
    { assert (G: in_rng 194 244 b0 = true) by (unfold in_rng in *; lia); rewrite G; cbn [andb].
      destruct r as [|b1 [|b2 r2]]; cbn [vf guard next]; fin IH. }
    destruct (b0 =? 237) eqn:E4.
    { assert (G: in_rng 194 244 b0 = true) by (unfold in_rng in *; lia); rewrite G; cbn [andb].
      destruct r as [|b1 [|b2 r2]]; cbn [vf guard next]; fin IH. }
    destruct (b0 =? 240) eqn:E5.
    { assert (G: in_rng 194 244 b0 = true) by (unfold in_rng in *; lia); rewrite G; cbn [andb].
      destruct r as [|b1 [|b2 [|b3 r3]]]; cbn [vf guard next]; fin IH. }
    destruct (in_rng 241 243 b0) eqn:E6.
    { assert (G: in_rng 194 244 b0 = true) by (unfold in_rng in *; lia); rewrite G; cbn [andb].
      destruct r as [|b1 [|b2 [|b3 r3]]]; cbn [vf guard next]; fin IH. }
    destruct (b0 =? 244) eqn:E7.
    { assert (G: in_rng 194 244 b0 = true) by (unfold in_rng in *; lia); rewrite G; cbn [andb].
      destruct r as [|b1 [|b2 [|b3 r3]]]; cbn [vf guard next]; fin IH. }
    assert (G: in_rng 194 244 b0 = false) by (unfold in_rng in *; lia). rewrite G. reflexivity.
Qed.

(* the DFA with the table from the source decides exactly Table 3-7 *)
Theorem dfa_correct l : wf_bytes l -> (u8_run 0 l =? 0) = valid_utf8 l.
Proof.
  intros H. rewrite (run_vf l H 0) by (simpl; tauto). apply (vf_valid_len (length l)). apply le_n.
Qed.

(* reject state: no extension is valid; any other reachable state: some extension is *)
Theorem dfa_reject_dead l ext : wf_bytes l -> wf_bytes ext -> u8_run 0 l = 12 -> valid_utf8 (l ++ ext) = false.
Proof.
  intros Hl He H. rewrite <- dfa_correct by (apply wf_bytes_app; split; assumption).
  rewrite run_app, H, run12 by exact He. reflexivity.
Qed.

Definition completion (s : N) : list byte :=
  match s with
  | 24 => [128] | 36 => [128; 128] | 48 => [160; 128] | 60 => [128; 128]
  | 72 => [144; 128; 128] | 84 => [128; 128; 128] | 96 => [128; 128; 128]
  | _ => []
  end.
Lemma completion_ok : forallb (fun s => (s =? 12) || ((u8_run s (completion s) =? 0) && wf_bytesb (completion s))) states = true.
Proof. vm_compute. reflexivity. Qed.

Theorem dfa_live_completable l : wf_bytes l -> u8_run 0 l <> 12 ->
  exists ext, wf_bytes ext /\ valid_utf8 (l ++ ext) = true.
Proof.
  intros Hl H. set (s := u8_run 0 l) in *.
  assert (Hs: In s states) by (apply run_states; [exact Hl|simpl; tauto]).
  pose proof completion_ok as C. rewrite forallb_forall in C. specialize (C s Hs).
  apply orb_true_iff in C. destruct C as [C|C]; [lia|].
  apply andb_true_iff in C. destruct C as [C1 C2]. apply wf_bytesb_ok in C2.
  exists (completion s). split; [exact C2|].
  rewrite <- dfa_correct by (apply wf_bytes_app; split; assumption).
  rewrite run_app. fold s. exact C1.
Qed.

(* table index never out of range on reachable states (C15) *)
Lemma index_never_panics l b : wf_bytes l -> b < 256 -> u8_index_ok (u8_run 0 l) b = true.
Proof. intros Hl Hb. apply decode_spec; [apply run_states; [exact Hl|simpl; tauto]|exact Hb]. Qed.

(* ---------- UTF8Reader ---------- *)
Lemma scan_spec bs : forall s acc i, wf_bytes bs -> In s states -> s <> 12 ->
  let '(st, a, rej) := u8_scan s acc i bs in
  (rej = true -> u8_run s bs = 12 /\ st = 12) /\
  (rej = false -> st = u8_run s bs /\ st <> 12).
Proof.
  induction bs as [|b r IH]; intros s acc i Hw Hs Hn; cbn [u8_scan].
  - split; [discriminate|]. intros _. split; [reflexivity|exact Hn].
  - inversion Hw as [|? ? Hb Hr]; subst.
    rewrite ok_utf8_reject. destruct (u8_decode s b =? 12) eqn:E.
    + split; [|discriminate]. intros _. unfold u8_run. cbn [fold_left]. fold (u8_run (u8_decode s b) r).
      replace (u8_decode s b) with 12 by lia. rewrite run12 by exact Hr. split; reflexivity.
    + specialize (IH (u8_decode s b) (if u8_decode s b =? utf8_accept then i + 1 else acc) (i + 1) Hr
                     (decode_states s b Hs Hb) ltac:(lia)).
      destruct (u8_scan (u8_decode s b) _ (i + 1) r) as [[st a] rej].
      unfold u8_run in *. cbn [fold_left]. exact IH.
Qed.

Definition drive_ok (st : N) (fl acc : list byte) (r : list byte * option u8err * u8reader) : Prop :=
  let '(out, e, u') := r in
  match e with
  | Some (U8Io EEOF) => out = acc ++ fl /\ u_state u' = u8_run st fl /\ u_state u' <> 12
  | Some U8Invalid => u8_run st fl = 12 /\ u_state u' = 12
  | _ => False
  end.

Lemma u8_drive_spec fuel : forall bufs all u acc,
  wf_src (u_src u) -> wf_bytes (flat (u_src u)) -> tl (u_src u) = TEOF ->
  In (u_state u) states -> u_state u <> 12 ->
  (length (flat (u_src u)) < fuel)%nat ->
  drive_ok (u_state u) (flat (u_src u)) acc (u8_drive fuel bufs all u acc).
Proof.
  induction fuel as [|f IH]; intros bufs all u acc Hwf Hb Ht Hs Hn Hf; [lia|].
  cbn [u8_drive].
  set (kb := match bufs with
             | [] => match all with [] => (1, []) | k :: r => (k, r) end
             | k :: r => (k, r) end).
  destruct kb as [k0 bufs']. set (k := if k0 =? 0 then 1 else k0).
  assert (Hkpos: 0 < k) by (unfold k; destruct (k0 =? 0) eqn:?; lia).
  unfold u8_read. pose proof (read1_props_u k (u_src u) Hwf Hkpos) as R.
  destruct (read1 k (u_src u)) as [[b e] s']. destruct e as [e|].
  - destruct R as (-> & Hfl & ->). rewrite Ht. cbn [u8_scan]. rewrite Hfl.
    unfold drive_ok. cbn [u_state]. rewrite take_0_nil, app_nil_r.
    split; [reflexivity|split; [reflexivity|exact Hn]].
  - destruct R as (Hne & Hfl & Hw' & Ht').
    assert (Hbw: wf_bytes b /\ wf_bytes (flat s')) by (rewrite Hfl in Hb; apply wf_bytes_app in Hb; exact Hb).
    destruct Hbw as [Hbw Hsw].
    pose proof (scan_spec b (u_state u) 0 0 Hbw Hs Hn) as S.
    destruct (u8_scan (u_state u) 0 0 b) as [[st a] rej]. destruct S as [S1 S2].
    destruct rej.
    + destruct (S1 eq_refl) as [Hr Hst]. unfold drive_ok. cbn [u_state].
      split; [|exact Hst]. rewrite Hfl, run_app, Hr. apply run12, Hsw.
    + destruct (S2 eq_refl) as [Hst Hst12].
      specialize (IH bufs' all (mkU8 s' st a) (acc ++ take (len b) b)).
      cbn [u_src u_state] in IH.
      assert (Hin: In st states) by (rewrite Hst; apply run_states; assumption).
      specialize (IH Hw' Hsw ltac:(congruence) Hin Hst12).
      assert (Hf': (length (flat s') < f)%nat).
      { rewrite Hfl, app_length in Hf. destruct b; [contradiction|]. simpl in Hf. lia. }
      specialize (IH Hf'). unfold drive_ok in *.
      destruct (u8_drive f bufs' all (mkU8 s' st a) (acc ++ take (len b) b)) as [[out e] u'].
      rewrite (take_all (len b) b) in IH by lia.
      destruct e as [[[| |]|]|]; try contradiction.
      * destruct IH as (Ho & Hu & Hu12). rewrite Hfl, run_app, <- Hst, app_assoc. repeat split; assumption.
      * destruct IH as (Hr & Hu). rewrite Hfl, run_app, <- Hst. split; assumption.
Qed.

(* standalone validating reader: for every chunking and caller buffer sizes, the
   stream is reported complete-and-valid exactly when the whole is valid UTF-8 *)
Theorem u8_reader_accepts_iff_valid fuel bufs all s :
  wf_src s -> wf_bytes (flat s) -> tl s = TEOF -> (length (flat s) < fuel)%nat ->
  u8_accepts (u8_drive fuel bufs all (mkU8 s 0 0) []) = valid_utf8 (flat s).
Proof.
  intros Hwf Hb Ht Hf.
  pose proof (u8_drive_spec fuel bufs all (mkU8 s 0 0) [] Hwf Hb Ht ltac:(simpl; tauto) ltac:(cbn; lia) Hf) as D.
  cbn [u_src u_state] in D. unfold drive_ok, u8_accepts in *.
  destruct (u8_drive fuel bufs all (mkU8 s 0 0) []) as [[out e] u'].
  rewrite <- (dfa_correct _ Hb).
  destruct e as [[[| |]|]|]; try contradiction.
  - destruct D as (_ & Hu & _). unfold u8_valid. rewrite ok_utf8_accept, Hu. reflexivity.
  - destruct D as (Hr & _). rewrite Hr. reflexivity.
Qed.
