(* Local (single-operation) facts about the Reader model used by C16: a source
   that ends before the announced payload length never looks complete. *)
Require Import Bytes Stream Utf8Spec Check Frame Cipher Utf8Dfa Extracted Reader BytesProofs StreamProofs.
From Coq Require Import ZifyBool ZifyN ZifyNat.
Open Scope N_scope.

(* draining a cut payload is an error, for every chunking, EOF or failing tail *)
Lemma raw_drain_cut r : wf_src (r_src r) -> len (flat (r_src r)) < r_rawN r ->
  fst (raw_drain r) <> None.
Proof.
  intros Hwf Hlt. unfold raw_drain.
  pose proof (read_full_short (r_rawN r) (r_src r) Hwf Hlt) as R.
  destruct (read_full (r_rawN r) (r_src r)) as [[b e] s']. destruct R as (_ & _ & -> & _).
  destruct (tl (r_src r)); [destruct (len (flat (r_src r)) =? 0)|]; cbn [fst]; discriminate.
Qed.

(* draining a complete payload consumes exactly N bytes and succeeds *)
Lemma raw_drain_ok r : wf_src (r_src r) -> r_rawN r <= len (flat (r_src r)) ->
  fst (raw_drain r) = None /\ flat (r_src (snd (raw_drain r))) = drop (r_rawN r) (flat (r_src r))
  /\ r_rawN (snd (raw_drain r)) = 0 /\ wf_src (r_src (snd (raw_drain r))).
Proof.
  intros Hwf Hle. unfold raw_drain.
  pose proof (read_full_ok (r_rawN r) (r_src r) Hwf Hle) as R.
  destruct (read_full (r_rawN r) (r_src r)) as [[b e] s']. destruct R as (-> & -> & Hf & Hw & _).
  cbn [fst snd r_src r_rawN]. repeat split; auto. rewrite len_take. lia.
Qed.

(* the read-all control callback is never handed a silently shortened payload:
   on a cut payload it fails and records nothing *)
Lemma cb_read_all_cut h m k r : wf_src (r_src r) -> len (flat (r_src r)) < r_rawN r ->
  fst (cb_read_all h m k r) <> None /\ r_log (snd (cb_read_all h m k r)) = r_log r.
Proof.
  intros Hwf Hlt. unfold cb_read_all.
  pose proof (read_full_short (r_rawN r) (r_src r) Hwf Hlt) as R.
  destruct (read_full (r_rawN r) (r_src r)) as [[b e] s']. destruct R as (_ & _ & -> & _).
  destruct (tl (r_src r)); [destruct (len (flat (r_src r)) =? 0)|]; cbn [fst snd r_log]; split; try discriminate; reflexivity.
Qed.

(* and on a complete payload it records exactly the unmasked payload *)
Lemma cb_read_all_ok h (m : bool) k r : wf_src (r_src r) -> r_rawN r <= len (flat (r_src r)) ->
  fst (cb_read_all h m k r) = None /\
  r_log (snd (cb_read_all h m k r)) =
    r_log r ++ [mkEv (h_op h) (if m then cipher (take (r_rawN r) (flat (r_src r))) k 0 else take (r_rawN r) (flat (r_src r)))
                     true (r_compressed r)].
Proof.
  intros Hwf Hle. unfold cb_read_all.
  pose proof (read_full_ok (r_rawN r) (r_src r) Hwf Hle) as R.
  destruct (read_full (r_rawN r) (r_src r)) as [[b e] s']. destruct R as (-> & -> & _).
  cbn [fst snd r_log]. split; reflexivity.
Qed.

(* a single raw read never reports io.EOF while payload bytes are still owed *)
Lemma raw_read_no_clean_eof k r : 0 < r_rawN r ->
  snd (fst (raw_read k r)) <> Some EEOF.
Proof.
  intros Hn. unfold raw_read. replace (r_rawN r =? 0) with false by lia.
  destruct (read1 (N.min k (r_rawN r)) (r_src r)) as [[b e] s']. cbn [fst snd].
  destruct e as [[| |]|]; cbn [cut_err]; discriminate.
Qed.
