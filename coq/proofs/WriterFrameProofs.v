(* WriterFrameProofs.v — C06 (B): every destination write of the Writer is one
   whole RFC 6455 frame (WriteThrough: header and payload as two writes), with the
   header the property demands; consequently the destination log parses into whole
   frames after every operation. *)
Require Import Bytes Stream Check Frame Cipher Extracted Writer
  BytesProofs StreamProofs FrameProofs CipherProofs CheckProofs WriterProofs WriterInv.
From Coq Require Import ZifyBool ZifyN ZifyNat.
Open Scope N_scope.

(* ------------------------------------------------------------------ frames on the wire *)
Definition frame_bytes (f : pframe) : list byte := rfc_header (pf_header f) ++ pf_payload f.
Definition wire (fs : list pframe) : list byte := concat (map frame_bytes fs).

Definition wf_pframe (f : pframe) : Prop :=
  wf_header (pf_header f) /\ h_len (pf_header f) = Z.of_N (len (pf_payload f)) /\ wf_bytes (pf_payload f)
  /\ (h_masked (pf_header f) = false -> h_mask (pf_header f) = zero_mask).

Lemma wire_cons f fs : wire (f :: fs) = rfc_header (pf_header f) ++ pf_payload f ++ wire fs.
Proof. unfold wire, frame_bytes. cbn [map concat]. rewrite app_assoc. reflexivity. Qed.

Lemma wire_app a b : wire (a ++ b) = wire a ++ wire b.
Proof. unfold wire. rewrite map_app, concat_app. reflexivity. Qed.

Lemma norm_header_wf f : wf_pframe f -> norm_header (pf_header f) = pf_header f.
Proof.
  intros (_ & _ & _ & Hm). unfold norm_header. destruct (pf_header f) as [fin rsv op masked mask l].
  cbn [h_fin h_rsv h_op h_masked h_mask h_len] in *. destruct masked; [reflexivity|]. rewrite Hm; reflexivity.
Qed.

Lemma rfc_header_nonempty h : exists b0 b1 r, rfc_header h = b0 :: b1 :: r.
Proof. unfold rfc_header. destruct (rfc_len_form (h_len h)) as [l7 ext]. eexists _, _, _. reflexivity. Qed.

(* one frame followed by anything parses as that frame *)
Lemma parse_frames_step f fuel rest : wf_pframe f ->
  parse_frames (S fuel) (frame_bytes f ++ rest) =
  match parse_frames fuel rest with Some fs => Some (f :: fs) | None => None end.
Proof.
  intros Hf. pose proof Hf as (Hh & Hl & Hp & Hm). unfold frame_bytes.
  destruct (rfc_header_nonempty (pf_header f)) as (b0 & b1 & r & Er).
  rewrite <- !app_assoc.
  assert (Hne: exists x y, rfc_header (pf_header f) ++ pf_payload f ++ rest = x :: y) by (rewrite Er; eexists _, _; reflexivity).
  destruct Hne as (x & y & Hxy).
  cbn [parse_frames]. rewrite Hxy. rewrite <- Hxy.
  rewrite rfc_parse_header by assumption. rewrite norm_header_wf by assumption.
  rewrite Hl, N2Z.id. rewrite len_app.
  replace (len (pf_payload f) + len rest <? len (pf_payload f)) with false by lia.
  rewrite drop_app_ge by lia. rewrite N.sub_diag, drop_0.
  rewrite take_app_le by lia. rewrite take_all by lia.
  destruct f as [h p]. reflexivity.
Qed.

Lemma parse_frames_wire fs : Forall wf_pframe fs -> forall fuel, (length fs <= fuel)%nat ->
  parse_frames fuel (wire fs) = Some fs.
Proof.
  induction 1 as [|f fs Hf Hfs IH]; intros fuel Hfu.
  - destruct fuel; reflexivity.
  - destruct fuel as [|fuel]; [cbn [length] in Hfu; lia|].
    change (wire (f :: fs)) with (frame_bytes f ++ wire fs).
    rewrite parse_frames_step by assumption. rewrite IH by (cbn [length] in Hfu; lia). reflexivity.
Qed.

Lemma wire_length fs : (length fs <= length (wire fs))%nat.
Proof.
  induction fs as [|f fs IH]; [cbn; lia|]. rewrite wire_cons.
  destruct (rfc_header_nonempty (pf_header f)) as (b0 & b1 & r & Er). rewrite Er.
  cbn [length app]. rewrite !app_length. lia.
Qed.

Lemma frames_of_wire fs : Forall wf_pframe fs -> frames_of (wire fs) = Some fs.
Proof. intros H. unfold frames_of. apply parse_frames_wire; [assumption|]. pose proof (wire_length fs). lia. Qed.

(* ------------------------------------------------------------------ the header the writer builds *)
Lemma set_bits_rsv exts : forall h h', (h_rsv h = 0 \/ h_rsv h = 4) -> set_bits exts h = Some h' ->
  h_rsv h' = 0 \/ h_rsv h' = 4.
Proof.
  induction exts as [|c r IH]; intros h h' Hr H; cbn [set_bits] in H.
  - injection H as <-. assumption.
  - destruct (negb (N.land (h_rsv h) 4 =? 0)) eqn:E; [discriminate|].
    assert (H0: h_rsv h = 0) by (destruct Hr as [Hr|Hr]; [assumption|rewrite Hr in E; discriminate]).
    apply IH in H; [assumption|].
    destruct (negb (op_is_data (h_op h)) || (h_op h =? 0)); [auto|].
    destruct c; [|auto]. cbn [h_rsv]. rewrite H0. right. reflexivity.
Qed.

(* the RSV bits of a frame with opcode [opcode] under the extensions [] or [c] *)
Definition rsv_for (exts : list bool) (opcode : N) : N :=
  match exts with
  | [c] => if c && op_is_data opcode && negb (opcode =? 0) then 4 else 0
  | _ => 0
  end.

Lemma set_bits_single exts h : h_rsv h = 0 -> (exts = [] \/ exists c, exts = [c]) ->
  set_bits exts h = Some (mkHeader (h_fin h) (rsv_for exts (h_op h)) (h_op h) (h_masked h) (h_mask h) (h_len h)).
Proof.
  intros H0 [->|(c & ->)]; cbn [set_bits rsv_for].
  - destruct h; cbn in *. subst. reflexivity.
  - rewrite H0. cbn [N.land N.eqb negb].
    destruct (op_is_data (h_op h)); destruct (h_op h =? 0); destruct c; cbn [negb orb andb];
      destruct h; cbn in *; subst; reflexivity.
Qed.

Definition w_key (w : writer) : list byte :=
  if client_side (w_state w) then fst (take_mask w) else zero_mask.
Definition w_masks_next (w : writer) : list (list byte) :=
  if client_side (w_state w) then snd (take_mask w) else w_masks w.

(* the frame carrying [data] that the writer emits in its current state *)
Definition out_frame (w : writer) (fin : bool) (rsv : N) (data : list byte) : pframe :=
  let client := client_side (w_state w) in
  mkPF (mkHeader fin rsv (w_opcode w) client (w_key w) (Z.of_N (len data)))
       (if client then mask_spec data (w_key w) 0 else data).

Definition masks_ok (w : writer) : Prop := Forall wf_key (w_masks w).

Lemma zero_mask_wf : wf_key zero_mask.
Proof. split; [reflexivity|]. repeat constructor. Qed.

Lemma w_key_wf w : masks_ok w -> wf_key (w_key w).
Proof.
  intros H. unfold w_key, take_mask, masks_ok in *. destruct (client_side (w_state w)); [|apply zero_mask_wf].
  destruct (w_masks w) as [|m r]; cbn [fst]; [apply zero_mask_wf|]. inversion H; assumption.
Qed.

Lemma w_masks_next_ok w : masks_ok w -> Forall wf_key (w_masks_next w).
Proof.
  intros H. unfold w_masks_next, take_mask, masks_ok in *. destruct (client_side (w_state w)); [|assumption].
  destruct (w_masks w) as [|m r]; cbn [snd]; [constructor|]. inversion H; assumption.
Qed.

Lemma w_opcode_lt w : w_op w < 16 -> w_opcode w < 16.
Proof. intros H. unfold w_opcode. destruct (0 <? w_fseq w); lia. Qed.

Lemma out_frame_wf w fin rsv data : masks_ok w -> w_op w < 16 -> rsv < 8 -> wf_bytes data ->
  len data <= max_int -> wf_pframe (out_frame w fin rsv data).
Proof.
  intros Hm Ho Hr Hd Hl. pose proof (w_key_wf w Hm) as [Hk1 Hk2]. pose proof (w_opcode_lt w Ho).
  unfold out_frame, wf_pframe. cbn [pf_header pf_payload h_len h_masked h_mask].
  split; [|split; [|split]].
  - unfold wf_header. cbn [h_rsv h_op h_len h_mask]. unfold max_int in Hl. repeat split; try assumption; lia.
  - destruct (client_side (w_state w)); [|reflexivity]. unfold len. rewrite mask_spec_length. reflexivity.
  - destruct (client_side (w_state w)); [|assumption]. apply mask_spec_wf; assumption.
  - unfold w_key. intros ->. reflexivity.
Qed.

Lemma out_frame_unmasked w fin rsv data : pf_unmasked (out_frame w fin rsv data) = data.
Proof.
  unfold pf_unmasked, out_frame. cbn [pf_header pf_payload h_masked h_mask].
  destruct (client_side (w_state w)); [apply mask_spec_involutive|reflexivity].
Qed.

(* ------------------------------------------------------------------ flushFragment: ONE write = ONE frame *)
Definition wf_writer (w : writer) : Prop := w_op w < 16 /\ wf_bytes (w_buf w) /\ masks_ok w.

Lemma flush_fragment_raw_frame fin w h1 : writer_inv w -> wf_writer w ->
  set_bits (w_exts w) (mkHeader fin 0 (w_opcode w) false zero_mask (Z.of_N (w_n w))) = Some h1 ->
  let f := out_frame w fin (h_rsv h1) (w_buf w) in
  flush_fragment_raw fin w =
    (inr (if fst (dest_write (frame_bytes f) (w_dest w)) then None else Some WDest),
     with_dest w (snd (dest_write (frame_bytes f) (w_dest w))) (w_masks_next w))
  /\ wf_pframe f.
Proof.
  intros Hi (Ho & Hb & Hm) Es f.
  pose proof Hi as [H1 H2 H3 H4 H5].
  assert (Hn: len (w_buf w) <= max_int) by lia.
  assert (Hrsv: h_rsv h1 = 0 \/ h_rsv h1 = 4) by (eapply set_bits_rsv; [|exact Es]; left; reflexivity).
  pose proof (set_bits_pres _ _ _ Es) as (Ef & Eo & Em & Emk & El).
  cbn [h_fin h_op h_masked h_mask h_len h_rsv] in *.
  assert (Hwf: wf_pframe f) by (apply out_frame_wf; try assumption; lia).
  split; [|assumption].
  unfold flush_fragment_raw. rewrite Es.
  assert (Ekm: (if client_side (w_state w) then take_mask w else (zero_mask, w_masks w)) = (w_key w, w_masks_next w)).
  { unfold w_key, w_masks_next. destruct (client_side (w_state w)); [destruct (take_mask w)|]; reflexivity. }
  rewrite Ekm.
  set (h := if client_side (w_state w) then _ else h1).
  assert (Eh: h = pf_header f).
  { subst h f. unfold out_frame. cbn [pf_header]. unfold w_n in *.
    destruct (client_side (w_state w)) eqn:Ec.
    - rewrite Ef, Eo, El. reflexivity.
    - destruct h1; cbn in *. subst. unfold w_key. rewrite Ec. reflexivity. }
  assert (Hl: h_len h = Z.of_N (len (w_buf w))) by (rewrite Eh; reflexivity).
  assert (Hmk: h_masked h = client_side (w_state w)) by (rewrite Eh; reflexivity).
  rewrite (header_size_w h (w_state w) (len (w_buf w)) Hn Hl Hmk). rewrite N2Z.id.
  rewrite (inv_offset w Hi).
  pose proof (reserve_fits (w_state w) (w_rawlen w) (len (w_buf w)) ltac:(lia)) as Hf.
  replace (reserve (w_state w) (w_rawlen w) <? w_header_size (w_state w) (len (w_buf w))) with false by lia.
  rewrite Eh. rewrite write_header_rfc by apply Hwf.
  assert (Ep: (if client_side (w_state w) then cipher (w_buf w) (w_key w) 0 else w_buf w) = pf_payload f).
  { subst f. unfold out_frame. cbn [pf_payload]. destruct (client_side (w_state w)); [|reflexivity].
    apply cipher_is_spec; [assumption|apply w_key_wf; assumption]. }
  rewrite Ep. fold (frame_bytes f).
  destruct (dest_write (frame_bytes f) (w_dest w)) as [ok d']. reflexivity.
Qed.

Lemma flush_fragment_raw_noext fin w : 
  set_bits (w_exts w) (mkHeader fin 0 (w_opcode w) false zero_mask (Z.of_N (w_n w))) = None ->
  flush_fragment_raw fin w = (inr (Some WExt), w).
Proof. intros Es. unfold flush_fragment_raw. rewrite Es. reflexivity. Qed.

(* ------------------------------------------------------------------ WriteThrough: TWO writes = ONE frame *)
Definition wt_result (w : writer) (d : dest) (ok : bool) : writer :=
  mkW d (w_state w) (w_op w) (w_exts w) (w_noflush w) (w_rawlen w) (w_buflen w) (w_buf w)
      true (w_fseq w + 1) (if ok then None else Some WDest) (w_masks_next w).

Lemma write_through_frame p w h1 : wf_writer w -> wf_bytes p -> len p <= max_int ->
  w_err w = None -> w_buf w = [] ->
  set_bits (w_exts w) (mkHeader false 0 (w_opcode w) false zero_mask (Z.of_N (len p))) = Some h1 ->
  let f := out_frame w false (h_rsv h1) p in
  let '(ok1, d1) := dest_write (rfc_header (pf_header f)) (w_dest w) in
  let '(ok, d2) := if ok1 then dest_write (pf_payload f) d1 else (false, d1) in
  write_through p w = ((if ok then len p else 0, if ok then None else Some WDest), wt_result w d2 ok)
  /\ wf_pframe f.
Proof.
  intros (Ho & Hb & Hm) Hp Hl Ee Eb Es f.
  assert (Hrsv: h_rsv h1 = 0 \/ h_rsv h1 = 4) by (eapply set_bits_rsv; [|exact Es]; left; reflexivity).
  pose proof (set_bits_pres _ _ _ Es) as (Ef & Eo & Em & Emk & El).
  cbn [h_fin h_op h_masked h_mask h_len h_rsv] in *.
  assert (Hwf: wf_pframe f) by (apply out_frame_wf; try assumption; lia).
  unfold write_through. rewrite Ee. unfold w_n. rewrite Eb. cbn [len length N.of_nat N.eqb negb].
  rewrite Es.
  assert (Ekm: (if client_side (w_state w) then take_mask w else (zero_mask, w_masks w)) = (w_key w, w_masks_next w)).
  { unfold w_key, w_masks_next. destruct (client_side (w_state w)); [destruct (take_mask w)|]; reflexivity. }
  rewrite Ekm.
  set (h := if client_side (w_state w) then _ else h1).
  assert (Eh: h = pf_header f).
  { subst h f. unfold out_frame. cbn [pf_header].
    destruct (client_side (w_state w)) eqn:Ec.
    - rewrite Ef, Eo, El. reflexivity.
    - destruct h1; cbn in *. subst. unfold w_key. rewrite Ec. reflexivity. }
  rewrite Eh. rewrite write_header_rfc by apply Hwf.
  assert (Ep: (if client_side (w_state w) then cipher p (w_key w) 0 else p) = pf_payload f).
  { subst f. unfold out_frame. cbn [pf_payload]. destruct (client_side (w_state w)); [|reflexivity].
    apply cipher_is_spec; [assumption|apply w_key_wf; assumption]. }
  rewrite Ep.
  destruct (dest_write (rfc_header (pf_header f)) (w_dest w)) as [ok1 d1].
  destruct (if ok1 then dest_write (pf_payload f) d1 else (false, d1)) as [ok d2].
  split; [|assumption]. unfold wt_result. rewrite Eb. reflexivity.
Qed.

(* without the size invariant: the only other outcomes are the panic and the
   extension error, both before any destination write *)
Lemma flush_fragment_raw_cases fin w : wf_writer w ->
  (exists pn, flush_fragment_raw fin w = (inl pn, w)) \/
  flush_fragment_raw fin w = (inr (Some WExt), w) \/
  exists h1, let f := out_frame w fin (h_rsv h1) (w_buf w) in
    flush_fragment_raw fin w =
      (inr (if fst (dest_write (frame_bytes f) (w_dest w)) then None else Some WDest),
       with_dest w (snd (dest_write (frame_bytes f) (w_dest w))) (w_masks_next w))
    /\ wf_pframe f.
Proof.
  intros (Ho & Hb & Hm).
  destruct (set_bits (w_exts w) (mkHeader fin 0 (w_opcode w) false zero_mask (Z.of_N (w_n w)))) as [h1|] eqn:Es.
  2:{ right; left. apply flush_fragment_raw_noext. assumption. }
  assert (Hrsv: h_rsv h1 = 0 \/ h_rsv h1 = 4) by (eapply set_bits_rsv; [|exact Es]; left; reflexivity).
  pose proof (set_bits_pres _ _ _ Es) as (Ef & Eo & Em & Emk & El).
  cbn [h_fin h_op h_masked h_mask h_len h_rsv] in *.
  unfold flush_fragment_raw. rewrite Es.
  assert (Ekm: (if client_side (w_state w) then take_mask w else (zero_mask, w_masks w)) = (w_key w, w_masks_next w)).
  { unfold w_key, w_masks_next. destruct (client_side (w_state w)); [destruct (take_mask w)|]; reflexivity. }
  rewrite Ekm.
  set (h := if client_side (w_state w) then _ else h1).
  destruct (_ <? Z.to_N (header_size h)); [left; eexists; reflexivity|].
  destruct (write_header h) as [er|hb] eqn:Ew; [left; eexists; reflexivity|].
  right; right. exists h1. cbv zeta. set (f := out_frame w fin (h_rsv h1) (w_buf w)).
  assert (Eh: h = pf_header f).
  { subst h f. unfold out_frame. cbn [pf_header]. unfold w_n in *.
    destruct (client_side (w_state w)) eqn:Ec.
    - rewrite Ef, Eo, El. reflexivity.
    - destruct h1; cbn in *. subst. unfold w_key. rewrite Ec. reflexivity. }
  assert (Hn: len (w_buf w) <= max_int).
  { unfold max_int. destruct (N.le_gt_cases (len (w_buf w)) 9223372036854775807) as [Hle|Hgt]; [assumption|].
    exfalso. unfold write_header in Ew. rewrite Eh in Ew. unfold f, out_frame in Ew. cbn [pf_header h_len] in Ew.
    replace (Z.of_N (len (w_buf w)) <=? 125)%Z with false in Ew by lia.
    replace (Z.of_N (len (w_buf w)) <=? 65535)%Z with false in Ew by lia.
    replace (Z.of_N (len (w_buf w)) <=? 9223372036854775807)%Z with false in Ew by lia. discriminate. }
  assert (Hwf: wf_pframe f) by (apply out_frame_wf; try assumption; lia).
  split; [|assumption].
  rewrite Eh in Ew. rewrite write_header_rfc in Ew by apply Hwf. injection Ew as <-.
  assert (Ep: (if client_side (w_state w) then cipher (w_buf w) (w_key w) 0 else w_buf w) = pf_payload f).
  { subst f. unfold out_frame. cbn [pf_payload]. destruct (client_side (w_state w)); [|reflexivity].
    apply cipher_is_spec; [assumption|apply w_key_wf; assumption]. }
  rewrite Ep. change (rfc_header _ ++ pf_payload f) with (frame_bytes f).
  destruct (dest_write (frame_bytes f) (w_dest w)) as [ok d']. reflexivity.
Qed.

Lemma write_through_cases p w : wf_writer w -> wf_bytes p ->
  (exists e, write_through p w = ((0, Some e), w) /\ (e = WDest -> max_int < len p \/ w_err w = Some WDest)) \/
  write_through p w = ((0, Some WExt), set_dest_err w (w_dest w) (Some WExt) (w_masks w)) \/
  exists h1, let f := out_frame w false (h_rsv h1) p in
    let r1 := dest_write (rfc_header (pf_header f)) (w_dest w) in
    let r2 := if fst r1 then dest_write (pf_payload f) (snd r1) else (false, snd r1) in
    write_through p w = ((if fst r2 then len p else 0, if fst r2 then None else Some WDest), wt_result w (snd r2) (fst r2))
    /\ wf_pframe f /\ w_err w = None /\ w_buf w = [].
Proof.
  intros (Ho & Hb & Hm) Hp. unfold write_through.
  destruct (w_err w) as [e|] eqn:Ee. { left. exists e. split; [reflexivity|]. intros ->. auto. }
  unfold w_n. destruct (w_buf w) as [|b0 r0] eqn:Eb.
  2:{ left. exists WNotEmpty. rewrite len_cons. replace (negb (1 + len r0 =? 0)) with true by lia.
      split; [reflexivity|discriminate]. }
  cbn [len length N.of_nat N.eqb negb].
  destruct (set_bits (w_exts w) _) as [h1|] eqn:Es; [|right; left; reflexivity].
  assert (Hrsv: h_rsv h1 = 0 \/ h_rsv h1 = 4) by (eapply set_bits_rsv; [|exact Es]; left; reflexivity).
  pose proof (set_bits_pres _ _ _ Es) as (Ef & Eo & Em & Emk & El).
  cbn [h_fin h_op h_masked h_mask h_len h_rsv] in *.
  assert (Ekm: (if client_side (w_state w) then take_mask w else (zero_mask, w_masks w)) = (w_key w, w_masks_next w)).
  { unfold w_key, w_masks_next. destruct (client_side (w_state w)); [destruct (take_mask w)|]; reflexivity. }
  rewrite Ekm.
  set (h := if client_side (w_state w) then _ else h1).
  destruct (write_header h) as [er|hb] eqn:Ew.
  { left. exists WDest. split; [reflexivity|]. intros _. left.
    destruct (N.le_gt_cases (len p) max_int) as [Hle|Hgt]; [|assumption]. exfalso.
    destruct (write_header_some h) as [hb Hhb]; [|congruence].
    assert (Hl: h_len h = Z.of_N (len p)) by (subst h; destruct (client_side (w_state w)); cbn [h_len]; assumption).
    unfold max_int in *. lia. }
  right; right. exists h1. cbv zeta. set (f := out_frame w false (h_rsv h1) p).
  assert (Eh: h = pf_header f).
  { subst h f. unfold out_frame. cbn [pf_header].
    destruct (client_side (w_state w)) eqn:Ec.
    - rewrite Ef, Eo, El. reflexivity.
    - destruct h1; cbn in *. subst. unfold w_key. rewrite Ec. reflexivity. }
  assert (Hn: len p <= max_int).
  { unfold max_int. destruct (N.le_gt_cases (len p) 9223372036854775807) as [Hle|Hgt]; [assumption|].
    exfalso. unfold write_header in Ew. rewrite Eh in Ew. unfold f, out_frame in Ew. cbn [pf_header h_len] in Ew.
    replace (Z.of_N (len p) <=? 125)%Z with false in Ew by lia.
    replace (Z.of_N (len p) <=? 65535)%Z with false in Ew by lia.
    replace (Z.of_N (len p) <=? 9223372036854775807)%Z with false in Ew by lia. discriminate. }
  assert (Hwf: wf_pframe f) by (apply out_frame_wf; try assumption; lia).
  rewrite Eh in Ew. rewrite write_header_rfc in Ew by apply Hwf. injection Ew as <-.
  assert (Ep: (if client_side (w_state w) then cipher p (w_key w) 0 else p) = pf_payload f).
  { subst f. unfold out_frame. cbn [pf_payload]. destruct (client_side (w_state w)); [|reflexivity].
    apply cipher_is_spec; [assumption|apply w_key_wf; assumption]. }
  rewrite Ep. change (dest_write (rfc_header _) (w_dest w)) with (dest_write (rfc_header (pf_header f)) (w_dest w)).
  destruct (dest_write (rfc_header (pf_header f)) (w_dest w)) as [ok1 d1]. cbn [fst snd].
  destruct (if ok1 then dest_write (pf_payload f) d1 else (false, d1)) as [ok d2]. cbn [fst snd].
  split; [|auto]. unfold wt_result. rewrite Eb. reflexivity.
Qed.

(* ------------------------------------------------------------------ the destination log *)
Definition log_bytes (d : dest) : list byte := concat (dest_log d).
Definition dest_failed (d : dest) : bool :=
  match d_fail_at d with Some k => k <? dest_ncalls d | None => false end.

Lemma dest_log_push p calls fa : dest_log (mkDest (p :: calls) fa) = dest_log (mkDest calls fa) ++ [p].
Proof. unfold dest_log. cbn [d_calls]. rewrite !rev_append_rev, !app_nil_r. reflexivity. Qed.

Lemma dest_write_spec p d :
  d_fail_at (snd (dest_write p d)) = d_fail_at d /\
  dest_ncalls (snd (dest_write p d)) = dest_ncalls d + 1 /\
  dest_log (snd (dest_write p d)) = dest_log d ++ [if fst (dest_write p d) then p else []] /\
  dest_failed (snd (dest_write p d)) = negb (fst (dest_write p d)) /\
  (dest_failed d = true -> fst (dest_write p d) = false).
Proof.
  unfold dest_write, dest_failed. destruct d as [calls fa]. cbn [d_fail_at d_calls].
  destruct fa as [k|].
  - unfold dest_ncalls. cbn [d_calls]. destruct (k <=? len calls) eqn:E; cbn [fst snd d_fail_at d_calls];
      rewrite dest_log_push, len_cons; repeat split; try lia.
  - cbn [fst snd d_fail_at d_calls]. unfold dest_ncalls. cbn [d_calls]. rewrite dest_log_push, len_cons.
    repeat split; try lia; try discriminate.
Qed.

Lemma log_bytes_write p d :
  log_bytes (snd (dest_write p d)) = log_bytes d ++ (if fst (dest_write p d) then p else []).
Proof.
  unfold log_bytes. destruct (dest_write_spec p d) as (_ & _ & -> & _).
  rewrite concat_app. cbn [concat]. rewrite app_nil_r. reflexivity.
Qed.

(* what the peer has received: whole frames, then (only after a failed write) possibly
   the header of one more frame *)
Definition partial_ok (part : list byte) : Prop := part = [] \/ exists h, wf_header h /\ part = rfc_header h.
Definition dest_frames (w : writer) : Prop :=
  exists fs part, Forall wf_pframe fs /\ log_bytes (w_dest w) = wire fs ++ part /\ partial_ok part /\
    (dest_failed (w_dest w) = false -> part = []) /\ (dest_failed (w_dest w) = true -> w_err w <> None).

(* the destination only ever grows: d' = d plus further calls *)
Definition dest_ext (d d' : dest) : Prop :=
  d_fail_at d' = d_fail_at d /\ exists ext, d_calls d' = ext ++ d_calls d.

Lemma dest_ext_refl d : dest_ext d d.
Proof. split; [reflexivity|]. exists []. reflexivity. Qed.

Lemma dest_ext_trans a b c : dest_ext a b -> dest_ext b c -> dest_ext a c.
Proof.
  intros (H1 & e1 & H2) (H3 & e2 & H4). split; [congruence|]. exists (e2 ++ e1). rewrite H4, H2, app_assoc. reflexivity.
Qed.

Lemma dest_ext_write p d : dest_ext d (snd (dest_write p d)).
Proof.
  unfold dest_write. destruct d as [calls [k|]]; cbn [d_fail_at d_calls].
  - destruct (k <=? _); cbn [snd]; (split; [reflexivity|]); [exists [[]]|exists [p]]; reflexivity.
  - cbn [snd]. split; [reflexivity|]. exists [p]. reflexivity.
Qed.

Lemma wire_snoc fs f : wire (fs ++ [f]) = wire fs ++ frame_bytes f.
Proof. rewrite wire_app. unfold wire at 2. cbn [map concat]. rewrite app_nil_r. reflexivity. Qed.

(* a state change that touches neither the destination nor an existing error *)
Lemma dest_frames_same w w' : w_dest w' = w_dest w -> (w_err w <> None -> w_err w' <> None) ->
  dest_frames w -> dest_frames w'.
Proof.
  intros Hd He (fs & part & H1 & H2 & H3 & H4 & H5). exists fs, part. rewrite Hd. auto 10.
Qed.

(* ONE write of a whole frame, error recorded *)
Lemma dest_frames_one w w' f : wf_pframe f -> w_err w = None ->
  w_dest w' = snd (dest_write (frame_bytes f) (w_dest w)) ->
  (fst (dest_write (frame_bytes f) (w_dest w)) = false -> w_err w' <> None) ->
  dest_frames w -> dest_frames w'.
Proof.
  intros Hf He Hd He' (fs & part & H1 & H2 & H3 & H4 & H5).
  assert (Hnf: dest_failed (w_dest w) = false) by (destruct (dest_failed (w_dest w)); [exfalso; apply H5; auto|reflexivity]).
  rewrite (H4 Hnf), app_nil_r in H2.
  destruct (dest_write_spec (frame_bytes f) (w_dest w)) as (_ & _ & _ & Hfail & _).
  pose proof (log_bytes_write (frame_bytes f) (w_dest w)) as Hlog.
  destruct (fst (dest_write (frame_bytes f) (w_dest w))) eqn:Eok.
  - exists (fs ++ [f]), []. rewrite Hd, Hlog, H2, wire_snoc, app_nil_r.
    split; [apply Forall_app; split; [assumption|constructor; [assumption|constructor]]|].
    split; [reflexivity|]. split; [left; reflexivity|]. split; [reflexivity|]. rewrite Hfail. discriminate.
  - exists fs, []. rewrite Hd, Hlog, H2, !app_nil_r.
    split; [assumption|]. split; [reflexivity|]. split; [left; reflexivity|]. split; [reflexivity|]. auto.
Qed.

(* TWO writes, header then payload *)
Lemma dest_frames_two w w' f : wf_pframe f -> w_err w = None ->
  let r1 := dest_write (rfc_header (pf_header f)) (w_dest w) in
  let r2 := if fst r1 then dest_write (pf_payload f) (snd r1) else (false, snd r1) in
  w_dest w' = snd r2 -> (fst r2 = false -> w_err w' <> None) ->
  dest_frames w -> dest_frames w'.
Proof.
  intros Hf He r1 r2 Hd He' (fs & part & H1 & H2 & H3 & H4 & H5).
  assert (Hnf: dest_failed (w_dest w) = false) by (destruct (dest_failed (w_dest w)); [exfalso; apply H5; auto|reflexivity]).
  rewrite (H4 Hnf), app_nil_r in H2.
  destruct (dest_write_spec (rfc_header (pf_header f)) (w_dest w)) as (_ & _ & _ & Hfail1 & _).
  pose proof (log_bytes_write (rfc_header (pf_header f)) (w_dest w)) as Hlog1.
  fold r1 in Hfail1, Hlog1. subst r2.
  destruct (fst r1) eqn:Eok1; cbn [fst snd] in *.
  - destruct (dest_write_spec (pf_payload f) (snd r1)) as (_ & _ & _ & Hfail2 & _).
    pose proof (log_bytes_write (pf_payload f) (snd r1)) as Hlog2.
    destruct (fst (dest_write (pf_payload f) (snd r1))) eqn:Eok2.
    + exists (fs ++ [f]), []. rewrite Hd, Hlog2, Hlog1, H2, wire_snoc, app_nil_r. unfold frame_bytes.
      split; [apply Forall_app; split; [assumption|constructor; [assumption|constructor]]|].
      split; [rewrite <- !app_assoc; reflexivity|]. split; [left; reflexivity|]. split; [reflexivity|].
      rewrite Hfail2. discriminate.
    + exists fs, (rfc_header (pf_header f)). rewrite Hd, Hlog2, Hlog1, H2, app_nil_r.
      split; [assumption|]. split; [reflexivity|].
      split; [right; exists (pf_header f); split; [apply Hf|reflexivity]|].
      split; [rewrite Hfail2; discriminate|]. auto.
  - exists fs, []. rewrite Hd, Hlog1, H2, !app_nil_r.
    split; [assumption|]. split; [reflexivity|]. split; [left; reflexivity|]. split; [reflexivity|]. auto.
Qed.

Lemma wf_writer_same w w' : w_op w' = w_op w -> w_buf w' = w_buf w -> w_masks w' = w_masks w ->
  wf_writer w -> wf_writer w'.
Proof. intros Ho Hb Hm (H1 & H2 & H3). unfold wf_writer, masks_ok in *. rewrite Ho, Hb, Hm. auto. Qed.

(* ---- the primitives keep J, whatever their outcome ---- *)
Section J.
Variable d0 : dest.

Record Jinv (w : writer) : Prop := {
  j_wf : wf_writer w; j_dest : dest_frames w; j_ext : dest_ext d0 (w_dest w) }.

Lemma flush_fragment_raw_J_core fin w : Jinv w -> w_err w = None ->
  let '(r, w1) := flush_fragment_raw fin w in
  match r with
  | inl _ => Jinv w1
  | inr e => Jinv (with_flush_result w1 e fin)
  end.
Proof.
  intros [Hw Hd Hx] He.
  destruct (flush_fragment_raw_cases fin w Hw) as [(pn & H)|[H|(h1 & H & Hf)]]; rewrite H.
  - split; assumption.
  - split; [| |assumption].
    + destruct Hw as (H1 & H2 & H3). split; [assumption|]. split; [constructor|assumption].
    + apply (dest_frames_same w); [reflexivity|discriminate|assumption].
  - split.
    + destruct Hw as (H1 & H2 & H3). split; [assumption|]. split; [constructor|].
      unfold masks_ok. wsimpl. unfold with_dest; wsimpl. apply w_masks_next_ok. assumption.
    + eapply (dest_frames_one w _ _ Hf He); [reflexivity| |assumption].
      wsimpl. intros ->. discriminate.
    + wsimpl. unfold with_dest; wsimpl. eapply dest_ext_trans; [exact Hx|apply dest_ext_write].
Qed.

Lemma flush_fragment_J w : Jinv w -> Jinv (snd (flush_fragment w)).
Proof.
  intros HJ. unfold flush_fragment. destruct (_ || _) eqn:E; [assumption|].
  apply orb_false_iff in E. destruct E as [_ E].
  assert (He: w_err w = None) by (destruct (w_err w); [discriminate|reflexivity]).
  pose proof (flush_fragment_raw_J_core false w HJ He) as H.
  destruct (flush_fragment_raw false w) as [[pn|e] w1]; exact H.
Qed.

Lemma flush_J w : Jinv w -> Jinv (snd (flush w)).
Proof.
  intros HJ. unfold flush. destruct (_ || _) eqn:E; [assumption|].
  apply orb_false_iff in E. destruct E as [_ E].
  assert (He: w_err w = None) by (destruct (w_err w); [discriminate|reflexivity]).
  pose proof (flush_fragment_raw_J_core true w HJ He) as H.
  destruct (flush_fragment_raw true w) as [[pn|e] w1]; exact H.
Qed.

Lemma write_through_J p w : Jinv w -> wf_bytes p -> Jinv (snd (write_through p w)).
Proof.
  intros [Hw Hd Hx] Hp.
  destruct (write_through_cases p w Hw Hp) as [(e & H & _)|[H|(h1 & H & Hf & He & Hb)]]; rewrite H; cbn [snd].
  - split; assumption.
  - split; [apply (wf_writer_same w); try reflexivity; assumption| |assumption].
    apply (dest_frames_same w); [reflexivity|discriminate|assumption].
  - split.
    + destruct Hw as (H1 & H2 & H3). split; [assumption|]. split; [assumption|].
      unfold masks_ok, wt_result. wsimpl. apply w_masks_next_ok. assumption.
    + eapply (dest_frames_two w _ _ Hf He); [reflexivity| |assumption].
      unfold wt_result. wsimpl. intros ->. discriminate.
    + unfold wt_result. wsimpl. eapply dest_ext_trans; [exact Hx|].
      destruct (fst (dest_write _ _)); cbn [snd].
      * eapply dest_ext_trans; apply dest_ext_write.
      * apply dest_ext_write.
Qed.

Lemma grow_same n w : let w' := snd (grow n w) in
  w_dest w' = w_dest w /\ w_err w' = w_err w /\ w_op w' = w_op w /\ w_buf w' = w_buf w /\ w_masks w' = w_masks w
  /\ w_state w' = w_state w /\ w_exts w' = w_exts w /\ w_noflush w' = w_noflush w /\ w_dirty w' = w_dirty w
  /\ w_fseq w' = w_fseq w.
Proof.
  unfold grow. destruct (grow_loop _ _ _ _ _ _) as [[size off]|]; [|cbn; auto 12].
  destruct (size <? w_rawlen w); [cbn; auto 12|]. destruct (size =? w_rawlen w); cbn; auto 12.
Qed.

(* a change that keeps destination, error state, opcode and masks *)
Lemma Jinv_same w w' : w_dest w' = w_dest w -> (w_err w <> None -> w_err w' <> None) ->
  w_op w' < 16 -> wf_bytes (w_buf w') -> w_masks w' = w_masks w -> Jinv w -> Jinv w'.
Proof.
  intros Hd He Ho Hb Hm [(H1 & H2 & H3) Hf Hx]. split.
  - split; [assumption|]. split; [assumption|]. unfold masks_ok in *. rewrite Hm. assumption.
  - apply (dest_frames_same w); assumption.
  - rewrite Hd. assumption.
Qed.

Lemma Jinv_op w : Jinv w -> w_op w < 16. Proof. intros [(H & _ & _) _ _]. assumption. Qed.
Lemma Jinv_buf w : Jinv w -> wf_bytes (w_buf w). Proof. intros [(_ & H & _) _ _]. assumption. Qed.

Lemma grow_J n w : Jinv w -> Jinv (snd (grow n w)).
Proof.
  intros HJ. destruct (grow_same n w) as (H1 & H2 & H3 & H4 & H5 & _).
  apply (Jinv_same w); try assumption; [rewrite H2; auto|rewrite H3; exact (Jinv_op _ HJ)|rewrite H4; exact (Jinv_buf _ HJ)].
Qed.

Lemma set_buf_J w b d : Jinv w -> wf_bytes b -> Jinv (set_buf w b d).
Proof.
  intros HJ Hb. apply (Jinv_same w); try reflexivity; try assumption; [auto|exact (Jinv_op _ HJ)].
Qed.

Lemma write_loop_J fuel : forall p acc w, Jinv w -> wf_bytes p -> Jinv (snd (write_loop fuel p acc w)).
Proof.
  induction fuel as [|f IH]; intros p acc w HJ Hp.
  - cbn [write_loop]. destruct (_ && _); [assumption|]. destruct (w_err w); [assumption|].
    apply set_buf_J; [assumption|]. apply wf_bytes_app. split; [apply Jinv_buf|]; assumption.
  - rewrite write_loop_S. destruct (wl_cond p w).
    + destruct (w_noflush w).
      * pose proof (grow_J (len p) w HJ) as Hg. destruct (grow (len p) w) as [[pn|[e|]] w1]; cbn [snd] in *; try assumption.
        apply IH; assumption.
      * destruct (w_n w =? 0).
        -- pose proof (write_through_J p w HJ Hp) as Hw. destruct (write_through p w) as [[nn e] w1]. cbn [snd] in Hw.
           apply IH; [assumption|]. apply wf_bytes_drop. assumption.
        -- cbv zeta. set (nn := N.min (w_available w) (len p)).
           assert (H1: Jinv (set_buf w (w_buf w ++ take nn p) (w_dirty w))).
           { apply set_buf_J; [assumption|]. apply wf_bytes_app. split; [exact (Jinv_buf _ HJ)|apply wf_bytes_take; assumption]. }
           pose proof (flush_fragment_J _ H1) as Hf. destruct (flush_fragment _) as [[pn|e] w2]; cbn [snd] in *; [assumption|].
           apply IH; [assumption|]. apply wf_bytes_drop. assumption.
    + destruct (w_err w); [assumption|]. apply set_buf_J; [assumption|].
      apply wf_bytes_app. split; [apply Jinv_buf|]; assumption.
Qed.

Lemma write_J p w : Jinv w -> wf_bytes p -> Jinv (snd (write p w)).
Proof. intros HJ Hp. unfold write. apply write_loop_J; [|assumption]. apply set_buf_J; [assumption|exact (Jinv_buf _ HJ)]. Qed.

Lemma read1_wf k s : wf_bytes (flat s) ->
  wf_bytes (fst (fst (read1 k s))) /\ wf_bytes (flat (snd (read1 k s))).
Proof.
  intros H. unfold read1. destruct (chunks s) as [|c cs] eqn:E; cbn [fst snd]; [split; [constructor|assumption]|].
  unfold flat in *. rewrite E in H. cbn [concat] in H. apply wf_bytes_app in H. destruct H as [Hc Hcs].
  destruct (k <? len c); cbn [fst snd chunks concat].
  - split; [apply wf_bytes_take; assumption|]. apply wf_bytes_app. split; [apply wf_bytes_drop|]; assumption.
  - split; assumption.
Qed.

Lemma read_from_loop_J fuel : forall s total w, Jinv w -> wf_bytes (flat s) ->
  Jinv (snd (fst (read_from_loop fuel s total w))).
Proof.
  induction fuel as [|f IH]; intros s total w HJ Hs; [assumption|].
  cbn [read_from_loop]. destruct (w_available w =? 0).
  - destruct (w_noflush w).
    + pose proof (grow_J (w_n w) w HJ) as Hg. destruct (grow (w_n w) w) as [[pn|[e|]] w1]; cbn [fst snd] in *; try assumption.
      apply IH; assumption.
    + pose proof (flush_fragment_J w HJ) as Hf. destruct (flush_fragment w) as [[pn|[e|]] w1]; cbn [fst snd] in *; try assumption.
      apply IH; assumption.
  - pose proof (read1_wf (w_available w) s Hs) as [Hb Hs'].
    destruct (read1 (w_available w) s) as [[b e] s']. cbn [fst snd] in *.
    assert (H1: forall d, Jinv (set_buf w (w_buf w ++ b) d)).
    { intro d. apply set_buf_J; [assumption|]. apply wf_bytes_app. split; [exact (Jinv_buf _ HJ)|assumption]. }
    destruct e as [[| |]|]; cbn [fst snd].
    + apply set_buf_J; [apply H1|]. apply (Jinv_buf _ (H1 false)).
    + apply H1.
    + apply H1.
    + apply IH; [apply H1|assumption].
Qed.

(* per-operation input well-formedness: payload bytes are bytes, opcodes are opcodes *)
Definition op_wf (o : wop) : Prop :=
  match o with
  | WWrite p => wf_bytes p
  | WReadFrom data _ => wf_bytes data
  | WWriteThrough p => wf_bytes p
  | WResetOp op => op < 16
  | WReset _ _ => False
  | _ => True
  end.

Lemma run_op_J op w : Jinv w -> op_wf op -> Jinv (snd (fst (run_op op w))).
Proof.
  intros HJ Ho. destruct op as [p|data sizes|p| | |n| |xs|st op|op]; cbn [run_op op_wf] in *.
  - pose proof (write_J p w HJ Ho) as H. destruct (write p w) as [[pn|[n e]] w1]; exact H.
  - pose proof (read_from_loop_J (S (S (2 * length (flat (mkSrc (chunk_by sizes data) TEOF)) + 4)))
                  (mkSrc (chunk_by sizes data) TEOF) 0 w HJ) as H.
    unfold read_from. destruct (read_from_loop _ _ _ _) as [[[pn|[n e]] w1] s']; apply H; unfold flat; cbn [chunks];
      rewrite chunk_by_flat; assumption.
  - pose proof (write_through_J p w HJ Ho) as H. destruct (write_through p w) as [[n e] w1]. exact H.
  - pose proof (flush_fragment_J w HJ) as H. destruct (flush_fragment w) as [[pn|e] w1]; exact H.
  - pose proof (flush_J w HJ) as H. destruct (flush w) as [[pn|e] w1]; exact H.
  - pose proof (grow_J n w HJ) as H. destruct (grow n w) as [[pn|e] w1]; exact H.
  - cbn [fst snd]. apply (Jinv_same w); try reflexivity; [auto|exact (Jinv_op _ HJ)|exact (Jinv_buf _ HJ)|assumption].
  - cbn [fst snd]. apply (Jinv_same w); try reflexivity; [auto|exact (Jinv_op _ HJ)|exact (Jinv_buf _ HJ)|assumption].
  - contradiction.
  - cbn [fst snd]. apply (Jinv_same w); try reflexivity; [auto|assumption|constructor|assumption].
Qed.

Lemma run_wops_J : forall ops w, Jinv w -> Forall op_wf ops -> Jinv (snd (run_wops ops w)).
Proof.
  induction ops as [|op rest IH]; intros w HJ Hops; [assumption|].
  inversion Hops as [|? ? Ho Hrest]; subst.
  rewrite run_wops_cons. pose proof (run_op_J op w HJ Ho) as H1.
  destruct (run_op op w) as [[o w1] stop]. cbn [fst snd] in H1.
  destruct stop; [assumption|]. specialize (IH w1 H1 Hrest).
  destruct (run_wops rest w1) as [os w2]. exact IH.
Qed.
End J.

(* ------------------------------------------------------------------ whole frames at every call boundary *)
Definition steps_of (ops : list wop) (obs : list wobs) : list wstep :=
  map (fun p => mkStep (fst p) (snd p)) (combine ops obs).

Lemma Jinv_rebase d0 w : Jinv d0 w -> Jinv (w_dest w) w.
Proof. intros [H1 H2 _]. split; [assumption|assumption|apply dest_ext_refl]. Qed.

Lemma Jinv_frames d0 w : Jinv d0 w -> d_fail_at (w_dest w) = None ->
  exists fs, Forall wf_pframe fs /\ log_bytes (w_dest w) = wire fs.
Proof.
  intros [_ (fs & part & H1 & H2 & H3 & H4 & H5) _] Hf. exists fs. split; [assumption|].
  rewrite H2, H4, app_nil_r; [reflexivity|]. unfold dest_failed. rewrite Hf. reflexivity.
Qed.

Lemma log_upto_ext d d' : dest_ext d d' -> log_upto (dest_ncalls d) (dest_log d') = log_bytes d.
Proof.
  intros (_ & ext & He). unfold log_upto, log_bytes, dest_log, dest_ncalls. rewrite He.
  rewrite !rev_append_rev, !app_nil_r, rev_app_distr.
  rewrite take_app_le by (unfold len; rewrite rev_length; lia).
  rewrite take_all by (unfold len; rewrite rev_length; lia). reflexivity.
Qed.

Lemma run_op_calls op w : is_reset op = false ->
  o_calls (fst (fst (run_op op w))) = dest_ncalls (w_dest (snd (fst (run_op op w)))).
Proof.
  intros Hr. destruct op as [p|data sizes|p| | |n| |xs|st op|op]; cbn [run_op]; try discriminate.
  - destruct (write p w) as [[pn|[n e]] w1]; reflexivity.
  - destruct (read_from _ w) as [[[pn|[n e]] w1] s']; reflexivity.
  - destruct (write_through p w) as [[n e] w1]; reflexivity.
  - destruct (flush_fragment w) as [[pn|e] w1]; reflexivity.
  - destruct (flush w) as [[pn|e] w1]; reflexivity.
  - destruct (grow n w) as [[pn|e] w1]; reflexivity.
  - reflexivity.
  - reflexivity.
  - reflexivity.
Qed.

Lemma op_wf_no_reset op : op_wf op -> is_reset op = false.
Proof. destruct op; cbn; try reflexivity. contradiction. Qed.

(* C06 (B): for every history (any extensions, any sizes), with a destination that
   never fails, what was sent parses into whole frames after every operation *)
Theorem run_wops_aligned : forall ops w, Jinv (w_dest w) w -> Forall op_wf ops ->
  d_fail_at (w_dest w) = None ->
  let '(obs, w') := run_wops ops w in
  aligned_at_ops (steps_of ops obs) (dest_log (w_dest w')) = true /\ dest_ext (w_dest w) (w_dest w')
  /\ exists fs, Forall wf_pframe fs /\ frames_of (log_bytes (w_dest w')) = Some fs.
Proof.
  induction ops as [|op rest IH]; intros w HJ Hops Hfa.
  - cbn [run_wops steps_of combine map aligned_at_ops]. split; [reflexivity|]. split; [apply dest_ext_refl|].
    destruct (Jinv_frames _ w HJ Hfa) as (fs & Hfs & Hl). exists fs. split; [assumption|].
    rewrite Hl. apply frames_of_wire. assumption.
  - inversion Hops as [|? ? Ho Hrest]; subst.
    rewrite run_wops_cons. pose proof (run_op_J _ op w HJ Ho) as H1.
    pose proof (run_op_calls op w (op_wf_no_reset op Ho)) as Hc.
    destruct (run_op op w) as [[o w1] stop]. cbn [fst snd] in H1, Hc.
    assert (Hx1: dest_ext (w_dest w) (w_dest w1)) by apply H1.
    assert (Hfa1: d_fail_at (w_dest w1) = None) by (destruct Hx1 as [-> _]; assumption).
    destruct (Jinv_frames _ w1 H1 Hfa1) as (fs1 & Hfs1 & Hl1).
    destruct stop.
    + unfold steps_of. cbn [combine]. rewrite combine_nil. cbn [map aligned_at_ops fst snd s_obs]. rewrite Hc.
      rewrite (log_upto_ext (w_dest w1) (w_dest w1) (dest_ext_refl _)), Hl1, frames_of_wire by assumption.
      split; [reflexivity|]. split; [assumption|]. exists fs1. split; [assumption|reflexivity].
    + specialize (IH w1 (Jinv_rebase _ w1 H1) Hrest Hfa1).
      destruct (run_wops rest w1) as [os w2]. destruct IH as (Ha & Hx2 & Hfs2).
      cbn [steps_of combine map aligned_at_ops fst snd s_obs]. rewrite Hc.
      rewrite (log_upto_ext (w_dest w1) (w_dest w2) Hx2), Hl1, frames_of_wire by assumption.
      split; [exact Ha|]. split; [eapply dest_ext_trans; eassumption|assumption].
Qed.

Lemma fresh_Jinv w : w_op w < 16 -> w_buf w = [] -> masks_ok w -> d_calls (w_dest w) = [] -> Jinv (w_dest w) w.
Proof.
  intros Ho Hb Hm Hd. split.
  - split; [assumption|]. split; [rewrite Hb; constructor|assumption].
  - exists [], []. split; [constructor|]. unfold log_bytes, dest_log, dest_failed, dest_ncalls. rewrite Hd.
    split; [reflexivity|]. split; [left; reflexivity|]. split; [reflexivity|].
    destruct (d_fail_at (w_dest w)); [|discriminate]. cbn [len length N.of_nat]. intros H. exfalso. lia.
  - apply dest_ext_refl.
Qed.

(* from a writer that has not sent anything yet *)
Corollary fresh_whole_frames ops w : w_op w < 16 -> w_buf w = [] -> Forall wf_key (w_masks w) ->
  d_calls (w_dest w) = [] -> d_fail_at (w_dest w) = None -> Forall op_wf ops ->
  aligned_at_ops (steps_of ops (fst (run_wops ops w))) (dest_log (w_dest (snd (run_wops ops w)))) = true /\
  exists fs, Forall wf_pframe fs /\ frames_of (concat (dest_log (w_dest (snd (run_wops ops w))))) = Some fs.
Proof.
  intros Ho Hb Hm Hd Hf Hops. pose proof (run_wops_aligned ops w (fresh_Jinv w Ho Hb Hm Hd) Hops Hf) as H.
  destruct (run_wops ops w) as [obs w']. destruct H as (H1 & _ & H2). split; assumption.
Qed.
