(* StreamIdleProofs.v — transports with idle reads ((0, nil) = an empty chunk):
   io.ReadFull and a single Read on a transport commute with removing the empty
   chunks (an idle read does not count as "bytes were read"). A single Read
   on an empty head chunk returns "0 bytes, no error" and only drops the chunk. *)
Require Import Bytes Stream BytesProofs StreamProofs Reader ReaderIdle.
From Coq Require Import ZifyBool ZifyN ZifyNat.
Open Scope N_scope.

(* ------------------------------------------------------------------ strip *)
Lemma strip_cons_idle cs : strip_chunks ([] :: cs) = strip_chunks cs.
Proof. reflexivity. Qed.

Lemma strip_cons_data c cs : c <> [] -> strip_chunks (c :: cs) = c :: strip_chunks cs.
Proof. intros H. destruct c; [contradiction|reflexivity]. Qed.

Lemma concat_strip cs : concat (strip_chunks cs) = concat cs.
Proof.
  induction cs as [|c cs IH]; [reflexivity|]. destruct c as [|x c].
  - rewrite strip_cons_idle. exact IH.
  - rewrite strip_cons_data by discriminate. cbn [concat]. rewrite IH. reflexivity.
Qed.

Lemma strip_wf cs : wf_chunks (strip_chunks cs).
Proof.
  induction cs as [|c cs IH]; [constructor|]. destruct c as [|x c].
  - rewrite strip_cons_idle. exact IH.
  - rewrite strip_cons_data by discriminate. constructor; [discriminate|exact IH].
Qed.

Lemma flat_strip s : flat (strip s) = flat s.
Proof. apply concat_strip. Qed.
Lemma wf_strip s : wf_src (strip s).
Proof. apply strip_wf. Qed.
Lemma tl_strip s : tl (strip s) = tl s.
Proof. reflexivity. Qed.

Lemma strip_wf_id cs : wf_chunks cs -> strip_chunks cs = cs.
Proof.
  induction 1 as [|c cs Hc _ IH]; [reflexivity|]. rewrite strip_cons_data by exact Hc. rewrite IH. reflexivity.
Qed.

Lemma idle_cons_idle cs : idle_chunks ([] :: cs) = S (idle_chunks cs).
Proof. reflexivity. Qed.
Lemma idle_cons_data c cs : c <> [] -> idle_chunks (c :: cs) = idle_chunks cs.
Proof. intros H. destruct c; [contradiction|reflexivity]. Qed.
Lemma idle_wf cs : wf_chunks cs -> idle_chunks cs = 0%nat.
Proof.
  induction 1 as [|c cs Hc _ IH]; [reflexivity|]. rewrite idle_cons_data by exact Hc. exact IH.
Qed.
Lemma idle_le_length cs : (idle_chunks cs <= length cs)%nat.
Proof. unfold idle_chunks. induction cs as [|c cs IH]; cbn [filter length]; [lia|]. destruct (is_idle c); cbn [length]; lia. Qed.

(* ------------------------------------------------------------------ io.ReadFull *)
Lemma read_full_aux_0 need got cs t : (need =? 0) = true -> read_full_aux need got cs t = (([], None), cs).
Proof. intros E. destruct cs; cbn [read_full_aux]; rewrite E; reflexivity. Qed.

Lemma len_nil_b : len (@nil byte) = 0. Proof. reflexivity. Qed.

Lemma drop_nonempty {A} n (c : list A) : n < len c -> drop n c <> [].
Proof. intros H E. apply (f_equal len) in E. rewrite len_drop in E. change (len (@nil A)) with 0 in E. lia. Qed.

Lemma read_full_aux_strip : forall cs need got t,
  let '((b, e), rest) := read_full_aux need got cs t in
  read_full_aux need got (strip_chunks cs) t = ((b, e), strip_chunks rest) /\
  (idle_chunks rest <= idle_chunks cs)%nat.
Proof.
  induction cs as [|c cs IH]; intros need got t.
  - cbn [read_full_aux strip_chunks filter]. destruct (need =? 0); (split; [reflexivity|apply le_n]).
  - destruct (need =? 0) eqn:E0.
    { rewrite !read_full_aux_0 by exact E0. split; [reflexivity|apply le_n]. }
    destruct c as [|x c0].
    + (* an idle read: ReadFull goes on, and has still read no byte *)
      cbn [read_full_aux]. rewrite E0, len_nil_b. replace (need <=? 0) with false by lia. rewrite N.sub_0_r.
      cbn [N.eqb negb]. rewrite orb_false_r.
      specialize (IH need got t).
      destruct (read_full_aux need got cs t) as [[r e] rest]. destruct IH as (IH1 & IH3).
      cbn [app]. rewrite strip_cons_idle. split; [exact IH1|rewrite idle_cons_idle; lia].
    + rewrite strip_cons_data by discriminate. cbn [read_full_aux]. rewrite E0.
      set (c := x :: c0) in *. assert (Hc: c <> []) by discriminate.
      destruct (need <=? len c) eqn:E1.
      * destruct (need =? len c) eqn:E2.
        -- split; [reflexivity|]. rewrite idle_cons_data by exact Hc; apply le_n.
        -- assert (Hd: drop need c <> []) by (apply drop_nonempty; lia).
           rewrite strip_cons_data by exact Hd. split; [reflexivity|].
           rewrite !idle_cons_data by assumption. apply le_n.
      * specialize (IH (need - len c) (got || negb (len c =? 0)) t).
        destruct (read_full_aux (need - len c) (got || negb (len c =? 0)) cs t) as [[r e] rest].
        destruct IH as (IH1 & IH3).
        rewrite IH1. split; [reflexivity|]. rewrite idle_cons_data by exact Hc. exact IH3.
Qed.

Lemma read_full_strip need s :
  let '((b, e), s') := read_full need s in
  read_full need (strip s) = ((b, e), strip s') /\
  (idle_reads s' <= idle_reads s)%nat /\ tl s' = tl s.
Proof.
  unfold read_full, strip. cbn [chunks tl].
  pose proof (read_full_aux_strip (chunks s) need false (tl s)) as H.
  destruct (read_full_aux need false (chunks s) (tl s)) as [[b e] rest]. destruct H as (H1 & H3).
  rewrite H1. cbn [chunks tl]. repeat split; assumption.
Qed.

(* ------------------------------------------------------------------ one Read *)
(* the head chunk holds bytes, or the transport is at its end *)
Lemma read1_strip k s : (forall cs, chunks s <> [] :: cs) ->
  let '((b, e), s') := read1 k s in
  read1 k (strip s) = ((b, e), strip s') /\ idle_reads s' = idle_reads s.
Proof.
  intros Hh. unfold read1, strip, idle_reads. cbn [chunks tl]. destruct (chunks s) as [|c cs] eqn:E.
  - cbn [strip_chunks filter]. rewrite E. repeat split.
  - destruct c as [|x c0]; [exfalso; apply (Hh cs); reflexivity|].
    rewrite strip_cons_data by discriminate. set (c := x :: c0) in *. assert (Hc: c <> []) by discriminate.
    destruct (k <? len c) eqn:Ek; cbn [chunks tl].
    + assert (Hd: drop k c <> []) by (apply drop_nonempty; lia).
      rewrite strip_cons_data by exact Hd. split; [reflexivity|].
      rewrite !idle_cons_data by assumption. reflexivity.
    + split; [reflexivity|]. rewrite idle_cons_data by exact Hc. reflexivity.
Qed.

(* the head chunk is empty: (0, nil), and the chunk is gone *)
Lemma read1_idle k s cs : chunks s = [] :: cs -> read1 k s = (([], None), mkSrc cs (tl s)).
Proof.
  intros E. unfold read1. rewrite E, len_nil_b. replace (k <? 0) with false by lia. reflexivity.
Qed.
