(* StreamIdleProofs.v — transports with idle reads ((0, nil) = an empty chunk):
   io.ReadFull and a single Read on a transport commute with removing the empty
   chunks, provided no empty chunk sits between the last byte and the end of the
   stream ([nt_chunks]; there the model's ReadFull differs, see C04). A single Read
   on an empty head chunk returns "0 bytes, no error" and only drops the chunk. *)
Require Import Bytes Stream BytesProofs StreamProofs Reader ReaderIdle.
From Coq Require Import ZifyBool ZifyN ZifyNat.
Open Scope N_scope.

(* ------------------------------------------------------------------ strip *)
Lemma strip_cons_idle cs : strip_chunks ([] :: cs) = strip_chunks cs.
Proof. reflexivity. Qed.

Lemma strip_cons_data c cs : c <> [] -> strip_chunks (c :: cs) = c :: strip_chunks cs.
Proof. intros H. destruct c; [contradiction|reflexivity]. Qed.

Lemma concat_strip cs : concat (strip_chunks cs) = concat cs.
Proof.
  induction cs as [|c cs IH]; [reflexivity|]. destruct c as [|x c].
  - rewrite strip_cons_idle. exact IH.
  - rewrite strip_cons_data by discriminate. cbn [concat]. rewrite IH. reflexivity.
Qed.

Lemma strip_wf cs : wf_chunks (strip_chunks cs).
Proof.
  induction cs as [|c cs IH]; [constructor|]. destruct c as [|x c].
  - rewrite strip_cons_idle. exact IH.
  - rewrite strip_cons_data by discriminate. constructor; [discriminate|exact IH].
Qed.

Lemma flat_strip s : flat (strip s) = flat s.
Proof. apply concat_strip. Qed.
Lemma wf_strip s : wf_src (strip s).
Proof. apply strip_wf. Qed.
Lemma tl_strip s : tl (strip s) = tl s.
Proof. reflexivity. Qed.

Lemma strip_wf_id cs : wf_chunks cs -> strip_chunks cs = cs.
Proof.
  induction 1 as [|c cs Hc _ IH]; [reflexivity|]. rewrite strip_cons_data by exact Hc. rewrite IH. reflexivity.
Qed.

Lemma idle_cons_idle cs : idle_chunks ([] :: cs) = S (idle_chunks cs).
Proof. reflexivity. Qed.
Lemma idle_cons_data c cs : c <> [] -> idle_chunks (c :: cs) = idle_chunks cs.
Proof. intros H. destruct c; [contradiction|reflexivity]. Qed.
Lemma idle_wf cs : wf_chunks cs -> idle_chunks cs = 0%nat.
Proof.
  induction 1 as [|c cs Hc _ IH]; [reflexivity|]. rewrite idle_cons_data by exact Hc. exact IH.
Qed.
Lemma idle_le_length cs : (idle_chunks cs <= length cs)%nat.
Proof. unfold idle_chunks. induction cs as [|c cs IH]; cbn [filter length]; [lia|]. destruct (is_idle c); cbn [length]; lia. Qed.

(* ------------------------------------------------------------------ no idle read before the end *)
Lemma nt_tail c cs : nt_chunks (c :: cs) -> nt_chunks cs.
Proof. destruct cs; [intros _; exact I|intros H; exact H]. Qed.

Lemma nt_idle_head cs : nt_chunks ([] :: cs) -> cs <> [].
Proof. destruct cs; [intros H _; apply H; reflexivity|discriminate]. Qed.

Lemma nt_cons_data c cs : c <> [] -> nt_chunks cs -> nt_chunks (c :: cs).
Proof. intros Hc H. destruct cs; [exact Hc|exact H]. Qed.

Lemma nt_strip_nonempty cs : nt_chunks cs -> cs <> [] -> strip_chunks cs <> [].
Proof.
  induction cs as [|c cs IH]; intros Hn Hne; [contradiction|]. destruct c as [|x c].
  - rewrite strip_cons_idle. apply IH; [apply (nt_tail _ _ Hn)|apply nt_idle_head, Hn].
  - rewrite strip_cons_data by discriminate. discriminate.
Qed.

Lemma nt_of_not_ends_idle s : ~ ends_idle s -> nt_chunks (chunks s).
Proof.
  unfold ends_idle. generalize (chunks s) as cs. induction cs as [|c cs IH]; intros H; [exact I|].
  destruct cs as [|c2 cs].
  - cbn [nt_chunks]. intros ->. apply H. exists []. reflexivity.
  - change (nt_chunks (c2 :: cs)). apply IH. intros (cs' & E). apply H. exists (c :: cs'). rewrite E. reflexivity.
Qed.

Lemma ends_idle_of_not_nt s : ends_idle s -> ~ nt_chunks (chunks s).
Proof.
  unfold ends_idle. intros (cs' & E). rewrite E. clear E. induction cs' as [|c cs' IH].
  - cbn. intros H. apply H. reflexivity.
  - intros H. apply IH. apply (nt_tail _ _ H).
Qed.

Lemma wf_nt cs : wf_chunks cs -> nt_chunks cs.
Proof. induction 1 as [|c cs Hc _ IH]; [exact I|]. apply nt_cons_data; assumption. Qed.

(* ------------------------------------------------------------------ io.ReadFull *)
Lemma read_full_aux_0 need got cs t : (need =? 0) = true -> read_full_aux need got cs t = (([], None), cs).
Proof. intros E. destruct cs; cbn [read_full_aux]; rewrite E; reflexivity. Qed.

Lemma read_full_aux_got need g1 g2 c cs t :
  read_full_aux need g1 (c :: cs) t = read_full_aux need g2 (c :: cs) t.
Proof. reflexivity. Qed.

Lemma len_nil_b : len (@nil byte) = 0. Proof. reflexivity. Qed.

Lemma drop_nonempty {A} n (c : list A) : n < len c -> drop n c <> [].
Proof. intros H E. apply (f_equal len) in E. rewrite len_drop in E. change (len (@nil A)) with 0 in E. lia. Qed.

Lemma read_full_aux_strip : forall cs need got t, nt_chunks cs ->
  let '((b, e), rest) := read_full_aux need got cs t in
  read_full_aux need got (strip_chunks cs) t = ((b, e), strip_chunks rest) /\ nt_chunks rest /\
  (idle_chunks rest <= idle_chunks cs)%nat.
Proof.
  induction cs as [|c cs IH]; intros need got t Hnt.
  - cbn [read_full_aux strip_chunks filter]. destruct (need =? 0); (split; [reflexivity|split; [exact I|apply le_n]]).
  - destruct (need =? 0) eqn:E0.
    { rewrite !read_full_aux_0 by exact E0. split; [reflexivity|]. split; [exact Hnt|apply le_n]. }
    destruct c as [|x c0].
    + (* an idle read: ReadFull goes on *)
      cbn [read_full_aux]. rewrite E0, len_nil_b. replace (need <=? 0) with false by lia. rewrite N.sub_0_r.
      pose proof (nt_tail _ _ Hnt) as Hnt'. pose proof (nt_idle_head _ Hnt) as Hne.
      specialize (IH need true t Hnt').
      destruct (read_full_aux need true cs t) as [[r e] rest]. destruct IH as (IH1 & IH2 & IH3).
      cbn [app]. rewrite strip_cons_idle. split; [|split; [exact IH2|rewrite idle_cons_idle; lia]].
      pose proof (nt_strip_nonempty cs Hnt' Hne) as Hs. destruct (strip_chunks cs) as [|y l]; [contradiction|].
      rewrite (read_full_aux_got need got true). exact IH1.
    + rewrite strip_cons_data by discriminate. cbn [read_full_aux]. rewrite E0.
      set (c := x :: c0) in *. assert (Hc: c <> []) by discriminate.
      destruct (need <=? len c) eqn:E1.
      * destruct (need =? len c) eqn:E2.
        -- split; [reflexivity|]. split; [apply (nt_tail _ _ Hnt)|rewrite idle_cons_data by exact Hc; apply le_n].
        -- assert (Hd: drop need c <> []) by (apply drop_nonempty; lia).
           rewrite strip_cons_data by exact Hd. split; [reflexivity|]. split.
           ++ apply nt_cons_data; [exact Hd|apply (nt_tail _ _ Hnt)].
           ++ rewrite !idle_cons_data by assumption. apply le_n.
      * specialize (IH (need - len c) true t (nt_tail _ _ Hnt)).
        destruct (read_full_aux (need - len c) true cs t) as [[r e] rest]. destruct IH as (IH1 & IH2 & IH3).
        rewrite IH1. split; [reflexivity|]. split; [exact IH2|]. rewrite idle_cons_data by exact Hc. exact IH3.
Qed.

Lemma read_full_strip need s : nt_chunks (chunks s) ->
  let '((b, e), s') := read_full need s in
  read_full need (strip s) = ((b, e), strip s') /\ nt_chunks (chunks s') /\
  (idle_reads s' <= idle_reads s)%nat /\ tl s' = tl s.
Proof.
  intros Hnt. unfold read_full, strip. cbn [chunks tl].
  pose proof (read_full_aux_strip (chunks s) need false (tl s) Hnt) as H.
  destruct (read_full_aux need false (chunks s) (tl s)) as [[b e] rest]. destruct H as (H1 & H2 & H3).
  rewrite H1. cbn [chunks tl]. repeat split; assumption.
Qed.

(* ------------------------------------------------------------------ one Read *)
(* the head chunk holds bytes, or the transport is at its end *)
Lemma read1_strip k s : nt_chunks (chunks s) -> (forall cs, chunks s <> [] :: cs) ->
  let '((b, e), s') := read1 k s in
  read1 k (strip s) = ((b, e), strip s') /\ nt_chunks (chunks s') /\ idle_reads s' = idle_reads s.
Proof.
  intros Hnt Hh. unfold read1, strip, idle_reads. cbn [chunks tl]. destruct (chunks s) as [|c cs] eqn:E.
  - cbn [strip_chunks filter]. rewrite E. repeat split.
  - destruct c as [|x c0]; [exfalso; apply (Hh cs); reflexivity|].
    rewrite strip_cons_data by discriminate. set (c := x :: c0) in *. assert (Hc: c <> []) by discriminate.
    destruct (k <? len c) eqn:Ek; cbn [chunks tl].
    + assert (Hd: drop k c <> []) by (apply drop_nonempty; lia).
      rewrite strip_cons_data by exact Hd. split; [reflexivity|]. split.
      * apply nt_cons_data; [exact Hd|apply (nt_tail _ _ Hnt)].
      * rewrite !idle_cons_data by assumption. reflexivity.
    + split; [reflexivity|]. split; [apply (nt_tail _ _ Hnt)|]. rewrite idle_cons_data by exact Hc. reflexivity.
Qed.

(* the head chunk is empty: (0, nil), and the chunk is gone *)
Lemma read1_idle k s cs : chunks s = [] :: cs -> read1 k s = (([], None), mkSrc cs (tl s)).
Proof.
  intros E. unfold read1. rewrite E, len_nil_b. replace (k <? 0) with false by lia. reflexivity.
Qed.
