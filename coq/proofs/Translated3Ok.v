(* Tie C, third translator: the definitions TRANSLATED from the Go source on this run
   (gen/Translated3.v, by `harness translate3`; memory model lib/GoMem.v) are proved, for EVERY
   world (heap of byte arrays), every valid slice, every byte value and every other argument in range,
     (a) to return neither Panic nor OutOfFuel under the stated precondition, and
     (b) to compute what the hand-written models compute, INCLUDING the effect on caller-visible
         memory: the bytes of the slice argument afterwards, every other byte of the heap unchanged.
   Method: proofs/GoMemProofs.v (canonical form sl_put) + one lemma per loop shape. *)
From Coq Require Import NArith ZArith List Bool Lia ZifyBool ZifyN ZifyNat.
Require Import Bytes GoSlices GoMem GoMemProofs Translated3.
Require Import Stream Check Frame Extracted ExtractedOk Cipher BytesProofs CipherProofs Utf8Dfa.
Import ListNotations.
Open Scope Z_scope.

(* ------------------------------------------------------------------ bytes N <-> Z *)
Definition zb (l : list N) : list Z := map Z.of_N l.
Definition nb (l : list Z) : list N := map Z.to_N l.

Lemma zb_nb l : go_bytes l -> zb (nb l) = l.
Proof.
  unfold go_bytes, zb, nb. induction 1 as [|x l Hx _ IH]; [reflexivity|].
  cbn [map]. rewrite IH. f_equal. lia.
Qed.
Lemma nb_zb l : nb (zb l) = l.
Proof. unfold zb, nb. induction l as [|x l IH]; [reflexivity|]. cbn [map]. rewrite IH. f_equal. lia. Qed.
Lemma zb_app a b : zb (a ++ b) = zb a ++ zb b.
Proof. apply map_app. Qed.
Lemma zb_length l : length (zb l) = length l.
Proof. apply map_length. Qed.
Lemma go_len_zb l : go_len (zb l) = Z.of_nat (length l).
Proof. unfold go_len. now rewrite zb_length. Qed.
Lemma zb_firstn n l : zb (firstn n l) = firstn n (zb l).
Proof. unfold zb. symmetry. apply firstn_map. Qed.
Lemma zb_skipn n l : zb (skipn n l) = skipn n (zb l).
Proof. unfold zb. symmetry. apply skipn_map. Qed.
Lemma zb_nth l i : nth i (zb l) 0 = Z.of_N (nth i l 0%N).
Proof. unfold zb. change 0 with (Z.of_N 0%N). apply map_nth. Qed.
Lemma wf_bytes_nb l : go_bytes l -> wf_bytes (nb l).
Proof.
  unfold go_bytes, wf_bytes, nb. induction 1 as [|x l Hx _ IH]; constructor; [|exact IH].
  unfold wf_byte. lia.
Qed.
Lemma go_bytes_zb l : wf_bytes l -> go_bytes (zb l).
Proof.
  unfold go_bytes, wf_bytes, zb. induction 1 as [|x l Hx _ IH]; constructor; [|exact IH].
  unfold wf_byte in Hx. lia.
Qed.

(* ------------------------------------------------------------------ wraps, bit operations *)
Definition max_int : Z := 9223372036854775807.
Lemma wrap_s64_id x : -9223372036854775808 <= x <= 9223372036854775807 -> wrap_s 64 x = x.
Proof.
  intros H. unfold wrap_s. change (2 ^ (64 - 1)) with 9223372036854775808.
  change (2 ^ 64) with 18446744073709551616. rewrite Z.mod_small by lia. lia.
Qed.
Lemma wrap_u_id k x : 0 <= x < 2 ^ k -> wrap_u k x = x.
Proof. intros H. unfold wrap_u. apply Z.mod_small, H. Qed.

Lemma Z_lxor_of_N a b : Z.lxor (Z.of_N a) (Z.of_N b) = Z.of_N (N.lxor a b).
Proof. destruct a, b; reflexivity. Qed.
Lemma Z_lor_of_N a b : Z.lor (Z.of_N a) (Z.of_N b) = Z.of_N (N.lor a b).
Proof. destruct a, b; reflexivity. Qed.
Lemma Z_shiftl_of_N a n : Z.shiftl (Z.of_N a) (Z.of_N n) = Z.of_N (N.shiftl a n).
Proof.
  rewrite Z.shiftl_mul_pow2 by lia. rewrite N.shiftl_mul_pow2. rewrite N2Z.inj_mul, N2Z.inj_pow. reflexivity.
Qed.

Lemma le_val_z_zb l : le_val_z (zb l) = Z.of_N (le_val l).
Proof. induction l as [|b r IH]; [reflexivity|]. cbn [zb map le_val_z le_val]. fold (zb r). rewrite IH. lia. Qed.
Lemma le_bytes_z_zb k : forall v, le_bytes_z k (Z.of_N v) = zb (le_bytes k v).
Proof.
  induction k as [|k IH]; intros v; [reflexivity|]. cbn [le_bytes_z le_bytes zb map]. fold (zb (le_bytes k (v / 256))).
  rewrite <- IH. f_equal; [now rewrite N2Z.inj_mod|]. f_equal. now rewrite N2Z.inj_div.
Qed.

Ltac len_tac := unfold go_len in *; rewrite ?app_length in *; cbn [length] in *; lia.

(* ================================================================== Cipher (cipher.go) *)
(* the byte loops of the Z-level translation *)
Fixpoint zxor_loop (l mask : list Z) (start : Z) : list Z :=
  match l with
  | [] => []
  | b :: r => Z.lxor b (nth (Z.to_nat (start mod 4)) mask 0) :: zxor_loop r mask (start + 1)
  end.

Lemma zxor_loop_zb l : forall key st,
  zxor_loop (zb l) (zb key) (Z.of_N st) = zb (byte_loop l key st).
Proof.
  induction l as [|b r IH]; intros key st; [reflexivity|].
  cbn [zb map zxor_loop byte_loop]. fold (zb r). fold (zb key). fold (zb (byte_loop r key (st + 1))).
  rewrite <- IH. f_equal.
  - rewrite zb_nth, Z_lxor_of_N. unfold nthb. do 3 f_equal. lia.
  - f_equal. lia.
Qed.
Lemma zxor_loop_length l mask : forall st, length (zxor_loop l mask st) = length l.
Proof. induction l as [|b r IH]; intros st; cbn [zxor_loop length]; [reflexivity|]. now rewrite IH. Qed.

(* for i := a; i < bound; i++ { payload[i] ^= mask[(base+i)%4] } *)
Definition bl_body (s : slice) (mask : list Z) (base bound : Z) : Z -> M (step Z unit) := fun v_i =>
  (if (v_i <? bound) then (
     t1 <- lift (go_index mask (Z.rem (wrap_s 64 (base + v_i)) 4));;
     t2 <- m_index s v_i;;
     _ <- m_store s v_i (Z.lxor t2 t1);;
     let v_i := (wrap_s 64 (v_i + 1)) in
     ret (Continue v_i)
   ) else ret (Break v_i))%gomem.

Lemma bl_loop Mid : forall P R fuel w0 s mask base a b w,
  sl_valid w0 s -> w = sl_put w0 s (P ++ Mid ++ R) -> go_len (P ++ Mid ++ R) = sl_len s ->
  a = Z.of_nat (length P) -> b = a + Z.of_nat (length Mid) ->
  length mask = 4%nat -> 0 <= base -> base + b <= max_int + 1 -> b <= max_int ->
  (length Mid < fuel)%nat ->
  m_loop fuel (bl_body s mask base b) a w =
  Ok (inl b, sl_put w0 s (P ++ zxor_loop Mid mask (base + a) ++ R)).
Proof.
  unfold max_int.
  induction Mid as [|x Mid IH]; intros P R fuel w0 s mask base a b w Hv Hw Hlen Ha Hb Hm Hbase Hov Hbm Hfuel;
    (destruct fuel as [|fuel]; [lia|]); cbn [m_loop]; unfold bl_body at 1.
  - cbn [length] in Hb. replace (a <? b) with false by lia. cbv [ret]. cbn [zxor_loop].
    replace b with a by lia. now subst w.
  - cbn [length] in Hb, Hfuel. replace (a <? b) with true by lia.
    rewrite wrap_s64_id by lia. rewrite Z.rem_mod_nonneg by lia.
    pose proof (Z.mod_pos_bound (base + a) 4 ltac:(lia)) as Hmod.
    unfold go_index at 1. unfold go_len. rewrite Hm.
    replace ((0 <=? (base + a) mod 4) && ((base + a) mod 4 <? Z.of_nat 4)) with true by lia.
    rewrite mbind_lift_ok.
    assert (Hvw : sl_valid w s) by (subst w; apply sl_valid_put; assumption).
    assert (Hbw : sl_bytes w s = P ++ (x :: Mid) ++ R) by (subst w; apply sl_bytes_put; assumption).
    unfold go_len in Hlen. rewrite !app_length in Hlen. cbn [length] in Hlen.
    erewrite mbind_ok by (apply m_index_ok; [exact Hvw|lia]).
    erewrite mbind_ok by (apply m_store_ok; lia).
    cbv zeta. cbv [ret].
    rewrite (sl_blit_put w s a _ Hvw) by (unfold go_len; cbn [length]; lia).
    rewrite Hbw. replace (Z.to_nat a) with (length P) by lia.
    change ((x :: Mid) ++ R) with (x :: (Mid ++ R)). rewrite nth_app_exact.
    change (x :: (Mid ++ R)) with ([x] ++ (Mid ++ R)). rewrite list_blit_app by reflexivity.
    rewrite wrap_s64_id by lia.
    set (v := Z.lxor x (nth (Z.to_nat ((base + a) mod 4)) mask 0)).
    rewrite Hw. rewrite sl_put_put; [|assumption|len_tac|len_tac].
    replace (P ++ [v] ++ Mid ++ R) with ((P ++ [v]) ++ Mid ++ R) by (now rewrite <- app_assoc).
    rewrite (IH (P ++ [v]) R fuel w0 s mask base (a + 1) b (sl_put w0 s ((P ++ [v]) ++ Mid ++ R))); try assumption; try lia.
    + f_equal. f_equal. f_equal. cbn [zxor_loop]. fold v. rewrite <- app_assoc. cbn [app].
      replace (base + a + 1) with (base + (a + 1)) by lia. reflexivity.
    + reflexivity.
    + unfold go_len. rewrite !app_length. cbn [length]. lia.
    + rewrite app_length. cbn [length]. lia.
Qed.

(* the 16-byte word loop of the Z-level translation *)
Definition zword8 (c : list Z) (m2 : Z) : list Z := le_bytes_z 8 (Z.lxor (le_val_z c) m2).
Fixpoint zword_loop (k : nat) (l : list Z) (m2 : Z) : list Z :=
  match k with
  | O => []
  | S k' => zword8 (firstn 8 l) m2 ++ zword8 (firstn 8 (skipn 8 l)) m2 ++ zword_loop k' (skipn 16 l) m2
  end.

Lemma zword8_zb c key : zword8 (zb c) (Z.of_N (key_m64 key)) = zb (le_bytes 8 (N.lxor (le_val c) (key_m64 key))).
Proof. unfold zword8. now rewrite le_val_z_zb, Z_lxor_of_N, le_bytes_z_zb. Qed.

Lemma zword_loop_zb k : forall l key,
  zword_loop k (zb l) (Z.of_N (key_m64 key)) = zb (word_loop k l key).
Proof.
  induction k as [|k IH]; intros l key; [reflexivity|].
  cbn [zword_loop word_loop]. unfold word16. rewrite !zb_app.
  rewrite <- !zb_firstn, <- !zb_skipn, <- !zb_firstn. rewrite !zword8_zb, IH.
  rewrite <- app_assoc. f_equal; [|f_equal].
  - rewrite firstn_firstn. reflexivity.
  - rewrite skipn_firstn_comm. rewrite firstn_firstn. reflexivity.
Qed.

Definition wl_body (s : slice) (m2 bound : Z) : Z * Z -> M (step (Z * Z) unit) := fun '(v_j, v_i_4) =>
  (if (v_i_4 <? bound) then (
     t13 <- m_slice s v_j (wrap_s 64 (v_j + 16));;
     let v_chunk := t13 in
     t14 <- m_get_uint false 8 v_chunk;;
     let v_p := (Z.lxor t14 m2) in
     t15 <- m_slice v_chunk 8 (sl_len v_chunk);;
     t16 <- m_get_uint false 8 t15;;
     let v_p2 := (Z.lxor t16 m2) in
     _ <- m_put_uint false 8 v_chunk v_p;;
     t17 <- m_slice v_chunk 8 (sl_len v_chunk);;
     _ <- m_put_uint false 8 t17 v_p2;;
     let v_j := (wrap_s 64 (v_j + 16)) in
     let v_i_4 := (wrap_s 64 (v_i_4 + 1)) in
     ret (Continue (v_j, v_i_4))
   ) else ret (Break (v_j, v_i_4)))%gomem.

Lemma wl_loop k : forall Mid P R fuel w0 s m2 j i bound w,
  sl_valid w0 s -> w = sl_put w0 s (P ++ Mid ++ R) -> go_len (P ++ Mid ++ R) = sl_len s ->
  length Mid = (16 * k)%nat -> j = Z.of_nat (length P) -> bound = i + Z.of_nat k -> 0 <= i ->
  sl_len s <= max_int -> bound <= max_int -> (k < fuel)%nat ->
  m_loop fuel (wl_body s m2 bound) (j, i) w =
  Ok (inl (j + 16 * Z.of_nat k, bound), sl_put w0 s (P ++ zword_loop k Mid m2 ++ R)).
Proof.
  unfold max_int.
  induction k as [|k IH]; intros Mid P R fuel w0 s m2 j i bound w Hv Hw Hlen HM Hj Hb Hi Hmax Hbm Hfuel;
    (destruct fuel as [|fuel]; [lia|]); cbn [m_loop]; unfold wl_body at 1.
  - replace (i <? bound) with false by lia. cbv [ret]. cbn [zword_loop].
    destruct Mid; [|discriminate]. subst w. repeat f_equal; lia.
  - replace (i <? bound) with true by lia.
    assert (Hvw : sl_valid w s) by (subst w; apply sl_valid_put; assumption).
    assert (Hbw : sl_bytes w s = P ++ Mid ++ R) by (subst w; apply sl_bytes_put; assumption).
    (* Mid = lo ++ hi ++ Mid' *)
    set (lo := firstn 8 Mid). set (hi := firstn 8 (skipn 8 Mid)). set (Mid' := skipn 16 Mid).
    assert (EM : Mid = lo ++ hi ++ Mid').
    { subst lo hi Mid'. rewrite <- (firstn_skipn 8 Mid) at 1. f_equal.
      rewrite <- (firstn_skipn 8 (skipn 8 Mid)) at 1. f_equal. rewrite skipn_skipn_add. reflexivity. }
    assert (Llo : length lo = 8%nat) by (subst lo; rewrite firstn_length; lia).
    assert (Lhi : length hi = 8%nat) by (subst hi; rewrite firstn_length, skipn_length; lia).
    assert (LM' : length Mid' = (16 * k)%nat) by (subst Mid'; rewrite skipn_length; lia).
    assert (Hn : Z.of_nat (length P) + Z.of_nat (length Mid) + Z.of_nat (length R) = sl_len s) by len_tac.
    pose proof Hv as (Ha & Ho & Hl & Hc).
    rewrite wrap_s64_id by lia.
    erewrite mbind_ok by (apply m_slice_ok; lia). cbv zeta.
    set (chunk := mk_slice (sl_arr s) (sl_off s + j) (j + 16 - j) (sl_cap s - j)).
    assert (Lc : sl_len chunk = 16) by (subst chunk; cbn [sl_len]; lia).
    assert (Bc : sl_bytes w chunk = lo ++ hi).
    { rewrite (sl_bytes_sub w s chunk j Hvw eq_refl eq_refl) by lia. rewrite Hbw, Lc.
      replace (Z.to_nat j) with (length P) by lia. rewrite skipn_app_exact. rewrite EM.
      replace (lo ++ hi ++ Mid') with ((lo ++ hi) ++ Mid') by (now rewrite <- app_assoc).
      rewrite <- app_assoc. apply firstn_app_n. rewrite app_length. lia. }
    erewrite mbind_ok by (apply m_get_uint_ok; lia). rewrite Bc. rewrite firstn_app_n by lia.
    erewrite mbind_ok by (apply m_slice_ok; subst chunk; cbn [sl_len sl_cap]; lia).
    set (c2 := mk_slice (sl_arr chunk) (sl_off chunk + 8) (sl_len chunk - 8) (sl_cap chunk - 8)).
    assert (Lc2 : sl_len c2 = 8) by (subst c2; cbn [sl_len]; lia).
    assert (Bc2 : sl_bytes w c2 = hi).
    { rewrite (sl_bytes_sub w s c2 (j + 8) Hvw eq_refl) by (subst c2 chunk; cbn [sl_off sl_len]; lia).
      rewrite Hbw, Lc2. replace (Z.to_nat (j + 8)) with (length P + 8)%nat by lia. rewrite skipn_app_plus.
      rewrite EM. rewrite <- Llo at 1. rewrite <- !app_assoc. rewrite skipn_app_exact. apply firstn_app_n. lia. }
    erewrite mbind_ok by (apply m_get_uint_ok; lia). rewrite Bc2. rewrite firstn_all2 by lia.
    erewrite mbind_ok by (apply m_put_uint_ok; lia).
    rewrite (sl_blit_sub _ s chunk j 0 _ eq_refl eq_refl).
    rewrite (sl_blit_put w s (j + 0) _ Hvw) by (unfold go_len; rewrite ?le_bytes_z_length; lia).
    rewrite Hbw. replace (Z.to_nat (j + 0)) with (length P) by lia.
    rewrite EM at 1. rewrite <- !app_assoc. rewrite list_blit_app by (rewrite le_bytes_z_length; lia).
    fold (zword8 lo m2). set (lo' := zword8 lo m2).
    assert (Llo' : length lo' = 8%nat) by (subst lo'; unfold zword8; apply le_bytes_z_length).
    rewrite Hw. rewrite sl_put_put; [|assumption|exact Hlen|len_tac].
    set (w1 := sl_put w0 s (P ++ lo' ++ hi ++ Mid' ++ R)).
    assert (Hvw1 : sl_valid w1 s) by (subst w1; apply sl_valid_put; [assumption|len_tac|assumption]).
    assert (Hbw1 : sl_bytes w1 s = P ++ lo' ++ hi ++ Mid' ++ R) by (subst w1; apply sl_bytes_put; [assumption|len_tac]).
    erewrite mbind_ok by (apply m_slice_ok; subst chunk; cbn [sl_len sl_cap]; lia). fold c2.
    erewrite mbind_ok by (apply m_put_uint_ok; lia).
    rewrite (sl_blit_sub _ s c2 (j + 8) 0 _ eq_refl) by (subst c2 chunk; cbn [sl_off]; lia).
    rewrite (sl_blit_put w1 s (j + 8 + 0) _ Hvw1) by (unfold go_len; rewrite ?le_bytes_z_length; lia).
    rewrite Hbw1. replace (Z.to_nat (j + 8 + 0)) with (length (P ++ lo')) by (rewrite app_length; lia).
    replace (P ++ lo' ++ hi ++ Mid' ++ R) with ((P ++ lo') ++ hi ++ Mid' ++ R) by (now rewrite <- app_assoc).
    rewrite list_blit_app by (rewrite le_bytes_z_length; lia).
    fold (zword8 hi m2). set (hi' := zword8 hi m2).
    assert (Lhi' : length hi' = 8%nat) by (subst hi'; unfold zword8; apply le_bytes_z_length).
    subst w1. rewrite sl_put_put; [|assumption|len_tac|len_tac].
    cbv zeta. cbv [ret]. rewrite !wrap_s64_id by lia.
    replace ((P ++ lo') ++ hi' ++ Mid' ++ R) with (((P ++ lo') ++ hi') ++ Mid' ++ R) by (now rewrite <- !app_assoc).
    rewrite (IH Mid' ((P ++ lo') ++ hi') R fuel w0 s m2 (j + 16) (i + 1) bound
                (sl_put w0 s (((P ++ lo') ++ hi') ++ Mid' ++ R))); try assumption; try lia.
    + f_equal. f_equal; [f_equal; f_equal; lia|]. f_equal. cbn [zword_loop]. fold lo hi Mid' lo' hi'.
      rewrite <- !app_assoc. reflexivity.
    + now rewrite <- !app_assoc.
    + len_tac.
    + rewrite !app_length. lia.
Qed.

(* m := LittleEndian.Uint32(mask[:]); m2 := uint64(m)<<32 | uint64(m) *)
Lemma key_m64_z key : wf_key key ->
  Z.lor (wrap_u 64 (Z.shiftl (le_val_z (zb key)) 32)) (le_val_z (zb key)) = Z.of_N (key_m64 key).
Proof.
  intros [Hl Hw]. unfold key_m64, key_m32. rewrite firstn_all2 by lia. rewrite le_val_z_zb.
  pose proof (le_val_bound key Hw) as Hb. unfold len in Hb. rewrite Hl in Hb. change (256 ^ N.of_nat 4)%N with 4294967296%N in Hb.
  change 32 with (Z.of_N 32%N). rewrite Z_shiftl_of_N.
  rewrite wrap_u_id.
  - apply Z_lor_of_N.
  - rewrite N.shiftl_mul_pow2. change (2 ^ 32)%N with 4294967296%N. change (2 ^ 64) with 18446744073709551616. lia.
Qed.

(* what Cipher needs of its arguments: a non-negative offset, and for payloads shorter than 8 bytes
   no overflow of offset+i (else Go indexes mask with a negative number and panics) *)
Definition cipher_pre (n off : Z) : Prop :=
  0 <= off <= max_int /\ (n < 8 -> off + n <= max_int + 1) /\ (8 <= n -> off mod 4 + n <= max_int + 1).

Ltac sc := unfold go_len; rewrite ?app_length, ?zb_length, ?zxor_loop_length, ?zb_length; lia.

Theorem g3_Cipher_ok w s p key off :
  sl_valid w s -> sl_bytes w s = zb p -> wf_key key -> sl_len s <= max_int -> cipher_pre (sl_len s) off ->
  g3_Cipher s (zb key) off w = Ok (tt, sl_put w s (zb (cipher p key (Z.to_N off)))).
Proof.
  intros Hv Hp Hk Hmax (Hoff & Hsmall & Hbig). unfold max_int in *.
  assert (Hn : sl_len s = Z.of_nat (length p)).
  { pose proof (sl_bytes_length w s Hv) as E. rewrite Hp, zb_length in E. destruct Hv as (_ & _ & Hl & _). lia. }
  assert (Hkl : length (zb key) = 4%nat) by (rewrite zb_length; apply Hk).
  assert (Hw0 : w = sl_put w s (zb p)) by (rewrite <- Hp; symmetry; apply sl_put_same, Hv).
  unfold g3_Cipher. cbv zeta. unfold cipher. unfold len. unfold byte in *.
  destruct (sl_len s <? 8) eqn:E8.
  - replace (N.of_nat (length p) <? 8)%N with true by lia.
    pose proof (bl_loop (zb p) [] [] (Z.to_nat (sl_len s) + 65) w s (zb key) off 0 (sl_len s) w Hv) as L.
    cbn [app length] in L. rewrite app_nil_r in L.
    erewrite mbind_ok; [|apply L; unfold max_int; try assumption; try lia; try len_tac; rewrite ?go_len_zb, ?zb_length; lia].
    cbv [ret]. f_equal. f_equal. f_equal. rewrite <- zxor_loop_zb. rewrite app_nil_r. f_equal. lia.
  - replace (N.of_nat (length p) <? 8)%N with false by lia.
    (* the model's quantities *)
    set (nN := N.of_nat (length p)). set (mposN := (Z.to_N off mod 4)%N).
    set (lnN := nthb remain mposN). set (rnN := ((nN - lnN) mod 16)%N).
    set (kN := N.shiftr (nN - lnN - rnN) 4).
    rewrite Z.rem_mod_nonneg by lia. set (mpos := off mod 4) in *.
    assert (Hmp : mpos = Z.of_N mposN) by (subst mpos mposN; lia).
    assert (Hmp4 : 0 <= mpos < 4) by (subst mpos; apply Z.mod_pos_bound; lia).
    assert (Hln : go_index g3_pv_remain mpos = Ok (Z.of_N lnN) /\ (lnN <= 3)%N).
    { subst lnN. rewrite ok_remain. unfold nthb. rewrite Hmp.
      assert (E : (mposN = 0 \/ mposN = 1 \/ mposN = 2 \/ mposN = 3)%N) by lia.
      destruct E as [-> | [-> | [-> | ->]]]; split; (reflexivity || (vm_compute; discriminate)). }
    destruct Hln as [Hgi Hln3]. rewrite Hgi. rewrite mbind_lift_ok. set (ln := Z.of_N lnN).
    rewrite (wrap_s64_id (sl_len s - ln)) by lia. rewrite Z.rem_mod_nonneg by lia.
    set (rn := (sl_len s - ln) mod 16).
    assert (Hrn : rn = Z.of_N rnN) by (subst rn rnN ln nN; lia).
    assert (Hrn16 : 0 <= rn < 16) by (subst rn; apply Z.mod_pos_bound; lia).
    assert (HkN : kN = ((nN - lnN) / 16)%N).
    { subst kN. rewrite N.shiftr_div_pow2. change (2 ^ 4)%N with 16%N. subst rnN. lia. }
    (* p = A ++ B ++ C *)
    set (A := take lnN p). set (B := firstn (16 * N.to_nat kN) (drop lnN p)). set (C := drop (nN - rnN) p).
    assert (Hsplit : p = A ++ B ++ C).
    { subst A B C. unfold take, drop. rewrite <- (firstn_skipn (N.to_nat lnN) p) at 1. f_equal.
      rewrite <- (firstn_skipn (16 * N.to_nat kN) (skipn (N.to_nat lnN) p)) at 1. f_equal.
      rewrite skipn_skipn_add. f_equal. subst rnN nN. lia. }
    assert (LA : length A = N.to_nat lnN) by (subst A; unfold take; rewrite firstn_length; subst nN; lia).
    assert (LB : length B = (16 * N.to_nat kN)%nat).
    { subst B. unfold drop. rewrite firstn_length, skipn_length. subst nN. lia. }
    assert (LC : length C = N.to_nat rnN).
    { subst C. unfold drop. rewrite skipn_length. subst rnN nN. lia. }
    assert (Lp : length p = (length A + length B + length C)%nat) by (rewrite Hsplit at 1; rewrite !app_length; lia).
    (* head loop *)
    pose proof (bl_loop (zb A) [] (zb B ++ zb C) (Z.to_nat (sl_len s) + 65) w s (zb key) mpos 0 ln w Hv) as L1.
    cbn [app length] in L1.
    erewrite mbind_ok; [|apply L1; unfold max_int; try assumption; try lia;
                         [rewrite <- !zb_app, <- Hsplit; exact Hw0 | rewrite <- !zb_app, <- Hsplit, go_len_zb; lia
                         | rewrite zb_length; lia | rewrite zb_length; lia]].
    clear L1. cbv iota beta.
    set (A' := zxor_loop (zb A) (zb key) (mpos + 0)).
    assert (LA' : length A' = length A) by (subst A'; rewrite zxor_loop_length; apply zb_length).
    (* tail loop *)
    rewrite (wrap_s64_id (sl_len s - rn)) by lia.
    pose proof (bl_loop (zb C) (A' ++ zb B) [] (Z.to_nat (sl_len s) + 65) w s (zb key) mpos (sl_len s - rn) (sl_len s)
                  (sl_put w s (A' ++ zb B ++ zb C)) Hv) as L2.
    rewrite !app_nil_r in L2. rewrite <- !app_assoc in L2.
    erewrite mbind_ok; [|apply L2; unfold max_int; first [assumption | reflexivity | lia | sc]].
    clear L2. cbv iota beta.
    set (C' := zxor_loop (zb C) (zb key) (mpos + (sl_len s - rn))).
    assert (LC' : length C' = length C) by (subst C'; rewrite zxor_loop_length; apply zb_length).
    (* m, m2 *)
    unfold go_slice. rewrite go_len_zb. replace (length key) with 4%nat by (symmetry; apply Hk).
    cbn [Z.leb Z.of_nat Pos.of_succ_nat Pos.succ andb Z.compare Pos.compare Pos.compare_cont Z.sub Z.opp Z.add Z.to_nat Pos.to_nat Pos.iter_op Nat.add skipn].
    rewrite mbind_lift_ok. rewrite firstn_all2 by lia.
    unfold v_get_uint. rewrite go_len_zb. replace (length key) with 4%nat by (symmetry; apply Hk).
    cbn [Z.leb Z.of_nat Pos.of_succ_nat Pos.succ Z.compare Pos.compare Pos.compare_cont].
    rewrite mbind_lift_ok. rewrite firstn_all2 by lia.
    rewrite (key_m64_z key Hk). set (m2 := Z.of_N (key_m64 key)).
    (* word loop *)
    rewrite (wrap_s64_id (sl_len s - ln - rn)) by lia.
    rewrite Z.shiftr_div_pow2 by lia. change (2 ^ 4) with 16.
    assert (Hit : (sl_len s - ln - rn) / 16 = Z.of_N kN) by (rewrite HkN; subst rn ln nN; lia).
    rewrite Hit.
    pose proof (wl_loop (N.to_nat kN) (zb B) A' C' (Z.to_nat (sl_len s) + 65) w s m2 ln 0 (Z.of_N kN)
                  (sl_put w s (A' ++ zb B ++ C')) Hv eq_refl) as L3.
    erewrite mbind_ok; [|apply L3; unfold max_int; first [assumption | reflexivity | lia | sc]].
    clear L3. cbv iota beta. cbv [ret]. f_equal. f_equal. f_equal.
    (* against the model *)
    rewrite !zb_app. subst A' C' m2. f_equal; [|f_equal].
    + rewrite <- zxor_loop_zb. f_equal. lia.
    + rewrite zword_loop_zb. f_equal. fold B. subst B.
      rewrite (word_loop_prefix (N.to_nat kN) (drop lnN p)); [reflexivity|].
      unfold drop. rewrite skipn_length. subst nN. lia.
    + rewrite <- zxor_loop_zb. f_equal. subst rn ln nN. lia.
Qed.

(* the headline, with the world afterwards written out: array number (sl_arr s) holds the RFC 6455 XOR of
   the payload between offset and offset+len, every other byte of every array and the write log are as
   before; no Panic, no OutOfFuel *)
Theorem g3_Cipher_source w s p key off :
  sl_valid w s -> sl_bytes w s = zb p -> wf_bytes p -> wf_key key -> sl_len s <= max_int ->
  cipher_pre (sl_len s) off ->
  g3_Cipher s (zb key) off w =
  Ok (tt, mk_world (heap_set (w_heap w) (sl_arr s)
                      (firstn (Z.to_nat (sl_off s)) (arr_of w (sl_arr s))
                       ++ zb (cipher p key (Z.to_N off))
                       ++ skipn (Z.to_nat (sl_off s + sl_len s)) (arr_of w (sl_arr s))))
                   (w_out w))
  /\ cipher p key (Z.to_N off) = mask_spec p key (Z.to_N off).
Proof.
  intros Hv Hp Hwf Hk Hmax Hpre. split; [|apply cipher_is_spec; assumption].
  rewrite (g3_Cipher_ok w s p key off Hv Hp Hk Hmax Hpre). f_equal. f_equal.
  apply sl_put_heap; [exact Hv|].
  rewrite go_len_zb, cipher_is_spec, mask_spec_length by assumption.
  pose proof (sl_bytes_length w s Hv) as E. rewrite Hp, zb_length in E. destruct Hv as (_ & _ & Hl & _).
  unfold byte in *. lia.
Qed.

(* the precondition is needed: a negative offset makes Go index mask with a negative number *)
Lemma g3_Cipher_negative_offset_panics :
  g3_Cipher (mk_slice 0 0 1 1) [1; 2; 3; 4] (-1) (mk_world [[7]] []) = Panic.
Proof. vm_compute. reflexivity. Qed.

(* ================================================================== close bodies (frame.go, read.go) *)
Lemma be16_z c : (c < 65536)%N -> be_bytes_z 2 (Z.of_N c) = zb (be_bytes 2 c).
Proof.
  intros H. unfold be_bytes_z. cbn [le_bytes_z rev app be_bytes zb map].
  change (256 ^ N.of_nat 1)%N with 256%N. change (256 ^ N.of_nat 0)%N with 1%N.
  rewrite N.div_1_r. rewrite !N2Z.inj_mod, N2Z.inj_div. reflexivity.
Qed.
Lemma be_val_z_2 a b : be_val_z [Z.of_N a; Z.of_N b] = Z.of_N (be_val [a; b]).
Proof. cbn [be_val_z be_val length]. unfold len. cbn [length]. change (256 ^ N.of_nat 1)%N with 256%N.
  change (256 ^ N.of_nat 0)%N with 1%N. change (256 ^ Z.of_nat 1) with 256. change (256 ^ Z.of_nat 0) with 1. lia. Qed.

(* ParseCloseFrameData / ParseCloseFrameDataUnsafe: total, the world is not changed *)
Definition parse_close_z (p : list N) : Z * list Z := (Z.of_N (fst (parse_close p)), zb (snd (parse_close p))).

Lemma parse_close_body w s p :
  sl_valid w s -> sl_bytes w s = zb p ->
  (if sl_len s <? 2 then ret (0, [])
   else (t1 <- m_get_uint true 2 s;; t2 <- m_slice s 2 (sl_len s);; t3 <- m_bytes t2;; ret (t1, t3))%gomem) w
  = Ok (parse_close_z p, w).
Proof.
  intros Hv Hp. pose proof (sl_bytes_length w s Hv) as HL. rewrite Hp, zb_length in HL.
  pose proof Hv as (Ha & Ho & Hl & Hc).
  destruct p as [|a [|b r]]; cbn [length] in HL.
  - replace (sl_len s <? 2) with true by lia. reflexivity.
  - replace (sl_len s <? 2) with true by lia. reflexivity.
  - replace (sl_len s <? 2) with false by lia.
    erewrite mbind_ok by (apply m_get_uint_ok; lia). rewrite Hp. cbn [zb map firstn]. rewrite be_val_z_2.
    erewrite mbind_ok by (apply m_slice_ok; lia).
    unfold m_bytes at 1. unfold mbind at 1. cbv [ret]. f_equal. f_equal. unfold parse_close_z. cbn [parse_close fst snd].
    f_equal.
    rewrite (sl_bytes_sub w s (mk_slice (sl_arr s) (sl_off s + 2) (sl_len s - 2) (sl_cap s - 2)) 2 Hv eq_refl eq_refl) by (cbn [sl_len]; lia). cbn [sl_len]. rewrite Hp.
    change (Z.to_nat 2) with 2%nat. cbn [zb map skipn]. fold (zb r). apply firstn_all2. rewrite zb_length. lia.
Qed.

Theorem g3_ParseCloseFrameData_ok w s p : sl_valid w s -> sl_bytes w s = zb p ->
  g3_ParseCloseFrameData s w = Ok (parse_close_z p, w).
Proof. intros Hv Hp. unfold g3_ParseCloseFrameData. cbv zeta. exact (parse_close_body w s p Hv Hp). Qed.
Theorem g3_ParseCloseFrameDataUnsafe_ok w s p : sl_valid w s -> sl_bytes w s = zb p ->
  g3_ParseCloseFrameDataUnsafe s w = Ok (parse_close_z p, w).
Proof. intros Hv Hp. unfold g3_ParseCloseFrameDataUnsafe. cbv zeta. exact (parse_close_body w s p Hv Hp). Qed.

(* PutCloseFrameBody(p, code, reason): documented to panic when p is shorter than 2+len(reason); otherwise
   p = code (big endian) ++ reason ++ the old bytes of p from 2+len(reason) on *)
Theorem g3_PutCloseFrameBody_ok w s code reason :
  sl_valid w s -> (code < 65536)%N -> 2 + Z.of_nat (length reason) <= sl_len s -> sl_len s <= max_int ->
  g3_PutCloseFrameBody s (Z.of_N code) (zb reason) w =
  Ok (tt, sl_put w s (zb (be_bytes 2 code ++ reason) ++ skipn (2 + length reason) (sl_bytes w s))).
Proof.
  unfold max_int. intros Hv Hc Hl Hmax. pose proof (sl_bytes_length w s Hv) as HL.
  pose proof Hv as (Ha & Ho & Hl' & Hcap).
  unfold g3_PutCloseFrameBody. rewrite go_len_zb. rewrite wrap_s64_id by lia.
  erewrite mbind_ok by (apply m_index_ok; [exact Hv|lia]).
  erewrite mbind_ok by (apply m_put_uint_ok; lia). rewrite be16_z by exact Hc.
  set (cur := sl_bytes w s) in *.
  rewrite (sl_blit_put w s 0 _ Hv) by (rewrite ?go_len_zb; cbn [be_bytes length]; lia). fold cur.
  set (cur1 := list_blit cur (Z.to_nat 0) (zb (be_bytes 2 code))).
  assert (E1 : cur1 = zb (be_bytes 2 code) ++ skipn 2 cur).
  { subst cur1. unfold list_blit. cbn [Z.to_nat firstn app be_bytes zb map length Nat.add]. reflexivity. }
  assert (L1 : length cur1 = length cur).
  { subst cur1. apply list_blit_length. cbn [be_bytes zb map length Z.to_nat]. lia. }
  set (w1 := sl_put w s cur1).
  assert (Hv1 : sl_valid w1 s) by (subst w1; apply sl_valid_put; [assumption|unfold go_len; lia|assumption]).
  assert (Hb1 : sl_bytes w1 s = cur1) by (subst w1; apply sl_bytes_put; [assumption|unfold go_len; lia]).
  erewrite mbind_ok by (apply m_slice_ok; lia).
  unfold m_copy_list at 1. unfold mbind at 1. cbv [ret]. f_equal. f_equal.
  cbn [sl_len]. rewrite go_len_zb. replace (Z.min (sl_len s - 2) (Z.of_nat (length reason))) with (Z.of_nat (length reason)) by lia.
  rewrite Nat2Z.id. rewrite firstn_all2 by (rewrite zb_length; lia).
  rewrite (sl_blit_sub w1 s (mk_slice (sl_arr s) (sl_off s + 2) (sl_len s - 2) (sl_cap s - 2)) 2 0 _ eq_refl eq_refl).
  rewrite (sl_blit_put w1 s (2 + 0) _ Hv1) by (rewrite ?go_len_zb; lia).
  rewrite Hb1. subst w1. rewrite sl_put_put; [|assumption|unfold go_len; lia|].
  - f_equal. rewrite E1. unfold list_blit. rewrite zb_app. rewrite <- app_assoc. 
    change (Z.to_nat (2 + 0)) with (length (zb (be_bytes 2 code))). rewrite firstn_app_exact. f_equal. f_equal.
    rewrite zb_length. rewrite <- (zb_length (be_bytes 2 code)). rewrite skipn_app_plus. rewrite zb_length.
    rewrite skipn_skipn_add. reflexivity.
  - unfold go_len. rewrite list_blit_length; [lia|]. rewrite zb_length. lia.
Qed.

(* a put over a whole, freshly made array *)
Lemma sl_put_fresh h out c bs n : Z.of_nat (length c) = n -> Z.of_nat (length bs) = n ->
  sl_put (mk_world (h ++ [c]) out) (mk_slice (length h) 0 n n) bs = mk_world (h ++ [bs]) out.
Proof.
  intros Ec Eb. unfold sl_put, sl_blit. cbn [w_heap w_out sl_arr sl_off]. f_equal.
  unfold heap_set. rewrite firstn_app_exact. f_equal. unfold arr_of. cbn [w_heap].
  rewrite nth_app_exact. unfold list_blit. cbn [Z.to_nat Z.add firstn app Nat.add].
  rewrite skipn_all2 by lia. rewrite app_nil_r. f_equal.
  replace (S (length h)) with (length h + 1)%nat by lia. rewrite skipn_app_plus. reflexivity.
Qed.

(* NewCloseFrameBody: a NEW array holding code ++ the first 123 bytes of the reason; older memory untouched *)
Theorem g3_NewCloseFrameBody_ok w code reason :
  (code < 65536)%N -> Z.of_nat (length reason) + 2 <= max_int ->
  g3_NewCloseFrameBody (Z.of_N code) (zb reason) w =
  Ok (mk_slice (length (w_heap w)) 0 (Z.of_nat (length (new_close_body code reason))) (Z.of_nat (length (new_close_body code reason))),
      mk_world (w_heap w ++ [zb (new_close_body code reason)]) (w_out w)).
Proof.
  unfold max_int. intros Hc Hr. unfold g3_NewCloseFrameBody, g3_min. rewrite !go_len_zb.
  rewrite wrap_s64_id by lia. set (lr := Z.of_nat (length reason)) in *.
  set (n := if 2 + lr <? 125 then 2 + lr else 125).
  assert (Hn : Z.of_nat (length (new_close_body code reason)) = n).
  { unfold new_close_body. rewrite app_length, firstn_length. cbn [be_bytes length]. subst n lr.
    unfold byte in *. destruct (2 + Z.of_nat (length reason) <? 125) eqn:E; lia. }
  rewrite Hn.
  replace ((if 2 + lr <? 125 then ret (2 + lr) else ret 125) : M Z) with (ret n : M Z) by (subst n; destruct (2 + lr <? 125); reflexivity).
  rewrite mbind_ret. cbv zeta.
  unfold m_make at 1. unfold mbind at 1. replace ((0 <=? n) && (n <=? 9223372036854775807)) with true by (subst n; destruct (2 + lr <? 125); lia).
  set (crop := if 123 <? lr then 123 else lr).
  replace ((if 123 <? lr then ret 123 else ret lr) : M Z) with (ret crop : M Z) by (subst crop; destruct (123 <? lr); reflexivity).
  rewrite mbind_ret.
  unfold go_slice. rewrite go_len_zb. fold lr.
  replace ((0 <=? 0) && (0 <=? crop) && (crop <=? lr)) with true by (subst crop; destruct (123 <? lr) eqn:E; lia).
  rewrite mbind_lift_ok. cbn [skipn Z.to_nat]. replace (Z.to_nat (crop - 0)) with (Z.to_nat crop) by lia.
  rewrite <- zb_firstn.
  set (w1 := mk_world (w_heap w ++ [repeat 0 (Z.to_nat n)]) (w_out w)).
  set (s := mk_slice (length (w_heap w)) 0 n n).
  assert (Hcrop : length (firstn (Z.to_nat crop) reason) = Z.to_nat crop).
  { rewrite firstn_length. subst crop lr. destruct (123 <? Z.of_nat (length reason)) eqn:E; lia. }
  assert (Hnc : n = 2 + crop) by (subst n crop; destruct (2 + lr <? 125) eqn:E1; destruct (123 <? lr) eqn:E2; lia).
  assert (Hv1 : sl_valid w1 s).
  { subst w1 s. unfold sl_valid, arr_of. cbn [w_heap sl_arr sl_off sl_len sl_cap]. rewrite app_length. cbn [length].
    rewrite nth_app_exact, repeat_length. lia. }
  assert (Hcrop0 : 0 <= crop <= 123) by (subst crop lr; destruct (123 <? Z.of_nat (length reason)) eqn:E; lia).
  erewrite mbind_ok.
  2:{ apply g3_PutCloseFrameBody_ok; [exact Hv1|exact Hc| |]; unfold max_int; subst s; cbn [sl_len]; unfold byte in *; lia. }
  cbv [ret]. f_equal. f_equal. subst w1 s. 
  assert (Hb : sl_bytes (mk_world (w_heap w ++ [repeat 0 (Z.to_nat n)]) (w_out w)) (mk_slice (length (w_heap w)) 0 n n) = repeat 0 (Z.to_nat n)).
  { unfold sl_bytes, arr_of. cbn [w_heap sl_arr sl_off sl_len Z.to_nat skipn]. rewrite nth_app_exact.
    apply firstn_all2. rewrite repeat_length. lia. }
  rewrite Hb. rewrite skipn_all2 by (rewrite repeat_length; lia). rewrite app_nil_r.
  rewrite sl_put_fresh.
  - unfold new_close_body. do 4 f_equal. subst crop lr. 
    destruct (123 <? Z.of_nat (length reason)) eqn:E; [reflexivity|].
    rewrite Nat2Z.id. unfold byte in *. rewrite !firstn_all2 by lia. reflexivity.
  - rewrite repeat_length. lia.
  - rewrite zb_length, app_length. cbn [be_bytes length]. unfold byte in *. lia.
Qed.

(* ================================================================== wsutil/utf8.go decode *)
(* the DFA states: multiples of 12 up to 96; every entry of the transition part of utf8d is one *)
Definition u8_states : list Z := [0; 12; 24; 36; 48; 60; 72; 84; 96].

Definition decode_chk (st b : Z) : bool :=
  match go_index g3_pv_wsutil_utf8d b with
  | Ok t =>
    match go_index g3_pv_wsutil_utf8d (wrap_u 32 (wrap_u 32 (256 + st) + t)) with
    | Ok s' => (s' =? Z.of_N (u8_decode (Z.to_N st) (Z.to_N b))) && existsb (Z.eqb s') u8_states
    | _ => false
    end
  | _ => false
  end.

Lemma decode_chk_all :
  forallb (fun st => forallb (fun k => decode_chk st (Z.of_nat k)) (seq 0 256)) u8_states = true.
Proof. vm_compute. reflexivity. Qed.

(* decode(state, codep, b): for every DFA state, every codep and every byte: no index panic, the new state
   is the model's u8_decode and is again a DFA state; the world is not touched *)
Theorem g3_wsutil_decode_ok st cp b w : In st u8_states -> 0 <= b < 256 ->
  exists cp', g3_wsutil_decode st cp b w = Ok ((cp', Z.of_N (u8_decode (Z.to_N st) (Z.to_N b))), w)
              /\ In (Z.of_N (u8_decode (Z.to_N st) (Z.to_N b))) u8_states.
Proof.
  intros Hst Hb. pose proof decode_chk_all as H. rewrite forallb_forall in H. specialize (H st Hst).
  rewrite forallb_forall in H. specialize (H (Z.to_nat b)). rewrite Z2Nat.id in H by lia.
  assert (Hin : In (Z.to_nat b) (seq 0 256)) by (apply in_seq; lia). specialize (H Hin).
  unfold decode_chk in H. unfold g3_wsutil_decode.
  destruct (go_index g3_pv_wsutil_utf8d b) as [t| |]; try discriminate. rewrite mbind_lift_ok. cbv zeta.
  destruct (go_index g3_pv_wsutil_utf8d (wrap_u 32 (wrap_u 32 (256 + st) + t))) as [s'| |]; try discriminate.
  apply andb_prop in H. destruct H as [H1 H2]. apply Z.eqb_eq in H1. subst s'.
  apply existsb_exists in H2. destruct H2 as (x & Hx & Ex). apply Z.eqb_eq in Ex. subst x.
  destruct (negb (st =? 0)); rewrite mbind_lift_ok; cbv [ret]; eexists; (split; [reflexivity|exact Hx]).
Qed.
