(* NegotiateProofs.v — proofs for C14 (model/Negotiate.v). *)
Require Import Bytes FlateAux Negotiate.
From Coq Require Import ZifyBool ZifyN ZifyNat Permutation.
Open Scope N_scope.

(* ---------- keys ---------- *)
Lemma memb_In k ks : memb k ks = true <-> In k ks.
Proof.
  induction ks as [|x r IH]; simpl; [split; [discriminate|tauto]|].
  rewrite orb_true_iff, IH, bytes_eqb_eq. split; intros [H|H]; auto.
Qed.
Lemma memb_notIn k ks : memb k ks = false <-> ~ In k ks.
Proof. rewrite <- memb_In. destruct (memb k ks); split; congruence. Qed.
Lemma nodupb_NoDup ks : nodupb ks = true <-> NoDup ks.
Proof.
  induction ks as [|x r IH]; simpl; [split; [constructor|reflexivity]|].
  rewrite andb_true_iff, negb_true_iff, memb_notIn, IH. split.
  - intros [H1 H2]. constructor; assumption.
  - intros H. inversion H; subst. split; assumption.
Qed.

Lemma lookup_None k l : lookup k l = None <-> memb k (keys l) = false.
Proof.
  induction l as [|[k' v] r IH]; simpl; [tauto|].
  destruct (bytes_eqb k k'); simpl; [split; discriminate|exact IH].
Qed.
Lemma lookup_Some_In k l v : lookup k l = Some v -> In (k, v) l.
Proof.
  induction l as [|[k' v'] r IH]; simpl; [discriminate|].
  destruct (bytes_eqb k k') eqn:E.
  - apply bytes_eqb_eq in E. subst. intros H; inversion H; subst. left; reflexivity.
  - intros H. right. apply IH, H.
Qed.

Lemma classify_cases k :
  (k = k_cmwb /\ classify k = KCmwb) \/ (k = k_smwb /\ classify k = KSmwb) \/
  (k = k_cnct /\ classify k = KCnct) \/ (k = k_snct /\ classify k = KSnct) \/
  (classify k = KOther /\ k <> k_cmwb /\ k <> k_smwb /\ k <> k_cnct /\ k <> k_snct).
Proof.
  unfold classify.
  destruct (bytes_eqb k k_cmwb) eqn:E1; [apply bytes_eqb_eq in E1; auto|].
  destruct (bytes_eqb k k_smwb) eqn:E2; [apply bytes_eqb_eq in E2; auto|].
  destruct (bytes_eqb k k_cnct) eqn:E3; [apply bytes_eqb_eq in E3; auto 6|].
  destruct (bytes_eqb k k_snct) eqn:E4; [apply bytes_eqb_eq in E4; auto 6|].
  apply bytes_eqb_neq in E1, E2, E3, E4. auto 10.
Qed.

(* the value a key class admits, in terms of the SPEC's value_ok *)
Definition vok (c : kclass) (v : list byte) : bool :=
  match c with
  | KCmwb => is_empty v || is_some (spec_bits v)
  | KSmwb => is_some (spec_bits v)
  | KCnct | KSnct => is_empty v
  | KOther => false
  end.
Lemma value_ok_classify k v : value_ok k v = vok (classify k) v.
Proof.
  unfold value_ok, classify.
  destruct (bytes_eqb k k_smwb) eqn:E2.
  - apply bytes_eqb_eq in E2. subst. reflexivity.
  - destruct (bytes_eqb k k_cmwb) eqn:E1; [reflexivity|].
    destruct (bytes_eqb k k_snct) eqn:E4.
    + apply bytes_eqb_eq in E4. subst. reflexivity.
    + destruct (bytes_eqb k k_cnct); reflexivity.
Qed.

(* the table lookup of the code is the SPEC's "decimal without leading zeroes in 8..15" *)
Lemma bits_from_ascii_spec v : bits_from_ascii v = spec_bits v.
Proof. reflexivity. Qed.

Lemma spec_bits_range v n : spec_bits v = Some n -> 8 <= n <= 15 /\ v = dec_digits n.
Proof.
  unfold spec_bits. intros H. apply find_some in H. destruct H as [Hin H].
  apply bytes_eqb_eq in H. split; [|exact H].
  simpl in Hin. lia.
Qed.
Lemma spec_bits_nonempty v n : spec_bits v = Some n -> is_empty v = false.
Proof.
  intros H. apply spec_bits_range in H. destruct H as [Hr ->].
  unfold dec_digits. destruct (n <? 10); reflexivity.
Qed.
Lemma spec_bits_dec n : 8 <= n <= 15 -> spec_bits (dec_digits n) = Some n.
Proof.
  intros H.
  assert (E: n = 8 \/ n = 9 \/ n = 10 \/ n = 11 \/ n = 12 \/ n = 13 \/ n = 14 \/ n = 15) by lia.
  repeat (destruct E as [->|E]; [reflexivity|]). subst. reflexivity.
Qed.

(* ---------- the seen mask ---------- *)
Lemma seen_mask_facts s : s < 16 ->
  (forall c, N.lor s (seen_bit c) < 16) /\
  (forall c c', c <> KOther ->
     has_bit (N.lor s (seen_bit c)) (seen_bit c') =
     (match c, c' with
      | KCmwb, KCmwb | KSmwb, KSmwb | KCnct, KCnct | KSnct, KSnct => true
      | _, _ => false end) || has_bit s (seen_bit c')).
Proof.
  revert s. apply lt16_cases; split.
  all: try (intros c; destruct c; vm_compute; reflexivity).
  all: intros c c' Hc; destruct c; try (exfalso; apply Hc; reflexivity); destruct c'; reflexivity.
Qed.

Definition disj (seen : N) (ks : list (list byte)) : bool :=
  forallb (fun k => negb (has_bit seen (seen_bit (classify k)))) ks.

Definition key_of (c : kclass) : list byte :=
  match c with KCmwb => k_cmwb | KSmwb => k_smwb | KCnct => k_cnct | KSnct => k_snct | KOther => [] end.
Lemma classify_key_of c : c <> KOther -> classify (key_of c) = c.
Proof. destruct c; intros H; reflexivity. Qed.
Lemma classify_eq_key k c : c <> KOther -> classify k = c -> k = key_of c.
Proof.
  intros Hc H. destruct (classify_cases k) as [[-> E]|[[-> E]|[[-> E]|[[-> E]|[E _]]]]];
    rewrite E in H; subst c; try reflexivity. exfalso; apply Hc; reflexivity.
Qed.

Lemma disj_lor s c ks : s < 16 -> c <> KOther ->
  disj (N.lor s (seen_bit c)) ks = negb (memb (key_of c) ks) && disj s ks.
Proof.
  intros Hs Hc. destruct (seen_mask_facts s Hs) as [_ F].
  induction ks as [|k r IH]; [reflexivity|].
  cbn [disj forallb memb]. fold (disj (N.lor s (seen_bit c)) r). fold (disj s r).
  rewrite IH. rewrite (F c (classify k) Hc).
  destruct (bytes_eqb (key_of c) k) eqn:E.
  - apply bytes_eqb_eq in E. subst k. rewrite (classify_key_of c Hc).
    destruct c; try (exfalso; apply Hc; reflexivity); reflexivity.
  - assert (classify k <> c).
    { intros H. apply (classify_eq_key k c Hc) in H. subst k. rewrite bytes_eqb_refl in E. discriminate. }
    assert (Hm: (match c, classify k with
      | KCmwb, KCmwb | KSmwb, KSmwb | KCnct, KCnct | KSnct, KSnct => true
      | _, _ => false end) = false) by (destruct c, (classify k); try reflexivity; congruence).
    rewrite Hm. simpl. destruct (has_bit s (seen_bit (classify k))); simpl; [|reflexivity].
    rewrite andb_false_r. reflexivity.
Qed.

(* condition under which the loop started with [seen] succeeds *)
Definition loop_ok (seen : N) (l : list param) : bool :=
  forallb (fun kv => value_ok (fst kv) (snd kv)) l && nodupb (keys l) && disj seen (keys l).

(* what it computes then *)
Definition merge (p : params) (l : list param) : params :=
  mkParams (p_snct p || memb k_snct (keys l)) (p_cnct p || memb k_cnct (keys l))
    (match lookup k_smwb l with Some v => bits_val v | None => p_smwb p end)
    (match lookup k_cmwb l with Some v => if is_empty v then 1 else bits_val v | None => p_cmwb p end).

Lemma loop_ok_cons seen k v r c : seen < 16 -> classify k = c -> c <> KOther ->
  loop_ok seen (((k, v) : param) :: r) =
  vok c v && negb (has_bit seen (seen_bit c)) && loop_ok (N.lor seen (seen_bit c)) r.
Proof.
  intros Hs Hk Hc. unfold loop_ok. cbn [forallb keys map fst snd nodupb disj].
  fold (keys r). fold (disj seen (keys r)).
  rewrite (disj_lor seen c (keys r) Hs Hc), value_ok_classify, Hk.
  rewrite (classify_eq_key k c Hc Hk).
  match goal with |- context [forallb ?f r] => destruct (forallb f r) end;
  destruct (vok c v), (memb (key_of c) (keys r)), (nodupb (keys r)),
    (has_bit seen (seen_bit c)), (disj seen (keys r)); reflexivity.
Qed.

Lemma loop_ok_other seen k v r : classify k = KOther -> loop_ok seen (((k, v) : param) :: r) = false.
Proof.
  intros Hk. unfold loop_ok. cbn [forallb fst snd]. rewrite value_ok_classify, Hk. reflexivity.
Qed.

Lemma merge_cons_cmwb p v r : memb k_cmwb (keys r) = false ->
  merge p (((k_cmwb, v) : param) :: r) = merge (set_cmwb p (if is_empty v then 1 else bits_val v)) r.
Proof.
  intros H. apply lookup_None in H. unfold merge. cbn [lookup keys map fst memb]. rewrite H.
  change (bytes_eqb k_smwb k_cmwb) with false. change (bytes_eqb k_cmwb k_cmwb) with true.
  change (bytes_eqb k_snct k_cmwb) with false. change (bytes_eqb k_cnct k_cmwb) with false.
  reflexivity.
Qed.
Lemma merge_cons_smwb p v r : memb k_smwb (keys r) = false ->
  merge p (((k_smwb, v) : param) :: r) = merge (set_smwb p (bits_val v)) r.
Proof.
  intros H. apply lookup_None in H. unfold merge. cbn [lookup keys map fst memb]. rewrite H.
  change (bytes_eqb k_smwb k_smwb) with true. change (bytes_eqb k_cmwb k_smwb) with false.
  change (bytes_eqb k_snct k_smwb) with false. change (bytes_eqb k_cnct k_smwb) with false.
  reflexivity.
Qed.
Lemma merge_cons_cnct p v r :
  merge p (((k_cnct, v) : param) :: r) = merge (set_cnct p true) r.
Proof.
  unfold merge. cbn [lookup keys map fst memb].
  change (bytes_eqb k_smwb k_cnct) with false. change (bytes_eqb k_cmwb k_cnct) with false.
  change (bytes_eqb k_snct k_cnct) with false. change (bytes_eqb k_cnct k_cnct) with true.
  cbn [set_cnct p_snct p_cnct p_smwb p_cmwb orb]. rewrite orb_true_r. reflexivity.
Qed.
Lemma merge_cons_snct p v r :
  merge p (((k_snct, v) : param) :: r) = merge (set_snct p true) r.
Proof.
  unfold merge. cbn [lookup keys map fst memb].
  change (bytes_eqb k_smwb k_snct) with false. change (bytes_eqb k_cmwb k_snct) with false.
  change (bytes_eqb k_snct k_snct) with true. change (bytes_eqb k_cnct k_snct) with false.
  cbn [set_snct p_snct p_cnct p_smwb p_cmwb orb]. rewrite orb_true_r. reflexivity.
Qed.

Lemma loop_ok_nodup_head seen c r : seen < 16 -> c <> KOther ->
  loop_ok (N.lor seen (seen_bit c)) r = true -> memb (key_of c) (keys r) = false.
Proof.
  intros Hs Hc H. unfold loop_ok in H. rewrite (disj_lor seen c _ Hs Hc) in H.
  destruct (memb (key_of c) (keys r)); [|reflexivity].
  rewrite !andb_true_iff in H. destruct H as [_ [H _]]. discriminate.
Qed.

(* the loop: success iff loop_ok, and then the result is merge *)
Lemma parse_loop_spec l : forall p seen, seen < 16 ->
  (snd (parse_loop l p seen) = None <-> loop_ok seen l = true) /\
  (loop_ok seen l = true -> fst (parse_loop l p seen) = merge p l).
Proof.
  induction l as [|[k v] r IH]; intros p seen Hs.
  - simpl. split; [split; reflexivity|]. intros _. unfold merge. simpl.
    rewrite !orb_false_r. destruct p; reflexivity.
  - destruct (seen_mask_facts seen Hs) as [Hlt _].
    cbn [parse_loop]. unfold parse_step.
    destruct (classify_cases k) as [[-> E]|[[-> E]|[[-> E]|[[-> E]|[E _]]]]]; rewrite E.
    + (* client_max_window_bits *)
      rewrite (loop_ok_cons seen _ v r KCmwb Hs E) by discriminate. cbn [vok seen_bit].
      destruct (has_bit seen 1) eqn:Hb.
      { cbn [snd fst negb]. rewrite andb_false_r. cbn [andb]. split; [split; discriminate|discriminate]. }
      cbn [negb]. rewrite andb_true_r.
      destruct (is_empty v) eqn:Hv.
      * cbn [orb andb]. destruct (IH (set_cmwb p 1) (N.lor seen 1) (Hlt KCmwb)) as [I1 I2].
        split; [exact I1|]. intros H. rewrite (I2 H).
        rewrite merge_cons_cmwb by (exact (loop_ok_nodup_head seen KCmwb r Hs ltac:(discriminate) H)).
        rewrite Hv. reflexivity.
      * cbn [orb]. rewrite bits_from_ascii_spec. destruct (spec_bits v) as [n|] eqn:Hn.
        -- cbn [is_some andb]. destruct (IH (set_cmwb p n) (N.lor seen 1) (Hlt KCmwb)) as [I1 I2].
           split; [exact I1|]. intros H. rewrite (I2 H).
           rewrite merge_cons_cmwb by (exact (loop_ok_nodup_head seen KCmwb r Hs ltac:(discriminate) H)).
           rewrite Hv. unfold bits_val. rewrite Hn. reflexivity.
        -- cbn [is_some andb snd]. split; [split; discriminate|discriminate].
    + (* server_max_window_bits *)
      rewrite (loop_ok_cons seen _ v r KSmwb Hs E) by discriminate. cbn [vok seen_bit].
      destruct (is_empty v) eqn:Hv.
      { destruct v; [|discriminate]. cbn [snd andb is_some]. change (spec_bits []) with (@None N).
        cbn [is_some andb]. split; [split; discriminate|discriminate]. }
      destruct (has_bit seen 2) eqn:Hb.
      { cbn [snd negb]. rewrite andb_false_r. cbn [andb]. split; [split; discriminate|discriminate]. }
      cbn [negb]. rewrite andb_true_r. rewrite bits_from_ascii_spec.
      destruct (spec_bits v) as [n|] eqn:Hn.
      * cbn [is_some andb]. destruct (IH (set_smwb p n) (N.lor seen 2) (Hlt KSmwb)) as [I1 I2].
        split; [exact I1|]. intros H. rewrite (I2 H).
        rewrite merge_cons_smwb by (exact (loop_ok_nodup_head seen KSmwb r Hs ltac:(discriminate) H)).
        unfold bits_val. rewrite Hn. reflexivity.
      * cbn [is_some andb snd]. split; [split; discriminate|discriminate].
    + (* client_no_context_takeover *)
      rewrite (loop_ok_cons seen _ v r KCnct Hs E) by discriminate. cbn [vok seen_bit].
      destruct (is_empty v) eqn:Hv; cbn [negb].
      2:{ cbn [snd andb]. split; [split; discriminate|discriminate]. }
      destruct (has_bit seen 4) eqn:Hb.
      { cbn [snd negb andb]. split; [split; discriminate|discriminate]. }
      cbn [negb andb]. destruct (IH (set_cnct p true) (N.lor seen 4) (Hlt KCnct)) as [I1 I2].
      split; [exact I1|]. intros H. rewrite (I2 H). rewrite merge_cons_cnct. reflexivity.
    + (* server_no_context_takeover *)
      rewrite (loop_ok_cons seen _ v r KSnct Hs E) by discriminate. cbn [vok seen_bit].
      destruct (is_empty v) eqn:Hv; cbn [negb].
      2:{ cbn [snd andb]. split; [split; discriminate|discriminate]. }
      destruct (has_bit seen 8) eqn:Hb.
      { cbn [snd negb andb]. split; [split; discriminate|discriminate]. }
      cbn [negb andb]. destruct (IH (set_snct p true) (N.lor seen 8) (Hlt KSnct)) as [I1 I2].
      split; [exact I1|]. intros H. rewrite (I2 H). rewrite merge_cons_snct. reflexivity.
    + rewrite (loop_ok_other seen k v r E). cbn [snd]. split; [split; discriminate|discriminate].
Qed.

Lemma disj_0 ks : disj 0 ks = true.
Proof. induction ks as [|k r IH]; [reflexivity|]. simpl. destruct (classify k); exact IH. Qed.
Lemma loop_ok_0 l : loop_ok 0 l = wf_offer l.
Proof. unfold loop_ok, wf_offer. rewrite disj_0, andb_true_r. reflexivity. Qed.
Lemma merge_0 l : merge params0 l = meaning l.
Proof. reflexivity. Qed.

(* Parse succeeds exactly on well-formed lists *)
Lemma parse_ok_iff l : snd (parse l) = None <-> wf_offer l = true.
Proof. unfold parse. rewrite <- loop_ok_0. apply (parse_loop_spec l params0 0). lia. Qed.
(* ... and then yields their meaning *)
Lemma parse_meaning l : wf_offer l = true -> fst (parse l) = meaning l.
Proof.
  intros H. unfold parse. rewrite <- merge_0. apply (parse_loop_spec l params0 0); [lia|].
  rewrite loop_ok_0. exact H.
Qed.
Lemma parse_err_iff l : snd (parse l) <> None <-> wf_offer l = false.
Proof. rewrite parse_ok_iff. destruct (wf_offer l); split; congruence. Qed.

(* ---------- Prop reading of wf_offer ---------- *)
Definition value_ok_P (kv : param) : Prop :=
  let (k, v) := kv in
  (k = k_smwb /\ exists n, 8 <= n <= 15 /\ v = dec_digits n) \/
  (k = k_cmwb /\ (v = [] \/ exists n, 8 <= n <= 15 /\ v = dec_digits n)) \/
  ((k = k_snct \/ k = k_cnct) /\ v = []).

Lemma is_empty_nil {A} (v : list A) : is_empty v = true <-> v = [].
Proof. destruct v; simpl; split; congruence. Qed.
Lemma is_some_spec_bits v : is_some (spec_bits v) = true <-> exists n, 8 <= n <= 15 /\ v = dec_digits n.
Proof.
  split.
  - destruct (spec_bits v) as [n|] eqn:E; [|discriminate]. intros _. exists n. apply spec_bits_range, E.
  - intros [n [Hr ->]]. rewrite (spec_bits_dec n Hr). reflexivity.
Qed.

Lemma value_ok_iff k v : value_ok k v = true <-> value_ok_P (k, v).
Proof.
  rewrite value_ok_classify. unfold value_ok_P.
  destruct (classify_cases k) as [[-> E]|[[-> E]|[[-> E]|[[-> E]|[E [N1 [N2 [N3 N4]]]]]]]]; rewrite E; cbn [vok].
  - rewrite orb_true_iff, is_empty_nil, is_some_spec_bits. split.
    + intros H. right; left. split; [reflexivity|exact H].
    + intros [[H _]|[[_ H]|[[H|H] _]]]; try discriminate H. exact H.
  - rewrite is_some_spec_bits. split.
    + intros H. left. split; [reflexivity|exact H].
    + intros [[_ H]|[[H _]|[[H|H] _]]]; try discriminate H. exact H.
  - rewrite is_empty_nil. split.
    + intros H. right; right. split; [right; reflexivity|exact H].
    + intros [[H _]|[[H _]|[_ H]]]; try discriminate H. exact H.
  - rewrite is_empty_nil. split.
    + intros H. right; right. split; [left; reflexivity|exact H].
    + intros [[H _]|[[H _]|[_ H]]]; try discriminate H. exact H.
  - split; [discriminate|]. intros [[H _]|[[H _]|[[H|H] _]]]; congruence.
Qed.

Lemma wf_offer_iff l :
  wf_offer l = true <-> Forall value_ok_P l /\ NoDup (keys l).
Proof.
  unfold wf_offer. rewrite andb_true_iff, nodupb_NoDup, forallb_forall, Forall_forall.
  split; intros [H1 H2]; split; try exact H2; intros [k v] Hin.
  - apply value_ok_iff. apply (H1 (k, v) Hin).
  - apply value_ok_iff. apply (H1 (k, v) Hin).
Qed.

(* ---------- what a well-formed list says about the two window parameters ---------- *)
Lemma wf_value_ok l k v : wf_offer l = true -> lookup k l = Some v -> value_ok k v = true.
Proof.
  unfold wf_offer. rewrite andb_true_iff. intros [H _] L. apply lookup_Some_In in L.
  rewrite forallb_forall in H. exact (H (k, v) L).
Qed.

Lemma wf_lookup_smwb l : wf_offer l = true ->
  match lookup k_smwb l with
  | None => p_smwb (meaning l) = 0
  | Some v => exists n, spec_bits v = Some n /\ 8 <= n <= 15 /\ p_smwb (meaning l) = n
  end.
Proof.
  intros W. unfold meaning. cbn [p_smwb]. destruct (lookup k_smwb l) as [v|] eqn:L; [|reflexivity].
  pose proof (wf_value_ok l _ v W L) as H. rewrite value_ok_classify in H.
  change (classify k_smwb) with KSmwb in H. cbn [vok] in H.
  destruct (spec_bits v) as [n|] eqn:E; [|discriminate]. exists n.
  split; [reflexivity|]. split; [apply (spec_bits_range v n E)|]. unfold bits_val. rewrite E. reflexivity.
Qed.

Lemma wf_lookup_cmwb l : wf_offer l = true ->
  match lookup k_cmwb l with
  | None => p_cmwb (meaning l) = 0
  | Some v => (v = [] /\ p_cmwb (meaning l) = 1) \/
              (is_empty v = false /\ exists n, spec_bits v = Some n /\ 8 <= n <= 15 /\ p_cmwb (meaning l) = n)
  end.
Proof.
  intros W. unfold meaning. cbn [p_cmwb]. destruct (lookup k_cmwb l) as [v|] eqn:L; [|reflexivity].
  pose proof (wf_value_ok l _ v W L) as H. rewrite value_ok_classify in H.
  change (classify k_cmwb) with KCmwb in H. cbn [vok] in H.
  destruct (is_empty v) eqn:Ev.
  - left. apply is_empty_nil in Ev. auto.
  - right. split; [reflexivity|]. cbn [orb] in H.
    destruct (spec_bits v) as [n|] eqn:E; [|discriminate]. exists n.
    split; [reflexivity|]. split; [apply (spec_bits_range v n E)|]. unfold bits_val. rewrite E. reflexivity.
Qed.

(* ---------- the encoder on the finite domains ---------- *)
Lemma win_ok_cases n : win_ok n = true ->
  n = 0 \/ n = 8 \/ n = 9 \/ n = 10 \/ n = 11 \/ n = 12 \/ n = 13 \/ n = 14 \/ n = 15.
Proof. unfold win_ok, is_valid_bits. lia. Qed.

Definition enc_win (n : N) : option (list byte) := if n =? 0 then None else Some (dec_digits n).

Lemma option_of_cfg_facts cfg : cfg_ok cfg = true ->
  exists a, option_of cfg = Some a /\ wf_offer a = true
    /\ lookup k_smwb a = enc_win (p_smwb cfg) /\ lookup k_cmwb a = enc_win (p_cmwb cfg)
    /\ memb k_snct (keys a) = p_snct cfg.
Proof.
  destruct cfg as [a b s c]. unfold cfg_ok. cbn [p_smwb p_cmwb p_snct]. rewrite andb_true_iff.
  intros [Hs Hc]. apply win_ok_cases in Hs, Hc.
  destruct a, b;
  repeat (destruct Hs as [->|Hs]); subst;
  repeat (destruct Hc as [->|Hc]); subst;
  (eexists; split; [vm_compute; reflexivity|]; vm_compute; repeat split; reflexivity).
Qed.

(* Parse (Option p) = p on every parameter value an offer or a configuration can mean *)
Lemma parse_option_of p : offer_params_ok p = true ->
  exists l, option_of p = Some l /\ parse l = (p, None).
Proof.
  destruct p as [a b s c]. unfold offer_params_ok. cbn [p_smwb p_cmwb]. rewrite andb_true_iff, orb_true_iff.
  intros [Hs Hc]. apply win_ok_cases in Hs.
  assert (Hc' : c = 1 \/ c = 0 \/ c = 8 \/ c = 9 \/ c = 10 \/ c = 11 \/ c = 12 \/ c = 13 \/ c = 14 \/ c = 15).
  { destruct Hc as [Hc|Hc]; [left; lia|right; apply win_ok_cases, Hc]. }
  clear Hc.
  destruct a, b;
  repeat (destruct Hs as [->|Hs]); subst;
  repeat (destruct Hc' as [->|Hc']); subst;
  (eexists; split; vm_compute; reflexivity).
Qed.

(* ---------- one Negotiate call ---------- *)
Lemma negotiate_accepted n name ps : e_accepted n = true -> negotiate n name ps = (n, AEmpty).
Proof. intros H. unfold negotiate. rewrite H. destruct (negb _); reflexivity. Qed.

Lemma negotiate_other n name ps : name <> ext_name -> negotiate n name ps = (n, AEmpty).
Proof. intros H. unfold negotiate. apply bytes_eqb_neq in H. rewrite H. reflexivity. Qed.

Definition accepting (a : answer) : bool := match a with AOpt _ | APanic => true | _ => false end.

(* on a negotiator that has not accepted yet the answer is that of a new one; the
   configuration is kept; it is marked accepted iff it answered with an option *)
Lemma negotiate_fresh n name ps : e_accepted n = false ->
  let r := negotiate n name ps in
  snd r = fresh (e_cfg n) (name, ps) /\ e_cfg (fst r) = e_cfg n /\ e_accepted (fst r) = accepting (snd r).
Proof.
  intros H. unfold fresh, negotiate, new_ext. cbn [fst snd e_cfg e_accepted]. rewrite H.
  destruct (negb (bytes_eqb name ext_name)); [cbn; try rewrite H; auto|].
  destruct (parse ps) as [p [e|]]; [cbn; try rewrite H; auto|].
  destruct (_ && _) eqn:E1 at 1.
  { rewrite E1. cbn; try rewrite H; auto. }
  rewrite E1.
  destruct (p_cmwb p <? p_cmwb (e_cfg n)); [cbn; try rewrite H; auto|].
  destruct (p_snct p && negb (p_snct (e_cfg n))); [cbn; try rewrite H; auto|].
  destruct (option_of (e_cfg n)); cbn; auto.
Qed.

Lemma params_list_eqb_refl a : params_list_eqb a a = true.
Proof. induction a as [|[k v] r IH]; simpl; [reflexivity|]. rewrite !bytes_eqb_refl, IH. reflexivity. Qed.
Lemma answer_eqb_refl a : answer_eqb a a = true.
Proof. destruct a; simpl; try reflexivity. apply params_list_eqb_refl. Qed.

(* a new negotiator: everything about its answer *)
Lemma fresh_cases cfg name ps : cfg_ok cfg = true ->
  (name <> ext_name /\ fresh cfg (name, ps) = AEmpty) \/
  (name = ext_name /\ wf_offer ps = false /\ exists e, fresh cfg (name, ps) = AErr e) \/
  (name = ext_name /\ wf_offer ps = true /\
     (fresh cfg (name, ps) = AEmpty \/
      exists a, fresh cfg (name, ps) = AOpt a /\ option_of cfg = Some a /\ legal_answer ps a = true)).
Proof.
  intros Hcfg. unfold fresh. cbn [fst snd].
  destruct (bytes_eqb name ext_name) eqn:En.
  2:{ left. apply bytes_eqb_neq in En. split; [exact En|]. rewrite (negotiate_other _ _ _ En). reflexivity. }
  apply bytes_eqb_eq in En. subst name. right.
  unfold negotiate, new_ext. cbn [e_accepted e_cfg]. change (negb (bytes_eqb ext_name ext_name)) with false. cbn iota.
  pose proof (parse_ok_iff ps) as Hok. pose proof (parse_meaning ps) as Hm.
  destruct (parse ps) as [p [e|]] eqn:Ep; cbn [snd fst] in *.
  - left. split; [reflexivity|]. split; [|exists e; reflexivity].
    destruct (wf_offer ps); [|reflexivity]. destruct Hok as [_ Hok]. specialize (Hok eq_refl). discriminate.
  - right. assert (W: wf_offer ps = true) by (apply Hok; reflexivity).
    split; [reflexivity|]. split; [exact W|]. specialize (Hm W). subst p.
    destruct (_ && _) eqn:E1 at 1; [rewrite E1; left; reflexivity|]. rewrite E1.
    destruct (p_cmwb (meaning ps) <? p_cmwb cfg) eqn:E2; [left; reflexivity|].
    destruct (p_snct (meaning ps) && negb (p_snct cfg)) eqn:E3; [left; reflexivity|].
    right. destruct (option_of_cfg_facts cfg Hcfg) as [a [Ha [Wa [Ls [Lc Ms]]]]].
    rewrite Ha. exists a. split; [reflexivity|]. split; [reflexivity|].
    (* legality *)
    unfold legal_answer. rewrite Wa, Ls, Lc, Ms. cbn [andb].
    pose proof (wf_lookup_smwb ps W) as Hs. pose proof (wf_lookup_cmwb ps W) as Hc.
    unfold cfg_ok in Hcfg. apply andb_true_iff in Hcfg. destruct Hcfg as [Hws Hwc].
    unfold win_ok, is_valid_bits in Hws, Hwc. unfold defined in E1.
    assert (Hsn: memb k_snct (keys ps) = p_snct (meaning ps)) by reflexivity. rewrite Hsn.
    unfold enc_win.
    (* clause: server_max_window_bits *)
    assert (C1: match lookup k_smwb ps with
                | Some vo => match spec_bits vo with
                    | Some o => match (if p_smwb cfg =? 0 then None else Some (dec_digits (p_smwb cfg))) with
                        | Some va => match spec_bits va with Some a0 => a0 <=? o | None => false end
                        | None => false end
                    | None => false end
                | None => true end = true).
    { destruct (lookup k_smwb ps) as [vo|]; [|reflexivity].
      destruct Hs as [o [So [Ro Po]]]. rewrite So.
      destruct (p_smwb cfg =? 0) eqn:Z; [lia|].
      rewrite spec_bits_dec by lia. lia. }
    assert (C2: match (if p_cmwb cfg =? 0 then None else Some (dec_digits (p_cmwb cfg))) with
                | Some va => match spec_bits va with
                    | Some c => match lookup k_cmwb ps with
                        | Some vo => is_empty vo || match spec_bits vo with Some o => c <=? o | None => false end
                        | None => false end
                    | None => false end
                | None => true end = true).
    { destruct (p_cmwb cfg =? 0) eqn:Z; [reflexivity|].
      rewrite spec_bits_dec by lia.
      destruct (lookup k_cmwb ps) as [vo|]; [|lia].
      destruct Hc as [[-> _]|[Hv [o [So [Ro Po]]]]]; [reflexivity|].
      rewrite Hv, So. cbn [orb]. lia. }
    assert (C3: negb (p_snct (meaning ps)) || p_snct cfg = true).
    { destruct (p_snct (meaning ps)), (p_snct cfg); try reflexivity. discriminate E3. }
    assert (C4: match (if p_smwb cfg =? 0 then None else Some (dec_digits (p_smwb cfg))) with
                | Some va => is_some (spec_bits va) | None => true end = true).
    { destruct (p_smwb cfg =? 0) eqn:Z; [reflexivity|]. rewrite spec_bits_dec by lia. reflexivity. }
    destruct (lookup k_smwb ps) as [vo|].
    + destruct (spec_bits vo) as [o|]; [|discriminate C1].
      rewrite C1, C2, C3, C4. reflexivity.
    + rewrite C2, C3, C4. reflexivity.
Qed.

Lemma fresh_no_panic cfg o : cfg_ok cfg = true -> accepting (fresh cfg o) = is_opt (fresh cfg o).
Proof.
  intros H. destruct o as [name ps].
  destruct (fresh_cases cfg name ps H) as [[_ E]|[[_ [_ [e E]]]|[_ [_ [E|[a [E _]]]]]]]; rewrite E; reflexivity.
Qed.

(* the single-call monitor holds of the model *)
Lemma single_monitor_holds cfg name ps : cfg_ok cfg = true ->
  c14_single_monitor name ps (fresh cfg (name, ps)) = true.
Proof.
  intros H.
  destruct (fresh_cases cfg name ps H) as [[N E]|[[-> [W [e E]]]|[-> [W [E|[a [E [_ L]]]]]]]]; rewrite E;
    unfold c14_single_monitor.
  - apply bytes_eqb_neq in N. rewrite N. reflexivity.
  - rewrite bytes_eqb_refl, W. reflexivity.
  - rewrite W. apply orb_true_r.
  - rewrite bytes_eqb_refl, W, L. reflexivity.
Qed.

(* ---------- handshakes and histories ---------- *)
Lemma negotiate_all_accepted offers : forall n, e_accepted n = true ->
  negotiate_all n offers = (n, map (fun _ => AEmpty) offers).
Proof.
  induction offers as [|[name ps] r IH]; intros n H; [reflexivity|].
  cbn [negotiate_all map]. rewrite (negotiate_accepted n name ps H), (IH n H). reflexivity.
Qed.

Lemma negotiate_all_first offers : forall n, e_accepted n = false -> cfg_ok (e_cfg n) = true ->
  snd (negotiate_all n offers) = first_acceptable (e_cfg n) offers.
Proof.
  induction offers as [|[name ps] r IH]; intros n H Hc; [reflexivity|].
  cbn [negotiate_all first_acceptable].
  destruct (negotiate_fresh n name ps H) as [A [B C]].
  destruct (negotiate n name ps) as [n1 a] eqn:En. cbn [fst snd] in A, B, C.
  rewrite A, (fresh_no_panic _ _ Hc) in C. rewrite <- A in C |- *.
  destruct (is_opt a) eqn:Eo.
  - rewrite (negotiate_all_accepted r n1 C). reflexivity.
  - specialize (IH n1 C). rewrite B in IH. specialize (IH Hc).
    destruct (negotiate_all n1 r) as [n2 rest]. cbn [snd] in *. rewrite IH. reflexivity.
Qed.

Lemma count_opts_empty {A} (l : list A) : count_opts (map (fun _ => AEmpty) l) = O.
Proof. unfold count_opts. induction l; simpl; auto. Qed.

Lemma first_acceptable_count cfg offers : (count_opts (first_acceptable cfg offers) <= 1)%nat.
Proof.
  induction offers as [|o r IH]; [unfold count_opts; simpl; lia|].
  cbn [first_acceptable]. unfold count_opts in *. cbn [filter].
  destruct (is_opt (fresh cfg o)) eqn:E.
  - cbn [length]. fold (count_opts (map (fun _ : offer => AEmpty) r)). rewrite count_opts_empty. lia.
  - exact IH.
Qed.

Lemma first_acceptable_split cfg pre o post :
  (forall x, In x pre -> accepts cfg x = false) -> accepts cfg o = true ->
  first_acceptable cfg (pre ++ o :: post) =
  map (fresh cfg) pre ++ fresh cfg o :: map (fun _ => AEmpty) post.
Proof.
  unfold accepts. induction pre as [|x pre IH]; intros Hpre Ho.
  - cbn [app map first_acceptable]. rewrite Ho. reflexivity.
  - cbn [app map first_acceptable]. rewrite (Hpre x (or_introl eq_refl)).
    rewrite IH; [reflexivity| |exact Ho]. intros y Hy. apply Hpre. right; exact Hy.
Qed.

Lemma first_acceptable_none cfg offers :
  (forall x, In x offers -> accepts cfg x = false) ->
  first_acceptable cfg offers = map (fresh cfg) offers.
Proof.
  unfold accepts. induction offers as [|x r IH]; intros H; [reflexivity|].
  cbn [map first_acceptable]. rewrite (H x (or_introl eq_refl)). rewrite IH; [reflexivity|].
  intros y Hy. apply H. right; exact Hy.
Qed.

Lemma run_ops_cfg ops : forall n, e_cfg (fst (run_ops n ops)) = e_cfg n.
Proof.
  induction ops as [|[[name ps]|] r IH]; intros n; [reflexivity| |].
  - cbn [run_ops].
    assert (Hc: e_cfg (fst (negotiate n name ps)) = e_cfg n).
    { destruct (e_accepted n) eqn:Ea.
      - rewrite (negotiate_accepted n name ps Ea). reflexivity.
      - apply (negotiate_fresh n name ps Ea). }
    destruct (negotiate n name ps) as [n1 a]. cbn [fst] in Hc.
    specialize (IH n1). destruct (run_ops n1 r) as [n2 rest]. cbn [fst] in *. congruence.
  - cbn [run_ops]. rewrite IH. reflexivity.
Qed.

Lemma run_ops_app h : forall n ops,
  snd (run_ops n (h ++ ops)) = snd (run_ops n h) ++ snd (run_ops (fst (run_ops n h)) ops).
Proof.
  induction h as [|[[name ps]|] r IH]; intros n ops; [reflexivity| |].
  - cbn [app run_ops]. destruct (negotiate n name ps) as [n1 a].
    specialize (IH n1 ops). destruct (run_ops n1 (r ++ ops)) as [n2 rest].
    destruct (run_ops n1 r) as [n3 rest3]. cbn [fst snd] in *. rewrite IH. reflexivity.
  - cbn [app run_ops]. apply IH.
Qed.

(* Reset restores the initial state: whatever happened before, the rest of the history
   is answered as by a new negotiator *)
Lemma reset_is_new n : reset n = new_ext (e_cfg n).
Proof. reflexivity. Qed.

Lemma run_ops_reset cfg h ops :
  snd (run_ops (new_ext cfg) (h ++ OReset :: ops)) =
  snd (run_ops (new_ext cfg) h) ++ snd (run_ops (new_ext cfg) ops).
Proof.
  rewrite run_ops_app. f_equal. cbn [run_ops]. rewrite reset_is_new, run_ops_cfg. reflexivity.
Qed.

Lemma history_monitor_holds cfg ops : cfg_ok cfg = true -> forall n, e_cfg n = cfg ->
  c14_history_monitor (e_accepted n) (history_steps cfg ops (snd (run_ops n ops))) = true.
Proof.
  intros Hc. induction ops as [|[[name ps]|] r IH]; intros n Hn; [reflexivity| |].
  - cbn [run_ops].
    destruct (e_accepted n) eqn:Ea.
    + rewrite (negotiate_accepted n name ps Ea). specialize (IH n Hn).
      destruct (run_ops n r) as [n2 rest]. cbn [snd history_steps c14_history_monitor] in *.
      rewrite Ea in IH. rewrite IH. reflexivity.
    + destruct (negotiate_fresh n name ps Ea) as [A [B C]].
      destruct (negotiate n name ps) as [n1 a]. cbn [fst snd] in A, B, C.
      rewrite Hn in A, B. rewrite A, (fresh_no_panic _ _ Hc) in C.
      specialize (IH n1 B). destruct (run_ops n1 r) as [n2 rest].
      cbn [snd history_steps c14_history_monitor] in *.
      rewrite A, answer_eqb_refl, <- C. exact IH.
  - cbn [run_ops history_steps c14_history_monitor]. apply (IH (reset n)). exact Hn.
Qed.

(* ---------- Option (Parse l) is l up to order ---------- *)
Definition canon_lookup (p : params) (k : list byte) : option (list byte) :=
  match classify k with
  | KCmwb => if p_cmwb p =? 0 then None else if p_cmwb p =? 1 then Some [] else Some (dec_digits (p_cmwb p))
  | KSmwb => if p_smwb p =? 0 then None else Some (dec_digits (p_smwb p))
  | KCnct => if p_cnct p then Some [] else None
  | KSnct => if p_snct p then Some [] else None
  | KOther => None
  end.

Lemma wf_lookup_flag l k : wf_offer l = true -> (classify k = KCnct \/ classify k = KSnct) ->
  lookup k l = if memb k (keys l) then Some [] else None.
Proof.
  intros W Hk. destruct (lookup k l) as [v|] eqn:L.
  - pose proof (wf_value_ok l k v W L) as H. rewrite value_ok_classify in H.
    assert (Hm: memb k (keys l) = true).
    { destruct (memb k (keys l)) eqn:M; [reflexivity|]. apply lookup_None in M. congruence. }
    rewrite Hm. destruct Hk as [Hk|Hk]; rewrite Hk in H; cbn [vok] in H; apply is_empty_nil in H; subst; reflexivity.
  - apply lookup_None in L. rewrite L. reflexivity.
Qed.

Lemma wf_lookup_det l : wf_offer l = true -> forall k, lookup k l = canon_lookup (meaning l) k.
Proof.
  intros W k. unfold canon_lookup.
  destruct (classify_cases k) as [[-> E]|[[-> E]|[[-> E]|[[-> E]|[E _]]]]]; rewrite E.
  - pose proof (wf_lookup_cmwb l W) as H. destruct (lookup k_cmwb l) as [v|].
    + destruct H as [[-> ->]|[Hv [n [Sn [Rn ->]]]]]; [reflexivity|].
      apply spec_bits_range in Sn. destruct Sn as [_ ->].
      destruct (n =? 0) eqn:Z0; [lia|]. destruct (n =? 1) eqn:Z1; [lia|]. reflexivity.
    + rewrite H. reflexivity.
  - pose proof (wf_lookup_smwb l W) as H. destruct (lookup k_smwb l) as [v|].
    + destruct H as [n [Sn [Rn ->]]]. apply spec_bits_range in Sn. destruct Sn as [_ ->].
      destruct (n =? 0) eqn:Z0; [lia|]. reflexivity.
    + rewrite H. reflexivity.
  - rewrite (wf_lookup_flag l k_cnct W) by (left; exact E). reflexivity.
  - rewrite (wf_lookup_flag l k_snct W) by (right; exact E). reflexivity.
  - destruct (lookup k l) as [v|] eqn:L; [|reflexivity].
    pose proof (wf_value_ok l k v W L) as H. rewrite value_ok_classify, E in H. discriminate.
Qed.

Lemma In_lookup l k v : NoDup (keys l) -> (In (k, v) l <-> lookup k l = Some v).
Proof.
  induction l as [|[k' v'] r IH]; intros ND.
  - simpl. split; [tauto|discriminate].
  - cbn [keys map fst] in ND. inversion ND as [|x xs Hnin ND']; subst. cbn [lookup In].
    destruct (bytes_eqb k k') eqn:E.
    + apply bytes_eqb_eq in E. subst k'. split.
      * intros [H|H]; [inversion H; reflexivity|].
        exfalso. apply Hnin. change (In (fst (k, v)) (map fst r)). apply in_map, H.
      * intros H. inversion H. left. reflexivity.
    + apply bytes_eqb_neq in E. rewrite <- (IH ND'). split.
      * intros [H|H]; [inversion H; congruence|exact H].
      * intros H. right. exact H.
Qed.

Lemma NoDup_keys l : NoDup (keys l) -> NoDup l.
Proof. apply NoDup_map_inv. Qed.

Lemma option_of_parse l : wf_offer l = true ->
  exists l', option_of (fst (parse l)) = Some l' /\ Permutation l' l.
Proof.
  intros W. rewrite (parse_meaning l W).
  assert (Hdom: offer_params_ok (meaning l) = true).
  { unfold offer_params_ok, win_ok, is_valid_bits.
    pose proof (wf_lookup_smwb l W) as Hs. pose proof (wf_lookup_cmwb l W) as Hc.
    destruct (lookup k_smwb l); destruct (lookup k_cmwb l).
    - destruct Hs as [n [_ [Rn Pn]]]. destruct Hc as [[_ Hc]|[_ [m [_ [Rm Pm]]]]]; lia.
    - destruct Hs as [n [_ [Rn Pn]]]. lia.
    - destruct Hc as [[_ Hc]|[_ [m [_ [Rm Pm]]]]]; lia.
    - lia. }
  destruct (parse_option_of (meaning l) Hdom) as [l' [Ho Hp]].
  exists l'. split; [exact Ho|].
  assert (W': wf_offer l' = true) by (apply parse_ok_iff; rewrite Hp; reflexivity).
  assert (M': meaning l' = meaning l) by (rewrite <- (parse_meaning l' W'), Hp; reflexivity).
  pose proof (proj1 (wf_offer_iff l) W) as [_ ND]. pose proof (proj1 (wf_offer_iff l') W') as [_ ND'].
  apply NoDup_Permutation; [apply NoDup_keys, ND'|apply NoDup_keys, ND|].
  intros [k v]. rewrite (In_lookup l' k v ND'), (In_lookup l k v ND).
  rewrite (wf_lookup_det l' W'), (wf_lookup_det l W), M'. tauto.
Qed.
