(* Tie C4: wsflate/cbuf.go (cbuf.Write, cbuf.reset, with cbuf.split, cbuf.flush, min) translated from the
   source by translator v3 extended to stateful objects (gen/Translated3.v), against the cbuf model of
   model/Flate.v in its destination-generic form model/FlateCbufGen.v.
   The object is a record threaded through the methods; its [4]byte field buf is a slice HANDLE
   (array, off, 4, 4) of a heap cell owned by the object, so c.buf[:x], copy(c.buf[:], c.buf[x:]) and
   copy(c.buf[c.n:], tail) read and write that cell and alias correctly. *)
From Coq Require Import NArith ZArith List Bool Lia ZifyBool ZifyN ZifyNat.
Require Import Bytes GoSlices GoMem GoMemProofs Translated3 Translated3Ok Translated3Hdr.
Require Import Flate FlateCbufGen.
Import ListNotations.
Open Scope Z_scope.

(* ------------------------------------------------------------------ the model instance *)
Lemma gcbuf_write_instance c p :
  gcbuf_write dst_write (gc_of_cbuf c) p = (gc_of_cbuf (fst (cbuf_write c p)), snd (cbuf_write c p)).
Proof.
  destruct c as [buf n d e].
  unfold gcbuf_write, cbuf_write, gcb_flush, cb_flush, gc_of_cbuf.
  cbn [gb_err gb_n gb_buf gb_dst cb_err cb_n cb_buf cb_dst].
  destruct e; [reflexivity|].
  destruct (cb_split p) as [hd tl].
  destruct (4 <? n + length tl)%nat; destruct (0 <? length hd)%nat;
    cbn [gb_err gb_n gb_buf gb_dst cb_err cb_n cb_buf cb_dst fst snd];
    repeat (match goal with |- context [dst_write ?d ?q] => destruct (dst_write d q) as [? []] end;
            cbn [gb_err gb_n gb_buf gb_dst cb_err cb_n cb_buf cb_dst fst snd]);
    reflexivity.
Qed.
Lemma gcbuf_reset_instance c d : gcbuf_reset (gc_of_cbuf c) d = gc_of_cbuf (cbuf_reset d).
Proof. reflexivity. Qed.

(* ------------------------------------------------------------------ arrays other than the one written *)
Lemma heap_set_nth_other h a c b : (a < length h)%nat -> b <> a -> nth b (heap_set h a c) [] = nth b h [].
Proof.
  intros Ha Hb. unfold heap_set.
  rewrite <- (firstn_skipn a h) at 3.
  destruct (Nat.lt_ge_cases b a) as [Hlt|Hge].
  - rewrite !app_nth1 by (rewrite firstn_length; lia). reflexivity.
  - rewrite !app_nth2 by (rewrite firstn_length; lia). rewrite firstn_length.
    replace (Nat.min a (length h)) with a by lia.
    rewrite (skipn_cons_nth a h []) by exact Ha.
    destruct (b - a)%nat as [|k] eqn:Ek; [lia|]. reflexivity.
Qed.
Lemma sl_bytes_put_other w s bs q : (sl_arr s < length (w_heap w))%nat -> sl_arr q <> sl_arr s ->
  sl_bytes (sl_put w s bs) q = sl_bytes w q.
Proof.
  intros Ha Hq. unfold sl_bytes, sl_put, sl_blit, arr_of. cbn [w_heap].
  now rewrite heap_set_nth_other.
Qed.

(* ------------------------------------------------------------------ the cell of the object *)
Section Cell.
  Variables (w0 : world) (hb : slice).
  Hypothesis Hv : sl_valid w0 hb.
  Hypothesis Hl : sl_len hb = 4.
  Hypothesis Hc : sl_cap hb = 4.

  (* the world with the cell holding cur and the write log out; everything else as in w0 *)
  Definition W (cur : list Z) (out : list (list Z)) : world := sl_put (mk_world (w_heap w0) out) hb cur.

  Lemma Hv' out : sl_valid (mk_world (w_heap w0) out) hb.
  Proof. exact Hv. Qed.

  (* c.buf[j:k] *)
  Definition sub (j l : Z) : slice := mk_slice (sl_arr hb) (sl_off hb + j) l (sl_cap hb - j).

  Lemma W_slice cur out j k : 0 <= j <= k -> k <= 4 -> m_slice hb j k (W cur out) = Ok (sub j (k - j), W cur out).
  Proof. intros H1 H2. apply m_slice_ok; lia. Qed.

  Lemma W_io_write (wr : g_writer g_error) cur out j l : go_len cur = 4 -> 0 <= j -> 0 <= l -> j + l <= 4 ->
    m_io_write wr (sub j l) (W cur out) =
    Ok (wr out (firstn (Z.to_nat l) (skipn (Z.to_nat j) cur)), W cur (out ++ [firstn (Z.to_nat l) (skipn (Z.to_nat j) cur)])).
  Proof.
    intros Hcur Hj Hl' Hjl. unfold W.
    assert (Hlen : go_len cur = sl_len hb) by lia.
    rewrite (put_io_write (mk_world (w_heap w0) out) hb cur (Hv' out) Hlen wr (sub j l) j);
      try reflexivity; try (cbn [sub sl_len sl_arr sl_off]; lia).
  Qed.

  Lemma W_io_write_other (wr : g_writer g_error) cur out q : sl_arr q <> sl_arr hb ->
    m_io_write wr q (W cur out) = Ok (wr out (sl_bytes w0 q), W cur (out ++ [sl_bytes w0 q])).
  Proof.
    intros Hq. unfold m_io_write, W. rewrite sl_bytes_put_other; [reflexivity|apply Hv|exact Hq].
  Qed.

  Lemma W_copy cur out j l src sb : go_len cur = 4 -> 0 <= j -> 0 <= l -> j + l <= 4 ->
    sl_bytes (W cur out) src = sb ->
    m_copy (sub j l) src (W cur out) =
    Ok (Z.min l (go_len sb), W (list_blit cur (Z.to_nat j) (firstn (Z.to_nat (Z.min l (go_len sb))) sb)) out).
  Proof.
    intros Hcur Hj Hl' Hjl Hsb. unfold m_copy. rewrite Hsb. unfold W.
    assert (Hlen : go_len cur = sl_len hb) by lia.
    rewrite (put_copy_list (mk_world (w_heap w0) out) hb cur (Hv' out) Hlen (sub j l) j);
      try reflexivity; try (cbn [sub sl_len sl_arr sl_off]; lia).
  Qed.

  Lemma W_sub_bytes cur out j l : go_len cur = 4 -> 0 <= j -> 0 <= l -> j + l <= 4 ->
    sl_bytes (W cur out) (sub j l) = firstn (Z.to_nat l) (skipn (Z.to_nat j) cur).
  Proof.
    intros Hcur Hj Hl' Hjl. unfold W.
    rewrite (sl_bytes_sub _ hb (sub j l) j); try reflexivity; try (cbn [sub sl_len]; lia).
    - rewrite sl_bytes_put; [reflexivity|apply Hv'|lia].
    - apply sl_valid_put; [apply Hv'|lia|apply Hv'].
  Qed.

  Lemma W_other_bytes cur out q : sl_arr q <> sl_arr hb -> sl_bytes (W cur out) q = sl_bytes w0 q.
  Proof. intros Hq. unfold W. rewrite sl_bytes_put_other; [reflexivity|apply Hv|exact Hq]. Qed.

  Lemma W_valid cur out : go_len cur = 4 -> sl_valid (W cur out) hb.
  Proof. intros Hcur. unfold W. apply sl_valid_put; [apply Hv'|lia|apply Hv']. Qed.
  Lemma W_bytes cur out : go_len cur = 4 -> sl_bytes (W cur out) hb = cur.
  Proof. intros Hcur. unfold W. apply sl_bytes_put; [apply Hv'|lia]. Qed.
  Lemma W_same out : W (sl_bytes w0 hb) out = mk_world (w_heap w0) out.
  Proof. unfold W. change (sl_bytes w0 hb) with (sl_bytes (mk_world (w_heap w0) out) hb). apply sl_put_same, Hv'. Qed.

  (* ---------------------------------------------------------------- flush, split *)
  Notation crec n wr e := (g3_mk_wsflate_cbuf hb n wr e).

  Lemma flush_sub wr cur out n j l : go_len cur = 4 -> 0 <= j -> 0 <= l -> j + l <= 4 ->
    g3_wsflate_cbuf_flush (crec n wr None) (sub j l) (W cur out) =
    Ok (crec n wr (snd (wr out (firstn (Z.to_nat l) (skipn (Z.to_nat j) cur)))),
        W cur (out ++ [firstn (Z.to_nat l) (skipn (Z.to_nat j) cur)])).
  Proof.
    intros Hcur Hj Hl' Hjl. unfold g3_wsflate_cbuf_flush.
    cbn [g3_wsflate_cbuf_err g3_wsflate_cbuf_dst g3_wsflate_cbuf_buf g3_wsflate_cbuf_n go_is_err negb].
    rewrite (mbind_ok _ _ _ _ _ (W_io_write wr cur out j l Hcur Hj Hl' Hjl)).
    destruct (wr out _) as [nw ew]. reflexivity.
  Qed.

  Lemma flush_other wr cur out n q : sl_arr q <> sl_arr hb ->
    g3_wsflate_cbuf_flush (crec n wr None) q (W cur out) =
    Ok (crec n wr (snd (wr out (sl_bytes w0 q))), W cur (out ++ [sl_bytes w0 q])).
  Proof.
    intros Hq. unfold g3_wsflate_cbuf_flush.
    cbn [g3_wsflate_cbuf_err g3_wsflate_cbuf_dst g3_wsflate_cbuf_buf g3_wsflate_cbuf_n go_is_err negb].
    rewrite (mbind_ok _ _ _ _ _ (W_io_write_other wr cur out q Hq)).
    destruct (wr out _) as [nw ew]. reflexivity.
  Qed.

  Lemma flush_err wr w n e q : g3_wsflate_cbuf_flush (crec n wr (Some e)) q w = Ok (crec n wr (Some e), w).
  Proof. reflexivity. Qed.

  Lemma min_ok a b w : g3_wsflate_min a b w = Ok (Z.min a b, w).
  Proof. unfold g3_wsflate_min. destruct (a <? b) eqn:E; cbv [ret]; do 2 f_equal; lia. Qed.

  (* copy(c.buf[j:j+l], sb) on the cell contents *)
  Definition zcp (cur : list Z) (j l : Z) (sb : list Z) : list Z :=
    list_blit cur (Z.to_nat j) (firstn (Z.to_nat (Z.min l (go_len sb))) sb).
  Lemma zcp_len cur j l sb : go_len cur = 4 -> 0 <= j -> 0 <= l -> j + l <= 4 -> go_len (zcp cur j l sb) = 4.
  Proof.
    intros Hcur Hj Hl' Hjl. unfold zcp, go_len in *. rewrite list_blit_length; [exact Hcur|].
    rewrite firstn_length. lia.
  Qed.

  (* what Write does after the error check, on the cell contents cur, the count n, the log out:
     (cell, count, sticky error, log) afterwards; lh = len(head), hd / tl = the bytes of head / tail *)
  Definition zwrite (wr : g_writer g_error) (cur : list Z) (n : Z) (out : list (list Z)) (lh : Z) (hd tl : list Z)
    : list Z * Z * option g_error * list (list Z) :=
    let lt := go_len tl in
    let x := n + lt - 4 in
    let '(cur1, n1, e1, out1) :=
      if 4 <? n + lt then
        let bs := firstn (Z.to_nat x) (skipn (Z.to_nat 0) cur) in
        (zcp cur 0 4 (firstn (Z.to_nat (4 - x)) (skipn (Z.to_nat x) cur)), n - x, snd (wr out bs), out ++ [bs])
      else (cur, n, None, out) in
    let '(e2, out2) :=
      if 0 <? lh then match e1 with None => (snd (wr out1 hd), out1 ++ [hd]) | Some _ => (e1, out1) end
      else (e1, out1) in
    (zcp cur1 n1 (4 - n1) tl, Z.min (n1 + lt) 4, e2, out2).

  Ltac proj := cbn [g3_wsflate_cbuf_err g3_wsflate_cbuf_dst g3_wsflate_cbuf_buf g3_wsflate_cbuf_n go_is_err negb].

  Lemma Write_rest wr cur out n p t1 t2 :
    go_len cur = 4 -> 0 <= n <= 4 ->
    g3_wsflate_cbuf_split (crec n wr None) p (W cur out) = Ok ((t1, t2, crec n wr None), W cur out) ->
    0 <= sl_len t1 -> (0 < sl_len t1 -> sl_arr t1 <> sl_arr hb) ->
    0 <= sl_len t2 <= 4 -> sl_arr t2 <> sl_arr hb -> go_len (sl_bytes w0 t2) = sl_len t2 ->
    let '(cur2, n2, e2, out2) := zwrite wr cur n out (sl_len t1) (sl_bytes w0 t1) (sl_bytes w0 t2) in
    g3_wsflate_cbuf_Write (crec n wr None) p (W cur out) = Ok ((sl_len p, e2, crec n2 wr e2), W cur2 out2).
  Proof.
    intros Hcur Hn Hsplit Hl1 Ha1 Hl2 Ha2 Hb2.
    unfold g3_wsflate_cbuf_Write. proj.
    rewrite (mbind_ok _ _ _ _ _ Hsplit). unfold zwrite. rewrite Hb2.
    set (lt := sl_len t2) in *. set (tb := sl_bytes w0 t2) in *. set (hd := sl_bytes w0 t1) in *.
    proj. rewrite !(wrap_s64_id (n + lt)) by lia.
    assert (Hcopy_tail : forall c o m mv e, go_len c = 4 -> 0 <= m <= 4 -> mv = m + lt ->
      (t <- m_slice hb m 4;; _ <- m_copy t t2;; t' <- g3_wsflate_min mv 4;;
       ret (sl_len p, e, crec t' wr e))%gomem (W c o)
      = Ok ((sl_len p, e, crec (Z.min (m + lt) 4) wr e), W (zcp c m (4 - m) tb) o)).
    { intros c o m mv e Hc4 Hm ->.
      rewrite (mbind_ok _ _ _ _ _ (W_slice c o m 4 ltac:(lia) ltac:(lia))).
      rewrite (mbind_ok _ _ _ _ _ (W_copy c o m (4 - m) t2 tb Hc4 ltac:(lia) ltac:(lia) ltac:(lia)
                                     (W_other_bytes c o t2 Ha2))).
      rewrite (mbind_ok _ _ _ _ _ (min_ok _ _ _)). reflexivity. }
    destruct (4 <? n + lt) eqn:E4.
    - rewrite !(wrap_s64_id (n + lt - 4)) by lia.
      rewrite (mbind_ok _ _ _ _ _ (W_slice cur out 0 (n + lt - 4) ltac:(lia) ltac:(lia))).
      rewrite Z.sub_0_r.
      rewrite (mbind_ok _ _ _ _ _ (flush_sub wr cur out n 0 (n + lt - 4) Hcur ltac:(lia) ltac:(lia) ltac:(lia))).
      set (bs := firstn (Z.to_nat (n + lt - 4)) (skipn (Z.to_nat 0) cur)).
      set (e1 := snd (wr out bs)). proj.
      rewrite (mbind_ok _ _ _ _ _ (W_slice cur _ 0 4 ltac:(lia) ltac:(lia))).
      rewrite (mbind_ok _ _ _ _ _ (W_slice cur _ (n + lt - 4) 4 ltac:(lia) ltac:(lia))).
      rewrite (mbind_ok _ _ _ _ _ (W_copy cur _ 0 (4 - 0) _ _ Hcur ltac:(lia) ltac:(lia) ltac:(lia)
                 (W_sub_bytes cur _ (n + lt - 4) (4 - (n + lt - 4)) Hcur ltac:(lia) ltac:(lia) ltac:(lia)))).
      set (src := firstn (Z.to_nat (4 - (n + lt - 4))) (skipn (Z.to_nat (n + lt - 4)) cur)).
      assert (Hc1 : go_len (zcp cur 0 (4 - 0) src) = 4) by (apply zcp_len; lia).
      rewrite !(wrap_s64_id (n - (n + lt - 4))) by lia.
      destruct (0 <? sl_len t1) eqn:E1.
      + destruct e1 as [e|] eqn:Ee1.
        * rewrite (mbind_ok _ _ _ _ _ (flush_err wr _ _ e t1)). proj.
          apply Hcopy_tail; [exact Hc1|lia|rewrite ?wrap_s64_id by lia; lia].
        * rewrite (mbind_ok _ _ _ _ _ (flush_other wr _ _ _ t1 (Ha1 ltac:(lia)))). proj.
          apply Hcopy_tail; [exact Hc1|lia|rewrite ?wrap_s64_id by lia; lia].
      + apply Hcopy_tail; [exact Hc1|lia|rewrite ?wrap_s64_id by lia; lia].
    - destruct (0 <? sl_len t1) eqn:E1.
      + rewrite (mbind_ok _ _ _ _ _ (flush_other wr _ _ _ t1 (Ha1 ltac:(lia)))). proj.
        apply Hcopy_tail; [exact Hcur|lia|rewrite ?wrap_s64_id by lia; lia].
      + apply Hcopy_tail; [exact Hcur|lia|rewrite ?wrap_s64_id by lia; lia].
  Qed.

  (* Write on a cbuf without a pending error, in terms of the bytes of p *)
  Lemma Write_z wr cur out n p : go_len cur = 4 -> 0 <= n <= 4 -> sl_valid w0 p -> sl_arr p <> sl_arr hb ->
    sl_len p <= max_int ->
    let pb := sl_bytes w0 p in
    let k := Z.to_nat (sl_len p - 4) in
    let '(cur2, n2, e2, out2) :=
      if 4 <? sl_len p then zwrite wr cur n out (sl_len p - 4) (firstn k pb) (skipn k pb)
      else zwrite wr cur n out 0 [] pb in
    g3_wsflate_cbuf_Write (crec n wr None) p (W cur out) = Ok ((sl_len p, e2, crec n2 wr e2), W cur2 out2).
  Proof.
    intros Hcur Hn Hp Hpa Hpl pb k. unfold max_int in Hpl.
    pose proof (sl_bytes_length _ _ Hp) as Hpbl. fold pb in Hpbl.
    pose proof Hp as (Hp1 & Hp2 & Hp3 & Hp4).
    destruct (4 <? sl_len p) eqn:Eb.
    - set (t1 := mk_slice (sl_arr p) (sl_off p + 0) (sl_len p - 4 - 0) (sl_cap p - 0)).
      set (t2 := mk_slice (sl_arr p) (sl_off p + (sl_len p - 4)) (sl_len p - (sl_len p - 4)) (sl_cap p - (sl_len p - 4))).
      assert (Hs : g3_wsflate_cbuf_split (crec n wr None) p (W cur out) = Ok ((t1, t2, crec n wr None), W cur out)).
      { unfold g3_wsflate_cbuf_split. rewrite Eb. rewrite wrap_s64_id by lia.
        rewrite (mbind_ok _ _ _ _ _ (m_slice_ok _ p 0 (sl_len p - 4) ltac:(lia) ltac:(lia))).
        rewrite (mbind_ok _ _ _ _ _ (m_slice_ok _ p (sl_len p - 4) (sl_len p) ltac:(lia) ltac:(lia))).
        reflexivity. }
      assert (Hb1 : sl_bytes w0 t1 = firstn k pb).
      { rewrite (sl_bytes_sub w0 p t1 0); try reflexivity; try (cbn [t1 sl_len]; lia); [|exact Hp].
        cbn [t1 sl_len skipn Z.to_nat]. fold pb. f_equal. lia. }
      assert (Hb2 : sl_bytes w0 t2 = skipn k pb).
      { rewrite (sl_bytes_sub w0 p t2 (sl_len p - 4)); try reflexivity; try (cbn [t2 sl_len]; lia); [|exact Hp].
        cbn [t2 sl_len]. fold pb. fold k. apply firstn_all2. rewrite skipn_length. lia. }
      pose proof (Write_rest wr cur out n p t1 t2 Hcur Hn Hs) as HR.
      rewrite Hb1, Hb2 in HR. replace (sl_len t1) with (sl_len p - 4) in HR by (cbn [t1 sl_len]; lia).
      apply HR; try (cbn [t1 t2 sl_len sl_arr]; lia); try (intros _; exact Hpa); try exact Hpa.
      unfold go_len. rewrite skipn_length. cbn [t2 sl_len]. lia.
    - assert (Hs : g3_wsflate_cbuf_split (crec n wr None) p (W cur out) = Ok ((nil_slice, p, crec n wr None), W cur out)).
      { unfold g3_wsflate_cbuf_split. rewrite Eb. reflexivity. }
      pose proof (Write_rest wr cur out n p nil_slice p Hcur Hn Hs) as HR.
      change (sl_bytes w0 nil_slice) with (@nil Z) in HR. change (sl_len nil_slice) with 0 in HR.
      apply HR; try lia; try exact Hpa. unfold go_len. fold pb. lia.
  Qed.
End Cell.

(* ------------------------------------------------------------------ the model on the same quantities *)
(* the io.Writer oracle as a destination machine over the write log *)
Definition dw_of (wr : g_writer g_error) (out : list (list Z)) (q : list byte) : list (list Z) * bool :=
  (out ++ [zb q], go_is_err (snd (wr out (zb q)))).

Lemma cb_split_shape (p : list byte) :
  cb_split p = if (4 <? length p)%nat then (firstn (length p - 4) p, skipn (length p - 4) p) else ([], p).
Proof. reflexivity. Qed.

Lemma zwrite_model wr (buf : list byte) (n : nat) out (hdN tlN pb : list byte) :
  length buf = 4%nat -> (n <= 4)%nat -> (length tlN <= 4)%nat -> cb_split pb = (hdN, tlN) ->
  let '(cur2, n2, e2, out2) := zwrite wr (zb buf) (Z.of_nat n) out (Z.of_nat (length hdN)) (zb hdN) (zb tlN) in
  let '(g', (ln, e')) := gcbuf_write (dw_of wr) (mkGcbuf buf n out false) pb in
  cur2 = zb (gb_buf g') /\ n2 = Z.of_nat (gb_n g') /\ go_is_err e2 = gb_err g' /\ out2 = gb_dst g'
  /\ e' = gb_err g' /\ ln = length pb /\ length (gb_buf g') = 4%nat /\ Nat.leb (gb_n g') 4 = true.
Proof.
  intros Hb Hn Ht Hs. unfold gcbuf_write. cbn [gb_err gb_n gb_buf gb_dst]. rewrite Hs.
  destruct buf as [|b0 [|b1 [|b2 [|b3 [|? ?]]]]]; try discriminate. clear Hb.
  destruct tlN as [|t0 [|t1 [|t2 [|t3 [|? ?]]]]]; try (cbn [length] in Ht; lia); clear Ht;
  (destruct n as [|[|[|[|[|?]]]]]; [| | | | |lia]); clear Hn;
  destruct hdN as [|h0 hd'];
  cbv;
  repeat (match goal with |- context [wr ?o ?b] => destruct (wr o b) as [? [?|]] end; cbv);
  repeat split; reflexivity.
Qed.

(* ------------------------------------------------------------------ the theorems *)
(* the Go object c (record + heap cell) represents the model state g in world w *)
Definition cbuf_rep (w : world) (c : g3_wsflate_cbuf) (g : gcbuf (list (list Z))) : Prop :=
  let hb := g3_wsflate_cbuf_buf c in
  sl_valid w hb /\ sl_len hb = 4 /\ sl_cap hb = 4 /\
  sl_bytes w hb = zb (gb_buf g) /\ g3_wsflate_cbuf_n c = Z.of_nat (gb_n g) /\ (gb_n g <= 4)%nat /\
  go_is_err (g3_wsflate_cbuf_err c) = gb_err g /\ gb_dst g = w_out w.

Lemma cb_split_tail_len (p : list byte) : (length (snd (cb_split p)) <= 4)%nat.
Proof.
  unfold cb_split. destruct (Nat.ltb_spec 4 (length p)) as [E|E]; cbn [snd]; [rewrite skipn_length|]. all: lia.
Qed.

Theorem g3_cbuf_Write_ok w c g p pb :
  cbuf_rep w c g -> sl_valid w p -> sl_arr p <> sl_arr (g3_wsflate_cbuf_buf c) ->
  sl_len p <= max_int -> sl_bytes w p = zb pb ->
  let '(g', (n', e')) := gcbuf_write (dw_of (g3_wsflate_cbuf_dst c)) g pb in
  exists err' c',
    g3_wsflate_cbuf_Write c p w =
      Ok ((Z.of_nat n', err', c'),
          mk_world (w_heap (sl_put w (g3_wsflate_cbuf_buf c) (zb (gb_buf g')))) (gb_dst g'))
    /\ go_is_err err' = e' /\ err' = g3_wsflate_cbuf_err c'
    /\ g3_wsflate_cbuf_buf c' = g3_wsflate_cbuf_buf c /\ g3_wsflate_cbuf_dst c' = g3_wsflate_cbuf_dst c
    /\ cbuf_rep (mk_world (w_heap (sl_put w (g3_wsflate_cbuf_buf c) (zb (gb_buf g')))) (gb_dst g')) c' g'
    /\ (gb_err g = true -> c' = c /\ g' = g /\ n' = 0%nat).
Proof.
  destruct c as [hb n wr e]. destruct g as [buf gn gd ge].
  intros (Hv & Hl & Hc & Hb & Hn & Hn4 & He & Hd) Hp Hpa Hpl Hpb.
  cbn [g3_wsflate_cbuf_buf g3_wsflate_cbuf_n g3_wsflate_cbuf_dst g3_wsflate_cbuf_err gb_buf gb_n gb_dst gb_err] in *.
  assert (Hbl : @length N buf = 4%nat).
  { pose proof (sl_bytes_length _ _ Hv) as H. rewrite Hb, zb_length in H.
    transitivity (Z.to_nat (sl_len hb)); [exact H|rewrite Hl; reflexivity]. }
  destruct e as [e|].
  - (* sticky error *)
    cbn [go_is_err] in He. subst ge. unfold gcbuf_write. cbn [gb_err gb_buf gb_dst gb_n].
    exists (Some e), (g3_mk_wsflate_cbuf hb n wr (Some e)).
    assert (Hw : mk_world (w_heap (sl_put w hb (zb buf))) gd = w).
    { rewrite <- Hb. rewrite sl_put_same by exact Hv. subst gd. destruct w; reflexivity. }
    rewrite Hw. unfold cbuf_rep.
    cbn [g3_wsflate_cbuf_buf g3_wsflate_cbuf_n g3_wsflate_cbuf_dst g3_wsflate_cbuf_err gb_buf gb_n gb_dst gb_err go_is_err].
    repeat split; try reflexivity; try assumption; try lia; apply Hv.
  - cbn [go_is_err] in He. subst ge.
    pose proof (Write_z w hb Hv Hl Hc wr (zb buf) gd n p ltac:(rewrite go_len_zb; lia) ltac:(lia) Hp Hpa Hpl) as HW.
    cbv zeta in HW. rewrite Hpb in HW.
    assert (HW0 : W w hb (zb buf) gd = w).
    { rewrite <- Hb. rewrite W_same by exact Hv. subst gd. destruct w; reflexivity. }
    rewrite HW0 in HW.
    pose proof (sl_bytes_length _ _ Hp) as Hpl'. rewrite Hpb, zb_length in Hpl'.
    pose proof (cb_split_tail_len pb) as Htl.
    destruct (cb_split pb) as [hdN tlN] eqn:Es. cbn [snd] in Htl.
    pose proof (zwrite_model wr buf gn gd hdN tlN pb Hbl Hn4 Htl Es) as HM.
    rewrite cb_split_shape in Es.
    assert (Hz : (if 4 <? sl_len p
                  then zwrite wr (zb buf) n gd (sl_len p - 4) (firstn (Z.to_nat (sl_len p - 4)) (zb pb)) (skipn (Z.to_nat (sl_len p - 4)) (zb pb))
                  else zwrite wr (zb buf) n gd 0 [] (zb pb))
                 = zwrite wr (zb buf) (Z.of_nat gn) gd (Z.of_nat (length hdN)) (zb hdN) (zb tlN)).
    { rewrite Hn. unfold byte in *. revert Es. destruct (4 <? length pb)%nat eqn:E4; intros Es; injection Es as <- <-.
      - replace (4 <? sl_len p) with true by lia.
        replace (Z.to_nat (sl_len p - 4)) with (length pb - 4)%nat by lia.
        rewrite <- zb_firstn, <- zb_skipn. f_equal. rewrite firstn_length. lia.
      - replace (4 <? sl_len p) with false by lia. reflexivity. }
    rewrite Hz in HW. clear Hz.
    destruct (zwrite wr (zb buf) (Z.of_nat gn) gd (Z.of_nat (length hdN)) (zb hdN) (zb tlN)) as [[[cur2 n2] e2] out2].
    destruct (gcbuf_write (dw_of wr) (mkGcbuf buf gn gd false) pb) as [g' [ln e']].
    cbv beta iota in HM, HW.
    destruct HM as (Hm1 & Hm2 & He2 & Hm4 & Hm5 & Hm6 & Hbl' & Hn4'). subst cur2 n2 out2 e' ln.
    exists e2, (g3_mk_wsflate_cbuf hb (Z.of_nat (gb_n g')) wr e2).
    cbn [g3_wsflate_cbuf_buf g3_wsflate_cbuf_n g3_wsflate_cbuf_dst g3_wsflate_cbuf_err].
    replace (sl_len p) with (Z.of_nat (length pb)) in HW by (destruct Hp as (_ & _ & Hp3 & _); unfold byte in *; lia).
    split; [exact HW|]. split; [exact He2|]. split; [reflexivity|]. split; [reflexivity|]. split; [reflexivity|].
    split; [|discriminate].
    (* the representation invariant afterwards *)
    assert (Hgl : go_len (zb (gb_buf g')) = 4) by (rewrite go_len_zb; change (@length N (gb_buf g') = 4%nat) in Hbl'; lia).
    pose proof (W_valid w hb Hv Hl (zb (gb_buf g')) (gb_dst g') Hgl) as HV.
    pose proof (W_bytes w hb Hv Hl (zb (gb_buf g')) (gb_dst g') Hgl) as HB.
    unfold cbuf_rep.
    cbn [g3_wsflate_cbuf_buf g3_wsflate_cbuf_n g3_wsflate_cbuf_dst g3_wsflate_cbuf_err gb_buf gb_n gb_dst gb_err go_is_err w_out].
    split; [exact HV|]. split; [exact Hl|]. split; [exact Hc|]. split; [exact HB|]. split; [reflexivity|].
    split; [apply Nat.leb_le; exact Hn4'|]. split; [exact He2|reflexivity].
Qed.

(* reset: the cell is zeroed, count and error cleared, the destination replaced; nothing else changes.
   Only the handle needs to be valid (the old contents, count and error are arbitrary). *)
Theorem g3_cbuf_reset_ok w c wr' :
  let hb := g3_wsflate_cbuf_buf c in
  sl_valid w hb -> sl_len hb = 4 -> sl_cap hb = 4 ->
  forall g, gb_dst g = w_out w ->
  exists c', g3_wsflate_cbuf_reset c wr' w = Ok (c', sl_put w hb (zb (gb_buf (gcbuf_reset g (w_out w)))))
    /\ g3_wsflate_cbuf_buf c' = hb /\ g3_wsflate_cbuf_dst c' = wr'
    /\ cbuf_rep (sl_put w hb (zb (gb_buf (gcbuf_reset g (w_out w))))) c' (gcbuf_reset g (w_out w)).
Proof.
  destruct c as [hb n wr e]. cbn [g3_wsflate_cbuf_buf]. intros Hv Hl Hc g Hg.
  exists (g3_mk_wsflate_cbuf hb 0 wr' None).
  unfold g3_wsflate_cbuf_reset.
  cbn [g3_wsflate_cbuf_buf g3_wsflate_cbuf_n g3_wsflate_cbuf_dst g3_wsflate_cbuf_err gcbuf_reset gb_buf gb_n gb_dst gb_err].
  unfold m_copy_list, mbind. rewrite Hl. change (Z.to_nat (Z.min 4 (go_len [0; 0; 0; 0]))) with 4%nat.
  cbn [firstn]. split; [reflexivity|]. split; [reflexivity|]. split; [reflexivity|].
  unfold cbuf_rep. cbn [g3_wsflate_cbuf_buf g3_wsflate_cbuf_n g3_wsflate_cbuf_dst g3_wsflate_cbuf_err gb_buf gb_n gb_dst gb_err go_is_err].
  split; [apply sl_valid_put; [exact Hv|rewrite Hl; reflexivity|exact Hv]|].
  split; [exact Hl|]. split; [exact Hc|].
  split; [apply sl_bytes_put; [exact Hv|rewrite Hl; reflexivity]|].
  repeat split; try reflexivity. cbn [gcbuf_reset gb_n]. lia.
Qed.

(* an example on a two-array heap: the cell [1;2;3;0] with 3 held bytes, a 6-byte write from another array
   through a destination that accepts everything: two destination writes ([1;2;3] and [10;11]), the cell
   becomes [12;13;14;15], the count 4 *)
Example g3_cbuf_Write_example :
  let wr : g_writer g_error := fun _ bs => (go_len bs, None) in
  let w := mk_world [[9; 1; 2; 3; 0; 9]; [10; 11; 12; 13; 14; 15]] [] in
  g3_wsflate_cbuf_Write (g3_mk_wsflate_cbuf (mk_slice 0 1 4 4) 3 wr None) (mk_slice 1 0 6 6) w
  = Ok ((6, None, g3_mk_wsflate_cbuf (mk_slice 0 1 4 4) 4 wr None),
        mk_world [[9; 12; 13; 14; 15; 9]; [10; 11; 12; 13; 14; 15]] [[1; 2; 3]; [10; 11]]).
Proof. vm_compute. reflexivity. Qed.
