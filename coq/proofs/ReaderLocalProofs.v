(* Single-step facts about the Reader model: what NextFrame does with the frame
   at the head of the source, whatever the chunking. Used by C05/C13/C15/C16. *)
Require Import Bytes Stream Utf8Spec Check Frame Cipher Utf8Dfa Extracted Reader
  BytesProofs StreamProofs CheckProofs FrameProofs.
From Coq Require Import ZifyBool ZifyN ZifyNat.
Open Scope N_scope.

Lemma next_frame_reads_header r h rest :
  wf_header h -> wf_bytes rest -> wf_src (r_src r) -> flat (r_src r) = rfc_header h ++ rest ->
  exists s', reader_read_header (r_src r) = (inr (norm_header h), s')
             /\ flat s' = rest /\ wf_src s' /\ tl s' = tl (r_src r).
Proof. intros. rewrite reader_read_header_same. apply read_header_roundtrip; assumption. Qed.

(* C05 (local): a frame whose header breaks an owned rule is refused with a
   protocol error naming a broken rule, having consumed the header bytes only *)
Lemma next_frame_rejects r h rest rl :
  r_skip r = false -> wf_header h -> wf_bytes rest -> wf_src (r_src r) ->
  flat (r_src r) = rfc_header h ++ rest ->
  check_header (norm_header h) (r_state r) = Some rl ->
  exists s', next_frame r = ((norm_header h, Some (RProtocol rl)), set_src r s') /\ flat s' = rest
             /\ In rl (broken (norm_header h) (r_state r)).
Proof.
  intros Hsk Hh Hrest Hwf Hfl Hck.
  destruct (next_frame_reads_header r h rest Hh Hrest Hwf Hfl) as (s' & Hrd & Hf & _).
  exists s'. unfold next_frame. rewrite Hrd, Hsk, Hck. repeat split; auto.
  apply in_broken. apply (check_header_sound _ _ _ (proj1 (proj2 Hh)) Hck).
Qed.

(* C05/C15 (local): with a size limit, a larger announced payload is refused
   before any of its payload is read *)
Lemma next_frame_too_large r h rest :
  wf_header h -> wf_bytes rest -> wf_src (r_src r) ->
  flat (r_src r) = rfc_header h ++ rest ->
  (if r_skip r then None else check_header (norm_header h) (r_state r)) = None ->
  (0 < r_max r < h_len h)%Z ->
  exists s', next_frame r = ((norm_header h, Some RTooLarge), set_src r s') /\ flat s' = rest.
Proof.
  intros Hh Hrest Hwf Hfl Hck Hmax.
  destruct (next_frame_reads_header r h rest Hh Hrest Hwf Hfl) as (s' & Hrd & Hf & _).
  exists s'. unfold next_frame. rewrite Hrd, Hck. cbn [norm_header h_len].
  replace ((0 <? r_max r)%Z && (r_max r <? h_len h)%Z) with true by lia. split; [reflexivity|exact Hf].
Qed.

(* C16 (local): a header cut by the end of the stream is an error; between the
   fragments of a message it is never a clean io.EOF *)
Lemma next_frame_cut_header r : wf_src (r_src r) -> wf_bytes (flat (r_src r)) ->
  rfc_parse (flat (r_src r)) = PIncomplete ->
  exists e, snd (fst (next_frame r)) = Some e /\
            (st_fragmented (r_state r) = true -> tl (r_src r) = TEOF -> e = RIo EUnexpected).
Proof.
  intros Hwf Hb Hp. unfold next_frame. rewrite reader_read_header_same.
  pose proof (read_header_spec (r_src r) Hwf Hb) as H. unfold dec_agrees in H.
  destruct (read_header (r_src r)) as [res s1]. rewrite Hp in H.
  destruct H as (e & -> & He1 & He2). cbn [fst snd]. eexists. split; [reflexivity|].
  intros Hfr Ht. rewrite Hfr. destruct (He2 Ht) as [-> | ->]; reflexivity.
Qed.

(* C13 (receive, local): MessageState.UnsetBits *)
Lemma unset_bits_first_data h c : op_is_data (h_op h) = true -> h_op h <> 0 -> h_rsv h < 8 ->
  unset_bits h c = Some (mkHeader (h_fin h) (h_rsv h mod 4) (h_op h) (h_masked h) (h_mask h) (h_len h),
                         4 <=? h_rsv h).
Proof.
  intros Hd Ho Hr. unfold unset_bits. rewrite Hd. replace (h_op h =? 0) with false by lia. cbn [negb andb].
  assert (E: forall x, x < 8 -> N.land x 3 = x mod 4 /\ negb (N.land x 4 =? 0) = (4 <=? x)).
  { intros x Hx. assert (C: x = 0 \/ x = 1 \/ x = 2 \/ x = 3 \/ x = 4 \/ x = 5 \/ x = 6 \/ x = 7) by lia.
    destruct C as [->|[->|[->|[->|[->|[->|[->| ->]]]]]]]; split; reflexivity. }
  destruct (E _ Hr) as [-> ->]. reflexivity.
Qed.

Lemma unset_bits_other h c : (op_is_data (h_op h) = false \/ h_op h = 0) -> h_rsv h < 8 ->
  unset_bits h c = if 4 <=? h_rsv h then None else Some (h, c).
Proof.
  intros Hd Hr. unfold unset_bits.
  assert (E: negb (N.land (h_rsv h) 4 =? 0) = (4 <=? h_rsv h)).
  { assert (C: h_rsv h = 0 \/ h_rsv h = 1 \/ h_rsv h = 2 \/ h_rsv h = 3 \/ h_rsv h = 4 \/ h_rsv h = 5 \/ h_rsv h = 6 \/ h_rsv h = 7) by lia.
    destruct C as [->|[->|[->|[->|[->|[->|[->| ->]]]]]]]; reflexivity. }
  rewrite E. destruct Hd as [Hd|Hd].
  - rewrite Hd. cbn [andb]. reflexivity.
  - rewrite Hd. cbn [N.eqb negb]. rewrite andb_false_r. reflexivity.
Qed.
