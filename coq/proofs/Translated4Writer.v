(* Tie C4: wsutil/writer.go, the leaf accessors Writer.Size / Available / Buffered translated from the source
   (the Writer record holds its two SLICE fields raw and buf as slice values; the fields op, state, extensions
   have types outside the translator's subset and are left out of the record) against model/Writer.v. *)
From Coq Require Import NArith ZArith List Bool Lia ZifyBool ZifyN ZifyNat.
Require Import Bytes GoSlices GoMem GoMemProofs Translated3 Translated3Ok Writer.
Import ListNotations.
Open Scope Z_scope.

(* the part of the representation relation these methods read: len(w.buf) and w.n *)
Definition writer_counts (c : g3_wsutil_Writer) (m : writer) : Prop :=
  sl_len (g3_wsutil_Writer_buf c) = Z.of_N (w_buflen m) /\ g3_wsutil_Writer_n c = Z.of_N (w_n m)
  /\ (w_n m <= w_buflen m)%N /\ Z.of_N (w_buflen m) <= max_int.

Theorem g3_Writer_accessors_ok c m w : writer_counts c m ->
  g3_wsutil_Writer_Size c w = Ok ((Z.of_N (w_buflen m), c), w)
  /\ g3_wsutil_Writer_Available c w = Ok ((Z.of_N (w_available m), c), w)
  /\ g3_wsutil_Writer_Buffered c w = Ok ((Z.of_N (w_n m), c), w).
Proof.
  intros (Hb & Hn & Hle & Hmax). unfold max_int in Hmax.
  unfold g3_wsutil_Writer_Size, g3_wsutil_Writer_Available, g3_wsutil_Writer_Buffered, w_available, ret.
  rewrite Hb, Hn. rewrite wrap_s64_id by lia. repeat split. do 3 f_equal. lia.
Qed.
