Require Import Bytes Stream.
From Coq Require Import ZifyBool ZifyN ZifyNat.
Open Scope N_scope.

Lemma len_app {A} (a b : list A) : len (a ++ b) = len a + len b.
Proof. unfold len. rewrite app_length. lia. Qed.
Lemma len_nil {A} : len (@nil A) = 0. Proof. reflexivity. Qed.
Lemma len_cons {A} (x : A) l : len (x :: l) = 1 + len l.
Proof. unfold len. simpl length. lia. Qed.
Lemma len_take {A} n (l : list A) : len (take n l) = N.min n (len l).
Proof. unfold len, take. rewrite firstn_length. lia. Qed.
Lemma len_drop {A} n (l : list A) : len (drop n l) = len l - n.
Proof. unfold len, drop. rewrite skipn_length. lia. Qed.
Lemma take_drop {A} n (l : list A) : take n l ++ drop n l = l.
Proof. apply firstn_skipn. Qed.
Lemma take_all {A} n (l : list A) : len l <= n -> take n l = l.
Proof. intros H. apply firstn_all2. unfold len in H. lia. Qed.
Lemma drop_all {A} n (l : list A) : len l <= n -> drop n l = [].
Proof. intros H. apply skipn_all2. unfold len in H. lia. Qed.
Lemma take_app_le {A} n (a b : list A) : n <= len a -> take n (a ++ b) = take n a.
Proof.
  intros H. unfold take. rewrite firstn_app.
  replace (N.to_nat n - length a)%nat with 0%nat by (unfold len in H; lia).
  simpl. apply app_nil_r.
Qed.
Lemma drop_app_le {A} n (a b : list A) : n <= len a -> drop n (a ++ b) = drop n a ++ b.
Proof.
  intros H. unfold drop. rewrite skipn_app.
  replace (N.to_nat n - length a)%nat with 0%nat by (unfold len in H; lia). reflexivity.
Qed.
Lemma take_app_ge {A} n (a b : list A) : len a <= n -> take n (a ++ b) = a ++ take (n - len a) b.
Proof.
  intros H. unfold take. rewrite firstn_app. rewrite (firstn_all2 a) by (unfold len in H; lia).
  f_equal. f_equal. unfold len in *. lia.
Qed.
Lemma drop_app_ge {A} n (a b : list A) : len a <= n -> drop n (a ++ b) = drop (n - len a) b.
Proof.
  intros H. unfold drop. rewrite skipn_app. rewrite (skipn_all2 a) by (unfold len in H; lia).
  simpl. f_equal. unfold len in *. lia.
Qed.
Lemma take_0 {A} (l : list A) : take 0 l = []. Proof. reflexivity. Qed.
Lemma drop_0 {A} (l : list A) : drop 0 l = l. Proof. reflexivity. Qed.

(* enough bytes: ReadFull returns exactly the first [need] bytes of the flat
   stream and leaves the rest, whatever the chunking *)
Lemma read_full_aux_ok need : forall cs t got, wf_chunks cs ->
  need <= len (concat cs) ->
  let '((r, e), rest) := read_full_aux need got cs t in
  e = None /\ r = take need (concat cs) /\ concat rest = drop need (concat cs) /\ wf_chunks rest.
Proof.
  intros cs; revert need. induction cs as [|c cs IH]; intros need t got Hwf Hn; cbn [read_full_aux].
  - destruct (need =? 0) eqn:E; [|simpl in Hn; unfold len in Hn; simpl in Hn; lia].
    assert (need = 0) by lia; subst. repeat split; auto.
  - destruct (need =? 0) eqn:E.
    { assert (need = 0) by lia; subst. repeat split; auto. }
    inversion Hwf as [|? ? Hc Hcs]; subst.
    cbn [concat] in *. rewrite len_app in Hn.
    destruct (need <=? len c) eqn:E1.
    + repeat split.
      * rewrite take_app_le by lia. reflexivity.
      * destruct (need =? len c) eqn:E2.
        -- rewrite drop_app_le by lia. rewrite drop_all by lia. reflexivity.
        -- cbn [concat]. rewrite drop_app_le by lia. reflexivity.
      * destruct (need =? len c) eqn:E2; [assumption|]. constructor; [|assumption].
        intro H. apply (f_equal len) in H. rewrite len_drop in H. unfold len in H at 2. simpl in H. lia.
    + assert (Hlc: len c <> 0) by (destruct c; [contradiction|rewrite len_cons; lia]).
      replace (got || negb (len c =? 0)) with true by (destruct got; cbn [orb]; lia).
      specialize (IH (need - len c) t true Hcs ltac:(lia)).
      destruct (read_full_aux (need - len c) true cs t) as [[r e] rest].
      destruct IH as (He & Hr & Hrest & Hw). repeat split; auto.
      * subst r. rewrite take_app_ge by lia. reflexivity.
      * rewrite Hrest. rewrite drop_app_ge by lia. reflexivity.
Qed.

(* not enough bytes: everything is consumed and the error class depends only on
   the tail and on whether any byte was seen *)
Lemma read_full_aux_short need : forall cs t got, wf_chunks cs ->
  len (concat cs) < need ->
  let '((r, e), rest) := read_full_aux need got cs t in
  r = concat cs /\ rest = [] /\
  e = Some (match t with TFail => EFail
            | TEOF => if got || negb (len (concat cs) =? 0) then EUnexpected else EEOF end).
Proof.
  intros cs; revert need. induction cs as [|c cs IH]; intros need t got Hwf Hn; cbn [read_full_aux].
  - destruct (need =? 0) eqn:E; [lia|]. cbn [concat]. rewrite len_nil. cbn [N.eqb negb].
    rewrite orb_false_r. repeat split; reflexivity.
  - destruct (need =? 0) eqn:E; [lia|].
    inversion Hwf as [|? ? Hc Hcs]; subst.
    cbn [concat] in *. rewrite len_app in Hn.
    destruct (need <=? len c) eqn:E1; [lia|].
    assert (Hlc0: len c <> 0) by (destruct c; [contradiction|rewrite len_cons; lia]).
    replace (got || negb (len c =? 0)) with true by (destruct got; cbn [orb]; lia).
    specialize (IH (need - len c) t true Hcs ltac:(lia)).
    destruct (read_full_aux (need - len c) true cs t) as [[r e] rest].
    destruct IH as (Hr & Hrest & He). subst r rest. repeat split; auto.
    rewrite He. destruct t; [|reflexivity].
    assert (Hlc: len c <> 0). { intro H0. apply Hc. destruct c; [reflexivity|]. rewrite len_cons in H0. lia. }
    rewrite len_app. cbn [orb].
    replace (len c + len (concat cs) =? 0) with false by lia. cbn [negb]. rewrite orb_true_r. reflexivity.
Qed.

Lemma read_full_ok need s : wf_src s -> need <= len (flat s) ->
  let '((r, e), s') := read_full need s in
  e = None /\ r = take need (flat s) /\ flat s' = drop need (flat s) /\ wf_src s' /\ tl s' = tl s.
Proof.
  intros Hwf Hn. unfold read_full. pose proof (read_full_aux_ok need (chunks s) (tl s) false Hwf Hn) as H.
  destruct (read_full_aux need false (chunks s) (tl s)) as [[r e] rest].
  destruct H as (He & Hr & Hrest & Hw). repeat split; assumption.
Qed.

Lemma read_full_short need s : wf_src s -> len (flat s) < need ->
  let '((r, e), s') := read_full need s in
  r = flat s /\ flat s' = [] /\
  e = Some (match tl s with TFail => EFail
            | TEOF => if len (flat s) =? 0 then EEOF else EUnexpected end) /\ tl s' = tl s.
Proof.
  intros Hwf Hn. unfold read_full. pose proof (read_full_aux_short need (chunks s) (tl s) false Hwf Hn) as H.
  destruct (read_full_aux need false (chunks s) (tl s)) as [[r e] rest].
  destruct H as (Hr & Hrest & He). subst rest. repeat split; auto.
  rewrite He. cbn [orb]. destruct (tl s); [|reflexivity].
  fold (flat s). destruct (len (flat s) =? 0); reflexivity.
Qed.

(* canonical chunkings are well-formed and flatten to the bytes *)
Lemma whole_wf bs t : wf_src (whole bs t) /\ flat (whole bs t) = bs.
Proof.
  unfold whole, wf_src, wf_chunks, flat. destruct bs; cbn [chunks concat].
  - split; [constructor|reflexivity].
  - split; [repeat constructor; discriminate| apply app_nil_r].
Qed.
Lemma bytewise_wf bs t : wf_src (bytewise bs t) /\ flat (bytewise bs t) = bs.
Proof.
  unfold bytewise, wf_src, wf_chunks, flat. cbn [chunks]. induction bs as [|b bs [IH1 IH2]]; cbn [map concat].
  - split; [constructor|reflexivity].
  - split; [constructor; [discriminate|assumption]| cbn [app]; f_equal; assumption].
Qed.

Lemma take_0_nil {A} (l : list A) : take 0 l = []. Proof. reflexivity. Qed.

(* one Read: either the end (no bytes, error from the tail) or a non-empty prefix *)
Lemma read1_props_u k s : wf_src s -> 0 < k ->
  let '((b, e), s') := read1 k s in
  match e with
  | Some e => b = [] /\ flat s = [] /\ e = (match tl s with TEOF => EEOF | TFail => EFail end)
  | None => b <> [] /\ flat s = b ++ flat s' /\ wf_src s' /\ tl s' = tl s
  end.
Proof.
  intros Hwf Hk. unfold read1, flat, wf_src in *. destruct (chunks s) as [|c cs] eqn:E.
  - repeat split; reflexivity.
  - inversion Hwf as [|? ? Hc Hcs]; subst.
    destruct (k <? len c) eqn:Ek; cbn [chunks tl concat].
    + repeat split.
      * intro H. apply (f_equal len) in H. rewrite len_take in H. unfold len in H at 2. simpl in H.
        assert (len c <> 0) by (destruct c; [contradiction|rewrite len_cons; lia]). lia.
      * rewrite app_assoc. rewrite take_drop. reflexivity.
      * constructor; [|assumption]. intro H. apply (f_equal len) in H. rewrite len_drop in H.
        unfold len in H at 2. simpl in H. lia.
    + repeat split; assumption.
Qed.
