(* Tie C4: read.go ReadHeader translated from the source (gen/Translated3.v) against model/Frame.v read_header.
   io.ReadFull is the library function GoMem.m_io_read_full (io.ReadAtLeast's loop over the stateful reader
   oracle); part 1 proves that over a reader that serves a chunked stream (lib/Stream.v src, non-empty chunks)
   it is the model's read_full; part 2 proves ReadHeader. *)
From Coq Require Import NArith ZArith List Bool Lia ZifyBool ZifyN ZifyNat.
Require Import Bytes GoSlices GoMem GoMemProofs Translated3 Translated3Ok Translated3Hdr.
Require Import Stream Check Frame BytesProofs.
Import ListNotations.
Open Scope Z_scope.

(* ------------------------------------------------------------------ a reader serving a chunked stream *)
Definition rerr_go (e : rerr) : g_error :=
  match e with EEOF => E_io_EOF | EUnexpected => E_io_ErrUnexpectedEOF | EFail => E_foreign 0 end.
(* the stream after the calls in h (the len(p) of each) *)
Definition src_at (s0 : src) (h : list Z) : src := fold_left (fun s k => snd (read1 (Z.to_N k) s)) h s0.
Definition src_fun (s0 : src) (h : list Z) (k : Z) : list Z * Z * option g_error :=
  let '((b, e), _) := read1 (Z.to_N k) (src_at s0 h) in (zb b, Z.of_nat (length b), option_map rerr_go e).
Definition src_reader (s0 : src) (h : list Z) : g_reader g_error := mk_reader h (src_fun s0).

Lemma src_at_snoc s0 h k : src_at s0 (h ++ [k]) = snd (read1 (Z.to_N k) (src_at s0 h)).
Proof. unfold src_at. now rewrite fold_left_app. Qed.

Lemma to_N_of_nat n : Z.to_N (Z.of_nat n) = N.of_nat n.
Proof. lia. Qed.

Lemma list_blit_nil l i : list_blit l i [] = l.
Proof. unfold list_blit. cbn [app length]. rewrite Nat.add_0_r. apply firstn_skipn. Qed.

Lemma list_blit_split pre post d : (length d <= length post)%nat ->
  list_blit (pre ++ post) (length pre) d = pre ++ d ++ skipn (length d) post.
Proof.
  intros H. rewrite <- (firstn_skipn (length d) post) at 1.
  apply list_blit_app. rewrite firstn_length. lia.
Qed.

Section ReadFull.
  Variables (s0 : src) (w0 : world) (t : slice).
  Hypothesis Hv : sl_valid w0 t.

  (* one Read into t[n:] *)
  Lemma rf_read {B} pre post h d nn e (K : Z * option g_error * g_reader g_error -> M B) :
    go_len (pre ++ post) = sl_len t ->
    src_fun s0 h (go_len post) = (d, nn, e) -> (length d <= length post)%nat ->
    mbind (m_slice t (go_len pre) (sl_len t)) (fun sub => mbind (m_io_read (src_reader s0 h) sub) K)
      (sl_put w0 t (pre ++ post)) =
    K (nn, e, src_reader s0 (h ++ [go_len post])) (sl_put w0 t (pre ++ d ++ skipn (length d) post)).
  Proof.
    intros Hlen Hf Hd. pose proof Hv as (Hv1 & Hv2 & Hv3 & Hv4).
    unfold go_len in *. rewrite app_length in Hlen.
    rewrite (mbind_ok _ _ _ _ _ (m_slice_ok _ t (Z.of_nat (length pre)) (sl_len t) ltac:(lia) ltac:(lia))).
    unfold mbind at 1. unfold m_io_read. cbn [sl_len rd_fun rd_hist src_reader].
    replace (sl_len t - Z.of_nat (length pre)) with (Z.of_nat (length post)) by lia.
    rewrite Hf. unfold go_len.
    replace (Z.of_nat (length d) <=? Z.of_nat (length post)) with true by lia.
    rewrite (put_blit_sub w0 t (pre ++ post) Hv ltac:(unfold go_len; rewrite app_length; lia) _ (Z.of_nat (length pre)) 0 d);
      try reflexivity; try (unfold go_len; lia).
    replace (Z.to_nat (Z.of_nat (length pre) + 0)) with (length pre) by lia.
    rewrite list_blit_split by exact Hd. reflexivity.
  Qed.

  Definition tail_err (tl0 : tail) : g_error := match tl0 with TEOF => E_io_EOF | TFail => E_foreign 0 end.

  Lemma body_break n (e : option g_error) rd w : (n <? sl_len t) && (match e with None => true | Some _ => false end) = false ->
    m_read_full_body t (n, e, rd) w = Ok (Break (n, e, rd), w).
  Proof. intros H. unfold m_read_full_body. rewrite H. reflexivity. Qed.

  Lemma rf_loop tl0 : forall cs got pre post h fuel,
    wf_chunks cs -> src_at s0 h = mkSrc cs tl0 ->
    go_len (pre ++ post) = sl_len t ->
    got = negb (length pre =? 0)%nat ->
    (length post + 1 < fuel)%nat ->
    let '((r, e), rest) := read_full_aux (len post) got cs tl0 in
    exists h',
      m_loop fuel (m_read_full_body t) (go_len pre, None, src_reader s0 h) (sl_put w0 t (pre ++ post))
      = Ok (inl (go_len pre + Z.of_nat (length r),
                 match e with None => None | Some _ => Some (tail_err tl0) end, src_reader s0 h'),
            sl_put w0 t (pre ++ zb r ++ skipn (length r) post))
      /\ src_at s0 h' = mkSrc rest tl0
      /\ (length r <= length post)%nat
      /\ match e with
         | None => length r = length post
         | Some e' => (length r < length post)%nat /\
                      e' = match tl0 with
                           | TFail => EFail
                           | TEOF => if (0 <? length pre + length r)%nat then EUnexpected else EEOF
                           end
         end
      /\ wf_chunks rest.
  Proof.
    induction cs as [|c cs IH]; intros got pre post h fuel Hwf Hsrc Hlen Hgot Hfuel;
      (destruct fuel as [|fuel]; [lia|]).
    - (* no chunk left *)
      destruct post as [|z post'].
      + cbn [read_full_aux len length N.of_nat N.eqb]. exists h. cbn [m_loop].
        rewrite body_break by (unfold go_len in *; rewrite app_length in Hlen; cbn [length] in Hlen; lia).
        cbn [length zb map app skipn]. rewrite Z.add_0_r. repeat split; try reflexivity; try assumption.
      + unfold read_full_aux. replace (len (z :: post') =? 0)%N with false by (unfold len; cbn [length]; lia).
        exists (h ++ [go_len (z :: post')]). cbn [m_loop]. unfold m_read_full_body at 1.
        replace ((go_len pre <? sl_len t) && true) with true
          by (unfold go_len in *; rewrite app_length in Hlen; cbn [length] in Hlen; lia).
        assert (Hf : src_fun s0 h (go_len (z :: post')) = ([], 0, Some (tail_err tl0))).
        { unfold src_fun. rewrite Hsrc. unfold read1. cbn [chunks tl]. destruct tl0; reflexivity. }
        rewrite (rf_read pre (z :: post') h [] 0 (Some (tail_err tl0)) _ Hlen Hf ltac:(cbn [length]; lia)).
        cbn [app skipn length]. cbv [ret].
        destruct fuel as [|fuel]; [cbn [length] in Hfuel; lia|]. cbn [m_loop].
        rewrite body_break by (rewrite andb_false_r; reflexivity).
        rewrite !Z.add_0_r. cbn [zb map app].
        split; [reflexivity|]. split.
        { rewrite src_at_snoc, Hsrc. unfold read1. cbn [chunks snd]. reflexivity. }
        split; [cbn [length]; lia|]. split; [|constructor]. split; [cbn [length]; lia|].
        rewrite Nat.add_0_r. subst got. destruct tl0; [|reflexivity].
        destruct (length pre); reflexivity.
    - (* a chunk c *)
      inversion Hwf as [|? ? Hc Hwf']; subst.
      destruct post as [|z post'].
      + cbn [read_full_aux len length N.of_nat N.eqb]. exists h. cbn [m_loop].
        rewrite body_break by (unfold go_len in *; rewrite app_length in Hlen; cbn [length] in Hlen; lia).
        cbn [length zb map app skipn]. rewrite Z.add_0_r. repeat split; try reflexivity; try assumption.
      + set (post := z :: post') in *.
        assert (Hpl : (0 < length post)%nat) by (subst post; cbn [length]; lia).
        assert (Hcl : (0 < length c)%nat) by (destruct c; [contradiction|cbn [length]; lia]).
        cbn [read_full_aux]. replace (len post =? 0)%N with false by (unfold len; lia).
        cbn [m_loop]. unfold m_read_full_body at 1.
        replace ((go_len pre <? sl_len t) && true) with true
          by (unfold go_len in *; rewrite app_length in Hlen; lia).
        destruct (len post <=? len c)%N eqn:Ele; unfold byte in *.
        * (* the chunk satisfies the request *)
          assert (Hf : src_fun s0 h (go_len post) = (zb (take (len post) c), Z.of_nat (length (take (len post) c)), None)).
          { unfold src_fun. rewrite Hsrc. unfold read1. cbn [chunks tl]. unfold go_len. rewrite to_N_of_nat. fold (len post).
            unfold byte in *.
            destruct (len post <? len c)%N eqn:Elt; [reflexivity|].
            replace (take (len post) c) with c; [reflexivity|].
            unfold take. symmetry. apply firstn_all2. unfold len in *. lia. }
          assert (Htl : length (take (len post) c) = length post).
          { unfold take. rewrite firstn_length. unfold len in *. lia. }
          rewrite (rf_read pre post h _ _ None _ Hlen Hf ltac:(rewrite zb_length; unfold byte in *; lia)). cbv [ret].
          exists (h ++ [go_len post]). rewrite Htl. rewrite zb_length, Htl.
          destruct fuel as [|fuel]; [lia|]. cbn [m_loop].
          rewrite body_break by (unfold go_len in *; rewrite app_length in Hlen; lia).
          split; [reflexivity|]. split.
          { rewrite src_at_snoc, Hsrc. unfold read1. cbn [chunks tl snd]. unfold go_len. rewrite to_N_of_nat. fold (len post).
            unfold byte in *.
            destruct (len post <? len c)%N eqn:Elt.
            - replace (len post =? len c)%N with false by lia. reflexivity.
            - replace (len post =? len c)%N with true by lia. reflexivity. }
          split; [lia|]. split; [reflexivity|].
          destruct (len post =? len c)%N eqn:Eq; [exact Hwf'|].
          constructor; [|exact Hwf'].
          unfold drop. intros Hnil. apply (f_equal (@length N)) in Hnil. rewrite skipn_length in Hnil.
          cbn [length] in Hnil. unfold len in *. lia.
        * (* the whole chunk is taken and the loop goes on *)
          assert (Hf : src_fun s0 h (go_len post) = (zb c, Z.of_nat (length c), None)).
          { unfold src_fun. rewrite Hsrc. unfold read1. cbn [chunks tl]. unfold go_len. rewrite to_N_of_nat. fold (len post).
            unfold byte in *.
            replace (len post <? len c)%N with false by lia. reflexivity. }
          assert (Hcp : (length c < length post)%nat) by (unfold len in *; lia).
          rewrite (rf_read pre post h _ _ None _ Hlen Hf ltac:(rewrite zb_length; unfold byte in *; lia)). cbv [ret].
          rewrite zb_length.
          specialize (IH true (pre ++ zb c) (skipn (length c) post) (h ++ [go_len post]) fuel Hwf').
          assert (Hsrc' : src_at s0 (h ++ [go_len post]) = mkSrc cs tl0).
          { rewrite src_at_snoc, Hsrc. unfold read1. cbn [chunks tl snd]. unfold go_len. rewrite to_N_of_nat. fold (len post).
            unfold byte in *.
            replace (len post <? len c)%N with false by lia. reflexivity. }
          specialize (IH Hsrc').
          assert (Hlen' : go_len ((pre ++ zb c) ++ skipn (length c) post) = sl_len t).
          { unfold go_len in *. rewrite !app_length, zb_length, skipn_length in *. lia. }
          specialize (IH Hlen').
          assert (Hgot' : true = negb (length (pre ++ zb c) =? 0)%nat).
          { rewrite app_length, zb_length. destruct (length pre + length c)%nat eqn:E; [lia|reflexivity]. }
          specialize (IH Hgot' ltac:(rewrite skipn_length; lia)).
          replace (len (skipn (length c) post)) with (len post - len c)%N in IH
            by (unfold len; rewrite skipn_length; lia).
          replace (len c =? 0)%N with false by (unfold len; lia). cbn [negb]. rewrite orb_true_r.
          destruct (read_full_aux (len post - len c) true cs tl0) as [[r' e'] rest].
          destruct IH as (h' & HL & Hs' & Hr' & He' & Hwfr).
          exists h'. rewrite skipn_length in Hr', He'.
          replace (go_len pre + Z.of_nat (length c)) with (go_len (pre ++ zb c))
            by (unfold go_len; rewrite app_length, zb_length; lia).
          rewrite <- app_assoc in HL. rewrite HL.
          split.
          { f_equal. f_equal.
            - f_equal. f_equal. unfold go_len. unfold byte in *. rewrite !app_length, zb_length. f_equal. lia.
            - f_equal. rewrite <- !app_assoc, zb_app, <- app_assoc. do 3 f_equal.
              rewrite skipn_skipn_add, app_length. reflexivity. }
          split; [exact Hs'|]. rewrite app_length. split; [lia|]. split; [|exact Hwfr].
          destruct e' as [e'|].
          -- destruct He' as [He1 He2]. split; [unfold byte in *; lia|]. rewrite He2. destruct tl0; [|reflexivity].
             repeat match goal with |- context [(0 <? ?x)%nat] =>
               replace (0 <? x)%nat with true by (rewrite ?app_length, ?zb_length; unfold byte in *; lia) end.
             reflexivity.
          -- unfold byte in *; lia.
  Qed.
End ReadFull.

(* io.ReadFull over a reader that serves the chunked stream s: the model's read_full.  cur = the current
   contents of the buffer t; afterwards it holds the bytes read followed by the old rest. *)
Theorem m_io_read_full_ok s0 w0 t h cur :
  sl_valid w0 t -> wf_src (src_at s0 h) -> go_len cur = sl_len t ->
  let '((r, e), s') := read_full (len cur) (src_at s0 h) in
  exists h',
    m_io_read_full E_io_EOF E_io_ErrUnexpectedEOF g3_is_eof (src_reader s0 h) t (sl_put w0 t cur) =
    Ok ((Z.of_nat (length r), option_map rerr_go e, src_reader s0 h'),
        sl_put w0 t (zb r ++ skipn (length r) cur))
    /\ src_at s0 h' = s' /\ wf_src s' /\ (length r <= length cur)%nat /\ (e = None -> length r = length cur).
Proof.
  intros Hv Hwf Hlen. unfold read_full.
  destruct (src_at s0 h) as [cs tl0] eqn:Hsrc. cbn [chunks tl].
  pose proof (rf_loop s0 w0 t Hv tl0 cs false [] cur h (Z.to_nat (sl_len t) + 2)%nat Hwf Hsrc Hlen eq_refl
                ltac:(unfold go_len in Hlen; lia)) as HL.
  destruct (read_full_aux (len cur) false cs tl0) as [[r e] rest].
  destruct HL as (h' & HL & Hs' & Hr & He & Hwf').
  exists h'. unfold m_io_read_full. cbn [app] in HL. change (go_len []) with 0 in HL.
  rewrite (mbind_ok _ _ _ _ _ HL). cbv [ret]. cbn [Nat.add length] in He.
  split; [|split; [exact Hs'|split; [exact Hwf'|split; [exact Hr|]]]].
  - f_equal. f_equal. f_equal. f_equal. unfold go_len in Hlen.
    destruct e as [e|].
    + destruct He as [He1 He2]. replace (sl_len t <=? 0 + Z.of_nat (length r)) with false by lia.
      subst e. destruct tl0; cbn [tail_err g3_is_eof option_map rerr_go andb].
      * destruct (0 <? length r)%nat eqn:E0.
        -- replace (0 <? 0 + Z.of_nat (length r)) with true by lia. reflexivity.
        -- replace (0 <? 0 + Z.of_nat (length r)) with false by lia. reflexivity.
      * rewrite andb_false_r. reflexivity.
    + replace (sl_len t <=? 0 + Z.of_nat (length r)) with true by lia. reflexivity.
  - intros ->. exact He.
Qed.
