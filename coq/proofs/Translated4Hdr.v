(* Tie C4: read.go ReadHeader translated from the source (gen/Translated3.v) against model/Frame.v read_header.
   io.ReadFull is the library function GoMem.m_io_read_full (io.ReadAtLeast's loop over the stateful reader
   oracle); part 1 proves that over a reader that serves a chunked stream (lib/Stream.v src, non-empty chunks)
   it is the model's read_full; part 2 proves ReadHeader. *)
From Coq Require Import NArith ZArith List Bool Lia ZifyBool ZifyN ZifyNat.
Require Import Bytes GoSlices GoMem GoMemProofs Translated3 Translated3Ok Translated3Hdr.
Require Import Stream Check Frame BytesProofs StreamProofs.
Import ListNotations.
Open Scope Z_scope.

(* ------------------------------------------------------------------ a reader serving a chunked stream *)
Definition rerr_go (e : rerr) : g_error :=
  match e with EEOF => E_io_EOF | EUnexpected => E_io_ErrUnexpectedEOF | EFail => E_foreign 0 end.
(* the stream after the calls in h (the len(p) of each) *)
Definition src_at (s0 : src) (h : list Z) : src := fold_left (fun s k => snd (read1 (Z.to_N k) s)) h s0.
Definition src_fun (s0 : src) (h : list Z) (k : Z) : list Z * Z * option g_error :=
  let '((b, e), _) := read1 (Z.to_N k) (src_at s0 h) in (zb b, Z.of_nat (length b), option_map rerr_go e).
Definition src_reader (s0 : src) (h : list Z) : g_reader g_error := mk_reader h (src_fun s0).

Lemma src_at_snoc s0 h k : src_at s0 (h ++ [k]) = snd (read1 (Z.to_N k) (src_at s0 h)).
Proof. unfold src_at. now rewrite fold_left_app. Qed.

Lemma to_N_of_nat n : Z.to_N (Z.of_nat n) = N.of_nat n.
Proof. lia. Qed.

Lemma list_blit_nil l i : list_blit l i [] = l.
Proof. unfold list_blit. cbn [app length]. rewrite Nat.add_0_r. apply firstn_skipn. Qed.

Lemma list_blit_split pre post d : (length d <= length post)%nat ->
  list_blit (pre ++ post) (length pre) d = pre ++ d ++ skipn (length d) post.
Proof.
  intros H. rewrite <- (firstn_skipn (length d) post) at 1.
  apply list_blit_app. rewrite firstn_length. lia.
Qed.

Section ReadFull.
  Variables (s0 : src) (w0 : world) (t : slice).
  Hypothesis Hv : sl_valid w0 t.

  (* one Read into t[n:] *)
  Lemma rf_read {B} pre post h d nn e (K : Z * option g_error * g_reader g_error -> M B) :
    go_len (pre ++ post) = sl_len t ->
    src_fun s0 h (go_len post) = (d, nn, e) -> (length d <= length post)%nat ->
    mbind (m_slice t (go_len pre) (sl_len t)) (fun sub => mbind (m_io_read (src_reader s0 h) sub) K)
      (sl_put w0 t (pre ++ post)) =
    K (nn, e, src_reader s0 (h ++ [go_len post])) (sl_put w0 t (pre ++ d ++ skipn (length d) post)).
  Proof.
    intros Hlen Hf Hd. pose proof Hv as (Hv1 & Hv2 & Hv3 & Hv4).
    unfold go_len in *. rewrite app_length in Hlen.
    rewrite (mbind_ok _ _ _ _ _ (m_slice_ok _ t (Z.of_nat (length pre)) (sl_len t) ltac:(lia) ltac:(lia))).
    unfold mbind at 1. unfold m_io_read. cbn [sl_len rd_fun rd_hist src_reader].
    replace (sl_len t - Z.of_nat (length pre)) with (Z.of_nat (length post)) by lia.
    rewrite Hf. unfold go_len.
    replace (Z.of_nat (length d) <=? Z.of_nat (length post)) with true by lia.
    rewrite (put_blit_sub w0 t (pre ++ post) Hv ltac:(unfold go_len; rewrite app_length; lia) _ (Z.of_nat (length pre)) 0 d);
      try reflexivity; try (unfold go_len; lia).
    replace (Z.to_nat (Z.of_nat (length pre) + 0)) with (length pre) by lia.
    rewrite list_blit_split by exact Hd. reflexivity.
  Qed.

  Definition tail_err (tl0 : tail) : g_error := match tl0 with TEOF => E_io_EOF | TFail => E_foreign 0 end.

  Lemma body_break n (e : option g_error) rd w : (n <? sl_len t) && (match e with None => true | Some _ => false end) = false ->
    m_read_full_body t (n, e, rd) w = Ok (Break (n, e, rd), w).
  Proof. intros H. unfold m_read_full_body. rewrite H. reflexivity. Qed.

  Lemma rf_loop tl0 : forall cs got pre post h fuel,
    wf_chunks cs -> src_at s0 h = mkSrc cs tl0 ->
    go_len (pre ++ post) = sl_len t ->
    got = negb (length pre =? 0)%nat ->
    (length post + 1 < fuel)%nat ->
    let '((r, e), rest) := read_full_aux (len post) got cs tl0 in
    exists h',
      m_loop fuel (m_read_full_body t) (go_len pre, None, src_reader s0 h) (sl_put w0 t (pre ++ post))
      = Ok (inl (go_len pre + Z.of_nat (length r),
                 match e with None => None | Some _ => Some (tail_err tl0) end, src_reader s0 h'),
            sl_put w0 t (pre ++ zb r ++ skipn (length r) post))
      /\ src_at s0 h' = mkSrc rest tl0
      /\ (length r <= length post)%nat
      /\ match e with
         | None => length r = length post
         | Some e' => (length r < length post)%nat /\
                      e' = match tl0 with
                           | TFail => EFail
                           | TEOF => if (0 <? length pre + length r)%nat then EUnexpected else EEOF
                           end
         end
      /\ wf_chunks rest.
  Proof.
    induction cs as [|c cs IH]; intros got pre post h fuel Hwf Hsrc Hlen Hgot Hfuel;
      (destruct fuel as [|fuel]; [lia|]).
    - (* no chunk left *)
      destruct post as [|z post'].
      + cbn [read_full_aux len length N.of_nat N.eqb]. exists h. cbn [m_loop].
        rewrite body_break by (unfold go_len in *; rewrite app_length in Hlen; cbn [length] in Hlen; lia).
        cbn [length zb map app skipn]. rewrite Z.add_0_r. repeat split; try reflexivity; try assumption.
      + unfold read_full_aux. replace (len (z :: post') =? 0)%N with false by (unfold len; cbn [length]; lia).
        exists (h ++ [go_len (z :: post')]). cbn [m_loop]. unfold m_read_full_body at 1.
        replace ((go_len pre <? sl_len t) && true) with true
          by (unfold go_len in *; rewrite app_length in Hlen; cbn [length] in Hlen; lia).
        assert (Hf : src_fun s0 h (go_len (z :: post')) = ([], 0, Some (tail_err tl0))).
        { unfold src_fun. rewrite Hsrc. unfold read1. cbn [chunks tl]. destruct tl0; reflexivity. }
        rewrite (rf_read pre (z :: post') h [] 0 (Some (tail_err tl0)) _ Hlen Hf ltac:(cbn [length]; lia)).
        cbn [app skipn length]. cbv [ret].
        destruct fuel as [|fuel]; [cbn [length] in Hfuel; lia|]. cbn [m_loop].
        rewrite body_break by (rewrite andb_false_r; reflexivity).
        rewrite !Z.add_0_r. cbn [zb map app].
        split; [reflexivity|]. split.
        { rewrite src_at_snoc, Hsrc. unfold read1. cbn [chunks snd]. reflexivity. }
        split; [cbn [length]; lia|]. split; [|constructor]. split; [cbn [length]; lia|].
        rewrite Nat.add_0_r. subst got. destruct tl0; [|reflexivity].
        destruct (length pre); reflexivity.
    - (* a chunk c *)
      inversion Hwf as [|? ? Hc Hwf']; subst.
      destruct post as [|z post'].
      + cbn [read_full_aux len length N.of_nat N.eqb]. exists h. cbn [m_loop].
        rewrite body_break by (unfold go_len in *; rewrite app_length in Hlen; cbn [length] in Hlen; lia).
        cbn [length zb map app skipn]. rewrite Z.add_0_r. repeat split; try reflexivity; try assumption.
      + set (post := z :: post') in *.
        assert (Hpl : (0 < length post)%nat) by (subst post; cbn [length]; lia).
        assert (Hcl : (0 < length c)%nat) by (destruct c; [contradiction|cbn [length]; lia]).
        cbn [read_full_aux]. replace (len post =? 0)%N with false by (unfold len; lia).
        cbn [m_loop]. unfold m_read_full_body at 1.
        replace ((go_len pre <? sl_len t) && true) with true
          by (unfold go_len in *; rewrite app_length in Hlen; lia).
        destruct (len post <=? len c)%N eqn:Ele; unfold byte in *.
        * (* the chunk satisfies the request *)
          assert (Hf : src_fun s0 h (go_len post) = (zb (take (len post) c), Z.of_nat (length (take (len post) c)), None)).
          { unfold src_fun. rewrite Hsrc. unfold read1. cbn [chunks tl]. unfold go_len. rewrite to_N_of_nat. fold (len post).
            unfold byte in *.
            destruct (len post <? len c)%N eqn:Elt; [reflexivity|].
            replace (take (len post) c) with c; [reflexivity|].
            unfold take. symmetry. apply firstn_all2. unfold len in *. lia. }
          assert (Htl : length (take (len post) c) = length post).
          { unfold take. rewrite firstn_length. unfold len in *. lia. }
          rewrite (rf_read pre post h _ _ None _ Hlen Hf ltac:(rewrite zb_length; unfold byte in *; lia)). cbv [ret].
          exists (h ++ [go_len post]). rewrite Htl. rewrite zb_length, Htl.
          destruct fuel as [|fuel]; [lia|]. cbn [m_loop].
          rewrite body_break by (unfold go_len in *; rewrite app_length in Hlen; lia).
          split; [reflexivity|]. split.
          { rewrite src_at_snoc, Hsrc. unfold read1. cbn [chunks tl snd]. unfold go_len. rewrite to_N_of_nat. fold (len post).
            unfold byte in *.
            destruct (len post <? len c)%N eqn:Elt.
            - replace (len post =? len c)%N with false by lia. reflexivity.
            - replace (len post =? len c)%N with true by lia. reflexivity. }
          split; [lia|]. split; [reflexivity|].
          destruct (len post =? len c)%N eqn:Eq; [exact Hwf'|].
          constructor; [|exact Hwf'].
          unfold drop. intros Hnil. apply (f_equal (@length N)) in Hnil. rewrite skipn_length in Hnil.
          cbn [length] in Hnil. unfold len in *. lia.
        * (* the whole chunk is taken and the loop goes on *)
          assert (Hf : src_fun s0 h (go_len post) = (zb c, Z.of_nat (length c), None)).
          { unfold src_fun. rewrite Hsrc. unfold read1. cbn [chunks tl]. unfold go_len. rewrite to_N_of_nat. fold (len post).
            unfold byte in *.
            replace (len post <? len c)%N with false by lia. reflexivity. }
          assert (Hcp : (length c < length post)%nat) by (unfold len in *; lia).
          rewrite (rf_read pre post h _ _ None _ Hlen Hf ltac:(rewrite zb_length; unfold byte in *; lia)). cbv [ret].
          rewrite zb_length.
          specialize (IH true (pre ++ zb c) (skipn (length c) post) (h ++ [go_len post]) fuel Hwf').
          assert (Hsrc' : src_at s0 (h ++ [go_len post]) = mkSrc cs tl0).
          { rewrite src_at_snoc, Hsrc. unfold read1. cbn [chunks tl snd]. unfold go_len. rewrite to_N_of_nat. fold (len post).
            unfold byte in *.
            replace (len post <? len c)%N with false by lia. reflexivity. }
          specialize (IH Hsrc').
          assert (Hlen' : go_len ((pre ++ zb c) ++ skipn (length c) post) = sl_len t).
          { unfold go_len in *. rewrite !app_length, zb_length, skipn_length in *. lia. }
          specialize (IH Hlen').
          assert (Hgot' : true = negb (length (pre ++ zb c) =? 0)%nat).
          { rewrite app_length, zb_length. destruct (length pre + length c)%nat eqn:E; [lia|reflexivity]. }
          specialize (IH Hgot' ltac:(rewrite skipn_length; lia)).
          replace (len (skipn (length c) post)) with (len post - len c)%N in IH
            by (unfold len; rewrite skipn_length; lia).
          replace (len c =? 0)%N with false by (unfold len; lia). cbn [negb]. rewrite orb_true_r.
          destruct (read_full_aux (len post - len c) true cs tl0) as [[r' e'] rest].
          destruct IH as (h' & HL & Hs' & Hr' & He' & Hwfr).
          exists h'. rewrite skipn_length in Hr', He'.
          replace (go_len pre + Z.of_nat (length c)) with (go_len (pre ++ zb c))
            by (unfold go_len; rewrite app_length, zb_length; lia).
          rewrite <- app_assoc in HL. rewrite HL.
          split.
          { f_equal. f_equal.
            - f_equal. f_equal. unfold go_len. unfold byte in *. rewrite !app_length, zb_length. f_equal. lia.
            - f_equal. rewrite <- !app_assoc, zb_app, <- app_assoc. do 3 f_equal.
              rewrite skipn_skipn_add, app_length. reflexivity. }
          split; [exact Hs'|]. rewrite app_length. split; [lia|]. split; [|exact Hwfr].
          destruct e' as [e'|].
          -- destruct He' as [He1 He2]. split; [unfold byte in *; lia|]. rewrite He2. destruct tl0; [|reflexivity].
             repeat match goal with |- context [(0 <? ?x)%nat] =>
               replace (0 <? x)%nat with true by (rewrite ?app_length, ?zb_length; unfold byte in *; lia) end.
             reflexivity.
          -- unfold byte in *; lia.
  Qed.
End ReadFull.

(* io.ReadFull over a reader that serves the chunked stream s: the model's read_full.  cur = the current
   contents of the buffer t; afterwards it holds the bytes read followed by the old rest. *)
Theorem m_io_read_full_ok s0 w0 t h cur :
  sl_valid w0 t -> wf_src (src_at s0 h) -> go_len cur = sl_len t ->
  let '((r, e), s') := read_full (len cur) (src_at s0 h) in
  exists h',
    m_io_read_full E_io_EOF E_io_ErrUnexpectedEOF g3_is_eof (src_reader s0 h) t (sl_put w0 t cur) =
    Ok ((Z.of_nat (length r), option_map rerr_go e, src_reader s0 h'),
        sl_put w0 t (zb r ++ skipn (length r) cur))
    /\ src_at s0 h' = s' /\ wf_src s' /\ (length r <= length cur)%nat /\ (e = None -> length r = length cur).
Proof.
  intros Hv Hwf Hlen. unfold read_full.
  destruct (src_at s0 h) as [cs tl0] eqn:Hsrc. cbn [chunks tl].
  pose proof (rf_loop s0 w0 t Hv tl0 cs false [] cur h (Z.to_nat (sl_len t) + 2)%nat Hwf Hsrc Hlen eq_refl
                ltac:(unfold go_len in Hlen; lia)) as HL.
  destruct (read_full_aux (len cur) false cs tl0) as [[r e] rest].
  destruct HL as (h' & HL & Hs' & Hr & He & Hwf').
  exists h'. unfold m_io_read_full. cbn [app] in HL. change (go_len []) with 0 in HL.
  rewrite (mbind_ok _ _ _ _ _ HL). cbv [ret]. cbn [Nat.add length] in He.
  split; [|split; [exact Hs'|split; [exact Hwf'|split; [exact Hr|]]]].
  - f_equal. f_equal. f_equal. f_equal. unfold go_len in Hlen.
    destruct e as [e|].
    + destruct He as [He1 He2]. replace (sl_len t <=? 0 + Z.of_nat (length r)) with false by lia.
      subst e. destruct tl0; cbn [tail_err g3_is_eof option_map rerr_go andb].
      * destruct (0 <? length r)%nat eqn:E0.
        -- replace (0 <? 0 + Z.of_nat (length r)) with true by lia. reflexivity.
        -- replace (0 <? 0 + Z.of_nat (length r)) with false by lia. reflexivity.
      * rewrite andb_false_r. reflexivity.
    + replace (sl_len t <=? 0 + Z.of_nat (length r)) with true by lia. reflexivity.
  - intros ->. exact He.
Qed.

(* ------------------------------------------------------------------ ReadHeader *)
Definition herr_go (e : herr) : g_error :=
  match e with HIo e => rerr_go e | HMsb => E_ErrHeaderLengthMSB | HLenUnexpected => E_ErrHeaderLengthUnexpected end.

Lemma read_full_facts need s : wf_src s -> wf_bytes (flat s) ->
  let '((r, e), s') := read_full need s in
  e = None -> wf_bytes r /\ wf_bytes (flat s') /\ len r = need.
Proof.
  intros Hwf Hb. destruct (N.le_gt_cases need (len (flat s))) as [Hle|Hgt].
  - pose proof (read_full_ok need s Hwf Hle) as H. destruct (read_full need s) as [[r e] s'].
    destruct H as (_ & -> & -> & _ & _). intros _. split; [apply wf_bytes_take, Hb|]. split; [apply wf_bytes_drop, Hb|].
    rewrite len_take. lia.
  - pose proof (read_full_short need s Hwf ltac:(lia)) as H. destruct (read_full need s) as [[r e] s'].
    destruct H as (_ & _ & -> & _). discriminate.
Qed.

Lemma Z_land_of_N a b : Z.land (Z.of_N a) (Z.of_N b) = Z.of_N (N.land a b).
Proof. destruct a, b; reflexivity. Qed.
Lemma be_val_z_zb l : be_val_z (zb l) = Z.of_N (be_val l).
Proof.
  induction l as [|b r IH]; [reflexivity|]. cbn [zb map be_val_z be_val]. fold (zb r). rewrite IH, zb_length.
  unfold len. rewrite N2Z.inj_add, N2Z.inj_mul, N2Z.inj_pow. rewrite nat_N_Z. reflexivity.
Qed.
Lemma msb_clear_lt x : (x < 256)%N -> N.land x 128 = 0%N -> (x < 128)%N.
Proof.
  intros Hx.
  apply (byte_forall (fun x => negb (N.land x 128 =? 0)%N || (x <? 128)%N)) with (b := x) in Hx; [|vm_compute; reflexivity].
  intros H. rewrite H in Hx. cbn in Hx. lia.
Qed.

Lemma sl_put_last h out c s bs : sl_arr s = length h ->
  exists c', sl_put (mk_world (h ++ [c]) out) s bs = mk_world (h ++ [c']) out.
Proof.
  intros Ea. unfold sl_put, sl_blit. cbn [w_heap w_out]. rewrite Ea. unfold heap_set.
  rewrite firstn_app_exact. replace (S (length h)) with (length h + 1)%nat by lia.
  rewrite skipn_app_plus. cbn [skipn]. eexists. reflexivity.
Qed.

Section Steps2.
  Variables (w0 : world) (s : slice) (cur : list Z).
  Hypothesis Hv : sl_valid w0 s.
  Hypothesis Hlen : go_len cur = sl_len s.
  Lemma put_bytes_sub j l cap' : 0 <= j -> 0 <= l -> j + l <= sl_len s ->
    m_bytes (mk_slice (sl_arr s) (sl_off s + j) l cap') (sl_put w0 s cur) =
    Ok (firstn (Z.to_nat l) (skipn (Z.to_nat j) cur), sl_put w0 s cur).
  Proof.
    intros Hj Hl Hjl. unfold m_bytes.
    rewrite (sl_bytes_sub _ s _ j (put_valid w0 s cur Hv Hlen)); try reflexivity; try (cbn [sl_len]; lia).
    rewrite (put_bytes w0 s cur Hv Hlen). reflexivity.
  Qed.
  Lemma put_bytes_all : m_bytes s (sl_put w0 s cur) = Ok (cur, sl_put w0 s cur).
  Proof. unfold m_bytes. now rewrite (put_bytes w0 s cur Hv Hlen). Qed.
  Lemma put_get_uint_sub big k j l cap' : 0 <= j -> Z.of_nat k <= l -> j + l <= sl_len s ->
    m_get_uint big k (mk_slice (sl_arr s) (sl_off s + j) l cap') (sl_put w0 s cur) =
    Ok ((if big then be_val_z (firstn k (firstn (Z.to_nat l) (skipn (Z.to_nat j) cur)))
         else le_val_z (firstn k (firstn (Z.to_nat l) (skipn (Z.to_nat j) cur)))), sl_put w0 s cur).
  Proof.
    intros Hj Hl Hjl. rewrite m_get_uint_ok by (cbn [sl_len]; lia).
    rewrite (sl_bytes_sub _ s _ j (put_valid w0 s cur Hv Hlen)); try reflexivity; try (cbn [sl_len]; lia).
    rewrite (put_bytes w0 s cur Hv Hlen). reflexivity.
  Qed.
End Steps2.

(* Stepping the head of the computation.  A let is named (pose) or, for a variable, substituted — never a
   whole-term zeta: the translated body duplicates continuations and inlining every let is exponential. *)
Definition holds {A : Type} (P : A -> Prop) (x : A) : Prop := P x.
Lemma holds_bind {A B} (P : res (B * world) -> Prop) (m : M A) (K : A -> M B) w a w' :
  m w = Ok (a, w') -> holds P (K a w') -> holds P (mbind m K w).
Proof. intros H. unfold holds, mbind. now rewrite H. Qed.
Lemma holds_if_true {B} (P : res (B * world) -> Prop) (c : bool) (X Y : M B) w :
  c = true -> holds P (X w) -> holds P ((if c then X else Y) w).
Proof. now intros ->. Qed.
Lemma holds_if_false {B} (P : res (B * world) -> Prop) (c : bool) (X Y : M B) w :
  c = false -> holds P (Y w) -> holds P ((if c then X else Y) w).
Proof. now intros ->. Qed.
Ltac is_numeral z := lazymatch z with Z0 => idtac | Zpos _ => idtac | Zneg _ => idtac end.
Ltac hlet := lazymatch goal with
  | |- holds ?P ((let x := ?A in @?B x) ?w) =>
      first [ is_var A; change (holds P (B A w)); cbv beta
            | lazymatch A with mk_slice _ _ _ _ => idtac end; change (holds P (B A w)); cbv beta
            | lazymatch A with wrap_s _ _ => idtac end;
              let A' := eval vm_compute in A in is_numeral A'; change (holds P (B A' w)); cbv beta
            | let v := fresh "v" in pose (v := A); change (holds P (B v w)); cbv beta ]
  end.
Ltac hside := vm_compute; repeat split; first [reflexivity | discriminate].
Ltac hif := lazymatch goal with
  | |- holds ?P ((if ?c then _ else _) ?w) =>
      first [ apply holds_if_true; [first [assumption | reflexivity]|]
            | apply holds_if_false; [first [assumption | reflexivity]|] ]
  end.
Ltac hbind H := eapply holds_bind; [exact H|]; cbv beta.
Ltac hop W0 S CUR HV HLEN := lazymatch goal with
  | |- holds ?P (mbind (m_index ?t ?i) ?K ?w) =>
      hbind (put_index W0 S CUR HV HLEN i ltac:(hside))
  | |- holds ?P (mbind (m_slice ?t ?i ?j) ?K ?w) =>
      hbind (m_slice_ok w t i j ltac:(hside) ltac:(hside))
  | |- holds ?P (mbind (m_bytes (mk_slice _ (_ + ?j) ?l ?c)) ?K ?w) =>
      hbind (put_bytes_sub W0 S CUR HV HLEN j l c ltac:(hside) ltac:(hside) ltac:(hside))
  | |- holds ?P (mbind (m_get_uint ?big ?k (mk_slice _ (_ + ?j) ?l ?c)) ?K ?w) =>
      hbind (put_get_uint_sub W0 S CUR HV HLEN big k j l c ltac:(hside) ltac:(hside) ltac:(hside))
  | |- holds ?P (mbind (lift ?r) ?K ?w) =>
      let v := eval hnf in r in
      lazymatch v with Ok ?a => change (holds P (K a w)); cbv beta iota end
  | |- holds ?P ((let x := _ in _) _) => hlet
  | |- holds ?P ((if _ then _ else _) _) => hif
  end.

Definition RH_post (s0 : src) (w : world) (m : (herr + header) * src)
  (out : res (g3_Header * option g_error * g_reader g_error * world)) : Prop :=
  exists hd err hist' arr,
    out = Ok ((hd, err, src_reader s0 hist'), mk_world (w_heap w ++ [arr]) (w_out w))
    /\ src_at s0 hist' = snd m
    /\ match fst m with
       | inr hm => err = None /\ hd = hdr_z hm
       | inl e => err = Some (herr_go e)
       end.

(* the second hop: io.ReadFull into bts[:E] (same array as the first buffer) *)
Lemma hop2 s0 w1 t1 cur1 h1 E :
  sl_valid w1 t1 -> go_len cur1 = sl_len t1 -> 0 <= E <= sl_cap t1 ->
  wf_src (src_at s0 h1) -> wf_bytes (flat (src_at s0 h1)) ->
  let t2 := mk_slice (sl_arr t1) (sl_off t1 + 0) (E - 0) (sl_cap t1 - 0) in
  let '((x, e2), s2) := read_full (Z.to_N E) (src_at s0 h1) in
  exists h2 cur3,
    m_io_read_full E_io_EOF E_io_ErrUnexpectedEOF g3_is_eof (src_reader s0 h1) t2 (sl_put w1 t1 cur1) =
    Ok ((Z.of_nat (length x), option_map rerr_go e2, src_reader s0 h2), sl_put (sl_put w1 t1 cur1) t2 cur3)
    /\ src_at s0 h2 = s2 /\ sl_valid (sl_put w1 t1 cur1) t2 /\ go_len cur3 = sl_len t2
    /\ (e2 = None -> cur3 = zb x /\ length x = Z.to_nat E /\ wf_bytes x).
Proof.
  intros Hv1 Hc1 HE Hwf Hwb t2. set (w2 := sl_put w1 t1 cur1).
  assert (Hv2 : sl_valid w2 t2).
  { subst w2. apply sl_valid_put; [exact Hv1|lia|]. destruct Hv1 as (H1 & H2 & H3 & H4).
    unfold sl_valid, t2. cbn [sl_arr sl_off sl_len sl_cap]. repeat split; try lia; assumption. }
  set (cur2 := sl_bytes w2 t2).
  assert (Hc2 : go_len cur2 = sl_len t2) by (unfold go_len, cur2; rewrite sl_bytes_length by exact Hv2; cbn [t2 sl_len]; lia).
  pose proof (m_io_read_full_ok s0 w2 t2 h1 cur2 Hv2 Hwf Hc2) as HR.
  assert (Hlen2 : len cur2 = Z.to_N E) by (unfold len; unfold go_len in Hc2; cbn [t2 sl_len] in Hc2; lia).
  rewrite Hlen2 in HR. pose proof (read_full_facts (Z.to_N E) _ Hwf Hwb) as HF.
  destruct (read_full (Z.to_N E) (src_at s0 h1)) as [[x e2] s2].
  destruct HR as (h2 & HR & Hs2 & _ & Hxl & Hxe).
  exists h2, (zb x ++ skipn (length x) cur2).
  unfold cur2 in HR at 1. rewrite (sl_put_same w2 t2 Hv2) in HR. split; [exact HR|]. split; [exact Hs2|]. split; [exact Hv2|].
  split.
  { unfold go_len in *. rewrite app_length, zb_length, skipn_length. unfold byte in *. lia. }
  intros ->. specialize (Hxe eq_refl). specialize (HF eq_refl). destruct HF as (Hwx & _ & _).
  rewrite Hxe, skipn_all, app_nil_r. unfold go_len in Hc2. cbn [t2 sl_len] in Hc2. unfold byte in *.
  repeat split; [lia|exact Hwx].
Qed.

Lemma two_puts h out c t1 t2 c1 c2 : sl_arr t1 = length h -> sl_arr t2 = length h ->
  exists arr, sl_put (sl_put (mk_world (h ++ [c]) out) t1 c1) t2 c2 = mk_world (h ++ [arr]) out.
Proof.
  intros H1 H2. destruct (sl_put_last h out c t1 c1 H1) as (c' & ->). apply sl_put_last, H2.
Qed.

Lemma hdr_ext (a b : g3_Header) :
  g3_Header_Fin a = g3_Header_Fin b -> g3_Header_Rsv a = g3_Header_Rsv b -> g3_Header_OpCode a = g3_Header_OpCode b ->
  g3_Header_Masked a = g3_Header_Masked b -> g3_Header_Mask a = g3_Header_Mask b -> g3_Header_Length a = g3_Header_Length b ->
  a = b.
Proof. destruct a, b. cbn. intros; subst; reflexivity. Qed.

Lemma fld_fin b : negb (Z.land (Z.of_N b) 128 =? 0) = negb (N.land b 128 =? 0)%N.
Proof. change 128 with (Z.of_N 128). rewrite Z_land_of_N. f_equal. lia. Qed.
Lemma fld_rsv b : Z.shiftr (Z.land (Z.of_N b) 112) 4 = Z.of_N (N.shiftr (N.land b 112) 4).
Proof.
  change 112 with (Z.of_N 112). rewrite Z_land_of_N. rewrite Z.shiftr_div_pow2 by lia. rewrite N.shiftr_div_pow2.
  change (2 ^ 4) with (Z.of_N 16). change (2 ^ 4)%N with 16%N. now rewrite N2Z.inj_div.
Qed.
Lemma fld_op b : Z.land (Z.of_N b) 15 = Z.of_N (N.land b 15).
Proof. change 15 with (Z.of_N 15). apply Z_land_of_N. Qed.
Lemma fld_l7 b : Z.land (Z.of_N b) 127 = Z.of_N (N.land b 127).
Proof. change 127 with (Z.of_N 127). apply Z_land_of_N. Qed.
Lemma l7_bound b : (b < 256)%N -> (N.land b 127 <= 127)%N.
Proof.
  intros Hb. apply (byte_forall (fun x => (N.land x 127 <=? 127)%N)) with (b := b) in Hb; [lia|vm_compute; reflexivity].
Qed.

Lemma be64_small l : length l = 8%nat -> wf_bytes l -> N.land (nth 0 l 0%N) 128 = 0%N ->
  wrap_s 64 (be_val_z (zb l)) = Z.of_N (be_val l).
Proof.
  intros Hl Hw Hm. rewrite be_val_z_zb. apply wrap_s64_id.
  destruct l as [|x0 r]; [discriminate|]. cbn [nth] in Hm. inversion Hw as [|? ? Hx Hr]; subst.
  pose proof (msb_clear_lt x0 Hx Hm) as Hx0. pose proof (be_val_bound r Hr) as Hb.
  cbn [be_val]. cbn [length] in Hl. replace (len r) with 7%N in * by (unfold len; lia).
  change (256 ^ 7)%N with 72057594037927936%N in *. nia.
Qed.

Ltac fld := lazy beta iota zeta delta -[Z.land Z.of_N Z.shiftr Z.eqb wrap_s be_val_z N.land N.shiftr N.eqb be_val negb];
  rewrite ?fld_fin, ?fld_rsv, ?fld_op, ?fld_l7; try reflexivity.

Ltac explicit_list x H :=
  repeat (let y := fresh "x" in destruct x as [|y x]; cbn [length] in H; [try (exfalso; lia)|try (exfalso; lia)]).

Ltac leaf2 s0 w w1 t1 cur1 h2 cur3 Hs2 :=
  cbv [ret]; unfold holds, RH_post; cbn [fst snd];
  let arr := fresh "arr" in let Harr := fresh "Harr" in
  destruct (two_puts (w_heap w) (w_out w) (repeat 0 (Z.to_nat 12)) t1
              (mk_slice (sl_arr t1) (sl_off t1 + 0) (12 - 0) (sl_cap t1 - 0)) cur1 cur3 eq_refl eq_refl) as (arr & Harr);
  eexists _, _, h2, arr; split; [rewrite <- Harr; reflexivity|]; split; [exact Hs2|].

Ltac prefix Hmk HR1 G :=
  subst G; cbv delta [g3_ReadHeader]; cbv beta; hlet; hlet; hbind Hmk; hlet; hbind HR1; cbv beta iota; hlet; hlet.

Ltac wf_elems H := repeat (apply Forall_cons_iff in H; let Hx := fresh "Hwx" in destruct H as [Hx H]).

Ltac hdr_fields :=
  split; [reflexivity|]; apply hdr_ext; fld;
  try lazymatch goal with
  | |- be_val_z _ = Z.of_N (be_val ?l) => exact (be_val_z_zb l)
  | |- wrap_s 64 (be_val_z _) = Z.of_N (be_val ?l) =>
      apply (be64_small l); [reflexivity|repeat constructor; assumption|cbn [nth]; lia]
  end.

Ltac run2 s0 w w1 t1 cur1 Hv1 Hc1 Hmk HR1 G HR2 Hv2 Hc3 cur3 h2 Hs2 Eval :=
  prefix Hmk HR1 G; repeat (hop w1 t1 cur1 Hv1 Hc1); hbind HR2; cbv beta iota;
  repeat (hop (sl_put w1 t1 cur1) (mk_slice (sl_arr t1) (sl_off t1 + 0) (Eval - 0) (sl_cap t1 - 0)) cur3 Hv2 Hc3);
  leaf2 s0 w w1 t1 cur1 h2 cur3 Hs2.

Ltac second_hop s0 w w1 t1 cur1 h1 hist Hv1 Hc1 Hwf1 Hwb1 Hmk HR1 G Eval :=
  let H2 := fresh "H2" in
  pose proof (hop2 s0 w1 t1 cur1 h1 Eval Hv1 Hc1 ltac:(hside) Hwf1 Hwb1) as H2; cbv zeta in H2;
  let n := eval vm_compute in (Z.to_N Eval) in change (Z.to_N Eval) with n in H2;
  let x := fresh "x" in let e2 := fresh "e2" in let s2 := fresh "s2" in
  destruct (read_full n (src_at s0 h1)) as [[x e2] s2];
  let h2 := fresh "h2" in let cur3 := fresh "cur3" in let HR2 := fresh "HR2" in let Hs2 := fresh "Hs2" in
  let Hv2 := fresh "Hv2" in let Hc3 := fresh "Hc3" in let Hok2 := fresh "Hok2" in
  destruct H2 as (h2 & cur3 & HR2 & Hs2 & Hv2 & Hc3 & Hok2);
  destruct e2 as [e2|];
  [ (* the second hop fails *)
    run2 s0 w w1 t1 cur1 Hv1 Hc1 Hmk HR1 G HR2 Hv2 Hc3 cur3 h2 Hs2 Eval; reflexivity
  | let Hc := fresh "Hc" in let Hxl := fresh "Hxl" in let Hwx := fresh "Hwx" in
    destruct (Hok2 eq_refl) as (Hc & Hxl & Hwx); subst cur3;
    explicit_list x Hxl; wf_elems Hwx;
    cbn [nthb nth N.to_nat andb negb take drop firstn skipn Pos.to_nat Pos.iter_op Nat.add
         h_masked h_fin h_rsv h_op h_len h_mask fst snd];
    lazymatch type of Hc3 with go_len ?c3 = _ =>
    tryif (lazymatch goal with |- context [if negb (N.land ?y 128 =? 0)%N then _ else _] => idtac end) then (lazymatch goal with |- context [if negb (N.land ?y 128 =? 0)%N then _ else _] =>
              let HmsbZ := fresh "HmsbZ" in let Emsb := fresh "Emsb" in
              pose proof (fld_fin y) as HmsbZ; destruct (negb (N.land y 128 =? 0)%N) eqn:Emsb;
              [ run2 s0 w w1 t1 cur1 Hv1 Hc1 Hmk HR1 G HR2 Hv2 Hc3 c3 h2 Hs2 Eval; reflexivity
              | run2 s0 w w1 t1 cur1 Hv1 Hc1 Hmk HR1 G HR2 Hv2 Hc3 c3 h2 Hs2 Eval; hdr_fields ]
            end)
          else (run2 s0 w w1 t1 cur1 Hv1 Hc1 Hmk HR1 G HR2 Hv2 Hc3 c3 h2 Hs2 Eval; idtac "leafok"; hdr_fields)
    end ].

Theorem g3_ReadHeader_ok s0 hist w :
  wf_src (src_at s0 hist) -> wf_bytes (flat (src_at s0 hist)) ->
  RH_post s0 w (read_header (src_at s0 hist)) (g3_ReadHeader (src_reader s0 hist) w).
Proof.
  intros Hwf Hwb. unfold read_header.
  set (t1 := mk_slice (length (w_heap w)) 0 2 12).
  set (w1 := mk_world (w_heap w ++ [repeat 0 (Z.to_nat 12)]) (w_out w)).
  assert (Hv1 : sl_valid w1 t1).
  { subst w1 t1. unfold sl_valid, arr_of. cbn [w_heap sl_arr sl_off sl_len sl_cap]. rewrite app_length. cbn [length].
    rewrite nth_app_exact, repeat_length. lia. }
  assert (Hb1 : sl_bytes w1 t1 = [0; 0]).
  { subst w1 t1. unfold sl_bytes, arr_of. cbn [w_heap sl_arr sl_off sl_len]. rewrite nth_app_exact. reflexivity. }
  assert (Hmk : m_make_cap 2 12 w = Ok (t1, sl_put w1 t1 [0; 0])).
  { rewrite <- Hb1, sl_put_same by exact Hv1. reflexivity. }
  pose proof (m_io_read_full_ok s0 w1 t1 hist [0; 0] Hv1 Hwf eq_refl) as HR1.
  pose proof (read_full_facts 2 _ Hwf Hwb) as HF1.
  change (len [0; 0]) with 2%N in HR1.
  destruct (read_full 2 (src_at s0 hist)) as [[b e] s1].
  destruct HR1 as (h1 & HR1 & Hs1 & Hwf1 & Hbl & Hbe).
  match goal with |- RH_post ?a ?b ?c ?d => change (holds (RH_post a b c) d) end.
  destruct e as [e|].
  - (* the first hop fails *)
    cbv delta [g3_ReadHeader]. cbv beta. hlet. hlet. hbind Hmk. hlet. hbind HR1. cbv beta iota. hlet. hlet.
    hif. cbv [ret]. unfold holds, RH_post. cbn [fst snd].
    destruct (sl_put_last (w_heap w) (w_out w) (repeat 0 (Z.to_nat 12)) t1 (zb b ++ skipn (length b) [0; 0]) eq_refl) as (arr & Harr).
    fold w1 in Harr. rewrite Harr.
    eexists _, _, h1, arr. split; [reflexivity|]. split; [exact Hs1|reflexivity].
  - specialize (Hbe eq_refl). specialize (HF1 eq_refl). destruct HF1 as (Hwb_b & Hwb1 & _).
    destruct b as [|b0 [|b1 [|? ?]]]; try discriminate. clear Hbl Hbe.
    change (zb [b0; b1] ++ skipn (length [b0; b1]) [0; 0]) with [Z.of_N b0; Z.of_N b1] in HR1.
    pose (cur1 := [Z.of_N b0; Z.of_N b1]). change [Z.of_N b0; Z.of_N b1] with cur1 in HR1.
    assert (Hc1 : go_len cur1 = sl_len t1) by reflexivity.
    inversion Hwb_b as [|? ? Hb0 Hwb']; subst. inversion Hwb' as [|? ? Hb1' _]; subst. clear Hwb_b Hwb'.
    pose proof (l7_bound b1 Hb1') as Hl7.
    set (G := g3_ReadHeader (src_reader s0 hist) w).
    change (nthb [b0; b1] 0) with b0. change (nthb [b0; b1] 1) with b1.
    cbv beta iota zeta delta [parse_first2].
    pose proof (fld_l7 b1) as HlZ.
    assert (HmZ : negb (Z.land (Z.of_N b1) 128 =? 0) = negb (N.land b1 128 =? 0)%N) by apply fld_fin.
    assert (H1Z : (Z.land (Z.of_N b1) 127 <? 126) = (N.land b1 127 <? 126)%N) by (rewrite HlZ; lia).
    assert (H2Z : (Z.land (Z.of_N b1) 127 =? 126) = (N.land b1 127 =? 126)%N) by (rewrite HlZ; lia).
    assert (H3Z : (Z.land (Z.of_N b1) 127 =? 127) = (N.land b1 127 =? 127)%N) by (rewrite HlZ; lia).
    clear HlZ.
    destruct (negb (N.land b1 128 =? 0)%N) eqn:Em;
    (destruct (N.land b1 127 <? 126)%N eqn:E1;
     [ replace (N.land b1 127 =? 126)%N with false in * by lia; replace (N.land b1 127 =? 127)%N with false in * by lia
     | destruct (N.land b1 127 =? 126)%N eqn:E2;
       [ replace (N.land b1 127 =? 127)%N with false in * by lia
       | replace (N.land b1 127 =? 127)%N with true in * by lia ] ]);
    cbn [N.add N.eqb Pos.add Pos.eqb Pos.succ negb andb].
    (* masked: 4 mask bytes after 0 / 2 / 8 length bytes; not masked: nothing / 2 / 8 length bytes *)
    1: { second_hop s0 w w1 t1 cur1 h1 hist Hv1 Hc1 Hwf1 Hwb1 Hmk HR1 G 4. }
    1: { second_hop s0 w w1 t1 cur1 h1 hist Hv1 Hc1 Hwf1 Hwb1 Hmk HR1 G 6. }
    1: { second_hop s0 w w1 t1 cur1 h1 hist Hv1 Hc1 Hwf1 Hwb1 Hmk HR1 G 12. }
    2: { second_hop s0 w w1 t1 cur1 h1 hist Hv1 Hc1 Hwf1 Hwb1 Hmk HR1 G 2. }
    2: { second_hop s0 w w1 t1 cur1 h1 hist Hv1 Hc1 Hwf1 Hwb1 Hmk HR1 G 8. }
    prefix Hmk HR1 G. repeat (hop w1 t1 cur1 Hv1 Hc1).
    cbv [ret]. unfold holds, RH_post. cbn [fst snd].
    destruct (sl_put_last (w_heap w) (w_out w) (repeat 0 (Z.to_nat 12)) t1 cur1 eq_refl) as (arr & Harr).
    fold w1 in Harr.
    eexists _, _, h1, arr. split; [rewrite <- Harr; reflexivity|]. split; [reflexivity|]. hdr_fields.
Qed.
