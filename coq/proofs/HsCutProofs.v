(* HsCutProofs.v — C16, handshake clause: a handshake whose head did not arrive completely
   (stream ended or transport failed at any byte offset inside the head) is never reported
   as a success, by Upgrader.Upgrade and by Dialer.Upgrade, for every configuration, buffer
   size and chunking; for a handshake that succeeds uncut the cut one returns exactly the
   transport's error and writes nothing; once the head is complete nothing behind it (nor the
   way the stream ends) influences the outcome. *)
Require Import Bytes HsBase64 HsSha1 HsBufio HsBufioProofs HsHttpHead HsHttp HsUpgrader HsUpgraderProofs
        HsDialer HsDialerProofs HsCut.
From Coq Require Import ZifyBool ZifyN ZifyNat.
From Coq Require String.
Import String.StringSyntax.
Local Open Scope string_scope.
Local Open Scope list_scope.
Open Scope N_scope.

(* ================= 1. raw lines of a concatenation ================= *)
Lemma raw_lines_app_n : forall n p q, (length p <= n)%nat ->
  raw_lines (p ++ q)
  = (fst (raw_lines p) ++ fst (raw_lines (snd (raw_lines p) ++ q)),
     snd (raw_lines (snd (raw_lines p) ++ q))).
Proof.
  induction n as [|n IH]; intros p q Hn.
  - destruct p; [|cbn in Hn; lia]. cbn [raw_lines raw_lines_acc rev fst snd app].
    destruct (raw_lines_acc [] q); reflexivity.
  - destruct (split_nl p) as [[x y]|] eqn:E.
    + rewrite (raw_lines_some p x y E). cbn [fst snd].
      assert (E' : split_nl (p ++ q) = Some (x, y ++ q)) by (rewrite split_nl_app, E; reflexivity).
      rewrite (raw_lines_some _ _ _ E').
      pose proof (split_nl_concat _ _ _ E) as Hp. pose proof (split_nl_nonempty _ _ _ E) as Hx.
      assert (Hy : (length y <= n)%nat) by (subst p; rewrite app_length in Hn; lia).
      rewrite (IH y q Hy). cbn [fst snd app]. reflexivity.
    + rewrite (raw_lines_none p E). cbn [fst snd app].
      destruct (raw_lines (p ++ q)); reflexivity.
Qed.

Lemma raw_lines_app : forall p q,
  fst (raw_lines (p ++ q)) = fst (raw_lines p) ++ fst (raw_lines (snd (raw_lines p) ++ q)).
Proof. intros p q. rewrite (raw_lines_app_n (length p) p q (le_n _)). reflexivity. Qed.

(* ================= 2. head_complete / head_length ================= *)
Lemma blank_end_some : forall ls, existsb blank_line ls = true <-> exists n, blank_end ls = Some n.
Proof.
  induction ls as [|l ls IH]; cbn [existsb blank_end].
  - split; [discriminate|]. intros [n H]. discriminate.
  - destruct (blank_line l); cbn [orb].
    + split; [eauto|reflexivity].
    + rewrite IH. split; intros [n H].
      * rewrite H. eauto.
      * destruct (blank_end ls); [eauto|discriminate].
Qed.

Lemma head_complete_length : forall bs, head_complete bs = true <-> exists h, head_length bs = Some h.
Proof.
  intros bs. unfold head_complete, head_length. destruct (fst (raw_lines bs)) as [|l ls].
  - split; [discriminate|]. intros [h H]. discriminate.
  - rewrite blank_end_some. split; intros [n H].
    + rewrite H. eauto.
    + destruct (blank_end ls); [eauto|discriminate].
Qed.

Lemma blank_end_le : forall ls n, blank_end ls = Some n -> (n <= length (concat ls))%nat.
Proof.
  induction ls as [|l ls IH]; intros n; cbn [blank_end concat]; [discriminate|].
  rewrite app_length. destruct (blank_line l).
  - intros H. inversion H. lia.
  - destruct (blank_end ls) as [m|]; [|discriminate]. intros H. inversion H.
    specialize (IH m eq_refl). lia.
Qed.

Lemma blank_end_app : forall ls more n, blank_end ls = Some n -> blank_end (ls ++ more) = Some n.
Proof.
  induction ls as [|l ls IH]; intros more n; cbn [blank_end app]; [discriminate|].
  destruct (blank_line l); [tauto|].
  destruct (blank_end ls) as [m|]; [|discriminate]. intros H. rewrite (IH more m eq_refl). exact H.
Qed.

Lemma head_length_le : forall bs h, head_length bs = Some h -> (h <= length bs)%nat.
Proof.
  intros bs h. unfold head_length. destruct (raw_lines bs) as [ls rem] eqn:Hr. cbn [fst].
  pose proof (raw_lines_concat (length bs) bs ls rem (le_n _) Hr) as Hc.
  destruct ls as [|l ls]; [discriminate|].
  destruct (blank_end ls) as [n|] eqn:Hb; [|discriminate]. intros H. inversion H.
  pose proof (blank_end_le ls n Hb). rewrite Hc. cbn [concat]. rewrite !app_length. lia.
Qed.

Lemma head_length_app : forall p q h, head_length p = Some h -> head_length (p ++ q) = Some h.
Proof.
  intros p q h. unfold head_length. rewrite raw_lines_app.
  destruct (fst (raw_lines p)) as [|l ls]; [discriminate|]. cbn [app].
  destruct (blank_end ls) as [n|] eqn:Hb; [|discriminate].
  rewrite (blank_end_app ls _ n Hb). tauto.
Qed.

(* every cut strictly inside the head leaves an incomplete head *)
Theorem cut_inside_head_incomplete : forall bs h k,
  head_length bs = Some h -> (k < h)%nat -> head_complete (firstn k bs) = false.
Proof.
  intros bs h k Hh Hk. destruct (head_complete (firstn k bs)) eqn:E; [|reflexivity].
  apply head_complete_length in E. destruct E as [h' E].
  pose proof (head_length_le _ _ E) as Hle. rewrite firstn_length in Hle.
  pose proof (head_length_app _ (skipn k bs) _ E) as Ha. rewrite firstn_skipn in Ha.
  rewrite Hh in Ha. inversion Ha. lia.
Qed.

(* and a complete head stays complete whatever follows *)
Lemma head_complete_app : forall p q, head_complete p = true -> head_complete (p ++ q) = true.
Proof.
  intros p q H. apply head_complete_length in H. destruct H as [h H].
  apply head_complete_length. exists h. apply head_length_app. exact H.
Qed.

Lemma incomplete_prefix : forall p q, head_complete (p ++ q) = false -> head_complete p = false.
Proof.
  intros p q H. destruct (head_complete p) eqn:E; [|reflexivity].
  rewrite (head_complete_app p q E) in H. discriminate.
Qed.

(* ---- the plain reading of head_complete: an LF directly followed by LF or CR LF ---- *)
Lemma split_nl_shape : forall l x y, split_nl l = Some (x, y) ->
  exists x', x = x' ++ [10] /\ forallb (fun b => negb (b =? 10)) x' = true.
Proof.
  induction l as [|c l IH]; intros x y H; cbn [split_nl] in H; [discriminate|].
  destruct (c =? 10) eqn:E.
  - inversion H; subst. exists []. split; [|reflexivity]. cbn [app]. f_equal. lia.
  - destruct (split_nl l) as [[x1 y1]|] eqn:E1; [|discriminate]. inversion H; subst.
    destruct (IH x1 y eq_refl) as [x' [Hx Hn]]. exists (c :: x'). split.
    + cbn [app]. rewrite Hx. reflexivity.
    + cbn [forallb]. rewrite E, Hn. reflexivity.
Qed.

Lemma split_nl_none_nolf : forall l, split_nl l = None -> forallb (fun b => negb (b =? 10)) l = true.
Proof.
  induction l as [|c l IH]; cbn [split_nl forallb]; [reflexivity|].
  destruct (c =? 10); [discriminate|]. destruct (split_nl l) as [[x y]|]; [discriminate|].
  intros _. rewrite IH; reflexivity.
Qed.

Lemma has_lf_blank_nolf : forall p q, forallb (fun b => negb (b =? 10)) p = true ->
  has_lf_blank (p ++ 10 :: q) = starts_blank q || has_lf_blank q.
Proof.
  induction p as [|c p IH]; intros q H; cbn [app has_lf_blank forallb] in *.
  - rewrite N.eqb_refl. reflexivity.
  - apply andb_prop in H. destruct H as [H1 H2]. destruct (c =? 10); [discriminate|].
    cbn [andb orb]. apply IH. exact H2.
Qed.

Lemma has_lf_blank_nolf_end : forall p, forallb (fun b => negb (b =? 10)) p = true -> has_lf_blank p = false.
Proof.
  induction p as [|c p IH]; cbn [has_lf_blank forallb]; [reflexivity|].
  intros H. apply andb_prop in H. destruct H as [H1 H2]. destruct (c =? 10); [discriminate|].
  cbn [andb orb]. apply IH. exact H2.
Qed.

Lemma starts_blank_nolf_end : forall p, forallb (fun b => negb (b =? 10)) p = true -> starts_blank p = false.
Proof.
  intros [|c [|d p]]; cbn [starts_blank forallb]; [reflexivity| |].
  - intros H. destruct (c =? 10); [discriminate|]. cbn. destruct (c =? 13); reflexivity.
  - intros H. destruct (c =? 10); [discriminate|]. destruct (d =? 10); [discriminate|].
    cbn. destruct (c =? 13); reflexivity.
Qed.

Lemma cut_eol_snoc : forall x, cut_eol (x ++ [10]) =
  match rev x with 13 :: r => rev r | _ => x end.
Proof.
  intros x. unfold cut_eol. rewrite rev_app_distr. cbn [rev app].
  destruct (rev x) as [|c r] eqn:E.
  - apply (f_equal (@rev byte)) in E. rewrite rev_involutive in E. subst x. reflexivity.
  - assert (Hx : x = rev r ++ [c]).
    { apply (f_equal (@rev byte)) in E. rewrite rev_involutive in E. exact E. }
    destruct c as [|p]; [rewrite Hx; reflexivity|].
    repeat (destruct p as [p|p|]; try (rewrite Hx; reflexivity)).
Qed.

Lemma blank_line_starts : forall x q, forallb (fun b => negb (b =? 10)) x = true ->
  blank_line (x ++ [10]) = starts_blank (x ++ 10 :: q).
Proof.
  intros x q Hx. unfold blank_line. rewrite cut_eol_snoc.
  destruct x as [|c [|d x]].
  - reflexivity.
  - cbn [rev app starts_blank]. cbn [forallb] in Hx. destruct (c =? 10) eqn:E10; [discriminate|].
    rewrite N.eqb_refl, andb_true_r. cbn [orb].
    destruct (c =? 13) eqn:E13.
    + assert (c = 13) by lia. subst c. reflexivity.
    + destruct c as [|p]; [reflexivity|].
      repeat (destruct p as [p|p|]; try reflexivity). discriminate.
  - cbn [forallb] in Hx. destruct (c =? 10) eqn:E10; [discriminate|].
    destruct (d =? 10) eqn:Ed; [discriminate|]. cbn [app starts_blank]. rewrite E10, Ed.
    rewrite andb_false_r. cbn [orb].
    assert (Hne : forall (a : byte) l, rev (c :: d :: x) = a :: l -> rev l <> []).
    { intros a l H. apply (f_equal (@rev byte)) in H. rewrite rev_involutive in H. cbn [rev] in H.
      intros Hl. rewrite Hl in H. cbn in H. destruct x; discriminate. }
    destruct (rev (c :: d :: x)) as [|a l] eqn:Er.
    + reflexivity.
    + pose proof (Hne a l eq_refl) as Hl.
      destruct a as [|p]; [reflexivity|].
      repeat (destruct p as [p|p|]; try reflexivity).
      destruct (rev l) eqn:Erl; [contradiction|reflexivity].
Qed.

Lemma lines_blank_plain_n : forall n y, (length y <= n)%nat ->
  existsb blank_line (fst (raw_lines y)) = starts_blank y || has_lf_blank y.
Proof.
  induction n as [|n IH]; intros y Hn.
  - destruct y; [reflexivity|cbn in Hn; lia].
  - destruct (split_nl y) as [[x1 y1]|] eqn:E.
    + rewrite (raw_lines_some y x1 y1 E). cbn [fst existsb].
      pose proof (split_nl_concat _ _ _ E) as Hy. pose proof (split_nl_nonempty _ _ _ E) as Hx.
      destruct (split_nl_shape _ _ _ E) as [x' [Hx1 Hnl]]. subst x1.
      rewrite (IH y1) by (subst y; rewrite app_length in Hn; lia).
      subst y. rewrite <- app_assoc. cbn [app].
      rewrite (has_lf_blank_nolf x' y1 Hnl), (blank_line_starts x' y1 Hnl).
      destruct (starts_blank (x' ++ 10 :: y1)), (starts_blank y1), (has_lf_blank y1); reflexivity.
    + rewrite (raw_lines_none y E). cbn [fst existsb].
      pose proof (split_nl_none_nolf y E) as Hnl.
      rewrite (starts_blank_nolf_end y Hnl), (has_lf_blank_nolf_end y Hnl). reflexivity.
Qed.

Theorem head_complete_plain : forall bs, head_complete bs = has_lf_blank bs.
Proof.
  intros bs. unfold head_complete. destruct (split_nl bs) as [[x y]|] eqn:E.
  - rewrite (raw_lines_some bs x y E). cbn [fst].
    destruct (split_nl_shape _ _ _ E) as [x' [Hx Hnl]]. subst x.
    rewrite (split_nl_concat _ _ _ E), <- app_assoc. cbn [app].
    rewrite (has_lf_blank_nolf x' y Hnl). apply (lines_blank_plain_n (length y)). lia.
  - rewrite (raw_lines_none bs E). cbn [fst]. symmetry. apply has_lf_blank_nolf_end.
    apply split_nl_none_nolf. exact E.
Qed.

(* ================= 3. the line machine on a prefix of the lines ================= *)
Section MachineCut.
  Variables (S R : Type).
  Variable step : S -> list byte -> S + R.
  Variable on_blank : S -> R.
  Variable on_ioerr : S -> tail_kind -> list byte -> R.

  (* once a blank line is among the lines, nothing behind it (nor the tail) is looked at *)
  Lemma run_lines_head_only : forall ls more s rem t rem' t',
    existsb blank_line ls = true ->
    fst (run_lines S R step on_blank on_ioerr s (ls ++ more) rem t)
    = fst (run_lines S R step on_blank on_ioerr s ls rem' t').
  Proof.
    induction ls as [|l ls IH]; intros more s rem t rem' t' H; cbn [existsb] in H; [discriminate|].
    cbn [app run_lines]. unfold blank_line in H.
    destruct (cut_eol l) as [|c line]; [reflexivity|]. cbn [orb] in H.
    destruct (step s (c :: line)) as [s1|res]; [|reflexivity].
    apply IH. exact H.
  Qed.

  (* the lines before the blank line, alone: the loop ends in the I/O error unless a step stopped it *)
  Variable good : R -> Prop.
  Hypothesis step_stops_bad : forall s l res, step s l = inr res -> ~ good res.

  Lemma run_lines_cut_io : forall ls more s rem t rem' t',
    existsb blank_line ls = false ->
    good (fst (run_lines S R step on_blank on_ioerr s (ls ++ more) rem t)) ->
    exists s', fst (run_lines S R step on_blank on_ioerr s ls rem' t') = on_ioerr s' t' rem'.
  Proof.
    induction ls as [|l ls IH]; intros more s rem t rem' t' H G.
    - exists s. reflexivity.
    - cbn [existsb] in H. cbn [app run_lines] in *. unfold blank_line in H.
      destruct (cut_eol l) as [|c line]; [discriminate|]. cbn [orb] in H.
      destruct (step s (c :: line)) as [s1|res] eqn:Hst.
      + eapply IH; eassumption.
      + cbn [fst] in G. exfalso. exact (step_stops_bad _ _ _ Hst G).
  Qed.
End MachineCut.

(* ================= 4. Upgrader.Upgrade on a cut request ================= *)
Lemma take_headers_blank : forall ls hs rest, take_headers ls = Some (hs, rest) -> existsb blank_line ls = true.
Proof.
  induction ls as [|l ls IH]; intros hs rest; cbn [take_headers existsb]; [discriminate|].
  unfold blank_line. destruct (cut_eol l) as [|c line]; [reflexivity|]. cbn [orb].
  destruct (http_parse_header_line (c :: line)); [|discriminate].
  destruct (take_headers ls) as [[hs' rest']|]; [|discriminate]. intros _. eapply IH. reflexivity.
Qed.

Lemma parse_request_head_complete : forall bytes q rest,
  parse_request bytes = Some (q, rest) -> head_complete bytes = true.
Proof.
  intros bytes q rest. unfold parse_request, head_complete.
  destruct (raw_lines bytes) as [ls rem]. cbn [fst]. destruct ls as [|l ls']; [discriminate|].
  destruct (http_parse_request_line ascii_to_int (cut_eol l)); [|discriminate].
  destruct (take_headers ls') as [[hs rest']|] eqn:E; [|discriminate].
  intros _. eapply take_headers_blank. exact E.
Qed.

(* success is possible only once the full head has arrived *)
Theorem upgrader_success_needs_head : forall stext cfg B r, 1 <= B ->
  u_err (upgrader stext cfg B r) = None -> head_complete (flat r) = true.
Proof.
  intros stext cfg B r HB H. apply (upgrader_success_iff stext cfg B r HB) in H.
  destruct H as [q [rest [p [es [Hp _]]]]]. eapply parse_request_head_complete. exact Hp.
Qed.

(* the stream ends (EOF or transport error) before the head is complete: an error is
   returned -- never the model's out-of-fuel value -- and no 101 response is written *)
Theorem upgrader_cut : forall stext cfg B r, 1 <= B ->
  head_complete (flat r) = false ->
  (exists e, u_err (upgrader stext cfg B r) = Some e /\ e <> EFuel)
  /\ ((forall rj, from_callback cfg rj -> status_of rj <> 101) ->
      is_101 (u_out (upgrader stext cfg B r)) = false).
Proof.
  intros stext cfg B r HB Hc.
  destruct (u_err (upgrader stext cfg B r)) as [e|] eqn:E.
  - split.
    + exists e. split; [reflexivity|]. intros He. subst e.
      exact (upgrader_failure stext cfg B r EFuel HB E).
    + intros Hcb. exact (upgrader_never_101_on_failure stext cfg B r e HB Hcb E).
  - rewrite (upgrader_success_needs_head stext cfg B r HB E) in Hc. discriminate.
Qed.

(* every cut offset inside the head of a byte string that has a head *)
Theorem upgrader_cut_offsets : forall stext cfg B req h k r, 1 <= B ->
  head_length req = Some h -> (k < h)%nat -> flat r = firstn k req ->
  (exists e, u_err (upgrader stext cfg B r) = Some e /\ e <> EFuel)
  /\ ((forall rj, from_callback cfg rj -> status_of rj <> 101) ->
      is_101 (u_out (upgrader stext cfg B r)) = false).
Proof.
  intros stext cfg B req h k r HB Hh Hk Hf. apply upgrader_cut; [exact HB|].
  rewrite Hf. eapply cut_inside_head_incomplete; eassumption.
Qed.

Definition lres_good (x : lres) : Prop := snd x = None.
Lemma line_step_stops_bad : forall cfg s l res, line_step cfg s l = inr res -> ~ lres_good res.
Proof.
  intros cfg s l res. unfold line_step, lres_good.
  destruct (http_parse_header_line l) as [[k v]|].
  - destruct (hdr_step cfg s k v); intros H; inversion H; subst; cbn; discriminate.
  - intros H; inversion H; subst; cbn; discriminate.
Qed.

Lemma upgrader_tail_ok : forall stext cfg lr, u_err (upgrader_tail stext cfg lr) = None -> snd lr = None.
Proof.
  intros stext cfg [s [e|]]; [|reflexivity]. unfold upgrader_tail.
  destruct e; cbn; discriminate.
Qed.

(* a request that succeeds uncut, delivered only up to a point where its head is incomplete:
   exactly the transport's error (io.EOF or the failure) comes back and NOTHING is written *)
Theorem upgrader_cut_of_valid : forall stext cfg B0 r0 B r q, 1 <= B0 -> 1 <= B ->
  u_err (upgrader stext cfg B0 r0) = None ->
  flat r0 = flat r ++ q -> head_complete (flat r) = false ->
  u_err (upgrader stext cfg B r) = Some (EIO (r_tail r)) /\ u_out (upgrader stext cfg B r) = [].
Proof.
  intros stext cfg B0 r0 B r q HB0 HB Hok Hf Hc.
  rewrite (upgrader_flat stext cfg B0 r0 HB0) in Hok. rewrite (upgrader_flat stext cfg B r HB).
  rewrite Hf, raw_lines_app in Hok. unfold head_complete in Hc.
  destruct (raw_lines (flat r)) as [ls rem]. cbn [fst snd] in *.
  destruct ls as [|l ls]; [split; reflexivity|].
  cbn [app upgrader_lines] in *.
  destruct (http_parse_request_line ascii_to_int (cut_eol l)) as [rl|]; [|discriminate].
  destruct (request_line_check cfg rl); [discriminate|].
  apply upgrader_tail_ok in Hok.
  destruct (run_lines_cut_io ust lres (line_step cfg) on_blank on_ioerr lres_good
              (line_step_stops_bad cfg) ls _ init_ust _ _ rem (r_tail r) Hc Hok) as [s' Hs].
  rewrite Hs. split; reflexivity.
Qed.

Theorem upgrader_cut_of_valid_offsets : forall stext cfg B0 r0 B r k, 1 <= B0 -> 1 <= B ->
  u_err (upgrader stext cfg B0 r0) = None -> flat r = firstn k (flat r0) ->
  exists h, head_length (flat r0) = Some h /\
    ((k < h)%nat ->
     u_err (upgrader stext cfg B r) = Some (EIO (r_tail r)) /\ u_out (upgrader stext cfg B r) = []).
Proof.
  intros stext cfg B0 r0 B r k HB0 HB Hok Hf.
  pose proof (upgrader_success_needs_head stext cfg B0 r0 HB0 Hok) as Hhc.
  apply head_complete_length in Hhc. destruct Hhc as [h Hh]. exists h. split; [exact Hh|].
  intros Hk. apply (upgrader_cut_of_valid stext cfg B0 r0 B r (skipn k (flat r0)) HB0 HB Hok).
  - rewrite Hf, firstn_skipn. reflexivity.
  - rewrite Hf. eapply cut_inside_head_incomplete; eassumption.
Qed.

(* the exact boundary: once the head is complete the outcome is decided -- whatever follows
   and however the stream ends *)
Theorem upgrader_head_decides : forall stext cfg B1 B2 r1 r2 q, 1 <= B1 -> 1 <= B2 ->
  head_complete (flat r1) = true -> flat r2 = flat r1 ++ q ->
  upgrader stext cfg B1 r1 = upgrader stext cfg B2 r2.
Proof.
  intros stext cfg B1 B2 r1 r2 q HB1 HB2 Hc Hf.
  rewrite (upgrader_flat stext cfg B1 r1 HB1), (upgrader_flat stext cfg B2 r2 HB2).
  rewrite Hf, raw_lines_app. unfold head_complete in Hc.
  destruct (raw_lines (flat r1)) as [ls rem]. cbn [fst snd] in *.
  destruct ls as [|l ls]; [discriminate|]. cbn [app upgrader_lines].
  destruct (http_parse_request_line ascii_to_int (cut_eol l)) as [rl|]; [|reflexivity].
  destruct (request_line_check cfg rl); [reflexivity|].
  rewrite (run_lines_head_only ust lres (line_step cfg) on_blank on_ioerr ls _ init_ust _ _ rem (r_tail r1) Hc).
  reflexivity.
Qed.

(* ================= 5. Dialer.Upgrade on a cut response ================= *)
Lemma take_resp_headers_blank : forall ls hs rest,
  take_resp_headers ls = Some (hs, rest) -> existsb blank_line ls = true.
Proof.
  induction ls as [|l ls IH]; intros hs rest; cbn [take_resp_headers existsb]; [discriminate|].
  unfold blank_line. destruct (cut_eol l) as [|c line]; [reflexivity|]. cbn [orb].
  destruct (http_parse_header_line (c :: line)); [|discriminate].
  destruct (take_resp_headers ls) as [[hs' rest']|]; [|discriminate]. intros _. eapply IH. reflexivity.
Qed.

Lemma parse_response_head_complete : forall bytes p rest,
  parse_response bytes = Some (p, rest) -> head_complete bytes = true.
Proof.
  intros bytes p rest. unfold parse_response, head_complete.
  destruct (raw_lines bytes) as [ls rem]. cbn [fst]. destruct ls as [|l ls']; [discriminate|].
  destruct (http_parse_response_line ascii_to_int (cut_eol l)); [|discriminate].
  destruct (take_resp_headers ls') as [[hs rest']|] eqn:E; [|discriminate].
  intros _. eapply take_resp_headers_blank. exact E.
Qed.

Theorem dialer_success_needs_head : forall cfg url_host uri nonce B r, 1 <= B ->
  d_err (dialer_upgrade cfg url_host uri nonce B r) = None -> head_complete (flat r) = true.
Proof.
  intros cfg url_host uri nonce B r HB H. apply (dialer_success_iff cfg url_host uri nonce B r HB) in H.
  destruct H as [p [rest [es [Hp _]]]]. eapply parse_response_head_complete. exact Hp.
Qed.

Theorem dialer_cut : forall cfg url_host uri nonce B r, 1 <= B ->
  head_complete (flat r) = false ->
  exists e, d_err (dialer_upgrade cfg url_host uri nonce B r) = Some e /\ e <> DFuel.
Proof.
  intros cfg url_host uri nonce B r HB Hc.
  destruct (d_err (dialer_upgrade cfg url_host uri nonce B r)) as [e|] eqn:E.
  - exists e. split; [reflexivity|]. intros He. subst e.
    exact (dialer_no_fuel cfg url_host uri nonce B r HB E).
  - rewrite (dialer_success_needs_head cfg url_host uri nonce B r HB E) in Hc. discriminate.
Qed.

Theorem dialer_cut_offsets : forall cfg url_host uri nonce B resp h k r, 1 <= B ->
  head_length resp = Some h -> (k < h)%nat -> flat r = firstn k resp ->
  exists e, d_err (dialer_upgrade cfg url_host uri nonce B r) = Some e /\ e <> DFuel.
Proof.
  intros cfg url_host uri nonce B resp h k r HB Hh Hk Hf. apply dialer_cut; [exact HB|].
  rewrite Hf. eapply cut_inside_head_incomplete; eassumption.
Qed.

Definition dres_good (x : dres) : Prop := snd x = None.
Lemma dline_step_stops_bad : forall cfg nonce s l res, dline_step cfg nonce s l = inr res -> ~ dres_good res.
Proof.
  intros cfg nonce s l res. unfold dline_step, dres_good.
  destruct (http_parse_header_line l) as [[k v]|].
  - destruct (dhdr_step cfg nonce s k v); intros H; inversion H; subst; cbn; discriminate.
  - intros H; inversion H; subst; cbn; discriminate.
Qed.

(* the error of Dialer.Upgrade as a function of the flat view *)
Lemma dialer_err_flat : forall cfg url_host uri nonce B r, 1 <= B ->
  d_err (dialer_upgrade cfg url_host uri nonce B r)
  = snd (fst (dialer_upgrade_lines cfg nonce (fst (raw_lines (flat r))) (snd (raw_lines (flat r))) (r_tail r)))
  /\ d_hs (dialer_upgrade cfg url_host uri nonce B r)
  = fst (fst (dialer_upgrade_lines cfg nonce (fst (raw_lines (flat r))) (snd (raw_lines (flat r))) (r_tail r))).
Proof.
  intros cfg url_host uri nonce B r HB.
  pose proof (dialer_flat cfg url_host uri nonce B r HB) as F. cbn zeta in F.
  destruct (dialer_upgrade_lines cfg nonce (fst (raw_lines (flat r))) (snd (raw_lines (flat r))) (r_tail r))
    as [[hs e] unread].
  destruct F as [F1 [F2 _]]. cbn [fst snd]. auto.
Qed.

Lemma d_after_loop_ok : forall lr, snd (d_after_loop lr) = None -> snd lr = None.
Proof.
  intros [s [e|]]; cbn [d_after_loop snd]; [tauto|reflexivity].
Qed.

(* a response that is accepted uncut, delivered only up to a point where its head is
   incomplete: exactly the transport's error comes back *)
Theorem dialer_cut_of_valid : forall cfg url_host uri nonce B0 r0 B r q, 1 <= B0 -> 1 <= B ->
  d_err (dialer_upgrade cfg url_host uri nonce B0 r0) = None ->
  flat r0 = flat r ++ q -> head_complete (flat r) = false ->
  d_err (dialer_upgrade cfg url_host uri nonce B r) = Some (DIO (r_tail r)).
Proof.
  intros cfg url_host uri nonce B0 r0 B r q HB0 HB Hok Hf Hc.
  rewrite (proj1 (dialer_err_flat cfg url_host uri nonce B0 r0 HB0)) in Hok.
  rewrite (proj1 (dialer_err_flat cfg url_host uri nonce B r HB)).
  rewrite Hf, raw_lines_app in Hok. unfold head_complete in Hc.
  destruct (raw_lines (flat r)) as [ls rem]. cbn [fst snd] in *.
  destruct ls as [|l ls]; [reflexivity|].
  cbn [app dialer_upgrade_lines] in *.
  destruct (http_parse_response_line ascii_to_int (cut_eol l)) as [sl|]; [|discriminate].
  destruct (status_line_check sl); [discriminate|].
  match type of Hok with context[run_lines ?S ?R ?st ?ob ?oi ?s0 (ls ++ ?more) ?rem0 ?t0] =>
    assert (G : dres_good (fst (run_lines S R st ob oi s0 (ls ++ more) rem0 t0)));
    [ destruct (run_lines S R st ob oi s0 (ls ++ more) rem0 t0) as [lr0 un0]; cbn [fst];
      unfold dres_good; apply d_after_loop_ok; destruct (d_after_loop lr0) as [s e]; exact Hok |]
  end.
  destruct (run_lines_cut_io dst dres (dline_step cfg nonce) d_on_blank d_on_ioerr dres_good
              (dline_step_stops_bad cfg nonce) ls _ init_dst _ _ rem (r_tail r) Hc G) as [s' Hs].
  destruct (run_lines dst dres (dline_step cfg nonce) d_on_blank d_on_ioerr init_dst ls rem (r_tail r))
    as [lr un]. cbn [fst] in Hs. subst lr. reflexivity.
Qed.

Theorem dialer_cut_of_valid_offsets : forall cfg url_host uri nonce B0 r0 B r k, 1 <= B0 -> 1 <= B ->
  d_err (dialer_upgrade cfg url_host uri nonce B0 r0) = None -> flat r = firstn k (flat r0) ->
  exists h, head_length (flat r0) = Some h /\
    ((k < h)%nat -> d_err (dialer_upgrade cfg url_host uri nonce B r) = Some (DIO (r_tail r))).
Proof.
  intros cfg url_host uri nonce B0 r0 B r k HB0 HB Hok Hf.
  pose proof (dialer_success_needs_head cfg url_host uri nonce B0 r0 HB0 Hok) as Hhc.
  apply head_complete_length in Hhc. destruct Hhc as [h Hh]. exists h. split; [exact Hh|].
  intros Hk. apply (dialer_cut_of_valid cfg url_host uri nonce B0 r0 B r (skipn k (flat r0)) HB0 HB Hok).
  - rewrite Hf, firstn_skipn. reflexivity.
  - rewrite Hf. eapply cut_inside_head_incomplete; eassumption.
Qed.

(* the exact boundary for the client: a complete head decides error and handshake *)
Theorem dialer_head_decides : forall cfg url_host uri nonce B1 B2 r1 r2 q, 1 <= B1 -> 1 <= B2 ->
  head_complete (flat r1) = true -> flat r2 = flat r1 ++ q ->
  d_err (dialer_upgrade cfg url_host uri nonce B1 r1) = d_err (dialer_upgrade cfg url_host uri nonce B2 r2)
  /\ d_hs (dialer_upgrade cfg url_host uri nonce B1 r1) = d_hs (dialer_upgrade cfg url_host uri nonce B2 r2).
Proof.
  intros cfg url_host uri nonce B1 B2 r1 r2 q HB1 HB2 Hc Hf.
  destruct (dialer_err_flat cfg url_host uri nonce B1 r1 HB1) as [E1 H1].
  destruct (dialer_err_flat cfg url_host uri nonce B2 r2 HB2) as [E2 H2].
  rewrite E1, E2, H1, H2. clear E1 E2 H1 H2.
  rewrite Hf, raw_lines_app. unfold head_complete in Hc.
  destruct (raw_lines (flat r1)) as [ls rem]. cbn [fst snd] in *.
  destruct ls as [|l ls]; [discriminate|]. cbn [app dialer_upgrade_lines].
  destruct (http_parse_response_line ascii_to_int (cut_eol l)) as [sl|]; [|split; reflexivity].
  destruct (status_line_check sl); [split; reflexivity|].
  match goal with |- context[run_lines ?S ?R ?st ?ob ?oi ?s0 (ls ++ ?more) ?rem0 ?t0] =>
    pose proof (run_lines_head_only S R st ob oi ls more s0 rem0 t0 rem (r_tail r1) Hc) as E;
    destruct (run_lines S R st ob oi s0 (ls ++ more) rem0 t0) as [lr2 un2]
  end.
  destruct (run_lines dst dres (dline_step cfg nonce) d_on_blank d_on_ioerr init_dst ls rem (r_tail r1)) as [lr1 un1].
  cbn [fst] in E. subst lr2. destruct (d_after_loop lr1) as [s e]. split; reflexivity.
Qed.
