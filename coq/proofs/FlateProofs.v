(* FlateProofs.v — proofs for C12 about the library logic (model/Flate.v):
   cbuf, Writer, suffixedReader, frame helpers. *)
Require Import Bytes FlateAux Check Inflate Flate CbufProofs.
From Coq Require Import ZifyBool ZifyN ZifyNat.
Open Scope N_scope.

Lemma cb_inv_reset : cb_inv (cbuf_reset (dst_new None)) [].
Proof. unfold cb_inv. repeat split. exists []. repeat split. Qed.

Lemma cbuf_writes_inv ws : forall c s, cb_inv c s -> cb_inv (cbuf_writes c ws) (s ++ concat ws).
Proof.
  induction ws as [|p r IH]; intros c s H.
  - cbn [cbuf_writes concat]. rewrite app_nil_r. exact H.
  - cbn [cbuf_writes concat]. rewrite app_assoc. apply IH. apply (cbuf_write_inv c s p H).
Qed.

Lemma firstn_app_exact {A} (a b : list A) : firstn (length a) (a ++ b) = a.
Proof. induction a as [|x a IH]; cbn; [destruct b; reflexivity|]. rewrite IH. reflexivity. Qed.
Lemma skipn_app_exact {A} (a b : list A) : skipn (length a) (a ++ b) = b.
Proof. induction a as [|x a IH]; cbn; [reflexivity|exact IH]. Qed.

(* what the invariant says in terms of the whole byte string written so far *)
Lemma cb_inv_spec c s : cb_inv c s ->
  let m := Nat.min 4 (length s) in
  d_flat (cb_dst c) = butlastn m s /\ cb_n c = m
  /\ cb_buf c = lastn m s ++ repeat 0 (4 - m) /\ cb_err c = false.
Proof.
  intros [He [_ [held [Hs [Hl [Hn Hb]]]]]] m. subst m. rewrite <- Hl.
  remember (d_flat (cb_dst c)) as fl eqn:Efl. subst s.
  unfold butlastn, lastn. rewrite app_length.
  replace (length fl + length held - length held)%nat with (length fl) by lia.
  rewrite firstn_app_exact, skipn_app_exact. auto.
Qed.

(* (1) for every sequence of writes *)
Lemma cbuf_withholds ws :
  let c := cbuf_writes (cbuf_reset (dst_new None)) ws in
  let s := concat ws in
  let m := Nat.min 4 (length s) in
  d_flat (cb_dst c) = butlastn m s /\ cb_n c = m
  /\ cb_buf c = lastn m s ++ repeat 0 (4 - m) /\ cb_err c = false.
Proof. apply cb_inv_spec. apply (cbuf_writes_inv ws _ [] cb_inv_reset). Qed.

Lemma cbuf_monitor_holds ws :
  let c := cbuf_writes (cbuf_reset (dst_new None)) ws in
  c12_cbuf_monitor ws (d_flat (cb_dst c)) (cb_buf c) (cb_n c) = true.
Proof.
  destruct (cbuf_withholds ws) as [A [B [C _]]]. cbv zeta. unfold c12_cbuf_monitor.
  rewrite A, B, C, !bytes_eqb_refl, Nat.eqb_refl. reflexivity.
Qed.

(* the result depends only on the concatenation: any split of the same bytes *)
Lemma cbuf_split_independent ws1 ws2 : concat ws1 = concat ws2 ->
  let c1 := cbuf_writes (cbuf_reset (dst_new None)) ws1 in
  let c2 := cbuf_writes (cbuf_reset (dst_new None)) ws2 in
  d_flat (cb_dst c1) = d_flat (cb_dst c2) /\ cb_buf c1 = cb_buf c2 /\ cb_n c1 = cb_n c2.
Proof.
  intros E. destruct (cbuf_withholds ws1) as [A1 [B1 [C1 _]]]. destruct (cbuf_withholds ws2) as [A2 [B2 [C2 _]]].
  cbv zeta. rewrite A1, A2, B1, B2, C1, C2, E. auto.
Qed.

(* ================= Writer ================= *)
Lemma tail_check_inv c R : cb_inv c R -> bytes_eqb (cb_buf c) compression_tail = true ->
  R = d_flat (cb_dst c) ++ compression_tail.
Proof.
  intros [_ [_ [held [Hs [Hl [_ Hb]]]]]] E. apply bytes_eqb_eq in E. rewrite Hb in E.
  assert (H4 : (length held <= 4)%nat) by lia.
  destruct (list_le4 held H4) as [->|[[a ->]|[[a [b ->]]|[[a [b [c0 ->]]]|[a [b [c0 [d ->]]]]]]]];
    cbn in E; unfold compression_tail in E; try discriminate E.
  try rewrite app_nil_r in E. unfold compression_tail. rewrite <- E. exact Hs.
Qed.

Lemma tail_check_complete c R x : cb_inv c R -> R = x ++ compression_tail ->
  bytes_eqb (cb_buf c) compression_tail = true.
Proof.
  intros H E. destruct (cb_inv_spec c R H) as [_ [_ [Hb _]]]. cbv zeta in Hb.
  assert (Hlen : length R = (length x + 4)%nat) by (rewrite E, app_length; reflexivity).
  rewrite Hb. replace (Nat.min 4 (length R)) with 4%nat by lia.
  unfold lastn. rewrite Hlen. replace (length x + 4 - 4)%nat with (length x) by lia.
  rewrite E, skipn_app_exact. reflexivity.
Qed.

Lemma fw_step_sticky w o : fw_err w <> WNone -> fw_step w o = (w, (O, fw_err w)).
Proof. unfold fw_step. destruct (fw_err w); intros H; try reflexivity. congruence. Qed.

Lemma fw_run_sticky ops : forall w, fw_err w <> WNone ->
  fw_run w ops = (w, map (fun _ => (O, fw_err w)) ops).
Proof.
  induction ops as [|o r IH]; intros w H; [reflexivity|].
  cbn [fw_run map]. rewrite (fw_step_sticky w o H), (IH w H). reflexivity.
Qed.

Lemma raw_output_sticky ops w : fw_err w <> WNone -> raw_output w ops = [].
Proof. destruct ops; [reflexivity|]. cbn [raw_output]. destruct (fw_err w); congruence. Qed.

(* invariant of a history: while no error was reported the cbuf has seen exactly the raw
   output; right after a successful Flush/Close the raw output is destination ++ tail *)
Definition fw_inv (w : fwriter) (R : list byte) (synced : bool) : Prop :=
  fw_err w = WNone ->
  cb_inv (fw_cbuf w) R /\ (synced = true -> R = d_flat (cb_dst (fw_cbuf w)) ++ compression_tail).

Fixpoint synced_after (b : bool) (ops : list wop) : bool :=
  match ops with [] => b | o :: r => synced_after (is_sync o) r end.

Lemma fw_emit_inv w R e : cb_inv (fw_cbuf w) R ->
  cb_inv (fw_cbuf (fw_emit w e)) (R ++ concat (em_chunks e)).
Proof. intros H. unfold fw_emit. cbn [fw_cbuf]. apply cbuf_writes_inv, H. Qed.

Lemma fw_run_inv ops : forall w R b, fw_inv w R b ->
  fw_inv (fst (fw_run w ops)) (R ++ raw_output w ops) (synced_after b ops).
Proof.
  induction ops as [|o r IH]; intros w R b H.
  - cbn [fw_run raw_output synced_after fst]. rewrite app_nil_r. exact H.
  - cbn [fw_run raw_output synced_after].
    destruct (fw_err w) eqn:Ew.
    + (* no error so far *)
      destruct (H Ew) as [Hinv _].
      assert (Hstep : fw_inv (fst (fw_step w o)) (R ++ concat (em_chunks (em_of o))) (is_sync o)).
      { unfold fw_step. rewrite Ew. destruct o as [p e|e|e]; cbn [fst em_of is_sync].
        - intros _. split; [apply fw_emit_inv, Hinv|discriminate].
        - unfold check_tail. destruct (fw_err (fw_emit w e)) eqn:Ee; try (intros X; cbn [fw_err] in X; congruence).
          destruct (bytes_eqb _ _) eqn:Et; [|intros X; cbn [fw_err] in X; congruence].
          intros _. pose proof (fw_emit_inv w R e Hinv) as Hi. split; [exact Hi|]. intros _.
          apply (tail_check_inv _ _ Hi Et).
        - unfold check_tail. destruct (fw_err (fw_emit w e)) eqn:Ee; try (intros X; cbn [fw_err] in X; congruence).
          destruct (bytes_eqb _ _) eqn:Et; [|intros X; cbn [fw_err] in X; congruence].
          intros _. pose proof (fw_emit_inv w R e Hinv) as Hi. split; [exact Hi|]. intros _.
          apply (tail_check_inv _ _ Hi Et). }
      specialize (IH (fst (fw_step w o)) _ _ Hstep).
      destruct (fw_step w o) as [w1 x]. cbn [fst] in *. destruct (fw_run w1 r) as [w2 xs] eqn:Er.
      cbn [fst] in *. rewrite app_assoc.
      replace (match o with WWrite _ e | WFlush e | WClose e => e end) with (em_of o) by (destruct o; reflexivity).
      exact IH.
    + rewrite (fw_step_sticky w o) by congruence.
      rewrite (fw_run_sticky r w) by congruence. cbn [fst]. intros X. congruence.
    + rewrite (fw_step_sticky w o) by congruence.
      rewrite (fw_run_sticky r w) by congruence. cbn [fst]. intros X. congruence.
Qed.

Lemma fw_inv_new : fw_inv (fw_new (dst_new None)) [] false.
Proof. intros _. split; [apply cb_inv_reset|discriminate]. Qed.

Lemma synced_after_last b ops : ops <> [] -> synced_after b ops = last_is_sync ops.
Proof.
  unfold last_is_sync. revert b. induction ops as [|o r IH]; intros b H; [congruence|].
  cbn [synced_after rev]. destruct r as [|o2 r2].
  - reflexivity.
  - rewrite IH by discriminate. cbn [rev].
    destruct (rev r2 ++ [o2]) eqn:E; [destruct (rev r2); discriminate E|reflexivity].
Qed.

(* (2) after any history that ends in a successful Flush/Close *)
Lemma writer_tail ops :
  let w := fst (fw_run (fw_new (dst_new None)) ops) in
  fw_err w = WNone -> last_is_sync ops = true ->
  d_flat (cb_dst (fw_cbuf w)) ++ compression_tail = raw_output (fw_new (dst_new None)) ops.
Proof.
  intros w Hw Hl. pose proof (fw_run_inv ops _ _ _ fw_inv_new) as H. cbn [app] in H.
  destruct (H Hw) as [_ Hs]. symmetry. apply Hs.
  rewrite synced_after_last; [exact Hl|]. intros ->. discriminate Hl.
Qed.

(* the tail check is exact: a Flush/Close that reaches a compressor which does not fail
   succeeds iff everything the compressor has produced ends in 00 00 ff ff *)
Lemma writer_tail_exact ops o :
  let w0 := fst (fw_run (fw_new (dst_new None)) ops) in
  let R := raw_output (fw_new (dst_new None)) ops ++ concat (em_chunks (em_of o)) in
  fw_err w0 = WNone -> is_sync o = true -> em_err (em_of o) = false ->
  (snd (snd (fw_step w0 o)) = WNone <-> exists x, R = x ++ compression_tail) /\
  (snd (snd (fw_step w0 o)) <> WNone -> snd (snd (fw_step w0 o)) = WTail).
Proof.
  intros w0 R Hw Hs He. pose proof (fw_run_inv ops _ _ _ fw_inv_new) as H. cbn [app] in H.
  destruct (H Hw) as [Hinv _]. fold w0 in Hinv.
  pose proof (fw_emit_inv w0 _ (em_of o) Hinv) as Hi. fold R in Hi.
  assert (Hst : snd (snd (fw_step w0 o)) =
                if bytes_eqb (cb_buf (fw_cbuf (fw_emit w0 (em_of o)))) compression_tail then WNone else WTail).
  { unfold fw_step. rewrite Hw. destruct o as [p e|e|e]; try discriminate Hs; cbn [em_of] in *;
      unfold check_tail, fw_emit; cbn [fw_err fw_cbuf snd]; rewrite He; cbn [fw_err fw_cbuf snd];
      destruct (bytes_eqb _ _); reflexivity. }
  rewrite Hst. destruct (bytes_eqb _ _) eqn:Et.
  - split; [|congruence]. split; [|reflexivity]. intros _. eexists. apply (tail_check_inv _ _ Hi Et).
  - split; [|reflexivity]. split; [discriminate|]. intros [x Hx].
    rewrite (tail_check_complete _ _ x Hi Hx) in Et. discriminate.
Qed.

(* ================= suffixedReader ================= *)
Definition src_nonfail (s : source) : Prop := s_end s <> EndFail.
Definition sr_nonfail (st : sreader) : Prop := forall s, sr_src st = Some s -> src_nonfail s.

Lemma src_read_spec s k :
  let '(s', (data, status)) := src_read s k in
  s_end s' = s_end s /\
  match status with
  | RNil => src_rest s = data ++ src_rest s' /\ ((1 <= k)%nat -> s_chunks s <> [] ->
              (length (src_rest s') + length (s_chunks s') < length (src_rest s) + length (s_chunks s))%nat)
  | REOF => src_rest s = data /\ s_end s <> EndFail
  | RErr => s_end s = EndFail /\ data = [] /\ s_chunks s = []
  end.
Proof.
  unfold src_read, src_rest. destruct s as [[|c r] e]; cbn [s_chunks s_end].
  - split; [reflexivity|]. destruct e; cbn; auto; split; auto; discriminate.
  - destruct (length c <=? k)%nat eqn:E.
    + split; [reflexivity|]. cbn [concat s_chunks].
      destruct r as [|c2 r2]; [destruct e|]; cbn [concat length]; rewrite ?app_nil_r; auto;
        try (split; [reflexivity|intros; rewrite ?app_length; cbn [length]; lia]).
      split; [reflexivity|discriminate].
    + split; [reflexivity|]. cbn [concat s_chunks]. apply Nat.leb_gt in E.
      split; [rewrite app_assoc, firstn_skipn; reflexivity|].
      intros Hk _. rewrite !app_length, skipn_length. cbn [length]. lia.
Qed.

Lemma chunks_readbyte_spec cs :
  match chunks_readbyte cs with
  | Some (b, r) => concat cs = b :: concat r /\ (length (concat r) + length r < length (concat cs) + length cs)%nat
  | None => concat cs = []
  end.
Proof.
  induction cs as [|c r IH]; [reflexivity|].
  destruct c as [|b c]; cbn [chunks_readbyte concat app].
  - destruct (chunks_readbyte r) as [[b r']|]; [|exact IH].
    destruct IH as [A B]. split; [exact A|]. cbn [length]. lia.
  - destruct c; cbn [concat app length]; split; try reflexivity; rewrite ?app_length; cbn [length]; lia.
Qed.

Definition sr_measure (st : sreader) : nat :=
  match sr_src st with
  | Some s => length (src_rest s) + length (s_chunks s) + 11
  | None => 10 - sr_pos st
  end.

Lemma skipn_add {A} a b (l : list A) : skipn a (skipn b l) = skipn (b + a) l.
Proof.
  revert l. induction b as [|b IH]; intros l; [reflexivity|].
  destruct l; cbn [skipn Nat.add]; [destruct a; reflexivity|apply IH].
Qed.

Lemma tail_len : length compression_read_tail = 9%nat.
Proof. reflexivity. Qed.

Lemma sr_suffix_read_spec st k : sr_src st = None ->
  let '(st', (data, status)) := sr_suffix_read st k in
  sr_src st' = None /\
  match status with
  | RNil => sr_rest st = data ++ sr_rest st' /\ ((1 <= k)%nat -> (sr_measure st' < sr_measure st)%nat)
  | REOF => sr_rest st = [] /\ data = [] /\ st' = st
  | RErr => False
  end.
Proof.
  intros Hn. unfold sr_suffix_read, sr_rest, sr_measure. rewrite Hn, tail_len.
  destruct (9 <=? sr_pos st)%nat eqn:E.
  - rewrite ?Hn. split; [first [exact Hn|reflexivity]|]. apply Nat.leb_le in E.
    split; [|auto]. apply skipn_all2. rewrite tail_len. exact E.
  - cbn [sr_src sr_pos]. split; [reflexivity|]. apply Nat.leb_gt in E.
    set (rest := skipn (sr_pos st) compression_read_tail).
    assert (Hr : length rest = (9 - sr_pos st)%nat) by (unfold rest; rewrite skipn_length, tail_len; reflexivity).
    split.
    + rewrite <- (firstn_skipn k rest) at 1. f_equal.
      rewrite firstn_length, Hr. unfold rest. rewrite skipn_add.
      destruct (Nat.le_ge_cases k (9 - sr_pos st)).
      * rewrite Nat.min_l by assumption. reflexivity.
      * rewrite Nat.min_r by assumption.
        rewrite !skipn_all2; [reflexivity|rewrite tail_len; lia|rewrite tail_len; lia].
    + intros Hk. rewrite firstn_length, Hr. lia.
Qed.

Lemma sr_read_spec st k : sr_nonfail st -> (sr_src st <> None -> sr_pos st = O) ->
  let '(st', (data, status)) := sr_read st k in
  sr_nonfail st' /\ (sr_src st' <> None -> sr_pos st' = O) /\
  match status with
  | RNil => sr_rest st = data ++ sr_rest st' /\ ((1 <= k)%nat -> (sr_measure st' < sr_measure st)%nat)
  | REOF => sr_rest st = [] /\ data = [] /\ st' = st
  | RErr => False
  end.
Proof.
  intros Hnf Hp. unfold sr_read. destruct (sr_src st) as [s|] eqn:Es.
  - pose proof (src_read_spec s k) as H. destruct (src_read s k) as [s' [data status]] eqn:Er.
    destruct H as [He H]. specialize (Hnf s Es). assert (Hpos := Hp ltac:(discriminate)).
    destruct status.
    + destruct H as [H1 H2]. split; [intros x Hx; cbn in Hx; inversion Hx; subst; unfold src_nonfail; congruence|].
      split; [intros _; exact Hpos|]. unfold sr_rest, sr_measure. rewrite Es. cbn [sr_src sr_pos]. rewrite ?Hpos.
      split; [rewrite H1, app_assoc; reflexivity|].
      intros Hk. destruct (s_chunks s) eqn:Ec.
      * exfalso. (* an empty source returns its end status, never nil *)
        unfold src_read in Er. rewrite Ec in Er.
        assert (X : end_status (s_end s) = RNil) by congruence.
        destruct (s_end s); discriminate X.
      * specialize (H2 Hk ltac:(discriminate)). lia.
    + destruct H as [H1 _]. split; [intros x Hx; discriminate Hx|]. split; [intros X; exfalso; apply X; reflexivity|].
      unfold sr_rest, sr_measure. rewrite Es. cbn [sr_src sr_pos]. rewrite ?Hpos. cbn [skipn].
      split; [rewrite H1; reflexivity|]. intros _. lia.
    + destruct H as [H _]. unfold src_nonfail in Hnf. congruence.
  - pose proof (sr_suffix_read_spec st k Es) as H. destruct (sr_suffix_read st k) as [st' [data status]].
    destruct H as [Hn H]. split; [intros x Hx; congruence|]. split; [intros X; congruence|]. exact H.
Qed.

Lemma sr_suffix_readbyte_spec st : sr_src st = None ->
  let '(st', (b, status)) := sr_suffix_readbyte st in
  sr_src st' = None /\
  match status with
  | RNil => exists x, b = Some x /\ sr_rest st = x :: sr_rest st' /\ (sr_measure st' < sr_measure st)%nat
  | REOF => sr_rest st = [] /\ b = None /\ st' = st
  | RErr => False
  end.
Proof.
  intros Hn. unfold sr_suffix_readbyte, sr_rest, sr_measure. rewrite Hn.
  destruct (nth_error compression_read_tail (sr_pos st)) as [x|] eqn:E.
  - cbn [sr_src sr_pos]. split; [reflexivity|]. exists x. split; [reflexivity|].
    assert (Hlt : (sr_pos st < 9)%nat).
    { rewrite <- tail_len. apply nth_error_Some. congruence. }
    split; [|lia].
    clear Hn. destruct st as [src pos]. cbn [sr_pos] in *.
    do 9 (destruct pos as [|pos]; [cbn in E |- *; inversion E; reflexivity|]). lia.
  - rewrite Hn. split; [reflexivity|]. apply nth_error_None in E. split; [|auto].
    apply skipn_all2. exact E.
Qed.

Lemma sr_readbyte_spec st : sr_nonfail st -> (sr_src st <> None -> sr_pos st = O) ->
  let '(st', (b, status)) := sr_readbyte st in
  sr_nonfail st' /\ (sr_src st' <> None -> sr_pos st' = O) /\
  match status with
  | RNil => exists x, b = Some x /\ sr_rest st = x :: sr_rest st' /\ (sr_measure st' < sr_measure st)%nat
  | REOF => sr_rest st = [] /\ b = None /\ st' = st
  | RErr => False
  end.
Proof.
  intros Hnf Hp. unfold sr_readbyte. destruct (sr_src st) as [s|] eqn:Es.
  - specialize (Hnf s Es). assert (Hpos := Hp ltac:(discriminate)).
    unfold src_readbyte. pose proof (chunks_readbyte_spec (s_chunks s)) as H.
    destruct (chunks_readbyte (s_chunks s)) as [[x r]|].
    + destruct H as [H1 H2].
      split; [intros y Hy; cbn in Hy; inversion Hy; subst; exact Hnf|].
      split; [intros _; exact Hpos|]. exists x. split; [reflexivity|].
      unfold sr_rest, sr_measure, src_rest. rewrite Es. cbn [sr_src sr_pos s_chunks]. rewrite ?Hpos.
      split; [rewrite H1; reflexivity|]. fold (src_rest s). unfold src_rest. lia.
    + (* the source is exhausted: the byte comes from the suffix *)
      assert (He : end_status (s_end s) = REOF) by (unfold src_nonfail in Hnf; destruct (s_end s) eqn:X; try reflexivity; congruence).
      rewrite He.
      pose proof (sr_suffix_readbyte_spec (mkSr None (sr_pos st)) eq_refl) as Hs.
      destruct (sr_suffix_readbyte (mkSr None (sr_pos st))) as [st' [b status]].
      destruct Hs as [Hn Hs]. split; [intros y Hy; congruence|]. split; [intros X; congruence|].
      unfold sr_rest at 1, sr_measure at 2. rewrite Es. unfold src_rest. rewrite H. cbn [app length Nat.add].
      unfold sr_rest at 1, sr_measure at 2 in Hs. cbn [sr_src sr_pos] in Hs.
      destruct status; try exact Hs.
      * destruct Hs as [x [A [B C]]]. exists x. split; [exact A|]. split; [exact B|]. lia.
      * (* the suffix cannot be exhausted while the source was still active *)
        destruct Hs as [A _]. rewrite Hpos in A. discriminate A.
  - pose proof (sr_suffix_readbyte_spec st Es) as H. destruct (sr_suffix_readbyte st) as [st' [b status]].
    destruct H as [Hn H]. split; [intros x Hx; congruence|]. split; [intros X; congruence|]. exact H.
Qed.

(* one request: a prefix of what remains is delivered; EOF only when nothing remains *)
Lemma sr_step_spec st q : sr_nonfail st -> (sr_src st <> None -> sr_pos st = O) ->
  let '(st', (data, status)) := sr_step st q in
  sr_nonfail st' /\ (sr_src st' <> None -> sr_pos st' = O) /\
  match status with
  | RNil => sr_rest st = data ++ sr_rest st'
  | REOF => sr_rest st = [] /\ data = [] /\ st' = st
  | RErr => False
  end.
Proof.
  intros Hnf Hp. destruct q as [k|]; cbn [sr_step].
  - pose proof (sr_read_spec st k Hnf Hp) as H. destruct (sr_read st k) as [st' [data status]].
    destruct H as [A [B C]]. split; [exact A|]. split; [exact B|]. destruct status; tauto.
  - pose proof (sr_readbyte_spec st Hnf Hp) as H. destruct (sr_readbyte st) as [st' [b status]].
    destruct H as [A [B C]]. split; [exact A|]. split; [exact B|]. destruct status.
    + destruct C as [x [-> [C _]]]. exact C.
    + destruct C as [C1 [-> C3]]. auto.
    + exact C.
Qed.

(* (3) every request sequence over every non-failing source: the monitor holds *)
Lemma sr_run_monitor qs : forall st, sr_nonfail st -> (sr_src st <> None -> sr_pos st = O) ->
  c12_sr_monitor (sr_rest st) false (sr_run st qs) = true.
Proof.
  induction qs as [|q r IH]; intros st Hnf Hp; [reflexivity|].
  cbn [sr_run]. pose proof (sr_step_spec st q Hnf Hp) as H.
  destruct (sr_step st q) as [st' [data status]]. destruct H as [A [B C]].
  cbn [c12_sr_monitor]. destruct status.
  - rewrite C, firstn_app_exact, skipn_app_exact, bytes_eqb_refl. cbn [andb]. apply IH; assumption.
  - destruct C as [C1 [-> ->]]. rewrite C1. cbn. rewrite <- C1. apply IH; assumption.
  - contradiction.
Qed.

Lemma sr_new_ok s : src_nonfail s -> sr_nonfail (sr_new s) /\ (sr_src (sr_new s) <> None -> sr_pos (sr_new s) = O).
Proof. intros H. split; [intros x Hx; inversion Hx; subst; exact H|reflexivity]. Qed.

Lemma sr_rest_new s : sr_rest (sr_new s) = src_rest s ++ compression_read_tail.
Proof. reflexivity. Qed.

(* once everything has been delivered every request reports EOF *)
Lemma sr_eof_at_end st q : sr_nonfail st -> (sr_src st <> None -> sr_pos st = O) ->
  sr_rest st = [] -> sr_step st q = (st, ([], REOF)).
Proof.
  intros Hnf Hp Hr.
  assert (Hn : sr_src st = None).
  { destruct (sr_src st) as [s|] eqn:Es; [|reflexivity]. exfalso.
    unfold sr_rest in Hr. rewrite Es, (Hp ltac:(discriminate)) in Hr.
    apply app_eq_nil in Hr. destruct Hr as [_ Hr]. discriminate Hr. }
  assert (Hpos : (9 <= sr_pos st)%nat).
  { unfold sr_rest in Hr. rewrite Hn in Hr. destruct (Nat.le_gt_cases 9 (sr_pos st)) as [|Hlt]; [assumption|].
    exfalso. assert (X : length (skipn (sr_pos st) compression_read_tail) = O) by (rewrite Hr; reflexivity).
    rewrite skipn_length, tail_len in X. lia. }
  destruct st as [src pos]. cbn [sr_src sr_pos] in *. subst src.
  destruct q as [k|]; cbn [sr_step sr_read sr_readbyte sr_src].
  - unfold sr_suffix_read. cbn [sr_pos]. rewrite tail_len.
    destruct (9 <=? pos)%nat eqn:E; [reflexivity|]. apply Nat.leb_gt in E. lia.
  - unfold sr_suffix_readbyte. cbn [sr_pos].
    destruct (nth_error compression_read_tail pos) eqn:E; [|reflexivity].
    exfalso. assert (X : (pos < length compression_read_tail)%nat) by (apply nth_error_Some; congruence).
    rewrite tail_len in X. lia.
Qed.

(* a consumer reading k >= 1 bytes at a time until EOF sees source ++ suffix, for every
   chunking of the source *)
Lemma sr_drain_all fuel : forall st k acc, sr_nonfail st -> (sr_src st <> None -> sr_pos st = O) ->
  (1 <= k)%nat -> (sr_measure st < fuel)%nat ->
  sr_drain fuel st k acc = Some (acc ++ sr_rest st).
Proof.
  induction fuel as [|f IH]; intros st k acc Hnf Hp Hk Hf; [lia|].
  cbn [sr_drain]. pose proof (sr_read_spec st k Hnf Hp) as H.
  destruct (sr_read st k) as [st' [data status]]. destruct H as [A [B C]]. destruct status.
  - destruct C as [C1 C2]. rewrite (IH st' k (acc ++ data) A B Hk) by (specialize (C2 Hk); lia).
    rewrite C1, app_assoc. reflexivity.
  - destruct C as [C1 [-> _]]. rewrite C1. reflexivity.
  - contradiction.
Qed.

Lemma sr_drain_source s k : src_nonfail s -> (1 <= k)%nat ->
  sr_drain (length (src_rest s) + length (s_chunks s) + 12) (sr_new s) k [] =
  Some (src_rest s ++ compression_read_tail).
Proof.
  intros Hs Hk. destruct (sr_new_ok s Hs) as [A B].
  rewrite (sr_drain_all _ (sr_new s) k [] A B Hk); [reflexivity|].
  unfold sr_measure. cbn [sr_new sr_src]. lia.
Qed.

(* a failing source: its error is passed through once its data is exhausted *)
Lemma sr_error_passed pos k e :
  sr_read (mkSr (Some (mkSrc [] EndFail)) pos) k = (mkSr (Some (mkSrc [] EndFail)) pos, ([], RErr))
  /\ sr_readbyte (mkSr (Some (mkSrc [] EndFail)) pos) = (mkSr (Some (mkSrc [] EndFail)) pos, (None, RErr))
  /\ (e <> EndFail -> fst (snd (sr_read (mkSr (Some (mkSrc [] e)) pos) k)) = [] /\ snd (snd (sr_read (mkSr (Some (mkSrc [] e)) pos) k)) = RNil).
Proof.
  repeat split; destruct e; try reflexivity; congruence.
Qed.

(* ================= frame helpers ================= *)
Section HelperProofs.
  Variable compress_to decompress_to : list byte -> option (list byte).

  Lemma compress_frame_nonfinal f : h_fin (f_hdr f) = false ->
    compress_frame compress_to f = inr HFragmented.
  Proof. intros H. unfold compress_frame. rewrite H. reflexivity. Qed.
  Lemma decompress_frame_nonfinal f : h_fin (f_hdr f) = false ->
    decompress_frame decompress_to f = inr HFragmented.
  Proof. intros H. unfold decompress_frame. rewrite H. reflexivity. Qed.

  (* a final first data frame whose compression bit is clear *)
  Lemma compress_frame_data f c : h_fin (f_hdr f) = true -> first_data_op (h_op (f_hdr f)) = true ->
    rsv1 (h_rsv (f_hdr f)) = false -> compress_to (f_payload f) = Some c ->
    exists h', compress_frame compress_to f = inl (mkFrame h' c)
      /\ h_fin h' = true /\ h_op h' = h_op (f_hdr f) /\ h_masked h' = h_masked (f_hdr f)
      /\ h_mask h' = h_mask (f_hdr f) /\ h_len h' = Z.of_N (len c)
      /\ rsv1 (h_rsv h') = true
      /\ N.testbit (h_rsv h') 1 = N.testbit (h_rsv (f_hdr f)) 1
      /\ N.testbit (h_rsv h') 0 = N.testbit (h_rsv (f_hdr f)) 0.
  Proof.
    intros Hf Ho Hr Hc. unfold compress_frame, set_bit, with_len, with_rsv. rewrite Hf, Hc.
    cbn [negb h_rsv h_op]. rewrite Hr, Ho. cbn [negb]. eexists. split; [reflexivity|].
    cbn [h_fin h_op h_masked h_mask h_len h_rsv]. repeat split; try assumption;
      unfold rsv1, mk_rsv; destruct (N.testbit (h_rsv (f_hdr f)) 1), (N.testbit (h_rsv (f_hdr f)) 0); reflexivity.
  Qed.

  Lemma mk_rsv_id rsv : rsv < 8 -> rsv1 rsv = false ->
    mk_rsv false (N.testbit rsv 1) (N.testbit rsv 0) = rsv.
  Proof.
    intros H. assert (E : rsv = 0 \/ rsv = 1 \/ rsv = 2 \/ rsv = 3 \/ rsv = 4 \/ rsv = 5 \/ rsv = 6 \/ rsv = 7) by lia.
    repeat (destruct E as [->|E]; [cbv; congruence|]). subst. cbv; congruence.
  Qed.
  Lemma mk_rsv_bits r2 r3 : N.testbit (mk_rsv true r2 r3) 1 = r2 /\ N.testbit (mk_rsv true r2 r3) 0 = r3.
  Proof. destruct r2, r3; split; reflexivity. Qed.

  (* decompress (compress f) = f, when the engine pair is a round trip on this payload *)
  Lemma helper_roundtrip f c : h_fin (f_hdr f) = true -> first_data_op (h_op (f_hdr f)) = true ->
    h_rsv (f_hdr f) < 8 -> rsv1 (h_rsv (f_hdr f)) = false ->
    h_len (f_hdr f) = Z.of_N (len (f_payload f)) ->
    compress_to (f_payload f) = Some c -> decompress_to c = Some (f_payload f) ->
    exists g, compress_frame compress_to f = inl g /\ decompress_frame decompress_to g = inl f.
  Proof.
    intros Hf Ho H8 Hr Hl Hc Hd. unfold compress_frame, set_bit, with_len, with_rsv. rewrite Hf, Hc.
    cbn [negb h_rsv h_op]. rewrite Hr, Ho. cbn [negb]. eexists. split; [reflexivity|].
    unfold decompress_frame, unset_bit, with_len, with_rsv. cbn [f_hdr f_payload h_fin h_op h_rsv h_masked h_mask h_len].
    rewrite ?Hf, ?Ho. cbn [negb].
    destruct (mk_rsv_bits (N.testbit (h_rsv (f_hdr f)) 1) (N.testbit (h_rsv (f_hdr f)) 0)) as [B1 B0].
    rewrite B1, B0.
    assert (R1 : rsv1 (mk_rsv true (N.testbit (h_rsv (f_hdr f)) 1) (N.testbit (h_rsv (f_hdr f)) 0)) = true)
      by (destruct (N.testbit (h_rsv (f_hdr f)) 1), (N.testbit (h_rsv (f_hdr f)) 0); reflexivity).
    rewrite R1, Hd. cbn [h_fin h_op h_rsv h_masked h_mask h_len].
    rewrite (mk_rsv_id _ H8 Hr), <- Hl. destruct f as [[fin rsv op m mk l] p]. cbn [h_fin f_hdr f_payload h_rsv h_op h_masked h_mask h_len] in *. subst fin. reflexivity.
  Qed.

  (* a frame without the bit passes DecompressFrame unchanged (up to rsv normalisation) *)
  Lemma decompress_frame_plain f : h_fin (f_hdr f) = true -> h_rsv (f_hdr f) < 8 ->
    rsv1 (h_rsv (f_hdr f)) = false -> decompress_frame decompress_to f = inl f.
  Proof.
    intros Hf H8 Hr. unfold decompress_frame, unset_bit, with_rsv. rewrite Hf, Hr. cbn [negb].
    destruct (first_data_op (h_op (f_hdr f))).
    - rewrite (mk_rsv_id _ H8 Hr). destruct f as [[fin rsv op m mk l] p]. cbn [h_fin f_hdr f_payload h_rsv h_op h_masked h_mask h_len] in *. subst fin. reflexivity.
    - destruct f as [[fin rsv op m mk l] p]. cbn [h_fin f_hdr f_payload h_rsv h_op h_masked h_mask h_len] in *. subst fin. reflexivity.
  Qed.

  (* the bit on a control or continuation frame is refused *)
  Lemma decompress_frame_badbit f : h_fin (f_hdr f) = true -> first_data_op (h_op (f_hdr f)) = false ->
    rsv1 (h_rsv (f_hdr f)) = true -> decompress_frame decompress_to f = inr HBit.
  Proof. intros Hf Ho Hr. unfold decompress_frame, unset_bit. rewrite Hf, Ho, Hr. reflexivity. Qed.
End HelperProofs.
