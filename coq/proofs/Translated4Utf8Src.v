(* Tie C4: UTF8Reader.Read over a reader that serves a chunked stream (Translated4Hdr.src_reader) is the model's
   u8_read (model/Utf8Dfa.v), read1 included. *)
From Coq Require Import NArith ZArith List Bool Lia ZifyBool ZifyN ZifyNat.
Require Import Bytes GoSlices GoMem GoMemProofs Translated3 Translated3Ok Translated4Utf8 Translated4Hdr.
Require Import Stream Extracted Utf8Dfa BytesProofs StreamProofs.
Import ListNotations.
Open Scope Z_scope.

Definition u8err_go (e : u8err) : g_error :=
  match e with U8Io e => rerr_go e | U8Invalid => E_wsutil_ErrInvalidUTF8 end.

Lemma read1_len k s : (length (fst (fst (read1 k s))) <= N.to_nat k)%nat.
Proof.
  unfold read1. destruct (chunks s) as [|c cs]; cbn [fst length]; [lia|].
  destruct (k <? len c)%N eqn:E; cbn [fst]; unfold take, len in *; [rewrite firstn_length|]; lia.
Qed.

Theorem g3_UTF8Reader_Read_src s0 h w p st a0 cp :
  sl_valid w p -> 0 < sl_len p <= max_int -> In st u8_states ->
  wf_src (src_at s0 h) -> wf_bytes (flat (src_at s0 h)) ->
  let u := g3_mk_wsutil_UTF8Reader (src_reader s0 h) (Z.of_N a0) st cp in
  let '((n, b, e), m') := u8_read (Z.to_N (sl_len p)) (mkU8 (src_at s0 h) (Z.to_N st) a0) in
  exists cp',
    g3_wsutil_UTF8Reader_Read u p w =
    Ok ((Z.of_N n, option_map u8err_go e,
         g3_mk_wsutil_UTF8Reader (src_reader s0 (h ++ [sl_len p])) (Z.of_N (u_accepted m')) (Z.of_N (u_state m')) cp'),
        sl_blit w p 0 (zb b))
    /\ src_at s0 (h ++ [sl_len p]) = u_src m'.
Proof.
  intros Hv Hlen Hst Hwf Hwb u. unfold max_int in Hlen. destruct Hlen as [Hl0 Hl1].
  assert (Hk : (0 < Z.to_N (sl_len p))%N) by (apply N2Z.inj_lt; rewrite Z2N.id by lia; exact Hl0). unfold u8_read. cbn [u_src u_state u_accepted].
  pose proof (read1_props_u (Z.to_N (sl_len p)) _ Hwf Hk) as HP.
  pose proof (read1_len (Z.to_N (sl_len p)) (src_at s0 h)) as HL.
  assert (Hrd : rd_fun (src_reader s0 h) (rd_hist (src_reader s0 h)) (sl_len p)
                = src_fun s0 h (sl_len p)) by reflexivity.
  unfold src_fun in Hrd. rewrite src_at_snoc.
  destruct (read1 (Z.to_N (sl_len p)) (src_at s0 h)) as [[b e] s'] eqn:E1. cbn [fst snd] in HL |- *.
  assert (Hwb' : wf_bytes b).
  { destruct e as [e|]; [destruct HP as (-> & _); constructor|].
    destruct HP as (_ & Hf & _). rewrite Hf in Hwb. apply wf_bytes_app in Hwb. apply Hwb. }
  pose proof (g3_UTF8Reader_Read_ok w u p (zb b) (Z.of_nat (length b)) (option_map rerr_go e) Hv ltac:(unfold max_int; lia) Hst Hrd
                (go_bytes_zb _ Hwb') ltac:(rewrite go_len_zb; unfold byte in *; lia) ltac:(rewrite go_len_zb; unfold byte in *; lia)) as HR.
  cbv zeta in HR. rewrite Nat2Z.id in HR.
  replace (firstn (length b) (zb b)) with (zb b) in HR by (symmetry; apply firstn_all2; rewrite zb_length; unfold byte; lia).
  rewrite nb_zb in HR.
  cbn [g3_wsutil_UTF8Reader_Source g3_wsutil_UTF8Reader_accepted g3_wsutil_UTF8Reader_state g3_wsutil_UTF8Reader_codep u] in HR.
  revert HR. destruct (u8_scan (Z.to_N st) 0 0 b) as [[st' acc] rej]. intros HR. cbv beta iota in HR.
  destruct HR as (cp' & HR & _).
  destruct rej; cbv beta iota; cbn [u_state u_accepted u_src option_map u8err_go]; [exists cp|exists cp']; rewrite HR; (split; [|reflexivity]).
  - reflexivity.
  - f_equal. f_equal. f_equal. f_equal.
    + unfold len. lia.
    + destruct e; reflexivity.
Qed.
