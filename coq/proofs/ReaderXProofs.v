(* ReaderXProofs.v — the NextFrame / read-to-EOF loop on a source that holds
   the wire bytes of some frames followed by further bytes [x] and any tail [t]
   (C16). The loop follows the frame-sequence spec over the whole frames exactly
   as in ReaderProofs.v; what happens when it reaches [x] is a hypothesis of the
   section ([Hend]), discharged in ReaderMoreProofs.v for [x] = a strict prefix
   of a frame. *)
Require Import Bytes Stream Utf8Spec Check Frame Cipher Utf8Dfa Extracted ExtractedOk Reader
  BytesProofs StreamProofs CheckProofs FrameProofs CipherProofs Utf8Proofs ReaderLocalProofs
  ReaderAux ReaderInv ReaderProofs ReaderXInv.
From Coq Require Import ZifyBool ZifyN ZifyNat.
Open Scope N_scope.

(* ------------------------------------------------------------------ inside a frame whose payload is cut *)
(* a frame is open and the source holds fewer bytes than its payload still needs *)
Definition Short (lg : list event) (r : reader) : Prop :=
  wf_src (r_src r) /\ r_frame r = true /\ len (flat (r_src r)) < r_rawN r /\ r_log r = lg.

(* a Read there hands out payload bytes or fails; it never completes the message *)
Lemma short_rgo k lg r : Short lg r -> 0 < k ->
  exists d e r', rgo k r = ((d, e), r') /\
    match e with None => Short lg r' | Some err => r_log r' = lg /\ err <> RIo EEOF end.
Proof.
  intros (Hw & Hfr & Hlt & Hlog) Hk.
  unfold rgo, frame_read, raw_read. replace (r_rawN r =? 0) with false by (clear -Hlt; lia).
  pose proof (read1_props_u (N.min k (r_rawN r)) (r_src r) Hw ltac:(clear -Hlt Hk; lia)) as R.
  pose proof (read1_len (N.min k (r_rawN r)) (r_src r)) as RL.
  destruct (read1 (N.min k (r_rawN r)) (r_src r)) as [[b e] s']. cbn [fst] in RL.
  destruct e as [e|].
  - destruct R as (-> & Hfl & He). rsimpl.
    rewrite cipher_nil.
    assert (E1: (if r_masked r then @nil byte else []) = []) by (destruct (r_masked r); reflexivity).
    rewrite E1. cbn [u8_scan].
    assert (E3: exists e', cut_err (Some e) = Some e' /\ e' <> EEOF).
    { destruct e; cbn [cut_err]; eexists; split; try reflexivity; discriminate. }
    destruct E3 as (e' & -> & He'). cbn [option_map].
    destruct (r_u8wrap r); destruct e'; try (exfalso; apply He'; reflexivity);
      (do 3 eexists; split; [reflexivity|]; rsimpl; split; [exact Hlog|discriminate]).
  - destruct R as (Hbne & Hfl & Hw' & _). cbn [cut_err option_map]. rsimpl.
    assert (Hl: len (flat s') < r_rawN r - len b /\ len b <= r_rawN r).
    { rewrite Hfl, len_app in Hlt. clear -Hlt RL. lia. }
    destruct Hl as [Hl1 Hl2].
    destruct (r_u8wrap r).
    + destruct (u8_scan _ _ _ _) as [[st ac] rej]. destruct rej.
      * do 3 eexists. split; [reflexivity|]. rsimpl. split; [exact Hlog|discriminate].
      * rsimpl. replace (r_rawN r - len b =? 0) with false by (clear -Hl1; lia). cbn [negb].
        do 3 eexists. split; [reflexivity|]. unfold Short; rsimpl. repeat split; assumption.
    + rsimpl. replace (r_rawN r - len b =? 0) with false by (clear -Hl1; lia). cbn [negb].
      do 3 eexists. split; [reflexivity|]. unfold Short; rsimpl. repeat split; assumption.
Qed.

Lemma short_read_to_eof lg : forall fuel bufs all r racc, Short lg r ->
  exists p e r2, read_to_eof fuel bufs all r racc = ((p, e), r2) /\ r_log r2 = lg /\ e <> RIo EEOF.
Proof.
  induction fuel as [|fuel IH]; intros bufs all r racc HS.
  - cbn [read_to_eof]. do 3 eexists. split; [reflexivity|]. split; [apply HS|discriminate].
  - cbn [read_to_eof]. pose proof (next_buf_pos bufs all) as Hkk.
    destruct (next_buf bufs all) as [kk bufs']. cbn [fst] in Hkk.
    rewrite reader_read_eq. destruct HS as (Hw & Hfr & Hlt & Hlog). rewrite Hfr.
    destruct (short_rgo kk lg r (conj Hw (conj Hfr (conj Hlt Hlog))) Hkk) as (d & e & r' & Hr & H). rewrite Hr.
    destruct e as [err|].
    + destruct H as [Hlg Hne]. do 3 eexists. split; [reflexivity|]. split; assumption.
    + apply IH, H.
Qed.

Section ExtP.
Variable t : tail.
Variable x : list byte.
Hypothesis Hxwf : wf_bytes x.
(* may the loop end with a clean io.EOF when it reaches [x] outside a message? *)
Variable eof_ok : bool.
Hypothesis Hend : forall c openm lg r, wf_cfg c -> BndX t x c openm lg [] r ->
  exists h e r', next_frame r = ((h, e), r') /\
    match e with
    | Some err => r_log r' = lg /\ (err = RIo EEOF -> openm = None /\ eof_ok = true)
    | None => Short lg r'
    end.

Definition minvX (c : rcfg) (st : mst) (lg : list event) (rest : list sframe) (r : reader) : Prop :=
  match st with
  | MMid m f pre post => MidX t x c m f pre post lg rest r
  | MBet m => BndX t x c (Some m) lg rest r
  end.

(* the error the loop may end with, given where the spec stands when the whole frames are used up *)
Definition acc_err (o : outcome) (e : rerror) : Prop :=
  match o with
  | OClean => e <> RIo EEOF \/ eof_ok = true
  | OCutMidMessage => e <> RIo EEOF
  | o => err_matches o e = true
  end.
Definition res_okX (sr : spec_result) (evs : list event) (e : rerror) : Prop :=
  evs_match (sr_events sr) evs = true /\ acc_err (sr_out sr) e.

Lemma acc_of_match o e : err_matches o e = true -> o <> OClean -> acc_err o e.
Proof.
  intros H Hn. destruct o; cbn [acc_err]; try exact H; [contradiction|].
  destruct e as [[| |]| | | | | | | |]; cbn [err_matches] in H; discriminate.
Qed.

(* ------------------------------------------------------------------ one Read inside a message *)
Lemma read_stepX c st lg rest r kk : wf_cfg c -> minvX c st lg rest r -> 0 < kk ->
  (exists d r' st' lg' rest', reader_read kk r = ((d, None), r') /\ minvX c st' lg' rest' r' /\
      mdeliv st' = mdeliv st ++ d /\ m_op (mmsg st') = m_op (mmsg st) /\ m_comp (mmsg st') = m_comp (mmsg st) /\
      (mu r' < mu r)%nat /\
      forall k evs, evs_match evs lg = true ->
        exists k' evs', evs_match evs' lg' = true /\ mspec c k st evs rest = mspec c k' st' evs' rest') \/
  (exists d r' rest', reader_read kk r = ((d, Some (RIo EEOF)), r') /\ BndX t x c None lg rest' r' /\
      (r_compressed r' = m_comp (mmsg st) \/ spec_control (m_op (mmsg st)) = true) /\
      (length (flat (r_src r')) <= length (flat (r_src r)))%nat /\
      forall k evs, exists k', mspec c k st evs rest =
        spec_run c k' None (evs ++ [mkEv (m_op (mmsg st)) (mdeliv st ++ d) false (m_comp (mmsg st))]) rest') \/
  (exists d err r', reader_read kk r = ((d, Some err), r') /\ err <> RIo EEOF /\
      forall k evs, evs_match evs lg = true -> res_okX (mspec c k st evs rest) (r_log r') err) \/
  (exists d r', reader_read kk r = ((d, None), r') /\ Short lg r' /\
      forall k evs, exists p, mspec c k st evs rest = mkSR evs p OCutMidMessage).
Proof.
  intros Hc Hinv Hk. destruct st as [m f pre post|m]; cbn [minvX mspec mdeliv mmsg] in *.
  - (* inside a frame *)
    rewrite reader_read_eq, (mx_frame t x _ _ _ _ _ _ _ _ Hinv).
    pose proof (mx_pay t x _ _ _ _ _ _ _ _ Hinv) as Hpay.
    destruct (rgo_stepX t x c m f pre post lg rest r kk Hc Hinv Hk)
      as [(d & post' & r' & Hr & Hdp & HM & Hmu)|[(r' & Hr & HB & Hmu & Hsp)|[(r' & Hr & HB & Hcp & Hle & Hsp)|(d & r' & Hr & Hlg & Hsp)]]].
    + left. exists d, r', (MMid m f (pre ++ d) post'), lg, rest. cbn [minvX mspec mdeliv mmsg].
      split; [exact Hr|]. split; [exact HM|]. split; [apply app_assoc|]. split; [reflexivity|]. split; [reflexivity|].
      split; [exact Hmu|]. intros k evs He. exists k, evs. split; [exact He|reflexivity].
    + left. exists post, r', (MBet (msg_after m f)), lg, rest. cbn [minvX mspec mdeliv mmsg].
      split; [exact Hr|]. split; [exact HB|]. split.
      { unfold msg_after. cbn [m_acc fst snd]. rewrite Hpay. apply app_assoc. }
      split; [reflexivity|]. split; [reflexivity|]. split; [exact Hmu|].
      intros k evs He. exists (S k), evs. split; [exact He|apply Hsp].
    + right; left. exists post, r', rest. split; [exact Hr|]. split; [exact HB|]. split; [exact Hcp|].
      split; [exact Hle|]. intros k evs. exists (S k). rewrite Hsp, Hpay, app_assoc. reflexivity.
    + right; right; left. exists d, RInvalidUtf8, r'. split; [exact Hr|]. split; [discriminate|].
      intros k evs He. rewrite Hsp, Hlg. unfold res_okX. cbn [sr_events sr_out acc_err err_matches].
      split; [exact He|reflexivity].
  - (* between two fragments: the next header first *)
    pose proof (bx_msg t x _ _ _ _ _ Hinv) as (Hfr & _). cbn [is_some] in *.
    rewrite reader_read_eq, Hfr, (bx_state t x _ _ _ _ _ Hinv), st_frag_set. cbn [negb is_some].
    destruct rest as [|f rest].
    + destruct (Hend c (Some m) lg r Hc Hinv) as (h & e & r' & Hnf & H). rewrite Hnf.
      destruct e as [err|].
      * destruct H as [Hlg Heof]. right; right; left. exists [], err, r'. split; [reflexivity|].
        assert (Hne: err <> RIo EEOF) by (intros E; destruct (Heof E) as [E2 _]; discriminate E2).
        split; [exact Hne|]. intros k evs He. rewrite spec_run_nil, Hlg.
        unfold res_okX. cbn [sr_events sr_out is_some acc_err]. split; [exact He|exact Hne].
      * pose proof H as (_ & Hfr1 & _). rewrite Hfr1.
        destruct (short_rgo kk lg r' H Hk) as (d & e & r2 & Hr & H2). rewrite Hr.
        destruct e as [err|].
        -- destruct H2 as [Hlg Hne]. right; right; left. exists d, err, r2. split; [reflexivity|].
           split; [exact Hne|]. intros k evs He. rewrite spec_run_nil, Hlg.
           unfold res_okX. cbn [sr_events sr_out is_some acc_err]. split; [exact He|exact Hne].
        -- right; right; right. exists d, r2. split; [reflexivity|]. split; [exact H2|].
           intros k evs. rewrite spec_run_nil. cbn [is_some]. eexists. reflexivity.
    + destruct (next_frame_specX t x Hxwf c (Some m) lg f rest r Hc Hinv) as (h & e & r1 & Hnf & H). rewrite Hnf.
      destruct e as [err|].
      * destruct H as (Hlg & Hsp). right; right; left. exists [], err, r1. split; [reflexivity|].
        split.
        { intros ->. destruct (Hsp 0%nat []) as (out & _ & Hem & _ & Hnc).
          destruct out; cbn [err_matches] in Hem; try discriminate. apply Hnc; reflexivity. }
        intros k evs He. destruct (Hsp k evs) as (out & -> & Hem & Hnu & Hnc). rewrite Hlg.
        unfold res_okX. cbn [sr_events sr_out].
        split; [exact He|]. apply acc_of_match; assumption.
      * destruct H as (Hlen & [(m0 & Hm0 & Hfr1 & HB & Hsp)|(Hop & HM & Hsp)]).
        -- (* control frame in between *)
           rewrite Hfr1. injection Hm0 as <-. left.
           exists [], r1, (MBet m), (lg ++ [mkEv (sf_op f) (sf_payload f) true (m_comp m)]), rest.
           cbn [minvX mspec mdeliv mmsg]. split; [reflexivity|]. split; [exact HB|].
           split; [symmetry; apply app_nil_r|]. split; [reflexivity|]. split; [reflexivity|]. split.
           { unfold mu. rewrite Hfr, Hfr1. clear -Hlen. lia. }
           intros k evs He. exists (S k), (evs ++ [mkEv (sf_op f) (sf_payload f) true (m_comp m)]).
           split; [|apply Hsp]. apply evs_match_app; [exact He|]. apply ev_matches_same. left; reflexivity.
        -- (* next fragment: its first Read happens in the same call *)
           cbn [msg_of] in *. rewrite (mx_frame t x _ _ _ _ _ _ _ _ HM).
           pose proof (mx_pay t x _ _ _ _ _ _ _ _ HM) as Hpay. cbn [app] in Hpay.
           assert (Hmu1: (mu r1 < mu r)%nat).
           { unfold mu. rewrite Hfr, (mx_frame t x _ _ _ _ _ _ _ _ HM). clear -Hlen. lia. }
           destruct (rgo_stepX t x c m f [] (sf_payload f) lg rest r1 kk Hc HM Hk)
             as [(d & post' & r' & Hr & Hdp & HM' & Hmu)|[(r' & Hr & HB & Hmu & Hsp')|[(r' & Hr & HB & Hcp & Hle & Hsp')|(d & r' & Hr & Hlg & Hsp')]]].
           ++ left. exists d, r', (MMid m f ([] ++ d) post'), lg, rest. cbn [minvX mspec mdeliv mmsg].
              split; [exact Hr|]. split; [exact HM'|]. split; [reflexivity|]. split; [reflexivity|].
              split; [reflexivity|]. split; [clear -Hmu Hmu1; lia|].
              intros k evs He. exists k, evs. split; [exact He|apply Hsp].
           ++ left. exists (sf_payload f), r', (MBet (msg_after m f)), lg, rest. cbn [minvX mspec mdeliv mmsg].
              split; [exact Hr|]. split; [exact HB|]. split; [reflexivity|]. split; [reflexivity|].
              split; [reflexivity|]. split; [clear -Hmu Hmu1; lia|].
              intros k evs He. exists (S k), evs. split; [exact He|]. rewrite Hsp. apply Hsp'.
           ++ right; left. exists (sf_payload f), r', rest. split; [exact Hr|]. split; [exact HB|].
              split; [exact Hcp|]. split.
              { unfold mu in Hmu1. rewrite Hfr, (mx_frame t x _ _ _ _ _ _ _ _ HM) in Hmu1. clear -Hle Hmu1. lia. }
              intros k evs. exists (S k). rewrite Hsp, Hsp'. reflexivity.
           ++ right; right; left. exists d, RInvalidUtf8, r'. split; [exact Hr|]. split; [discriminate|].
              intros k evs He. rewrite Hsp, Hsp', Hlg. unfold res_okX. cbn [sr_events sr_out acc_err err_matches].
              split; [exact He|reflexivity].
Qed.

(* ------------------------------------------------------------------ reading one message to io.EOF *)
Lemma read_to_eof_specX c : wf_cfg c -> forall fuel st lg rest r bufs all racc,
  minvX c st lg rest r -> concat (rev_append racc []) = mdeliv st -> (mu r < fuel)%nat ->
  exists p e r2, read_to_eof fuel bufs all r racc = ((p, e), r2) /\
   ((e = RIo EEOF /\ exists lg' rest', BndX t x c None lg' rest' r2 /\
        (r_compressed r2 = m_comp (mmsg st) \/ spec_control (m_op (mmsg st)) = true) /\
        (length (flat (r_src r2)) <= length (flat (r_src r)))%nat /\
        forall k evs, evs_match evs lg = true -> exists k' evs', evs_match evs' lg' = true /\
           mspec c k st evs rest =
           spec_run c k' None (evs' ++ [mkEv (m_op (mmsg st)) p false (m_comp (mmsg st))]) rest')
    \/ (e <> RIo EEOF /\
        forall k evs, evs_match evs lg = true -> res_okX (mspec c k st evs rest) (r_log r2) e)).
Proof.
  intros Hc. induction fuel as [|fuel IH]; intros st lg rest r bufs all racc Hinv Hacc Hmu; [lia|].
  cbn [read_to_eof]. pose proof (next_buf_pos bufs all) as Hkk.
  destruct (next_buf bufs all) as [kk bufs']. cbn [fst] in Hkk.
  destruct (read_stepX c st lg rest r kk Hc Hinv Hkk)
    as [(d & r' & st' & lg' & rest' & Hr & Hinv' & Hdel & Hopq & Hcmq & Hmu' & Hsp)
       |[(d & r' & rest' & Hr & HB & Hcp & Hle & Hsp)|[(d & err & r' & Hr & Hne & Hsp)|(d & r' & Hr & HS & Hsp)]]];
    rewrite Hr.
  - assert (Hacc': concat (rev_append (d :: racc) []) = mdeliv st') by (rewrite concat_rev_cons, Hacc, Hdel; reflexivity).
    destruct (IH st' lg' rest' r' bufs' all (d :: racc) Hinv' Hacc' ltac:(lia)) as (p & e & r2 & Hrte & Hres).
    exists p, e, r2. split; [exact Hrte|]. rewrite Hopq, Hcmq in Hres.
    pose proof (mu_le _ _ Hmu') as Hle'.
    destruct Hres as [(He & lg2 & rest2 & HB & Hcp & Hle & Hsp2)|(Hne & Hsp2)].
    + left. split; [exact He|]. exists lg2, rest2. split; [exact HB|]. split; [exact Hcp|].
      split; [clear -Hle Hle'; lia|]. intros k evs Hev.
      destruct (Hsp k evs Hev) as (k1 & evs1 & Hev1 & Heq1).
      destruct (Hsp2 k1 evs1 Hev1) as (k2 & evs2 & Hev2 & Heq2).
      exists k2, evs2. split; [exact Hev2|]. rewrite Heq1. exact Heq2.
    + right. split; [exact Hne|]. intros k evs Hev.
      destruct (Hsp k evs Hev) as (k1 & evs1 & Hev1 & Heq1). rewrite Heq1. apply Hsp2, Hev1.
  - do 3 eexists. split; [reflexivity|]. left. split; [reflexivity|]. exists lg, rest'.
    split; [exact HB|]. split; [exact Hcp|]. split; [exact Hle|].
    intros k evs Hev. destruct (Hsp k evs) as (k1 & Heq1). exists k1, evs. split; [exact Hev|].
    rewrite concat_rev_cons, Hacc. exact Heq1.
  - do 3 eexists. split; [reflexivity|]. right. split; [exact Hne|].
    intros k evs Hev. apply Hsp, Hev.
  - destruct (short_read_to_eof lg fuel bufs' all r' (d :: racc) HS) as (p & e & r2 & Hrte & Hlg & Hne).
    exists p, e, r2. split; [exact Hrte|]. right. split; [exact Hne|].
    intros k evs Hev. destruct (Hsp k evs) as (p0 & ->). rewrite Hlg.
    unfold res_okX. cbn [sr_events sr_out acc_err]. split; [exact Hev|exact Hne].
Qed.

(* ------------------------------------------------------------------ the NextFrame / read-to-EOF loop *)
Lemma Bnd_set_logX c lg lg' rest r : BndX t x c None lg rest r ->
  BndX t x c None lg' rest
    (mkR (r_src r) (r_state r) (r_skip r) (r_check_utf8 r) (r_max r) (r_ext r) (r_compressed r) (r_cb r)
         (r_opcode r) (r_frame r) (r_rawN r) (r_masked r) (r_key r) (r_cpos r) (r_u8wrap r) (r_u8state r)
         (r_u8acc r) lg').
Proof. intros [H1 H2 H3 H4 H5 H6 H7]. constructor; rsimpl; try assumption; reflexivity. Qed.

Lemma drive_specX c bufs : wf_cfg c -> forall fuel fs k evs lg r,
  BndX t x c None lg fs r -> evs_match evs lg = true -> (length (wire fs ++ x) + 2 <= fuel)%nat ->
  res_okX (spec_run c k None evs fs) (dr_events (drive fuel bufs r)) (dr_err (drive fuel bufs r)).
Proof.
  intros Hc. induction fuel as [|fuel IH]; intros fs k evs lg r HB Hev Hfuel; [lia|].
  cbn [drive]. destruct fs as [|f rest].
  - destruct (Hend c None lg r Hc HB) as (h & e & r' & Hnf & H). rewrite Hnf.
    rewrite spec_run_nil. cbn [is_some]. unfold res_okX. cbn [sr_events sr_out acc_err].
    destruct e as [err|].
    + destruct H as [Hlg Heof]. cbn [dr_events dr_err]. rewrite Hlg. split; [exact Hev|].
      destruct err as [[| |]| | | | | | | |]; try (left; discriminate). right. apply Heof. reflexivity.
    + destruct (short_read_to_eof lg (S fuel) bufs bufs r' [] H) as (p & e2 & r2 & Hrte & Hlg & Hne).
      rewrite Hrte.
      assert (Hgoal: evs_match evs (r_log r2) = true /\ (e2 <> RIo EEOF \/ eof_ok = true)).
      { rewrite Hlg. split; [exact Hev|left; exact Hne]. }
      destruct e2 as [[| |]| | | | | | | |]; cbn [dr_events dr_err]; try exact Hgoal. exfalso; apply Hne; reflexivity.
  - pose proof (bx_src t x _ _ _ _ _ HB) as (_ & _ & Hfl).
    destruct (next_frame_specX t x Hxwf c None lg f rest r Hc HB) as (h & e & r1 & Hnf & H). rewrite Hnf.
    destruct e as [err|].
    + destruct H as (Hlg & Hsp). cbn [dr_events dr_partial dr_err].
      destruct (Hsp k evs) as (out & -> & Hem & Hnu & Hnc). rewrite Hlg. unfold res_okX.
      cbn [sr_events sr_out]. split; [exact Hev|]. apply acc_of_match; assumption.
    + destruct H as (Hlen & [(m0 & Hm0 & _)|(Hop & HM & Hsp)]); [discriminate|].
      rewrite Hfl in Hlen.
      assert (Hmu: (mu r1 < S fuel)%nat).
      { unfold mu. rewrite (mx_frame t x _ _ _ _ _ _ _ _ HM). clear -Hlen Hfuel. lia. }
      destruct (read_to_eof_specX c Hc (S fuel) (MMid (msg_of c None f) f [] (sf_payload f)) lg rest r1
                  bufs bufs [] HM eq_refl Hmu) as (p & e2 & r2 & Hrte & Hres).
      rewrite Hrte. cbn [mspec mmsg msg_of m_op m_comp fst snd] in Hres. cbn [msg_of] in Hsp.
      destruct Hres as [(-> & lg' & rest' & HB' & Hcp & Hle & Hsp2)|(Hne & Hsp2)].
      * destruct (Hsp2 k evs Hev) as (k' & evs' & Hev' & Heq). rewrite Hsp, Heq.
        apply IH with (lg := r_log r2 ++ [mkEv (h_op h) p false (r_compressed r2)]).
        -- apply Bnd_set_logX with (lg := lg'). exact HB'.
        -- rewrite (bx_log t x _ _ _ _ _ HB'). apply evs_match_app; [exact Hev'|]. rewrite Hop.
           apply ev_matches_same. destruct Hcp as [Hcp|Hcp]; [left; symmetry; exact Hcp|right; split; [exact Hcp|reflexivity]].
        -- pose proof (bx_src t x _ _ _ _ _ HB') as (_ & _ & Hfl'). rewrite <- Hfl'. clear -Hle Hlen Hfuel. lia.
      * assert (Hgoal: res_okX (spec_run c k None evs (f :: rest)) (r_log r2) e2)
          by (rewrite Hsp; apply Hsp2, Hev).
        destruct e2 as [[| |]| | | | | | | |]; try exact Hgoal. exfalso; apply Hne; reflexivity.
Qed.

End ExtP.
