(* ReaderIdleProofs.v — C04 on transports with idle reads ((0, nil) = an empty
   chunk). Every Reader operation on a transport [s] is related to the same
   operation on [strip s] (no empty chunks, hence [wf_src]): NextFrame (headers,
   the control-frame callback and drain all go through io.ReadFull, which steps
   over idle reads) and a frame.Read whose head chunk holds bytes COMMUTE with
   [strip]; a frame.Read on an empty head chunk inside a payload STUTTERS: it
   returns "0 bytes, no error" and only drops the chunk (and the per-call UTF-8
   counter). The invariants of ReaderInv.v are taken on the stripped reader; the
   loop lemmas of ReaderProofs.v are redone with a measure that counts idle reads.
   No side condition on where the idle reads are: also between the last byte and
   the end of the stream (io.ReadFull then still reports a clean io.EOF). *)
Require Import Bytes Stream Utf8Spec Check Frame Cipher Utf8Dfa Extracted ExtractedOk Reader
  BytesProofs StreamProofs CheckProofs FrameProofs CipherProofs Utf8Proofs ReaderLocalProofs
  ReaderAux ReaderInv ReaderProofs ReaderMoreProofs ReaderIdle StreamIdleProofs.
From Coq Require Import ZifyBool ZifyN ZifyNat.
Open Scope N_scope.

Notation sr := strip_reader.
Definition idle_r (r : reader) : nat := idle_reads (r_src r).

Ltac isimpl := unfold strip_reader, idle_r in *; rsimpl.
Ltac fin := repeat split; try assumption; try reflexivity; try lia; try congruence.

(* ------------------------------------------------------------------ NextFrame commutes with strip *)
Lemma reader_read_header_strip s :
  let '(out, s1) := reader_read_header s in
  reader_read_header (strip s) = (out, strip s1) /\
  (idle_reads s1 <= idle_reads s)%nat /\ tl s1 = tl s.
Proof.
  unfold reader_read_header.
  pose proof (read_full_strip 2 s) as H1.
  destruct (read_full 2 s) as [[b e] s1]. destruct H1 as (-> & Hid1 & Ht1).
  destruct e as [e|]; [fin|].
  destruct (parse_first2 (nthb b 0) (nthb b 1)) as [[h l7] extra].
  destruct (extra =? 0); [fin|].
  pose proof (read_full_strip extra s1) as H2.
  destruct (read_full extra s1) as [[x e2] s2]. destruct H2 as (-> & Hid2 & Ht2).
  destruct e2 as [e2|]; [fin|].
  destruct ((l7 =? 127) && negb (N.land (nthb x 0) 128 =? 0)); [fin|].
  destruct (l7 =? 126); [fin|]. destruct (l7 =? 127); fin.
Qed.

Lemma next_frame_strip r :
  let '(out, r1) := next_frame r in
  next_frame (sr r) = (out, sr r1) /\ (idle_r r1 <= idle_r r)%nat /\ tl (r_src r1) = tl (r_src r).
Proof.
  destruct r as [s st sk ck mx ex cp cb op fr rn mk ky cps uw us ua lg].
  unfold next_frame. isimpl.
  pose proof (reader_read_header_strip s) as H1.
  destruct (reader_read_header s) as [hr s1]. destruct H1 as (-> & Hid1 & Ht1).
  destruct hr as [e|hdr]; [isimpl; fin|].
  destruct (if sk then None else check_header hdr st) as [rl|]; [isimpl; fin|].
  destruct ((0 <? mx)%Z && (mx <? h_len hdr)%Z); [isimpl; fin|].
  destruct (if ex then unset_bits hdr cp else Some (hdr, cp)) as [[hdr' comp']|]; [|isimpl; fin].
  destruct (st_fragmented st && op_is_control (h_op hdr')); [|isimpl; fin].
  destruct cb.
  - unfold raw_drain. isimpl.
    pose proof (read_full_strip (Z.to_N (h_len hdr)) s1) as H2.
    destruct (read_full (Z.to_N (h_len hdr)) s1) as [[b e] s2]. destruct H2 as (-> & Hid2 & Ht2).
    destruct e as [[| |]|]; isimpl; fin.
  - unfold cb_read_all. isimpl.
    pose proof (read_full_strip (Z.to_N (h_len hdr)) s1) as H2.
    destruct (read_full (Z.to_N (h_len hdr)) s1) as [[b e] s2]. destruct H2 as (-> & Hid2 & Ht2).
    destruct e as [[| |]|]; try (isimpl; fin).
    unfold raw_drain. isimpl.
    pose proof (read_full_strip (Z.to_N (h_len hdr) - len b) s2) as H3.
    destruct (read_full (Z.to_N (h_len hdr) - len b) s2) as [[b3 e3] s3]. destruct H3 as (-> & Hid3 & Ht3).
    destruct e3 as [[| |]|]; isimpl; fin.
Qed.

(* ------------------------------------------------------------------ Read: commutes, or stutters *)
Lemma rat_eof_strip d r : rat_eof d (sr r) = let '(o, r') := rat_eof d r in (o, sr r').
Proof.
  destruct r as [s st sk ck mx ex cp cb op fr rn mk ky cps uw us ua lg]. unfold rat_eof. isimpl.
  destruct (negb (rn =? 0)); [reflexivity|]. destruct (st_fragmented st); [reflexivity|].
  destruct (ck && negb (us =? utf8_accept)); reflexivity.
Qed.

Lemma rat_eof_src d r : r_src (snd (rat_eof d r)) = r_src r.
Proof.
  unfold rat_eof. destruct (negb (r_rawN r =? 0)); [reflexivity|]. destruct (st_fragmented (r_state r)); [reflexivity|].
  destruct (r_check_utf8 r && negb (r_u8state r =? utf8_accept)); reflexivity.
Qed.

(* the head chunk holds bytes, the transport is at its end, or the payload is exhausted *)
Definition no_stutter (r : reader) : Prop := r_rawN r = 0 \/ forall cs, chunks (r_src r) <> [] :: cs.

Lemma frame_read_strip k r : no_stutter r ->
  let '(out, r1) := frame_read k r in
  frame_read k (sr r) = (out, sr r1) /\ idle_r r1 = idle_r r.
Proof.
  destruct r as [s st sk ck mx ex cp cb op fr rn mk ky cps uw us ua lg]. intros Hns.
  unfold no_stutter in Hns. unfold frame_read, raw_read. isimpl.
  destruct (rn =? 0) eqn:Ern.
  - isimpl. destruct mk, uw; cbn [u8_scan cipher]; isimpl; fin.
  - destruct Hns as [Hns|Hns]; [lia|].
    pose proof (read1_strip (N.min k rn) s Hns) as H1.
    destruct (read1 (N.min k rn) s) as [[b e] s1]. destruct H1 as (-> & Hid1).
    isimpl. destruct uw.
    + destruct (u8_scan us 0 0 (if mk then cipher b ky cps else b)) as [[st' acc] rej].
      destruct rej; isimpl; fin.
    + isimpl; fin.
Qed.

Lemma rgo_strip k r : no_stutter r ->
  let '(out, r') := rgo k r in
  rgo k (sr r) = (out, sr r') /\ idle_r r' = idle_r r.
Proof.
  intros Hns. unfold rgo.
  pose proof (frame_read_strip k r Hns) as H1.
  destruct (frame_read k r) as [[data e] r2]. destruct H1 as (-> & Hid2).
  change (r_rawN (sr r2)) with (r_rawN r2).
  assert (HE: let '(o, r') := rat_eof data r2 in
              rat_eof data (sr r2) = (o, sr r') /\ idle_r r' = idle_r r).
  { rewrite rat_eof_strip. pose proof (rat_eof_src data r2) as Hs.
    destruct (rat_eof data r2) as [o r']. cbn [snd] in Hs. unfold idle_r in *. rewrite Hs. fin. }
  destruct e as [[[| |]| | | | | | | |]|]; try (fin; fail); try exact HE.
  destruct (negb (r_rawN r2 =? 0)); [fin|exact HE].
Qed.

(* the reader after an idle read: the chunk is gone, the per-call UTF-8 counter may differ *)
Definition after_idle (r : reader) (cs : list (list byte)) (acc : N) : reader :=
  mkR (mkSrc cs (tl (r_src r))) (r_state r) (r_skip r) (r_check_utf8 r) (r_max r) (r_ext r) (r_compressed r) (r_cb r)
      (r_opcode r) (r_frame r) (r_rawN r) (r_masked r) (r_key r) (r_cpos r)
      (r_u8wrap r) (r_u8state r) acc (r_log r).

Lemma rgo_idle k r cs : chunks (r_src r) = [] :: cs -> r_rawN r <> 0 ->
  exists acc, rgo k r = (([], None), after_idle r cs acc).
Proof.
  destruct r as [s st sk ck mx ex cp cb op fr rn mk ky cps uw us ua lg]. isimpl. intros E Hrn.
  unfold rgo, frame_read, raw_read, after_idle. isimpl.
  replace (rn =? 0) with false by lia. rewrite (read1_idle _ s cs E). isimpl.
  change (len (@nil byte)) with 0. rewrite N.sub_0_r, N.add_0_r.
  assert (E1: (if mk then cipher [] ky cps else []) = []) by (destruct mk; reflexivity).
  assert (E2: (if mk then cps else cps) = cps) by (destruct mk; reflexivity).
  rewrite E1, E2. cbn [u8_scan cut_err option_map].
  destruct uw; isimpl; replace (negb (rn =? 0)) with true by lia; eexists; reflexivity.
Qed.

Lemma strip_after_idle r cs acc : chunks (r_src r) = [] :: cs ->
  sr (after_idle r cs acc) =
  mkR (strip (r_src r)) (r_state r) (r_skip r) (r_check_utf8 r) (r_max r) (r_ext r) (r_compressed r) (r_cb r)
      (r_opcode r) (r_frame r) (r_rawN r) (r_masked r) (r_key r) (r_cpos r)
      (r_u8wrap r) (r_u8state r) acc (r_log r).
Proof.
  intros E. unfold after_idle. isimpl. unfold strip. cbn [chunks tl]. rewrite E, strip_cons_idle. reflexivity.
Qed.

(* ------------------------------------------------------------------ the invariants, on the stripped reader *)
Definition Bnd' c openm lg rest r : Prop := Bnd c openm lg rest (sr r).
Definition Mid' c m f pre post lg rest r : Prop := Mid c m f pre post lg rest (sr r).

(* bytes still on the wire + idle reads still to come *)
Definition sz (r : reader) : nat := (length (flat (r_src r)) + idle_r r)%nat.
Definition mu' (r : reader) : nat := (sz r + (if r_frame r then 1 else 0))%nat.

Lemma flat_sr r : flat (r_src (sr r)) = flat (r_src r).
Proof. apply flat_strip. Qed.
Lemma mu_sr r : mu (sr r) = mu r.
Proof. unfold mu. rewrite flat_sr. reflexivity. Qed.

Lemma Mid_after_idle c m f pre post lg rest r cs acc : chunks (r_src r) = [] :: cs ->
  Mid c m f pre post lg rest (sr r) -> Mid c m f pre post lg rest (sr (after_idle r cs acc)).
Proof.
  intros E [H1 H2 H3 H4 H5 H6 H7 H8 H9 H10 H11 H12 H13 H14 H15 H16 H17 H18].
  rewrite (strip_after_idle r cs acc E). unfold strip_reader in *.
  constructor; rsimpl; try assumption.
Qed.

Lemma next_frame_eof' c openm lg r : Bnd' c openm lg [] r ->
  exists h r', next_frame r = ((h, Some (RIo (if is_some openm then EUnexpected else EEOF))), r')
               /\ r_log r' = lg.
Proof.
  intros HB. destruct (next_frame_eof c openm lg (sr r) HB) as (h & r2 & Hnf & Hlg).
  pose proof (next_frame_strip r) as S. destruct (next_frame r) as [out r1]. destruct S as (S1 & _).
  rewrite Hnf in S1. injection S1 as <- ->. exists h, r1. split; [reflexivity|exact Hlg].
Qed.

Lemma next_frame_spec' c openm lg f rest r : wf_cfg c -> Bnd' c openm lg (f :: rest) r ->
  exists h e r', next_frame r = ((h, e), r') /\
  match e with
  | Some err =>
      r_log r' = lg /\
      forall k evs, exists out, spec_run c k openm evs (f :: rest) = mkSR evs (partial_of openm) out
                                /\ err_matches out err = true /\ out <> OInvalidUtf8 /\ out <> OClean
  | None =>
      (sz r' + 2 <= sz r)%nat /\
      ((exists m, openm = Some m /\ r_frame r' = false /\
          Bnd' c openm (lg ++ [mkEv (sf_op f) (sf_payload f) true (m_comp m)]) rest r' /\
          forall k evs, spec_run c k openm evs (f :: rest) =
                        spec_run c (S k) openm (evs ++ [mkEv (sf_op f) (sf_payload f) true (m_comp m)]) rest)
       \/ (h_op h = sf_op f /\ Mid' c (msg_of c openm f) f [] (sf_payload f) lg rest r' /\
           forall k evs, spec_run c k openm evs (f :: rest) = spec_data c k (msg_of c openm f) evs f rest))
  end.
Proof.
  intros Hc HB. destruct (next_frame_spec c openm lg f rest (sr r) Hc HB) as (h & e & r2 & Hnf & H).
  pose proof (next_frame_strip r) as S. destruct (next_frame r) as [out r1]. destruct S as (S1 & Hid1 & _).
  rewrite Hnf in S1. injection S1 as <- ->. exists h, e, r1. split; [reflexivity|].
  destruct e as [err|]; [exact H|].
  destruct H as (Hlen & H). rewrite !flat_sr in Hlen. split; [unfold sz; lia|].
  destruct H as [(m0 & Hm0 & Hfr & HB1 & Hsp)|(Hop & HM & Hsp)].
  - left. exists m0. split; [exact Hm0|]. split; [exact Hfr|]. split; [exact HB1|exact Hsp].
  - right. split; [exact Hop|]. split; [exact HM|exact Hsp].
Qed.

Lemma rgo_step_ns c m f pre post lg rest r kk : wf_cfg c -> Mid' c m f pre post lg rest r -> 0 < kk ->
  no_stutter r ->
  (exists d post' r', rgo kk r = ((d, None), r') /\ post = d ++ post' /\
      Mid' c m f (pre ++ d) post' lg rest r' /\ (mu' r' < mu' r)%nat) \/
  (exists r', rgo kk r = ((post, None), r') /\ Bnd' c (Some (msg_after m f)) lg rest r' /\ (mu' r' < mu' r)%nat /\
      forall k evs, spec_data c k m evs f rest = spec_run c (S k) (Some (msg_after m f)) evs rest) \/
  (exists r', rgo kk r = ((post, Some (RIo EEOF)), r') /\ Bnd' c None lg rest r'
      /\ (r_compressed r' = m_comp m \/ spec_control (m_op m) = true)
      /\ (sz r' <= sz r)%nat /\
      forall k evs, spec_data c k m evs f rest =
        spec_run c (S k) None (evs ++ [mkEv (m_op m) (m_acc m ++ sf_payload f) false (m_comp m)]) rest) \/
  (exists d r', rgo kk r = ((d, Some RInvalidUtf8), r') /\ r_log r' = lg /\
      forall k evs, spec_data c k m evs f rest = mkSR evs [] OInvalidUtf8).
Proof.
  intros Hc HM Hk Hns.
  pose proof (rgo_strip kk r Hns) as S. destruct (rgo kk r) as [out r1]. destruct S as (S1 & Hid1).
  assert (Hmu: forall a b, (mu (sr a) < mu (sr b))%nat -> idle_r a = idle_r b -> (mu' a < mu' b)%nat).
  { intros a b. rewrite !mu_sr. unfold mu, mu', sz. lia. }
  destruct (rgo_step c m f pre post lg rest (sr r) kk Hc HM Hk)
    as [(d & post' & r2 & Hr & Hdp & HM2 & Hmu2)|[(r2 & Hr & HB & Hmu2 & Hsp)|[(r2 & Hr & HB & Hcp & Hle & Hsp)|(d & r2 & Hr & Hlg & Hsp)]]];
    rewrite Hr in S1; injection S1 as <- ->.
  - left. exists d, post', r1. split; [reflexivity|]. split; [exact Hdp|]. split; [exact HM2|].
    apply Hmu; assumption.
  - right; left. exists r1. split; [reflexivity|]. split; [exact HB|]. split; [apply Hmu; assumption|exact Hsp].
  - right; right; left. exists r1. split; [reflexivity|]. split; [exact HB|]. split; [exact Hcp|].
    split; [|exact Hsp]. rewrite !flat_sr in Hle. unfold sz. lia.
  - right; right; right. exists d, r1. split; [reflexivity|]. split; [exact Hlg|exact Hsp].
Qed.

Lemma rgo_step' c m f pre post lg rest r kk : wf_cfg c -> Mid' c m f pre post lg rest r -> 0 < kk ->
  (exists d post' r', rgo kk r = ((d, None), r') /\ post = d ++ post' /\
      Mid' c m f (pre ++ d) post' lg rest r' /\ (mu' r' < mu' r)%nat) \/
  (exists r', rgo kk r = ((post, None), r') /\ Bnd' c (Some (msg_after m f)) lg rest r' /\ (mu' r' < mu' r)%nat /\
      forall k evs, spec_data c k m evs f rest = spec_run c (S k) (Some (msg_after m f)) evs rest) \/
  (exists r', rgo kk r = ((post, Some (RIo EEOF)), r') /\ Bnd' c None lg rest r'
      /\ (r_compressed r' = m_comp m \/ spec_control (m_op m) = true)
      /\ (sz r' <= sz r)%nat /\
      forall k evs, spec_data c k m evs f rest =
        spec_run c (S k) None (evs ++ [mkEv (m_op m) (m_acc m ++ sf_payload f) false (m_comp m)]) rest) \/
  (exists d r', rgo kk r = ((d, Some RInvalidUtf8), r') /\ r_log r' = lg /\
      forall k evs, spec_data c k m evs f rest = mkSR evs [] OInvalidUtf8).
Proof.
  intros Hc HM' Hk.
  destruct (r_rawN r =? 0) eqn:Ern.
  { apply rgo_step_ns; try assumption. left. lia. }
  destruct (chunks (r_src r)) as [|[|x c0] cs] eqn:E.
  - apply rgo_step_ns; try assumption. right. rewrite E. discriminate.
  - (* an idle read inside the payload *)
    pose proof HM' as HM.
    destruct (rgo_idle kk r cs E ltac:(lia)) as (acc & Hr).
    left. exists [], post, (after_idle r cs acc). split; [exact Hr|]. split; [reflexivity|]. split.
    + rewrite app_nil_r. apply Mid_after_idle; assumption.
    + unfold mu', sz, idle_r, idle_reads, flat, after_idle. rsimpl. cbn [chunks]. rewrite E, idle_cons_idle.
      cbn [concat app]. lia.
  - apply rgo_step_ns; try assumption. right. rewrite E. discriminate.
Qed.

(* ------------------------------------------------------------------ projections of the primed invariants *)
Lemma Mid'_frame c m f pre post lg rest r : Mid' c m f pre post lg rest r -> r_frame r = true.
Proof. intros H. exact (m_frame _ _ _ _ _ _ _ _ H). Qed.
Lemma Mid'_pay c m f pre post lg rest r : Mid' c m f pre post lg rest r -> sf_payload f = pre ++ post.
Proof. intros H. exact (m_pay _ _ _ _ _ _ _ _ H). Qed.
Lemma Mid'_log c m f pre post lg rest r : Mid' c m f pre post lg rest r -> r_log r = lg.
Proof. intros H. exact (m_log _ _ _ _ _ _ _ _ H). Qed.
Lemma Bnd'_frame c m lg rest r : Bnd' c (Some m) lg rest r -> r_frame r = false.
Proof. intros H. exact (proj1 (b_msg _ _ _ _ _ H)). Qed.
Lemma Bnd'_state c openm lg rest r : Bnd' c openm lg rest r -> r_state r = set_fragmented (c_state c) (is_some openm).
Proof. intros H. exact (b_state _ _ _ _ _ H). Qed.
Lemma Bnd'_log c openm lg rest r : Bnd' c openm lg rest r -> r_log r = lg.
Proof. intros H. exact (b_log _ _ _ _ _ H). Qed.
Lemma Bnd'_flat c openm lg rest r : Bnd' c openm lg rest r -> flat (r_src r) = wire rest.
Proof. intros H. destruct (b_src _ _ _ _ _ H) as (_ & _ & Hf). rewrite flat_sr in Hf. exact Hf. Qed.
Lemma Bnd'_tl c openm lg rest r : Bnd' c openm lg rest r -> tl (r_src r) = TEOF.
Proof. intros H. destruct (b_src _ _ _ _ _ H) as (_ & Ht & _). exact Ht. Qed.
Lemma Bnd'_wf c openm lg rest r : Bnd' c openm lg rest r -> Forall wf_sframe rest.
Proof. intros H. exact (b_wf _ _ _ _ _ H). Qed.

Definition minv' (c : rcfg) (st : mst) (lg : list event) (rest : list sframe) (r : reader) : Prop :=
  match st with
  | MMid m f pre post => Mid' c m f pre post lg rest r
  | MBet m => Bnd' c (Some m) lg rest r
  end.

(* ------------------------------------------------------------------ one Read inside a message *)
Lemma read_step' c st lg rest r kk : wf_cfg c -> minv' c st lg rest r -> 0 < kk ->
  (exists d r' st' lg' rest', reader_read kk r = ((d, None), r') /\ minv' c st' lg' rest' r' /\
      mdeliv st' = mdeliv st ++ d /\ m_op (mmsg st') = m_op (mmsg st) /\ m_comp (mmsg st') = m_comp (mmsg st) /\
      (mu' r' < mu' r)%nat /\
      forall k evs, evs_match evs lg = true ->
        exists k' evs', evs_match evs' lg' = true /\ mspec c k st evs rest = mspec c k' st' evs' rest') \/
  (exists d r' rest', reader_read kk r = ((d, Some (RIo EEOF)), r') /\ Bnd' c None lg rest' r' /\
      (r_compressed r' = m_comp (mmsg st) \/ spec_control (m_op (mmsg st)) = true) /\
      (sz r' <= sz r)%nat /\
      forall k evs, exists k', mspec c k st evs rest =
        spec_run c k' None (evs ++ [mkEv (m_op (mmsg st)) (mdeliv st ++ d) false (m_comp (mmsg st))]) rest') \/
  (exists d err r', reader_read kk r = ((d, Some err), r') /\ err <> RIo EEOF /\
      forall k evs, evs_match evs lg = true -> res_ok (mspec c k st evs rest) (r_log r') (mdeliv st ++ d) err).
Proof.
  intros Hc Hinv Hk. destruct st as [m f pre post|m]; cbn [minv' mspec mdeliv mmsg] in *.
  - (* inside a frame *)
    rewrite reader_read_eq, (Mid'_frame _ _ _ _ _ _ _ _ Hinv).
    pose proof (Mid'_pay _ _ _ _ _ _ _ _ Hinv) as Hpay.
    destruct (rgo_step' c m f pre post lg rest r kk Hc Hinv Hk)
      as [(d & post' & r' & Hr & Hdp & HM & Hmu)|[(r' & Hr & HB & Hmu & Hsp)|[(r' & Hr & HB & Hcp & Hle & Hsp)|(d & r' & Hr & Hlg & Hsp)]]].
    + left. exists d, r', (MMid m f (pre ++ d) post'), lg, rest. cbn [minv' mspec mdeliv mmsg].
      split; [exact Hr|]. split; [exact HM|]. split; [apply app_assoc|]. split; [reflexivity|]. split; [reflexivity|].
      split; [exact Hmu|]. intros k evs He. exists k, evs. split; [exact He|reflexivity].
    + left. exists post, r', (MBet (msg_after m f)), lg, rest. cbn [minv' mspec mdeliv mmsg].
      split; [exact Hr|]. split; [exact HB|]. split.
      { unfold msg_after. cbn [m_acc fst snd]. rewrite Hpay. apply app_assoc. }
      split; [reflexivity|]. split; [reflexivity|]. split; [exact Hmu|].
      intros k evs He. exists (S k), evs. split; [exact He|apply Hsp].
    + right; left. exists post, r', rest. split; [exact Hr|]. split; [exact HB|]. split; [exact Hcp|].
      split; [exact Hle|]. intros k evs. exists (S k). rewrite Hsp, Hpay, app_assoc. reflexivity.
    + right; right. exists d, RInvalidUtf8, r'. split; [exact Hr|]. split; [discriminate|].
      intros k evs He. rewrite Hsp, Hlg. unfold res_ok. cbn [sr_events sr_out sr_partial err_matches].
      split; [exact He|]. split; [reflexivity|left; reflexivity].
  - (* between two fragments: the next header first *)
    pose proof (Bnd'_frame _ _ _ _ _ Hinv) as Hfr.
    rewrite reader_read_eq, Hfr, (Bnd'_state _ _ _ _ _ Hinv), st_frag_set. cbn [negb is_some].
    destruct rest as [|f rest].
    + destruct (next_frame_eof' c (Some m) lg r Hinv) as (h & r' & Hnf & Hlg). rewrite Hnf. cbn [is_some].
      right; right. exists [], (RIo EUnexpected), r'. split; [reflexivity|]. split; [discriminate|].
      intros k evs He. rewrite spec_run_nil, Hlg, app_nil_r. destruct m as [[o a] cm].
      unfold res_ok. cbn [sr_events sr_out sr_partial err_matches is_some partial_of m_acc fst snd].
      split; [exact He|]. split; [reflexivity|right; reflexivity].
    + destruct (next_frame_spec' c (Some m) lg f rest r Hc Hinv) as (h & e & r1 & Hnf & H). rewrite Hnf.
      destruct e as [err|].
      * destruct H as (Hlg & Hsp). right; right. exists [], err, r1. split; [reflexivity|].
        split.
        { intros ->. destruct (Hsp 0%nat []) as (out & _ & Hem & _ & Hnc).
          destruct out; cbn [err_matches] in Hem; try discriminate. apply Hnc; reflexivity. }
        intros k evs He. destruct (Hsp k evs) as (out & -> & Hem & Hnu & _). rewrite Hlg, app_nil_r.
        destruct m as [[o a] cm]. unfold res_ok. cbn [sr_events sr_out sr_partial partial_of m_acc fst snd].
        split; [exact He|]. split; [exact Hem|right; reflexivity].
      * destruct H as (Hlen & [(m0 & Hm0 & Hfr1 & HB & Hsp)|(Hop & HM & Hsp)]).
        -- (* control frame in between *)
           rewrite Hfr1. injection Hm0 as <-. left.
           exists [], r1, (MBet m), (lg ++ [mkEv (sf_op f) (sf_payload f) true (m_comp m)]), rest.
           cbn [minv' mspec mdeliv mmsg]. split; [reflexivity|]. split; [exact HB|].
           split; [symmetry; apply app_nil_r|]. split; [reflexivity|]. split; [reflexivity|]. split.
           { unfold mu'. rewrite Hfr, Hfr1. clear -Hlen. lia. }
           intros k evs He. exists (S k), (evs ++ [mkEv (sf_op f) (sf_payload f) true (m_comp m)]).
           split; [|apply Hsp]. apply evs_match_app; [exact He|]. apply ev_matches_same. left; reflexivity.
        -- (* next fragment: its first Read happens in the same call *)
           cbn [msg_of] in *. rewrite (Mid'_frame _ _ _ _ _ _ _ _ HM).
           pose proof (Mid'_pay _ _ _ _ _ _ _ _ HM) as Hpay. cbn [app] in Hpay.
           assert (Hmu1: (mu' r1 < mu' r)%nat).
           { unfold mu'. rewrite Hfr, (Mid'_frame _ _ _ _ _ _ _ _ HM). clear -Hlen. lia. }
           destruct (rgo_step' c m f [] (sf_payload f) lg rest r1 kk Hc HM Hk)
             as [(d & post' & r' & Hr & Hdp & HM' & Hmu)|[(r' & Hr & HB & Hmu & Hsp')|[(r' & Hr & HB & Hcp & Hle & Hsp')|(d & r' & Hr & Hlg & Hsp')]]].
           ++ left. exists d, r', (MMid m f ([] ++ d) post'), lg, rest. cbn [minv' mspec mdeliv mmsg].
              split; [exact Hr|]. split; [exact HM'|]. split; [reflexivity|]. split; [reflexivity|].
              split; [reflexivity|]. split; [clear -Hmu Hmu1; lia|].
              intros k evs He. exists k, evs. split; [exact He|apply Hsp].
           ++ left. exists (sf_payload f), r', (MBet (msg_after m f)), lg, rest. cbn [minv' mspec mdeliv mmsg].
              split; [exact Hr|]. split; [exact HB|]. split; [reflexivity|]. split; [reflexivity|].
              split; [reflexivity|]. split; [clear -Hmu Hmu1; lia|].
              intros k evs He. exists (S k), evs. split; [exact He|]. rewrite Hsp. apply Hsp'.
           ++ right; left. exists (sf_payload f), r', rest. split; [exact Hr|]. split; [exact HB|].
              split; [exact Hcp|]. split.
              { unfold mu' in Hmu1. rewrite Hfr, (Mid'_frame _ _ _ _ _ _ _ _ HM) in Hmu1. clear -Hle Hmu1. lia. }
              intros k evs. exists (S k). rewrite Hsp, Hsp'. reflexivity.
           ++ right; right. exists d, RInvalidUtf8, r'. split; [exact Hr|]. split; [discriminate|].
              intros k evs He. rewrite Hsp, Hsp', Hlg. unfold res_ok. cbn [sr_events sr_out sr_partial err_matches].
              split; [exact He|]. split; [reflexivity|left; reflexivity].
Qed.

(* ------------------------------------------------------------------ reading one message to io.EOF *)
Lemma mu'_le r r' : (mu' r' < mu' r)%nat -> (sz r' <= sz r)%nat.
Proof. unfold mu'. destruct (r_frame r), (r_frame r'); lia. Qed.

Lemma read_to_eof_spec' c : wf_cfg c -> forall fuel st lg rest r bufs all racc,
  minv' c st lg rest r -> concat (rev_append racc []) = mdeliv st -> (mu' r < fuel)%nat ->
  exists p e r2, read_to_eof fuel bufs all r racc = ((p, e), r2) /\
   ((e = RIo EEOF /\ exists lg' rest', Bnd' c None lg' rest' r2 /\
        (r_compressed r2 = m_comp (mmsg st) \/ spec_control (m_op (mmsg st)) = true) /\
        (sz r2 <= sz r)%nat /\
        forall k evs, evs_match evs lg = true -> exists k' evs', evs_match evs' lg' = true /\
           mspec c k st evs rest =
           spec_run c k' None (evs' ++ [mkEv (m_op (mmsg st)) p false (m_comp (mmsg st))]) rest')
    \/ (e <> RIo EEOF /\
        forall k evs, evs_match evs lg = true -> res_ok (mspec c k st evs rest) (r_log r2) p e)).
Proof.
  intros Hc. induction fuel as [|fuel IH]; intros st lg rest r bufs all racc Hinv Hacc Hmu; [lia|].
  cbn [read_to_eof]. pose proof (next_buf_pos bufs all) as Hkk.
  destruct (next_buf bufs all) as [kk bufs']. cbn [fst] in Hkk.
  destruct (read_step' c st lg rest r kk Hc Hinv Hkk)
    as [(d & r' & st' & lg' & rest' & Hr & Hinv' & Hdel & Hopq & Hcmq & Hmu' & Hsp)
       |[(d & r' & rest' & Hr & HB & Hcp & Hle & Hsp)|(d & err & r' & Hr & Hne & Hsp)]]; rewrite Hr.
  - assert (Hacc': concat (rev_append (d :: racc) []) = mdeliv st') by (rewrite concat_rev_cons, Hacc, Hdel; reflexivity).
    destruct (IH st' lg' rest' r' bufs' all (d :: racc) Hinv' Hacc' ltac:(lia)) as (p & e & r2 & Hrte & Hres).
    exists p, e, r2. split; [exact Hrte|]. rewrite Hopq, Hcmq in Hres.
    pose proof (mu'_le _ _ Hmu') as Hle'.
    destruct Hres as [(He & lg2 & rest2 & HB & Hcp & Hle & Hsp2)|(Hne & Hsp2)].
    + left. split; [exact He|]. exists lg2, rest2. split; [exact HB|]. split; [exact Hcp|].
      split; [clear -Hle Hle'; lia|]. intros k evs Hev.
      destruct (Hsp k evs Hev) as (k1 & evs1 & Hev1 & Heq1).
      destruct (Hsp2 k1 evs1 Hev1) as (k2 & evs2 & Hev2 & Heq2).
      exists k2, evs2. split; [exact Hev2|]. rewrite Heq1. exact Heq2.
    + right. split; [exact Hne|]. intros k evs Hev.
      destruct (Hsp k evs Hev) as (k1 & evs1 & Hev1 & Heq1). rewrite Heq1. apply Hsp2, Hev1.
  - do 3 eexists. split; [reflexivity|]. left. split; [reflexivity|]. exists lg, rest'.
    split; [exact HB|]. split; [exact Hcp|]. split; [exact Hle|].
    intros k evs Hev. destruct (Hsp k evs) as (k1 & Heq1). exists k1, evs. split; [exact Hev|].
    rewrite concat_rev_cons, Hacc. exact Heq1.
  - do 3 eexists. split; [reflexivity|]. right. split; [exact Hne|].
    intros k evs Hev. rewrite concat_rev_cons, Hacc. apply Hsp, Hev.
Qed.

(* ------------------------------------------------------------------ the NextFrame / read-to-EOF loop *)
Lemma Bnd'_set_log c lg lg' rest r : Bnd' c None lg rest r ->
  Bnd' c None lg' rest
    (mkR (r_src r) (r_state r) (r_skip r) (r_check_utf8 r) (r_max r) (r_ext r) (r_compressed r) (r_cb r)
         (r_opcode r) (r_frame r) (r_rawN r) (r_masked r) (r_key r) (r_cpos r) (r_u8wrap r) (r_u8state r)
         (r_u8acc r) lg').
Proof. intros H. exact (Bnd_set_log c lg lg' rest (sr r) H). Qed.

Lemma drive_spec' c bufs : wf_cfg c -> forall fuel fs k evs lg r,
  Bnd' c None lg fs r -> evs_match evs lg = true -> (sz r + 2 <= fuel)%nat ->
  res_ok (spec_run c k None evs fs) (dr_events (drive fuel bufs r)) (dr_partial (drive fuel bufs r))
         (dr_err (drive fuel bufs r)).
Proof.
  intros Hc. induction fuel as [|fuel IH]; intros fs k evs lg r HB Hev Hfuel; [lia|].
  cbn [drive]. destruct fs as [|f rest].
  - destruct (next_frame_eof' c None lg r HB) as (h & r' & Hnf & Hlg). rewrite Hnf. cbn [is_some].
    cbn [dr_events dr_partial dr_err]. rewrite spec_run_nil, Hlg. unfold res_ok.
    cbn [sr_events sr_out sr_partial is_some partial_of err_matches].
    split; [exact Hev|]. split; [reflexivity|right; reflexivity].
  - destruct (next_frame_spec' c None lg f rest r Hc HB) as (h & e & r1 & Hnf & H). rewrite Hnf.
    destruct e as [err|].
    + destruct H as (Hlg & Hsp). cbn [dr_events dr_partial dr_err].
      destruct (Hsp k evs) as (out & -> & Hem & Hnu & _). rewrite Hlg. unfold res_ok.
      cbn [sr_events sr_out sr_partial partial_of]. split; [exact Hev|]. split; [exact Hem|right; reflexivity].
    + destruct H as (Hlen & [(m0 & Hm0 & _)|(Hop & HM & Hsp)]); [discriminate|].
      assert (Hmu: (mu' r1 < S fuel)%nat).
      { unfold mu'. rewrite (Mid'_frame _ _ _ _ _ _ _ _ HM). clear -Hlen Hfuel. lia. }
      destruct (read_to_eof_spec' c Hc (S fuel) (MMid (msg_of c None f) f [] (sf_payload f)) lg rest r1
                  bufs bufs [] HM eq_refl Hmu) as (p & e2 & r2 & Hrte & Hres).
      rewrite Hrte. cbn [mspec mmsg msg_of m_op m_comp fst snd] in Hres. cbn [msg_of] in Hsp.
      destruct Hres as [(-> & lg' & rest' & HB' & Hcp & Hle & Hsp2)|(Hne & Hsp2)].
      * destruct (Hsp2 k evs Hev) as (k' & evs' & Hev' & Heq). rewrite Hsp, Heq.
        apply IH with (lg := r_log r2 ++ [mkEv (h_op h) p false (r_compressed r2)]).
        -- apply Bnd'_set_log with (lg := lg'). exact HB'.
        -- rewrite (Bnd'_log _ _ _ _ _ HB'). apply evs_match_app; [exact Hev'|]. rewrite Hop.
           apply ev_matches_same. destruct Hcp as [Hcp|Hcp]; [left; symmetry; exact Hcp|right; split; [exact Hcp|reflexivity]].
        -- unfold sz, idle_r in *. rsimpl. clear -Hle Hlen Hfuel. lia.
      * assert (Hgoal: res_ok (spec_run c k None evs (f :: rest)) (r_log r2) p e2)
          by (rewrite Hsp; apply Hsp2, Hev).
        destruct e2 as [[| |]| | | | | | | |]; try exact Hgoal. exfalso; apply Hne; reflexivity.
Qed.

(* ------------------------------------------------------------------ C04 with idle reads *)
Lemma new_reader_bnd' c fs s : wf_cfg c -> Forall wf_sframe fs -> tl s = TEOF ->
  flat s = wire fs ->
  Bnd' c None [] fs (new_reader s (c_state c) false (c_check_utf8 c) (c_max c) (c_ext c) CbReadAll).
Proof.
  intros Hc Hfs Ht Hfl. unfold Bnd'.
  unfold new_reader, strip_reader. rsimpl. constructor; rsimpl; cbn [is_some].
  - unfold cfg_ok; rsimpl. repeat split; reflexivity.
  - unfold src_ok; rsimpl. split; [apply wf_strip|]. split; [exact Ht|]. rewrite flat_strip. exact Hfl.
  - exact Hfs.
  - reflexivity.
  - symmetry. apply set_frag_init, Hc.
  - reflexivity.
  - reflexivity.
Qed.

Theorem reader_meets_spec_idle : forall c fs s bufs fuel,
  wf_cfg c -> Forall wf_sframe fs -> tl s = TEOF -> flat s = wire fs ->
  (length (wire fs) + idle_reads s + 2 <= fuel)%nat ->
  let d := drive fuel bufs (new_reader s (c_state c) false (c_check_utf8 c) (c_max c) (c_ext c) CbReadAll) in
  reader_monitor c true fs (dr_events d) (Some (dr_partial d)) (dr_err d) = true.
Proof.
  intros c fs s bufs fuel Hc Hfs Ht Hfl Hfuel. cbv zeta. apply res_ok_monitor.
  apply drive_spec' with (lg := []); [exact Hc| |reflexivity|].
  - apply new_reader_bnd'; assumption.
  - unfold sz, idle_r, new_reader. rsimpl. rewrite Hfl. lia.
Qed.

Theorem reader_valid_stream_idle : forall c fs s bufs fuel,
  wf_cfg c -> Forall wf_sframe fs -> tl s = TEOF -> flat s = wire fs ->
  (length (wire fs) + idle_reads s + 2 <= fuel)%nat ->
  sr_out (spec_run c 0 None [] fs) = OClean ->
  let d := drive fuel bufs (new_reader s (c_state c) false (c_check_utf8 c) (c_max c) (c_ext c) CbReadAll) in
  dr_err d = RIo EEOF /\ evs_match (sr_events (spec_run c 0 None [] fs)) (dr_events d) = true.
Proof.
  intros c fs s bufs fuel Hc Hfs Ht Hfl Hfuel Hout. cbv zeta.
  pose proof (reader_meets_spec_idle c fs s bufs fuel Hc Hfs Ht Hfl Hfuel) as H. cbv zeta in H.
  unfold reader_monitor, expected_events in H. rewrite Hout in H.
  apply andb_true_iff in H. destruct H as [H _]. apply andb_true_iff in H. destruct H as [H1 H2].
  split; [|exact H1]. unfold err_matches in H2.
  destruct (dr_err _) as [[| |]| | | | | | | |]; try discriminate. reflexivity.
Qed.

(* ------------------------------------------------------------------ helper.go:ReadMessage, repeated *)

Lemma read_messages_spec' state bufs : wf_cfg (rm_cfg state) -> forall fuel fs k evs acc s,
  Forall wf_sframe fs -> tl s = TEOF -> flat s = wire fs ->
  evs_match evs acc = true -> (length (wire fs) + idle_reads s + 2 <= fuel)%nat ->
  let res := spec_run (rm_cfg state) k None evs fs in
  evs_match (sr_events res) (fst (read_messages fuel bufs s state acc)) = true /\
  err_matches (sr_out res) (snd (read_messages fuel bufs s state acc)) = true.
Proof.
  intros Hc. set (c := rm_cfg state) in *.
  induction fuel as [|fuel IH]; intros fs k evs acc s Hfs Ht Hfl Hev Hfuel; [lia|].
  cbv zeta. cbn [read_messages]. unfold read_message.
  pose proof (new_reader_bnd' c fs s Hc Hfs Ht Hfl) as HB.
  change (new_reader s (c_state c) false (c_check_utf8 c) (c_max c) (c_ext c) CbReadAll)
    with (new_reader s state false true 0 false CbReadAll) in HB.
  assert (Hsz: sz (new_reader s state false true 0 false CbReadAll) = (length (wire fs) + idle_reads s)%nat).
  { unfold sz, idle_r, new_reader. rsimpl. rewrite Hfl. reflexivity. }
  set (r := new_reader s state false true 0 false CbReadAll) in *.
  destruct fs as [|f rest].
  - destruct (next_frame_eof' c None [] r HB) as (h & r' & Hnf & Hlg). rewrite Hnf. cbn [is_some fst snd].
    rewrite Hlg, app_nil_r, spec_run_nil. cbn [sr_events sr_out is_some err_matches]. split; [exact Hev|reflexivity].
  - destruct (next_frame_spec' c None [] f rest r Hc HB) as (h & e & r1 & Hnf & H). rewrite Hnf.
    destruct e as [err|].
    + destruct H as (Hlg & Hsp). cbn [fst snd]. rewrite Hlg, app_nil_r.
      destruct (Hsp k evs) as (out & -> & Hem & _). cbn [sr_events sr_out]. split; [exact Hev|exact Hem].
    + destruct H as (Hlen & [(m0 & Hm0 & _)|(Hop & HM & Hsp)]); [discriminate|].
      rewrite Hsz in Hlen.
      assert (Hmu: (mu' r1 < S fuel)%nat).
      { unfold mu'. rewrite (Mid'_frame _ _ _ _ _ _ _ _ HM). clear -Hlen Hfuel. lia. }
      destruct (read_to_eof_spec' c Hc (S fuel) (MMid (msg_of c None f) f [] (sf_payload f)) [] rest r1
                  bufs bufs [] HM eq_refl Hmu) as (p & e2 & r2 & Hrte & Hres).
      rewrite Hrte. cbn [mspec mmsg msg_of m_op m_comp fst snd] in Hres. cbn [msg_of] in Hsp.
      rewrite (spec_run_evs_pre c (f :: rest) k None evs), Hsp.
      destruct Hres as [(-> & lg' & rest' & HB' & Hcp & Hle & Hsp2)|(Hne & Hsp2)].
      * destruct (Hsp2 k [] eq_refl) as (k' & evs' & Hev' & Heq). rewrite Heq.
        rewrite <- spec_run_evs_app.
        pose proof (Bnd'_flat _ _ _ _ _ HB') as Hfl'.
        cbn [fst snd].
        apply IH.
        -- exact (Bnd'_wf _ _ _ _ _ HB').
        -- exact (Bnd'_tl _ _ _ _ _ HB').
        -- exact Hfl'.
        -- apply evs_match_app2; [exact Hev|]. rewrite (Bnd'_log _ _ _ _ _ HB').
           apply evs_match_app; [exact Hev'|]. rewrite Hop. apply ev_matches_same. left; reflexivity.
        -- unfold sz, idle_r in Hle. rewrite <- Hfl'. clear -Hle Hlen Hfuel. unfold sz, idle_r in Hlen. lia.
      * specialize (Hsp2 k [] eq_refl). destruct Hsp2 as (Hm1 & Hm2 & _).
        set (res := spec_data c k (sf_op f, [], c_ext c && rsv1 f) [] f rest) in *.
        assert (Hgoal: evs_match (sr_events (pre_evs evs res)) (acc ++ r_log r2) = true /\
                       err_matches (sr_out (pre_evs evs res)) e2 = true).
        { cbn [pre_evs sr_events sr_out]. split; [apply evs_match_app2; assumption|exact Hm2]. }
        destruct e2 as [[| |]| | | | | | | |]; cbn [fst snd]; try exact Hgoal. exfalso; apply Hne; reflexivity.
Qed.

Theorem read_message_meets_spec_idle : forall fs state s bufs fuel,
  wf_cfg (mkCfg state true 0 false) -> Forall wf_sframe fs -> tl s = TEOF -> flat s = wire fs ->
  (length (wire fs) + idle_reads s + 2 <= fuel)%nat ->
  let '(evs, e) := read_messages fuel bufs s state [] in
  reader_monitor (mkCfg state true 0 false) true fs evs None e = true.
Proof.
  intros fs state s bufs fuel Hc Hfs Ht Hfl Hfuel.
  pose proof (read_messages_spec' state bufs Hc fuel fs 0%nat [] [] s Hfs Ht Hfl eq_refl Hfuel) as H.
  cbv zeta in H. destruct (read_messages fuel bufs s state []) as [evs e]. cbn [fst snd] in H.
  destruct H as [H1 H2]. unfold reader_monitor, expected_events. fold (rm_cfg state).
  rewrite H1, H2. cbn [andb]. destruct (sr_out _); reflexivity.
Qed.

