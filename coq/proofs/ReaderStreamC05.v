(* ReaderStreamC05.v — C05 at stream level, spelled out: a stream whose k-th
   frame breaks a framing rule (or the size limit) ends, through the Reader loop
   and through repeated ReadMessage, with exactly the protocol error CheckHeader
   names for that frame in the state reached after the earlier frames; what was
   delivered is exactly what the earlier frames carry.
   Consequences of reader_meets_spec / read_message_meets_spec (what is delivered,
   the error class), plus a second simulation over the same invariants
   (ReaderInv.v) that tracks WHICH rule is reported and that every byte handed
   out is the next undelivered data byte of the stream. *)
Require Import Bytes Stream Utf8Spec Check Frame Cipher Utf8Dfa Extracted ExtractedOk Reader ReaderStream
  BytesProofs StreamProofs CheckProofs FrameProofs CipherProofs Utf8Proofs ReaderLocalProofs
  ReaderAux ReaderInv ReaderProofs ReaderMoreProofs ReaderTotalProofs.
From Coq Require Import ZifyBool ZifyN ZifyNat.
Open Scope N_scope.

(* ------------------------------------------------------------------ event / frame lists *)
Lemma data_bytes_ev_app a b :
  data_bytes_of_events (a ++ b) = data_bytes_of_events a ++ data_bytes_of_events b.
Proof. unfold data_bytes_of_events, data_events. rewrite filter_app, map_app, concat_app. reflexivity. Qed.

Lemma ctl_ev_app a b : ctl_of_events (a ++ b) = ctl_of_events a ++ ctl_of_events b.
Proof. unfold ctl_of_events, control_events. rewrite filter_app, map_app. reflexivity. Qed.

Lemma data_bytes_fr_app a b :
  data_bytes_of_frames (a ++ b) = data_bytes_of_frames a ++ data_bytes_of_frames b.
Proof. unfold data_bytes_of_frames. rewrite filter_app, map_app, concat_app. reflexivity. Qed.

Lemma ctl_fr_app a b : ctl_of_frames (a ++ b) = ctl_of_frames a ++ ctl_of_frames b.
Proof. unfold ctl_of_frames. rewrite filter_app, map_app. reflexivity. Qed.

Lemma data_bytes_ev_one o p i cm :
  data_bytes_of_events [mkEv o p i cm] = if spec_control o then [] else p.
Proof.
  unfold data_bytes_of_events, data_events, ev_is_data. cbn [filter ev_op].
  destruct (spec_control o); cbn [negb map concat ev_payload]; [reflexivity|apply app_nil_r].
Qed.

Lemma ctl_ev_one o p i cm :
  ctl_of_events [mkEv o p i cm] = if spec_control o then [(o, p)] else [].
Proof.
  unfold ctl_of_events, control_events. cbn [filter ev_op].
  destruct (spec_control o); reflexivity.
Qed.

Lemma data_bytes_fr_cons f fs :
  data_bytes_of_frames (f :: fs) = (if spec_control (sf_op f) then [] else sf_payload f) ++ data_bytes_of_frames fs.
Proof.
  unfold data_bytes_of_frames, sf_is_data. cbn [filter].
  destruct (spec_control (sf_op f)); cbn [negb map concat app]; reflexivity.
Qed.

Lemma ctl_fr_cons f fs :
  ctl_of_frames (f :: fs) = (if spec_control (sf_op f) then [(sf_op f, sf_payload f)] else []) ++ ctl_of_frames fs.
Proof.
  unfold ctl_of_frames. cbn [filter]. destruct (spec_control (sf_op f)); reflexivity.
Qed.

Lemma ev_matches_fields x y : ev_matches x y = true ->
  ev_op x = ev_op y /\ ev_payload x = ev_payload y /\ ev_inter x = ev_inter y.
Proof.
  unfold ev_matches. intros H. apply andb_true_iff in H. destruct H as [H _].
  apply andb_true_iff in H. destruct H as [H Hi]. apply andb_true_iff in H. destruct H as [Ho Hp].
  apply bytes_eqb_eq in Hp. apply eqb_prop in Hi. repeat split; [lia|exact Hp|exact Hi].
Qed.

(* a spec event of a data message, or of an interleaved control frame, is matched by itself only *)
Lemma ev_matches_eq x y : ev_matches x y = true -> (spec_control (ev_op x) = false \/ ev_inter x = true) -> x = y.
Proof.
  intros H Hx. destruct (ev_matches_fields x y H) as (Ho & Hp & Hi).
  unfold ev_matches in H. apply andb_true_iff in H. destruct H as [_ Hc].
  assert (Hcc: ev_comp x = ev_comp y).
  { apply orb_true_iff in Hc. destruct Hc as [Hc|Hc]; [apply eqb_prop, Hc|].
    apply andb_true_iff in Hc. destruct Hc as [Hc1 Hc2]. destruct Hx as [Hx|Hx]; [congruence|].
    rewrite Hx in Hc2. discriminate. }
  destruct x as [xo xp xi xc], y as [yo yp yi yc]; cbn [ev_op ev_payload ev_inter ev_comp] in *. subst. reflexivity.
Qed.

Lemma evs_match_same a : forall b, evs_match a b = true ->
  data_bytes_of_events a = data_bytes_of_events b /\ ctl_of_events a = ctl_of_events b /\
  length a = length b.
Proof.
  induction a as [|x a IH]; intros [|y b] H; cbn [evs_match] in H; try discriminate.
  - repeat split.
  - apply andb_true_iff in H. destruct H as [Hxy H]. destruct (IH b H) as (I1 & I2 & I3).
    destruct (ev_matches_fields x y Hxy) as (Ho & Hp & Hi).
    change (x :: a) with ([x] ++ a). change (y :: b) with ([y] ++ b).
    rewrite !data_bytes_ev_app, !ctl_ev_app, I1, I2, !app_length, I3.
    destruct x as [xo xp xi xc], y as [yo yp yi yc]. cbn [ev_op ev_payload ev_inter] in Ho, Hp, Hi. subst.
    rewrite !data_bytes_ev_one, !ctl_ev_one. repeat split.
Qed.

(* ------------------------------------------------------------------ the spec on an accepted prefix *)
(* the rule CheckHeader reports at the first frame it refuses, walking the
   frames with the fragmentation bit only (payloads, sizes, UTF-8 ignored) *)
Fixpoint viol_rule (c : rcfg) (frag : bool) (fs : list sframe) : option rule :=
  match fs with
  | [] => None
  | f :: rest =>
    match check_header (sf_header f) (set_fragmented (c_state c) frag) with
    | Some rl => Some rl
    | None => viol_rule c (if spec_control (sf_op f) then frag else negb (sf_fin f)) rest
    end
  end.

Definition open_ok (openm : option msg) : Prop :=
  match openm with Some m => spec_control (m_op m) = false | None => True end.

Lemma frame_ok_true_check c frag f : wf_sframe f -> frame_ok c frag f = true ->
  check_header (sf_header f) (set_fragmented (c_state c) frag) = None.
Proof.
  intros Hf Hok. pose proof (frame_ok_check c frag f Hf) as H.
  destruct (check_header _ _); [congruence|reflexivity].
Qed.

Lemma spec_prefix c : forall pre k openm evs, Forall wf_sframe pre -> open_ok openm ->
  (sr_out (spec_run c k openm evs pre) = OClean \/ sr_out (spec_run c k openm evs pre) = OCutMidMessage) ->
  exists openm', open_ok openm' /\
    sr_partial (spec_run c k openm evs pre) = partial_of openm' /\
    sr_out (spec_run c k openm evs pre) = (if is_some openm' then OCutMidMessage else OClean) /\
    (forall rest, spec_run c k openm evs (pre ++ rest) =
                  spec_run c (k + length pre) openm' (sr_events (spec_run c k openm evs pre)) rest) /\
    (forall rest, viol_rule c (is_some openm) (pre ++ rest) = viol_rule c (is_some openm') rest) /\
    data_bytes_of_events (sr_events (spec_run c k openm evs pre)) ++ partial_of openm' =
      data_bytes_of_events evs ++ partial_of openm ++ data_bytes_of_frames pre /\
    ctl_of_events (sr_events (spec_run c k openm evs pre)) = ctl_of_events evs ++ ctl_of_frames pre.
Proof.
  induction pre as [|f pre IH]; intros k openm evs Hwf Hoo HR.
  - exists openm. rewrite spec_run_nil. cbn [sr_partial sr_out sr_events app length].
    rewrite Nat.add_0_r, !app_nil_r. repeat split; try reflexivity; exact Hoo.
  - pose proof (Forall_inv Hwf) as Hf. pose proof (Forall_inv_tail Hwf) as Hpre.
    assert (Hnot: forall evs' p o, o <> OClean -> o <> OCutMidMessage ->
              ~ (sr_out (mkSR evs' p o) = OClean \/ sr_out (mkSR evs' p o) = OCutMidMessage)).
    { intros evs' p o H1 H2 [H|H]; cbn [sr_out] in H; contradiction. }
    rewrite spec_run_cons in HR.
    destruct (frame_ok c (is_some openm) f) eqn:Hok; cbn [negb] in HR;
      [|exfalso; revert HR; apply Hnot; discriminate].
    destruct ((0 <? c_max c)%Z && (c_max c <? Z.of_N (len (sf_payload f)))%Z) eqn:Hsz;
      [exfalso; revert HR; apply Hnot; discriminate|].
    destruct (c_ext c && rsv1 f && negb (first_data f)) eqn:Hbc;
      [exfalso; revert HR; apply Hnot; discriminate|].
    pose proof (frame_ok_true_check c (is_some openm) f Hf Hok) as Hck.
    assert (Hvr: forall rest, viol_rule c (is_some openm) ((f :: pre) ++ rest) =
              viol_rule c (if spec_control (sf_op f) then is_some openm else negb (sf_fin f)) (pre ++ rest)).
    { intros rest. cbn [app viol_rule]. rewrite Hck. reflexivity. }
    assert (Hlen: forall k0, (k0 + length (f :: pre) = S k0 + length pre)%nat) by (intros; cbn [length]; lia).
    destruct (spec_control (sf_op f)) eqn:Hctl.
    + (* control frame *)
      assert (E: forall rest', spec_run c k openm evs (f :: rest') =
                spec_run c (S k) openm (evs ++ [mkEv (sf_op f) (sf_payload f) (is_some openm)
                                                     (if is_some openm then comp_of openm else false)]) rest').
      { intros rest'. rewrite spec_run_cons, Hok, Hsz, Hbc, Hctl. reflexivity. }
      destruct (IH _ _ _ Hpre Hoo HR) as (openm' & Ho' & Hp' & Hout' & Happ' & Hvr' & Hd' & Hc').
      exists openm'. rewrite E. split; [exact Ho'|]. split; [exact Hp'|]. split; [exact Hout'|].
      split; [intros rest; cbn [app]; rewrite E, Hlen; apply Happ'|].
      split; [intros rest; rewrite Hvr; apply Hvr'|].
      rewrite Hd', Hc', data_bytes_ev_app, ctl_ev_app, data_bytes_ev_one, ctl_ev_one,
        data_bytes_fr_cons, ctl_fr_cons, Hctl.
      cbn [app]. rewrite app_nil_r, <- !app_assoc. split; reflexivity.
    + (* data frame *)
      unfold spec_data in HR.
      assert (Hm: exists op0 acc0 comp, msg_of c openm f = (op0, acc0, comp) /\ spec_control op0 = false /\
                    acc0 = partial_of openm).
      { destruct openm as [[[o p] cm]|]; cbn [msg_of partial_of].
        - do 3 eexists. split; [reflexivity|]. split; [exact Hoo|reflexivity].
        - do 3 eexists. split; [reflexivity|]. split; [exact Hctl|reflexivity]. }
      destruct Hm as (op0 & acc0 & comp & Hm & Hop0 & Hacc0). rewrite Hm in HR.
      destruct (wrap_of c op0 && negb (if sf_fin f then valid_utf8 (acc0 ++ sf_payload f)
                                        else utf8_viable (acc0 ++ sf_payload f))) eqn:Hu;
        [exfalso; revert HR; apply Hnot; discriminate|].
      destruct (sf_fin f) eqn:Hfin.
      * assert (E: forall rest', spec_run c k openm evs (f :: rest') =
                  spec_run c (S k) None (evs ++ [mkEv op0 (acc0 ++ sf_payload f) false comp]) rest').
        { intros rest'. rewrite spec_run_cons, Hok, Hsz, Hbc, Hctl. cbn [negb]. unfold spec_data.
          rewrite Hm, Hfin, Hu. reflexivity. }
        destruct (IH _ None _ Hpre I HR) as (openm' & Ho' & Hp' & Hout' & Happ' & Hvr' & Hd' & Hc').
        exists openm'. rewrite E. split; [exact Ho'|]. split; [exact Hp'|]. split; [exact Hout'|].
        split; [intros rest; cbn [app]; rewrite E, Hlen; apply Happ'|].
        split; [intros rest; rewrite Hvr; apply Hvr'|].
        rewrite Hd', Hc', data_bytes_ev_app, ctl_ev_app, data_bytes_ev_one, ctl_ev_one,
          data_bytes_fr_cons, ctl_fr_cons, Hctl, Hop0, Hacc0.
        cbn [app partial_of]. rewrite !app_nil_r, <- !app_assoc. split; reflexivity.
      * assert (E: forall rest', spec_run c k openm evs (f :: rest') =
                  spec_run c (S k) (Some (op0, acc0 ++ sf_payload f, comp)) evs rest').
        { intros rest'. rewrite spec_run_cons, Hok, Hsz, Hbc, Hctl. cbn [negb]. unfold spec_data.
          rewrite Hm, Hfin, Hu. reflexivity. }
        destruct (IH _ _ _ Hpre (Hop0 : open_ok (Some (op0, acc0 ++ sf_payload f, comp))) HR)
          as (openm' & Ho' & Hp' & Hout' & Happ' & Hvr' & Hd' & Hc').
        exists openm'. rewrite E. split; [exact Ho'|]. split; [exact Hp'|]. split; [exact Hout'|].
        split; [intros rest; cbn [app]; rewrite E, Hlen; apply Happ'|].
        split; [intros rest; rewrite Hvr; apply Hvr'|].
        rewrite Hd', Hc', data_bytes_fr_cons, ctl_fr_cons, Hctl, Hacc0.
        cbn [app partial_of]. rewrite <- !app_assoc. split; reflexivity.
Qed.

(* ------------------------------------------------------------------ reader-only facts *)
Lemma frame_read_state k r : r_state (snd (frame_read k r)) = r_state r.
Proof.
  unfold frame_read, raw_read. destruct (r_rawN r =? 0).
  - cbv beta iota zeta. destruct (r_u8wrap r); [|reflexivity].
    destruct (u8_scan _ _ _ _) as [[st acc] rej]. destruct rej; reflexivity.
  - destruct (read1 _ _) as [[b e] s']. cbv beta iota zeta. rsimpl. destruct (r_u8wrap r); [|reflexivity].
    destruct (u8_scan _ _ _ _) as [[st acc] rej]. destruct rej; reflexivity.
Qed.

Lemma rat_eof_state d r : r_state (snd (rat_eof d r)) = r_state r.
Proof.
  unfold rat_eof. destruct (negb _); [reflexivity|]. destruct (st_fragmented _); [reflexivity|].
  destruct (_ && _); reflexivity.
Qed.

Lemma rgo_state k r : r_state (snd (rgo k r)) = r_state r.
Proof.
  unfold rgo. pose proof (frame_read_state k r) as F. destruct (frame_read k r) as [[data e] r2].
  cbn [snd] in F. pose proof (rat_eof_state data r2) as A.
  destruct e as [e|].
  - destruct e as [[| |]| | | | | | | |]; cbn [snd]; congruence.
  - destruct (negb _); cbn [snd]; congruence.
Qed.

Lemma rat_eof_prefix data r : exists tail, data = fst (fst (rat_eof data r)) ++ tail.
Proof.
  unfold rat_eof. destruct (negb _); [exists []; cbn [fst]; rewrite app_nil_r; reflexivity|].
  destruct (st_fragmented _); [exists []; cbn [fst]; rewrite app_nil_r; reflexivity|].
  destruct (_ && _); cbn [fst].
  - exists (drop (r_u8acc r) data). symmetry. apply take_drop.
  - exists []. rewrite app_nil_r; reflexivity.
Qed.

(* Read reports invalid UTF-8 only through the validating wrapper or a DFA
   state left over from it *)
Lemma rgo_invalid_cause k r d r' : rgo k r = ((d, Some RInvalidUtf8), r') ->
  r_u8wrap r = true \/ (r_u8state r =? utf8_accept) = false.
Proof.
  intros H. destruct (r_u8wrap r) eqn:Hw; [left; reflexivity|right].
  revert H. unfold rgo, frame_read, raw_read.
  assert (A: forall data r2, r_u8state r2 = r_u8state r -> rat_eof data r2 = ((d, Some RInvalidUtf8), r') ->
             (r_u8state r =? utf8_accept) = false).
  { intros data r2 Hs. unfold rat_eof. destruct (negb (r_rawN r2 =? 0)); [discriminate|].
    destruct (st_fragmented _); [discriminate|]. rewrite Hs.
    destruct (r_u8state r =? utf8_accept); [|reflexivity]. rewrite andb_false_r. discriminate. }
  destruct (r_rawN r =? 0).
  - cbv beta iota zeta. rewrite Hw. cbn [option_map]. apply A. reflexivity.
  - destruct (read1 _ _) as [[b e] s']. cbv beta iota zeta. rsimpl. rewrite Hw.
    destruct e as [[| |]|]; cbn [cut_err option_map]; rsimpl; try discriminate.
    + destruct (negb _); [discriminate|]. apply A. reflexivity.
Qed.

(* ------------------------------------------------------------------ NextFrame at a frame boundary: which error, which branch *)
Lemma next_frame_facts c openm lg f rest r : wf_cfg c -> Bnd c openm lg (f :: rest) r ->
  let '((h, e), r') := next_frame r in
  match check_header (sf_header f) (set_fragmented (c_state c) (is_some openm)) with
  | Some rl => e = Some (RProtocol rl)
  | None => (forall rl, e <> Some (RProtocol rl)) /\
            (e = None -> r_frame r' = negb (is_some openm && spec_control (sf_op f)))
  end.
Proof.
  intros Hc [Hcfg (Hw & Ht & Hfl) Hwf Hlog Hst Hcz Hmsg].
  pose proof (Forall_inv Hwf) as Hf. pose proof (Forall_inv_tail Hwf) as Hrest. clear Hwf.
  rewrite wire_cons in Hfl.
  assert (Hrw: wf_bytes (wpay f 0 (sf_payload f) ++ wire rest)).
  { apply wf_bytes_app; split; [apply wpay_wf; [exact Hf|apply Hf] | apply wire_wf, Hrest]. }
  destruct (next_frame_reads_header r (sf_header f) _ (sf_header_wf f Hf) Hrw Hw Hfl) as (s1 & Hrd & Hf1 & Hw1 & Ht1).
  rewrite sf_header_norm in Hrd.
  assert (Hop: sf_op f < 16) by apply Hf.
  destruct Hcfg as (Hskip & Hchk & Hmax & Hext & Hcb).
  unfold next_frame. rewrite Hrd, Hskip, Hst.
  destruct (check_header (sf_header f) (set_fragmented (c_state c) (is_some openm))) as [rl|]; [reflexivity|].
  destruct ((0 <? r_max r)%Z && (r_max r <? h_len (sf_header f))%Z).
  { split; [intros rl; discriminate|discriminate]. }
  rewrite Hext.
  pose proof (ext_step c f (r_compressed r) Hf) as Hx. cbv zeta in Hx.
  destruct Hx as [[Hbad Hx]|(Hgood & hdr' & Hx & Hop' & Hfin')]; rewrite Hx.
  { split; [intros rl; discriminate|discriminate]. }
  rewrite st_frag_set, Hop', (control_spec _ Hop).
  destruct (is_some openm && spec_control (sf_op f)) eqn:Hb.
  - rewrite Hcb.
    match goal with |- context [cb_read_all ?a ?b ?k ?r3] =>
      pose proof (cb_read_all_gen a b k r3) as G; pose proof (cb_read_all_err a b k r3) as GE;
      destruct (cb_read_all a b k r3) as [e4 r4] end.
    destruct G as (_ & Gfr & _). cbn [fst] in GE. rsimpl.
    destruct e4 as [e4|].
    + split; [|discriminate]. intros rl Hrl. injection Hrl as Hrl.
      destruct (GE e4 eq_refl) as [E|E]; rewrite E in Hrl; discriminate.
    + pose proof (raw_drain_gen r4) as D. destruct (raw_drain r4) as [e2 r5]. destruct D as (_ & Dfr & _).
      split; [intros rl; destruct e2; discriminate|]. intros _. rewrite Dfr, Gfr.
      destruct openm as [m|]; [|discriminate]. apply Hmsg.
  - split; [intros rl; discriminate|]. intros _. reflexivity.
Qed.

(* ------------------------------------------------------------------ what Read hands out when it reports invalid UTF-8 *)
(* frame.Read with payload bytes left (ReaderInv.frame_read_data, with the bytes
   returned on rejection made explicit: a prefix of the piece just unmasked) *)
Lemma frame_read_data_pfx c m f pre post lg rest r kk : Mid c m f pre post lg rest r -> post <> [] -> 0 < kk ->
  exists d post', post = d ++ post' /\
    ((exists n r1, frame_read kk r = ((take n d, Some RInvalidUtf8), r1)) \/
     (exists r1, frame_read kk r = ((d, None), r1) /\ r_rawN r1 = len post')).
Proof.
  intros [Hcfg (Hw & Ht & Hfl) Hwf Hf Hpay Hwacc Hlog Hst Hfr Hopc Hcompr Hnoext Hctlfin Hraw Hmk Hkey Hwrap Hu8] Hne Hk.
  pose proof (len_pos post Hne) as Hlp.
  assert (Hwpost: wf_bytes post).
  { destruct Hf as (_ & _ & Hp & _). rewrite Hpay in Hp. apply wf_bytes_app in Hp. apply Hp. }
  unfold frame_read, raw_read. replace (r_rawN r =? 0) with false by (rewrite Hraw; clear -Hlp; lia).
  pose proof (read1_props_u (N.min kk (r_rawN r)) (r_src r) Hw ltac:(rewrite Hraw; clear -Hlp Hk; lia)) as R.
  pose proof (read1_len (N.min kk (r_rawN r)) (r_src r)) as RL.
  destruct (read1 (N.min kk (r_rawN r)) (r_src r)) as [[b e] s']. cbn [fst] in RL.
  destruct e as [e|].
  { exfalso. destruct R as (_ & R & _). rewrite Hfl in R. apply (f_equal len) in R.
    rewrite len_app, len_wpay, len_nil in R. clear -R Hlp. lia. }
  destruct R as (Hbne & Hsplit & Hw' & Ht').
  rewrite Hfl in Hsplit.
  assert (Hlb: len b <= len post) by (rewrite Hraw in RL; clear -RL; lia).
  destruct (app_split_prefix _ _ _ _ Hsplit ltac:(rewrite len_wpay; exact Hlb)) as [Hb Hrest].
  rewrite wpay_take in Hb by exact Hlb.
  set (n := len b) in *. set (d := take n post) in *. set (post' := drop n post) in *.
  assert (Hdp: post = d ++ post') by (symmetry; apply take_drop).
  assert (Hwd: wf_bytes d) by (apply wf_bytes_take, Hwpost).
  exists d, post'. split; [exact Hdp|].
  assert (Hb1: (if r_masked r then cipher b (r_key r) (r_cpos r) else b) = d).
  { rewrite Hmk. destruct (sf_key f) as [key|] eqn:Hkk; cbn [is_some].
    - destruct (Hkey key eq_refl) as [-> ->]. rewrite Hb. unfold wpay. rewrite Hkk.
      destruct Hf as (_ & _ & _ & _ & Hkw). rewrite Hkk in Hkw.
      rewrite cipher_is_spec; [apply mask_spec_involutive| |exact Hkw].
      apply mask_spec_wf; [exact Hwd|apply Hkw].
    - rewrite Hb. unfold wpay. rewrite Hkk. reflexivity. }
  cbn [cut_err option_map]. rsimpl. rewrite Hb1.
  destruct (r_u8wrap r).
  - destruct (u8_scan (r_u8state r) 0 0 d) as [[st a] rej]. destruct rej.
    + left. do 2 eexists. reflexivity.
    + right. eexists. split; [reflexivity|]. rsimpl. rewrite Hraw. unfold post'. rewrite len_drop. reflexivity.
  - right. eexists. split; [reflexivity|]. rsimpl. rewrite Hraw. unfold post'. rewrite len_drop. reflexivity.
Qed.

Lemma rgo_invalid c m f pre post lg rest r kk d r' : Mid c m f pre post lg rest r -> 0 < kk ->
  rgo kk r = ((d, Some RInvalidUtf8), r') ->
  wrap_of c (m_op m) = true /\ exists tail, post = d ++ tail.
Proof.
  intros HM Hk Hr. split.
  - pose proof (rgo_invalid_cause _ _ _ _ Hr) as Hc.
    destruct (wrap_of c (m_op m)) eqn:Hwr; [reflexivity|exfalso].
    pose proof (m_wrap _ _ _ _ _ _ _ _ HM) as Hw. pose proof (m_u8 _ _ _ _ _ _ _ _ HM) as (Hu & _).
    rewrite Hwr in Hw, Hu. rewrite ok_utf8_accept in Hc. destruct Hc as [Hc|Hc]; [congruence|].
    rewrite Hu in Hc. discriminate.
  - destruct post as [|x post0].
    + destruct (frame_read_end c m f pre lg rest r kk HM) as (r1 & Hfr & _).
      unfold rgo in Hr. rewrite Hfr in Hr. cbv beta iota zeta in Hr.
      destruct (rat_eof_prefix [] r1) as (tail & Ht). rewrite Hr in Ht. cbn [fst] in Ht. exists tail. exact Ht.
    + destruct (frame_read_data_pfx c m f pre (x :: post0) lg rest r kk HM ltac:(discriminate) Hk)
        as (d0 & post' & Hdp & [(n & r1 & Hfr)|(r1 & Hfr & Hraw)]); unfold rgo in Hr; rewrite Hfr in Hr;
        cbv beta iota zeta in Hr.
      * injection Hr as <- _. exists (drop n d0 ++ post'). rewrite app_assoc, take_drop. exact Hdp.
      * destruct (negb (r_rawN r1 =? 0)); [discriminate|].
        destruct (rat_eof_prefix d0 r1) as (tail & Ht). rewrite Hr in Ht. cbn [fst] in Ht.
        exists (tail ++ post'). rewrite app_assoc, <- Ht. exact Hdp.
Qed.

(* ------------------------------------------------------------------ second simulation: rule reported, bytes handed out *)
Definition all_ctl (l : list event) : Prop := Forall (fun e => spec_control (ev_op e) = true) l.
(* the rule the walk reports from the reader's position *)
Definition vr (c : rcfg) (r : reader) (rest : list sframe) : option rule :=
  viol_rule c (st_fragmented (r_state r)) rest.
Definition isdata (st : mst) : bool := negb (spec_control (m_op (mmsg st))).
Definition dsel (b : bool) (d : list byte) : list byte := if b then d else [].
Definition mpost (st : mst) : list byte := match st with MMid _ _ _ post => post | MBet _ => [] end.
(* the data bytes of the stream not handed out yet *)
Definition U (st : mst) (rest : list sframe) : list byte :=
  dsel (isdata st) (mpost st) ++ data_bytes_of_frames rest.

Lemma dsel_app b x y : dsel b (x ++ y) = dsel b x ++ dsel b y.
Proof. destruct b; reflexivity. Qed.
Lemma dsel_nil b : dsel b [] = [].
Proof. destruct b; reflexivity. Qed.

Lemma all_ctl_data mid : all_ctl mid -> data_bytes_of_events mid = [].
Proof.
  induction 1 as [|e mid He _ IH]; [reflexivity|].
  change (e :: mid) with ([e] ++ mid). rewrite data_bytes_ev_app, IH, app_nil_r.
  destruct e as [o p i cm]. cbn [ev_op] in He. rewrite data_bytes_ev_one, He. reflexivity.
Qed.

Lemma wrap_is_data c op : wrap_of c op = true -> spec_control op = false.
Proof.
  unfold wrap_of. intros H. apply andb_true_iff in H. destruct H as [_ H].
  apply N.eqb_eq in H. subst. reflexivity.
Qed.

(* one Read inside a frame *)
Lemma mid_stepR c m f pre post lg rest r kk : wf_cfg c -> Mid c m f pre post lg rest r -> 0 < kk ->
  let st := MMid m f pre post in
  (exists d r' st', rgo kk r = ((d, None), r') /\ minv c st' lg rest r' /\ (mu r' < mu r)%nat /\
      isdata st' = isdata st /\ vr c r' rest = vr c r rest /\ U st rest = dsel (isdata st) d ++ U st' rest) \/
  (exists d r', rgo kk r = ((d, Some (RIo EEOF)), r') /\ Bnd c None lg rest r' /\
      (length (flat (r_src r')) <= length (flat (r_src r)))%nat /\
      vr c r' rest = vr c r rest /\ U st rest = dsel (isdata st) d ++ data_bytes_of_frames rest) \/
  (exists d err r', rgo kk r = ((d, Some err), r') /\ err <> RIo EEOF /\ r_log r' = lg /\
      (forall rl, err = RProtocol rl -> vr c r rest = Some rl) /\
      (err = RInvalidUtf8 -> isdata st = true) /\
      exists tail, U st rest = dsel (isdata st) d ++ tail).
Proof.
  intros Hc HM Hk st.
  assert (Hvr: forall x r', rgo kk r = (x, r') -> vr c r' rest = vr c r rest).
  { intros x r' Hr. unfold vr. pose proof (rgo_state kk r) as S. rewrite Hr in S. cbn [snd] in S.
    rewrite S. reflexivity. }
  destruct (rgo_step c m f pre post lg rest r kk Hc HM Hk)
    as [(d & post' & r' & Hr & Hdp & HM' & Hmu)|[(r' & Hr & HB & Hmu & _)|[(r' & Hr & HB & _ & Hle & _)|(d & r' & Hr & Hlg & _)]]].
  - left. exists d, r', (MMid m f (pre ++ d) post'). split; [exact Hr|]. split; [exact HM'|].
    split; [exact Hmu|]. split; [reflexivity|]. split; [exact (Hvr _ _ Hr)|].
    unfold U, st. cbn [mpost isdata mmsg]. rewrite Hdp, dsel_app, <- app_assoc. reflexivity.
  - left. exists post, r', (MBet (msg_after m f)). split; [exact Hr|]. split; [exact HB|].
    split; [exact Hmu|]. split; [reflexivity|]. split; [exact (Hvr _ _ Hr)|].
    unfold U, st. cbn [mpost isdata mmsg]. rewrite dsel_nil. reflexivity.
  - right; left. exists post, r'. split; [exact Hr|]. split; [exact HB|]. split; [exact Hle|].
    split; [exact (Hvr _ _ Hr)|]. reflexivity.
  - right; right. exists d, RInvalidUtf8, r'. split; [exact Hr|]. split; [discriminate|]. split; [exact Hlg|].
    split; [discriminate|].
    destruct (rgo_invalid c m f pre post lg rest r kk d r' HM Hk Hr) as (Hwr & tail & Htail).
    assert (Hd: isdata st = true).
    { unfold isdata, st. cbn [mmsg]. rewrite (wrap_is_data _ _ Hwr). reflexivity. }
    split; [intros _; exact Hd|]. exists (tail ++ data_bytes_of_frames rest).
    unfold U. rewrite Hd. cbn [dsel]. unfold st. cbn [mpost]. rewrite Htail, <- app_assoc. reflexivity.
Qed.

Ltac conjs := repeat match goal with |- _ /\ _ => split end.

(* one Read inside a message *)
Lemma read_stepR c st lg rest r kk : wf_cfg c -> minv c st lg rest r -> 0 < kk ->
  (exists d r' st' mid rest', reader_read kk r = ((d, None), r') /\ minv c st' (lg ++ mid) rest' r' /\
      (mu r' < mu r)%nat /\ all_ctl mid /\ isdata st' = isdata st /\
      vr c r' rest' = vr c r rest /\ U st rest = dsel (isdata st) d ++ U st' rest') \/
  (exists d r' rest', reader_read kk r = ((d, Some (RIo EEOF)), r') /\ Bnd c None lg rest' r' /\
      (length (flat (r_src r')) <= length (flat (r_src r)))%nat /\
      vr c r' rest' = vr c r rest /\ U st rest = dsel (isdata st) d ++ data_bytes_of_frames rest') \/
  (exists d err r', reader_read kk r = ((d, Some err), r') /\ err <> RIo EEOF /\ r_log r' = lg /\
      (forall rl, err = RProtocol rl -> vr c r rest = Some rl) /\
      (err = RInvalidUtf8 -> isdata st = true) /\
      exists tail, U st rest = dsel (isdata st) d ++ tail).
Proof.
  intros Hc Hinv Hk. destruct st as [m f pre post|m]; cbn [minv] in Hinv.
  - rewrite reader_read_eq, (m_frame _ _ _ _ _ _ _ _ Hinv).
    destruct (mid_stepR c m f pre post lg rest r kk Hc Hinv Hk)
      as [(d & r' & st' & Hr & Hi & Hmu & Hd & Hv & HU)|[(d & r' & Hr & HB & Hle & Hv & HU)
         |(d & err & r' & Hr & Hne & Hlg & Hrl & Hu8 & Ht)]].
    + left. exists d, r', st', [], rest. rewrite app_nil_r. conjs; try assumption. constructor.
    + right; left. exists d, r', rest. conjs; assumption.
    + right; right. exists d, err, r'. conjs; assumption.
  - pose proof (b_msg _ _ _ _ _ Hinv) as (Hfr & _ & _ & _ & _ & Hnctl). cbn [is_some] in *.
    assert (Hd: isdata (MBet m) = true) by (unfold isdata; cbn [mmsg]; rewrite Hnctl; reflexivity).
    assert (Hst: st_fragmented (r_state r) = true)
      by (rewrite (b_state _ _ _ _ _ Hinv), st_frag_set; reflexivity).
    rewrite reader_read_eq, Hfr, Hst. cbn [negb].
    destruct rest as [|f rest].
    + destruct (next_frame_eof c (Some m) lg r Hinv) as (h & r' & Hnf & Hlg). rewrite Hnf. cbn [is_some].
      right; right. exists [], (RIo EUnexpected), r'. split; [reflexivity|]. split; [discriminate|].
      split; [exact Hlg|]. split; [discriminate|]. split; [intros _; exact Hd|].
      exists (U (MBet m) []). rewrite dsel_nil. reflexivity.
    + pose proof (next_frame_facts c (Some m) lg f rest r Hc Hinv) as F.
      destruct (next_frame_spec c (Some m) lg f rest r Hc Hinv) as (h & e & r1 & Hnf & H).
      rewrite Hnf in F |- *. cbn [is_some andb] in F.
      assert (Hvr0: vr c r (f :: rest) =
                match check_header (sf_header f) (set_fragmented (c_state c) true) with
                | Some rl => Some rl
                | None => viol_rule c (if spec_control (sf_op f) then true else negb (sf_fin f)) rest
                end).
      { unfold vr. rewrite Hst. reflexivity. }
      destruct e as [err|].
      * destruct H as (Hlg & Hsp). right; right. exists [], err, r1. split; [reflexivity|].
        split.
        { intros ->. destruct (Hsp 0%nat []) as (out & _ & Hem & _ & Hnc).
          destruct out; cbn [err_matches] in Hem; try discriminate. apply Hnc; reflexivity. }
        split; [exact Hlg|]. split.
        { intros rl ->. rewrite Hvr0. destruct (check_header _ _) as [rl0|].
          - injection F as <-. reflexivity.
          - exfalso. apply (proj1 F rl). reflexivity. }
        split; [intros _; exact Hd|]. exists (U (MBet m) (f :: rest)). rewrite dsel_nil. reflexivity.
      * destruct (check_header (sf_header f) (set_fragmented (c_state c) true)) as [rl0|] eqn:Hck;
          [discriminate F|]. destruct F as [_ F]. specialize (F eq_refl).
        destruct H as (Hlen & [(m0 & Hm0 & Hfr1 & HB & _)|(Hop & HM & _)]).
        -- (* control frame in between *)
           rewrite Hfr1 in F |- *.
           assert (Hctl: spec_control (sf_op f) = true)
             by (destruct (spec_control (sf_op f)); [reflexivity|discriminate F]).
           injection Hm0 as <-. left.
           exists [], r1, (MBet m), [mkEv (sf_op f) (sf_payload f) true (m_comp m)], rest.
           split; [reflexivity|]. split; [exact HB|]. split.
           { unfold mu. rewrite Hfr, Hfr1. clear -Hlen. lia. }
           split; [constructor; [exact Hctl|constructor]|]. split; [reflexivity|]. split.
           { rewrite Hvr0, Hctl. unfold vr. rewrite (b_state _ _ _ _ _ HB), st_frag_set. reflexivity. }
           unfold U. cbn [mpost]. rewrite !dsel_nil, data_bytes_fr_cons, Hctl. reflexivity.
        -- (* next fragment: its first Read happens in the same call *)
           cbn [msg_of] in HM. rewrite (m_frame _ _ _ _ _ _ _ _ HM) in F |- *.
           assert (Hctl: spec_control (sf_op f) = false)
             by (destruct (spec_control (sf_op f)); [discriminate F|reflexivity]).
           assert (Hmu1: (mu r1 < mu r)%nat).
           { unfold mu. rewrite Hfr, (m_frame _ _ _ _ _ _ _ _ HM). clear -Hlen. lia. }
           assert (Hv1: vr c r1 rest = vr c r (f :: rest)).
           { rewrite Hvr0, Hctl. unfold vr. rewrite (m_state _ _ _ _ _ _ _ _ HM), st_frag_set. reflexivity. }
           assert (HU1: U (MBet m) (f :: rest) = U (MMid m f [] (sf_payload f)) rest).
           { unfold U. cbn [mpost]. rewrite dsel_nil, data_bytes_fr_cons, Hctl.
             change (isdata (MMid m f [] (sf_payload f))) with (isdata (MBet m)). rewrite Hd. reflexivity. }
           change (isdata (MBet m)) with (isdata (MMid m f [] (sf_payload f))).
           rewrite HU1, <- Hv1.
           destruct (mid_stepR c m f [] (sf_payload f) lg rest r1 kk Hc HM Hk)
             as [(d & r' & st' & Hr & Hi & Hmu & Hd' & Hv & HU)|[(d & r' & Hr & HB & Hle & Hv & HU)
                |(d & err & r' & Hr & Hne & Hlg & Hrl & Hu8 & Ht)]]; rewrite Hr.
           ++ left. exists d, r', st', [], rest. rewrite app_nil_r. conjs; try assumption; try reflexivity.
              ** clear -Hmu Hmu1. lia.
              ** constructor.
           ++ right; left. exists d, r', rest. conjs; try assumption; try reflexivity.
              unfold mu in Hmu1. rewrite Hfr, (m_frame _ _ _ _ _ _ _ _ HM) in Hmu1. clear -Hle Hmu1. lia.
           ++ right; right. exists d, err, r'. conjs; try assumption; reflexivity.
Qed.

(* reading one message to io.EOF *)
Lemma read_to_eofR c : wf_cfg c -> forall fuel st lg rest r bufs all racc,
  minv c st lg rest r -> (mu r < fuel)%nat ->
  exists d e r2, read_to_eof fuel bufs all r racc = ((concat (rev_append racc []) ++ d, e), r2) /\
   ((e = RIo EEOF /\ exists mid rest', Bnd c None (lg ++ mid) rest' r2 /\ all_ctl mid /\
        (length (flat (r_src r2)) <= length (flat (r_src r)))%nat /\ vr c r2 rest' = vr c r rest /\
        U st rest = dsel (isdata st) d ++ data_bytes_of_frames rest')
    \/ (e <> RIo EEOF /\ exists mid, r_log r2 = lg ++ mid /\ all_ctl mid /\
        (forall rl, e = RProtocol rl -> vr c r rest = Some rl) /\
        (e = RInvalidUtf8 -> isdata st = true) /\
        exists tail, U st rest = dsel (isdata st) d ++ tail)).
Proof.
  intros Hc. induction fuel as [|fuel IH]; intros st lg rest r bufs all racc Hinv Hmu; [lia|].
  cbn [read_to_eof]. pose proof (next_buf_pos bufs all) as Hkk.
  destruct (next_buf bufs all) as [kk bufs']. cbn [fst] in Hkk.
  destruct (read_stepR c st lg rest r kk Hc Hinv Hkk)
    as [(d & r' & st' & mid & rest' & Hr & Hinv' & Hmu' & Hmid & Hd & Hv & HU)
       |[(d & r' & rest' & Hr & HB & Hle & Hv & HU)|(d & err & r' & Hr & Hne & Hlg & Hrl & Hu8 & Ht)]]; rewrite Hr.
  - destruct (IH st' (lg ++ mid) rest' r' bufs' all (d :: racc) Hinv' ltac:(lia)) as (d2 & e & r2 & Hrte & Hres).
    exists (d ++ d2), e, r2. split; [rewrite Hrte, concat_rev_cons, app_assoc; reflexivity|].
    pose proof (mu_le _ _ Hmu') as Hle'. rewrite Hd, Hv in Hres.
    destruct Hres as [(He & mid2 & rest2 & HB & Hmid2 & Hle & Hv2 & HU2)|(Hne & mid2 & Hlg & Hmid2 & Hrl & Hu8 & tail & Ht)].
    + left. split; [exact He|]. exists (mid ++ mid2), rest2. rewrite app_assoc. split; [exact HB|].
      split; [apply Forall_app; split; assumption|]. split; [clear -Hle Hle'; lia|]. split; [exact Hv2|].
      rewrite HU, HU2, dsel_app, app_assoc. reflexivity.
    + right. split; [exact Hne|]. exists (mid ++ mid2). rewrite app_assoc. split; [exact Hlg|].
      split; [apply Forall_app; split; assumption|]. split; [exact Hrl|]. split; [exact Hu8|].
      exists tail. rewrite HU, Ht, dsel_app, app_assoc. reflexivity.
  - exists d, (RIo EEOF), r'. split; [rewrite concat_rev_cons; reflexivity|]. left. split; [reflexivity|].
    exists [], rest'. rewrite app_nil_r. conjs; try assumption. constructor.
  - exists d, err, r'. split; [rewrite concat_rev_cons; reflexivity|]. right. split; [exact Hne|].
    exists []. rewrite app_nil_r. conjs; try assumption. constructor.
Qed.

Lemma first_frame_vr c lg f rest r r1 : wf_cfg c -> Bnd c None lg (f :: rest) r ->
  check_header (sf_header f) (set_fragmented (c_state c) false) = None ->
  Mid c (msg_of c None f) f [] (sf_payload f) lg rest r1 ->
  vr c r1 rest = viol_rule c false (f :: rest).
Proof.
  intros Hc HB Hck HM. cbn [viol_rule]. rewrite Hck. unfold vr.
  rewrite (m_state _ _ _ _ _ _ _ _ HM), st_frag_set.
  destruct (spec_control (sf_op f)) eqn:Hctl; [|reflexivity].
  rewrite (m_ctlfin _ _ _ _ _ _ _ _ HM Hctl). reflexivity.
Qed.

(* the NextFrame / read-to-EOF loop *)
Lemma driveR c bufs : wf_cfg c -> forall fuel fs lg r,
  Bnd c None lg fs r -> (length (wire fs) + 2 <= fuel)%nat ->
  (forall rl, dr_err (drive fuel bufs r) = RProtocol rl -> viol_rule c false fs = Some rl) /\
  exists new, dr_events (drive fuel bufs r) = lg ++ new /\
    (dr_err (drive fuel bufs r) = RInvalidUtf8 ->
     exists tail, data_bytes_of_events new ++ dr_partial (drive fuel bufs r) ++ tail = data_bytes_of_frames fs).
Proof.
  intros Hc. induction fuel as [|fuel IH]; intros fs lg r HB Hfuel; [lia|].
  cbn [drive]. destruct fs as [|f rest].
  - destruct (next_frame_eof c None lg r HB) as (h & r' & Hnf & Hlg). rewrite Hnf. cbn [is_some].
    cbn [dr_events dr_partial dr_err]. split; [discriminate|]. exists []. rewrite app_nil_r. split; [exact Hlg|].
    discriminate.
  - pose proof (b_src _ _ _ _ _ HB) as (_ & _ & Hfl).
    pose proof (next_frame_facts c None lg f rest r Hc HB) as F.
    destruct (next_frame_spec c None lg f rest r Hc HB) as (h & e & r1 & Hnf & H). rewrite Hnf in F |- *.
    cbn [is_some andb negb] in F.
    destruct e as [err|].
    + destruct H as (Hlg & Hsp). cbn [dr_events dr_partial dr_err]. split.
      * intros rl ->. cbn [viol_rule]. destruct (check_header _ _) as [rl0|].
        -- injection F as <-. reflexivity.
        -- exfalso. apply (proj1 F rl). reflexivity.
      * exists []. rewrite app_nil_r. split; [exact Hlg|]. intros _.
        exists (data_bytes_of_frames (f :: rest)). reflexivity.
    + destruct (check_header (sf_header f) (set_fragmented (c_state c) false)) as [rl0|] eqn:Hck;
        [discriminate F|]. clear F.
      destruct H as (Hlen & [(m0 & Hm0 & _)|(Hop & HM & _)]); [discriminate|].
      rewrite Hfl in Hlen.
      assert (Hmu: (mu r1 < S fuel)%nat).
      { unfold mu. rewrite (m_frame _ _ _ _ _ _ _ _ HM). clear -Hlen Hfuel. lia. }
      pose proof (first_frame_vr c lg f rest r r1 Hc HB Hck HM) as Hv1.
      set (st := MMid (msg_of c None f) f [] (sf_payload f)) in *.
      assert (HU0: U st rest = data_bytes_of_frames (f :: rest)).
      { unfold U, st, isdata. cbn [mpost mmsg msg_of m_op fst]. rewrite data_bytes_fr_cons.
        destruct (spec_control (sf_op f)); reflexivity. }
      assert (Hisd: isdata st = negb (spec_control (sf_op f))) by reflexivity.
      destruct (read_to_eofR c Hc (S fuel) st lg rest r1 bufs bufs [] HM Hmu) as (p & e2 & r2 & Hrte & Hres).
      rewrite Hrte. cbn [rev_append concat app] in *. rewrite Hv1, HU0, Hisd in Hres.
      destruct Hres as [(-> & mid & rest' & HB' & Hmid & Hle & Hv2 & HU2)|(Hne & mid & Hlg & Hmid & Hrl & Hu8 & tail & Ht)].
      * match goal with |- context [drive fuel bufs ?x] => set (r3 := x) end.
        assert (HB3: Bnd c None ((lg ++ mid) ++ [mkEv (h_op h) p false (r_compressed r2)]) rest' r3).
        { unfold r3. rewrite <- (b_log _ _ _ _ _ HB'). apply Bnd_set_log with (lg := r_log r2).
          rewrite (b_log _ _ _ _ _ HB'). exact HB'. }
        assert (Hfuel3: (length (wire rest') + 2 <= fuel)%nat).
        { pose proof (b_src _ _ _ _ _ HB') as (_ & _ & Hfl'). rewrite <- Hfl'. clear -Hle Hlen Hfuel. lia. }
        destruct (IH rest' _ r3 HB3 Hfuel3) as (IHrl & new & IHev & IHu8).
        split.
        -- intros rl Hrl. rewrite <- Hv2. unfold vr. rewrite (b_state _ _ _ _ _ HB'), st_frag_set. cbn [is_some].
           apply IHrl, Hrl.
        -- exists (mid ++ [mkEv (h_op h) p false (r_compressed r2)] ++ new).
           split; [rewrite IHev, <- !app_assoc; reflexivity|].
           intros He. destruct (IHu8 He) as (tail & Ht). exists tail.
           rewrite !data_bytes_ev_app, (all_ctl_data _ Hmid), data_bytes_ev_one, Hop. cbn [app].
           rewrite HU2, <- Ht, <- !app_assoc. f_equal. destruct (spec_control (sf_op f)); reflexivity.
      * assert (Hgoal: (forall rl, dr_err (mkDR (r_log r2) p e2) = RProtocol rl -> viol_rule c false (f :: rest) = Some rl) /\
                  exists new, dr_events (mkDR (r_log r2) p e2) = lg ++ new /\
                    (dr_err (mkDR (r_log r2) p e2) = RInvalidUtf8 ->
                     exists tail, data_bytes_of_events new ++ dr_partial (mkDR (r_log r2) p e2) ++ tail
                                  = data_bytes_of_frames (f :: rest))).
        { cbn [dr_events dr_partial dr_err]. split; [exact Hrl|]. exists mid. split; [exact Hlg|].
          intros He. rewrite (all_ctl_data _ Hmid). cbn [app]. exists tail.
          rewrite Ht. specialize (Hu8 He). rewrite Hu8. reflexivity. }
        destruct e2 as [[| |]| | | | | | | |]; try exact Hgoal. exfalso; apply Hne; reflexivity.
Qed.

(* repeated helper.go:ReadMessage *)
Lemma read_messagesR state bufs : wf_cfg (rm_cfg state) -> forall fuel fs acc s,
  Forall wf_sframe fs -> wf_src s -> tl s = TEOF -> flat s = wire fs ->
  (length (wire fs) + 2 <= fuel)%nat ->
  forall rl, snd (read_messages fuel bufs s state acc) = RProtocol rl ->
  viol_rule (rm_cfg state) false fs = Some rl.
Proof.
  intros Hc. set (c := rm_cfg state) in *.
  induction fuel as [|fuel IH]; intros fs acc s Hfs Hw Ht Hfl Hfuel; [lia|].
  cbn [read_messages]. unfold read_message.
  pose proof (new_reader_bnd c fs s Hc Hfs Hw Ht Hfl) as HB.
  change (new_reader s (c_state c) false (c_check_utf8 c) (c_max c) (c_ext c) CbReadAll)
    with (new_reader s state false true 0 false CbReadAll) in HB.
  set (r := new_reader s state false true 0 false CbReadAll) in *.
  destruct fs as [|f rest].
  - destruct (next_frame_eof c None [] r HB) as (h & r' & Hnf & Hlg). rewrite Hnf. cbn [is_some fst snd].
    discriminate.
  - pose proof (next_frame_facts c None [] f rest r Hc HB) as F.
    destruct (next_frame_spec c None [] f rest r Hc HB) as (h & e & r1 & Hnf & H). rewrite Hnf in F |- *.
    cbn [is_some andb negb] in F.
    destruct e as [err|].
    + cbn [fst snd]. intros rl ->. cbn [viol_rule]. destruct (check_header _ _) as [rl0|].
      * injection F as <-. reflexivity.
      * exfalso. apply (proj1 F rl). reflexivity.
    + destruct (check_header (sf_header f) (set_fragmented (c_state c) false)) as [rl0|] eqn:Hck;
        [discriminate F|]. clear F.
      destruct H as (Hlen & [(m0 & Hm0 & _)|(Hop & HM & _)]); [discriminate|].
      assert (Hfl0: flat (r_src r) = wire (f :: rest)) by exact Hfl.
      rewrite Hfl0 in Hlen.
      assert (Hmu: (mu r1 < S fuel)%nat).
      { unfold mu. rewrite (m_frame _ _ _ _ _ _ _ _ HM). clear -Hlen Hfuel. lia. }
      pose proof (first_frame_vr c [] f rest r r1 Hc HB Hck HM) as Hv1.
      destruct (read_to_eofR c Hc (S fuel) (MMid (msg_of c None f) f [] (sf_payload f)) [] rest r1
                  bufs bufs [] HM Hmu) as (p & e2 & r2 & Hrte & Hres).
      rewrite Hrte. rewrite Hv1 in Hres.
      destruct Hres as [(-> & mid & rest' & HB' & _ & Hle & Hv2 & _)|(Hne & mid & _ & _ & Hrl & _)].
      * pose proof (b_src _ _ _ _ _ HB') as (Hw' & Ht' & Hfl'). cbn [fst snd].
        intros rl Hrl. rewrite <- Hv2. unfold vr. rewrite (b_state _ _ _ _ _ HB'), st_frag_set. cbn [is_some].
        refine (IH rest' _ (r_src r2) (b_wf _ _ _ _ _ HB') Hw' Ht' Hfl' _ rl Hrl).
        rewrite <- Hfl'. clear -Hle Hlen Hfuel. lia.
      * destruct e2 as [[| |]| | | | | | | |]; cbn [fst snd]; try exact Hrl. exfalso; apply Hne; reflexivity.
Qed.

(* ------------------------------------------------------------------ C05, stream level *)
Lemma open_flag_eq (a b : bool) : (if a then OCutMidMessage else OClean) = (if b then OCutMidMessage else OClean) -> a = b.
Proof. destruct a, b; intros H; try reflexivity; discriminate. Qed.

(* the spec on [pre ++ f :: post] when [pre] is accepted and [f] is refused *)
Lemma spec_at_violation c pre f post (open : bool) :
  Forall wf_sframe (pre ++ f :: post) ->
  sr_out (spec_run c 0 None [] pre) = (if open then OCutMidMessage else OClean) ->
  (broken (sf_header f) (set_fragmented (c_state c) open) <> [] \/ too_large c f = true) ->
  let sp := spec_run c 0 None [] pre in
  (exists out, spec_run c 0 None [] (pre ++ f :: post) = mkSR (sr_events sp) (sr_partial sp) out /\
     match check_header (sf_header f) (set_fragmented (c_state c) open) with
     | Some rl => out = OProtocol (length pre) /\ In rl (broken (sf_header f) (set_fragmented (c_state c) open))
     | None => out = OTooLarge (length pre)
     end) /\
  (forall rl, check_header (sf_header f) (set_fragmented (c_state c) open) = Some rl ->
              viol_rule c false (pre ++ f :: post) = Some rl) /\
  data_bytes_of_events (sr_events sp) ++ sr_partial sp = data_bytes_of_frames pre /\
  ctl_of_events (sr_events sp) = ctl_of_frames pre.
Proof.
  intros Hwf Hout Hbad sp.
  apply Forall_app in Hwf. destruct Hwf as [Hpre Hwf]. pose proof (Forall_inv Hwf) as Hf.
  assert (Hacc: sr_out sp = OClean \/ sr_out sp = OCutMidMessage)
    by (unfold sp; rewrite Hout; destruct open; auto).
  destruct (spec_prefix c pre 0%nat None [] Hpre I Hacc) as (openm' & _ & Hp' & Hout' & Happ' & Hvr' & Hd' & Hc').
  fold sp in Hp', Hout', Happ', Hd', Hc'.
  assert (Ho: is_some openm' = open).
  { unfold sp in Hout'. rewrite Hout in Hout'. symmetry. apply open_flag_eq, Hout'. }
  subst open. cbn [is_some] in Hvr'.
  split; [|split; [|split]].
  - rewrite Happ', spec_run_cons, <- Hp'. cbn [Nat.add].
    pose proof (frame_ok_check c (is_some openm') f Hf) as Hck.
    destruct (check_header (sf_header f) (set_fragmented (c_state c) (is_some openm'))) as [rl|] eqn:E.
    + rewrite Hck. cbn [negb]. eexists. split; [reflexivity|]. split; [reflexivity|].
      apply in_broken. apply (check_header_sound (sf_header f) _ _ (proj1 (proj2 Hf)) E).
    + destruct Hck as [Hok Hbr]. rewrite Hok. cbn [negb]. destruct Hbad as [Hbad|Hbad]; [contradiction|].
      unfold too_large in Hbad. rewrite Hbad. eexists. split; reflexivity.
  - intros rl E. rewrite Hvr'. cbn [viol_rule]. rewrite E. reflexivity.
  - rewrite Hp', Hd'. reflexivity.
  - rewrite Hc'. reflexivity.
Qed.

Lemma err_protocol o e k : o = OProtocol k -> err_matches o e = true -> exists rl, e = RProtocol rl.
Proof. intros -> H. destruct e as [[| |]| | |rl| | | | |]; try discriminate. exists rl. reflexivity. Qed.
Lemma err_too_large o e k : o = OTooLarge k -> err_matches o e = true -> e = RTooLarge.
Proof. intros -> H. destruct e as [[| |]| | |rl| | | | |]; try discriminate. reflexivity. Qed.

Theorem stream_violation : forall c pre f post s bufs fuel (open : bool),
  wf_cfg c -> Forall wf_sframe (pre ++ f :: post) -> wf_src s -> tl s = TEOF ->
  flat s = wire (pre ++ f :: post) ->
  (2 * length (wire (pre ++ f :: post)) + 4 * length (pre ++ f :: post) + 8 <= fuel)%nat ->
  sr_out (spec_run c 0 None [] pre) = (if open then OCutMidMessage else OClean) ->
  (broken (sf_header f) (set_fragmented (c_state c) open) <> [] \/ too_large c f = true) ->
  let sp := spec_run c 0 None [] pre in
  let d := drive fuel bufs (new_reader s (c_state c) false (c_check_utf8 c) (c_max c) (c_ext c) CbReadAll) in
  match check_header (sf_header f) (set_fragmented (c_state c) open) with
  | Some rl => dr_err d = RProtocol rl /\ In rl (broken (sf_header f) (set_fragmented (c_state c) open))
  | None => dr_err d = RTooLarge
  end /\
  evs_match (sr_events sp) (dr_events d) = true /\
  dr_partial d = sr_partial sp /\
  data_bytes_of_events (dr_events d) ++ dr_partial d = data_bytes_of_frames pre /\
  ctl_of_events (dr_events d) = ctl_of_frames pre.
Proof.
  intros c pre f post s bufs fuel open Hc Hwf Hw Ht Hfl Hfuel Hout Hbad sp d.
  destruct (spec_at_violation c pre f post open Hwf Hout Hbad) as ((out & HS & Hk) & Hvr & Hdat & Hctl).
  fold sp in HS, Hdat, Hctl.
  pose proof (reader_meets_spec c _ s bufs fuel Hc Hwf Hw Ht Hfl Hfuel) as M. cbv zeta in M. fold d in M.
  unfold reader_monitor, expected_events in M. rewrite HS in M. cbn [sr_events sr_out sr_partial] in M.
  apply andb_true_iff in M. destruct M as [M Mp]. apply andb_true_iff in M. destruct M as [Mev Merr].
  assert (Hpart: dr_partial d = sr_partial sp).
  { destruct (check_header _ _); [destruct Hk as [-> _]|rewrite Hk in Mp]; apply bytes_eqb_eq, Mp. }
  destruct (evs_match_same _ _ Mev) as (E1 & E2 & _).
  split; [|split; [exact Mev|split; [exact Hpart|split]]].
  - destruct (check_header (sf_header f) (set_fragmented (c_state c) open)) as [rl|] eqn:E.
    + destruct Hk as [Hk Hin]. split; [|exact Hin].
      destruct (err_protocol _ _ _ Hk Merr) as (rl' & Hrl').
      pose proof (new_reader_bnd c _ s Hc Hwf Hw Ht Hfl) as HB.
      destruct (driveR c bufs Hc fuel _ [] _ HB ltac:(lia)) as [HR _]. fold d in HR.
      specialize (HR rl' Hrl'). rewrite (Hvr rl eq_refl) in HR. injection HR as <-. exact Hrl'.
    + apply (err_too_large _ _ _ Hk Merr).
  - rewrite <- E1, Hpart. exact Hdat.
  - rewrite <- E2. exact Hctl.
Qed.

Theorem read_message_violation : forall state pre f post s bufs fuel (open : bool),
  wf_cfg (mkCfg state true 0 false) -> Forall wf_sframe (pre ++ f :: post) -> wf_src s -> tl s = TEOF ->
  flat s = wire (pre ++ f :: post) ->
  (length (wire (pre ++ f :: post)) + 2 <= fuel)%nat ->
  sr_out (spec_run (mkCfg state true 0 false) 0 None [] pre) = (if open then OCutMidMessage else OClean) ->
  broken (sf_header f) (set_fragmented state open) <> [] ->
  let sp := spec_run (mkCfg state true 0 false) 0 None [] pre in
  let '(evs, e) := read_messages fuel bufs s state [] in
  (exists rl, check_header (sf_header f) (set_fragmented state open) = Some rl /\ e = RProtocol rl /\
              In rl (broken (sf_header f) (set_fragmented state open))) /\
  evs_match (sr_events sp) evs = true /\
  data_bytes_of_events evs ++ sr_partial sp = data_bytes_of_frames pre /\
  ctl_of_events evs = ctl_of_frames pre.
Proof.
  intros state pre f post s bufs fuel open Hc Hwf Hw Ht Hfl Hfuel Hout Hbad sp.
  fold (rm_cfg state) in *. set (c := rm_cfg state) in *.
  destruct (spec_at_violation c pre f post open Hwf Hout (or_introl Hbad)) as ((out & HS & Hk) & Hvr & Hdat & Hctl).
  fold sp in HS, Hdat, Hctl. change (c_state c) with state in *.
  pose proof (read_message_meets_spec _ state s bufs fuel Hc Hwf Hw Ht Hfl Hfuel) as M.
  pose proof (read_messagesR state bufs Hc fuel _ [] s Hwf Hw Ht Hfl Hfuel) as HR.
  destruct (read_messages fuel bufs s state []) as [evs e]. cbn [snd] in HR.
  fold (rm_cfg state) in M. fold c in M, HR.
  unfold reader_monitor, expected_events in M. rewrite HS in M. cbn [sr_events sr_out sr_partial] in M.
  apply andb_true_iff in M. destruct M as [M _]. apply andb_true_iff in M. destruct M as [Mev Merr].
  destruct (evs_match_same _ _ Mev) as (E1 & E2 & _).
  split; [|split; [exact Mev|split]].
  - destruct (check_header (sf_header f) (set_fragmented state open)) as [rl|] eqn:E.
    + destruct Hk as [Hk Hin]. exists rl. split; [reflexivity|]. split; [|exact Hin].
      destruct (err_protocol _ _ _ Hk Merr) as (rl' & Hrl').
      specialize (HR rl' Hrl'). rewrite (Hvr rl eq_refl) in HR. injection HR as <-. exact Hrl'.
    + exfalso. pose proof (Forall_inv (proj2 (proj1 (Forall_app _ _ _) Hwf))) as Hf.
      pose proof (frame_ok_check c open f Hf) as Hck. change (c_state c) with state in Hck.
      rewrite E in Hck. apply Hbad, Hck.
  - rewrite <- E1. exact Hdat.
  - rewrite <- E2. exact Hctl.
Qed.
