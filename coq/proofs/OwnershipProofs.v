(* OwnershipProofs.v — proofs about model/Ownership.v, for every number of sessions,
   all programs accepted by the typestate checker, all schedules and all choices of
   recycled buffers (induction over the run; nothing is bounded). *)
Require Import Bytes Ownership.
From Coq Require Import List Bool Arith Lia.
Import ListNotations.
Open Scope nat_scope.

(* ---------- small facts ---------- *)
Lemma upd_same : forall A (f : nat -> A) k v, upd f k v k = v.
Proof. intros; unfold upd; rewrite Nat.eqb_refl; reflexivity. Qed.
Lemma upd_other : forall A (f : nat -> A) k v x, x <> k -> upd f k v x = f x.
Proof. intros A f k v x H; unfold upd. destruct (Nat.eqb_spec x k); congruence. Qed.

Lemma mem_loc_in : forall l ls, mem_loc l ls = true <-> In l ls.
Proof.
  intros l ls; unfold mem_loc; rewrite existsb_exists; split.
  - intros [x [Hx He]]. apply Nat.eqb_eq in He; subst; assumption.
  - intros H; exists l; split; auto. apply Nat.eqb_refl.
Qed.
Lemma remove_loc_in : forall l x ls, In x (remove_loc l ls) <-> In x ls /\ x <> l.
Proof.
  intros l x ls; unfold remove_loc; rewrite filter_In. split; intros [H1 H2]; split; auto.
  - intros E; subst. rewrite Nat.eqb_refl in H2; discriminate.
  - destruct (Nat.eqb_spec x l); [contradiction|reflexivity].
Qed.
Lemma remove_loc_nodup : forall l ls, NoDup ls -> NoDup (remove_loc l ls).
Proof. intros; unfold remove_loc; apply NoDup_filter; assumption. Qed.

(* ---------- the invariant ---------- *)
Definition holds (st : gstate) (i : sid) (r : reg) (l : loc) : Prop :=
  live (s_ts (g_sess st i) r) = true /\ s_regs (g_sess st i) r = Some l.

Definition good_rt (regs : reg -> option loc) (ts : reg -> tstate) (v : val) : Prop :=
  match v with
  | Own _ => True
  | View l _ _ => exists r, regs r = Some l /\ ts r = THeld KFresh true true
  end.
Definition good_val (s : sstate) (v : val) : Prop := good_rt (s_regs s) (s_ts s) v.

Record Inv (st : gstate) : Prop := mkInv {
  inv_nodup : NoDup (g_free st);
  inv_free_lt : forall l, In l (g_free st) -> l < g_next st;
  inv_live : forall i r, live (s_ts (g_sess st i) r) = true ->
             exists l, s_regs (g_sess st i) r = Some l /\ l < g_next st /\ ~ In l (g_free st);
  inv_inj : forall i r j r' l, holds st i r l -> holds st j r' l -> i = j /\ r = r';
  inv_check : forall i, check (s_ts (g_sess st i)) (s_code (g_sess st i)) = true;
  inv_out : forall i v, In v (s_out (g_sess st i)) -> good_val (g_sess st i) v;
  inv_caller : forall i r b l, s_ts (g_sess st i) r = TCaller b -> s_regs (g_sess st i) r = Some l ->
               g_heap st l = b
}.

Lemma Inv_init : forall progs, (forall i, disciplined (progs i) = true) -> Inv (ginit progs).
Proof.
  intros progs H. constructor; simpl; try (intros; discriminate); try (intros; contradiction).
  - constructor.
  - intros i r j r' l [H1 _]. discriminate.
  - intros i. apply H.
Qed.

(* ---------- a generic re-establishment lemma ---------- *)
Definition post (st : gstate) (i : sid) rest regs' ts' out' heap' free' next' : gstate :=
  mkG heap' free' next' (upd (g_sess st) i (mkS rest regs' ts' out')).

Lemma post_sess_same : forall st i rest regs' ts' out' heap' free' next',
  g_sess (post st i rest regs' ts' out' heap' free' next') i = mkS rest regs' ts' out'.
Proof. intros; unfold post; simpl; apply upd_same. Qed.
Lemma post_sess_other : forall st i rest regs' ts' out' heap' free' next' j, j <> i ->
  g_sess (post st i rest regs' ts' out' heap' free' next') j = g_sess st j.
Proof. intros; unfold post; simpl; apply upd_other; assumption. Qed.

Lemma Inv_post : forall st i rest regs' ts' out' heap' free' next',
  Inv st ->
  NoDup free' ->
  (forall l, In l free' -> l < next') ->
  g_next st <= next' ->
  (forall r, live (ts' r) = true -> exists l, regs' r = Some l /\ l < next' /\ ~ In l free') ->
  (forall j r l, j <> i -> holds st j r l -> ~ In l free') ->
  (forall r l, live (ts' r) = true -> regs' r = Some l ->
     (forall j r', j <> i -> ~ holds st j r' l) /\
     (forall r2, live (ts' r2) = true -> regs' r2 = Some l -> r = r2)) ->
  check ts' rest = true ->
  (forall v, In v out' -> good_val (mkS rest regs' ts' out') v) ->
  (forall r b l, ts' r = TCaller b -> regs' r = Some l -> heap' l = b) ->
  (forall j r l, j <> i -> holds st j r l -> heap' l = g_heap st l) ->
  Inv (post st i rest regs' ts' out' heap' free' next').
Proof.
  intros st i rest regs' ts' out' heap' free' next' HI Hnd Hlt Hnext Hlive Hothers Hinj Hchk Hout Hcal Hheap.
  constructor.
  - exact Hnd.
  - exact Hlt.
  - intros j r Hl. destruct (Nat.eq_dec j i) as [->|Hne].
    + rewrite post_sess_same in *. simpl in *. apply Hlive; assumption.
    + rewrite post_sess_other in * by assumption.
      destruct (inv_live _ HI _ _ Hl) as [l [Hr [Hn Hf]]]. exists l. simpl. repeat split; auto.
      * lia.
      * apply (Hothers j r l Hne). split; assumption.
  - intros j r k r' l [Hl1 Hr1] [Hl2 Hr2].
    destruct (Nat.eq_dec j i) as [->|Hne1]; destruct (Nat.eq_dec k i) as [->|Hne2].
    + rewrite post_sess_same in *. simpl in *. split; auto.
      destruct (Hinj _ _ Hl1 Hr1) as [_ H]. apply H; assumption.
    + rewrite post_sess_same in Hl1, Hr1. rewrite post_sess_other in Hl2, Hr2 by assumption. simpl in *.
      destruct (Hinj _ _ Hl1 Hr1) as [H _]. exfalso. apply (H k r' Hne2). split; assumption.
    + rewrite post_sess_same in Hl2, Hr2. rewrite post_sess_other in Hl1, Hr1 by assumption. simpl in *.
      destruct (Hinj _ _ Hl2 Hr2) as [H _]. exfalso. apply (H j r Hne1). split; assumption.
    + rewrite post_sess_other in * by assumption.
      apply (inv_inj _ HI j r k r' l); split; assumption.
  - intros j. destruct (Nat.eq_dec j i) as [->|Hne].
    + rewrite post_sess_same. simpl. exact Hchk.
    + rewrite post_sess_other by assumption. apply (inv_check _ HI).
  - intros j v Hv. destruct (Nat.eq_dec j i) as [->|Hne].
    + rewrite post_sess_same in *. simpl in Hv. apply Hout; assumption.
    + rewrite post_sess_other in * by assumption. apply (inv_out _ HI); assumption.
  - intros j r b l Ht Hr. destruct (Nat.eq_dec j i) as [->|Hne].
    + rewrite post_sess_same in *. simpl in *. eapply Hcal; eauto.
    + rewrite post_sess_other in * by assumption. simpl.
      rewrite (Hheap j r l Hne).
      * eapply (inv_caller _ HI); eauto.
      * split; [rewrite Ht; reflexivity|assumption].
Qed.

(* steps that neither allocate nor move buffers between a session and the pool *)
Lemma Inv_local : forall st i rest ts' out' heap',
  Inv st ->
  let s := g_sess st i in
  (forall r, live (ts' r) = true -> live (s_ts s r) = true) ->
  check ts' rest = true ->
  (forall l, (forall r, ~ holds st i r l) -> heap' l = g_heap st l) ->
  (forall v, In v out' -> good_val (mkS rest (s_regs s) ts' out') v) ->
  (forall r b l, ts' r = TCaller b -> s_regs s r = Some l -> heap' l = b) ->
  Inv (post st i rest (s_regs s) ts' out' heap' (g_free st) (g_next st)).
Proof.
  intros st i rest ts' out' heap' HI s Hlive Hchk Hheap Hout Hcal.
  apply Inv_post; auto.
  - apply (inv_nodup _ HI).
  - apply (inv_free_lt _ HI).
  - intros r Hl. apply (inv_live _ HI i r). apply Hlive; assumption.
  - intros j r l Hne [Hl Hr]. destruct (inv_live _ HI j r Hl) as [l' [Hr' [_ Hf]]].
    rewrite Hr in Hr'. inversion Hr'; subst. assumption.
  - intros r l Hl Hr. split.
    + intros j r' Hne Hh. destruct (inv_inj _ HI i r j r' l) as [E _]; auto.
      split; [apply Hlive; assumption|assumption].
    + intros r2 Hl2 Hr2. destruct (inv_inj _ HI i r i r2 l) as [_ E]; auto.
      * split; [apply Hlive; assumption|assumption].
      * split; [apply Hlive; assumption|assumption].
  - intros j r l Hne Hh. apply Hheap. intros r0 Hh0.
    destruct (inv_inj _ HI i r0 j r l Hh0 Hh) as [E _]. congruence.
Qed.

Lemma holds_unique_loc : forall st i r l l', holds st i r l -> s_regs (g_sess st i) r = Some l' -> l = l'.
Proof. intros st i r l l' [_ H] H'. congruence. Qed.

(* allocation of a fresh cell into a free register *)
Lemma Inv_alloc : forall st i rest r tnew out' heap',
  Inv st ->
  let s := g_sess st i in
  tfree (s_ts s r) = true -> live tnew = true ->
  check (upd (s_ts s) r tnew) rest = true ->
  (forall l, l <> g_next st -> heap' l = g_heap st l) ->
  out' = s_out s ->
  (forall b, tnew = TCaller b -> heap' (g_next st) = b) ->
  Inv (post st i rest (upd (s_regs s) r (Some (g_next st))) (upd (s_ts s) r tnew) out' heap' (g_free st) (S (g_next st))).
Proof.
  intros st i rest r tnew out' heap' HI s Hfree Hnew Hchk Hheap Hout Hcal.
  assert (Hnl : live (s_ts s r) = false) by (destruct (s_ts s r); simpl in *; congruence).
  apply Inv_post; auto.
  - apply (inv_nodup _ HI).
  - intros l Hl. apply (inv_free_lt _ HI) in Hl. lia.
  - intros r0 Hl. destruct (Nat.eq_dec r0 r) as [->|Hne].
    + exists (g_next st). rewrite upd_same. repeat split; auto.
      intros Hin. apply (inv_free_lt _ HI) in Hin. lia.
    + rewrite upd_other in Hl |- * by assumption.
      destruct (inv_live _ HI i r0 Hl) as [l [Hr [Hn Hf]]]. exists l. repeat split; auto.
  - intros j r0 l Hne [Hl Hr]. destruct (inv_live _ HI j r0 Hl) as [l' [Hr' [_ Hf]]].
    rewrite Hr in Hr'. inversion Hr'; subst. assumption.
  - intros r0 l Hl Hr. destruct (Nat.eq_dec r0 r) as [->|Hne].
    + rewrite upd_same in Hr. inversion Hr; subst l. split.
      * intros j r' Hne [Hl' Hr']. destruct (inv_live _ HI j r' Hl') as [l' [Hr'' [Hn _]]].
        rewrite Hr' in Hr''. inversion Hr''; subst. lia.
      * intros r2 Hl2 Hr2. destruct (Nat.eq_dec r2 r) as [->|Hne2]; auto.
        rewrite upd_other in Hl2, Hr2 by assumption.
        destruct (inv_live _ HI i r2 Hl2) as [l' [Hr'' [Hn _]]]. fold s in Hr''.
        rewrite Hr2 in Hr''. inversion Hr''; subst. lia.
    + rewrite upd_other in Hl, Hr by assumption. split.
      * intros j r' Hne' Hh. destruct (inv_inj _ HI i r0 j r' l) as [E _]; auto. split; assumption.
      * intros r2 Hl2 Hr2. destruct (Nat.eq_dec r2 r) as [->|Hne2].
        { rewrite upd_same in Hr2. inversion Hr2; subst l.
          destruct (inv_live _ HI i r0 Hl) as [l' [Hr'' [Hn _]]]. fold s in Hr''.
          rewrite Hr in Hr''. inversion Hr''; subst. lia. }
        { rewrite upd_other in Hl2, Hr2 by assumption.
          destruct (inv_inj _ HI i r0 i r2 l) as [_ E]; auto; split; assumption. }
  - intros v Hv. subst out'. pose proof (inv_out _ HI i v Hv) as Hg. fold s in Hg.
    destruct v as [b|l off n]; simpl in *; auto.
    destruct Hg as [r0 [Hr0 Ht0]]. exists r0.
    assert (r0 <> r) by (intros E; subst r0; rewrite Ht0 in Hfree; discriminate).
    rewrite !upd_other by assumption. auto.
  - intros r0 b l Ht Hr. destruct (Nat.eq_dec r0 r) as [->|Hne].
    + rewrite upd_same in Ht, Hr. inversion Hr; subst l. apply Hcal; assumption.
    + rewrite upd_other in Ht, Hr by assumption.
      destruct (inv_live _ HI i r0) as [l' [Hr'' [Hn _]]]; [fold s; rewrite Ht; reflexivity|].
      fold s in Hr''. rewrite Hr in Hr''. inversion Hr''; subst l'.
      rewrite Hheap by lia. eapply (inv_caller _ HI); eauto.
  - intros j r0 l Hne [Hl Hr]. destruct (inv_live _ HI j r0 Hl) as [l' [Hr' [Hn _]]].
    rewrite Hr in Hr'. inversion Hr'; subst. apply Hheap. lia.
Qed.

(* a pooled buffer handed to a session *)
Lemma Inv_getpool : forall st i rest r l0,
  Inv st ->
  let s := g_sess st i in
  tfree (s_ts s r) = true -> In l0 (g_free st) ->
  check (upd (s_ts s) r (THeld KPool false false)) rest = true ->
  Inv (post st i rest (upd (s_regs s) r (Some l0)) (upd (s_ts s) r (THeld KPool false false)) (s_out s)
            (g_heap st) (remove_loc l0 (g_free st)) (g_next st)).
Proof.
  intros st i rest r l0 HI s Hfree Hin Hchk.
  assert (Hnotheld : forall j r' , ~ holds st j r' l0).
  { intros j r' [Hl Hr]. destruct (inv_live _ HI j r' Hl) as [l' [Hr' [_ Hf]]].
    rewrite Hr in Hr'. inversion Hr'; subst. contradiction. }
  apply Inv_post; auto.
  - apply remove_loc_nodup. apply (inv_nodup _ HI).
  - intros l Hl. apply remove_loc_in in Hl. apply (inv_free_lt _ HI). tauto.
  - intros r0 Hl. destruct (Nat.eq_dec r0 r) as [->|Hne].
    + exists l0. rewrite upd_same. repeat split; auto.
      * apply (inv_free_lt _ HI); assumption.
      * intros H. apply remove_loc_in in H. tauto.
    + rewrite upd_other in Hl |- * by assumption.
      destruct (inv_live _ HI i r0 Hl) as [l [Hr [Hn Hf]]]. exists l. repeat split; auto.
      intros H. apply remove_loc_in in H. tauto.
  - intros j r0 l Hne [Hl Hr]. destruct (inv_live _ HI j r0 Hl) as [l' [Hr' [_ Hf]]].
    rewrite Hr in Hr'. inversion Hr'; subst. intros H. apply remove_loc_in in H. tauto.
  - intros r0 l Hl Hr. destruct (Nat.eq_dec r0 r) as [->|Hne].
    + rewrite upd_same in Hr. inversion Hr; subst l. split.
      * intros j r' _. apply Hnotheld.
      * intros r2 Hl2 Hr2. destruct (Nat.eq_dec r2 r) as [->|Hne2]; auto.
        rewrite upd_other in Hl2, Hr2 by assumption. exfalso. apply (Hnotheld i r2). split; assumption.
    + rewrite upd_other in Hl, Hr by assumption. split.
      * intros j r' Hne' Hh. destruct (inv_inj _ HI i r0 j r' l) as [E _]; auto. split; assumption.
      * intros r2 Hl2 Hr2. destruct (Nat.eq_dec r2 r) as [->|Hne2].
        { rewrite upd_same in Hr2. inversion Hr2; subst l. exfalso. apply (Hnotheld i r0). split; assumption. }
        { rewrite upd_other in Hl2, Hr2 by assumption.
          destruct (inv_inj _ HI i r0 i r2 l) as [_ E]; auto; split; assumption. }
  - intros v Hv. pose proof (inv_out _ HI i v Hv) as Hg. fold s in Hg.
    destruct v as [b|l off n]; simpl in *; auto.
    destruct Hg as [r0 [Hr0 Ht0]]. exists r0.
    assert (r0 <> r) by (intros E; subst r0; rewrite Ht0 in Hfree; discriminate).
    rewrite !upd_other by assumption. auto.
  - intros r0 b l Ht Hr. destruct (Nat.eq_dec r0 r) as [->|Hne].
    + rewrite upd_same in Ht. discriminate.
    + rewrite upd_other in Ht, Hr by assumption. eapply (inv_caller _ HI); eauto.
Qed.

(* a buffer returned to the pool *)
Lemma Inv_put : forall st i rest r l0 f,
  Inv st ->
  let s := g_sess st i in
  s_ts s r = THeld KPool f false -> s_regs s r = Some l0 ->
  check (upd (s_ts s) r TDead) rest = true ->
  Inv (post st i rest (s_regs s) (upd (s_ts s) r TDead) (s_out s) (g_heap st) (l0 :: g_free st) (g_next st)).
Proof.
  intros st i rest r l0 f HI s Ht Hr Hchk.
  assert (Hh : holds st i r l0) by (split; [fold s; rewrite Ht; reflexivity|assumption]).
  destruct (inv_live _ HI i r (proj1 Hh)) as [l' [Hr' [Hn Hf]]]. fold s in Hr'.
  rewrite Hr in Hr'. inversion Hr'; subst l'.
  apply Inv_post; auto.
  - constructor; [assumption|apply (inv_nodup _ HI)].
  - intros l [E|Hl]; [subst; assumption|apply (inv_free_lt _ HI); assumption].
  - intros r0 Hl. destruct (Nat.eq_dec r0 r) as [->|Hne].
    + rewrite upd_same in Hl. discriminate.
    + rewrite upd_other in Hl by assumption.
      destruct (inv_live _ HI i r0 Hl) as [l [Hr0 [Hn0 Hf0]]]. exists l. repeat split; auto.
      intros [E|Hin]; [|contradiction]. subst l.
      destruct (inv_inj _ HI i r i r0 l0) as [_ E]; auto. split; assumption.
  - intros j r0 l Hne Hh0 [E|Hin].
    + subst l. destruct (inv_inj _ HI i r j r0 l0 Hh Hh0) as [E _]. congruence.
    + destruct Hh0 as [Hl0 Hr0]. destruct (inv_live _ HI j r0 Hl0) as [l' [Hr'' [_ Hf']]].
      rewrite Hr0 in Hr''. inversion Hr''; subst. contradiction.
  - intros r0 l Hl Hr0. destruct (Nat.eq_dec r0 r) as [->|Hne].
    + rewrite upd_same in Hl. discriminate.
    + rewrite upd_other in Hl by assumption. split.
      * intros j r' Hne' Hh'. destruct (inv_inj _ HI i r0 j r' l) as [E _]; auto. split; assumption.
      * intros r2 Hl2 Hr2. destruct (Nat.eq_dec r2 r) as [->|Hne2].
        { rewrite upd_same in Hl2. discriminate. }
        { rewrite upd_other in Hl2 by assumption.
          destruct (inv_inj _ HI i r0 i r2 l) as [_ E]; auto; split; assumption. }
  - intros v Hv. pose proof (inv_out _ HI i v Hv) as Hg. fold s in Hg.
    destruct v as [b|l off n]; simpl in *; auto.
    destruct Hg as [r0 [Hr0 Ht0]]. exists r0.
    assert (r0 <> r) by (intros E; subst r0; rewrite Ht0 in Ht; discriminate).
    rewrite !upd_other by assumption. auto.
  - intros r0 b l Ht0 Hr0. destruct (Nat.eq_dec r0 r) as [->|Hne].
    + rewrite upd_same in Ht0. discriminate.
    + rewrite upd_other in Ht0 by assumption. eapply (inv_caller _ HI); eauto.
Qed.

Lemma good_rt_upd : forall regs ts r tnew v,
  good_rt regs ts v ->
  (ts r = THeld KFresh true true -> tnew = THeld KFresh true true) ->
  good_rt regs (upd ts r tnew) v.
Proof.
  intros regs ts r tnew v Hg Hk. destruct v as [b|l off n]; simpl in *; auto.
  destruct Hg as [r0 [Hr0 Ht0]]. exists r0. split; auto.
  destruct (Nat.eq_dec r0 r) as [->|Hne]; [rewrite upd_same; auto|rewrite upd_other; auto].
Qed.

(* a write through register r of session i, whose typestate is not a caller's slice *)
Lemma Inv_write : forall st i rest r l tnew hv,
  Inv st ->
  let s := g_sess st i in
  live (s_ts s r) = true -> s_regs s r = Some l ->
  live tnew = true ->
  (s_ts s r = THeld KFresh true true -> tnew = THeld KFresh true true) ->
  (forall b, tnew = TCaller b -> hv = b) ->
  check (upd (s_ts s) r tnew) rest = true ->
  Inv (post st i rest (s_regs s) (upd (s_ts s) r tnew) (s_out s) (upd (g_heap st) l hv) (g_free st) (g_next st)).
Proof.
  intros st i rest r l tnew hv HI s Hl Hr Hnew Hexp Hcal Hchk.
  apply Inv_local; auto.
  - intros r0 H0. destruct (Nat.eq_dec r0 r) as [->|Hne]; [assumption|rewrite upd_other in H0; auto].
  - intros l' Hno. apply upd_other. intros E; subst l'. apply (Hno r). split; assumption.
  - intros v Hv. apply good_rt_upd; auto. apply (inv_out _ HI i v Hv).
  - intros r0 b l' Ht Hr'. destruct (Nat.eq_dec r0 r) as [->|Hne].
    + rewrite upd_same in Ht. fold s in Hr'. rewrite Hr in Hr'. inversion Hr'; subst l'.
      rewrite upd_same. apply Hcal; assumption.
    + rewrite upd_other in Ht by assumption.
      assert (l' <> l).
      { intros E; subst l'. destruct (inv_inj _ HI i r0 i r l) as [_ E]; auto.
        - split; [fold s; rewrite Ht; reflexivity|assumption].
        - split; assumption. }
      rewrite upd_other by assumption. apply (inv_caller _ HI i r0 b l'); auto.
Qed.

(* a step that only changes the typestate of r (to something not live, or the same) and/or the results *)
Lemma Inv_quiet : forall st i rest r tnew out',
  Inv st ->
  let s := g_sess st i in
  (live tnew = true -> live (s_ts s r) = true) ->
  (s_ts s r = THeld KFresh true true -> tnew = THeld KFresh true true) ->
  (forall b, tnew = TCaller b -> s_ts s r = TCaller b) ->
  check (upd (s_ts s) r tnew) rest = true ->
  (forall v, In v out' -> In v (s_out s) \/ (exists b, v = Own b) \/
     (exists l off n, v = View l off n /\ s_regs s r = Some l /\ tnew = THeld KFresh true true)) ->
  Inv (post st i rest (s_regs s) (upd (s_ts s) r tnew) out' (g_heap st) (g_free st) (g_next st)).
Proof.
  intros st i rest r tnew out' HI s Hlive Hexp Hcal Hchk Hout.
  apply Inv_local; auto.
  - intros r0 H0. destruct (Nat.eq_dec r0 r) as [->|Hne];
      [rewrite upd_same in H0; auto|rewrite upd_other in H0; auto].
  - intros v Hv. destruct (Hout v Hv) as [Hin|[[b E]|[l [off [n [E [Hr Ht]]]]]]].
    + apply good_rt_upd; auto. apply (inv_out _ HI i v Hin).
    + subst v; simpl; auto.
    + subst v; simpl. exists r. rewrite upd_same. auto.
  - intros r0 b l Ht Hr. destruct (Nat.eq_dec r0 r) as [->|Hne].
    + rewrite upd_same in Ht. apply (inv_caller _ HI i r b l); auto.
    + rewrite upd_other in Ht by assumption. apply (inv_caller _ HI i r0 b l); auto.
Qed.

Lemma upd_id : forall A (f : nat -> A) k, forall x, upd f k (f k) x = f x.
Proof. intros A f k x. unfold upd. destruct (Nat.eqb_spec x k); subst; reflexivity. Qed.

Ltac inv_some H := inversion H; subst; clear H.
Ltac use_lemma L Es :=
  let HL := fresh "HL" in
  pose proof L as HL; cbv zeta in HL; rewrite Es in HL; simpl in HL; apply HL; clear HL.

(* ---------- ownership_inv, part 1: the invariant is preserved by every step ---------- *)
Theorem step_Inv : forall st lab st', Inv st -> step st lab = Some st' -> Inv st'.
Proof.
  intros st [i c] st' HI Hs. unfold step in Hs.
  pose proof (inv_check _ HI i) as Hc.
  destruct (g_sess st i) as [code regs ts out] eqn:Es. simpl in *.
  destruct code as [|o rest]; [discriminate|].
  simpl in Hc. destruct (tnext ts o) as [t'|] eqn:Ht; [|discriminate].
  unfold ghost in Hs. rewrite Ht in Hs. unfold with_reg in Hs. simpl in Hs.
  destruct o; simpl in Ht.
  - (* OGet *)
    destruct (tfree (ts r)) eqn:Hf; [|discriminate]. inv_some Ht. destruct c as [l|].
    + destruct (mem_loc l (g_free st)) eqn:Hm; [|discriminate]. inv_some Hs.
      apply mem_loc_in in Hm. use_lemma (Inv_getpool st i rest r l HI) Es; auto.
    + inv_some Hs. use_lemma (Inv_alloc st i rest r (THeld KPool false false) out (g_heap st) HI) Es; auto.
      intros; discriminate.
  - (* OAlloc *)
    destruct (tfree (ts r)) eqn:Hf; [|discriminate]. inv_some Ht. inv_some Hs.
    use_lemma (Inv_alloc st i rest r (THeld KFresh false false) out (g_heap st) HI) Es; auto.
    intros; discriminate.
  - (* OArg *)
    destruct (tfree (ts r)) eqn:Hf; [|discriminate]. inv_some Ht. inv_some Hs.
    use_lemma (Inv_alloc st i rest r (TCaller b) out (upd (g_heap st) (g_next st) b) HI) Es; auto.
    + intros l Hne. apply upd_other; assumption.
    + intros b0 E. inversion E; subst. apply upd_same.
  - (* OFill *)
    destruct (ts r) as [|k f e|bb|] eqn:Htr; try discriminate. destruct e; [discriminate|]. inv_some Ht.
    destruct (regs r) as [l|] eqn:Hr; [|discriminate]. inv_some Hs.
    use_lemma (Inv_write st i rest r l (THeld k true false) b HI) Es; auto;
      try (rewrite Htr; reflexivity); intros; try discriminate. rewrite Htr in *; discriminate.
  - (* OCopy *)
    destruct (readable (ts rs) && negb (rd =? rs)) eqn:Hrd; [|discriminate].
    destruct (ts rd) as [|k f e|bb|] eqn:Htr; try discriminate. destruct e; [discriminate|]. inv_some Ht.
    destruct (regs rd) as [ld|] eqn:Hr; [|discriminate].
    destruct (regs rs) as [ls|] eqn:Hr2; [|discriminate]. inv_some Hs.
    use_lemma (Inv_write st i rest rd ld (THeld k true false) (g_heap st ls) HI) Es; auto;
      try (rewrite Htr; reflexivity); intros; try discriminate. rewrite Htr in *; discriminate.
  - (* OMask *)
    destruct (ts r) as [|kd f e|bb|] eqn:Htr; try discriminate.
    destruct f; [|discriminate]. destruct e; [discriminate|]. inv_some Ht.
    destruct (regs r) as [l|] eqn:Hr; [|discriminate]. inv_some Hs.
    use_lemma (Inv_write st i rest r l (THeld kd true false) (xor_key k (g_heap st l)) HI) Es; auto;
      try (rewrite Htr; reflexivity); intros; try discriminate. rewrite Htr in *; discriminate.
  - (* OScribble *)
    destruct (ts r) as [|kd f e|bb|] eqn:Htr; try discriminate. inv_some Ht.
    destruct (regs r) as [l|] eqn:Hr; [|discriminate]. inv_some Hs.
    use_lemma (Inv_write st i rest r l (TCaller b) b HI) Es; auto;
      try (rewrite Htr; reflexivity); intros; try discriminate.
    + rewrite Htr in *; discriminate.
    + congruence.
  - (* OOutCopy *)
    destruct (readable (ts r)) eqn:Hrd; [|discriminate]. inv_some Ht.
    destruct (regs r) as [l|] eqn:Hr; [|discriminate]. inv_some Hs.
    use_lemma (Inv_quiet st i rest r (ts r) (out ++ [Own (sub (g_heap st l) off n)]) HI) Es; auto.
    intros v Hv. apply in_app_or in Hv. destruct Hv as [Hv|[Hv|[]]]; [left; assumption|].
    right; left. eexists; eauto.
  - (* OOutView *)
    destruct (ts r) as [|kd f e|bb|] eqn:Htr; try discriminate.
    destruct kd; [discriminate|]. destruct f; [|discriminate]. inv_some Ht.
    destruct (regs r) as [l|] eqn:Hr; [|discriminate]. inv_some Hs.
    use_lemma (Inv_quiet st i rest r (THeld KFresh true true) (out ++ [View l off n]) HI) Es; auto.
    + rewrite Htr; reflexivity.
    + intros; discriminate.
    + intros v Hv. apply in_app_or in Hv. destruct Hv as [Hv|[Hv|[]]]; [left; assumption|].
      right; right. exists l, off, n. auto.
  - (* OOutLit *)
    inv_some Ht. inv_some Hs.
    pose proof (Inv_local st i rest t' (out ++ [Own b]) (g_heap st) HI) as HL.
    cbv zeta in HL. rewrite Es in HL. simpl in HL. apply HL; clear HL; auto.
    + intros v Hv. apply in_app_or in Hv. destruct Hv as [Hv|[Hv|[]]].
      * pose proof (inv_out _ HI i v) as Hg. rewrite Es in Hg. exact (Hg Hv).
      * subst v. exact I.
    + intros r b0 l Ht Hr. apply (inv_caller _ HI i r b0 l); rewrite Es; assumption.
  - (* OPut *)
    destruct (ts r) as [|kd f e|bb|] eqn:Htr; try discriminate.
    destruct kd; [|discriminate]. destruct e; [discriminate|]. inv_some Ht.
    destruct (regs r) as [l|] eqn:Hr; [|discriminate]. inv_some Hs.
    use_lemma (Inv_put st i rest r l f HI) Es; auto.
  - (* ODrop *)
    destruct (regs r) as [l|] eqn:Hr; [|destruct (ts r) as [|? ? []| |]; discriminate].
    destruct (ts r) as [|kd f e|bb|] eqn:Htr; try discriminate.
    + destruct e; inv_some Ht; inv_some Hs.
      * use_lemma (Inv_quiet st i rest r (THeld kd f true) out HI) Es; auto.
        { intros _. rewrite Htr. reflexivity. }
        { intros E. rewrite Htr in E. exact E. }
        { intros b0 E; discriminate E. }
      * use_lemma (Inv_quiet st i rest r TDead out HI) Es; auto; try (intros; discriminate).
        rewrite Htr; intros; discriminate.
    + inv_some Ht; inv_some Hs.
      use_lemma (Inv_quiet st i rest r TDead out HI) Es; auto; try (intros; discriminate).
      rewrite Htr; intros; discriminate.
Qed.

(* ---------- frame: which cells a step can change ---------- *)
Lemma step_heap_frame : forall st j c st', Inv st -> step st (j, c) = Some st' ->
  forall l, l < g_next st ->
  (forall r, holds st j r l -> s_ts (g_sess st j) r = THeld KFresh true true) ->
  g_heap st' l = g_heap st l.
Proof.
  intros st j c st' HI Hs l Hlt Hexp. unfold step in Hs.
  pose proof (inv_check _ HI j) as Hc.
  destruct (g_sess st j) as [code regs ts out] eqn:Es. simpl in *.
  destruct code as [|o rest]; [discriminate|].
  simpl in Hc. destruct (tnext ts o) as [t'|] eqn:Ht; [|discriminate].
  unfold ghost in Hs. rewrite Ht in Hs. unfold with_reg in Hs. simpl in Hs.
  assert (Hw : forall r l' hv, regs r = Some l' -> live (ts r) = true -> ts r <> THeld KFresh true true ->
               upd (g_heap st) l' hv l = g_heap st l).
  { intros r l' hv Hr Hl Hne. apply upd_other. intros E; subst l'. apply Hne. apply Hexp.
    unfold holds. rewrite Es. simpl. auto. }
  destruct o; simpl in Ht.
  - destruct c as [l0|]; [destruct (mem_loc l0 (g_free st)); [|discriminate]|]; inv_some Hs; reflexivity.
  - inv_some Hs; reflexivity.
  - inv_some Hs. simpl. apply upd_other. lia.
  - destruct (ts r) as [|k f e|bb|] eqn:Htr; try discriminate. destruct e; [discriminate|].
    destruct (regs r) as [l'|] eqn:Hr; [|discriminate]. inv_some Hs. simpl.
    apply (Hw r); auto; rewrite Htr; [reflexivity|discriminate].
  - destruct (readable (ts rs) && negb (rd =? rs)); [|discriminate].
    destruct (ts rd) as [|k f e|bb|] eqn:Htr; try discriminate. destruct e; [discriminate|].
    destruct (regs rd) as [ld|] eqn:Hr; [|discriminate].
    destruct (regs rs) as [ls|] eqn:Hr2; [|discriminate]. inv_some Hs. simpl.
    apply (Hw rd); auto; rewrite Htr; [reflexivity|discriminate].
  - destruct (ts r) as [|kd f e|bb|] eqn:Htr; try discriminate.
    destruct f; [|discriminate]. destruct e; [discriminate|].
    destruct (regs r) as [l'|] eqn:Hr; [|discriminate]. inv_some Hs. simpl.
    apply (Hw r); auto; rewrite Htr; [reflexivity|discriminate].
  - destruct (ts r) as [|kd f e|bb|] eqn:Htr; try discriminate.
    destruct (regs r) as [l'|] eqn:Hr; [|discriminate]. inv_some Hs. simpl.
    apply (Hw r); auto; rewrite Htr; [reflexivity|discriminate].
  - destruct (regs r) as [l'|]; [|discriminate]. inv_some Hs; reflexivity.
  - destruct (regs r) as [l'|]; [|discriminate]. inv_some Hs; reflexivity.
  - inv_some Hs; reflexivity.
  - destruct (regs r) as [l'|]; [|discriminate]. inv_some Hs; reflexivity.
  - destruct (regs r) as [l'|]; [|discriminate]. inv_some Hs; reflexivity.
Qed.

(* results only grow *)
Lemma step_out_mono : forall st lab st' i v, step st lab = Some st' ->
  In v (s_out (g_sess st i)) -> In v (s_out (g_sess st' i)).
Proof.
  intros st [j c] st' i v Hs Hv. unfold step in Hs.
  destruct (Nat.eq_dec i j) as [->|Hne].
  - destruct (g_sess st j) as [code regs ts out] eqn:Es. simpl in *.
    destruct code as [|o rest]; [discriminate|]. unfold with_reg in Hs. simpl in Hs.
    destruct o; try destruct c as [l0|]; try destruct (mem_loc l0 (g_free st));
      try destruct (regs r) as [l'|]; try destruct (regs rd) as [ld|]; try destruct (regs rs) as [ls|];
      try discriminate; inv_some Hs; simpl; rewrite upd_same; simpl; auto using in_or_app.
  - assert (E : g_sess st' i = g_sess st i).
    { destruct (g_sess st j) as [code regs ts out] eqn:Es. simpl in *.
      destruct code as [|o rest]; [discriminate|]. unfold with_reg in Hs. simpl in Hs.
      destruct o; try destruct c as [l0|]; try destruct (mem_loc l0 (g_free st));
        try destruct (regs r) as [l'|]; try destruct (regs rd) as [ld|]; try destruct (regs rs) as [ls|];
        try discriminate; inv_some Hs; simpl; apply upd_other; assumption. }
    rewrite E; assumption.
Qed.

(* a good value reads the same after any step of any session *)
Lemma step_read_stable : forall st lab st' i v, Inv st -> step st lab = Some st' ->
  In v (s_out (g_sess st i)) -> read_val (g_heap st') v = read_val (g_heap st) v.
Proof.
  intros st [j c] st' i v HI Hs Hv. pose proof (inv_out _ HI i v Hv) as Hg.
  destruct v as [b|l off n]; simpl; auto.
  destruct Hg as [r0 [Hr0 Ht0]].
  assert (Hh : holds st i r0 l) by (split; [rewrite Ht0; reflexivity|assumption]).
  destruct (inv_live _ HI i r0 (proj1 Hh)) as [l' [Hr' [Hlt _]]]. rewrite Hr0 in Hr'. inversion Hr'; subst l'.
  rewrite (step_heap_frame st j c st' HI Hs l Hlt); auto.
  intros r Hhj. destruct (inv_inj _ HI i r0 j r l Hh Hhj) as [-> ->]. assumption.
Qed.

(* ---------- runs: any schedule, any choice of recycled buffers ---------- *)
Require Import LTS.

Definition grun_rel := LTS.run step.

Theorem run_Inv : forall st sched st', Inv st -> grun_rel st sched st' -> Inv st'.
Proof.
  intros st sched st' HI Hr.
  induction Hr as [|s l s1 tr s2 Hs Hr IH]; auto.
  apply IH. eapply step_Inv; eauto.
Qed.

Theorem reachable_Inv : forall progs sched st, (forall i, disciplined (progs i) = true) ->
  grun_rel (ginit progs) sched st -> Inv st.
Proof. intros progs sched st Hd Hr. eapply run_Inv; eauto. apply Inv_init; assumption. Qed.

Lemma run_out_mono : forall st sched st' i v, grun_rel st sched st' ->
  In v (s_out (g_sess st i)) -> In v (s_out (g_sess st' i)).
Proof.
  intros st sched st' i v Hr. induction Hr as [|s l s1 tr s2 Hs Hr IH]; auto.
  intros Hv. apply IH. eapply step_out_mono; eauto.
Qed.

(* C17 stable: a value that left a disciplined session reads the same after ANY later history *)
Theorem stable : forall st sched st' i v, Inv st -> grun_rel st sched st' ->
  In v (s_out (g_sess st i)) -> read_val (g_heap st') v = read_val (g_heap st) v.
Proof.
  intros st sched st' i v HI Hr. induction Hr as [|s l s1 tr s2 Hs Hr IH]; auto.
  intros Hv. rewrite IH.
  - eapply step_read_stable; eauto.
  - eapply step_Inv; eauto.
  - eapply step_out_mono; eauto.
Qed.

Lemma firstn_map_app : forall A B (f g : A -> B) (l : list A), (forall x, In x l -> f x = g x) -> map f l = map g l.
Proof. intros A B f g l H. apply map_ext_in; assumption. Qed.

(* results are appended, never rewritten *)
Lemma step_out_prefix : forall st lab st' i, step st lab = Some st' ->
  exists ext, s_out (g_sess st' i) = s_out (g_sess st i) ++ ext.
Proof.
  intros st [j c] st' i Hs. unfold step in Hs.
  destruct (Nat.eq_dec i j) as [->|Hne].
  - destruct (g_sess st j) as [code regs ts out] eqn:Es. simpl in *.
    destruct code as [|o rest]; [discriminate|]. unfold with_reg in Hs. simpl in Hs.
    destruct o; try destruct c as [l0|]; try destruct (mem_loc l0 (g_free st));
      try destruct (regs r) as [l'|]; try destruct (regs rd) as [ld|]; try destruct (regs rs) as [ls|];
      try discriminate; inv_some Hs; simpl; rewrite upd_same; simpl;
      try (exists []; rewrite app_nil_r; reflexivity); eexists; reflexivity.
  - exists []. rewrite app_nil_r.
    destruct (g_sess st j) as [code regs ts out] eqn:Es. simpl in *.
    destruct code as [|o rest]; [discriminate|]. unfold with_reg in Hs. simpl in Hs.
    destruct o; try destruct c as [l0|]; try destruct (mem_loc l0 (g_free st));
      try destruct (regs r) as [l'|]; try destruct (regs rd) as [ld|]; try destruct (regs rs) as [ls|];
      try discriminate; inv_some Hs; simpl; rewrite upd_other by assumption; reflexivity.
Qed.

Lemma run_out_prefix : forall st sched st' i, grun_rel st sched st' ->
  exists ext, s_out (g_sess st' i) = s_out (g_sess st i) ++ ext.
Proof.
  intros st sched st' i Hr. induction Hr as [|s l s1 tr s2 Hs Hr IH].
  - exists []. rewrite app_nil_r; reflexivity.
  - destruct IH as [e2 E2]. destruct (step_out_prefix _ _ _ i Hs) as [e1 E1].
    exists (e1 ++ e2). rewrite E2, E1, app_assoc. reflexivity.
Qed.

(* the transcript observed earlier is a prefix of every later transcript, byte for byte *)
Theorem transcript_stable : forall st sched st' i, Inv st -> grun_rel st sched st' ->
  exists ext, transcript st' i = transcript st i ++ ext.
Proof.
  intros st sched st' i HI Hr. destruct (run_out_prefix _ _ _ i Hr) as [ext E].
  exists (map (read_val (g_heap st')) ext). unfold transcript. rewrite E, map_app. f_equal.
  apply map_ext_in. intros v Hv. eapply stable; eauto.
Qed.

(* C17 result_owned: whatever left a session is an owned copy, or a view of a buffer that is
   neither in the pool nor reachable through any other live register of any session *)
Theorem result_owned : forall st i v, Inv st -> In v (s_out (g_sess st i)) ->
  match v with
  | Own _ => True
  | View l _ _ => ~ In l (g_free st) /\ l < g_next st /\
                  exists r, holds st i r l /\ s_ts (g_sess st i) r = THeld KFresh true true /\
                            forall j r', holds st j r' l -> j = i /\ r' = r
  end.
Proof.
  intros st i v HI Hv. pose proof (inv_out _ HI i v Hv) as Hg. destruct v as [b|l off n]; auto.
  destruct Hg as [r [Hr Ht]].
  assert (Hh : holds st i r l) by (split; [rewrite Ht; reflexivity|assumption]).
  destruct (inv_live _ HI i r (proj1 Hh)) as [l' [Hr' [Hlt Hf]]]. rewrite Hr in Hr'. inversion Hr'; subst l'.
  split; [assumption|]. split; [assumption|]. exists r. split; [assumption|]. split; [assumption|].
  intros j r' Hj. destruct (inv_inj _ HI i r j r' l Hh Hj); auto.
Qed.

(* C17 caller_intact: while a caller's slice is live in a session, its cell holds exactly the
   bytes the caller put there *)
Theorem caller_intact : forall st i r b l, Inv st ->
  s_ts (g_sess st i) r = TCaller b -> s_regs (g_sess st i) r = Some l -> g_heap st l = b.
Proof. intros st i r b l HI. apply (inv_caller _ HI). Qed.

(* and the typestate of a caller's slice is changed only by the caller's own scribble or by
   its going out of scope — no library step writes through it *)
Lemma tnext_caller : forall t o t' r b, tnext t o = Some t' -> t r = TCaller b ->
  t' r = TCaller b \/ (exists b', o = OScribble r b') \/ o = ODrop r.
Proof.
  intros t o t' r b Ht Hc. destruct o; simpl in Ht;
    repeat match type of Ht with
           | (if ?x then _ else _) = Some _ => destruct x eqn:?; try discriminate
           | match ?x with _ => _ end = Some _ => destruct x eqn:?; try discriminate
           end; inv_some Ht; auto;
    try (match goal with |- context [upd _ ?k _ r] => destruct (Nat.eq_dec r k) as [->|Hne] end;
         [try congruence|rewrite upd_other by assumption; auto]); eauto.
  all: try (rewrite Hc in *; simpl in *; discriminate).
  all: try (left; rewrite upd_same; assumption).
Qed.

(* ---------- ownership_inv, part 2: every access is to a buffer the session holds, hence no
   two sessions' next steps touch the same buffer (data-race freedom at buffer granularity) ---------- *)
Lemma access_held : forall st i l, Inv st -> In l (access st i) -> exists r, holds st i r l.
Proof.
  intros st i l HI Hin. unfold access in Hin. pose proof (inv_check _ HI i) as Hc.
  unfold holds. destruct (g_sess st i) as [code regs ts out] eqn:Es. simpl in *.
  destruct code as [|o rest]; [destruct Hin|]. simpl in Hc.
  destruct (tnext ts o) as [t'|] eqn:Ht; [|discriminate].
  assert (Hof : forall r, In l (match regs r with Some l0 => [l0] | None => [] end) -> live (ts r) = true ->
                exists r0, live (ts r0) = true /\ regs r0 = Some l).
  { intros r H Hl. destruct (regs r) as [l0|] eqn:Hr; [|destruct H]. destruct H as [->|[]]. eauto. }
  destruct o; simpl in Ht, Hin; try (destruct Hin; fail).
  - destruct (ts r) as [|k f e|bb|] eqn:Htr; try discriminate. apply (Hof r); auto. rewrite Htr; reflexivity.
  - destruct (readable (ts rs) && negb (rd =? rs)) eqn:Hrd; [|discriminate].
    apply andb_true_iff in Hrd. destruct Hrd as [Hrd _].
    destruct (ts rd) as [|k f e|bb|] eqn:Htr; try discriminate.
    apply in_app_or in Hin. destruct Hin as [Hin|Hin].
    + apply (Hof rd); auto. rewrite Htr; reflexivity.
    + apply (Hof rs); auto. destruct (ts rs) as [|? [] ?| |]; simpl in *; auto; discriminate.
  - destruct (ts r) as [|kd f e|bb|] eqn:Htr; try discriminate. apply (Hof r); auto. rewrite Htr; reflexivity.
  - destruct (ts r) as [|kd f e|bb|] eqn:Htr; try discriminate. apply (Hof r); auto. rewrite Htr; reflexivity.
  - destruct (readable (ts r)) eqn:Hrd; [|discriminate]. apply (Hof r); auto.
    destruct (ts r) as [|? [] ?| |]; simpl in *; auto; discriminate.
  - destruct (ts r) as [|kd f e|bb|] eqn:Htr; try discriminate. apply (Hof r); auto. rewrite Htr; reflexivity.
  - destruct (ts r) as [|kd f e|bb|] eqn:Htr; try discriminate. apply (Hof r); auto. rewrite Htr; reflexivity.
  - destruct (ts r) as [|kd f e|bb|] eqn:Htr; try discriminate; apply (Hof r); auto; rewrite Htr; reflexivity.
Qed.

Theorem no_conflict : forall st i j l, Inv st -> i <> j ->
  In l (access st i) -> In l (access st j) -> False.
Proof.
  intros st i j l HI Hne Hi Hj.
  destruct (access_held _ _ _ HI Hi) as [r Hh]. destruct (access_held _ _ _ HI Hj) as [r' Hh'].
  destruct (inv_inj _ HI i r j r' l Hh Hh'). contradiction.
Qed.

(* and no session ever touches a buffer that sits in the pool *)
Theorem no_access_to_pooled : forall st i l, Inv st -> In l (access st i) -> ~ In l (g_free st).
Proof.
  intros st i l HI Hi. destruct (access_held _ _ _ HI Hi) as [r [Hl Hr]].
  destruct (inv_live _ HI i r Hl) as [l' [Hr' [_ Hf]]]. rewrite Hr in Hr'. inversion Hr'; subst. assumption.
Qed.

(* ---------- noninterference: a session's transcript is that of the session run alone ---------- *)
Lemma upd_ext : forall A (f g : nat -> A) k v, (forall x, f x = g x) -> forall x, upd f k v x = upd g k v x.
Proof. intros A f g k v H x. unfold upd. destruct (x =? k); auto. Qed.

Ltac te := first [ left; split; reflexivity
                 | right; do 2 eexists; split; [reflexivity|split; [reflexivity|auto using upd_ext]] ].

Lemma tnext_ext : forall t1 t2 o, (forall x, t1 x = t2 x) ->
  (tnext t1 o = None /\ tnext t2 o = None) \/
  (exists a b, tnext t1 o = Some a /\ tnext t2 o = Some b /\ forall x, a x = b x).
Proof.
  intros t1 t2 o H.
  destruct o as [r|r|r b|r b|rd rs|r k|r b|r off n|r off n|b|r|r]; unfold tnext;
    try rewrite <- (H r); try rewrite <- (H rd); try rewrite <- (H rs);
    repeat match goal with
           | |- context [if ?c then _ else _] => destruct c
           | |- context [match ?c with _ => _ end] => destruct c
           end; te.
Qed.

Lemma ghost_ext : forall t1 t2 o, (forall x, t1 x = t2 x) -> forall x, ghost t1 o x = ghost t2 o x.
Proof.
  intros t1 t2 o H x. unfold ghost.
  destruct (tnext_ext t1 t2 o H) as [[E1 E2]|[a [b [E1 [E2 E]]]]]; rewrite E1, E2; auto.
Qed.

Definition proj_ok (st : gstate) (i : sid) (a : astate) : Prop :=
  s_code (g_sess st i) = a_code a /\
  (forall r, s_ts (g_sess st i) r = a_ts a r) /\
  (forall r l, readable (s_ts (g_sess st i) r) = true -> s_regs (g_sess st i) r = Some l ->
               g_heap st l = a_cont a r) /\
  transcript st i = a_out a.

Lemma step_sess_other : forall st j c st' i, step st (j, c) = Some st' -> i <> j -> g_sess st' i = g_sess st i.
Proof.
  intros st j c st' i Hs Hne. unfold step in Hs.
  destruct (g_sess st j) as [code regs ts out] eqn:Es. simpl in *.
  destruct code as [|o rest]; [discriminate|]. unfold with_reg in Hs. simpl in Hs.
  destruct o; try destruct c as [l0|]; try destruct (mem_loc l0 (g_free st));
    try destruct (regs r) as [l'|]; try destruct (regs rd) as [ld|]; try destruct (regs rs) as [ls|];
    try discriminate; inv_some Hs; simpl; apply upd_other; assumption.
Qed.

Lemma readable_live : forall t, readable t = true -> live t = true.
Proof. intros [|k [] e|b|]; simpl; auto. Qed.

Lemma transcript_step_old : forall st lab st' i, Inv st -> step st lab = Some st' ->
  map (read_val (g_heap st')) (s_out (g_sess st i)) = transcript st i.
Proof.
  intros st lab st' i HI Hs. unfold transcript. apply map_ext_in. intros v Hv.
  eapply step_read_stable; eauto.
Qed.

Lemma sim_other : forall st i a j c st', Inv st -> proj_ok st i a -> j <> i ->
  step st (j, c) = Some st' -> proj_ok st' i a.
Proof.
  intros st i a j c st' HI [Hcode [Hts [Hcont Htr]]] Hne Hs.
  assert (E : g_sess st' i = g_sess st i) by (eapply step_sess_other; eauto).
  unfold proj_ok. rewrite E. repeat split; auto.
  - intros r l Hrd Hr. rewrite <- (Hcont r l Hrd Hr).
    assert (Hh : holds st i r l) by (split; [apply readable_live; assumption|assumption]).
    destruct (inv_live _ HI i r (proj1 Hh)) as [l' [Hr' [Hlt _]]]. rewrite Hr in Hr'. inversion Hr'; subst l'.
    apply (step_heap_frame st j c st' HI Hs l Hlt).
    intros r' Hh'. destruct (inv_inj _ HI i r j r' l Hh Hh'). congruence.
  - rewrite <- Htr. unfold transcript at 1. rewrite E. eapply transcript_step_old; eauto.
Qed.

Lemma sim_self : forall st i a c st', Inv st -> proj_ok st i a ->
  step st (i, c) = Some st' -> exists a', astep a = Some a' /\ proj_ok st' i a'.
Proof.
  intros st i a c st' HI [Hcode [Hts [Hcont Htr]]] Hs.
  pose proof (transcript_step_old st (i, c) st' i HI Hs) as Hold.
  pose proof (inv_check _ HI i) as Hc.
  assert (Hinj : forall r r' l, live (s_ts (g_sess st i) r) = true -> live (s_ts (g_sess st i) r') = true ->
                 s_regs (g_sess st i) r = Some l -> s_regs (g_sess st i) r' = Some l -> r = r').
  { intros r r' l H1 H2 H3 H4. destruct (inv_inj _ HI i r i r' l); auto; split; auto. }
  assert (Hlt : forall r l, live (s_ts (g_sess st i) r) = true -> s_regs (g_sess st i) r = Some l -> l < g_next st).
  { intros r l H1 H2. destruct (inv_live _ HI i r H1) as [l' [E [H _]]]. congruence. }
  unfold step in Hs. unfold astep. rewrite <- Hcode.
  unfold transcript in Htr, Hold.
  destruct (g_sess st i) as [code regs ts out] eqn:Es. simpl in *.
  rewrite Htr in Hold.
  destruct code as [|o rest]; [discriminate|].
  simpl in Hc. destruct (tnext ts o) as [t'|] eqn:Ht; [|discriminate].
  assert (Hg : forall x, ghost ts o x = ghost (a_ts a) o x) by (apply ghost_ext; assumption).
  assert (Hgt : forall x, ghost ts o x = t' x) by (intros x; unfold ghost; rewrite Ht; reflexivity).
  unfold with_reg in Hs. simpl in Hs.
  (* the generic part of the new projection *)
  assert (Hfin : forall regs' out' heap' free' next' cont' aout',
            st' = mkG heap' free' next' (upd (g_sess st) i (mkS rest regs' (ghost ts o) out')) ->
            (forall r l, readable (t' r) = true -> regs' r = Some l -> heap' l = cont' r) ->
            map (read_val heap') out' = aout' ->
            proj_ok st' i (mkA rest (ghost (a_ts a) o) cont' aout')).
  { intros regs' out' heap' free' next' cont' aout' E H3 H4. subst st'. unfold proj_ok, transcript. simpl.
    rewrite upd_same. simpl. repeat split; auto.
    intros r l Hrd Hr. rewrite Hgt in Hrd. auto. }
  destruct o; simpl in Ht.
  - (* OGet *)
    destruct (tfree (ts r)) eqn:Hf; [|discriminate]. inv_some Ht.
    assert (Hrest : forall lnew heap' free' next', heap' = g_heap st ->
              st' = mkG heap' free' next' (upd (g_sess st) i (mkS rest (upd regs r (Some lnew)) (ghost ts (OGet r)) out)) ->
              exists a', Some (mkA rest (ghost (a_ts a) (OGet r)) (a_cont a) (a_out a)) = Some a' /\ proj_ok st' i a').
    { intros lnew heap' free' next' Eh E. eexists; split; [reflexivity|]. eapply Hfin; eauto.
      - intros r0 l Hrd Hr0. destruct (Nat.eq_dec r0 r) as [->|Hne].
        + rewrite upd_same in Hrd. discriminate.
        + rewrite upd_other in Hrd, Hr0 by assumption. subst heap'. apply Hcont; auto.
      - subst heap'. exact Htr. }
    destruct c as [l|].
    + destruct (mem_loc l (g_free st)); [|discriminate]. inv_some Hs. eapply Hrest; reflexivity.
    + inv_some Hs. eapply Hrest; reflexivity.
  - (* OAlloc *)
    destruct (tfree (ts r)) eqn:Hf; [|discriminate]. inv_some Ht. inv_some Hs.
    eexists; split; [reflexivity|]. eapply Hfin; [reflexivity| |exact Htr].
    intros r0 l Hrd Hr0. destruct (Nat.eq_dec r0 r) as [->|Hne].
    + rewrite upd_same in Hrd. discriminate.
    + rewrite upd_other in Hrd, Hr0 by assumption. apply Hcont; auto.
  - (* OArg *)
    destruct (tfree (ts r)) eqn:Hf; [|discriminate]. inv_some Ht. inv_some Hs.
    eexists; split; [reflexivity|]. eapply Hfin; [reflexivity| |].
    + intros r0 l Hrd Hr0. destruct (Nat.eq_dec r0 r) as [->|Hne].
      * rewrite upd_same in Hr0. inversion Hr0; subst l. rewrite !upd_same. reflexivity.
      * rewrite upd_other in Hrd, Hr0 by assumption. rewrite (upd_other _ (a_cont a)) by assumption.
        rewrite upd_other; [apply Hcont; auto|].
        assert (l < g_next st) by (eapply Hlt; eauto using readable_live). lia.
    + exact Hold.
  - (* OFill *)
    destruct (ts r) as [|k f e|bb|] eqn:Htr0; try discriminate. destruct e; [discriminate|]. inv_some Ht.
    destruct (regs r) as [l|] eqn:Hr; [|discriminate]. inv_some Hs.
    eexists; split; [reflexivity|]. eapply Hfin; [reflexivity| |exact Hold].
    intros r0 l0 Hrd Hr0. destruct (Nat.eq_dec r0 r) as [->|Hne].
    + rewrite Hr in Hr0. inversion Hr0; subst l0. rewrite !upd_same. reflexivity.
    + rewrite upd_other in Hrd by assumption. rewrite (upd_other _ (a_cont a)) by assumption.
      rewrite upd_other; [apply Hcont; auto|].
      intros E; subst l0. apply Hne. apply (Hinj r0 r l); auto using readable_live. rewrite Htr0; reflexivity.
  - (* OCopy *)
    destruct (readable (ts rs) && negb (rd =? rs)) eqn:Hrd0; [|discriminate].
    apply andb_true_iff in Hrd0. destruct Hrd0 as [Hrs _].
    destruct (ts rd) as [|k f e|bb|] eqn:Htr0; try discriminate. destruct e; [discriminate|]. inv_some Ht.
    destruct (regs rd) as [ld|] eqn:Hr; [|discriminate].
    destruct (regs rs) as [ls|] eqn:Hr2; [|discriminate]. inv_some Hs.
    eexists; split; [reflexivity|]. eapply Hfin; [reflexivity| |exact Hold].
    intros r0 l0 Hrd Hr0. destruct (Nat.eq_dec r0 rd) as [->|Hne].
    + rewrite Hr in Hr0. inversion Hr0; subst l0. rewrite !upd_same. apply Hcont; auto.
    + rewrite upd_other in Hrd by assumption. rewrite (upd_other _ (a_cont a)) by assumption.
      rewrite upd_other; [apply Hcont; auto|].
      intros E; subst l0. apply Hne. apply (Hinj r0 rd ld); auto using readable_live. rewrite Htr0; reflexivity.
  - (* OMask *)
    destruct (ts r) as [|kd f e|bb|] eqn:Htr0; try discriminate.
    destruct f; [|discriminate]. destruct e; [discriminate|]. inv_some Ht.
    destruct (regs r) as [l|] eqn:Hr; [|discriminate]. inv_some Hs.
    eexists; split; [reflexivity|]. eapply Hfin; [reflexivity| |exact Hold].
    intros r0 l0 Hrd Hr0. destruct (Nat.eq_dec r0 r) as [->|Hne].
    + rewrite Hr in Hr0. inversion Hr0; subst l0. rewrite !upd_same. f_equal. apply Hcont; auto.
      rewrite Htr0; reflexivity.
    + rewrite upd_other in Hrd by assumption. rewrite (upd_other _ (a_cont a)) by assumption.
      rewrite upd_other; [apply Hcont; auto|].
      intros E; subst l0. apply Hne. apply (Hinj r0 r l); auto using readable_live. rewrite Htr0; reflexivity.
  - (* OScribble *)
    destruct (ts r) as [|kd f e|bb|] eqn:Htr0; try discriminate. inv_some Ht.
    destruct (regs r) as [l|] eqn:Hr; [|discriminate]. inv_some Hs.
    eexists; split; [reflexivity|]. eapply Hfin; [reflexivity| |exact Hold].
    intros r0 l0 Hrd Hr0. destruct (Nat.eq_dec r0 r) as [->|Hne].
    + rewrite Hr in Hr0. inversion Hr0; subst l0. rewrite !upd_same. reflexivity.
    + rewrite upd_other in Hrd by assumption. rewrite (upd_other _ (a_cont a)) by assumption.
      rewrite upd_other; [apply Hcont; auto|].
      intros E; subst l0. apply Hne. apply (Hinj r0 r l); auto using readable_live. rewrite Htr0; reflexivity.
  - (* OOutCopy *)
    destruct (readable (ts r)) eqn:Hrd0; [|discriminate]. inv_some Ht.
    destruct (regs r) as [l|] eqn:Hr; [|discriminate]. inv_some Hs.
    eexists; split; [reflexivity|]. eapply Hfin; [reflexivity| |].
    + intros r0 l0 Hrd Hr0. apply Hcont; auto.
      destruct (Nat.eq_dec r0 r) as [->|Hne]; [rewrite upd_same in Hrd|rewrite upd_other in Hrd]; auto.
    + rewrite map_app. simpl. rewrite Htr. do 2 f_equal. f_equal. apply Hcont; auto.
  - (* OOutView *)
    destruct (ts r) as [|kd f e|bb|] eqn:Htr0; try discriminate.
    destruct kd; [discriminate|]. destruct f; [|discriminate]. inv_some Ht.
    destruct (regs r) as [l|] eqn:Hr; [|discriminate]. inv_some Hs.
    eexists; split; [reflexivity|]. eapply Hfin; [reflexivity| |].
    + intros r0 l0 Hrd Hr0. apply Hcont; auto.
      destruct (Nat.eq_dec r0 r) as [->|Hne]; [rewrite Htr0; reflexivity|rewrite upd_other in Hrd; auto].
    + rewrite map_app. simpl. rewrite Htr. do 2 f_equal. f_equal. apply Hcont; auto. rewrite Htr0; reflexivity.
  - (* OOutLit *)
    inv_some Ht. inv_some Hs.
    eexists; split; [reflexivity|]. eapply Hfin; [reflexivity| |].
    + intros r0 l0 Hrd Hr0. apply Hcont; auto.
    + rewrite map_app. simpl. rewrite Htr. reflexivity.
  - (* OPut *)
    destruct (ts r) as [|kd f e|bb|] eqn:Htr0; try discriminate.
    destruct kd; [|discriminate]. destruct e; [discriminate|]. inv_some Ht.
    destruct (regs r) as [l|] eqn:Hr; [|discriminate]. inv_some Hs.
    eexists; split; [reflexivity|]. eapply Hfin; [reflexivity| |exact Htr].
    intros r0 l0 Hrd Hr0. apply Hcont; auto.
    destruct (Nat.eq_dec r0 r) as [->|Hne]; [rewrite upd_same in Hrd; discriminate|rewrite upd_other in Hrd; auto].
  - (* ODrop *)
    destruct (regs r) as [l|] eqn:Hr; [|destruct (ts r) as [|? ? []| |]; discriminate].
    destruct (ts r) as [|kd f e|bb|] eqn:Htr0; try discriminate.
    + destruct e; inv_some Ht; inv_some Hs.
      * eexists; split; [reflexivity|]. eapply Hfin; [reflexivity| |exact Htr].
        intros r0 l0 Hrd Hr0. apply Hcont; auto.
        destruct (Nat.eq_dec r0 r) as [->|Hne]; [rewrite upd_same in Hrd; rewrite Htr0; auto|rewrite upd_other in Hrd; auto].
      * eexists; split; [reflexivity|]. eapply Hfin; [reflexivity| |exact Htr].
        intros r0 l0 Hrd Hr0. apply Hcont; auto.
        destruct (Nat.eq_dec r0 r) as [->|Hne]; [rewrite upd_same in Hrd; discriminate|rewrite upd_other in Hrd; auto].
    + inv_some Ht; inv_some Hs.
      eexists; split; [reflexivity|]. eapply Hfin; [reflexivity| |exact Htr].
      intros r0 l0 Hrd Hr0. apply Hcont; auto.
      destruct (Nat.eq_dec r0 r) as [->|Hne]; [rewrite upd_same in Hrd; discriminate|rewrite upd_other in Hrd; auto].
Qed.


Fixpoint steps_of (i : sid) (sched : list label) : nat :=
  match sched with
  | [] => 0
  | (j, _) :: rest => (if Nat.eqb j i then 1 else 0) + steps_of i rest
  end.

(* C19 noninterference: whatever the other sessions do, whatever buffers the pool hands out,
   session i's projection is the abstract (alone, heap-free) run of its own program *)
Theorem noninterference : forall st sched st' i a, Inv st -> proj_ok st i a -> grun_rel st sched st' ->
  exists a', arun (steps_of i sched) a = Some a' /\ proj_ok st' i a'.
Proof.
  intros st sched st' i a HI Hp Hr. revert a HI Hp.
  induction Hr as [|s [j c] s1 tr s2 Hs Hr IH]; intros a HI Hp.
  - exists a. split; [reflexivity|assumption].
  - simpl. destruct (Nat.eqb_spec j i) as [->|Hne].
    + destruct (sim_self _ _ _ _ _ HI Hp Hs) as [a1 [Ha1 Hp1]].
      destruct (IH a1 (step_Inv _ _ _ HI Hs) Hp1) as [a' [Ha' Hp']].
      exists a'. simpl. rewrite Ha1. auto.
    + simpl. apply IH; [eapply step_Inv; eauto|]. eapply sim_other; eauto.
Qed.

Lemma proj_init : forall progs i, proj_ok (ginit progs) i (ainit (progs i)).
Proof.
  intros progs i. unfold proj_ok, ginit, ainit, transcript; simpl. repeat split; auto;
    try (intros; discriminate).
Qed.

Lemma arun_code_length : forall n a a', arun n a = Some a' -> length (a_code a) = n + length (a_code a').
Proof.
  induction n as [|n IH]; intros a a' H; simpl in H.
  - inversion H; subst; reflexivity.
  - destruct (astep a) as [a1|] eqn:Ha; [|discriminate]. apply IH in H.
    unfold astep in Ha. destruct (a_code a) as [|o rest] eqn:Hc; [discriminate|].
    destruct o; inversion Ha; subst a1; simpl in *; lia.
Qed.

(* from the initial state: the transcript of session i under ANY interleaving with ANY other
   disciplined sessions is the transcript of its abstract solo run of as many steps *)
Theorem transcript_is_solo : forall progs sched st i, (forall j, disciplined (progs j) = true) ->
  grun_rel (ginit progs) sched st ->
  exists a, arun (steps_of i sched) (ainit (progs i)) = Some a /\
            transcript st i = a_out a /\ s_code (g_sess st i) = a_code a.
Proof.
  intros progs sched st i Hd Hr.
  destruct (noninterference _ _ _ i _ (Inv_init progs Hd) (proj_init progs i) Hr) as [a [Ha [Hc [_ [_ Ht]]]]].
  exists a. auto.
Qed.

(* in particular a session that has finished observed exactly what it observes running alone *)
Theorem finished_session_is_solo : forall progs sched st i, (forall j, disciplined (progs j) = true) ->
  grun_rel (ginit progs) sched st -> s_code (g_sess st i) = [] ->
  solo_transcript (progs i) = Some (transcript st i).
Proof.
  intros progs sched st i Hd Hr Hfin.
  destruct (transcript_is_solo progs sched st i Hd Hr) as [a [Ha [Ht Hc]]].
  pose proof (arun_code_length _ _ _ Ha) as Hl. simpl in Hl. rewrite <- Hc, Hfin in Hl. simpl in Hl.
  unfold solo_transcript. replace (length (progs i)) with (steps_of i sched) by lia.
  rewrite Ha, Ht. reflexivity.
Qed.

(* two worlds: same program for session i and as many of its steps; everything else different *)
Corollary two_worlds : forall progs1 progs2 sched1 sched2 st1 st2 i,
  (forall j, disciplined (progs1 j) = true) -> (forall j, disciplined (progs2 j) = true) ->
  progs1 i = progs2 i -> steps_of i sched1 = steps_of i sched2 ->
  grun_rel (ginit progs1) sched1 st1 -> grun_rel (ginit progs2) sched2 st2 ->
  transcript st1 i = transcript st2 i.
Proof.
  intros progs1 progs2 sched1 sched2 st1 st2 i H1 H2 Ep Es R1 R2.
  destruct (transcript_is_solo _ _ _ i H1 R1) as [a1 [A1 [T1 _]]].
  destruct (transcript_is_solo _ _ _ i H2 R2) as [a2 [A2 [T2 _]]].
  rewrite Ep, Es in A1. rewrite A1 in A2. inversion A2; subst. congruence.
Qed.

(* ---------- the discipline is respected by the transcribed library paths ---------- *)
Lemma check_ext : forall code t1 t2, (forall x, t1 x = t2 x) -> check t1 code = check t2 code.
Proof.
  induction code as [|o rest IH]; intros t1 t2 H; simpl; auto.
  destruct (tnext_ext t1 t2 o H) as [[E1 E2]|[a [b [E1 [E2 E]]]]]; rewrite E1, E2; auto.
Qed.

Lemma check_items : forall items r t rest, readable (t r) = true ->
  check t (map (item_op r) items ++ rest) = check t rest.
Proof.
  induction items as [|it its IH]; intros r t rest Hrd; simpl; auto.
  destruct it as [off n|b]; simpl.
  - rewrite Hrd. rewrite (check_ext _ (upd t r (t r)) t (upd_id _ t r)). apply IH; assumption.
  - apply IH; assumption.
Qed.

Theorem paths_disciplined :
  (forall req items resp, disciplined (path_upgrade req items resp) = true) /\
  (forall hdr items, disciplined (path_httpupgrade hdr items) = true) /\
  (forall req resp items, disciplined (path_dial req resp items) = true) /\
  (forall payload, disciplined (path_handle_close payload) = true) /\
  (forall payload, disciplined (path_read_message payload) = true) /\
  (forall p hdr key, disciplined (path_write_client p hdr key) = true) /\
  (forall p hdr, disciplined (path_write_server p hdr) = true) /\
  (forall p key, disciplined (path_cipher_writer p key) = true) /\
  (forall p key, disciplined (path_mask_frame p key) = true) /\
  (forall p junk hdr key client, disciplined (path_writer_write_flush p junk hdr key client) = true).
Proof.
  repeat split; intros; try reflexivity.
  - unfold disciplined, path_upgrade. simpl. rewrite check_items; reflexivity.
  - unfold disciplined, path_httpupgrade. simpl. rewrite check_items; reflexivity.
  - unfold disciplined, path_dial. simpl. rewrite check_items; reflexivity.
  - destruct client; reflexivity.
Qed.

(* the aliasing mistake is expressible and is caught: the documented-unsafe variant is rejected
   by the checker, and the machine shows the result changing under recycling *)
Lemma unsafe_path_rejected : forall payload, disciplined (path_close_unsafe payload) = false.
Proof. reflexivity. Qed.

(* write paths: what reaches the destination and what the caller's slice holds, computed on the
   abstract machine (valid in every interleaving by noninterference / caller_intact) *)
Lemma write_client_solo : forall p hdr key,
  solo_transcript (path_write_client p hdr key) = Some [hdr; sub (xor_key key p) 0 (length p)].
Proof. reflexivity. Qed.
Lemma writer_write_flush_solo : forall p junk hdr key,
  solo_transcript (path_writer_write_flush p junk hdr key false) = Some [hdr; sub p 0 (length p)] /\
  solo_transcript (path_writer_write_flush p junk hdr key true) = Some [hdr; sub (xor_key key p) 0 (length p)].
Proof. split; reflexivity. Qed.

(* ---------- the same, stated from the initial state (for props/) ---------- *)
Lemma reach_result_owned : forall progs sched st i v,
  (forall j, disciplined (progs j) = true) -> LTS.run step (ginit progs) sched st ->
  In v (s_out (g_sess st i)) ->
  match v with
  | Own _ => True
  | View l _ _ => ~ In l (g_free st) /\ l < g_next st /\
                  exists r, holds st i r l /\ s_ts (g_sess st i) r = THeld KFresh true true /\
                            forall j r', holds st j r' l -> j = i /\ r' = r
  end.
Proof. intros progs sched st i v Hd Hr. apply result_owned. eapply reachable_Inv; eauto. Qed.

Lemma reach_stable : forall progs sched st later st' i v,
  (forall j, disciplined (progs j) = true) -> LTS.run step (ginit progs) sched st ->
  LTS.run step st later st' -> In v (s_out (g_sess st i)) ->
  read_val (g_heap st') v = read_val (g_heap st) v.
Proof.
  intros progs sched st later st' i v Hd Hr Hl. apply stable with (sched := later); auto.
  eapply reachable_Inv; eauto.
Qed.

Lemma reach_transcript_stable : forall progs sched st later st' i,
  (forall j, disciplined (progs j) = true) -> LTS.run step (ginit progs) sched st ->
  LTS.run step st later st' -> exists ext, transcript st' i = transcript st i ++ ext.
Proof.
  intros progs sched st later st' i Hd Hr Hl. apply transcript_stable with (sched := later); auto.
  eapply reachable_Inv; eauto.
Qed.

Lemma reach_caller_intact : forall progs sched st i r b l,
  (forall j, disciplined (progs j) = true) -> LTS.run step (ginit progs) sched st ->
  s_ts (g_sess st i) r = TCaller b -> s_regs (g_sess st i) r = Some l -> g_heap st l = b.
Proof. intros progs sched st i r b l Hd Hr. apply caller_intact. eapply reachable_Inv; eauto. Qed.

Lemma destination_bytes : forall p junk hdr key,
  solo_transcript (path_write_client p hdr key) = Some [hdr; sub (xor_key key p) 0 (length p)] /\
  solo_transcript (path_writer_write_flush p junk hdr key false) = Some [hdr; sub p 0 (length p)] /\
  solo_transcript (path_writer_write_flush p junk hdr key true) = Some [hdr; sub (xor_key key p) 0 (length p)].
Proof. intros p junk hdr key. exact (conj (write_client_solo p hdr key) (writer_write_flush_solo p junk hdr key)). Qed.

Lemma reach_ownership_inv : forall progs sched st,
  (forall j, disciplined (progs j) = true) -> LTS.run step (ginit progs) sched st ->
  NoDup (g_free st) /\
  (forall l, In l (g_free st) -> l < g_next st) /\
  (forall i r, live (s_ts (g_sess st i) r) = true ->
     exists l, s_regs (g_sess st i) r = Some l /\ l < g_next st /\ ~ In l (g_free st)) /\
  (forall i r j r' l, holds st i r l -> holds st j r' l -> i = j /\ r = r').
Proof.
  intros progs sched st Hd Hr. pose proof (reachable_Inv _ _ _ Hd Hr) as HI.
  split; [apply (inv_nodup _ HI)|]. split; [apply (inv_free_lt _ HI)|].
  split; [apply (inv_live _ HI)|apply (inv_inj _ HI)].
Qed.

Lemma reach_no_conflict : forall progs sched st i j l,
  (forall k, disciplined (progs k) = true) -> LTS.run step (ginit progs) sched st ->
  i <> j -> In l (access st i) -> In l (access st j) -> False.
Proof. intros progs sched st i j l Hd Hr. apply no_conflict. eapply reachable_Inv; eauto. Qed.

Lemma reach_no_access_to_pooled : forall progs sched st i l,
  (forall k, disciplined (progs k) = true) -> LTS.run step (ginit progs) sched st ->
  In l (access st i) -> ~ In l (g_free st).
Proof. intros progs sched st i l Hd Hr. apply no_access_to_pooled. eapply reachable_Inv; eauto. Qed.

(* interference IS expressible: a session that reads a buffer after Put (rejected by the
   discipline) observes another session's bytes *)
Definition uaf_prog : list op := [OGet 0; OFill 0 [1%N]; OPut 0; OOutCopy 0 0 1].
Definition other_prog : list op := [OGet 0; OFill 0 [9%N]].
Definition uaf_progs (i : sid) : list op := match i with 0 => uaf_prog | 1 => other_prog | _ => [] end.
Definition uaf_sched : list label := [(0, None); (0, None); (0, None); (1, Some 0); (1, None); (0, None)].

Lemma use_after_put_interferes :
  disciplined uaf_prog = false /\
  solo_transcript uaf_prog = Some [[1%N]] /\
  exists st, grun (ginit uaf_progs) uaf_sched = Some st /\ transcript st 0 = [[9%N]].
Proof. split; [reflexivity|]. split; [reflexivity|]. eexists. split; vm_compute; reflexivity. Qed.

Lemma grun_run : forall sched st st', grun st sched = Some st' -> LTS.run step st sched st'.
Proof.
  induction sched as [|l tr IH]; intros st st' H; simpl in H.
  - inversion H; subst; constructor.
  - destruct (step st l) as [s1|] eqn:Hs; [|discriminate]. econstructor; eauto.
Qed.
