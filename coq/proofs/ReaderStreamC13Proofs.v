(* ReaderStreamC13Proofs.v — C13, receive half, at stream level, spelled out: one
   data message, fragmented arbitrarily with control frames in between, read by a
   Reader with the wsflate.MessageState attached.  The message's compressed flag is
   the RSV1 bit of its FIRST frame, control frames between the fragments do not
   disturb it; RSV1 on any later frame of the message ends the loop with the
   compression-bit error before a byte of that frame is handed out.
   From reader_meets_spec (ReaderProofs.v) and the frame-sequence spec evaluated on
   the message's shape.  (The definitions are in model/ReaderStreamC13.v.) *)
Require Import Bytes Stream Utf8Spec Check Frame Cipher Utf8Dfa Extracted ExtractedOk Reader ReaderStream ReaderStreamC13
  BytesProofs StreamProofs CheckProofs FrameProofs CipherProofs Utf8Proofs ReaderLocalProofs
  ReaderAux ReaderInv ReaderProofs ReaderMoreProofs ReaderStreamC05 ReaderStreamC07.
From Coq Require Import ZifyBool ZifyN ZifyNat.
Open Scope N_scope.

(* ------------------------------------------------------------------ header rules with reserved bits *)
(* [frame_ok_intro] of ReaderStreamC07.v for a frame that may carry reserved bits
   when extensions were negotiated *)
Lemma frame_ok_intro_x c frag f :
  spec_reserved (sf_op f) = false -> (sf_rsv f = 0 \/ st_extended (c_state c) = true) ->
  mask_ok (c_state c) f = true ->
  (spec_control (sf_op f) = true -> sf_fin f = true /\ len (sf_payload f) <= 125) ->
  (spec_control (sf_op f) = false -> (sf_op f =? 0) = frag) ->
  frame_ok c frag f = true.
Proof.
  intros Hres Hrsv Hmask Hctl Hdat. unfold frame_ok, broken, all_rules.
  destruct (st_bits_set (c_state c) frag) as (B0 & B1 & B2).
  unfold mask_ok in Hmask. apply andb_true_iff in Hmask. destruct Hmask as [Hm1 Hm2].
  assert (R1: rule_broken ReservedOp (sf_header f) (set_fragmented (c_state c) frag) = false) by exact Hres.
  assert (R2: rule_broken ControlTooLong (sf_header f) (set_fragmented (c_state c) frag) = false).
  { cbn [rule_broken sf_header h_op h_len]. destruct (spec_control (sf_op f)); [|reflexivity].
    destruct (Hctl eq_refl) as [_ H]. cbn [andb]. clear -H. lia. }
  assert (R3: rule_broken ControlNotFinal (sf_header f) (set_fragmented (c_state c) frag) = false).
  { cbn [rule_broken sf_header h_op h_fin]. destruct (spec_control (sf_op f)); [|reflexivity].
    destruct (Hctl eq_refl) as [-> _]. reflexivity. }
  assert (R4: rule_broken RsvWithoutExt (sf_header f) (set_fragmented (c_state c) frag) = false).
  { cbn [rule_broken sf_header h_rsv]. rewrite B2. destruct Hrsv as [-> | ->]; [reflexivity|apply andb_false_r]. }
  assert (R5: rule_broken MaskRequired (sf_header f) (set_fragmented (c_state c) frag) = false).
  { cbn [rule_broken sf_header h_masked]. rewrite B0. destruct (st_server (c_state c)); [|reflexivity].
    cbn [negb orb andb] in *. rewrite Hm1. reflexivity. }
  assert (R6: rule_broken MaskUnexpected (sf_header f) (set_fragmented (c_state c) frag) = false).
  { cbn [rule_broken sf_header h_masked]. rewrite B1. destruct (st_client (c_state c)); [|reflexivity].
    cbn [negb orb andb] in *. destruct (sf_key f); [discriminate|reflexivity]. }
  assert (R7: rule_broken ContinuationExpected (sf_header f) (set_fragmented (c_state c) frag) = false).
  { cbn [rule_broken sf_header h_op]. rewrite st_frag_set. destruct (spec_control (sf_op f)).
    - cbn [negb]. rewrite andb_false_r. reflexivity.
    - rewrite (Hdat eq_refl). destruct frag; reflexivity. }
  assert (R8: rule_broken ContinuationUnexpected (sf_header f) (set_fragmented (c_state c) frag) = false).
  { cbn [rule_broken sf_header h_op]. rewrite st_frag_set. destruct (spec_control (sf_op f)) eqn:E.
    - destruct frag; [reflexivity|]. cbn [negb andb]. unfold spec_control in E. clear -E. lia.
    - rewrite (Hdat eq_refl). destruct frag; reflexivity. }
  cbn [filter]. rewrite R1, R2, R3, R4, R5, R6, R7, R8. reflexivity.
Qed.

(* ------------------------------------------------------------------ lists *)
Lemma inter_events_app b x y : inter_events b (x ++ y) = inter_events b x ++ inter_events b y.
Proof. unfold inter_events. rewrite filter_app, map_app. reflexivity. Qed.

Lemma inter_events_cons b f fs : inter_events b (f :: fs) =
  (if spec_control (sf_op f) then [mkEv (sf_op f) (sf_payload f) true b] else []) ++ inter_events b fs.
Proof. unfold inter_events. cbn [filter]. destruct (spec_control (sf_op f)); reflexivity. Qed.

Lemma inter_events_all_ctl b fs : all_ctl (inter_events b fs).
Proof.
  unfold all_ctl, inter_events. apply Forall_forall. intros e He. apply in_map_iff in He.
  destruct He as (f & <- & Hin). apply filter_In in Hin. apply Hin.
Qed.

Lemma inter_events_inter b fs :
  Forall (fun x => spec_control (ev_op x) = false \/ ev_inter x = true) (inter_events b fs).
Proof.
  unfold inter_events. apply Forall_forall. intros e He. apply in_map_iff in He.
  destruct He as (f & <- & _). right. reflexivity.
Qed.

Lemma set_rsv_at_split r : forall fs i, (i < length fs)%nat ->
  exists f0, nth_error fs i = Some f0 /\ set_rsv_at i r fs = firstn i fs ++ set_rsv r f0 :: skipn (S i) fs.
Proof.
  induction fs as [|f fs IH]; intros i Hi; cbn [length] in Hi; [lia|].
  destruct i as [|i].
  - exists f. split; reflexivity.
  - destruct (IH i ltac:(lia)) as (f0 & Hn & He). exists f0. split; [exact Hn|].
    cbn [set_rsv_at firstn skipn app]. rewrite He. reflexivity.
Qed.

Lemma set_rsv_at_length r : forall fs i, length (set_rsv_at i r fs) = length fs.
Proof.
  induction fs as [|f fs IH]; intros i; [reflexivity|]. destruct i; cbn [set_rsv_at length]; [reflexivity|].
  rewrite IH. reflexivity.
Qed.

Lemma set_rsv_wf r f : r < 8 -> wf_sframe f -> wf_sframe (set_rsv r f).
Proof. intros Hr (_ & H2 & H3 & H4 & H5). unfold wf_sframe, set_rsv. cbn [sf_rsv sf_op sf_payload sf_key]. tauto. Qed.

Lemma set_rsv_at_wf r : r < 8 -> forall fs i, Forall wf_sframe fs -> Forall wf_sframe (set_rsv_at i r fs).
Proof.
  intros Hr. induction fs as [|f fs IH]; intros i H; [constructor|].
  pose proof (Forall_inv H) as Hf. pose proof (Forall_inv_tail H) as Hfs.
  destruct i; cbn [set_rsv_at]; constructor; try assumption; [apply set_rsv_wf; assumption|apply IH, Hfs].
Qed.

(* ------------------------------------------------------------------ the spec inside a message, extension attached *)
Lemma spec_data_eq c k o acc b evs f rest : spec_data c k (o, acc, b) evs f rest =
  if wrap_of c o && negb (if sf_fin f then valid_utf8 (acc ++ sf_payload f) else utf8_viable (acc ++ sf_payload f))
  then mkSR evs [] OInvalidUtf8
  else if sf_fin f then spec_run c (S k) None (evs ++ [mkEv o (acc ++ sf_payload f) false b]) rest
  else spec_run c (S k) (Some (o, acc ++ sf_payload f, b)) evs rest.
Proof. reflexivity. Qed.

Section C13Spec.
Variable c : rcfg.
Hypothesis Hext : c_ext c = true.

Definition fits (f : sframe) : Prop := mask_ok (c_state c) f = true /\ too_large c f = false.
(* a control frame inside the message, a continuation frame *)
Definition ctl_in (f : sframe) : Prop := ctl_ok f = true /\ fits f.
Definition cont_in (f : sframe) : Prop := sf_op f = 0 /\ sf_rsv f = 0 /\ fits f /\ wf_bytes (sf_payload f).
Definition body_ok (f : sframe) : Prop := ctl_in f \/ (cont_in f /\ sf_fin f = false).
Definition later_ok (f : sframe) : Prop := ctl_in f \/ cont_in f.

Lemma body_later f : body_ok f -> later_ok f.
Proof. intros [H|[H _]]; [left|right]; exact H. Qed.

Lemma rsv1_zero f : sf_rsv f = 0 -> rsv1 f = false.
Proof. intros H. unfold rsv1. rewrite H. reflexivity. Qed.

Lemma spec_ctl_in m f k evs rest : ctl_in f ->
  spec_run c k (Some m) evs (f :: rest) =
  spec_run c (S k) (Some m) (evs ++ [mkEv (sf_op f) (sf_payload f) true (m_comp m)]) rest.
Proof.
  intros (Hf & Hmk & Hsz). destruct (ctl_ok_facts f Hf) as (Hctl & Hres & Hfin & Hrsv & Hlen).
  rewrite spec_run_cons. cbn [is_some].
  rewrite (frame_ok_intro c true f Hres Hrsv Hmk) by (intros; try split; congruence).
  unfold too_large in Hsz. rewrite Hsz, (rsv1_zero f Hrsv), andb_false_r, Hctl. cbn [negb andb].
  destruct m as [[o p] cm]. reflexivity.
Qed.

Lemma spec_cont_in o acc b f k evs rest : cont_in f ->
  spec_run c k (Some (o, acc, b)) evs (f :: rest) = spec_data c k (o, acc, b) evs f rest.
Proof.
  intros (Hop & Hrsv & (Hmk & Hsz) & _).
  rewrite spec_run_cons. cbn [is_some].
  rewrite (frame_ok_intro c true f) by
    (rewrite ?Hop; try assumption; try reflexivity; intros; try split; try reflexivity; discriminate).
  unfold too_large in Hsz. rewrite Hsz, (rsv1_zero f Hrsv), andb_false_r, Hop. cbn [negb andb].
  reflexivity.
Qed.

Lemma body_data_wf body : Forall later_ok body -> wf_bytes (data_bytes_of_frames body).
Proof.
  induction 1 as [|f body Hf _ IH]; [constructor|]. rewrite data_bytes_fr_cons.
  apply wf_bytes_app. split; [|exact IH]. destruct Hf as [(Hf & _)|(Hop & _ & _ & Hw)].
  - destruct (ctl_ok_facts f Hf) as (-> & _). constructor.
  - rewrite Hop. exact Hw.
Qed.

(* control frames and non-final continuations: the message stays open, its flag untouched *)
Lemma spec_body o b : forall body k acc evs rest, Forall body_ok body -> wf_bytes acc ->
  (wrap_of c o = true -> exists tail, wf_bytes tail /\ valid_utf8 (acc ++ data_bytes_of_frames body ++ tail) = true) ->
  spec_run c k (Some (o, acc, b)) evs (body ++ rest) =
  spec_run c (k + length body) (Some (o, acc ++ data_bytes_of_frames body, b)) (evs ++ inter_events b body) rest.
Proof.
  induction body as [|f body IH]; intros k acc evs rest Hok Hacc Hu8.
  - cbn [app length]. rewrite Nat.add_0_r. unfold data_bytes_of_frames, inter_events. cbn [filter map concat].
    rewrite !app_nil_r. reflexivity.
  - pose proof (Forall_inv Hok) as Hf. pose proof (Forall_inv_tail Hok) as Hok'.
    pose proof (body_data_wf body (Forall_impl _ body_later Hok')) as Hwb.
    cbn [app length]. rewrite Nat.add_succ_r, <- Nat.add_succ_l.
    rewrite data_bytes_fr_cons, inter_events_cons. rewrite data_bytes_fr_cons in Hu8.
    destruct Hf as [Hf|[Hf Hfin]].
    + rewrite (spec_ctl_in _ f k evs _ Hf). destruct Hf as (Hf & _).
      destruct (ctl_ok_facts f Hf) as (Hctl & _). rewrite Hctl in *. cbn [app m_comp snd] in *.
      rewrite IH by assumption. rewrite <- app_assoc. reflexivity.
    + rewrite (spec_cont_in o acc b f k evs _ Hf), spec_data_eq, Hfin.
      destruct Hf as (Hop & _ & _ & Hwp). rewrite Hop in *. change (spec_control 0) with false in *. cbn iota in *.
      assert (Hwa: wf_bytes (acc ++ sf_payload f)) by (apply wf_bytes_app; split; assumption).
      assert (Hv: wrap_of c o && negb (utf8_viable (acc ++ sf_payload f)) = false).
      { destruct (wrap_of c o) eqn:Hwr; [|reflexivity]. destruct (Hu8 eq_refl) as (tail & Hwt & Hval). cbn [andb].
        rewrite <- app_assoc, app_assoc in Hval.
        rewrite (valid_prefix_viable _ _ Hwa (proj2 (wf_bytes_app _ _) (conj Hwb Hwt)) Hval). reflexivity. }
      rewrite Hv. rewrite IH; [|exact Hok'|exact Hwa|].
      * cbn [app]. rewrite <- app_assoc. reflexivity.
      * intros Hwr. destruct (Hu8 Hwr) as (tail & Hwt & Hval). exists tail. split; [exact Hwt|].
        rewrite <- !app_assoc in *. exact Hval.
Qed.

(* the final continuation closes the message: ONE event, the flag of the first frame *)
Lemma spec_last o acc b f k evs rest : cont_in f -> sf_fin f = true ->
  (wrap_of c o = true -> valid_utf8 (acc ++ sf_payload f) = true) ->
  spec_run c k (Some (o, acc, b)) evs (f :: rest) =
  spec_run c (S k) None (evs ++ [mkEv o (acc ++ sf_payload f) false b]) rest.
Proof.
  intros Hf Hfin Hu8. rewrite (spec_cont_in o acc b f k evs rest Hf), spec_data_eq, Hfin.
  destruct (wrap_of c o); [rewrite (Hu8 eq_refl)|]; reflexivity.
Qed.

(* RSV1 on a control or continuation frame: the spec stops there *)
Lemma spec_bad o acc b f0 r k evs rest : later_ok f0 -> rsv1_bit r = true -> st_extended (c_state c) = true ->
  spec_run c k (Some (o, acc, b)) evs (set_rsv r f0 :: rest) = mkSR evs acc (OBadCompression k).
Proof.
  intros Hf Hr Hx. rewrite spec_run_cons. cbn [is_some partial_of].
  assert (Hr1: rsv1 (set_rsv r f0) = true) by exact Hr.
  assert (Hok: frame_ok c true (set_rsv r f0) = true /\ first_data (set_rsv r f0) = false /\ too_large c f0 = false).
  { destruct Hf as [(Hf & Hmk & Hsz)|(Hop & _ & (Hmk & Hsz) & _)].
    - destruct (ctl_ok_facts f0 Hf) as (Hctl & Hres & Hfin & _ & Hlen). split; [|split; [|exact Hsz]].
      + apply frame_ok_intro_x; cbn [set_rsv sf_op sf_rsv sf_fin sf_payload]; try assumption.
        * right; exact Hx.
        * intros _. split; assumption.
        * congruence.
      + unfold first_data. cbn [set_rsv sf_op]. rewrite Hctl. reflexivity.
    - split; [|split; [|exact Hsz]].
      + apply frame_ok_intro_x; cbn [set_rsv sf_op sf_rsv sf_fin sf_payload]; rewrite ?Hop; try assumption;
          try reflexivity.
        * right; exact Hx.
        * discriminate.
      + unfold first_data. cbn [set_rsv sf_op]. rewrite Hop. reflexivity. }
  destruct Hok as (Hfo & Hfd & Hsz). rewrite Hfo. cbn [negb].
  unfold too_large in Hsz. cbn [set_rsv sf_payload]. rewrite Hsz, Hext, Hfd.
  change (rsv1 (mkSF (sf_fin f0) r (sf_op f0) (sf_key f0) (sf_payload f0))) with (rsv1 (set_rsv r f0)).
  rewrite Hr1. reflexivity.
Qed.

(* the first frame of a text or binary message: the message opens with the flag = its RSV1 bit *)
Lemma spec_first fin rsv0 op k0 p0 k evs rest : (op = 1 \/ op = 2) ->
  (rsv0 = 0 \/ st_extended (c_state c) = true) -> fits (mkSF fin rsv0 op k0 p0) ->
  spec_run c k None evs (mkSF fin rsv0 op k0 p0 :: rest) =
  spec_data c k (op, [], rsv1_bit rsv0) evs (mkSF fin rsv0 op k0 p0) rest.
Proof.
  intros Hop Hrsv (Hmk & Hsz). rewrite spec_run_cons. cbn [is_some].
  assert (Hfo: frame_ok c false (mkSF fin rsv0 op k0 p0) = true).
  { apply frame_ok_intro_x; cbn [sf_op sf_rsv sf_fin sf_payload]; try assumption.
    - destruct Hop as [-> | ->]; reflexivity.
    - destruct Hop as [-> | ->]; discriminate.
    - intros _. destruct Hop as [-> | ->]; reflexivity. }
  rewrite Hfo. cbn [negb]. unfold too_large in Hsz. rewrite Hsz.
  assert (Hfd: first_data (mkSF fin rsv0 op k0 p0) = true).
  { unfold first_data. cbn [sf_op]. destruct Hop as [-> | ->]; reflexivity. }
  rewrite Hfd. cbn [negb]. rewrite andb_false_r.
  assert (Hctl: spec_control (sf_op (mkSF fin rsv0 op k0 p0)) = false).
  { cbn [sf_op]. destruct Hop as [-> | ->]; reflexivity. }
  rewrite Hctl. unfold msg_of. rewrite Hext. reflexivity.
Qed.

(* ------------------------------------------------------------------ the shape of a message's continuation part *)
Definition frags_okx (l : list frag) : Prop :=
  Forall (fun x => Forall ctl_in (fr_ctl x) /\ wf_bytes (fr_data x) /\
                   forall fin, fits (mkSF fin 0 0 (fr_key x) (fr_data x))) l.

Lemma cont_split : forall l, l <> [] -> frags_okx l ->
  exists body lastf, cont_frames l = body ++ [lastf] /\ Forall body_ok body /\ cont_in lastf /\ sf_fin lastf = true.
Proof.
  induction l as [|x l IH]; intros Hne Hok; [contradiction|].
  pose proof (Forall_inv Hok) as (Hctls & Hdata & Hfit). pose proof (Forall_inv_tail Hok) as Hok'.
  assert (Hcin: forall fin, cont_in (mkSF fin 0 0 (fr_key x) (fr_data x))).
  { intros fin. unfold cont_in. cbn [sf_op sf_rsv sf_payload]. repeat split; try reflexivity; try exact Hdata; apply Hfit. }
  assert (Hbctl: Forall body_ok (fr_ctl x)) by (apply (Forall_impl _ (fun f H => or_introl H) Hctls)).
  cbn [cont_frames]. destruct l as [|y l'].
  - exists (fr_ctl x), (mkSF true 0 0 (fr_key x) (fr_data x)). cbn [cont_frames].
    split; [reflexivity|]. split; [exact Hbctl|]. split; [apply Hcin|reflexivity].
  - destruct (IH ltac:(discriminate) Hok') as (body & lastf & He & Hb & Hl & Hfin).
    exists (fr_ctl x ++ mkSF false 0 0 (fr_key x) (fr_data x) :: body), lastf.
    rewrite He. split; [rewrite <- app_assoc; reflexivity|]. split; [|split; assumption].
    apply Forall_app. split; [exact Hbctl|]. constructor; [|exact Hb]. right. split; [apply Hcin|reflexivity].
Qed.

Lemma ctls_no_data_x ctls : Forall ctl_in ctls -> data_bytes_of_frames ctls = [] /\
  forall b, inter_events b ctls = map (fun f => mkEv (sf_op f) (sf_payload f) true b) ctls.
Proof.
  induction 1 as [|f ctls (Hf & _) _ (IH1 & IH2)]; [split; reflexivity|].
  destruct (ctl_ok_facts f Hf) as (Hctl & _).
  split; [rewrite data_bytes_fr_cons, IH1, Hctl; reflexivity|].
  intros b. rewrite inter_events_cons, IH2, Hctl. reflexivity.
Qed.

Lemma cont_data_x : forall l, frags_okx l ->
  data_bytes_of_frames (cont_frames l) = concat (map fr_data l) /\
  forall b, inter_events b (cont_frames l) = msg_ctl_events_c b l.
Proof.
  induction 1 as [|x l (Hc & _) _ (IH1 & IH2)]; [split; reflexivity|].
  destruct (ctls_no_data_x _ Hc) as (C1 & C2).
  cbn [cont_frames map concat]. split.
  - rewrite data_bytes_fr_app, C1, data_bytes_fr_cons, IH1. reflexivity.
  - intros b. rewrite inter_events_app, C2, inter_events_cons, IH2. cbn [sf_op].
    change (spec_control 0) with false. cbn iota. unfold msg_ctl_events_c. cbn [map concat app].
    rewrite map_app. reflexivity.
Qed.

(* ------------------------------------------------------------------ the whole message *)
Lemma spec_message rsv0 op k0 p0 l : (op = 1 \/ op = 2) -> (rsv0 = 0 \/ st_extended (c_state c) = true) ->
  wf_bytes p0 -> (forall fin, fits (mkSF fin rsv0 op k0 p0)) -> frags_okx l ->
  (wrap_of c op = true -> valid_utf8 (msg_payload p0 l) = true) ->
  spec_run c 0 None [] (msg_frames_rsv rsv0 op k0 p0 l) =
  mkSR (msg_ctl_events_c (rsv1_bit rsv0) l ++ [mkEv op (msg_payload p0 l) false (rsv1_bit rsv0)]) [] OClean.
Proof.
  intros Hop Hrsv Hp0 Hfit Hok Hu8. unfold msg_frames_rsv.
  rewrite (spec_first _ rsv0 op k0 p0 0%nat [] _ Hop Hrsv (Hfit _)), spec_data_eq.
  cbn [sf_fin sf_payload app]. unfold msg_payload in *.
  destruct l as [|y l'].
  - cbn [map concat cont_frames] in *. rewrite app_nil_r in *. unfold msg_ctl_events_c. cbn [map concat app].
    destruct (wrap_of c op); [rewrite (Hu8 eq_refl)|]; cbn [negb andb]; rewrite spec_run_nil; reflexivity.
  - destruct (cont_split (y :: l') ltac:(discriminate) Hok) as (body & lastf & He & Hb & Hl & Hfin).
    destruct (cont_data_x _ Hok) as (D1 & D2). rewrite He, data_bytes_fr_app in D1.
    specialize (D2 (rsv1_bit rsv0)). rewrite He, inter_events_app in D2.
    assert (Hlast: data_bytes_of_frames [lastf] = sf_payload lastf /\ inter_events (rsv1_bit rsv0) [lastf] = []).
    { destruct Hl as (Hop0 & _). rewrite data_bytes_fr_cons, inter_events_cons, Hop0.
      change (spec_control 0) with false. cbn iota. split; [apply app_nil_r|reflexivity]. }
    destruct Hlast as (L1 & L2). rewrite L1 in D1. rewrite L2, app_nil_r in D2.
    assert (Hwl: wf_bytes (sf_payload lastf)) by apply Hl.
    assert (Hwb: wf_bytes (data_bytes_of_frames body)) by (apply body_data_wf, (Forall_impl _ body_later Hb)).
    assert (Hv0: wrap_of c op && negb (utf8_viable p0) = false).
    { destruct (wrap_of c op) eqn:Hwr; [|reflexivity]. cbn [andb]. rewrite <- D1 in Hu8.
      rewrite (valid_prefix_viable p0 _ Hp0 (proj2 (wf_bytes_app _ _) (conj Hwb Hwl)) (Hu8 eq_refl)). reflexivity. }
    rewrite Hv0, He. rewrite (spec_body op (rsv1_bit rsv0) body 1%nat p0 [] [lastf] Hb Hp0).
    + rewrite (spec_last op _ (rsv1_bit rsv0) lastf _ _ [] Hl Hfin).
      * rewrite spec_run_nil. cbn [is_some partial_of app]. rewrite D2, <- app_assoc, D1. reflexivity.
      * intros Hwr. rewrite <- app_assoc, D1. apply Hu8, Hwr.
    + intros Hwr. exists (sf_payload lastf). split; [exact Hwl|]. rewrite D1. apply Hu8, Hwr.
Qed.

(* the message with RSV1 on its frame number [S j] *)
Lemma spec_message_bad rsv0 op k0 p0 l j rbad rest : (op = 1 \/ op = 2) -> st_extended (c_state c) = true ->
  wf_bytes p0 -> (forall fin, fits (mkSF fin rsv0 op k0 p0)) -> frags_okx l ->
  (wrap_of c op = true -> valid_utf8 (msg_payload p0 l) = true) ->
  (j < length (cont_frames l))%nat -> rsv1_bit rbad = true ->
  let fs0 := msg_frames_rsv rsv0 op k0 p0 l in
  spec_run c 0 None [] (set_rsv_at (S j) rbad fs0 ++ rest) =
  mkSR (inter_events (rsv1_bit rsv0) (firstn (S j) fs0)) (data_bytes_of_frames (firstn (S j) fs0)) (OBadCompression (S j)).
Proof.
  intros Hop Hx Hp0 Hfit Hok Hu8 Hj Hbad fs0. unfold fs0, msg_frames_rsv.
  assert (Hne: l <> []) by (intros ->; cbn [cont_frames length] in Hj; lia).
  destruct (cont_split l Hne Hok) as (body & lastf & He & Hb & Hl & Hfin).
  destruct (cont_data_x _ Hok) as (D1 & _).
  assert (Hlater: Forall later_ok (cont_frames l)).
  { rewrite He. apply Forall_app. split; [apply (Forall_impl _ body_later Hb)|]. constructor; [right; exact Hl|constructor]. }
  destruct (set_rsv_at_split rbad (cont_frames l) j Hj) as (f0 & Hnth & Hset).
  cbn [set_rsv_at firstn]. rewrite Hset.
  assert (Hf0: later_ok f0) by (exact (proj1 (Forall_forall _ _) Hlater f0 (nth_error_In _ _ Hnth))).
  assert (Hpre: Forall body_ok (firstn j (cont_frames l))).
  { rewrite He, firstn_app. rewrite He, app_length in Hj. cbn [length] in Hj.
    replace (j - length body)%nat with 0%nat by lia. cbn [firstn]. rewrite app_nil_r. apply Forall_firstn_, Hb. }
  set (pre := firstn j (cont_frames l)) in *.
  assert (Hsplit: data_bytes_of_frames pre ++ data_bytes_of_frames (skipn j (cont_frames l)) = concat (map fr_data l)).
  { rewrite <- data_bytes_fr_app. unfold pre. rewrite firstn_skipn. exact D1. }
  assert (Hwall: wf_bytes (data_bytes_of_frames pre) /\ wf_bytes (data_bytes_of_frames (skipn j (cont_frames l)))).
  { apply wf_bytes_app. rewrite Hsplit, <- D1. apply body_data_wf, Hlater. }
  destruct Hwall as (Hwpre & Hwsk).
  assert (Hfin0: match l with [] => true | _ => false end = false) by (destruct l; [contradiction|reflexivity]).
  rewrite Hfin0. cbn [app].
  rewrite (spec_first false rsv0 op k0 p0 0%nat [] _ Hop (or_intror Hx) (Hfit _)), spec_data_eq.
  cbn [sf_fin sf_payload app].
  assert (Hv0: wrap_of c op && negb (utf8_viable p0) = false).
  { destruct (wrap_of c op) eqn:Hwr; [|reflexivity]. cbn [andb]. specialize (Hu8 eq_refl). unfold msg_payload in Hu8.
    rewrite <- Hsplit in Hu8.
    rewrite (valid_prefix_viable p0 _ Hp0 (proj2 (wf_bytes_app _ _) (conj Hwpre Hwsk)) Hu8). reflexivity. }
  rewrite Hv0, <- app_assoc.
  rewrite (spec_body op (rsv1_bit rsv0) pre 1%nat p0 [] _ Hpre Hp0).
  - cbn [app]. rewrite (spec_bad op _ (rsv1_bit rsv0) f0 rbad _ _ _ Hf0 Hbad Hx).
    rewrite data_bytes_fr_cons, inter_events_cons. cbn [sf_op sf_payload].
    assert (Hc: spec_control op = false) by (destruct Hop as [-> | ->]; reflexivity). rewrite Hc. cbn [app].
    f_equal. f_equal. unfold pre. rewrite firstn_length. lia.
  - intros Hwr. exists (data_bytes_of_frames (skipn j (cont_frames l))). split; [exact Hwsk|].
    rewrite Hsplit. apply Hu8, Hwr.
Qed.

End C13Spec.

(* ------------------------------------------------------------------ from the frame list to the structured hypotheses *)
Lemma structured c rsv0 op k0 p0 l :
  let fs := msg_frames_rsv rsv0 op k0 p0 l in
  Forall wf_sframe fs -> Forall (fun f => mask_ok (c_state c) f = true /\ too_large c f = false) fs ->
  Forall (fun x => Forall (fun f => ctl_ok f = true) (fr_ctl x)) l ->
  wf_bytes p0 /\ (forall fin, fits c (mkSF fin rsv0 op k0 p0)) /\ frags_okx c l.
Proof.
  intros fs Hwf Hfits Hctls. split; [apply (Forall_inv Hwf)|]. split; [intros fin; exact (Forall_inv Hfits)|].
  pose proof (cont_frames_inv _ l (Forall_inv_tail Hwf)) as W.
  pose proof (cont_frames_inv _ l (Forall_inv_tail Hfits)) as Fi.
  apply Forall_forall. intros x Hx.
  pose proof (proj1 (Forall_forall _ _) W x Hx) as (W1 & fin1 & W2).
  pose proof (proj1 (Forall_forall _ _) Fi x Hx) as (F1 & fin2 & F2).
  pose proof (proj1 (Forall_forall _ _) Hctls x Hx) as C1.
  split; [|split].
  - apply Forall_forall. intros f Hf. split.
    + exact (proj1 (Forall_forall _ _) C1 f Hf).
    + exact (proj1 (Forall_forall _ _) F1 f Hf).
  - apply W2.
  - intros fin. exact F2.
Qed.

Lemma wrap_hyp c op whole : (c_check_utf8 c = true -> op = 1 -> valid_utf8 whole = true) ->
  wrap_of c op = true -> valid_utf8 whole = true.
Proof.
  intros H Hw. unfold wrap_of in Hw. apply andb_true_iff in Hw. destruct Hw as [H1 H2].
  apply H; [exact H1|lia].
Qed.

(* ------------------------------------------------------------------ C13, message level *)
Theorem message_flag_iff_rsv1 : forall state chk max rsv0 op k0 p0 l s bufs fuel,
  let c := mkCfg state chk max true in
  let fs := msg_frames_rsv rsv0 op k0 p0 l in
  let whole := msg_payload p0 l in
  let b := rsv1_bit rsv0 in
  wf_cfg c -> (op = 1 \/ op = 2) -> (rsv0 = 0 \/ st_extended state = true) ->
  Forall wf_sframe fs ->
  Forall (fun f => mask_ok state f = true /\ too_large c f = false) fs ->
  Forall (fun x => Forall (fun f => ctl_ok f = true) (fr_ctl x)) l ->
  (chk = true -> op = 1 -> valid_utf8 whole = true) ->
  wf_src s -> tl s = TEOF -> flat s = wire fs ->
  (2 * length (wire fs) + 4 * length fs + 8 <= fuel)%nat ->
  let d := drive fuel bufs (new_reader s state false chk max true CbReadAll) in
  dr_err d = RIo EEOF /\ dr_partial d = [] /\
  dr_events d = msg_ctl_events_c b l ++ [mkEv op whole false b].
Proof.
  intros state chk max rsv0 op k0 p0 l s bufs fuel c fs whole b Hc Hop Hrsv Hwf Hfits Hctls Hu8 Hw Ht Hfl Hfuel d.
  destruct (structured c rsv0 op k0 p0 l Hwf Hfits Hctls) as (Hp0 & Hfit0 & Hok).
  pose proof (spec_message c eq_refl rsv0 op k0 p0 l Hop Hrsv Hp0 Hfit0 Hok (wrap_hyp c op whole Hu8)) as S.
  fold fs whole b in S.
  pose proof (reader_meets_spec c fs s bufs fuel Hc Hwf Hw Ht Hfl Hfuel) as M. cbv zeta in M.
  change (new_reader s (c_state c) false (c_check_utf8 c) (c_max c) (c_ext c) CbReadAll)
    with (new_reader s state false chk max true CbReadAll) in M. fold d in M.
  unfold reader_monitor, expected_events in M. rewrite S in M. cbn [sr_events sr_out sr_partial] in M.
  apply andb_true_iff in M. destruct M as [M Mp]. apply andb_true_iff in M. destruct M as [Mev Merr].
  split; [|split].
  - destruct (dr_err d) as [[| |]| | | | | | | |]; try discriminate. reflexivity.
  - apply bytes_eqb_eq, Mp.
  - symmetry. apply (evs_match_eq _ _ Mev). apply Forall_app. split.
    + unfold msg_ctl_events_c. apply Forall_forall. intros e He. apply in_map_iff in He.
      destruct He as (f & <- & _). right. reflexivity.
    + constructor; [left; destruct Hop as [-> | ->]; reflexivity|constructor].
Qed.

Theorem rsv1_on_later_frame_rejected : forall state chk max rsv0 op k0 p0 l i rbad rest s bufs fuel,
  let c := mkCfg state chk max true in
  let fs0 := msg_frames_rsv rsv0 op k0 p0 l in
  let fs := set_rsv_at i rbad fs0 ++ rest in
  let b := rsv1_bit rsv0 in
  wf_cfg c -> (op = 1 \/ op = 2) -> st_extended state = true -> rsv0 < 8 ->
  (1 <= i < length fs0)%nat -> rbad < 8 -> rsv1_bit rbad = true ->
  Forall wf_sframe fs0 -> Forall wf_sframe rest ->
  Forall (fun f => mask_ok state f = true /\ too_large c f = false) fs0 ->
  Forall (fun x => Forall (fun f => ctl_ok f = true) (fr_ctl x)) l ->
  (chk = true -> op = 1 -> valid_utf8 (msg_payload p0 l) = true) ->
  wf_src s -> tl s = TEOF -> flat s = wire fs ->
  (2 * length (wire fs) + 4 * length fs + 8 <= fuel)%nat ->
  let d := drive fuel bufs (new_reader s state false chk max true CbReadAll) in
  dr_err d = RCompressionBit /\
  dr_events d = inter_events b (firstn i fs0) /\ data_events (dr_events d) = [] /\
  dr_partial d = data_bytes_of_frames (firstn i fs0).
Proof.
  intros state chk max rsv0 op k0 p0 l i rbad rest s bufs fuel c fs0 fs b Hc Hop Hx Hr0 Hi Hrb Hbad Hwf0 Hwfr
    Hfits Hctls Hu8 Hw Ht Hfl Hfuel d.
  destruct (structured c rsv0 op k0 p0 l Hwf0 Hfits Hctls) as (Hp0 & Hfit0 & Hok).
  destruct i as [|j]; [lia|].
  assert (Hj: (j < length (cont_frames l))%nat) by (unfold fs0, msg_frames_rsv in Hi; cbn [length] in Hi; lia).
  pose proof (spec_message_bad c eq_refl rsv0 op k0 p0 l j rbad rest Hop Hx Hp0 Hfit0 Hok
                (wrap_hyp c op _ Hu8) Hj Hbad) as SP. cbv zeta in SP. fold fs0 fs b in SP.
  assert (Hwf: Forall wf_sframe fs).
  { unfold fs. apply Forall_app. split; [apply set_rsv_at_wf; assumption|exact Hwfr]. }
  pose proof (reader_meets_spec c fs s bufs fuel Hc Hwf Hw Ht Hfl Hfuel) as M. cbv zeta in M.
  change (new_reader s (c_state c) false (c_check_utf8 c) (c_max c) (c_ext c) CbReadAll)
    with (new_reader s state false chk max true CbReadAll) in M. fold d in M.
  unfold reader_monitor, expected_events in M. rewrite SP in M. cbn [sr_events sr_out sr_partial] in M.
  apply andb_true_iff in M. destruct M as [M Mp]. apply andb_true_iff in M. destruct M as [Mev Merr].
  assert (Hev: dr_events d = inter_events b (firstn (S j) fs0)).
  { symmetry. apply (evs_match_eq _ _ Mev), inter_events_inter. }
  split; [|split; [exact Hev|split]].
  - destruct (dr_err d) as [[| |]| | | | | | | |]; try discriminate. reflexivity.
  - rewrite Hev. apply all_ctl_no_data_events, inter_events_all_ctl.
  - apply bytes_eqb_eq, Mp.
Qed.

(* ------------------------------------------------------------------ NextFrame, any reader state *)
(* the header NextFrame returns for the first frame of a data message: RSV1 cleared,
   every other field as received; the MessageState flag becomes the RSV1 bit *)
Lemma next_frame_first_header : forall r hdr s1 h r',
  r_ext r = true -> reader_read_header (r_src r) = (inr hdr, s1) -> h_rsv hdr < 8 ->
  op_is_data (h_op hdr) = true -> h_op hdr <> 0 ->
  next_frame r = ((h, None), r') ->
  h = mkHeader (h_fin hdr) (h_rsv hdr mod 4) (h_op hdr) (h_masked hdr) (h_mask hdr) (h_len hdr) /\
  r_compressed r' = (4 <=? h_rsv hdr) /\ r_frame r' = true.
Proof.
  intros r hdr s1 h r' Hext Hrd Hrsv Hd Ho. unfold next_frame. rewrite Hrd, Hext.
  destruct (if r_skip r then None else check_header hdr (r_state r)); [discriminate|].
  destruct ((0 <? r_max r)%Z && (r_max r <? h_len hdr)%Z); [discriminate|].
  rewrite (unset_bits_first_data hdr _ Hd Ho Hrsv).
  cbn [h_op]. unfold op_is_control. unfold op_is_data in Hd. rewrite Hd. cbn [negb]. rewrite andb_false_r.
  intros H. injection H as <- <-. rsimpl. repeat split; reflexivity.
Qed.

(* control and continuation frames: header and flag untouched *)
Lemma next_frame_other_header : forall r hdr s1 h r',
  r_ext r = true -> reader_read_header (r_src r) = (inr hdr, s1) -> h_rsv hdr < 8 ->
  (op_is_data (h_op hdr) = false \/ h_op hdr = 0) ->
  next_frame r = ((h, None), r') ->
  h = hdr /\ r_compressed r' = r_compressed r /\ h_rsv hdr < 4.
Proof.
  intros r hdr s1 h r' Hext Hrd Hrsv Hd. unfold next_frame. rewrite Hrd, Hext.
  destruct (if r_skip r then None else check_header hdr (r_state r)); [discriminate|].
  destruct ((0 <? r_max r)%Z && (r_max r <? h_len hdr)%Z); [discriminate|].
  rewrite (unset_bits_other hdr _ Hd Hrsv).
  destruct (4 <=? h_rsv hdr) eqn:E4; [discriminate|].
  destruct (st_fragmented (r_state r) && op_is_control (h_op hdr)).
  - unfold cb_read_all, raw_drain. destruct (r_cb r); rsimpl.
    + destruct (read_full _ _) as [[b0 e0] s2]. destruct e0 as [[| |]|]; cbn [option_map]; try discriminate.
      intros H. injection H as <- <-. rsimpl. repeat split; try reflexivity. lia.
    + destruct (read_full _ _) as [[b0 e0] s2]. destruct e0 as [[| |]|]; try discriminate. rsimpl.
      destruct (read_full _ _) as [[b1 e1] s3]. destruct e1 as [[| |]|]; cbn [option_map]; try discriminate.
      intros H. injection H as <- <-. rsimpl. repeat split; try reflexivity. lia.
  - intros H. injection H as <- <-. rsimpl. repeat split; try reflexivity. lia.
Qed.
