(* HsOptionsProofs.v — httphead option lists: what WriteOptions emits for a well-formed list
   (token names, token attributes, token-or-absent values) is lexed into the expected items,
   ScanOptions calls its iterator with a known call sequence, and from that: ParseOptions reads
   the list back unchanged, negotiateExtensions folds the Negotiate function over the offers,
   matchSelectedExtensions returns the list iff every name was offered. *)
Require Import Bytes HsBase64 HsSha1 HsBufio HsBufioProofs HsHttpHead HsHttp HsUpgrader HsUpgraderProofs
        HsDialer HsDialerProofs HsAgreementProofs HsAgreeExt.
From Coq Require Import ZifyBool ZifyN ZifyNat Btauto.
Local Open Scope list_scope.
Open Scope N_scope.

(* ================= 1. lexing what the writer emits *)
Lemma tokb_is_tok : forall t, tokb t = true -> is_tok t.
Proof.
  intros t H. unfold tokb in H. destruct t as [|c t]; [cbn in H; discriminate|].
  cbn [negb andb] in H. split; [discriminate|exact H].
Qed.

Lemma tokb_chars : forall t, tokb t = true -> forallb oct_token t = true.
Proof. intros t H. apply (tokb_is_tok t H). Qed.

Lemma wts_tok : forall t, forallb oct_token t = true -> write_token_sanitized t = t.
Proof. intros t H. unfold write_token_sanitized. rewrite H. reflexivity. Qed.

Lemma skip_space_nsp : forall c r, oct_space c = false -> (c =? 13) = false -> skip_space (c :: r) = c :: r.
Proof. intros c r H1 H2. cbn [skip_space]. destruct r as [|b [|d r']]; rewrite ?H1, ?H2; reflexivity. Qed.

Lemma next_item_semi : forall r, next_item (59 :: r) = Some (ISep 59, r).
Proof. intros r. unfold next_item. rewrite skip_space_nsp by reflexivity. reflexivity. Qed.
Lemma next_item_eq : forall r, next_item (61 :: r) = Some (ISep 61, r).
Proof. intros r. unfold next_item. rewrite skip_space_nsp by reflexivity. reflexivity. Qed.

Definition nontok_head (l : list byte) : bool :=
  match l with [] => true | c :: _ => negb (oct_token c) end.

Fixpoint param_items (ps : list (list byte * list byte)) : list item :=
  match ps with
  | [] => []
  | (k, v) :: r =>
      ISep 59 :: IToken k :: (match v with [] => [] | _ => [ISep 61; IToken v] end) ++ param_items r
  end.
Fixpoint opts_items (os : list hopt) : list item :=
  match os with
  | [] => []
  | o :: r => IToken (o_name o) :: param_items (o_params o)
              ++ (match r with [] => [] | _ => ISep 44 :: opts_items r end)
  end.

Lemma write_params_head : forall ps tail, nontok_head tail = true -> nontok_head (write_params ps ++ tail) = true.
Proof. intros ps tail H. destruct ps as [|[k v] r]; [exact H|reflexivity]. Qed.

Lemma lex_fuel_nil : forall f, lex_fuel f [] = [].
Proof. intros f. destruct f; reflexivity. Qed.

Lemma lex_params : forall ps tail titems,
  forallb wf_param ps = true -> nontok_head tail = true ->
  (forall f, (length tail < f)%nat -> lex_fuel f tail = titems) ->
  forall f, (length (write_params ps ++ tail) < f)%nat ->
  lex_fuel f (write_params ps ++ tail) = param_items ps ++ titems.
Proof.
  induction ps as [|[k v] r IH]; intros tail titems Hwf Hh Ht f Hf.
  - cbn [write_params app param_items]. apply Ht. exact Hf.
  - cbn [forallb] in Hwf. apply andb_prop in Hwf. destruct Hwf as [Hkv Hr].
    unfold wf_param in Hkv. cbn [fst snd] in Hkv. apply andb_prop in Hkv. destruct Hkv as [Hk Hv].
    pose proof (tokb_is_tok k Hk) as Tk. pose proof (tokb_chars k Hk) as Hkt.
    assert (Hklen : (1 <= length k)%nat) by (destruct Tk as [Hne _]; destruct k; [contradiction|cbn; lia]).
    destruct v as [|c v'].
    + assert (E : write_params ((k, []) :: r) ++ tail = 59 :: k ++ (write_params r ++ tail)).
      { cbn [write_params]. rewrite (wts_tok k Hkt). cbn [app]. rewrite <- app_assoc. reflexivity. }
      rewrite E in *. cbn [length] in Hf. rewrite app_length in Hf.
      destruct f; [lia|]. cbn [lex_fuel]. rewrite next_item_semi.
      destruct f; [lia|]. cbn [lex_fuel].
      rewrite (next_item_token k _ Tk (write_params_head r tail Hh)).
      cbn [param_items app]. f_equal. f_equal. apply IH; try assumption. lia.
    + assert (E : write_params ((k, c :: v') :: r) ++ tail
                  = 59 :: k ++ 61 :: (c :: v') ++ (write_params r ++ tail)).
      { cbn [write_params]. rewrite (wts_tok k Hkt), (wts_tok (c :: v') Hv).
        cbn [app]. rewrite <- !app_assoc. cbn [app]. rewrite <- app_assoc. reflexivity. }
      rewrite E in *. cbn [length] in Hf. rewrite app_length in Hf. cbn [length] in Hf.
      rewrite app_length in Hf. cbn [length] in Hf.
      destruct f; [lia|]. cbn [lex_fuel]. rewrite next_item_semi.
      destruct f; [lia|]. cbn [lex_fuel].
      rewrite (next_item_token k (61 :: (c :: v') ++ write_params r ++ tail) Tk eq_refl).
      destruct f; [lia|]. cbn [lex_fuel]. rewrite next_item_eq.
      destruct f; [lia|]. cbn [lex_fuel].
      assert (Tv : is_tok (c :: v')) by (split; [discriminate|exact Hv]).
      rewrite (next_item_token (c :: v') _ Tv (write_params_head r tail Hh)).
      cbn [param_items app]. f_equal. f_equal. f_equal. f_equal. apply IH; try assumption. lia.
Qed.

Lemma write_options_cons : forall o r, tokb (o_name o) = true ->
  write_options (o :: r)
  = o_name o ++ (write_params (o_params o) ++ match r with [] => [] | _ => 44 :: write_options r end).
Proof.
  intros o r Hn. pose proof (tokb_chars _ Hn) as Hnt. destruct r as [|o' r'].
  - cbn [write_options]. unfold write_option. rewrite (wts_tok _ Hnt), app_nil_r. reflexivity.
  - change (write_options (o :: o' :: r')) with (write_option o ++ 44 :: write_options (o' :: r')).
    unfold write_option. rewrite (wts_tok _ Hnt), <- app_assoc. reflexivity.
Qed.

Lemma lex_opts : forall os f, wf_opts os = true -> (length (write_options os) < f)%nat ->
  lex_fuel f (write_options os) = opts_items os.
Proof.
  induction os as [|o r IH]; intros f Hwf Hf.
  - apply lex_fuel_nil.
  - unfold wf_opts in Hwf. cbn [forallb] in Hwf. apply andb_prop in Hwf. destruct Hwf as [Ho Hr].
    unfold wf_opt in Ho. apply andb_prop in Ho. destruct Ho as [Hn Hps].
    rewrite (write_options_cons o r Hn) in *. unfold byte in *.
    set (tail := match r with [] => [] | _ => 44 :: write_options r end) in *.
    assert (Hth : nontok_head tail = true) by (unfold tail; destruct r; reflexivity).
    rewrite app_length in Hf.
    assert (Hnlen : (1 <= length (o_name o))%nat).
    { destruct (tokb_is_tok _ Hn) as [Hne _]. destruct (o_name o); [contradiction|cbn; lia]. }
    destruct f; [lia|]. cbn [lex_fuel].
    rewrite (next_item_token (o_name o) _ (tokb_is_tok _ Hn) (write_params_head _ tail Hth)).
    cbn [opts_items]. f_equal.
    apply lex_params; try assumption; [|unfold byte in *; lia].
    intros f' Hf'. unfold tail in *. destruct r as [|o' r']; [apply lex_fuel_nil|].
    cbn [length] in Hf'. destruct f'; [lia|]. cbn [lex_fuel]. rewrite next_item_comma. f_equal.
    apply IH; [exact Hr|unfold byte in *; lia].
Qed.

Lemma lex_written : forall os, wf_opts os = true -> lex (write_options os) = opts_items os.
Proof. intros os H. unfold lex. apply lex_opts; [exact H|lia]. Qed.

(* every byte the writer emits for a well-formed list is a token character or one of ; = , *)
Definition opt_char (c : byte) : bool := oct_token c || (c =? 59) || (c =? 61) || (c =? 44).

Lemma forallb_app_intro : forall (A : Type) (p : A -> bool) a b,
  forallb p a = true -> forallb p b = true -> forallb p (a ++ b) = true.
Proof. intros A p a b Ha Hb. rewrite forallb_app, Ha, Hb. reflexivity. Qed.

Lemma tok_opt_chars : forall t, forallb oct_token t = true -> forallb opt_char t = true.
Proof.
  intros t H. rewrite forallb_forall in *. intros c Hc. unfold opt_char. rewrite (H c Hc). reflexivity.
Qed.

Lemma write_params_chars : forall ps, forallb wf_param ps = true -> forallb opt_char (write_params ps) = true.
Proof.
  induction ps as [|[k v] r IH]; intros Hwf; [reflexivity|].
  cbn [forallb] in Hwf. apply andb_prop in Hwf. destruct Hwf as [Hkv Hr].
  unfold wf_param in Hkv. cbn [fst snd] in Hkv. apply andb_prop in Hkv. destruct Hkv as [Hk Hv].
  pose proof (tokb_chars k Hk) as Hkt. cbn [write_params]. rewrite (wts_tok k Hkt).
  change (59 :: k ++ (match v with [] => [] | _ :: _ => 61 :: write_token_sanitized v end) ++ write_params r)
    with ([59] ++ k ++ (match v with [] => [] | _ :: _ => 61 :: write_token_sanitized v end) ++ write_params r).
  repeat apply forallb_app_intro; try reflexivity; try (apply tok_opt_chars; assumption); [|apply IH; exact Hr].
  destruct v as [|c v']; [reflexivity|]. rewrite (wts_tok _ Hv).
  change (61 :: c :: v') with ([61] ++ c :: v'). apply forallb_app_intro; [reflexivity|apply tok_opt_chars; exact Hv].
Qed.

Lemma write_options_chars : forall os, wf_opts os = true -> forallb opt_char (write_options os) = true.
Proof.
  induction os as [|o r IH]; intros Hwf; [reflexivity|].
  unfold wf_opts in Hwf. cbn [forallb] in Hwf. apply andb_prop in Hwf. destruct Hwf as [Ho Hr].
  unfold wf_opt in Ho. apply andb_prop in Ho. destruct Ho as [Hn Hps].
  rewrite (write_options_cons o r Hn).
  repeat apply forallb_app_intro; [apply tok_opt_chars, tokb_chars, Hn|apply write_params_chars, Hps|].
  destruct r as [|o' r']; [reflexivity|].
  change (44 :: write_options (o' :: r')) with ([44] ++ write_options (o' :: r')).
  apply forallb_app_intro; [reflexivity|apply IH; exact Hr].
Qed.

Lemma opt_char_props : forall c, opt_char c = true -> (c =? 10) = false /\ is_blank c = false.
Proof.
  intros c H. unfold opt_char in H.
  destruct (c =? 10) eqn:E1; [apply N.eqb_eq in E1; subst; discriminate|].
  unfold is_blank. destruct (c =? 32) eqn:E2; [apply N.eqb_eq in E2; subst; discriminate|].
  destruct (c =? 9) eqn:E3; [apply N.eqb_eq in E3; subst; discriminate|]. split; reflexivity.
Qed.

Lemma opt_chars_no_nl : forall l, forallb opt_char l = true -> no_byte 10 l = true.
Proof.
  intros l H. unfold no_byte. rewrite forallb_forall in *. intros c Hc.
  destruct (opt_char_props c (H c Hc)) as [E _]. rewrite E. reflexivity.
Qed.

Lemma opt_chars_clean : forall l, forallb opt_char l = true -> clean l.
Proof.
  intros l H. rewrite forallb_forall in H. split.
  - destruct l as [|c l']; [exact I|]. apply (opt_char_props c). apply H. left. reflexivity.
  - destruct (rev l) as [|c r] eqn:E; [exact I|]. apply (opt_char_props c). apply H.
    apply in_rev. rewrite E. left. reflexivity.
Qed.

(* ================= 2. ScanOptions on those items: the sequence of iterator calls *)
Definition call := (N * list byte * option (list byte) * list byte)%type.

(* the calls one option gives rise to: one per parameter, or a single attribute-less one *)
Definition opt_calls (i : N) (o : hopt) : list call :=
  match o_params o with
  | [] => [(i, o_name o, None, [])]
  | ps => map (fun kv => (i, o_name o, Some (fst kv), snd kv)) ps
  end.
Fixpoint opts_calls (i : N) (os : list hopt) : list call :=
  match os with
  | [] => []
  | o :: r => opt_calls i o ++ opts_calls (i + 1) r
  end.

Inductive sit := Clean | PendName | PendParam (k : list byte).
Definition st_of (i : N) (name : list byte) (s : sit) : so_vars :=
  match s with
  | Clean => mkSo StParamBeforeName i name None [] false
  | PendName => mkSo StParamBeforeName i name None [] true
  | PendParam k => mkSo StParamBeforeValue i name (Some k) [] true
  end.
Definition flush_semi (i : N) (name : list byte) (s : sit) : list call :=
  match s with PendParam k => [(i, name, Some k, [])] | _ => [] end.
Definition flush_end (i : N) (name : list byte) (s : sit) : list call :=
  match s with
  | Clean => []
  | PendName => [(i, name, None, [])]
  | PendParam k => [(i, name, Some k, [])]
  end.
Fixpoint calls_between (i : N) (name : list byte) (s : sit) (ps : list (list byte * list byte)) : list call :=
  match ps with
  | [] => []
  | (k, v) :: r =>
      flush_semi i name s
      ++ match v with
         | [] => calls_between i name (PendParam k) r
         | _ => (i, name, Some k, v) :: calls_between i name Clean r
         end
  end.
Fixpoint sit_after (s : sit) (ps : list (list byte * list byte)) : sit :=
  match ps with
  | [] => s
  | (k, v) :: r => sit_after (match v with [] => PendParam k | _ => Clean end) r
  end.

Lemma calls_between_spec : forall i name ps s,
  calls_between i name s ps ++ flush_end i name (sit_after s ps)
  = match ps with
    | [] => flush_end i name s
    | _ => flush_semi i name s ++ map (fun kv => (i, name, Some (fst kv), snd kv)) ps
    end.
Proof.
  intros i name. induction ps as [|[k v] r IH]; intros s; [reflexivity|].
  cbn [calls_between sit_after map fst snd]. rewrite <- app_assoc. f_equal.
  destruct v as [|c v'].
  - rewrite IH. destruct r; reflexivity.
  - cbn [app]. f_equal. rewrite IH. destruct r; reflexivity.
Qed.

Lemma opt_calls_eq : forall i o,
  calls_between i (o_name o) PendName (o_params o)
  ++ flush_end i (o_name o) (sit_after PendName (o_params o)) = opt_calls i o.
Proof.
  intros i o. rewrite calls_between_spec. unfold opt_calls. destruct (o_params o); reflexivity.
Qed.

Section Scan.
  Variable A : Type.
  Variable it : A -> N -> list byte -> option (list byte) -> list byte -> A * control.

  Definition app_call (a : A) (c : call) : A * control :=
    let '(i, n, at_, v) := c in it a i n at_ v.
  (* fold with ControlBreak; the flag says whether every call was made *)
  Fixpoint run_calls (cs : list call) (a : A) : A * bool :=
    match cs with
    | [] => (a, true)
    | c :: r => match app_call a c with
                | (a', CBreak) => (a', false)
                | (a', CContinue) => run_calls r a'
                end
    end.

  Lemma run_calls_app : forall x y a,
    run_calls (x ++ y) a = match run_calls x a with
                           | (a', true) => run_calls y a'
                           | (a', false) => (a', false)
                           end.
  Proof.
    induction x as [|c x IH]; intros y a; [reflexivity|].
    cbn [app run_calls]. destruct (app_call a c) as [a' [|]]; [apply IH|reflexivity].
  Qed.

  Lemma so_trans_must : forall x v v' grow,
    so_trans x v = Some (v', false, grow) -> so_must v = true -> so_must v' = true.
  Proof.
    intros x v v' grow E Hm. unfold so_trans in E.
    repeat match type of E with
           | match ?x with _ => _ end = _ => destruct x eqn:?
           | (if ?x then _ else _) = _ => destruct x eqn:?
           end; try discriminate; inversion E; subst; cbn [so_must]; congruence.
  Qed.

  Lemma must_ok_irrel : forall items v ok a, so_must v = true ->
    scan_options_loop A it items v ok a = scan_options_loop A it items v true a.
  Proof.
    induction items as [|x items IH]; intros v ok a Hm.
    - cbn [scan_options_loop]. unfold so_finish. rewrite Hm. reflexivity.
    - cbn [scan_options_loop]. destruct x as [t|c|s| |].
      + destruct (so_trans (IToken t) v) as [[[v' cl] grow]|] eqn:E; [|reflexivity].
        destruct cl; [reflexivity|]. apply IH. exact (so_trans_must _ _ _ _ E Hm).
      + destruct (so_trans (ISep c) v) as [[[v' cl] grow]|] eqn:E; [|reflexivity].
        destruct cl; [reflexivity|]. apply IH. exact (so_trans_must _ _ _ _ E Hm).
      + destruct (so_trans (IString s) v) as [[[v' cl] grow]|] eqn:E; [|reflexivity].
        destruct cl; [reflexivity|]. apply IH. exact (so_trans_must _ _ _ _ E Hm).
      + reflexivity.
      + unfold so_finish. rewrite Hm. reflexivity.
  Qed.

  (* single steps of the state machine *)
  Lemma step_semi_quiet : forall i name s k X ok a,
    match s with PendParam _ => False | _ => True end ->
    scan_options_loop A it (ISep 59 :: IToken k :: X) (st_of i name s) ok a
    = scan_options_loop A it X (st_of i name (PendParam k)) ok a.
  Proof. intros i name s k X ok a H. destruct s; [reflexivity|reflexivity|contradiction]. Qed.

  Lemma step_semi_param : forall i name k0 k X ok a,
    scan_options_loop A it (ISep 59 :: IToken k :: X) (st_of i name (PendParam k0)) ok a
    = match it a i name (Some k0) [] with
      | (a', CBreak) => (a', true)
      | (a', CContinue) => scan_options_loop A it X (st_of i name (PendParam k)) true a'
      end.
  Proof.
    intros. cbn. destruct (it a i name (Some k0) []) as [a' [|]]; [|reflexivity].
    rewrite N.add_0_r. reflexivity.
  Qed.

  Lemma step_value : forall i name k v X ok a,
    scan_options_loop A it (ISep 61 :: IToken v :: X) (st_of i name (PendParam k)) ok a
    = match it a i name (Some k) v with
      | (a', CBreak) => (a', true)
      | (a', CContinue) => scan_options_loop A it X (st_of i name Clean) true a'
      end.
  Proof.
    intros. cbn. destruct (it a i name (Some k) v) as [a' [|]]; [|reflexivity].
    rewrite N.add_0_r. reflexivity.
  Qed.

  Lemma step_comma : forall i name s name' X a,
    scan_options_loop A it (ISep 44 :: IToken name' :: X) (st_of i name s) true a
    = match run_calls (flush_end i name s) a with
      | (a', false) => (a', true)
      | (a', true) => scan_options_loop A it X (st_of (i + 1) name' PendName) true a'
      end.
  Proof.
    intros. destruct s as [| |k]; cbn.
    - reflexivity.
    - destruct (it a i name None []) as [a' [|]]; reflexivity.
    - destruct (it a i name (Some k) []) as [a' [|]]; reflexivity.
  Qed.

  Lemma step_end : forall i name s a,
    scan_options_loop A it [] (st_of i name s) true a = (fst (run_calls (flush_end i name s) a), true).
  Proof.
    intros. destruct s as [| |k]; cbn.
    - reflexivity.
    - destruct (it a i name None []) as [a' [|]]; reflexivity.
    - destruct (it a i name (Some k) []) as [a' [|]]; reflexivity.
  Qed.

  Lemma params_loop : forall i name ps s a tail,
    scan_options_loop A it (param_items ps ++ tail) (st_of i name s) true a
    = match run_calls (calls_between i name s ps) a with
      | (a', false) => (a', true)
      | (a', true) => scan_options_loop A it tail (st_of i name (sit_after s ps)) true a'
      end.
  Proof.
    intros i name. induction ps as [|[k v] r IH]; intros s a tail; [reflexivity|].
    cbn [param_items calls_between sit_after]. rewrite run_calls_app.
    change ((ISep 59 :: IToken k :: (match v with [] => [] | _ :: _ => [ISep 61; IToken v] end) ++ param_items r) ++ tail)
      with (ISep 59 :: IToken k :: ((match v with [] => [] | _ :: _ => [ISep 61; IToken v] end) ++ param_items r) ++ tail).
    destruct s as [| |k0].
    - rewrite step_semi_quiet by exact I. cbn [flush_semi run_calls].
      destruct v as [|c v'].
      + cbn [app]. apply IH.
      + cbn [app]. rewrite step_value. cbn [run_calls app_call].
        destruct (it a i name (Some k) (c :: v')) as [a' [|]]; [apply IH|reflexivity].
    - rewrite step_semi_quiet by exact I. cbn [flush_semi run_calls].
      destruct v as [|c v'].
      + cbn [app]. apply IH.
      + cbn [app]. rewrite step_value. cbn [run_calls app_call].
        destruct (it a i name (Some k) (c :: v')) as [a' [|]]; [apply IH|reflexivity].
    - rewrite step_semi_param. cbn [flush_semi run_calls app_call].
      destruct (it a i name (Some k0) []) as [a0 [|]]; [|reflexivity].
      destruct v as [|c v'].
      + cbn [app]. apply IH.
      + cbn [app]. rewrite step_value. cbn [run_calls app_call].
        destruct (it a0 i name (Some k) (c :: v')) as [a' [|]]; [apply IH|reflexivity].
  Qed.

  Lemma opts_tail_loop : forall r i name s a,
    scan_options_loop A it (match r with [] => [] | _ => ISep 44 :: opts_items r end) (st_of i name s) true a
    = (fst (run_calls (flush_end i name s ++ opts_calls (i + 1) r) a), true).
  Proof.
    induction r as [|o r IH]; intros i name s a.
    - rewrite app_nil_r. apply step_end.
    - cbn [opts_items opts_calls]. rewrite step_comma, run_calls_app.
      destruct (run_calls (flush_end i name s) a) as [a1 [|]]; [|reflexivity].
      rewrite params_loop. rewrite <- opt_calls_eq, <- app_assoc, run_calls_app.
      destruct (run_calls (calls_between (i + 1) (o_name o) PendName (o_params o)) a1) as [a2 [|]]; [|reflexivity].
      apply IH.
  Qed.

  Theorem scan_options_written : forall os a, wf_opts os = true -> os <> [] ->
    scan_options A it (write_options os) a = (fst (run_calls (opts_calls 0 os) a), true).
  Proof.
    intros os a Hwf Hne. unfold scan_options. rewrite (lex_written os Hwf).
    destruct os as [|o r]; [contradiction|]. cbn [opts_items opts_calls].
    change (scan_options_loop A it
              (IToken (o_name o) :: param_items (o_params o) ++ match r with [] => [] | _ :: _ => ISep 44 :: opts_items r end)
              (mkSo StKey 0 [] None [] false) false a)
      with (scan_options_loop A it
              (param_items (o_params o) ++ match r with [] => [] | _ :: _ => ISep 44 :: opts_items r end)
              (st_of 0 (o_name o) PendName) false a).
    rewrite must_ok_irrel by reflexivity. rewrite params_loop.
    rewrite <- opt_calls_eq, <- app_assoc, run_calls_app.
    destruct (run_calls (calls_between 0 (o_name o) PendName (o_params o)) a) as [a2 [|]]; [|reflexivity].
    apply opts_tail_loop.
  Qed.
End Scan.

Definition lt_idx (j : option N) (i : N) : Prop := match j with None => True | Some i' => i' < i end.

Lemma lt_idx_neq : forall j i, lt_idx j i -> match j with Some i' => i' =? i | None => false end = false.
Proof. intros [j|] i H; [cbn in H; lia|reflexivity]. Qed.

(* ================= 3. ParseOptions reads the list back *)
Lemma po_params : forall ps i name done ps0,
  run_calls po_acc po_it (map (fun kv => (i, name, Some (fst kv), snd kv)) ps)
    (mkPo (Some i) (done ++ [mkOpt name ps0]))
  = (mkPo (Some i) (done ++ [mkOpt name (ps0 ++ ps)]), true).
Proof.
  induction ps as [|[k v] r IH]; intros i name done ps0.
  - rewrite app_nil_r. reflexivity.
  - cbn [map run_calls app_call fst snd]. unfold po_it. cbn [po_index po_opts]. rewrite N.eqb_refl.
    cbn [po_index po_opts]. rewrite po_set_last. unfold opt_set. cbn [o_name o_params].
    rewrite IH, <- app_assoc. reflexivity.
Qed.

Lemma po_opt : forall i o j done, lt_idx j i ->
  run_calls po_acc po_it (opt_calls i o) (mkPo j done) = (mkPo (Some i) (done ++ [o]), true).
Proof.
  intros i [name ps] j done Hj. unfold opt_calls. cbn [o_name o_params].
  pose proof (lt_idx_neq j i Hj) as Hn.
  destruct ps as [|[k v] r].
  - cbn [run_calls app_call]. unfold po_it. cbn [po_index po_opts].
    destruct j as [j'|]; [rewrite Hn|]; reflexivity.
  - cbn [map run_calls app_call fst snd].
    assert (E : po_it (mkPo j done) i name (Some k) v
                = (mkPo (Some i) (done ++ [mkOpt name [(k, v)]]), CContinue)).
    { unfold po_it. cbn [po_index po_opts].
      destruct j as [j'|]; [rewrite Hn|]; cbn [po_index po_opts]; rewrite po_set_last; reflexivity. }
    rewrite E. rewrite po_params. reflexivity.
Qed.

Lemma po_opts_run : forall os i j done, lt_idx j i ->
  exists j', run_calls po_acc po_it (opts_calls i os) (mkPo j done) = (mkPo j' (done ++ os), true).
Proof.
  induction os as [|o r IH]; intros i j done Hj.
  - exists j. rewrite app_nil_r. reflexivity.
  - cbn [opts_calls]. rewrite run_calls_app, (po_opt i o j done Hj).
    destruct (IH (i + 1) (Some i) (done ++ [o]) ltac:(cbn; lia)) as [j' E].
    exists j'. rewrite E, <- app_assoc. reflexivity.
Qed.

Theorem option_list_roundtrip : forall os, wf_opts os = true -> os <> [] ->
  parse_options (write_options os) = (os, true).
Proof.
  intros os Hwf Hne. unfold parse_options. rewrite (scan_options_written _ po_it os _ Hwf Hne).
  destruct (po_opts_run os 0 None [] I) as [j' E]. rewrite E. reflexivity.
Qed.

(* the deprecated Extension filter returns the accepted offers, in the client's order *)
Theorem select_options_written : forall check os acc, wf_opts os = true -> os <> [] ->
  select_options check (write_options os) acc = (acc ++ filter check os, true).
Proof.
  intros check os acc Hwf Hne.
  destruct (select_options_from_offer check (write_options os) acc) as [E1 E2].
  rewrite (option_list_roundtrip os Hwf Hne) in E1, E2. cbn [fst snd] in E1, E2.
  destruct (select_options check (write_options os) acc) as [x y]. cbn [fst snd] in *. subst. reflexivity.
Qed.

(* ================= 4. negotiateExtensions folds the function over the offers *)
Definition neg_fine (f : hopt -> neg_res) (o : hopt) : Prop :=
  opt_size o = 0 \/ exists o', f o = NegOk o'.
Definition maybe_answer (f : hopt -> neg_res) (o : hopt) : list hopt :=
  if opt_size o =? 0 then [] else neg_answer f o.

Lemma negotiate_maybe_fine : forall f cur dest, neg_fine f cur ->
  negotiate_maybe f cur dest = (dest ++ maybe_answer f cur, None).
Proof.
  intros f cur dest [Hz|[o' Ho]]; unfold negotiate_maybe, maybe_answer, neg_answer.
  - rewrite Hz. cbn. rewrite app_nil_r. reflexivity.
  - destruct (opt_size cur =? 0); [rewrite app_nil_r; reflexivity|]. rewrite Ho.
    destruct (0 <? opt_size o'); [reflexivity|rewrite app_nil_r; reflexivity].
Qed.

Lemma neg_params : forall f ps i name dest ps0,
  run_calls neg_acc (neg_it f) (map (fun kv => (i, name, Some (fst kv), snd kv)) ps)
    (mkNeg (Some i) (mkOpt name ps0) dest None)
  = (mkNeg (Some i) (mkOpt name (ps0 ++ ps)) dest None, true).
Proof.
  intros f. induction ps as [|[k v] r IH]; intros i name dest ps0.
  - rewrite app_nil_r. reflexivity.
  - cbn [map run_calls app_call fst snd]. unfold neg_it. cbn [ng_index ng_cur ng_dest ng_err].
    rewrite N.eqb_refl. cbn [ng_index ng_cur ng_dest ng_err]. unfold opt_set. cbn [o_name o_params].
    rewrite IH, <- app_assoc. reflexivity.
Qed.

Lemma neg_opt : forall f i o j cur dest, lt_idx j i -> neg_fine f cur ->
  run_calls neg_acc (neg_it f) (opt_calls i o) (mkNeg j cur dest None)
  = (mkNeg (Some i) o (dest ++ maybe_answer f cur) None, true).
Proof.
  intros f i [name ps] j cur dest Hj Hc. unfold opt_calls. cbn [o_name o_params].
  pose proof (lt_idx_neq j i Hj) as Hn.
  destruct ps as [|[k v] r].
  - cbn [run_calls app_call]. unfold neg_it. cbn [ng_index ng_cur ng_dest ng_err]. rewrite Hn.
    rewrite (negotiate_maybe_fine f cur dest Hc). reflexivity.
  - cbn [map run_calls app_call fst snd].
    assert (E : neg_it f (mkNeg j cur dest None) i name (Some k) v
                = (mkNeg (Some i) (mkOpt name [(k, v)]) (dest ++ maybe_answer f cur) None, CContinue)).
    { unfold neg_it. cbn [ng_index ng_cur ng_dest ng_err]. rewrite Hn.
      rewrite (negotiate_maybe_fine f cur dest Hc). reflexivity. }
    rewrite E. rewrite (neg_params f r i name _ [(k, v)]). reflexivity.
Qed.

Lemma neg_opts_run : forall f os i j cur dest, lt_idx j i -> neg_fine f cur ->
  Forall (neg_fine f) os ->
  exists j' cur' dest',
    run_calls neg_acc (neg_it f) (opts_calls i os) (mkNeg j cur dest None) = (mkNeg j' cur' dest' None, true)
    /\ neg_fine f cur'
    /\ dest' ++ maybe_answer f cur' = dest ++ flat_map (maybe_answer f) (cur :: os).
Proof.
  intros f. induction os as [|o r IH]; intros i j cur dest Hj Hc Hos.
  - exists j, cur, dest. cbn [opts_calls run_calls flat_map]. rewrite app_nil_r. auto.
  - inversion Hos as [|? ? Ho Hr]; subst. cbn [opts_calls]. rewrite run_calls_app, (neg_opt f i o j cur dest Hj Hc).
    destruct (IH (i + 1) (Some i) o (dest ++ maybe_answer f cur) ltac:(cbn; lia) Ho Hr) as [j' [cur' [dest' [E [Hf Hd]]]]].
    exists j', cur', dest'. split; [exact E|]. split; [exact Hf|].
    rewrite Hd. cbn [flat_map]. rewrite <- app_assoc. reflexivity.
Qed.

Lemma wf_opt_size : forall o, wf_opt o = true -> (opt_size o =? 0) = false.
Proof.
  intros o H. unfold wf_opt in H. apply andb_prop in H. destruct H as [Hn _].
  destruct (tokb_is_tok _ Hn) as [Hne _]. unfold opt_size, len.
  destruct (o_name o); [contradiction|]. cbn [length]. lia.
Qed.

Lemma maybe_answers_wf : forall f os, wf_opts os = true -> flat_map (maybe_answer f) os = neg_answers f os.
Proof.
  intros f. induction os as [|o r IH]; intros H; [reflexivity|].
  unfold wf_opts in H. cbn [forallb] in H. apply andb_prop in H. destruct H as [Ho Hr].
  unfold neg_answers. cbn [flat_map]. fold (neg_answers f r). rewrite (IH Hr).
  unfold maybe_answer. rewrite (wf_opt_size o Ho). reflexivity.
Qed.

Lemma neg_total_fine : forall f os, neg_total f os = true -> Forall (neg_fine f) os.
Proof.
  intros f os H. unfold neg_total in H. rewrite forallb_forall in H. apply Forall_forall.
  intros o Ho. specialize (H o Ho). right. destruct (f o) as [o'|e]; [exists o'; reflexivity|discriminate].
Qed.

Theorem negotiate_extensions_written : forall f os dest,
  wf_opts os = true -> os <> [] -> neg_total f os = true ->
  negotiate_extensions f (write_options os) dest = (dest ++ neg_answers f os, None).
Proof.
  intros f os dest Hwf Hne Ht. unfold negotiate_extensions.
  rewrite (scan_options_written _ (neg_it f) os _ Hwf Hne).
  assert (Hz : neg_fine f opt_zero) by (left; reflexivity).
  destruct (neg_opts_run f os 0 None opt_zero dest I Hz (neg_total_fine f os Ht))
    as [j' [cur' [dest' [E [Hf Hd]]]]].
  rewrite E. cbn [fst negb ng_cur ng_dest]. rewrite (negotiate_maybe_fine f cur' dest' Hf), Hd.
  cbn [flat_map]. unfold maybe_answer at 1. cbn [app]. rewrite (maybe_answers_wf f os Hwf). reflexivity.
Qed.

(* ================= 5. matchSelectedExtensions: the selected list comes back iff each name was offered *)
Lemma mx_find_offered : forall wanted o, offered wanted o = true ->
  exists w, mx_find (o_name o) wanted = Some w /\ o_name w = o_name o.
Proof.
  induction wanted as [|w r IH]; intros o H; [discriminate|].
  unfold offered in H. cbn [existsb] in H. cbn [mx_find].
  destruct (bytes_eqb (o_name o) (o_name w)) eqn:E.
  - exists w. split; [reflexivity|]. symmetry. apply bytes_eqb_eq. exact E.
  - cbn [orb] in H. apply IH. exact H.
Qed.

Lemma mx_find_unoffered : forall wanted o, offered wanted o = false -> mx_find (o_name o) wanted = None.
Proof.
  induction wanted as [|w r IH]; intros o H; [reflexivity|].
  unfold offered in H. cbn [existsb] in H. cbn [mx_find]. apply orb_false_iff in H. destruct H as [H1 H2].
  rewrite H1. apply IH. exact H2.
Qed.

Lemma mx_match_offered : forall wanted j o recv flag, offered wanted o = true ->
  mx_match wanted (mkMx j o recv flag) = (mkMx j o (recv ++ [o]) flag, true).
Proof.
  intros wanted j o recv flag H. unfold mx_match. cbn [mx_option mx_index mx_received mx_err_flag].
  destruct (mx_find_offered wanted o H) as [w [E1 E2]]. rewrite E1, E2. destruct o; reflexivity.
Qed.

Lemma mx_match_unoffered : forall wanted a, offered wanted (mx_option a) = false ->
  mx_match wanted a = (a, false).
Proof. intros wanted a H. unfold mx_match. rewrite (mx_find_unoffered wanted _ H). reflexivity. Qed.

Lemma mx_params : forall wanted ps i name recv flag ps0,
  run_calls mx_acc (mx_it wanted) (map (fun kv => (i, name, Some (fst kv), snd kv)) ps)
    (mkMx (Some i) (mkOpt name ps0) recv flag)
  = (mkMx (Some i) (mkOpt name (ps0 ++ ps)) recv flag, true).
Proof.
  intros wanted. induction ps as [|[k v] r IH]; intros i name recv flag ps0.
  - rewrite app_nil_r. reflexivity.
  - cbn [map run_calls app_call fst snd]. unfold mx_it. cbn [mx_index mx_option mx_received mx_err_flag].
    rewrite N.eqb_refl. cbn [mx_index mx_option mx_received mx_err_flag]. unfold opt_set. cbn [o_name o_params].
    rewrite IH, <- app_assoc. reflexivity.
Qed.

(* the first option of a header value: index 0, nothing is matched yet *)
Lemma mx_first : forall wanted o cur recv flag,
  run_calls mx_acc (mx_it wanted) (opt_calls 0 o) (mkMx None cur recv flag)
  = (mkMx (Some 0) o recv flag, true).
Proof.
  intros wanted [name ps] cur recv flag. unfold opt_calls. cbn [o_name o_params].
  destruct ps as [|[k v] r].
  - reflexivity.
  - cbn [map run_calls app_call fst snd].
    assert (E : mx_it wanted (mkMx None cur recv flag) 0 name (Some k) v
                = (mkMx (Some 0) (mkOpt name [(k, v)]) recv flag, CContinue)) by reflexivity.
    rewrite E. rewrite (mx_params wanted r 0 name recv flag [(k, v)]). reflexivity.
Qed.

(* a later option: the one before it is matched first *)
Lemma mx_next_ok : forall wanted i o j cur recv flag, lt_idx j i -> 0 < i -> offered wanted cur = true ->
  run_calls mx_acc (mx_it wanted) (opt_calls i o) (mkMx j cur recv flag)
  = (mkMx (Some i) o (recv ++ [cur]) flag, true).
Proof.
  intros wanted i [name ps] j cur recv flag Hj Hi Hc. unfold opt_calls. cbn [o_name o_params].
  pose proof (lt_idx_neq j i Hj) as Hn.
  assert (Hi0 : (i =? 0) = false) by lia.
  assert (E : forall attr val,
    mx_it wanted (mkMx j cur recv flag) i name attr val
    = (match attr with
       | Some k => mkMx (Some i) (mkOpt name [(k, val)]) (recv ++ [cur]) flag
       | None => mkMx (Some i) (mkOpt name []) (recv ++ [cur]) flag
       end, CContinue)).
  { intros attr val. unfold mx_it. cbn [mx_index mx_option mx_received mx_err_flag]. rewrite Hn, Hi0.
    cbn [negb]. rewrite (mx_match_offered wanted (Some i) cur recv flag Hc).
    cbn [mx_index mx_option mx_received mx_err_flag]. destruct attr; reflexivity. }
  destruct ps as [|[k v] r].
  - cbn [run_calls app_call]. rewrite E. reflexivity.
  - cbn [map run_calls app_call fst snd]. rewrite E.
    rewrite (mx_params wanted r i name _ flag [(k, v)]). reflexivity.
Qed.

Lemma mx_next_bad : forall wanted i o j cur recv flag, lt_idx j i -> 0 < i -> offered wanted cur = false ->
  exists c cs, opt_calls i o = c :: cs
  /\ app_call mx_acc (mx_it wanted) (mkMx j cur recv flag) c = (mkMx (Some i) cur recv true, CBreak).
Proof.
  intros wanted i [name ps] j cur recv flag Hj Hi Hc. unfold opt_calls. cbn [o_name o_params].
  pose proof (lt_idx_neq j i Hj) as Hn.
  assert (Hi0 : (i =? 0) = false) by lia.
  assert (E : forall attr val,
    mx_it wanted (mkMx j cur recv flag) i name attr val = (mkMx (Some i) cur recv true, CBreak)).
  { intros attr val. unfold mx_it. cbn [mx_index mx_option mx_received mx_err_flag]. rewrite Hn, Hi0.
    cbn [negb]. rewrite (mx_match_unoffered wanted (mkMx (Some i) cur recv flag) Hc). reflexivity. }
  destruct ps as [|[k v] r].
  - eexists; eexists; split; [reflexivity|]. apply E.
  - cbn [map fst snd]. eexists; eexists; split; [reflexivity|]. apply E.
Qed.

Lemma mx_rest_ok : forall wanted os i j cur recv, lt_idx j i -> 0 < i ->
  forallb (offered wanted) (cur :: os) = true ->
  exists j' cur' recv',
    run_calls mx_acc (mx_it wanted) (opts_calls i os) (mkMx j cur recv false) = (mkMx j' cur' recv' false, true)
    /\ offered wanted cur' = true /\ recv' ++ [cur'] = recv ++ cur :: os.
Proof.
  intros wanted. induction os as [|o r IH]; intros i j cur recv Hj Hi Hall.
  - cbn [forallb] in Hall. apply andb_prop in Hall. destruct Hall as [Hc _].
    exists j, cur, recv. auto.
  - cbn [forallb] in Hall. apply andb_prop in Hall. destruct Hall as [Hc Hr].
    cbn [opts_calls]. rewrite run_calls_app, (mx_next_ok wanted i o j cur recv false Hj Hi Hc).
    destruct (IH (i + 1) (Some i) o (recv ++ [cur]) ltac:(cbn; lia) ltac:(lia) Hr) as [j' [cur' [recv' [E [Ho Hd]]]]].
    exists j', cur', recv'. split; [exact E|]. split; [exact Ho|]. rewrite Hd, <- app_assoc. reflexivity.
Qed.

Theorem match_selected_written : forall wanted es recv,
  wf_opts es = true -> es <> [] -> forallb (offered wanted) es = true ->
  match_selected_extensions (write_options es) wanted recv = (recv ++ es, None).
Proof.
  intros wanted es recv Hwf Hne Hall. unfold match_selected_extensions.
  assert (Hw : write_options es <> []).
  { destruct es as [|o r]; [contradiction|]. unfold wf_opts in Hwf. cbn [forallb] in Hwf.
    apply andb_prop in Hwf. destruct Hwf as [Ho _]. unfold wf_opt in Ho. apply andb_prop in Ho. destruct Ho as [Hn _].
    rewrite (write_options_cons o r Hn). destruct (tokb_is_tok _ Hn) as [Hnn _].
    destruct (o_name o); [contradiction|discriminate]. }
  destruct (write_options es) as [|b0 w0] eqn:Ew; [contradiction|]. rewrite <- Ew.
  rewrite (scan_options_written _ (mx_it wanted) es _ Hwf Hne).
  destruct es as [|o r]; [contradiction|]. cbn [opts_calls]. rewrite run_calls_app, mx_first.
  destruct (mx_rest_ok wanted r (0 + 1) (Some 0) o recv ltac:(cbn; lia) ltac:(lia) Hall)
    as [j' [cur' [recv' [E [Ho Hd]]]]].
  rewrite E. cbn [fst negb]. rewrite (mx_match_offered wanted j' cur' recv' false Ho).
  cbn [negb mx_received mx_err_flag]. rewrite Hd. reflexivity.
Qed.

(* the error the scan ends in *)
Definition mx_final (wanted : list hopt) (a : mx_acc) : option mx_err :=
  let (a', m) := mx_match wanted a in
  if negb m then Some MxBadExtensions
  else if mx_err_flag a' then Some MxBadExtensions else None.

Lemma mx_rest_bad : forall wanted os i j cur recv, lt_idx j i -> 0 < i ->
  forallb (offered wanted) (cur :: os) = false ->
  mx_final wanted (fst (run_calls mx_acc (mx_it wanted) (opts_calls i os) (mkMx j cur recv false)))
  = Some MxBadExtensions.
Proof.
  intros wanted. induction os as [|o r IH]; intros i j cur recv Hj Hi Hall.
  - cbn [forallb] in Hall. rewrite andb_true_r in Hall. cbn [opts_calls run_calls fst].
    unfold mx_final. rewrite (mx_match_unoffered wanted (mkMx j cur recv false) Hall). reflexivity.
  - cbn [forallb] in Hall. cbn [opts_calls]. rewrite run_calls_app.
    destruct (offered wanted cur) eqn:Hc.
    + cbn [andb] in Hall. rewrite (mx_next_ok wanted i o j cur recv false Hj Hi Hc).
      apply IH; [cbn; lia|lia|exact Hall].
    + destruct (mx_next_bad wanted i o j cur recv false Hj Hi Hc) as [c [cs [E1 E2]]].
      rewrite E1. cbn [run_calls]. rewrite E2. cbn [fst].
      unfold mx_final. rewrite (mx_match_unoffered wanted (mkMx (Some i) cur recv true) Hc). reflexivity.
Qed.

Theorem match_selected_unoffered : forall wanted es recv,
  wf_opts es = true -> es <> [] -> forallb (offered wanted) es = false ->
  snd (match_selected_extensions (write_options es) wanted recv) = Some MxBadExtensions.
Proof.
  intros wanted es recv Hwf Hne Hall. unfold match_selected_extensions.
  assert (Hw : write_options es <> []).
  { destruct es as [|o r]; [contradiction|]. unfold wf_opts in Hwf. cbn [forallb] in Hwf.
    apply andb_prop in Hwf. destruct Hwf as [Ho _]. unfold wf_opt in Ho. apply andb_prop in Ho. destruct Ho as [Hn _].
    rewrite (write_options_cons o r Hn). destruct (tokb_is_tok _ Hn) as [Hnn _].
    destruct (o_name o); [contradiction|discriminate]. }
  destruct (write_options es) as [|b0 w0] eqn:Ew; [contradiction|]. rewrite <- Ew.
  rewrite (scan_options_written _ (mx_it wanted) es _ Hwf Hne).
  destruct es as [|o r]; [contradiction|]. cbn [opts_calls]. rewrite run_calls_app, mx_first.
  pose proof (mx_rest_bad wanted r (0 + 1) (Some 0) o recv ltac:(cbn; lia) ltac:(lia) Hall) as F.
  set (a := fst (run_calls mx_acc (mx_it wanted) (opts_calls (0 + 1) r) (mkMx (Some 0) o recv false))) in *.
  cbn [negb]. unfold mx_final in F. destruct (mx_match wanted a) as [a' m].
  destruct m; cbn [negb] in *; [|reflexivity].
  destruct (mx_err_flag a'); [reflexivity|discriminate].
Qed.
