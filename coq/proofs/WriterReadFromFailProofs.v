(* WriterReadFromFailProofs.v — C06, ReadFrom from a source that FAILS (defect F21):
   the bytes accepted before the failure are part of the message, what has left are
   whole non-final fragments, and the next Flush ends the message with a final frame.
   State-level theorem for every working writer state, then the same for whole
   histories: a failing source is judged by the history monitor exactly like a source
   that ends with io.EOF after the same bytes. *)
Require Import Bytes Stream Check Frame Cipher Extracted Writer WriterRF
  BytesProofs StreamProofs FrameProofs CipherProofs CheckProofs WriterProofs WriterInv WriterFrameProofs
  WriterHistProofs.
From Coq Require Import ZifyBool ZifyN ZifyNat.
Open Scope N_scope.

(* ------------------------------------------------------------------ one ReadFrom, then Flush *)
Section OneMessage.
Variables (client : bool) (op : N) (comp : bool).

(* [cur] = the fragments of the open message sent before (none when w_fseq w = 0) *)
Lemma read_from_fail_then_flush_C w cur s :
  Cst client op comp w ->
  msg_frames_ok client op comp true cur = true -> w_fseq w = len cur ->
  wf_src s -> wf_bytes (flat s) -> tl s = TFail ->
  2 * (14 + 2 * (len (w_buf w) + len (flat s))) <= max_int ->
  exists w1 s1 fs,
    read_from s w = (inr (len (flat s), Some WDest), w1, s1) /\
    w_err w1 = None /\
    log_bytes (w_dest w1) = log_bytes (w_dest w) ++ wire fs /\
    Forall wf_pframe fs /\ Forall nonfin fs /\
    msg_frames_ok client op comp true (cur ++ fs) = true /\
    msg_payload fs ++ w_buf w1 = w_buf w ++ flat s /\
    (w_dirty w = true \/ flat s <> [] ->
     exists f w2,
       flush w1 = (inr None, w2) /\
       log_bytes (w_dest w2) = log_bytes (w_dest w) ++ wire (fs ++ [f]) /\
       wf_pframe f /\ h_fin (pf_header f) = true /\
       msg_frames_ok client op comp true (cur ++ fs ++ [f]) = true /\
       msg_payload (cur ++ fs ++ [f]) = msg_payload cur ++ w_buf w ++ flat s /\
       w_buf w2 = [] /\ w_dirty w2 = false /\ w_fseq w2 = 0 /\ w_err w2 = None).
Proof.
  intros Hc Hcur Hseq Hs Hwf Htl Hb.
  destruct (read_from_G client op comp s w Hc Hs Hwf Hb) as (w1 & s1 & fs & Hr & Hst & Hd).
  unfold rf_err in Hr. rewrite Htl in Hr.
  pose proof (s_cst _ _ _ _ _ _ _ Hst) as Hc1.
  destruct (gchain_wf client op comp _ _ (s_chain _ _ _ _ _ _ _ Hst)) as [Hfwf Hfnf].
  assert (Hok1: msg_frames_ok client op comp true (cur ++ fs) = true).
  { apply mfo_extend; [assumption|]. rewrite <- Hseq. apply (s_chain _ _ _ _ _ _ _ Hst). }
  exists w1, s1, fs.
  split; [exact Hr|]. split; [apply (c_err _ _ _ _ Hc1)|]. split; [apply (s_log _ _ _ _ _ _ _ Hst)|].
  split; [assumption|]. split; [assumption|]. split; [assumption|].
  split; [exact (s_data _ _ _ _ _ _ _ Hst)|].
  intros Hcase.
  assert (Hd1: w_dirty w1 = true).
  { destruct Hcase as [Hx|Hx]; [exact (s_dirty _ _ _ _ _ _ _ Hst Hx)|]. apply Hd. right.
    destruct (flat s); [congruence|rewrite len_cons; lia]. }
  pose proof (flush_C client op comp w1 Hc1 (or_introl Hd1)) as Hfl.
  destruct (flush_fragment_raw_C client op comp true w1 Hc1) as [_ Hg].
  set (f := out_frame w1 true (w_rsv w1) (w_buf w1)) in *.
  set (w2 := with_flush_result (sent1 w1 f) None true) in *.
  exists f, w2.
  split; [exact Hfl|].
  split.
  { subst w2. unfold sent1, with_dest. wsimpl. rewrite log_bytes_push by apply (c_dest _ _ _ _ Hc1).
    rewrite (s_log _ _ _ _ _ _ _ Hst), wire_snoc, app_assoc. reflexivity. }
  split; [apply Hg|]. split; [apply Hg|].
  split.
  { rewrite app_assoc, mfo_app, Hok1. cbn [andb msg_frames_ok]. rewrite andb_true_r.
    assert (Hseq1: w_fseq w1 = len (cur ++ fs)) by (rewrite (s_fseq _ _ _ _ _ _ _ Hst), Hseq, len_app; reflexivity).
    rewrite Hseq1 in Hg. pose proof (gframe_check client op comp _ _ _ Hg) as Hk.
    destruct (cur ++ fs) as [|x l]; [exact Hk|]. rewrite len_cons in Hk.
    replace (1 + len l =? 0) with false in Hk by lia. exact Hk. }
  split.
  { rewrite !msg_payload_app. unfold msg_payload at 3. cbn [map concat]. rewrite app_nil_r.
    subst f. rewrite out_frame_unmasked. f_equal. exact (s_data _ _ _ _ _ _ _ Hst). }
  repeat split.
Qed.
End OneMessage.

(* the statement with the hypotheses spelled out *)
Theorem read_from_fail_then_flush : forall w cur s comp,
  writer_inv w -> wf_writer w -> w_err w = None -> d_fail_at (w_dest w) = None ->
  ((w_exts w = [] /\ comp = false) \/ w_exts w = [comp]) ->
  msg_frames_ok (client_side (w_state w)) (w_op w) comp true cur = true -> w_fseq w = len cur ->
  wf_src s -> wf_bytes (flat s) -> tl s = TFail ->
  2 * (14 + 2 * (len (w_buf w) + len (flat s))) <= max_int ->
  exists w1 s1 fs,
    read_from s w = (inr (len (flat s), Some WDest), w1, s1) /\
    w_err w1 = None /\
    log_bytes (w_dest w1) = log_bytes (w_dest w) ++ wire fs /\
    Forall wf_pframe fs /\ Forall (fun f => h_fin (pf_header f) = false) fs /\
    msg_frames_ok (client_side (w_state w)) (w_op w) comp true (cur ++ fs) = true /\
    msg_payload fs ++ w_buf w1 = w_buf w ++ flat s /\
    (w_dirty w = true \/ flat s <> [] ->
     exists f w2,
       flush w1 = (inr None, w2) /\
       log_bytes (w_dest w2) = log_bytes (w_dest w) ++ wire (fs ++ [f]) /\
       wf_pframe f /\ h_fin (pf_header f) = true /\
       msg_frames_ok (client_side (w_state w)) (w_op w) comp true (cur ++ fs ++ [f]) = true /\
       msg_payload (cur ++ fs ++ [f]) = msg_payload cur ++ w_buf w ++ flat s /\
       w_buf w2 = [] /\ w_dirty w2 = false /\ w_fseq w2 = 0 /\ w_err w2 = None).
Proof.
  intros w cur s comp Hi Hw He Hd Hx Hcur Hseq Hs Hwf Htl Hb.
  apply (read_from_fail_then_flush_C (client_side (w_state w)) (w_op w) comp w cur s); try assumption.
  constructor; try assumption; reflexivity.
Qed.

(* ------------------------------------------------------------------ a failing source behaves like EOF *)
(* same chunks, other tail *)
Definition with_tl (s : src) (t : tail) : src := mkSrc (chunks s) t.

Definition res_sim (r1 r2 : wpanic + (N * option werror)) : Prop :=
  match r1, r2 with
  | inl p, inl q => p = q
  | inr (n1, _), inr (n2, _) => n1 = n2
  | _, _ => False
  end.

Lemma flush_fragment_dirty w : w_dirty (snd (flush_fragment w)) = w_dirty w.
Proof.
  unfold flush_fragment. destruct (_ || _); [reflexivity|].
  unfold flush_fragment_raw. destruct (set_bits _ _); [|reflexivity].
  destruct (if client_side (w_state w) then take_mask w else _) as [key masks'].
  destruct (_ <? _); [reflexivity|]. destruct (write_header _); [reflexivity|].
  destruct (dest_write _ _) as [ok d']. reflexivity.
Qed.

(* once the message is dirty, or as long as the source still has a byte to give, the
   two loops go through the same writer states and return the same count *)
Lemma read_from_loop_fail_eof fuel : forall cs total w,
  (w_dirty w = true \/ concat cs <> []) ->
  snd (fst (read_from_loop fuel (mkSrc cs TFail) total w)) = snd (fst (read_from_loop fuel (mkSrc cs TEOF) total w)) /\
  res_sim (fst (fst (read_from_loop fuel (mkSrc cs TFail) total w))) (fst (fst (read_from_loop fuel (mkSrc cs TEOF) total w))).
Proof.
  induction fuel as [|f IH]; intros cs total w Hd; [split; reflexivity|].
  cbn [read_from_loop]. destruct (w_available w =? 0).
  - destruct (w_noflush w).
    + destruct (grow_same (w_n w) w) as (_ & _ & _ & _ & _ & _ & _ & _ & Hgd & _).
      destruct (grow (w_n w) w) as [[pn|[e|]] w1]; cbn [fst snd] in *; [split; reflexivity|split; reflexivity|].
      apply IH. rewrite Hgd. exact Hd.
    + pose proof (flush_fragment_dirty w) as Hfd.
      destruct (flush_fragment w) as [[pn|[e|]] w1]; cbn [fst snd] in *; [split; reflexivity|split; reflexivity|].
      apply IH. rewrite Hfd. exact Hd.
  - unfold read1. cbn [chunks tl]. destruct cs as [|c cs'].
    + cbn [fst snd]. destruct Hd as [Hd|Hd]; [|cbn in Hd; congruence].
      split; [|reflexivity]. unfold set_buf. cbn [w_dest w_state w_op w_exts w_noflush w_rawlen w_buflen w_buf w_dirty w_fseq w_err w_masks].
      rewrite Hd. reflexivity.
    + destruct (w_available w <? len c).
      * apply IH. wsimpl. destruct Hd as [->|Hd]; [left; reflexivity|].
        destruct (take (w_available w) c) as [|x l] eqn:Et.
        -- right. cbn [concat] in *. rewrite <- (take_drop (w_available w) c), Et in Hd. exact Hd.
        -- left. rewrite len_cons. replace (0 <? 1 + len l) with true by lia. apply orb_true_r.
      * apply IH. wsimpl. destruct Hd as [->|Hd]; [left; reflexivity|].
        destruct c as [|x l].
        -- right. exact Hd.
        -- left. rewrite len_cons. replace (0 <? 1 + len l) with true by lia. apply orb_true_r.
Qed.

(* ReadFrom(failing source) = ReadFrom(the same bytes, then io.EOF) but for the error it
   reports, whenever at least one byte is delivered or the message is dirty already *)
Lemma read_from_fail_as_eof data sizes w : (w_dirty w = true \/ data <> []) ->
  snd (fst (read_from (fail_src data sizes) w)) = snd (fst (read_from (mkSrc (chunk_by sizes data) TEOF) w)) /\
  res_sim (fst (fst (read_from (fail_src data sizes) w))) (fst (fst (read_from (mkSrc (chunk_by sizes data) TEOF) w))).
Proof.
  intros Hd. unfold read_from, fail_src. unfold flat. cbn [chunks].
  apply read_from_loop_fail_eof. rewrite chunk_by_flat. exact Hd.
Qed.

(* the same, with the results side by side: every writer state, failing destinations,
   panics and disabled flushing included *)
Lemma read_from_failing_source_as_eof : forall data sizes w, w_dirty w = true \/ data <> [] ->
  let '(r1, w1, _) := read_from (mkSrc (chunk_by sizes data) TFail) w in
  let '(r2, w2, _) := read_from (mkSrc (chunk_by sizes data) TEOF) w in
  w1 = w2 /\
  match r1, r2 with
  | inl p1, inl p2 => p1 = p2
  | inr (n1, _), inr (n2, _) => n1 = n2
  | _, _ => False
  end.
Proof.
  intros data sizes w Hd. destruct (read_from_fail_as_eof data sizes w Hd) as [Hw Hr]. unfold fail_src in *.
  destruct (read_from (mkSrc (chunk_by sizes data) TFail) w) as [[r1 w1] s1].
  destruct (read_from (mkSrc (chunk_by sizes data) TEOF) w) as [[r2 w2] s2].
  split; [exact Hw|exact Hr].
Qed.

(* ------------------------------------------------------------------ whole histories *)
Lemma run_wops_single o w : run_wops [o] w = ([fst (fst (run_op o w))], snd (fst (run_op o w))).
Proof. rewrite run_wops_cons. destruct (run_op o w) as [[ob w1] stop]. destruct stop; reflexivity. Qed.

Lemma run_op_stop o w : snd (run_op o w) = match o_panic (fst (fst (run_op o w))) with Some _ => true | None => false end.
Proof.
  destruct o as [p|data sizes|p| | |n| |xs|st o|o]; cbn [run_op].
  - destruct (write p w) as [[pn|[n e]] w1]; reflexivity.
  - destruct (read_from _ w) as [[[pn|[n e]] w1] s']; reflexivity.
  - destruct (write_through p w) as [[n e] w1]; reflexivity.
  - destruct (flush_fragment w) as [[pn|e] w1]; reflexivity.
  - destruct (flush w) as [[pn|e] w1]; reflexivity.
  - destruct (grow n w) as [[pn|e] w1]; reflexivity.
  - reflexivity.
  - reflexivity.
  - destruct (reset_writer _ _ _ _); reflexivity.
  - reflexivity.
Qed.

(* a failing ReadFrom of the history delivers at least one byte *)
Definition delivers (o : wopx) : Prop := match o with XOp _ => True | XReadFromFail data _ => data <> [] end.

Lemma run_wopsx_as_eof : forall xs w, Forall delivers xs ->
  snd (run_wopsx xs w) = snd (run_wops (map as_eof xs) w) /\
  map noerr (fst (run_wopsx xs w)) = map noerr (fst (run_wops (map as_eof xs) w)).
Proof.
  induction xs as [|x rest IH]; intros w Hx; [split; reflexivity|].
  inversion Hx as [|? ? Hx1 Hx2]; subst. cbn [map]. rewrite run_wops_cons.
  destruct x as [o|data sizes]; cbn [run_wopsx as_eof].
  - rewrite run_wops_single. pose proof (run_op_stop o w) as Hstop.
    destruct (run_op o w) as [[ob w1] stop]. cbn [fst snd] in *. subst stop.
    destruct (o_panic ob); [split; reflexivity|].
    specialize (IH w1 Hx2). destruct (run_wopsx rest w1) as [os w2]. destruct (run_wops (map as_eof rest) w1) as [os' w2'].
    cbn [fst snd map] in *. destruct IH as [-> ->]. split; reflexivity.
  - cbn [run_op delivers] in *.
    destruct (read_from_fail_as_eof data sizes w (or_intror Hx1)) as [Hw Hr].
    destruct (read_from (fail_src data sizes) w) as [[r1 w1] s1].
    destruct (read_from (mkSrc (chunk_by sizes data) TEOF) w) as [[r2 w1'] s2].
    cbn [fst snd] in Hw, Hr. subst w1'.
    destruct r1 as [p1|[n1 e1]]; destruct r2 as [p2|[n2 e2]]; cbn [res_sim] in Hr; try contradiction; subst.
    + split; reflexivity.
    + specialize (IH w1 Hx2). destruct (run_wopsx rest w1) as [os w2]. destruct (run_wops (map as_eof rest) w1) as [os' w2'].
      cbn [fst snd map] in *. destruct IH as [-> ->]. split; reflexivity.
Qed.

(* ------------------------------------------------------------------ the monitor never looks at the error value *)
Definition noerr_step (st : wstep) : wstep := mkStep (s_op st) (noerr (s_obs st)).

Lemma steps_of_noerr : forall ops obs, steps_of ops (map noerr obs) = map noerr_step (steps_of ops obs).
Proof.
  induction ops as [|o ops IH]; intros obs; [reflexivity|]. destruct obs as [|x xs]; [reflexivity|].
  cbn [map]. rewrite !steps_of_cons. cbn [map]. rewrite IH. reflexivity.
Qed.

Lemma aligned_noerr log : forall steps, aligned_at_ops (map noerr_step steps) log = aligned_at_ops steps log.
Proof. induction steps as [|st r IH]; [reflexivity|]. cbn [map aligned_at_ops]. rewrite IH. reflexivity. Qed.

Lemma walk_noerr : forall steps msgs pending acc cb ss plain nfl nfm,
  walk_history (map noerr_step steps) msgs pending acc cb ss plain nfl nfm =
  walk_history steps msgs pending acc cb ss plain nfl nfm.
Proof.
  induction steps as [|st r IH]; intros; [reflexivity|].
  cbn [map walk_history]. unfold accepted_of. cbn [noerr_step noerr s_op s_obs o_n o_calls o_size].
  destruct (s_op st); rewrite ?IH; try reflexivity.
  - destruct pending; [destruct msgs as [|m ms]; [reflexivity|]|]; rewrite ?IH; reflexivity.
Qed.

Lemma last_buffered_noerr steps : last_buffered (map noerr_step steps) = last_buffered steps.
Proof.
  unfold last_buffered. rewrite !rev_append_rev, !app_nil_r, <- map_rev.
  destruct (rev steps); reflexivity.
Qed.

Lemma c06_monitor_noerr client op comp size0 steps log :
  c06_monitor client op comp size0 (map noerr_step steps) log = c06_monitor client op comp size0 steps log.
Proof.
  unfold c06_monitor. destruct (frames_of (concat log)); [|reflexivity].
  destruct (split_messages l []) as [msgs tailf].
  rewrite aligned_noerr, walk_noerr, last_buffered_noerr. reflexivity.
Qed.

(* ------------------------------------------------------------------ C06 for histories with failing sources *)
Definition c06_opx (o : wopx) : Prop :=
  match o with
  | XOp o => c06_op o
  | XReadFromFail data _ => wf_bytes data /\ data <> []
  end.

Lemma c06_opx_op x : c06_opx x -> c06_op (as_eof x).
Proof. destruct x; cbn; [auto|]. intros [H _]. exact H. Qed.

Lemma c06_opx_delivers x : c06_opx x -> delivers x.
Proof. destruct x; cbn; [auto|]. intros [_ H]. exact H. Qed.

Theorem c06_monitor_holds_failing_sources xs w0 comp :
  writer_inv w0 -> fresh_writer w0 -> w_op w0 < 16 -> masks_ok w0 -> exts_comp (w_exts w0) comp ->
  Forall c06_opx xs -> 28 + 4 * ops_cost (map as_eof xs) <= max_int ->
  c06_monitor (client_side (w_state w0)) (w_op w0) comp (w_buflen w0)
    (steps_of (map as_eof xs) (fst (run_wopsx xs w0))) (dest_log (w_dest (snd (run_wopsx xs w0)))) = true.
Proof.
  intros Hi Hf Ho Hm Hx Hops Hbud.
  destruct (run_wopsx_as_eof xs w0 (Forall_impl _ c06_opx_delivers Hops)) as [Hw Hobs].
  rewrite Hw. rewrite <- c06_monitor_noerr, <- steps_of_noerr, Hobs, steps_of_noerr, c06_monitor_noerr.
  apply c06_monitor_holds; try assumption.
  clear -Hops. induction Hops as [|x l H1 H2 IH]; constructor; [apply c06_opx_op; assumption|assumption].
Qed.

(* ------------------------------------------------------------------ the instance of defect F21 *)
(* NewWriterSize(4), server side, text: ReadFrom(4 bytes, then a failure); Flush;
   Write(4 bytes); Flush.  On the wire: 01 04 abcd | 80 00 | 81 04 wxyz — two complete
   messages; the first Flush sends the empty final frame that closes the first one *)
Example read_from_fail_instance :
  match new_writer_size (mkDest [] None) 1 1 4 [] with
  | inr w0 =>
    let xs := [XReadFromFail [97;98;99;100] []; XOp WFlush; XOp (WWrite [119;120;121;122]); XOp WFlush] in
    let '(obs, w1) := run_wopsx xs w0 in
    map o_n obs = [4; 0; 4; 0] /\
    map o_err obs = [Some WDest; None; None; None] /\
    dest_log (w_dest w1) = [[1; 4; 97; 98; 99; 100]; [128; 0]; [129; 4; 119; 120; 121; 122]] /\
    c06_monitor false 1 false (w_buflen w0) (steps_of (map as_eof xs) obs) (dest_log (w_dest w1)) = true
  | inl _ => False
  end.
Proof. vm_compute. repeat split; reflexivity. Qed.
