(* WriterSegProofs.v — C06/C13/C18: the segment monitor of model/WriterSeg.v holds of every
   history of the Writer model over Write/ReadFrom/WriteThrough/FlushFragment/Flush/Grow/
   DisableFlush PLUS SetExtensions (at most one extension, called between two messages)
   PLUS ResetOp (anywhere), from a fresh writer with at most one extension, destination that
   never fails.
   Built on proofs/WriterResetOpProofs.v: a writer at a message boundary is a fresh writer on
   the current destination ([segment_monitor]); here the induction over ANY number of
   segments, the executable segmentation, and the side conditions ([seg_applies] decides
   exactly whether every SetExtensions finds the model at rest). *)
Require Import Bytes Stream Check Frame Cipher Extracted Writer WriterSeg
  BytesProofs StreamProofs FrameProofs CipherProofs CheckProofs WriterProofs WriterInv WriterFrameProofs
  WriterHistProofs WriterResetOpProofs.
From Coq Require Import ZifyBool ZifyN ZifyNat.
Open Scope N_scope.

(* ------------------------------------------------------------------ lists of steps *)
Lemma steps_of_app h1 h2 obs1 obs2 : length obs1 = length h1 ->
  steps_of (h1 ++ h2) (obs1 ++ obs2) = steps_of h1 obs1 ++ steps_of h2 obs2.
Proof.
  revert obs1. induction h1 as [|o h1 IH]; intros [|x obs1] H; cbn [length] in H; try discriminate; [reflexivity|].
  cbn [app]. rewrite !steps_of_cons. cbn [app]. f_equal. apply IH. lia.
Qed.

Lemma map_rebase_steps_of k : forall ops obs,
  map (rebase_step k) (steps_of ops obs) = steps_of ops (map (unshift_calls k) obs).
Proof.
  induction ops as [|o ops IH]; intros [|x obs]; try reflexivity.
  cbn [map]. rewrite !steps_of_cons. cbn [map]. rewrite IH. reflexivity.
Qed.

(* operations that do not end a segment *)
Definition plain_op (o : wop) : Prop := match o with WSetExt _ | WResetOp _ => False | _ => True end.

Lemma seg_walk_plain client op exts size base log : forall steps1 cur rest,
  Forall (fun st => plain_op (s_op st)) steps1 ->
  seg_walk client op exts size base cur (steps1 ++ rest) log =
  seg_walk client op exts size base (rev (map (rebase_step base) steps1) ++ cur) rest log.
Proof.
  induction steps1 as [|st r IH]; intros cur rest H; [reflexivity|].
  inversion H as [|? ? Hp Hr]; subst. cbn [app seg_walk map rev]. rewrite <- app_assoc. cbn [app].
  destruct (s_op st); cbn [plain_op] in Hp; try contradiction; apply IH; assumption.
Qed.

Lemma steps_of_plain : forall ops obs, Forall c06_op ops -> Forall (fun st => plain_op (s_op st)) (steps_of ops obs).
Proof.
  induction ops as [|o ops IH]; intros [|x obs] H; try constructor.
  - inversion H as [|? ? Ho Hr]; subst. cbn [fst snd s_op]. destruct o; cbn in Ho |- *; auto.
  - inversion H; subst. apply IH. assumption.
Qed.

Lemma log_slice_prefix {A} base (L M : list A) : base <= len L ->
  take (len L - base) (drop base (L ++ M)) = drop base L.
Proof.
  intros H. rewrite drop_app_le by assumption. rewrite take_app_le by (rewrite len_drop; lia).
  apply take_all. rewrite len_drop. lia.
Qed.

(* ------------------------------------------------------------------ the running state, whatever opcode and extension *)
Record Good (w : writer) : Prop := {
  g_inv : writer_inv w; g_wf : wf_writer w; g_err : w_err w = None; g_dest : nf (w_dest w);
  g_exts : len (w_exts w) <= 1 }.

Lemma exts_comp_compressed xs : len xs <= 1 -> exts_comp xs (exts_compressed xs).
Proof.
  destruct xs as [|c [|d r]]; intros H.
  - left. split; reflexivity.
  - right. unfold exts_compressed. cbn [existsb]. rewrite orb_false_r. reflexivity.
  - rewrite !len_cons in H. lia.
Qed.

Lemma exts_comp_len xs comp : exts_comp xs comp -> len xs <= 1.
Proof. intros [[-> _]| ->]; cbn; lia. Qed.

Lemma Good_Cst w : Good w -> Cst (client_side (w_state w)) (w_op w) (exts_compressed (w_exts w)) w.
Proof.
  intros [H1 H2 H3 H4 H5]. constructor; try assumption; try reflexivity. apply exts_comp_compressed. assumption.
Qed.

Lemma Cst_Good client op comp w : Cst client op comp w -> Good w.
Proof. intros [H1 H2 H3 H4 H5 H6 H7]. constructor; try assumption. exact (exts_comp_len _ _ H7). Qed.

(* ------------------------------------------------------------------ the alphabet; SetExtensions at rest *)
(* a segment boundary: SetExtensions with at most one extension, ResetOp with a 4-bit opcode *)
Definition bnd_op (x : wop) : Prop :=
  match x with WSetExt xs => len xs <= 1 | WResetOp op' => op' < 16 | _ => False end.
Definition bnd_apply (x : wop) (w : writer) : writer :=
  match x with WSetExt xs => set_extensions xs w | WResetOp op' => reset_op op' w | _ => w end.

(* the C06 alphabet plus the boundaries *)
Definition seg_op (o : wop) : Prop :=
  match o with
  | WSetExt xs => len xs <= 1
  | WResetOp op' => op' < 16
  | WReset _ _ => False
  | _ => c06_op o
  end.

(* between two messages: nothing buffered, nothing written since the last final flush,
   no fragment of an open message sent *)
Definition at_rest (w : writer) : Prop := w_buf w = [] /\ w_dirty w = false /\ w_fseq w = 0.

(* every SetExtensions of the history finds the model writer at rest *)
Fixpoint set_ext_at_rest (ops : list wop) (w : writer) : Prop :=
  match ops with
  | [] => True
  | o :: rest =>
    (match o with WSetExt _ => at_rest w | _ => True end) /\ set_ext_at_rest rest (snd (fst (run_op o w)))
  end.

Lemma run_op_bnd x w : bnd_op x -> run_op x w = (observe 0 None None (bnd_apply x w), bnd_apply x w, false).
Proof. destruct x; cbn [bnd_op]; try contradiction; reflexivity. Qed.

Lemma bnd_apply_Good x w : bnd_op x -> Good w -> Good (bnd_apply x w).
Proof.
  intros Hx [H1 (Ho & Hb & Hm) H3 H4 H5]. destruct x; cbn [bnd_op bnd_apply] in *; try contradiction.
  - constructor; wsimpl; try assumption.
    + apply set_extensions_inv. assumption.
    + split; [assumption|]. split; assumption.
  - constructor; wsimpl; try assumption.
    + apply reset_op_inv. assumption.
    + split; [assumption|]. split; [constructor|assumption].
Qed.

Lemma bnd_apply_clean x w : bnd_op x -> clean w -> clean (bnd_apply x w).
Proof.
  intros Hx Hc. destruct x; cbn [bnd_op bnd_apply] in *; try contradiction.
  - exact Hc.
  - intros _. split; reflexivity.
Qed.

Lemma split_at_boundary ops : Forall seg_op ops ->
  Forall c06_op ops \/
  exists h1 x h2, ops = h1 ++ x :: h2 /\ Forall c06_op h1 /\ bnd_op x /\ Forall seg_op h2.
Proof.
  induction ops as [|o r IH]; intros H; [left; constructor|].
  inversion H as [|? ? Ho Hr]; subst.
  destruct o as [p|data sizes|p| | |n| |xs|st o|o]; cbn [seg_op] in Ho; try contradiction;
    try (destruct (IH Hr) as [Hall|(h1 & x & h2 & -> & H1 & Hx & H2)];
         [left; constructor; assumption
         |right; eexists (_ :: h1), x, h2; split; [reflexivity|]; split; [constructor; assumption|]; split; assumption]; fail).
  - right. exists [], (WSetExt xs), r. split; [reflexivity|]. split; [constructor|]. split; assumption.
  - right. exists [], (WResetOp o), r. split; [reflexivity|]. split; [constructor|]. split; assumption.
Qed.

(* a run of C06 operations carries the at-rest condition of what follows to its final state *)
Lemma set_ext_prefix client op comp : forall h1 r w, Cst client op comp w -> Forall c06_op h1 ->
  28 + 4 * (len (w_buf w) + ops_cost h1) <= max_int ->
  set_ext_at_rest (h1 ++ r) w -> set_ext_at_rest r (snd (run_wops h1 w)).
Proof.
  induction h1 as [|o h1 IH]; intros r w Hc Hops Hb Hrest; [exact Hrest|].
  inversion Hops as [|? ? Ho Hr]; subst. cbn [ops_cost] in Hb.
  destruct (run_op_C client op comp o w Hc Ho ltac:(lia)) as (o1 & w1 & Hrun & Hc1 & Hl).
  cbn [app set_ext_at_rest] in Hrest. destruct Hrest as [_ Hrest]. rewrite Hrun in Hrest. cbn [fst snd] in Hrest.
  rewrite run_wops_cons, Hrun. specialize (IH r w1 Hc1 Hr ltac:(lia) Hrest).
  destruct (run_wops h1 w1) as [os w2]. exact IH.
Qed.

(* ------------------------------------------------------------------ the verdict: every segment satisfies the history monitor *)
Lemma exts_comp_eq xs comp : exts_comp xs comp -> exts_compressed xs = comp.
Proof. intros [[-> ->]| ->]; [reflexivity|]. unfold exts_compressed. cbn [existsb]. apply orb_false_r. Qed.

(* [exts] = the list the segmentation tracks; only its compressed flag matters *)
Lemma seg_run : forall n ops ws exts, (length ops <= n)%nat ->
  Good ws -> boundary ws -> Forall seg_op ops -> set_ext_at_rest ops ws ->
  28 + 4 * ops_cost ops <= max_int -> exts_compressed exts = exts_compressed (w_exts ws) ->
  seg_walk (client_side (w_state ws)) (w_op ws) exts (w_buflen ws) (dest_ncalls (w_dest ws)) []
    (steps_of ops (fst (run_wops ops ws))) (dest_log (w_dest (snd (run_wops ops ws)))) = true.
Proof.
  induction n as [|n IH]; intros ops ws exts Hn HG Hb Hops Hrest Hbud Hex.
  { destruct ops; [|cbn [length] in Hn; lia]. cbn [run_wops fst snd].
    change (steps_of [] []) with (@nil wstep). cbn [seg_walk rev]. rewrite Hex.
    pose proof (segment_monitor [] ws (exts_compressed (w_exts ws)) (g_inv ws HG) Hb (g_dest ws HG)) as H.
    destruct (g_wf ws HG) as (Ho & _ & Hm).
    apply H; try assumption; [apply exts_comp_compressed, (g_exts ws HG)|constructor]. }
  destruct (g_wf ws HG) as (Ho & _ & Hm).
  pose proof (exts_comp_compressed _ (g_exts ws HG)) as Hx.
  destruct (split_at_boundary ops Hops) as [Hall|(h1 & x & h2 & -> & H1 & Hxb & H2)].
  - (* one segment *)
    rewrite <- (app_nil_r (steps_of ops _)). rewrite seg_walk_plain by (apply steps_of_plain; assumption).
    cbn [seg_walk]. rewrite app_nil_r, rev_involutive, map_rebase_steps_of, Hex.
    apply (segment_monitor ops ws (exts_compressed (w_exts ws))); try assumption.
    + exact (g_inv ws HG).
    + exact (g_dest ws HG).
  - (* h1, a boundary call, the rest *)
    pose proof (Good_Cst ws HG) as Hc.
    rewrite ops_cost_app in Hbud. cbn [ops_cost] in Hbud.
    destruct (run_wops_app_C _ _ _ h1 (x :: h2) ws Hc H1) as (E & Hc1 & Hlen & _).
    { rewrite (b_buf ws Hb), len_nil. lia. }
    assert (Hrest1: set_ext_at_rest (x :: h2) (snd (run_wops h1 ws))).
    { apply (set_ext_prefix _ _ _ h1 (x :: h2) ws Hc H1); [rewrite (b_buf ws Hb), len_nil; lia|assumption]. }
    pose proof (segment_monitor h1 ws (exts_compressed (w_exts ws)) (g_inv ws HG) Hb (g_dest ws HG) Ho Hm Hx H1 ltac:(lia)) as Hseg.
    cbv zeta in Hseg.
    destruct (segment_as_fresh h1 ws (g_dest ws HG)) as (Hlog1 & _ & _). cbv zeta in Hlog1.
    pose proof (segment_as_fresh (x :: h2) (snd (run_wops h1 ws)) (c_dest _ _ _ _ Hc1)) as (Hlog2 & _ & _). cbv zeta in Hlog2.
    rewrite E in *. clear E. cbn [fst snd].
    set (w1 := snd (run_wops h1 ws)) in *. set (obs1 := fst (run_wops h1 ws)) in *.
    rewrite run_wops_cons, (run_op_bnd x w1 Hxb) in *.
    cbn [set_ext_at_rest] in Hrest1. rewrite (run_op_bnd x w1 Hxb) in Hrest1. cbn [fst snd] in Hrest1.
    destruct Hrest1 as [Hat Hrest2].
    set (wx := bnd_apply x w1) in *.
    pose proof (Cst_Good _ _ _ _ Hc1) as HG1.
    pose proof (bnd_apply_Good x w1 Hxb HG1) as HGx. fold wx in HGx.
    assert (Hbx: boundary wx).
    { subst wx. destruct x; cbn [bnd_op bnd_apply] in *; try contradiction.
      - destruct Hat as (A1 & A2 & A3). apply set_extensions_boundary. constructor; try assumption. exact (g_err _ HG1).
      - apply reset_op_boundary. exact (g_err _ HG1). }
    assert (Hn2: (length h2 <= n)%nat) by (rewrite app_length in Hn; cbn [length] in Hn; lia).
    pose proof (IH h2 wx) as IHx. clear IH.
    destruct (run_wops h2 wx) as [obs2 w2] eqn:E2. cbn [fst snd] in Hlog2 |- *.
    rewrite steps_of_app by exact Hlen. rewrite steps_of_cons.
    rewrite seg_walk_plain by (apply steps_of_plain; assumption). rewrite app_nil_r.
    assert (Hk: dest_ncalls (w_dest ws) <= len (dest_log (w_dest w1))).
    { rewrite Hlog1, len_app, dest_log_len. lia. }
    assert (Hslice: log_slice (dest_ncalls (w_dest ws)) (dest_ncalls (w_dest w1)) (dest_log (w_dest w2))
                    = drop (dest_ncalls (w_dest ws)) (dest_log (w_dest w1))).
    { unfold log_slice. rewrite Hlog2, <- dest_log_len. apply log_slice_prefix. exact Hk. }
    assert (Hmon: c06_monitor (client_side (w_state ws)) (w_op ws) (exts_compressed (w_exts ws)) (w_buflen ws)
                    (rev (rev (map (rebase_step (dest_ncalls (w_dest ws))) (steps_of h1 obs1))))
                    (log_slice (dest_ncalls (w_dest ws)) (dest_ncalls (w_dest w1)) (dest_log (w_dest w2))) = true).
    { rewrite rev_involutive, map_rebase_steps_of, Hslice. exact Hseg. }
    assert (Ecl: client_side (w_state wx) = client_side (w_state ws)).
    { rewrite <- (c_client _ _ _ _ Hc1). subst wx. destruct x; reflexivity. }
    rewrite Ecl in IHx.
    subst wx. destruct x as [p|data sizes|p| | |k| |xs|st o|o]; cbn [bnd_op bnd_apply] in *; try contradiction.
    + (* SetExtensions *)
      cbn [seg_walk s_op s_obs]. cbn [observe o_calls o_size].
      change (w_dest (set_extensions xs w1)) with (w_dest w1).
      rewrite Hex, Hmon. cbn [andb].
      specialize (IHx xs Hn2 HGx Hbx H2 Hrest2 ltac:(lia) eq_refl).
      try rewrite E2 in IHx. cbn [fst snd] in IHx.
      change (w_op (set_extensions xs w1)) with (w_op w1) in IHx. rewrite (c_op _ _ _ _ Hc1) in IHx. exact IHx.
    + (* ResetOp *)
      cbn [seg_walk s_op s_obs]. cbn [observe o_calls o_size o_buffered].
      change (w_dest (reset_op o w1)) with (w_dest w1).
      rewrite Hex, Hmon. cbn [andb].
      change (w_n (reset_op o w1)) with 0. cbn [N.eqb andb].
      assert (Hex1: exts_compressed exts = exts_compressed (w_exts (reset_op o w1))).
      { rewrite Hex. symmetry. exact (exts_comp_eq _ _ (c_exts _ _ _ _ Hc1)). }
      specialize (IHx exts Hn2 HGx Hbx H2 Hrest2 ltac:(lia) Hex1).
      try rewrite E2 in IHx. cbn [fst snd] in IHx. exact IHx.
Qed.
