(* WriterSegProofs.v — C06/C13/C18: the segment monitor of model/WriterSeg.v holds of every
   history of the Writer model over Write/ReadFrom/WriteThrough/FlushFragment/Flush/Grow/
   DisableFlush PLUS SetExtensions (at most one extension, called between two messages)
   PLUS ResetOp (anywhere), from a fresh writer with at most one extension, destination that
   never fails.
   Built on proofs/WriterResetOpProofs.v: a writer at a message boundary is a fresh writer on
   the current destination ([segment_monitor]); here the induction over ANY number of
   segments, the executable segmentation, and the side conditions ([seg_applies] decides
   exactly whether every SetExtensions finds the model at rest). *)
Require Import Bytes Stream Check Frame Cipher Extracted Writer WriterSeg
  BytesProofs StreamProofs FrameProofs CipherProofs CheckProofs WriterProofs WriterInv WriterFrameProofs
  WriterHistProofs WriterResetOpProofs.
From Coq Require Import ZifyBool ZifyN ZifyNat.
Open Scope N_scope.

(* ------------------------------------------------------------------ lists of steps *)
Lemma steps_of_app h1 h2 obs1 obs2 : length obs1 = length h1 ->
  steps_of (h1 ++ h2) (obs1 ++ obs2) = steps_of h1 obs1 ++ steps_of h2 obs2.
Proof.
  revert obs1. induction h1 as [|o h1 IH]; intros [|x obs1] H; cbn [length] in H; try discriminate; [reflexivity|].
  cbn [app]. rewrite !steps_of_cons. cbn [app]. f_equal. apply IH. lia.
Qed.

Lemma map_rebase_steps_of k : forall ops obs,
  map (rebase_step k) (steps_of ops obs) = steps_of ops (map (unshift_calls k) obs).
Proof.
  induction ops as [|o ops IH]; intros [|x obs]; try reflexivity.
  cbn [map]. rewrite !steps_of_cons. cbn [map]. rewrite IH. reflexivity.
Qed.

(* operations that do not end a segment *)
Definition plain_op (o : wop) : Prop := match o with WSetExt _ | WResetOp _ => False | _ => True end.

Lemma seg_walk_plain client op exts size base log : forall steps1 cur rest,
  Forall (fun st => plain_op (s_op st)) steps1 ->
  seg_walk client op exts size base cur (steps1 ++ rest) log =
  seg_walk client op exts size base (rev (map (rebase_step base) steps1) ++ cur) rest log.
Proof.
  unfold seg_walk.
  induction steps1 as [|st r IH]; intros cur rest H; [reflexivity|].
  inversion H as [|? ? Hp Hr]; subst. cbn [app seg_walk_with map rev]. rewrite <- app_assoc. cbn [app].
  destruct (s_op st); cbn [plain_op] in Hp; try contradiction; apply IH; assumption.
Qed.

Lemma steps_of_plain : forall ops obs, Forall c06_op ops -> Forall (fun st => plain_op (s_op st)) (steps_of ops obs).
Proof.
  induction ops as [|o ops IH]; intros [|x obs] H; try constructor.
  - inversion H as [|? ? Ho Hr]; subst. cbn [fst snd s_op]. destruct o; cbn in Ho |- *; auto.
  - inversion H; subst. apply IH. assumption.
Qed.

Lemma log_slice_prefix {A} base (L M : list A) : base <= len L ->
  take (len L - base) (drop base (L ++ M)) = drop base L.
Proof.
  intros H. rewrite drop_app_le by assumption. rewrite take_app_le by (rewrite len_drop; lia).
  apply take_all. rewrite len_drop. lia.
Qed.

(* ------------------------------------------------------------------ the running state, whatever opcode and extension *)
Record Good (w : writer) : Prop := {
  g_inv : writer_inv w; g_wf : wf_writer w; g_err : w_err w = None; g_dest : nf (w_dest w);
  g_exts : len (w_exts w) <= 1 }.

Lemma exts_comp_compressed xs : len xs <= 1 -> exts_comp xs (exts_compressed xs).
Proof.
  destruct xs as [|c [|d r]]; intros H.
  - left. split; reflexivity.
  - right. unfold exts_compressed. cbn [existsb]. rewrite orb_false_r. reflexivity.
  - rewrite !len_cons in H. lia.
Qed.

Lemma exts_comp_len xs comp : exts_comp xs comp -> len xs <= 1.
Proof. intros [[-> _]| ->]; cbn; lia. Qed.

Lemma Good_Cst w : Good w -> Cst (client_side (w_state w)) (w_op w) (exts_compressed (w_exts w)) w.
Proof.
  intros [H1 H2 H3 H4 H5]. constructor; try assumption; try reflexivity. apply exts_comp_compressed. assumption.
Qed.

Lemma Cst_Good client op comp w : Cst client op comp w -> Good w.
Proof. intros [H1 H2 H3 H4 H5 H6 H7]. constructor; try assumption. exact (exts_comp_len _ _ H7). Qed.

(* ------------------------------------------------------------------ the alphabet; SetExtensions at rest *)
(* a segment boundary: SetExtensions with at most one extension, ResetOp with a 4-bit opcode *)
Definition bnd_op (x : wop) : Prop :=
  match x with WSetExt xs => len xs <= 1 | WResetOp op' => op' < 16 | _ => False end.
Definition bnd_apply (x : wop) (w : writer) : writer :=
  match x with WSetExt xs => set_extensions xs w | WResetOp op' => reset_op op' w | _ => w end.

(* the C06 alphabet plus the boundaries *)
Definition seg_op (o : wop) : Prop :=
  match o with
  | WSetExt xs => len xs <= 1
  | WResetOp op' => op' < 16
  | WReset _ _ => False
  | _ => c06_op o
  end.

(* between two messages: nothing buffered, nothing written since the last final flush,
   no fragment of an open message sent *)
Definition at_rest (w : writer) : Prop := w_buf w = [] /\ w_dirty w = false /\ w_fseq w = 0.

(* every SetExtensions of the history finds the model writer at rest *)
Fixpoint set_ext_at_rest (ops : list wop) (w : writer) : Prop :=
  match ops with
  | [] => True
  | o :: rest =>
    (match o with WSetExt _ => at_rest w | _ => True end) /\ set_ext_at_rest rest (snd (fst (run_op o w)))
  end.

Lemma run_op_bnd x w : bnd_op x -> run_op x w = (observe 0 None None (bnd_apply x w), bnd_apply x w, false).
Proof. destruct x; cbn [bnd_op]; try contradiction; reflexivity. Qed.

Lemma bnd_apply_Good x w : bnd_op x -> Good w -> Good (bnd_apply x w).
Proof.
  intros Hx [H1 (Ho & Hb & Hm) H3 H4 H5]. destruct x; cbn [bnd_op bnd_apply] in *; try contradiction.
  - constructor; wsimpl; try assumption.
    + apply set_extensions_inv. assumption.
    + split; [assumption|]. split; assumption.
  - constructor; wsimpl; try assumption.
    + apply reset_op_inv. assumption.
    + split; [assumption|]. split; [constructor|assumption].
Qed.

Lemma bnd_apply_clean x w : bnd_op x -> clean w -> clean (bnd_apply x w).
Proof.
  intros Hx Hc. destruct x; cbn [bnd_op bnd_apply] in *; try contradiction.
  - exact Hc.
  - intros _. split; reflexivity.
Qed.

Lemma split_at_boundary ops : Forall seg_op ops ->
  Forall c06_op ops \/
  exists h1 x h2, ops = h1 ++ x :: h2 /\ Forall c06_op h1 /\ bnd_op x /\ Forall seg_op h2.
Proof.
  induction ops as [|o r IH]; intros H; [left; constructor|].
  inversion H as [|? ? Ho Hr]; subst.
  destruct o as [p|data sizes|p| | |n| |xs|st o|o]; cbn [seg_op] in Ho; try contradiction;
    try (destruct (IH Hr) as [Hall|(h1 & x & h2 & -> & H1 & Hx & H2)];
         [left; constructor; assumption
         |right; eexists (_ :: h1), x, h2; split; [reflexivity|]; split; [constructor; assumption|]; split; assumption]; fail).
  - right. exists [], (WSetExt xs), r. split; [reflexivity|]. split; [constructor|]. split; assumption.
  - right. exists [], (WResetOp o), r. split; [reflexivity|]. split; [constructor|]. split; assumption.
Qed.

(* a run of C06 operations carries the at-rest condition of what follows to its final state *)
Lemma set_ext_prefix client op comp : forall h1 r w, Cst client op comp w -> Forall c06_op h1 ->
  28 + 4 * (len (w_buf w) + ops_cost h1) <= max_int ->
  set_ext_at_rest (h1 ++ r) w -> set_ext_at_rest r (snd (run_wops h1 w)).
Proof.
  induction h1 as [|o h1 IH]; intros r w Hc Hops Hb Hrest; [exact Hrest|].
  inversion Hops as [|? ? Ho Hr]; subst. cbn [ops_cost] in Hb.
  destruct (run_op_C client op comp o w Hc Ho ltac:(lia)) as (o1 & w1 & Hrun & Hc1 & Hl).
  cbn [app set_ext_at_rest] in Hrest. destruct Hrest as [_ Hrest]. rewrite Hrun in Hrest. cbn [fst snd] in Hrest.
  rewrite run_wops_cons, Hrun. specialize (IH r w1 Hc1 Hr ltac:(lia) Hrest).
  destruct (run_wops h1 w1) as [os w2]. exact IH.
Qed.

(* ------------------------------------------------------------------ the verdict: every segment satisfies the history monitor *)
Lemma exts_comp_eq xs comp : exts_comp xs comp -> exts_compressed xs = comp.
Proof. intros [[-> ->]| ->]; [reflexivity|]. unfold exts_compressed. cbn [existsb]. apply orb_false_r. Qed.

(* [exts] = the list the segmentation tracks; only its compressed flag matters *)
Lemma seg_run : forall n ops ws exts, (length ops <= n)%nat ->
  Good ws -> boundary ws -> Forall seg_op ops -> set_ext_at_rest ops ws ->
  28 + 4 * ops_cost ops <= max_int -> exts_compressed exts = exts_compressed (w_exts ws) ->
  seg_walk (client_side (w_state ws)) (w_op ws) exts (w_buflen ws) (dest_ncalls (w_dest ws)) []
    (steps_of ops (fst (run_wops ops ws))) (dest_log (w_dest (snd (run_wops ops ws)))) = true.
Proof.
  induction n as [|n IH]; intros ops ws exts Hn HG Hb Hops Hrest Hbud Hex.
  { destruct ops; [|cbn [length] in Hn; lia]. cbn [run_wops fst snd].
    change (steps_of [] []) with (@nil wstep). unfold seg_walk. cbn [seg_walk_with rev]. rewrite Hex.
    pose proof (segment_monitor [] ws (exts_compressed (w_exts ws)) (g_inv ws HG) Hb (g_dest ws HG)) as H.
    destruct (g_wf ws HG) as (Ho & _ & Hm).
    apply H; try assumption; [apply exts_comp_compressed, (g_exts ws HG)|constructor]. }
  destruct (g_wf ws HG) as (Ho & _ & Hm).
  pose proof (exts_comp_compressed _ (g_exts ws HG)) as Hx.
  destruct (split_at_boundary ops Hops) as [Hall|(h1 & x & h2 & -> & H1 & Hxb & H2)].
  - (* one segment *)
    rewrite <- (app_nil_r (steps_of ops _)). rewrite seg_walk_plain by (apply steps_of_plain; assumption).
    unfold seg_walk. cbn [seg_walk_with]. rewrite app_nil_r, rev_involutive, map_rebase_steps_of, Hex.
    apply (segment_monitor ops ws (exts_compressed (w_exts ws))); try assumption.
    + exact (g_inv ws HG).
    + exact (g_dest ws HG).
  - (* h1, a boundary call, the rest *)
    pose proof (Good_Cst ws HG) as Hc.
    rewrite ops_cost_app in Hbud. cbn [ops_cost] in Hbud.
    destruct (run_wops_app_C _ _ _ h1 (x :: h2) ws Hc H1) as (E & Hc1 & Hlen & _).
    { rewrite (b_buf ws Hb), len_nil. lia. }
    assert (Hrest1: set_ext_at_rest (x :: h2) (snd (run_wops h1 ws))).
    { apply (set_ext_prefix _ _ _ h1 (x :: h2) ws Hc H1); [rewrite (b_buf ws Hb), len_nil; lia|assumption]. }
    pose proof (segment_monitor h1 ws (exts_compressed (w_exts ws)) (g_inv ws HG) Hb (g_dest ws HG) Ho Hm Hx H1 ltac:(lia)) as Hseg.
    cbv zeta in Hseg.
    destruct (segment_as_fresh h1 ws (g_dest ws HG)) as (Hlog1 & _ & _). cbv zeta in Hlog1.
    pose proof (segment_as_fresh (x :: h2) (snd (run_wops h1 ws)) (c_dest _ _ _ _ Hc1)) as (Hlog2 & _ & _). cbv zeta in Hlog2.
    rewrite E in *. clear E. cbn [fst snd].
    set (w1 := snd (run_wops h1 ws)) in *. set (obs1 := fst (run_wops h1 ws)) in *.
    rewrite run_wops_cons, (run_op_bnd x w1 Hxb) in *.
    cbn [set_ext_at_rest] in Hrest1. rewrite (run_op_bnd x w1 Hxb) in Hrest1. cbn [fst snd] in Hrest1.
    destruct Hrest1 as [Hat Hrest2].
    set (wx := bnd_apply x w1) in *.
    pose proof (Cst_Good _ _ _ _ Hc1) as HG1.
    pose proof (bnd_apply_Good x w1 Hxb HG1) as HGx. fold wx in HGx.
    assert (Hbx: boundary wx).
    { subst wx. destruct x; cbn [bnd_op bnd_apply] in *; try contradiction.
      - destruct Hat as (A1 & A2 & A3). apply set_extensions_boundary. constructor; try assumption. exact (g_err _ HG1).
      - apply reset_op_boundary. exact (g_err _ HG1). }
    assert (Hn2: (length h2 <= n)%nat) by (rewrite app_length in Hn; cbn [length] in Hn; lia).
    pose proof (IH h2 wx) as IHx. clear IH.
    destruct (run_wops h2 wx) as [obs2 w2] eqn:E2. cbn [fst snd] in Hlog2 |- *.
    rewrite steps_of_app by exact Hlen. rewrite steps_of_cons.
    rewrite seg_walk_plain by (apply steps_of_plain; assumption). rewrite app_nil_r.
    assert (Hk: dest_ncalls (w_dest ws) <= len (dest_log (w_dest w1))).
    { rewrite Hlog1, len_app, dest_log_len. lia. }
    assert (Hslice: log_slice (dest_ncalls (w_dest ws)) (dest_ncalls (w_dest w1)) (dest_log (w_dest w2))
                    = drop (dest_ncalls (w_dest ws)) (dest_log (w_dest w1))).
    { unfold log_slice. rewrite Hlog2, <- dest_log_len. apply log_slice_prefix. exact Hk. }
    assert (Hmon: c06_monitor (client_side (w_state ws)) (w_op ws) (exts_compressed (w_exts ws)) (w_buflen ws)
                    (rev (rev (map (rebase_step (dest_ncalls (w_dest ws))) (steps_of h1 obs1))))
                    (log_slice (dest_ncalls (w_dest ws)) (dest_ncalls (w_dest w1)) (dest_log (w_dest w2))) = true).
    { rewrite rev_involutive, map_rebase_steps_of, Hslice. exact Hseg. }
    assert (Ecl: client_side (w_state wx) = client_side (w_state ws)).
    { rewrite <- (c_client _ _ _ _ Hc1). subst wx. destruct x; reflexivity. }
    rewrite Ecl in IHx.
    subst wx. destruct x as [p|data sizes|p| | |k| |xs|st o|o]; cbn [bnd_op bnd_apply] in *; try contradiction.
    + (* SetExtensions *)
      unfold seg_walk in *. cbn [seg_walk_with s_op s_obs]. cbn [observe o_calls o_size].
      change (w_dest (set_extensions xs w1)) with (w_dest w1).
      rewrite Hex, Hmon. cbn [andb].
      specialize (IHx xs Hn2 HGx Hbx H2 Hrest2 ltac:(lia) eq_refl).
      try rewrite E2 in IHx. cbn [fst snd] in IHx.
      change (w_op (set_extensions xs w1)) with (w_op w1) in IHx. rewrite (c_op _ _ _ _ Hc1) in IHx. exact IHx.
    + (* ResetOp *)
      unfold seg_walk in *. cbn [seg_walk_with s_op s_obs]. cbn [observe o_calls o_size o_buffered].
      change (w_dest (reset_op o w1)) with (w_dest w1).
      rewrite Hex, Hmon. cbn [andb].
      change (w_n (reset_op o w1)) with 0. cbn [N.eqb andb].
      assert (Hex1: exts_compressed exts = exts_compressed (w_exts (reset_op o w1))).
      { rewrite Hex. symmetry. exact (exts_comp_eq _ _ (c_exts _ _ _ _ Hc1)). }
      specialize (IHx exts Hn2 HGx Hbx H2 Hrest2 ltac:(lia) Hex1).
      try rewrite E2 in IHx. cbn [fst snd] in IHx. exact IHx.
Qed.

(* ------------------------------------------------------------------ the side conditions *)
(* what an operation of the C06 alphabet does to the dirty flag *)
Definition dirty_after (o : wop) (d : bool) : bool :=
  match o with WWrite _ | WReadFrom _ _ | WWriteThrough _ => true | WFlush => false | _ => d end.

Lemma run_op_dirty client op comp o w : Cst client op comp w -> c06_op o ->
  28 + 4 * (len (w_buf w) + op_cost o) <= max_int -> clean w ->
  w_dirty (snd (fst (run_op o w))) = dirty_after o (w_dirty w) /\
  (o = WFlush -> o_err (fst (fst (run_op o w))) = None /\ o_buffered (fst (fst (run_op o w))) = 0).
Proof.
  intros Hc Ho Hb Hcl. destruct o as [p|data sizes|p| | |n| |xs|st o|o]; cbn [c06_op op_cost run_op dirty_after] in *; try contradiction.
  - destruct (write_C client op comp p w Hc Ho ltac:(lia)) as (w1 & fs & Hw & _ & Hd & _).
    rewrite Hw. cbn [fst snd]. split; [exact Hd|discriminate].
  - destruct (read_from_C client op comp data sizes w Hc Ho ltac:(lia)) as (w1 & s' & fs & Hw & _ & Hd).
    rewrite Hw. cbn [fst snd]. split; [exact Hd|discriminate].
  - destruct Ho as [Hp Hl]. destruct (w_buf w) as [|b0 r0] eqn:Eb.
    + destruct (Step_write_through client op comp p w Hc Eb Hp Hl) as (Hw & _ & Hd).
      rewrite Hw. cbn [fst snd]. split; [exact Hd|discriminate].
    + rewrite (write_through_notempty p w (c_err _ _ _ w Hc)) by (rewrite Eb; discriminate).
      cbn [fst snd]. split; [|discriminate]. destruct (w_dirty w) eqn:Ed; [reflexivity|].
      destruct (Hcl Ed) as [_ Hy]. congruence.
  - destruct (w_buf w) as [|b0 r0] eqn:Eb.
    + unfold flush_fragment, w_n. rewrite Eb, (c_err _ _ _ w Hc). cbn [len length N.of_nat N.eqb orb fst snd].
      split; [reflexivity|discriminate].
    + destruct (Step_flush_fragment client op comp w Hc) as [Hw _]; [rewrite Eb; discriminate|].
      rewrite Hw. cbn [fst snd]. split; [reflexivity|discriminate].
  - destruct (w_dirty w) eqn:Ed; [|destruct (w_buf w) as [|b0 r0] eqn:Eb].
    + rewrite (flush_C client op comp w Hc (or_introl Ed)). cbn [fst snd].
      split; [reflexivity|]. intros _. split; reflexivity.
    + rewrite (flush_nothing w Ed Eb). cbn [fst snd]. split; [exact Ed|]. intros _.
      cbn [observe o_err o_buffered]. split; [exact (c_err _ _ _ w Hc)|]. unfold w_n. rewrite Eb. reflexivity.
    + destruct (Hcl Ed) as [_ Hy]. congruence.
  - destruct (Step_grow client op comp n w Hc ltac:(lia)) as (w1 & Hg & _ & _ & _ & _ & _ & Hd1 & _).
    rewrite Hg. cbn [fst snd]. split; [exact Hd1|discriminate].
  - cbn [fst snd]. split; [reflexivity|discriminate].
Qed.

Lemma at_rest_iff w : clean w -> (at_rest w <-> w_dirty w = false).
Proof.
  intros Hcl. split; [intros (_ & H & _); exact H|]. intros Hd. destruct (Hcl Hd) as [Hf Hb]. repeat split; assumption.
Qed.

(* on the observations of the model, the side conditions of the segmentation say exactly
   that every SetExtensions finds the writer at rest: [rest] = not dirty *)
Lemma applies_iff : forall ops w, Good w -> clean w -> Forall seg_op ops ->
  28 + 4 * (len (w_buf w) + ops_cost ops) <= max_int ->
  (seg_applies (negb (w_dirty w)) (steps_of ops (fst (run_wops ops w))) = true <-> set_ext_at_rest ops w).
Proof.
  induction ops as [|o rest IH]; intros w HG Hcl Hops Hb.
  { cbn. split; auto. }
  inversion Hops as [|? ? Ho Hrest]; subst. cbn [ops_cost] in Hb.
  assert (Hcase: c06_op o \/ bnd_op o).
  { destruct o; cbn [seg_op c06_op bnd_op] in *; auto. }
  destruct Hcase as [Hoc|Hx].
  - pose proof (Good_Cst w HG) as Hc.
    destruct (run_op_C _ _ _ o w Hc Hoc ltac:(lia)) as (o1 & w1 & Hrun & Hc1 & Hl).
    destruct (run_op_clean _ _ _ o w Hc Hoc ltac:(lia) Hcl) as [Hcl1 _].
    destruct (run_op_dirty _ _ _ o w Hc Hoc ltac:(lia) Hcl) as [Hd Hfl].
    assert (Hnr: is_reset o = false) by (destruct o; cbn [c06_op] in Hoc; try contradiction; reflexivity).
    destruct (run_op_A o w (g_inv w HG) Hnr ltac:(lia)) as (o1' & w1' & Hrun' & [Hp _] & _).
    rewrite Hrun in Hrun'. injection Hrun' as <- <-.
    rewrite Hrun in Hcl1, Hd, Hfl. cbn [fst snd] in Hcl1, Hd, Hfl.
    rewrite run_wops_cons, Hrun. specialize (IH w1 (Cst_Good _ _ _ _ Hc1) Hcl1 Hrest ltac:(lia)).
    destruct (run_wops rest w1) as [os w2]. cbn [fst snd] in *. rewrite steps_of_cons.
    cbn [seg_applies s_op s_obs set_ext_at_rest]. rewrite Hp, Hrun. cbn [is_none andb fst snd].
    destruct o as [p|data sizes|p| | |n| |xs|st o|o]; cbn [c06_op dirty_after] in *; try contradiction;
      try (rewrite Hd in IH; cbn [negb] in IH; tauto);
      try (rewrite <- Hd; tauto).
    destruct (Hfl eq_refl) as [-> ->]. cbn [is_none N.eqb andb]. rewrite Hd in IH. cbn [negb] in IH. tauto.
  - rewrite run_wops_cons, (run_op_bnd o w Hx).
    specialize (IH (bnd_apply o w) (bnd_apply_Good o w Hx HG) (bnd_apply_clean o w Hx Hcl) Hrest).
    destruct (run_wops rest (bnd_apply o w)) as [os w2] eqn:E2. cbn [fst snd] in *. rewrite steps_of_cons.
    cbn [seg_applies s_op s_obs set_ext_at_rest observe o_panic is_none andb].
    rewrite (run_op_bnd o w Hx). cbn [fst snd].
    destruct o as [p|data sizes|p| | |n| |xs|st o|o]; cbn [bnd_op bnd_apply op_cost] in *; try contradiction.
    + change (w_dirty (set_extensions xs w)) with (w_dirty w) in IH.
      change (w_buf (set_extensions xs w)) with (w_buf w) in IH. specialize (IH ltac:(lia)).
      rewrite (at_rest_iff w Hcl). replace (len xs <=? 1) with true by lia.
      destruct (w_dirty w); cbn [negb andb] in *; [split; [discriminate|intros [H _]; discriminate]|tauto].
    + change (w_dirty (reset_op o w)) with false in IH. change (w_buf (reset_op o w)) with (@nil byte) in IH.
      rewrite len_nil in IH. specialize (IH ltac:(lia)). cbn [negb] in IH.
      replace (o <? 16) with true by lia. cbn [andb]. tauto.
Qed.

(* ------------------------------------------------------------------ C06 with SetExtensions between messages and ResetOp *)
Theorem c06_segments_hold ops w0 :
  writer_inv w0 -> fresh_writer w0 -> w_op w0 < 16 -> masks_ok w0 ->
  (w_exts w0 = [] \/ exists c, w_exts w0 = [c]) ->
  Forall seg_op ops -> set_ext_at_rest ops w0 -> 28 + 4 * ops_cost ops <= max_int ->
  c06_segments_monitor (client_side (w_state w0)) (w_op w0) (w_exts w0) (w_buflen w0)
    (steps_of ops (fst (run_wops ops w0))) (dest_log (w_dest (snd (run_wops ops w0)))) = true.
Proof.
  intros Hi [F1 F2 F3 F4 F5 F6 F7] Ho Hm Hx Hops Hrest Hbud.
  assert (Hlen: len (w_exts w0) <= 1) by (destruct Hx as [-> |[c ->]]; cbn; lia).
  assert (HG: Good w0).
  { constructor; try assumption. split; [assumption|]. split; [rewrite F1; constructor|assumption]. }
  unfold c06_segments_monitor, c06_segments_apply, c06_segments_verdict.
  replace (len (w_exts w0) <=? 1) with true by lia. cbn [andb].
  apply andb_true_intro. split.
  - pose proof (applies_iff ops w0 HG) as H. rewrite F2 in H. apply H; try assumption.
    + intros _. split; assumption.
    + rewrite F1, len_nil. lia.
  - pose proof (seg_run (length ops) ops w0 (w_exts w0) (le_n _) HG) as H.
    unfold dest_ncalls in H. rewrite F6 in H. apply H; try assumption; try reflexivity.
    constructor; assumption.
Qed.

(* the side conditions are not a restriction on the model side: for EVERY history over the
   extended alphabet they hold of the model's observations exactly when every
   SetExtensions finds the model writer at rest; so whenever the segmentation applies
   to what the model shows, its verdict is true *)
Theorem c06_segments_apply_iff ops w0 :
  writer_inv w0 -> fresh_writer w0 -> w_op w0 < 16 -> masks_ok w0 ->
  (w_exts w0 = [] \/ exists c, w_exts w0 = [c]) ->
  Forall seg_op ops -> 28 + 4 * ops_cost ops <= max_int ->
  (c06_segments_apply (w_exts w0) (steps_of ops (fst (run_wops ops w0))) = true <-> set_ext_at_rest ops w0).
Proof.
  intros Hi [F1 F2 F3 F4 F5 F6 F7] Ho Hm Hx Hops Hbud.
  assert (Hlen: len (w_exts w0) <= 1) by (destruct Hx as [-> |[c ->]]; cbn; lia).
  assert (HG: Good w0).
  { constructor; try assumption. split; [assumption|]. split; [rewrite F1; constructor|assumption]. }
  unfold c06_segments_apply. replace (len (w_exts w0) <=? 1) with true by lia. cbn [andb].
  pose proof (applies_iff ops w0 HG) as H. rewrite F2 in H. apply H; try assumption.
  - intros _. split; assumption.
  - rewrite F1, len_nil. lia.
Qed.

(* ------------------------------------------------------------------ C13, send side *)
Lemma seg_walk_with_impl (j1 j2 : bool -> N -> bool -> N -> list wstep -> list (list byte) -> bool) :
  (forall c o k s st l, j1 c o k s st l = true -> j2 c o k s st l = true) ->
  forall steps client op exts size base cur log,
  seg_walk_with j1 client op exts size base cur steps log = true ->
  seg_walk_with j2 client op exts size base cur steps log = true.
Proof.
  intros Hj. induction steps as [|st r IH]; intros client op exts size base cur log H; cbn [seg_walk_with] in *.
  - apply Hj. exact H.
  - destruct (s_op st); try (apply IH; exact H).
    + apply andb_true_iff in H. destruct H as [H1 H2]. rewrite (Hj _ _ _ _ _ _ H1), (IH _ _ _ _ _ _ _ H2). reflexivity.
    + apply andb_true_iff in H. destruct H as [H12 H3]. apply andb_true_iff in H12. destruct H12 as [H1 H2].
      rewrite (Hj _ _ _ _ _ _ H1), H2, (IH _ _ _ _ _ _ _ H3). reflexivity.
Qed.

Lemma c06_monitor_rsv c o k s st l : c06_monitor c o k s st l = true -> c13_rsv_judge c o k s st l = true.
Proof.
  unfold c06_monitor, c13_rsv_judge. destruct (frames_of (concat l)) as [fs|]; [|auto].
  destruct (split_messages fs []) as [msgs tailf]. intros H.
  apply andb_true_iff in H. destruct H as [H _]. apply andb_true_iff in H. destruct H as [H H3].
  apply andb_true_iff in H. destruct H as [_ H2]. rewrite H2, H3. reflexivity.
Qed.

Theorem c13_segments_hold ops w0 :
  writer_inv w0 -> fresh_writer w0 -> w_op w0 < 16 -> masks_ok w0 ->
  (w_exts w0 = [] \/ exists c, w_exts w0 = [c]) ->
  Forall seg_op ops -> set_ext_at_rest ops w0 -> 28 + 4 * ops_cost ops <= max_int ->
  c13_segments_rsv (client_side (w_state w0)) (w_op w0) (w_exts w0) (w_buflen w0)
    (steps_of ops (fst (run_wops ops w0))) (dest_log (w_dest (snd (run_wops ops w0)))) = true.
Proof.
  intros Hi Hf Ho Hm Hx Hops Hrest Hbud.
  pose proof (c06_segments_hold ops w0 Hi Hf Ho Hm Hx Hops Hrest Hbud) as H.
  unfold c06_segments_monitor in H. apply andb_true_iff in H. destruct H as [_ H].
  unfold c06_segments_verdict, seg_walk in H. unfold c13_segments_rsv.
  exact (seg_walk_with_impl _ _ c06_monitor_rsv _ _ _ _ _ _ _ _ H).
Qed.

(* ... in particular from every constructor, with the extensions attached first *)
Theorem constructors_c06_segments ops state op n masks exts w00 :
  (new_writer_buffer dnil state op n masks = inr w00 \/ new_writer_buffer_size dnil state op n masks = inr w00 \/
   new_writer_size dnil state op n masks = inr w00) ->
  n + 14 <= max_int -> op < 16 -> Forall wf_key masks -> (exts = [] \/ exists c, exts = [c]) ->
  Forall seg_op ops -> 28 + 4 * ops_cost ops <= max_int ->
  let w := set_extensions exts w00 in
  set_ext_at_rest ops w ->
  c06_segments_monitor (client_side state) op exts (w_buflen w)
    (steps_of ops (fst (run_wops ops w))) (dest_log (w_dest (snd (run_wops ops w)))) = true.
Proof.
  intros Hn Hmax Ho Hm Hx Hops Hbud w Hrest.
  destruct (constructors_nwb _ _ _ _ _ _ Hn Hmax) as (rawlen & Hr & Hnwb).
  pose proof (new_writer_buffer_inv _ _ _ _ _ _ Hr Hnwb) as [A1 A2 A3 A4 A5].
  destruct (new_writer_buffer_fresh _ _ _ _ _ _ Hnwb) as (E1 & E2 & E3 & E4 & E5 & E6 & E7 & E8 & E9 & E10).
  pose proof (c06_segments_hold ops w) as H. subst w. wsimpl. rewrite E2, E3 in H. apply H; try assumption.
  - constructor; assumption.
  - constructor; wsimpl; try assumption; rewrite E1; reflexivity.
  - unfold masks_ok. wsimpl. rewrite E10. assumption.
Qed.
