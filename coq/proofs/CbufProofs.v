(* CbufProofs.v — the step invariant of cbuf.Write (model/Flate.v), by exhaustive case
   analysis on the at most four withheld and at most four new bytes. *)
Require Import Bytes FlateAux Check Inflate Flate.
From Coq Require Import ZifyBool ZifyN ZifyNat.
Open Scope N_scope.

(* ================= cbuf ================= *)
Definition cb_inv (c : cbuf) (s : list byte) : Prop :=
  cb_err c = false /\ d_left (cb_dst c) = None /\
  exists held, s = d_flat (cb_dst c) ++ held /\ length held = Nat.min 4 (length s)
    /\ cb_n c = length held /\ cb_buf c = held ++ repeat 0 (4 - length held).

Lemma d_flat_write log p : d_flat (mkDst (log ++ [p]) None) = concat log ++ p.
Proof. unfold d_flat. cbn [d_log]. rewrite concat_app. cbn [concat]. rewrite app_nil_r. reflexivity. Qed.

Lemma list_le4 {A} (l : list A) : (length l <= 4)%nat ->
  l = [] \/ (exists a, l = [a]) \/ (exists a b, l = [a; b]) \/ (exists a b c, l = [a; b; c])
  \/ (exists a b c d, l = [a; b; c; d]).
Proof.
  destruct l as [|a [|b [|c [|d [|e r]]]]]; cbn [length]; intros H; eauto 10.
  exfalso. lia.
Qed.
Lemma list_eq4 {A} (l : list A) : length l = 4%nat -> exists a b c d, l = [a; b; c; d].
Proof.
  destruct l as [|a [|b [|c [|d [|e r]]]]]; cbn [length]; intros H; try discriminate H. eauto.
Qed.

Ltac inv_close :=
  repeat split; try reflexivity;
  eexists; repeat split;
  try (cbn [d_flat d_log cb_dst]; rewrite ?concat_app; cbn [concat app]; rewrite ?app_nil_r, <- ?app_assoc; cbn [app]; reflexivity);
  try reflexivity.

Lemma cbuf_write_inv c s p : cb_inv c s ->
  cb_inv (fst (cbuf_write c p)) (s ++ p) /\ snd (cbuf_write c p) = (length p, false).
Proof.
  destruct c as [buf n [log left] e]. unfold cb_inv. cbn [cb_err cb_dst cb_n cb_buf d_left].
  intros [-> [-> [held [Hs [Hl [-> ->]]]]]].
  assert (Hh4 : (length held <= 4)%nat) by lia.
  unfold cbuf_write. cbn [cb_err]. unfold cb_split.
  destruct (4 <? length p)%nat eqn:Hp.
  - (* more than four bytes: everything held and the head go out, the last four are kept *)
    apply Nat.ltb_lt in Hp.
    pose proof (firstn_skipn (length p - 4) p) as Hsplit.
    assert (Ht : length (skipn (length p - 4) p) = 4%nat) by (rewrite skipn_length; lia).
    assert (Hhd : (0 < length (firstn (length p - 4) p))%nat) by (rewrite firstn_length; lia).
    destruct (list_eq4 _ Ht) as [t1 [t2 [t3 [t4 Et]]]].
    remember (firstn (length p - 4) p) as head eqn:Ehead. rewrite Et in *. clear Ht Ehead.
    destruct head as [|h0 hr]; [cbn [length] in Hhd; lia|].
    assert (Hpl : length p = (length (h0 :: hr) + 4)%nat) by (rewrite <- Hsplit, app_length; reflexivity).
    assert (Hss : s ++ p = (concat log ++ held ++ h0 :: hr) ++ [t1; t2; t3; t4]).
    { rewrite Hs, <- Hsplit. unfold d_flat. cbn [d_log]. rewrite <- !app_assoc. reflexivity. }
    assert (Hm : Nat.min 4 (length (s ++ p)) = 4%nat) by (rewrite app_length; lia).
    rewrite Hss in *. rewrite Hm.
    destruct (list_le4 held Hh4) as [->|[[a ->]|[[a [b ->]]|[[a [b [c ->]]]|[a [b [c [d ->]]]]]]]];
      cbn [length Nat.add Nat.ltb Nat.leb Nat.sub firstn skipn app repeat cb_flush cb_err cb_dst cb_buf cb_n dst_write d_left
           copy_into fst snd Nat.min d_log];
      (split; [|rewrite Hpl; reflexivity]);
      (split; [reflexivity|split; [reflexivity|]]);
      exists [t1; t2; t3; t4];
      (split; [unfold d_flat; cbn [d_log]; rewrite ?concat_app; cbn [concat app]; rewrite ?app_nil_r, <- ?app_assoc; reflexivity|]);
      (split; [reflexivity|split; reflexivity]).
  - (* at most four bytes *)
    apply Nat.ltb_ge in Hp.
    assert (Hfl : (length held < 4)%nat -> log = [] \/ concat log = []).
    { intros H. right. rewrite Hs in Hl. unfold d_flat in Hl. cbn [d_log] in Hl. rewrite app_length in Hl.
      destruct (concat log); [reflexivity|]. cbn [length] in Hl. lia. }
    assert (Hlen : length (s ++ p) = (length (concat log) + length held + length p)%nat).
    { rewrite Hs. unfold d_flat. cbn [d_log]. rewrite !app_length. lia. }
    assert (Hss : s ++ p = concat log ++ held ++ p).
    { rewrite Hs. unfold d_flat. cbn [d_log]. rewrite <- app_assoc. reflexivity. }
    rewrite Hss. clear Hss.
    remember (Nat.min 4 (length (concat log ++ held ++ p))) as M eqn:HM.
    rewrite !app_length in HM.
    assert (Hcl : (length held < 4)%nat -> length (concat log) = O).
    { intros H. destruct (Hfl H) as [->| ->]; reflexivity. }
    destruct (list_le4 p Hp) as [->|[[p1 ->]|[[p1 [p2 ->]]|[[p1 [p2 [p3 ->]]]|[p1 [p2 [p3 [p4 ->]]]]]]]];
    destruct (list_le4 held Hh4) as [->|[[a ->]|[[a [b ->]]|[[a [b [c ->]]]|[a [b [c [d ->]]]]]]]];
      cbn [length Nat.add Nat.ltb Nat.leb Nat.sub firstn skipn app repeat cb_flush cb_err cb_dst cb_buf cb_n dst_write d_left
           copy_into fst snd Nat.min d_log];
      (split; [|reflexivity]);
      (split; [reflexivity|split; [reflexivity|]]);
      cbn [length] in Hcl, Hlen, HM;
      match goal with |- exists h, concat log ++ ?x = _ /\ _ => exists (skipn (length x - 4) x) end;
      cbn [length Nat.sub skipn];
      (split; [unfold d_flat; cbn [d_log]; rewrite ?concat_app; cbn [concat app]; rewrite ?app_nil_r, <- ?app_assoc; cbn [app]; reflexivity|]);
      (split; [cbn [length]; lia|split; reflexivity]).
Qed.

