Require Import Bytes Stream Check Frame Extracted ExtractedOk Cipher BytesProofs StreamProofs.
From Coq Require Import ZifyBool ZifyN ZifyNat.
Open Scope N_scope.
Ltac Zify.zify_post_hook ::= Z.div_mod_to_equations.

(* ---------- bit lemmas ---------- *)
Lemma testbit_small a n k : a < 2 ^ k -> k <= n -> N.testbit a n = false.
Proof.
  intros Ha Hk. destruct (N.eq_dec a 0) as [->|Hn]; [apply N.bits_0|].
  apply N.bits_above_log2. apply N.log2_lt_pow2; [lia|].
  eapply N.lt_le_trans; [exact Ha|]. apply N.pow_le_mono_r; lia.
Qed.

Lemma add_shift_lor a z k : a < 2 ^ k -> a + 2 ^ k * z = N.lor a (N.shiftl z k).
Proof.
  intros Ha. rewrite N.shiftl_mul_pow2, (N.mul_comm z).
  assert (L: N.land a (2 ^ k * z) = 0).
  { apply N.bits_inj; intro n. rewrite N.land_spec, N.bits_0.
    destruct (N.ltb_spec n k).
    - rewrite (N.mul_comm (2^k)). rewrite N.mul_pow2_bits_low by assumption. apply andb_false_r.
    - rewrite (testbit_small a n k Ha) by assumption. reflexivity. }
  symmetry. rewrite <- N.lxor_lor by exact L. symmetry. apply N.add_nocarry_lxor. exact L.
Qed.

Lemma lxor_lt_pow2 a b k : a < 2 ^ k -> b < 2 ^ k -> N.lxor a b < 2 ^ k.
Proof.
  intros Ha Hb. destruct (N.eq_dec (N.lxor a b) 0) as [->|Hn]; [apply N.neq_0_lt_0, N.pow_nonzero; lia|].
  apply N.log2_lt_pow2; [lia|]. eapply N.le_lt_trans; [apply N.log2_lxor|].
  destruct (N.eq_dec a 0) as [->|Ha0]; destruct (N.eq_dec b 0) as [->|Hb0].
  - exfalso. apply Hn. reflexivity.
  - rewrite N.max_r by apply N.le_0_l. apply N.log2_lt_pow2; [lia|exact Hb].
  - rewrite N.max_l by apply N.le_0_l. apply N.log2_lt_pow2; [lia|exact Ha].
  - apply N.max_lub_lt; apply N.log2_lt_pow2; try lia; assumption.
Qed.

Lemma lxor_split_k k b c x y : b < 2 ^ k -> c < 2 ^ k ->
  N.lxor (b + 2 ^ k * x) (c + 2 ^ k * y) = N.lxor b c + 2 ^ k * N.lxor x y.
Proof.
  intros Hb Hc.
  rewrite (add_shift_lor b x k Hb), (add_shift_lor c y k Hc),
          (add_shift_lor _ (N.lxor x y) k (lxor_lt_pow2 b c k Hb Hc)).
  apply N.bits_inj; intro n.
  rewrite !N.lxor_spec, !N.lor_spec, !N.lxor_spec.
  destruct (N.ltb_spec n k).
  - rewrite !N.shiftl_spec_low by assumption. rewrite !orb_false_r. reflexivity.
  - rewrite !N.shiftl_spec_high' by assumption. rewrite N.lxor_spec.
    rewrite (testbit_small b n k Hb), (testbit_small c n k Hc) by assumption. reflexivity.
Qed.

Lemma lxor_split b c x y : b < 256 -> c < 256 ->
  N.lxor (b + 256 * x) (c + 256 * y) = N.lxor b c + 256 * N.lxor x y.
Proof. exact (lxor_split_k 8 b c x y). Qed.

Lemma lxor_byte b c : b < 256 -> c < 256 -> N.lxor b c < 256.
Proof. exact (lxor_lt_pow2 b c 8). Qed.

(* ---------- little endian ---------- *)
Fixpoint xor_lists (a b : list byte) : list byte :=
  match a, b with
  | x :: a', y :: b' => N.lxor x y :: xor_lists a' b'
  | _, _ => []
  end.

Lemma le_val_xor a : forall b, length a = length b -> wf_bytes a -> wf_bytes b ->
  N.lxor (le_val a) (le_val b) = le_val (xor_lists a b).
Proof.
  induction a as [|x a IH]; intros [|y b] Hl Ha Hb; try (simpl in Hl; lia); [reflexivity|].
  cbn [le_val xor_lists]. inversion Ha; inversion Hb; subst.
  rewrite lxor_split by assumption. rewrite IH by (try assumption; simpl in Hl; lia). reflexivity.
Qed.

Lemma le_bytes_le_val l : wf_bytes l -> le_bytes (length l) (le_val l) = l.
Proof.
  induction 1 as [|b l Hb Hl IH]; [reflexivity|].
  cbn [length le_bytes le_val]. unfold wf_byte in Hb.
  replace ((b + 256 * le_val l) mod 256) with b by lia.
  replace ((b + 256 * le_val l) / 256) with (le_val l) by lia. rewrite IH. reflexivity.
Qed.

Lemma le_val_app a b : le_val (a ++ b) = le_val a + 256 ^ len a * le_val b.
Proof.
  induction a as [|x a IH]; cbn [app le_val].
  - unfold len. cbn [length N.of_nat]. change (256 ^ 0) with 1. lia.
  - rewrite IH. rewrite len_cons. rewrite N.pow_add_r. change (256^1) with 256. ring.
Qed.

Lemma le_val_bound l : wf_bytes l -> le_val l < 256 ^ len l.
Proof.
  induction 1 as [|b l Hb Hl IH]; cbn [le_val]; [unfold len; simpl; lia|].
  rewrite len_cons, N.pow_add_r. change (256^1) with 256. unfold wf_byte in Hb. nia.
Qed.

Lemma xor_lists_wf a : forall b, wf_bytes a -> wf_bytes b -> wf_bytes (xor_lists a b).
Proof.
  induction a as [|x a IH]; intros [|y b] Ha Hb; cbn [xor_lists]; try constructor.
  - inversion Ha; inversion Hb; subst. apply lxor_byte; assumption.
  - inversion Ha; inversion Hb; subst. apply IH; assumption.
Qed.
Lemma xor_lists_length a : forall b, length a = length b -> length (xor_lists a b) = length a.
Proof. induction a as [|x a IH]; intros [|y b] H; simpl in *; try lia. rewrite IH; lia. Qed.

(* ---------- the spec ---------- *)
Lemma byte_loop_is_spec p key off : byte_loop p key off = mask_spec p key off.
Proof. revert off. induction p as [|b r IH]; intros off; cbn [byte_loop mask_spec]; [reflexivity|]. rewrite IH. reflexivity. Qed.

Lemma mask_spec_app a b key off :
  mask_spec (a ++ b) key off = mask_spec a key off ++ mask_spec b key (off + len a).
Proof.
  revert off. induction a as [|x a IH]; intros off; cbn [app mask_spec].
  - rewrite len_nil, N.add_0_r. reflexivity.
  - rewrite IH. rewrite len_cons. replace (off + 1 + len a) with (off + (1 + len a)) by lia. reflexivity.
Qed.

Lemma mask_spec_period p key off off' : off mod 4 = off' mod 4 -> mask_spec p key off = mask_spec p key off'.
Proof.
  revert off off'. induction p as [|b r IH]; intros off off' H; cbn [mask_spec]; [reflexivity|].
  rewrite H. f_equal. apply IH. lia.
Qed.

Lemma mask_spec_length p key off : length (mask_spec p key off) = length p.
Proof. revert off. induction p as [|b r IH]; intros off; cbn [mask_spec length]; [reflexivity|]. rewrite IH. reflexivity. Qed.

Lemma mask_spec_involutive p key off : mask_spec (mask_spec p key off) key off = p.
Proof.
  revert off. induction p as [|b r IH]; intros off; cbn [mask_spec]; [reflexivity|].
  rewrite IH. f_equal. rewrite N.lxor_assoc, N.lxor_nilpotent, N.lxor_0_r. reflexivity.
Qed.

Lemma nthb_wf key i : wf_bytes key -> nthb key i < 256.
Proof.
  intros H. unfold nthb. destruct (Nat.lt_ge_cases (N.to_nat i) (length key)) as [Hl|Hl].
  - apply (proj1 (Forall_forall _ _) H). apply nth_In. exact Hl.
  - rewrite nth_overflow by exact Hl. lia.
Qed.

Lemma mask_spec_wf p key off : wf_bytes p -> wf_bytes key -> wf_bytes (mask_spec p key off).
Proof.
  intros Hp Hk. revert off. induction Hp as [|b r Hb Hr IH]; intros off; cbn [mask_spec]; constructor.
  - apply lxor_byte; [exact Hb|apply nthb_wf, Hk].
  - apply IH.
Qed.

(* ---------- the 64-bit word step ---------- *)
Definition wf_key (key : list byte) : Prop := length key = 4%nat /\ wf_bytes key.

Lemma key_m64_le key : wf_key key -> key_m64 key = le_val (key ++ key).
Proof.
  intros [Hl Hw]. unfold key_m64, key_m32. rewrite (firstn_all2 key) by lia.
  rewrite le_val_app. unfold len. rewrite Hl. change (256 ^ N.of_nat 4) with (2 ^ 32).
  rewrite N.lor_comm. symmetry. apply add_shift_lor.
  pose proof (le_val_bound key Hw) as B. unfold len in B. rewrite Hl in B. exact B.
Qed.

Lemma xor_lists_spec8 c key : length c = 8%nat -> wf_key key ->
  xor_lists c (key ++ key) = mask_spec c key 0.
Proof.
  intros Hc [Hl Hw].
  destruct key as [|k0 [|k1 [|k2 [|k3 [|? ?]]]]]; try (simpl in Hl; lia).
  destruct c as [|c0 [|c1 [|c2 [|c3 [|c4 [|c5 [|c6 [|c7 [|? ?]]]]]]]]]; try (simpl in Hc; lia).
  reflexivity.
Qed.

Lemma word8_spec c key : length c = 8%nat -> wf_bytes c -> wf_key key ->
  le_bytes 8 (N.lxor (le_val c) (key_m64 key)) = mask_spec c key 0.
Proof.
  intros Hc Hw Hk. rewrite (key_m64_le key Hk). destruct Hk as [Hl Hkw].
  assert (Hkk: wf_bytes (key ++ key)) by (apply wf_bytes_app; split; assumption).
  rewrite le_val_xor by (try assumption; rewrite app_length; lia).
  rewrite <- (xor_lists_spec8 c key Hc (conj Hl Hkw)).
  replace 8%nat with (length (xor_lists c (key ++ key))) at 1
    by (rewrite xor_lists_length; rewrite ?app_length; lia).
  apply le_bytes_le_val. apply xor_lists_wf; assumption.
Qed.

Lemma word16_spec c key : length c = 16%nat -> wf_bytes c -> wf_key key ->
  word16 c key = mask_spec c key 0.
Proof.
  intros Hc Hw Hk. unfold word16.
  rewrite <- (firstn_skipn 8 c) at 3. rewrite mask_spec_app.
  assert (L1: length (firstn 8 c) = 8%nat) by (rewrite firstn_length; lia).
  assert (L2: length (skipn 8 c) = 8%nat) by (rewrite skipn_length; lia).
  assert (W1: wf_bytes (firstn 8 c)) by (apply (wf_bytes_take 8 c Hw)).
  assert (W2: wf_bytes (skipn 8 c)) by (apply (wf_bytes_drop 8 c Hw)).
  rewrite (firstn_all2 (skipn 8 c)) by lia.
  rewrite (word8_spec _ key L1 W1 Hk), (word8_spec _ key L2 W2 Hk).
  f_equal. apply mask_spec_period. unfold len. rewrite L1. reflexivity.
Qed.

Lemma word_loop_spec k : forall p key, length p = (16 * k)%nat -> wf_bytes p -> wf_key key ->
  word_loop k p key = mask_spec p key 0.
Proof.
  induction k as [|k IH]; intros p key Hl Hw Hk; cbn [word_loop].
  - destruct p; [reflexivity|simpl in Hl; lia].
  - rewrite <- (firstn_skipn 16 p) at 3. rewrite mask_spec_app.
    assert (L1: length (firstn 16 p) = 16%nat) by (rewrite firstn_length; lia).
    assert (L2: length (skipn 16 p) = (16 * k)%nat) by (rewrite skipn_length; lia).
    rewrite (word16_spec _ key L1 (wf_bytes_take 16 p Hw) Hk).
    rewrite (IH _ key L2 (wf_bytes_drop 16 p Hw) Hk).
    f_equal. apply mask_spec_period. unfold len. rewrite L1. reflexivity.
Qed.

(* word loop on a prefix: only the first 16*k bytes matter *)
Lemma word_loop_prefix k : forall p key, (16 * k <= length p)%nat ->
  word_loop k p key = word_loop k (firstn (16 * k) p) key.
Proof.
  induction k as [|k IH]; intros p key Hl; cbn [word_loop]; [reflexivity|].
  rewrite firstn_firstn. replace (Init.Nat.min 16 (16 * S k)) with 16%nat by lia.
  f_equal. rewrite (IH (skipn 16 p)) by (rewrite skipn_length; lia).
  rewrite (IH (skipn 16 (firstn (16 * S k) p))) by (rewrite skipn_length, firstn_length; lia).
  f_equal. rewrite skipn_firstn_comm. rewrite firstn_firstn. f_equal. lia.
Qed.

(* ---------- main theorem ---------- *)
Lemma remain_aligns mpos : mpos < 4 -> (mpos + nthb remain mpos) mod 4 = 0 /\ nthb remain mpos < 4.
Proof.
  intros H. rewrite ok_remain.
  assert (E: mpos = 0 \/ mpos = 1 \/ mpos = 2 \/ mpos = 3) by lia.
  destruct E as [ -> | [ -> | [ -> | -> ] ] ]; split; reflexivity.
Qed.

Theorem cipher_is_spec p key off : wf_bytes p -> wf_key key ->
  cipher p key off = mask_spec p key off.
Proof.
  intros Hp Hk. unfold cipher.
  destruct (len p <? 8) eqn:E8; [apply byte_loop_is_spec|].
  set (n := len p). set (mpos := off mod 4).
  assert (Hmpos: mpos < 4) by (unfold mpos; apply N.mod_lt; lia).
  destruct (remain_aligns mpos Hmpos) as [Hal Hln]. set (ln := nthb remain mpos) in *.
  set (rn := (n - ln) mod 16).
  assert (Hn: 8 <= n) by (unfold n; lia).
  assert (Hrn: rn < 16) by (unfold rn; apply N.mod_lt; lia).
  set (mid := n - ln - rn).
  assert (Hmid: mid = 16 * ((n - ln) / 16)) by (unfold mid, rn; lia).
  assert (Hit: N.shiftr mid 4 = (n - ln) / 16).
  { rewrite N.shiftr_div_pow2. change (2^4) with 16. lia. }
  rewrite Hit. set (k := (n - ln) / 16) in *.
  (* split p = head ++ middle ++ tail *)
  assert (Hsplit: p = take ln p ++ take mid (drop ln p) ++ drop (n - rn) p).
  { rewrite <- (take_drop ln p) at 1. f_equal.
    rewrite <- (take_drop mid (drop ln p)) at 1. f_equal.
    unfold drop. rewrite skipn_skipn_add. f_equal. unfold mid, n. lia. }
  rewrite !byte_loop_is_spec.
  rewrite Hsplit at 4. rewrite !mask_spec_app.
  assert (Lh: len (take ln p) = ln) by (rewrite len_take; unfold n in *; lia).
  assert (Lm: len (take mid (drop ln p)) = mid) by (rewrite len_take, len_drop; unfold mid, n in *; lia).
  rewrite Lh, Lm.
  f_equal; [apply mask_spec_period; unfold mpos; rewrite N.mod_mod by lia; reflexivity|].
  f_equal.
  - rewrite word_loop_prefix by (pose proof (len_drop ln p) as LD; unfold n, len in *; lia).
    replace (firstn (16 * N.to_nat k) (drop ln p)) with (take mid (drop ln p))
      by (unfold take; f_equal; lia).
    rewrite word_loop_spec; [| unfold len in Lm; lia | apply wf_bytes_take, wf_bytes_drop, Hp | exact Hk].
    apply mask_spec_period. unfold mpos in Hal. lia.
  - rewrite byte_loop_is_spec. apply mask_spec_period. unfold mid, mpos. lia.
Qed.

(* ---------- streaming writer: any split of the payload into writes ---------- *)
Lemma cw_writes_spec ps : forall c, Forall wf_bytes ps -> wf_key (cw_key c) ->
  concat (cw_writes ps c) = mask_spec (concat ps) (cw_key c) (cw_pos c)
  /\ length (cw_writes ps c) = length ps.
Proof.
  induction ps as [|p ps IH]; intros c Hps Hk; cbn [cw_writes concat]; [split; reflexivity|].
  inversion Hps as [|? ? Hp Hps']; subst. unfold cw_write.
  destruct (IH (mkCW (cw_key c) (cw_pos c + len p)) Hps' Hk) as [IH1 IH2].
  cbn [concat length]. rewrite IH1. cbn [cw_key cw_pos]. rewrite cipher_is_spec by assumption.
  rewrite mask_spec_app. split; [reflexivity|]. rewrite IH2. reflexivity.
Qed.

(* each destination write is the masked image of that call's bytes, same length:
   the caller's slice is an input of the model and is never part of its output *)
Lemma cw_write_spec p c : wf_bytes p -> wf_key (cw_key c) ->
  fst (cw_write p c) = mask_spec p (cw_key c) (cw_pos c)
  /\ cw_pos (snd (cw_write p c)) = cw_pos c + len p.
Proof. intros Hp Hk. unfold cw_write. cbn [fst snd cw_pos]. rewrite cipher_is_spec by assumption. split; reflexivity. Qed.

(* ---------- streaming reader: any source chunking, any caller buffer sizes ---------- *)
Lemma read1_props k s : wf_src s -> 0 < k ->
  let '((b, e), s') := read1 k s in
  match e with
  | Some e => b = [] /\ flat s = [] /\ e = (match tl s with TEOF => EEOF | TFail => EFail end)
  | None => b <> [] /\ flat s = b ++ flat s' /\ wf_src s' /\ tl s' = tl s
  end.
Proof.
  intros Hwf Hk. unfold read1, flat, wf_src in *. destruct (chunks s) as [|c cs] eqn:E.
  - repeat split; reflexivity.
  - inversion Hwf as [|? ? Hc Hcs]; subst.
    destruct (k <? len c) eqn:Ek; cbn [chunks tl concat].
    + repeat split.
      * intro H. apply (f_equal len) in H. rewrite len_take in H. unfold len in H at 2. simpl in H.
        assert (len c <> 0) by (destruct c; [contradiction|rewrite len_cons; lia]). lia.
      * rewrite app_assoc. rewrite take_drop. reflexivity.
      * constructor; [|assumption]. intro H. apply (f_equal len) in H. rewrite len_drop in H.
        unfold len in H at 2. simpl in H. lia.
    + repeat split; assumption.
Qed.

Lemma cr_drive_spec fuel : forall bufs all c acc, wf_src (cr_src c) -> wf_bytes (flat (cr_src c)) ->
  wf_key (cr_key c) -> (length (flat (cr_src c)) < fuel)%nat ->
  cr_drive fuel bufs all c acc =
  (acc ++ mask_spec (flat (cr_src c)) (cr_key c) (cr_pos c),
   Some (match tl (cr_src c) with TEOF => EEOF | TFail => EFail end)).
Proof.
  induction fuel as [|f IH]; intros bufs all c acc Hwf Hb Hk Hf; [lia|].
  cbn [cr_drive].
  set (kb := match bufs with
             | [] => match all with [] => (1, []) | k :: r => (k, r) end
             | k :: r => (k, r) end).
  destruct kb as [k0 bufs']. set (k := if k0 =? 0 then 1 else k0).
  assert (Hkpos: 0 < k) by (unfold k; destruct (k0 =? 0) eqn:?; lia).
  unfold cr_read. pose proof (read1_props k (cr_src c) Hwf Hkpos) as R.
  destruct (read1 k (cr_src c)) as [[b e] s']. destruct e as [e|].
  - destruct R as (-> & Hfl & ->). rewrite Hfl. cbn [mask_spec]. 
    assert (C0: cipher [] (cr_key c) (cr_pos c) = []) by reflexivity. rewrite C0. reflexivity.
  - destruct R as (Hne & Hfl & Hw' & Ht').
    assert (Hbw: wf_bytes b /\ wf_bytes (flat s')) by (rewrite Hfl in Hb; apply wf_bytes_app in Hb; exact Hb).
    destruct Hbw as [Hbw Hsw].
    rewrite IH; cbn [cr_src cr_key cr_pos]; try assumption.
    + rewrite cipher_is_spec by assumption. rewrite Hfl, mask_spec_app, Ht', app_assoc. reflexivity.
    + rewrite Hfl, app_length in Hf. destruct b; [contradiction|]. simpl in Hf. lia.
Qed.
